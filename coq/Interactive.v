(** Model of InteractiveBfs (algo/interactive_bfs.py) and MeetInTheMiddle.find_path_between. *)
From Coq Require Import ZArith List Bool Arith Lia.
From V Require Import Base W64 Tensor GraphImpl Def Paths.
Import ListNotations.
Open Scope Z_scope.

Record ibfs := { cur_layer : list state; ihashes : list (list Z) (* oldest first *) }.

Section Interactive.
  Variable G : impl.

  (* __init__: de-duplicated, hash-sorted start layer *)
  Definition ibfs_init (starts : list state) : ibfs :=
    let '(l, h) := get_unique_states G starts (hashes G starts) in
    {| cur_layer := l; ihashes := [h] |}.

  (* _remove_seen_states: last, last but one, and (directed graphs) all earlier layers *)
  Definition ibfs_remove_seen (b : ibfs) (hs : list Z) : list bool :=
    let r := rev (ihashes b) in     (* newest first *)
    let consider := if inv_closed G then firstn 2 r else r in
    map (fun h => negb (existsb (fun layer => isin_ss1 layer h) consider)) hs.

  Definition ibfs_step (b : ibfs) : ibfs :=
    let nb := get_neighbors G (cur_layer b) in
    let '(nl, nlh) := get_unique_states G nb (hashes G nb) in
    let mask := ibfs_remove_seen b nlh in
    {| cur_layer := mask_select nl mask; ihashes := ihashes b ++ [mask_select nlh mask] |}.

  (* find_on_last_layer(hashes): first state of the last layer whose hash is in the (sorted) argument *)
  Definition find_on_last_layer (b : ibfs) (hs : list Z) : option state :=
    let mask := isin_ss (last (ihashes b) []) hs in
    match first_true mask with
    | None => None
    | Some i => Some (nth i (cur_layer b) [])
    end.
End Interactive.

Section Between.
  Variable G : impl.
  Variable Ginv : impl.

  Definition nth_from_end {A} (l : list A) (i : nat) (d : A) : A := nth (length l - i) l d.   (* l[-i] *)
  Definition drop_last {A} (l : list A) (i : nat) : list A := firstn (length l - i) l.          (* l[:-i] *)

  (* one synchronous round of find_path_between; inr = return *)
  Definition between_iter (st : ibfs * ibfs) : (ibfs * ibfs) + result (option (state * list nat)) :=
    let '(b1, b2) := st in
    let b1 := ibfs_step G b1 in
    let b2 := ibfs_step Ginv b2 in
    (* for i in [2, 1]: intersect last layer of bfs1 with bfs2.hashes[-i] *)
    let try_i (i : nat) : option (state * result (list nat)) :=
      match find_on_last_layer b1 (nth_from_end (ihashes b2) i []) with
      | None => None
      | Some mid => Some (mid, restore_path Ginv G (drop_last (ihashes b2) i) mid)
      end in
    match (match try_i 2%nat with Some r => Some r | None => try_i 1%nat end) with
    | None => inl (b1, b2)
    | Some (mid, rp2) =>
        inr (do path2 <- rp2;
             do path1 <- restore_path G Ginv (drop_last (ihashes b1) 1) mid;
             (* start_state = graph_inv.apply_path(mid_state, path1[::-1]) *)
             let start := fold_left (fun s i => nth i (acts Ginv) (fun x => x) s) (rev path1) mid in
             Ok (Some (start, path1 ++ rev path2)))
    end.

  Definition find_path_between (starts dests : list state) (max_diameter : N)
    : result (option (state * list nat)) :=
    let b1 := ibfs_init G starts in
    let b2 := ibfs_init Ginv dests in
    match find_on_last_layer b1 (last (ihashes b2) []) with
    | Some mid => Ok (Some (mid, []))
    | None =>
        match loop_N between_iter max_diameter (b1, b2) with
        | inl _ => Ok None
        | inr r => r
        end
    end.
End Between.
