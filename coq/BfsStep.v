(** Step-level specifications of the BFS model (Bfs.v): what get_unique_states, the seen-mask,
    apply_mask, expand_plain and expand_batched compute, assuming no hash collision on the
    set U of states the run can touch. *)
From Coq Require Import ZArith List Bool Arith Lia Permutation Sorted.
From V Require Import Base BaseProofs Tensor TensorProofs Graph GraphProofs GraphImpl Bfs.
Import ListNotations.

Definition st_eq_dec : forall a b : state, {a = b} + {a <> b} := list_eq_dec Z.eq_dec.
Definition set_eq (a b : list state) : Prop := forall t, In t a <-> In t b.

(* ------------------------------------------------------------------ *)
(** * Generic list facts *)

Lemma SSlt_NoDup l : StronglySorted Z.lt l -> NoDup l.
Proof.
  induction 1 as [|a l Hs IH Hf]; constructor; auto.
  intro Hin. rewrite Forall_forall in Hf. specialize (Hf _ Hin). lia.
Qed.

Lemma SSlt_le l : StronglySorted Z.lt l -> sortedZ l.
Proof.
  unfold sortedZ. induction 1 as [|a l Hs IH Hf]; constructor; auto.
  eapply Forall_impl; [|exact Hf]. intros x Hx. simpl in Hx. lia.
Qed.

Lemma SSle_NoDup_lt l : sortedZ l -> NoDup l -> StronglySorted Z.lt l.
Proof.
  unfold sortedZ. induction 1 as [|a l Hs IH Hf]; intros Hnd; constructor.
  - inversion Hnd; auto.
  - inversion Hnd as [|? ? Hni Hnd']; subst. rewrite Forall_forall in *. intros x Hx.
    specialize (Hf x Hx). assert (a <> x) by (intro; subst; auto). lia.
Qed.

Lemma SS_map {A B} (R : B -> B -> Prop) (f : A -> B) l :
  StronglySorted (fun a b => R (f a) (f b)) l -> StronglySorted R (map f l).
Proof.
  induction 1 as [|a l Hs IH Hf]; simpl; constructor; auto.
  rewrite Forall_forall in *. intros y Hy. apply in_map_iff in Hy.
  destruct Hy as (x & <- & Hx). apply Hf. exact Hx.
Qed.

Lemma mask_select_filter {A} (p : A -> bool) l : mask_select l (map p l) = filter p l.
Proof.
  induction l as [|a l IH]; simpl; auto. destruct (p a); rewrite IH; auto.
Qed.

Lemma NoDup_map_inj_on {A B} (f : A -> B) l :
  NoDup l -> (forall a b, In a l -> In b l -> f a = f b -> a = b) -> NoDup (map f l).
Proof.
  induction 1 as [|a l Hni Hnd IH]; intros Hinj; simpl; constructor.
  - intro Hin. apply in_map_iff in Hin. destruct Hin as (b & Hb & Hin).
    assert (b = a) by (apply Hinj; simpl; auto). subst. contradiction.
  - apply IH. intros x y Hx Hy. apply Hinj; simpl; auto.
Qed.

Lemma NoDup_app_intro {A} (l1 l2 : list A) :
  NoDup l1 -> NoDup l2 -> (forall t, In t l1 -> In t l2 -> False) -> NoDup (l1 ++ l2).
Proof.
  induction 1 as [|a l Hni Hnd IH]; intros H2 Hd; simpl; auto.
  constructor.
  - rewrite in_app_iff. intros [H | H]; [contradiction | apply (Hd a); simpl; auto].
  - apply IH; auto. intros t Ht. apply Hd. simpl; auto.
Qed.

Lemma combine_map_r {A B} (f : A -> B) l : combine l (map f l) = map (fun s => (s, f s)) l.
Proof. induction l as [|a l IH]; simpl; [reflexivity | rewrite IH; reflexivity]. Qed.

Lemma nth_skipn_add {A} (d : A) m : forall l k, nth k (skipn m l) d = nth (m + k) l d.
Proof.
  induction m as [|m IH]; intros l k; simpl; auto.
  destruct l as [|a l]; simpl; [destruct k; reflexivity | apply IH].
Qed.

Lemma get_neighbors_spec G l t :
  In t (get_neighbors G l) <-> exists x g, In x l /\ In g (acts G) /\ t = g x.
Proof.
  unfold get_neighbors. rewrite in_flat_map. split.
  - intros (g & Hg & H). apply in_map_iff in H. destruct H as (x & Hx & Hin).
    exists x, g. auto.
  - intros (x & g & Hx & Hg & ->). exists g. split; auto. apply in_map. exact Hx.
Qed.

Lemma get_neighbors_N G l t : In t (get_neighbors G l) <-> In t (N state (acts G) l).
Proof. rewrite get_neighbors_spec, N_spec. reflexivity. Qed.

Lemma get_neighbors_app G l1 l2 t :
  In t (get_neighbors G (l1 ++ l2)) <-> In t (get_neighbors G l1) \/ In t (get_neighbors G l2).
Proof.
  rewrite !get_neighbors_spec. split.
  - intros (x & g & Hx & Hg & ->). apply in_app_iff in Hx. destruct Hx; [left | right]; eauto.
  - intros [(x & g & Hx & Hg & ->) | (x & g & Hx & Hg & ->)]; exists x, g; rewrite in_app_iff; auto.
Qed.

(* ------------------------------------------------------------------ *)
(** * The step-level specifications *)

Section Step.
  Variable G : impl.
  Variable U : state -> Prop.
  Hypothesis U_closed : closed state (acts G) U.
  Hypothesis NoColl : forall a b, U a -> U b -> hashf G a = hashf G b -> a = b.
  Hypothesis IdOK : is_identity G = true -> forall a, U a -> unword G (hashf G a) = a.

  Local Notation hf := (hashf G).

  Lemma neighbors_U l : (forall s, In s l -> U s) -> forall t, In t (get_neighbors G l) -> U t.
  Proof.
    intros Hl t Ht. apply get_neighbors_spec in Ht. destruct Ht as (x & g & Hx & Hg & ->).
    apply U_closed; auto.
  Qed.

  (** B1: get_unique_states *)
  Lemma gus_spec states u uh :
    (forall s, In s states -> U s) ->
    get_unique_states G states (hashes G states) = (u, uh) ->
    NoDup u /\ (forall t, In t u <-> In t states) /\ uh = map hf u /\ StronglySorted Z.lt uh.
  Proof.
    intros HU. unfold get_unique_states, hashes.
    destruct (is_identity G) eqn:Eid.
    - (* identity hash: states are rebuilt from the unique sorted hashes *)
      intros H. inversion H; subst u uh; clear H.
      destruct (unique_sorted_spec (map hf states)) as [Hs Hin].
      set (u0 := unique_sorted (map hf states)) in *.
      assert (Hal : map hf (map (unword G) u0) = u0).
      { rewrite map_map. rewrite <- (map_id u0) at 2. apply map_ext_in.
        intros x Hx. apply Hin in Hx. apply in_map_iff in Hx. destruct Hx as (s & <- & Hs').
        rewrite IdOK; auto. }
      split; [|split; [|split]].
      + apply (NoDup_map_inv hf). rewrite Hal. apply SSlt_NoDup. exact Hs.
      + intros t. rewrite in_map_iff. split.
        * intros (x & <- & Hx). apply Hin in Hx. apply in_map_iff in Hx.
          destruct Hx as (s & <- & Hs'). rewrite IdOK; auto.
        * intros Ht. exists (hf t). split; [apply IdOK; auto|].
          apply Hin. apply in_map. exact Ht.
      + symmetry. exact Hal.
      + exact Hs.
    - (* general hash: stable sort of (state, hash) pairs by hash, first of each run kept *)
      intros H. inversion H; subst u uh; clear H.
      set (c := combine states (map hf states)).
      set (srt := stable_sort snd c).
      set (d := dedup_adjacent snd srt).
      assert (Hc : forall p, In p c -> snd p = hf (fst p) /\ In (fst p) states).
      { intros p Hp. unfold c in Hp. rewrite combine_map_r in Hp. apply in_map_iff in Hp.
        destruct Hp as (s & <- & Hs). simpl. auto. }
      assert (Hperm : Permutation srt c) by apply stable_sort_perm.
      assert (Hd : forall p, In p d -> In p c).
      { intros p Hp. apply dedup_adjacent_incl in Hp. eapply Permutation_in; eauto. }
      assert (Hstrict : strictly_by snd d).
      { apply dedup_adjacent_strict. apply stable_sort_sorted. }
      assert (Hal : map snd d = map hf (map fst d)).
      { rewrite map_map. apply map_ext_in. intros p Hp. apply Hc. apply Hd. exact Hp. }
      assert (Hss : StronglySorted Z.lt (map snd d)) by (apply SS_map; exact Hstrict).
      split; [|split; [|split]].
      + apply (NoDup_map_inv hf). rewrite <- Hal. apply SSlt_NoDup. exact Hss.
      + intros t. split.
        * intros Ht. apply in_map_iff in Ht. destruct Ht as (p & <- & Hp).
          apply Hc. apply Hd. exact Hp.
        * intros Ht.
          assert (Hk : In (hf t) (map snd d)).
          { apply dedup_adjacent_keys.
            eapply Permutation_in; [apply Permutation_map; symmetry; exact Hperm|].
            unfold c. rewrite combine_map_r, map_map. simpl.
            apply in_map_iff. exists t. auto. }
          apply in_map_iff in Hk. destruct Hk as (p & Hp & Hpd).
          destruct (Hc p (Hd p Hpd)) as [Hh Hin].
          assert (fst p = t).
          { apply NoColl; auto. congruence. }
          subst t. apply in_map. exact Hpd.
      + exact Hal.
      + exact Hss.
  Qed.

  (** B2: the seen-mask *)
  Definition seenb (seen : list (list Z)) (h : Z) : bool :=
    existsb (fun layer => isin_ss1 layer h) seen.

  Lemma seenb_iff seen h :
    (forall lay, In lay seen -> sortedZ lay) ->
    (seenb seen h = true <-> exists lay, In lay seen /\ In h lay).
  Proof.
    intros Hs. unfold seenb. rewrite existsb_exists. split.
    - intros (lay & Hl & Hi). exists lay. split; auto. apply isin_ss1_sorted in Hi; auto.
    - intros (lay & Hl & Hi). exists lay. split; auto. apply isin_ss1_sorted; auto.
  Qed.

  Lemma seenb_false_iff seen h :
    (forall lay, In lay seen -> sortedZ lay) ->
    (seenb seen h = false <-> forall lay, In lay seen -> ~ In h lay).
  Proof.
    intros Hs. rewrite <- not_true_iff_false, seenb_iff by exact Hs. split.
    - intros Hn lay Hl Hi. apply Hn. eauto.
    - intros Hn (lay & Hl & Hi). eapply Hn; eauto.
  Qed.

  Lemma remove_seen_eq seen hs : remove_seen seen hs = map (fun h => negb (seenb seen h)) hs.
  Proof. reflexivity. Qed.

  (** B3: apply_mask on an aligned pair with a pointwise mask is a filter *)
  Lemma apply_mask_spec u (p : Z -> bool) :
    apply_mask G u (map hf u) (map p (map hf u)) =
    (filter (fun s => p (hf s)) u, map hf (filter (fun s => p (hf s)) u)).
  Proof.
    assert (E : mask_select u (map p (map hf u)) = filter (fun s => p (hf s)) u).
    { rewrite map_map. apply mask_select_filter. }
    unfold apply_mask. rewrite E. destruct (is_identity G).
    - reflexivity.
    - rewrite mask_select_map, E. reflexivity.
  Qed.

  Lemma filter_good u (q : state -> bool) :
    NoDup u -> StronglySorted Z.lt (map hf u) ->
    NoDup (filter q u) /\ StronglySorted Z.lt (map hf (filter q u)).
  Proof.
    intros Hnd Hs. split; [apply NoDup_filter; exact Hnd|].
    rewrite <- mask_select_filter, <- mask_select_map. apply mask_select_SSorted. exact Hs.
  Qed.

  (** B4: expand_plain *)
  Lemma expand_plain_spec st l2 l2h nbh :
    (forall s, In s (layer1 st) -> U s) ->
    (forall lay, In lay (seen st) -> sortedZ lay) ->
    expand_plain G st = (l2, l2h, nbh) ->
    NoDup l2 /\ l2h = map hf l2 /\ StronglySorted Z.lt l2h /\
    (forall t, In t l2 <->
       In t (get_neighbors G (layer1 st)) /\ forall lay, In lay (seen st) -> ~ In (hf t) lay).
  Proof.
    intros HU Hseen. unfold expand_plain.
    destruct (get_unique_states G (get_neighbors G (layer1 st))
                (hashes G (get_neighbors G (layer1 st)))) as [u uh] eqn:E.
    apply gus_spec in E; [|apply neighbors_U; exact HU].
    destruct E as (Hnd & Hin & -> & Hs).
    rewrite remove_seen_eq, apply_mask_spec. intros H. inversion H; subst l2 l2h nbh; clear H.
    destruct (filter_good u (fun s => negb (seenb (seen st) (hf s))) Hnd Hs) as [H1 H2].
    split; [exact H1|]. split; [reflexivity|]. split; [exact H2|].
    intros t. rewrite filter_In, negb_true_iff, seenb_false_iff, Hin by exact Hseen. reflexivity.
  Qed.

  (** B5: expand_batched *)
  Lemma fold_mask_eq hss : forall (p : Z -> bool) uh,
    fold_left (fun m other => map (fun '(x, h) => x && negb (isin_ss1 other h)) (combine m uh)) hss (map p uh)
    = map (fun h => p h && forallb (fun other => negb (isin_ss1 other h)) hss) uh.
  Proof.
    induction hss as [|o hss IH]; intros p uh.
    - simpl. apply map_ext. intros h. rewrite andb_true_r. reflexivity.
    - cbn [fold_left].
      assert (E : map (fun '(x, h) => x && negb (isin_ss1 o h)) (combine (map p uh) uh)
                  = map (fun h => p h && negb (isin_ss1 o h)) uh).
      { clear. induction uh as [|h uh IH]; simpl; [reflexivity | rewrite IH; reflexivity]. }
      rewrite E, IH. apply map_ext. intros h. cbn [forallb]. rewrite andb_assoc. reflexivity.
  Qed.

  Lemma forallb_notin hss h :
    (forall o, In o hss -> sortedZ o) ->
    (forallb (fun other => negb (isin_ss1 other h)) hss = true <-> forall o, In o hss -> ~ In h o).
  Proof.
    intros Hs. rewrite forallb_forall. split.
    - intros H o Ho Hi. specialize (H o Ho). apply negb_true_iff in H.
      apply (isin_ss1_sorted o h (Hs o Ho)) in Hi. congruence.
    - intros H o Ho. apply negb_true_iff. apply not_true_iff_false. intros Hi.
      apply (isin_ss1_sorted o h (Hs o Ho)) in Hi. eapply H; eauto.
  Qed.

  Definition BInv (seen : list (list Z)) (P : list state)
             (acc : list (list state) * list (list Z)) : Prop :=
    snd acc = map (map hf) (fst acc) /\
    (forall h, In h (snd acc) -> StronglySorted Z.lt h) /\
    NoDup (concat (fst acc)) /\
    (forall t, In t (concat (fst acc)) <->
       In t (get_neighbors G P) /\ forall lay, In lay seen -> ~ In (hf t) lay).

  Lemma batch_step_eq seen bs hss b u uh :
    get_unique_states G (get_neighbors G b) (hashes G (get_neighbors G b)) = (u, uh) ->
    batch_step G seen (bs, hss) b =
    let m := fold_left (fun m other => map (fun '(x, h) => x && negb (isin_ss1 other h)) (combine m uh))
                       hss (remove_seen seen uh) in
    (bs ++ [fst (apply_mask G u uh m)], hss ++ [snd (apply_mask G u uh m)]).
  Proof. intros E. unfold batch_step. rewrite E. reflexivity. Qed.

  Lemma batch_step_inv seen P acc b :
    (forall s, In s P -> U s) -> (forall s, In s b -> U s) ->
    (forall lay, In lay seen -> sortedZ lay) ->
    BInv seen P acc -> BInv seen (P ++ b) (batch_step G seen acc b).
  Proof.
    intros HP Hb Hseen. destruct acc as [bs hss].
    destruct (get_unique_states G (get_neighbors G b) (hashes G (get_neighbors G b)))
      as [u uh] eqn:E.
    rewrite (batch_step_eq seen bs hss b u uh E).
    apply gus_spec in E; [|apply neighbors_U; exact Hb].
    destruct E as (Hndu & Hin & -> & Hs). cbv zeta.
    rewrite remove_seen_eq, fold_mask_eq, apply_mask_spec.
    unfold BInv. cbn [fst snd].
    intros (Hal & Hsorted & Hnd & Hset).
    set (q := fun s => negb (seenb seen (hf s)) &&
                       forallb (fun other => negb (isin_ss1 other (hf s))) hss).
    destruct (filter_good u q Hndu Hs) as [H1 H2].
    assert (HbsU : forall t, In t (concat bs) -> U t).
    { intros t Ht. apply Hset in Ht. destruct Ht as [Ht _]. exact (neighbors_U P HP t Ht). }
    assert (Hq : forall t, In t (filter q u) <->
               In t (get_neighbors G b) /\ (forall lay, In lay seen -> ~ In (hf t) lay) /\
               ~ In t (concat bs)).
    { intros t. rewrite filter_In. unfold q. rewrite andb_true_iff, negb_true_iff.
      rewrite seenb_false_iff by exact Hseen.
      rewrite forallb_notin by (intros o Ho; apply SSlt_le; auto).
      rewrite Hin. split.
      - intros (Hn & Hsn & Hno). repeat split; auto.
        intros Hc. apply in_concat in Hc. destruct Hc as (x & Hx & Htx).
        apply (Hno (map hf x)); [subst hss; apply in_map; exact Hx | apply in_map; exact Htx].
      - intros (Hn & Hsn & Hnc). repeat split; auto.
        intros o Ho Hi. apply Hnc. subst hss. apply in_map_iff in Ho.
        destruct Ho as (x & <- & Hx). apply in_map_iff in Hi. destruct Hi as (t' & Heq & Ht').
        assert (Hc' : In t' (concat bs)) by (apply in_concat; eauto).
        assert (t' = t).
        { apply NoColl; auto. exact (neighbors_U b Hb t Hn). }
        subst t'. exact Hc'. }
    split; [|split; [|split]].
    - rewrite map_app. simpl. congruence.
    - intros h Hh. apply in_app_iff in Hh. destruct Hh as [Hh | [<- | []]]; auto.
    - rewrite concat_app. simpl. rewrite app_nil_r.
      apply NoDup_app_intro; auto.
      intros t Ht1 Ht2. apply Hq in Ht2. tauto.
    - intros t. rewrite concat_app. simpl. rewrite app_nil_r, in_app_iff, Hset, Hq.
      rewrite get_neighbors_app. split.
      + intros [[Hn Hs'] | (Hn & Hs' & _)]; auto.
      + intros [[Hn | Hn] Hs']; auto.
        destruct (in_dec st_eq_dec t (concat bs)) as [Hc | Hc].
        * left. apply Hset. exact Hc.
        * right. auto.
  Qed.

  Lemma fold_batches_inv seen bl : forall P acc,
    (forall s, In s P -> U s) -> (forall b, In b bl -> forall s, In s b -> U s) ->
    (forall lay, In lay seen -> sortedZ lay) ->
    BInv seen P acc -> BInv seen (P ++ concat bl) (fold_left (batch_step G seen) bl acc).
  Proof.
    induction bl as [|b bl IH]; intros P acc HP Hbl Hseen Hinv.
    - simpl. rewrite app_nil_r. exact Hinv.
    - simpl. rewrite app_assoc. apply IH.
      + intros s Hs. apply in_app_iff in Hs. destruct Hs; [auto | apply (Hbl b); simpl; auto].
      + intros b' Hb'. apply Hbl. simpl; auto.
      + exact Hseen.
      + apply batch_step_inv; auto. apply Hbl; simpl; auto.
  Qed.

  Lemma expand_batched_spec cfg st l2 l2h :
    (forall s, In s (layer1 st) -> U s) ->
    (forall lay, In lay (seen st) -> sortedZ lay) ->
    (0 < Z.to_nat ((lenZ (layer1_h st) + batch_size cfg - 1) / batch_size cfg))%nat ->
    expand_batched G cfg st = (l2, l2h) ->
    NoDup l2 /\ Permutation l2h (map hf l2) /\ StronglySorted Z.lt l2h /\
    (forall t, In t l2 <->
       In t (get_neighbors G (layer1 st)) /\ forall lay, In lay (seen st) -> ~ In (hf t) lay).
  Proof.
    intros HU Hseen Hnb. unfold expand_batched.
    set (nb := Z.to_nat ((lenZ (layer1_h st) + batch_size cfg - 1) / batch_size cfg)) in *.
    assert (Hinv : BInv (seen st) (layer1 st)
                     (fold_left (batch_step G (seen st)) (tensor_split nb (layer1 st)) ([], []))).
    { pose proof (fold_batches_inv (seen st) (tensor_split nb (layer1 st)) [] ([], [])) as H.
      rewrite tensor_split_concat in H by exact Hnb. simpl app in H. apply H.
      - intros s [].
      - intros b Hb s Hs. apply HU. rewrite <- (tensor_split_concat nb (layer1 st) Hnb).
        apply in_concat. eauto.
      - exact Hseen.
      - unfold BInv. simpl fst. simpl snd. split; [reflexivity|]. split; [intros h []|].
        split; [constructor|]. intros t. simpl concat. split; [intros []|].
        intros [Ht _]. apply get_neighbors_spec in Ht. destruct Ht as (x & g & [] & _). }
    destruct (fold_left (batch_step G (seen st)) (tensor_split nb (layer1 st)) ([], []))
      as [bs hss].
    destruct Hinv as (Hal & Hsorted & Hnd & Hset). simpl fst in *. simpl snd in *.
    intros Heq.
    assert (HbsU : forall t, In t (concat bs) -> U t).
    { intros t Ht. apply Hset in Ht. destruct Ht as [Ht _]. exact (neighbors_U _ HU t Ht). }
    assert (Hch : concat hss = map hf (concat bs)).
    { rewrite Hal, concat_map. reflexivity. }
    assert (Hp2 : Permutation (sort_z (concat hss)) (map hf (concat bs))).
    { rewrite <- Hch. apply sort_z_perm. }
    assert (Hndh : NoDup (map hf (concat bs))).
    { apply NoDup_map_inj_on; auto. }
    assert (Hss : StronglySorted Z.lt (sort_z (concat hss))).
    { apply SSle_NoDup_lt; [apply sort_z_sorted|].
      eapply Permutation_NoDup; [symmetry; exact Hp2 | exact Hndh]. }
    assert (Hp1 : Permutation l2 (concat bs)).
    { destruct (is_identity G) eqn:Eid; inversion Heq; subst; [|reflexivity].
      etransitivity; [apply Permutation_map; exact Hp2|].
      rewrite map_map. rewrite <- (map_id (concat bs)) at 2.
      erewrite map_ext_in; [reflexivity|]. intros a Ha. apply IdOK; auto. }
    assert (El2h : l2h = sort_z (concat hss)) by (inversion Heq; reflexivity).
    subst l2h. split; [|split; [|split]].
    - eapply Permutation_NoDup; [symmetry; exact Hp1 | exact Hnd].
    - etransitivity; [exact Hp2|]. apply Permutation_map. symmetry. exact Hp1.
    - exact Hss.
    - intros t. rewrite <- Hset. split; intros Ht.
      + eapply Permutation_in; [exact Hp1 | exact Ht].
      + eapply Permutation_in; [symmetry; exact Hp1 | exact Ht].
  Qed.
End Step.
