(** The BFS and path theorems (C01, C09, C04, C12) for the concrete matrix-graph model: every
    hypothesis about the graph instance is discharged from [wf_matrix_desc d] (InstMatrix.v); what is left
    is the absence of hash collisions on the states of the graph, [NoCollMat d], and the hypotheses
    about the run (configuration, start states, the ball). *)
From Coq Require Import ZArith List Bool Arith Lia Sorted.
From V Require Import Base BaseProofs W64 Tensor Hash Matrix Graph GraphProofs GraphImpl Def
                      Bfs BfsStep BfsProofs BfsRun Paths PathsProofs Mitm MitmProofs PathRun MitmFind
                      InstShared InstMatrix.
Import ListNotations.
Open Scope Z_scope.

(* the exception the properties grant: no two states of the graph share a hash *)
Definition NoCollMat (d : gdesc) : Prop :=
  forall a b, Umat d a -> Umat d b -> hashf (impl_of d) a = hashf (impl_of d) b -> a = b.

(* with the identity hash (one-word states) there is nothing to assume *)
Lemma NoCollMat_identity d :
  wf_matrix_desc d = true -> is_identity (impl_of d) = true -> NoCollMat d.
Proof. intros H Hid. exact (matrix_identity_nocoll d (wf_matrix_desc_core d H) Hid). Qed.

(* ------------------------------------------------------------------ *)
(** * 1. BFS (C01, C09) *)

Theorem matrix_bfs_completed_correct :
  forall (d : gdesc) (cfg : bfs_cfg),
  wf_matrix_desc d = true -> NoCollMat d ->
  (1 <= batch_size cfg)%Z ->
  forall starts, (forall s, In s starts -> Umat d s) -> starts <> [] ->
  forall o, bfs (impl_of d) cfg starts = Ok o -> completed o = true ->
  let L := fun i => layer state st_eq_dec (acts (impl_of d)) starts i in
  let D := length (sizes o) in
  sizes o = map (fun i => length (L i)) (seq 0 D) /\ (forall i, (i < D)%nat -> L i <> []) /\
  (forall i, (D <= i)%nat -> L i = []) /\
  (forall k l, In (k, l) (layers o) -> NoDup l /\ set_eq l (L k)) /\
  (exists l, In ((D - 1)%nat, l) (layers o)) /\ (exists l, In (0%nat, l) (layers o)).
Proof.
  intros d cfg Hwf NC Hb starts HS Hne o.
  pose proof (wf_matrix_desc_core d Hwf) as Hc.
  exact (bfs_completed_correct (impl_of d) cfg (Umat d) (matrix_closed d Hc) NC (matrix_unword d Hc)
           (matrix_symmetric d Hwf) Hb starts HS Hne o).
Qed.

Theorem matrix_bfs_completes :
  forall (d : gdesc) (cfg : bfs_cfg),
  wf_matrix_desc d = true -> NoCollMat d ->
  (1 <= batch_size cfg)%Z ->
  forall starts, (forall s, In s starts -> Umat d s) -> starts <> [] ->
  let L := fun i => layer state st_eq_dec (acts (impl_of d)) starts i in
  stop cfg = None -> (forall i, (Z.of_nat (length (L i)) < max_explore cfg)%Z) ->
  (exists k, (k <= N.to_nat (max_diameter cfg))%nat /\ L k = []) ->
  exists o, bfs (impl_of d) cfg starts = Ok o /\ completed o = true.
Proof.
  intros d cfg Hwf NC Hb starts HS Hne.
  pose proof (wf_matrix_desc_core d Hwf) as Hc.
  exact (bfs_completes (impl_of d) cfg (Umat d) (matrix_closed d Hc) NC (matrix_unword d Hc)
           (matrix_symmetric d Hwf) Hb starts HS Hne).
Qed.

(* C09: whatever stopped the run, the result is the documented prefix *)
Theorem matrix_bfs_prefix :
  forall (d : gdesc) (cfg : bfs_cfg),
  wf_matrix_desc d = true -> NoCollMat d ->
  (1 <= batch_size cfg)%Z ->
  forall starts, (forall s, In s starts -> Umat d s) -> starts <> [] ->
  forall o, bfs (impl_of d) cfg starts = Ok o ->
  let L := fun i => layer state st_eq_dec (acts (impl_of d)) starts i in
  let D := length (sizes o) in
  (1 <= D)%nat /\
  sizes o = map (fun i => length (L i)) (seq 0 D) /\
  (forall i, (i < D)%nat -> L i <> []) /\
  (D - 1 <= N.to_nat (max_diameter cfg))%nat /\
  (completed o = true -> L D = []) /\
  (completed o = false ->
      (D - 1 = N.to_nat (max_diameter cfg))%nat
      \/ (max_explore cfg <= Z.of_nat (length (L (D - 1)%nat)))%Z
      \/ (exists f l lh, stop cfg = Some f /\ f (D - 1)%nat l lh = true /\ set_eq l (L (D - 1)%nat))) /\
  (forall j, (1 <= j)%nat -> (j < D - 1)%nat -> (Z.of_nat (length (L j)) < max_explore cfg)%Z) /\
  (forall k l, In (k, l) (layers o) -> (k < D)%nat /\ NoDup l /\ set_eq l (L k)) /\
  NoDup (map fst (layers o)) /\
  (forall k, (k < D)%nat ->
      ((exists l, In (k, l) (layers o)) <->
       k = 0%nat \/ (Z.of_nat (length (L k)) <= max_store cfg)%Z \/ (completed o = true /\ k = (D - 1)%nat))) /\
  (ret_hashes cfg = false -> layer_hashes o = []) /\
  (ret_hashes cfg = true -> length (layer_hashes o) = D /\
      forall i, (i < D)%nat ->
        let hs := nth i (layer_hashes o) [] in
        StronglySorted Z.lt hs /\ length hs = length (L i) /\
        (forall h, In h hs <-> exists t, In t (L i) /\ hashf (impl_of d) t = h)) /\
  callback_trace o = seq 1 (length (callback_trace o)) /\ (length (callback_trace o) <= D - 1)%nat.
Proof.
  intros d cfg Hwf NC Hb starts HS Hne o.
  pose proof (wf_matrix_desc_core d Hwf) as Hc.
  exact (bfs_prefix (impl_of d) cfg (Umat d) (matrix_closed d Hc) NC (matrix_unword d Hc)
           (matrix_symmetric d Hwf) Hb starts HS Hne o).
Qed.

(* the hashes a BFS with return_all_hashes returns form a well-formed ball for the path finders *)
Theorem matrix_bfs_ball_ok :
  forall (d : gdesc) (cfg : bfs_cfg),
  wf_matrix_desc d = true -> NoCollMat d ->
  (1 <= batch_size cfg)%Z -> ret_hashes cfg = true ->
  forall o, bfs (impl_of d) cfg [g_central d] = Ok o ->
  ball_ok (impl_of d) (g_central d) (layer_hashes o) /\ length (layer_hashes o) = length (sizes o) /\
  (1 <= length (sizes o))%nat.
Proof.
  intros d cfg Hwf NC Hb Hret o Ho.
  assert (forall s, In s [g_central d] -> Umat d s) as HS.
  { intros s [<- | []]. apply (matrix_central_U d (wf_matrix_desc_core d Hwf)). }
  pose proof (matrix_bfs_prefix d cfg Hwf NC Hb [g_central d] HS ltac:(discriminate) o Ho) as P.
  cbv zeta in P. destruct P as (P1 & _ & _ & _ & _ & _ & _ & _ & _ & _ & _ & P12 & _).
  destruct (P12 Hret) as [Hlen Hlay]. split; [|split; [exact Hlen|exact P1]].
  intros i Hi. rewrite Hlen in Hi. destruct (Hlay i Hi) as (Hs & _ & Hin). split; assumption.
Qed.

(* ------------------------------------------------------------------ *)
(** * 2. Paths from a ball (C04), for a graph and its inverted copy [env_of d inv_mats = Some e] *)

Section MatrixPaths.
  Variable d : gdesc.
  Variable inv_mats : list (list (list Z)).
  Variable e : path_env.
  Hypothesis Hwf : wf_matrix_core d = true.            (* the flag of d itself is irrelevant: env_of recomputes it *)
  Hypothesis Hinv : wf_inv_mats d inv_mats = true.
  Hypothesis He : env_of d inv_mats = Some e.
  Hypothesis NC : NoCollMat d.

  Let F : EnvFacts e (Umat d) := matrix_env_facts d inv_mats e Hwf Hinv He.
  Let NCG : forall a b, Umat d a -> Umat d b -> hashf (pe_G e) a = hashf (pe_G e) b -> a = b :=
    proj1 (env_of_nocoll d inv_mats e (Umat d) He NC).

  Theorem matrix_find_path_to_sound :
    forall (lh : list (list Z)) (ns : nat) (q : state) (p : list nat),
    ball_ok (pe_G e) (central (pe_G e)) lh -> Umat d q ->
    find_path_to (pe_G e) (pe_Ginv e) lh ns q = Ok (Some p) ->
    run state (acts (pe_G e)) (central (pe_G e)) p = Some q /\
    dist_is state (acts (pe_G e)) [central (pe_G e)] q (length p) /\ (length p < length lh)%nat.
  Proof.
    exact (find_path_to_sound (pe_G e) (pe_Ginv e) (Umat d) (ef_closed _ _ F) (ef_closed_inv _ _ F) NCG
             (ef_same_len _ _ F) (ef_inv_undo _ _ F) (central (pe_G e)) (ef_central_U _ _ F)).
  Qed.

  Theorem matrix_find_path_to_complete :
    forall (lh : list (list Z)) (ns : nat) (q : state),
    ball_ok (pe_G e) (central (pe_G e)) lh -> Umat d q -> length lh = ns ->
    (find_path_to (pe_G e) (pe_Ginv e) lh ns q = Ok None <->
     (forall i, (i < length lh)%nat -> ~ In q (layer state st_eq_dec (acts (pe_G e)) [central (pe_G e)] i))) /\
    (exists r, find_path_to (pe_G e) (pe_Ginv e) lh ns q = Ok r).
  Proof.
    exact (find_path_to_complete (pe_G e) (pe_Ginv e) (Umat d) (ef_closed _ _ F) (ef_closed_inv _ _ F) NCG
             (ef_same_len _ _ F) (ef_inv_undo _ _ F) (central (pe_G e)) (ef_central_U _ _ F)).
  Qed.

  Theorem matrix_find_path_to_shortest :
    forall (lh : list (list Z)) (ns : nat) (q : state) (p : list nat),
    ball_ok (pe_G e) (central (pe_G e)) lh -> Umat d q ->
    find_path_to (pe_G e) (pe_Ginv e) lh ns q = Ok (Some p) ->
    forall p', run state (acts (pe_G e)) (central (pe_G e)) p' = Some q -> (length p <= length p')%nat.
  Proof.
    exact (find_path_to_shortest (pe_G e) (pe_Ginv e) (Umat d) (ef_closed _ _ F) (ef_closed_inv _ _ F) NCG
             (ef_same_len _ _ F) (ef_inv_undo _ _ F) (central (pe_G e)) (ef_central_U _ _ F)).
  Qed.

  (* the inverse map is the one env_of computed: no hypothesis about it is left *)
  Theorem matrix_find_path_from_sound :
    forall (lh : list (list Z)) (ns : nat) (q : state) (p : list nat),
    ball_ok (pe_G e) (central (pe_G e)) lh -> Umat d q ->
    find_path_from (pe_G e) (pe_Ginv e) (pe_invmap e) lh ns q = Ok (Some p) ->
    run state (acts (pe_G e)) q p = Some (central (pe_G e)) /\
    dist_is state (acts (pe_G e)) [central (pe_G e)] q (length p).
  Proof.
    intros lh ns q p Hb Hq Hf.
    destruct (pe_invmap e) as [mp|] eqn:Emp.
    - exact (find_path_from_sound (pe_G e) (pe_Ginv e) (Umat d) (ef_closed _ _ F) (ef_closed_inv _ _ F) NCG
               (ef_same_len _ _ F) (ef_inv_undo _ _ F) (central (pe_G e)) (ef_central_U _ _ F)
               mp lh ns q p (ef_invmap _ _ F mp Emp) Hb Hq Hf).
    - (* no inverse map: the flag is false and find_path_from raises *)
      exfalso. unfold find_path_from in Hf.
      destruct (inv_closed (pe_G e)); cbn [negb] in Hf; [|discriminate Hf].
      destruct (find_path_to (pe_G e) (pe_Ginv e) lh ns q) as [[p0|]|er]; cbn [bind] in Hf; try discriminate Hf.
  Qed.

  (* ---------------------------------------------------------------- *)
  (** * 3. Automatic path finding (C12) *)

  Hypothesis small : forall q k,
    (Z.of_nat (length (layer state st_eq_dec (acts (pe_G e)) [q] k)) < 1000000000000)%Z.
  Hypothesis small_inv : forall q k,
    (Z.of_nat (length (layer state st_eq_dec (acts (pe_Ginv e)) [q] k)) < 1000000000000)%Z.

  Theorem matrix_find_path_valid :
    forall (lhf : list (list Z)) (nsf : nat) (lhi : list (list Z)) (nsi : nat) (s : state) (p : list nat),
    balls_ok e lhf nsf lhi nsi -> Umat d s ->
    find_path_one e (lhf, nsf) (lhi, nsi) s = Ok (Some p) ->
    run state (acts (pe_G e)) s p = Some (central (pe_G e)) /\
    dist_is state (acts (pe_G e)) [s] (central (pe_G e)) (length p) /\
    (length p <= 2 * ball_depth e nsf nsi)%nat.
  Proof.
    exact (find_path_valid e (Umat d) (ef_closed _ _ F) (ef_closed_inv _ _ F) NCG (ef_same_hash _ _ F)
             (ef_same_len _ _ F) (ef_inv_undo _ _ F) (ef_idok _ _ F) (ef_idok_inv _ _ F) (ef_sym_inv _ _ F)
             (ef_same_central _ _ F) (ef_central_U _ _ F) small small_inv (ef_invmap _ _ F)).
  Qed.

  Theorem matrix_find_path_shortest :
    forall (lhf : list (list Z)) (nsf : nat) (lhi : list (list Z)) (nsi : nat) (s : state) (k : nat),
    balls_ok e lhf nsf lhi nsi -> Umat d s ->
    dist_is state (acts (pe_G e)) [s] (central (pe_G e)) k ->
    (k <= 2 * ball_depth e nsf nsi)%nat ->
    exists p, find_path_one e (lhf, nsf) (lhi, nsi) s = Ok (Some p) /\ length p = k /\
              run state (acts (pe_G e)) s p = Some (central (pe_G e)).
  Proof.
    intros lhf nsf lhi nsi s k Hb Hs Hd Hk.
    apply (find_path_shortest e (Umat d) (ef_closed _ _ F) (ef_closed_inv _ _ F) NCG (ef_same_hash _ _ F)
             (ef_same_len _ _ F) (ef_inv_undo _ _ F) (ef_idok _ _ F) (ef_idok_inv _ _ F) (ef_sym_inv _ _ F)
             (ef_same_central _ _ F) (ef_central_U _ _ F) small small_inv (ef_invmap _ _ F)
             lhf nsf lhi nsi s k Hb Hs); [|exact Hd|exact Hk].
    (* the flag of pe_G e is is_some of its inverse map, by construction *)
    clear - He. unfold env_of in He. destruct (inverted_kind (g_kind d) inv_mats) as [ik|]; [|discriminate].
    inversion He; subst e; clear He. cbn [pe_G pe_invmap]. unfold impl_of. cbn [inv_closed mk_impl with_flag g_inv_closed].
    destruct (kind_inverse_map (g_kind d)) as [mp|]; cbn [is_some]; [intros _; exists mp; reflexivity|discriminate].
  Qed.
End MatrixPaths.

(* ------------------------------------------------------------------ *)
(** * 4. Deciding [NoCollMat] for small graphs by enumeration (modulus > 0) *)

Fixpoint all_vecs (vals : list Z) (k : nat) : list (list Z) :=
  match k with
  | O => [[]]
  | S k' => flat_map (fun v => map (cons v) (all_vecs vals k')) vals
  end.

Lemma all_vecs_complete vals k : forall s, length s = k -> Forall (fun v => In v vals) s -> In s (all_vecs vals k).
Proof.
  induction k as [|k IH]; intros s Hl HF.
  - destruct s; [left; reflexivity|discriminate].
  - destruct s as [|v s]; [discriminate|]. inversion HF as [|? ? Hv HF']; subst.
    cbn [all_vecs]. apply in_flat_map. exists v. split; [exact Hv|].
    apply in_map. apply IH; [cbn in Hl; lia|exact HF'].
Qed.

Definition residues (modulo : Z) : list Z := map Z.of_nat (seq 0 (Z.to_nat modulo)).
Lemma residues_complete modulo v : 0 <= v < modulo -> In v (residues modulo).
Proof.
  intros H. unfold residues. apply in_map_iff. exists (Z.to_nat v). split; [lia|]. apply in_seq. lia.
Qed.

Fixpoint nodupb (l : list Z) : bool :=
  match l with [] => true | x :: t => negb (existsb (Z.eqb x) t) && nodupb t end.
Lemma nodupb_NoDup l : nodupb l = true -> NoDup l.
Proof.
  induction l as [|x t IH]; intros H; [constructor|].
  cbn [nodupb] in H. apply andb_true_iff in H as [H1 H2]. constructor; [|apply IH; exact H2].
  intros Hin. apply negb_true_iff in H1. assert (existsb (Z.eqb x) t = true) as E; [|congruence].
  apply existsb_exists. exists x. split; [exact Hin|apply Z.eqb_refl].
Qed.

Lemma NoDup_map_inj {A} (f : A -> Z) l : NoDup (map f l) -> forall a b, In a l -> In b l -> f a = f b -> a = b.
Proof.
  induction l as [|x t IH]; intros H a b Ha Hb E; [destruct Ha|].
  cbn [map] in H. inversion H as [|? ? Hnot Hnd]; subst.
  destruct Ha as [<- | Ha], Hb as [<- | Hb].
  - reflexivity.
  - exfalso. apply Hnot. rewrite E. apply in_map. exact Hb.
  - exfalso. apply Hnot. rewrite <- E. apply in_map. exact Ha.
  - apply IH; assumption.
Qed.

(* the check: all modulo^(n*m) states hash differently (bound visible: the enumeration) *)
Definition nocoll_check (d : gdesc) : bool :=
  match g_kind d with
  | GMatrix modulo n m _ => (0 <? modulo) && nodupb (map (hashf (impl_of d)) (all_vecs (residues modulo) (n * m)))
  | GPerm _ => false
  end.

Theorem nocoll_check_sound d : nocoll_check d = true -> NoCollMat d.
Proof.
  unfold nocoll_check, NoCollMat, Umat. destruct (g_kind d) as [perms | modulo n m mats]; [discriminate|].
  intros H. apply andb_true_iff in H as [Hpos H]. apply Z.ltb_lt in Hpos. apply nodupb_NoDup in H.
  assert (forall s, UmatP modulo n m s -> In s (all_vecs (residues modulo) (n * m))) as Hall.
  { intros s [Hl HF]. apply all_vecs_complete; [exact Hl|]. eapply Forall_impl; [|exact HF].
    intros v Hv. apply residues_complete. apply rng_mod in Hv; [exact Hv|lia]. }
  intros a b Ha Hb. apply (NoDup_map_inj _ _ H); apply Hall; assumption.
Qed.

(* ------------------------------------------------------------------ *)
(** * 5. Non-vacuity *)

(* the Heisenberg generators mod 5 acting on column vectors (m = 1): 125 states, dot-product hash *)
Definition heisv_desc : gdesc :=
  {| g_kind := GMatrix 5 3 1 [heis_x; heis_y]; g_central := [0;0;1]; g_width := None;
     g_hasher := HDot [314159265358979; -271828182845904; 161803398874989]; g_inv_closed := false |}.
Definition heisv_inv : list (list (list Z)) := [heis_xi; heis_yi].

Example heisv_wf : wf_matrix_desc heisv_desc = true. Proof. vm_compute. reflexivity. Qed.
Example heisv_inv_wf : wf_inv_mats heisv_desc heisv_inv = true. Proof. vm_compute. reflexivity. Qed.
Example heisv_nocoll : NoCollMat heisv_desc.
Proof. apply nocoll_check_sound. vm_compute. reflexivity. Qed.
Example heisv_inverted : inverted_kind (g_kind heisv_desc) heisv_inv = Some (GMatrix 5 3 1 heisv_inv).
Proof. vm_compute. reflexivity. Qed.
Example heisv_env : exists e, env_of heisv_desc heisv_inv = Some e.
Proof. unfold env_of. rewrite heisv_inverted. eexists. reflexivity. Qed.

(* [NoCollMat] is a real hypothesis: a poor dot-product vector does collide on this graph *)
Example dot_hash_can_collide :
  ~ NoCollMat {| g_kind := GMatrix 5 3 1 [heis_x; heis_y]; g_central := [0;0;1]; g_width := None;
                 g_hasher := HDot [3; -7; 11]; g_inv_closed := false |}.
Proof.
  intros H. specialize (H [1;2;1] [0;0;0]).
  assert ([1;2;1] = [0;0;0]) as E; [|discriminate E].
  apply H.
  - split; [reflexivity|]. apply forallb_rngb. vm_compute. reflexivity.
  - split; [reflexivity|]. apply forallb_rngb. vm_compute. reflexivity.
  - vm_compute. reflexivity.
Qed.

Definition heisv_cfg : bfs_cfg :=
  {| batch_size := 1048576; max_store := 1000; max_explore := 1000000; max_diameter := 100;
     ret_edges := false; ret_hashes := true; no_batching := false; stop := None |}.

(* a real run satisfying every hypothesis of [matrix_bfs_completed_correct]: the orbit of (0,0,1) is the
   25 vectors (a,b,1), reached within 8 steps *)
Example heisv_bfs_run :
  exists o, bfs (impl_of heisv_desc) heisv_cfg [g_central heisv_desc] = Ok o /\ completed o = true /\
            fold_right Nat.add 0%nat (sizes o) = 25%nat.
Proof.
  destruct (bfs (impl_of heisv_desc) heisv_cfg [g_central heisv_desc]) as [o|er] eqn:E.
  - exists o. split; [reflexivity|].
    assert (match bfs (impl_of heisv_desc) heisv_cfg [g_central heisv_desc] with
            | Ok o' => completed o' && (fold_right Nat.add 0%nat (sizes o') =? 25)%nat
            | Err _ => false end = true) as C by (vm_compute; reflexivity).
    rewrite E in C. apply andb_true_iff in C as [C1 C2]. apply Nat.eqb_eq in C2. auto.
  - exfalso.
    assert (match bfs (impl_of heisv_desc) heisv_cfg [g_central heisv_desc] with
            | Ok _ => true | Err _ => false end = true) as C by (vm_compute; reflexivity).
    rewrite E in C. discriminate C.
Qed.

Example heisv_bfs_instance o :
  bfs (impl_of heisv_desc) heisv_cfg [g_central heisv_desc] = Ok o -> completed o = true ->
  forall i, (length (sizes o) <= i)%nat ->
    layer state st_eq_dec (acts (impl_of heisv_desc)) [g_central heisv_desc] i = [].
Proof.
  intros Ho Hc.
  assert (forall s, In s [g_central heisv_desc] -> Umat heisv_desc s) as HS.
  { intros s [<- | []]. apply (matrix_central_U _ (wf_matrix_desc_core _ heisv_wf)). }
  pose proof (matrix_bfs_completed_correct heisv_desc heisv_cfg heisv_wf heisv_nocoll ltac:(cbn; lia)
                [g_central heisv_desc] HS ltac:(discriminate) o Ho Hc) as P.
  cbv zeta in P. destruct P as (_ & _ & P3 & _). exact P3.
Qed.

(* the 1 x 1 case uses the identity hash: multiplication by 2 in Z/5, no collision hypothesis needed *)
Definition mul2_desc : gdesc :=
  {| g_kind := GMatrix 5 1 1 [[[2]]]; g_central := [1]; g_width := None;
     g_hasher := HIdentity; g_inv_closed := false |}.
Example mul2_wf : wf_matrix_desc mul2_desc = true. Proof. vm_compute. reflexivity. Qed.
Example mul2_nocoll : NoCollMat mul2_desc.
Proof. apply NoCollMat_identity; [exact mul2_wf|reflexivity]. Qed.

(* the identity hash on several words is NOT well formed: the abstract hypothesis [unword (hashf a) = a] fails there *)
Example identity_hash_needs_one_word :
  wf_matrix_desc {| g_kind := GMatrix 5 3 1 [heis_x; heis_y]; g_central := [0;0;1]; g_width := None;
                    g_hasher := HIdentity; g_inv_closed := false |} = false.
Proof. vm_compute. reflexivity. Qed.

(* the path corollaries instantiated on the Heisenberg vectors *)
Example heisv_paths e :
  env_of heisv_desc heisv_inv = Some e ->
  forall lh ns q p, ball_ok (pe_G e) (central (pe_G e)) lh -> Umat heisv_desc q ->
    find_path_to (pe_G e) (pe_Ginv e) lh ns q = Ok (Some p) ->
    run state (acts (pe_G e)) (central (pe_G e)) p = Some q.
Proof.
  intros He lh ns q p Hb Hq Hf.
  apply (matrix_find_path_to_sound heisv_desc heisv_inv e (wf_matrix_desc_core _ heisv_wf) heisv_inv_wf He
           heisv_nocoll lh ns q p Hb Hq Hf).
Qed.

Print Assumptions matrix_bfs_completed_correct.
Print Assumptions matrix_bfs_completes.
Print Assumptions matrix_bfs_prefix.
Print Assumptions matrix_bfs_ball_ok.
Print Assumptions matrix_find_path_to_sound.
Print Assumptions matrix_find_path_to_complete.
Print Assumptions matrix_find_path_to_shortest.
Print Assumptions matrix_find_path_from_sound.
Print Assumptions matrix_find_path_valid.
Print Assumptions matrix_find_path_shortest.
Print Assumptions nocoll_check_sound.
Print Assumptions heisv_nocoll.
Print Assumptions heisv_bfs_run.
