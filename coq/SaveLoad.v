(** Model of BfsResult.save / BfsResult.load / __eq__ (algo/bfs_result.py) for permutation graphs.
    The HDF5 file is an abstract finite map from dataset names to arrays / scalars / strings. *)
From Coq Require Import ZArith List Bool Arith Lia String Ascii DecimalString.
From V Require Import Base.
Import ListNotations.
Open Scope string_scope.
Open Scope list_scope.

Inductive h5val :=
| HBool (b : bool)
| HInts (l : list Z)                 (* 1-D integer dataset *)
| HInts2 (l : list (list Z))         (* 2-D integer dataset *)
| HStrs (l : list string)            (* array of variable-length strings *)
| HStr (s : string)                  (* scalar string *)
| HEmptyScalar.                      (* torch.empty([]): the "no edges" marker, a dataset of shape () *)

Definition store := list (string * h5val).

Fixpoint store_get (k : string) (s : store) : option h5val :=
  match s with
  | [] => None
  | (k', v) :: t => if String.eqb k k' then Some v else store_get k t
  end.

Record bfs_result := {
  r_completed : bool;
  r_sizes : list Z;
  r_layers : list (nat * list (list Z));     (* dict layer id -> states, in insertion order *)
  r_hashes : list (list Z);
  r_edges : option (list (list Z));          (* (num_edges, 2) *)
  r_gens : list (list Z);
  r_gen_names : list string;
  r_central : list Z;
  r_name : string;
}.

Definition nat_to_string (n : nat) : string := NilZero.string_of_uint (Nat.to_uint n).

(* save: dataset names exactly as the library writes them *)
Definition save (r : bfs_result) : store :=
  [("bfs_completed", HBool (r_completed r)); ("layer_sizes", HInts (r_sizes r))]
  ++ map (fun '(k, l) => (("layer__" ++ nat_to_string k)%string, HInts2 l)) (r_layers r)
  ++ map (fun '(i, h) => (("edges_list_hashes__" ++ nat_to_string i)%string, HInts h))
         (combine (seq 0 (List.length (r_hashes r))) (r_hashes r))
  ++ [("edges_list_hashes", match r_edges r with Some e => HInts2 e | None => HEmptyScalar end);
      ("graph__generators", HInts2 (r_gens r)); ("graph__generator_names", HStrs (r_gen_names r));
      ("graph__central_state", HInts (r_central r)); ("graph__name", HStr (r_name r))].

(* k.strip("layer__"): remove leading and trailing characters that belong to the set {l,a,y,e,r,_} *)
Definition in_strip_set (c : ascii) : bool :=
  existsb (Ascii.eqb c) ["l"; "a"; "y"; "e"; "r"; "_"]%char.
Fixpoint lstrip (s : string) : string :=
  match s with
  | EmptyString => EmptyString
  | String c t => if in_strip_set c then lstrip t else s
  end.
Fixpoint rev_string (s acc : string) : string :=
  match s with EmptyString => acc | String c t => rev_string t (String c acc) end.
Definition strip (s : string) : string := rev_string (lstrip (rev_string (lstrip s) EmptyString)) EmptyString.

Definition parse_nat (s : string) : option nat :=
  match NilZero.uint_of_string s with Some u => Some (Nat.of_uint u) | None => None end.

Definition starts_with (p s : string) : bool := String.prefix p s.

(* load *)
Fixpoint load_hashes (s : store) (i fuel : nat) : list (list Z) :=
  match fuel with
  | O => []
  | S f => match store_get ("edges_list_hashes__" ++ nat_to_string i)%string s with
           | Some (HInts h) => h :: load_hashes s (S i) f
           | _ => []
           end
  end.

Definition load (s : store) : result bfs_result :=
  match store_get "layer_sizes" s, store_get "edges_list_hashes" s, store_get "bfs_completed" s,
        store_get "graph__generators" s, store_get "graph__generator_names" s,
        store_get "graph__central_state" s, store_get "graph__name" s with
  | Some (HInts sizes), Some ev, Some (HBool b), Some (HInts2 gens), Some (HStrs names), Some (HInts central), Some (HStr name) =>
      let hashes := load_hashes s 0 (List.length sizes) in
      let edges := match ev with HInts2 e => Some e | _ => None end in
      let layers := flat_map (fun '(k, v) =>
                       if starts_with "layer__" k then
                         match parse_nat (strip k), v with
                         | Some n, HInts2 l => [(n, l)]
                         | _, _ => []
                         end
                       else []) s in
      Ok {| r_completed := b; r_sizes := sizes; r_layers := layers; r_hashes := hashes; r_edges := edges;
            r_gens := gens; r_gen_names := names; r_central := central; r_name := name |}
  | _, _, _, _, _, _, _ => Err KeyErr
  end.

(* __eq__: field-wise; layers compared as dicts (same key set, equal values) *)
Definition layers_eqb (a b : list (nat * list (list Z))) : bool :=
  forallb (fun '(k, l) => existsb (fun '(k', l') => (k =? k')%nat && z_list2_eqb l l') b) a
  && forallb (fun '(k, _) => existsb (fun '(k', _) => (k =? k')%nat) a) b.

Definition result_eq (a b : bfs_result) : bool :=
  Bool.eqb (r_completed a) (r_completed b) && z_list_eqb (r_sizes a) (r_sizes b)
  && layers_eqb (r_layers a) (r_layers b) && z_list2_eqb (r_hashes a) (r_hashes b)
  && option_eqb z_list2_eqb (r_edges a) (r_edges b)
  && z_list2_eqb (r_gens a) (r_gens b) && list_eqb String.eqb (r_gen_names a) (r_gen_names b)
  && z_list_eqb (r_central a) (r_central b) && String.eqb (r_name a) (r_name b).
