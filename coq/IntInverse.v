(** Model of [_integer_inverse] (cayley_graph_def.py): exact inverse of a square integer matrix by
    Gauss-Jordan elimination over the rationals, the fallback candidate of MatrixGenerator.inv.

    Python's [fractions.Fraction] is always in lowest terms with a positive denominator; the model
    uses [Qc] (QArith.Qcanon: reduced fractions, Leibniz equality), so [v.denominator] and
    [v.numerator] are [Qden (this v)] and [Qnum (this v)].

      n = matrix.shape[0]
      rows = [[Fraction(int(v)) for v in matrix[i]] + [Fraction(int(i == j)) for j in range(n)] for i in range(n)]
      for col in range(n):
          pivot = next((r for r in range(col, n) if rows[r][col] != 0), None)
          if pivot is None: return None
          rows[col], rows[pivot] = rows[pivot], rows[col]
          rows[col] = [v / rows[col][col] for v in rows[col]]
          for r in range(n):
              if r != col and rows[r][col] != 0:
                  factor = rows[r][col]
                  rows[r] = [x - factor * y for x, y in zip(rows[r], rows[col])]
      inverse = [row[n:] for row in rows]
      if any(v.denominator != 1 or abs(v.numerator) >= 2**63 for row in inverse for v in row): return None
      return np.array([[int(v) for v in row] for row in inverse], dtype=np.int64)
*)
From Coq Require Import ZArith List Bool Arith Lia QArith Qcanon.
From V Require Import Base W64 Matrix.
Import ListNotations.

(* Fraction(int(v)) *)
Definition Z2Qc (z : Z) : Qc := Q2Qc (inject_Z z).

(* rows[r][c] *)
Definition qentry (rows : list (list Qc)) (r c : nat) : Qc := nth c (nth r rows []) 0%Qc.

(* [M | I] over the rationals *)
Definition aug_init (n : nat) (M : list (list Z)) : list (list Qc) :=
  map (fun i => map Z2Qc (nth i M []) ++ map (fun j => if (i =? j)%nat then 1%Qc else 0%Qc) (seq 0 n)) (seq 0 n).

(* next((r for r in range(col, n) if rows[r][col] != 0), None) *)
Definition find_pivot (n col : nat) (rows : list (list Qc)) : option nat :=
  find (fun r => negb (Qc_eq_bool (qentry rows r col) 0%Qc)) (seq col (n - col)).

(* rows[col], rows[pivot] = rows[pivot], rows[col]: both right-hand sides are read first, then
   rows[col] is assigned, then rows[pivot] *)
Definition swap_rows (col pivot : nat) (rows : list (list Qc)) : list (list Qc) :=
  let a := nth pivot rows [] in
  let b := nth col rows [] in
  upd (upd rows col a) pivot b.

(* rows[col] = [v / rows[col][col] for v in rows[col]]: the name rows[col] is rebound only after
   the comprehension has been evaluated, so every division uses the old pivot entry *)
Definition scale_row (col : nat) (rows : list (list Qc)) : list (list Qc) :=
  let prow := nth col rows [] in
  let p := nth col prow 0%Qc in
  upd rows col (map (fun v => (v / p)%Qc) prow).

(* [x - factor * y for x, y in zip(rows[r], rows[col])] *)
Definition sub_row (factor : Qc) (xr yr : list Qc) : list Qc :=
  map (fun xy => (fst xy - factor * snd xy)%Qc) (combine xr yr).

(* for r in range(n): if r != col and rows[r][col] != 0: ... *)
Definition elim_one (col : nat) (rows : list (list Qc)) (r : nat) : list (list Qc) :=
  if negb (r =? col)%nat && negb (Qc_eq_bool (qentry rows r col) 0%Qc)
  then let factor := qentry rows r col in
       upd rows r (sub_row factor (nth r rows []) (nth col rows []))
  else rows.

Definition eliminate (n col : nat) (rows : list (list Qc)) : list (list Qc) :=
  fold_left (elim_one col) (seq 0 n) rows.

(* one iteration of [for col in range(n)] *)
Definition gj_step (n : nat) (rows : list (list Qc)) (col : nat) : option (list (list Qc)) :=
  match find_pivot n col rows with
  | None => None
  | Some pivot => Some (eliminate n col (scale_row col (swap_rows col pivot rows)))
  end.

Definition gj_loop (n : nat) (rows : list (list Qc)) : option (list (list Qc)) :=
  fold_left (fun acc col => match acc with Some rs => gj_step n rs col | None => None end)
            (seq 0 n) (Some rows).

(* v.denominator != 1 or abs(v.numerator) >= 2**63 *)
Definition bad_entry (v : Qc) : bool :=
  negb (Pos.eqb (Qden (this v)) 1) || (two63 <=? Z.abs (Qnum (this v)))%Z.

Definition integer_inverse (n : nat) (M : list (list Z)) : option (list (list Z)) :=
  match gj_loop n (aug_init n M) with
  | None => None
  | Some rows =>
      let inverse := map (skipn n) rows in
      if existsb (existsb bad_entry) inverse then None
      else Some (map (map (fun v => Qnum (this v))) inverse)
  end.

(* differential harness: a matrix (n = number of rows) with the recorded result of _integer_inverse *)
Definition check_integer_inverse (c : list (list Z) * option (list (list Z))) : bool :=
  option_eqb z_list2_eqb (integer_inverse (length (fst c)) (fst c)) (snd c).

(* ---- examples (E) ---- *)
Open Scope Z_scope.

Example ex_inv_4x4 :
  integer_inverse 4 [[2048;0;1024;-2047];[-2047;2048;1024;2047];[2047;1;2049;-2045];[-6146;2;-3071;6143]]
  = Some [[12891197441;-4196351;-2048;4297064448];[6288389;-2047;-1;2096129];
          [-12582919;4096;2;-4194305];[12891200513;-4196352;-2048;4297065472]].
Proof. vm_compute. reflexivity. Qed.

Example ex_inv_not_integral : integer_inverse 2 [[2;0];[0;1]] = None.
Proof. vm_compute. reflexivity. Qed.

Example ex_inv_singular : integer_inverse 2 [[1;2];[2;4]] = None.
Proof. vm_compute. reflexivity. Qed.

Example ex_inv_swap : integer_inverse 3 [[0;1;0];[0;0;1];[1;0;0]] = Some [[0;0;1];[1;0;0];[0;1;0]].
Proof. vm_compute. reflexivity. Qed.

Example ex_inv_too_big : integer_inverse 2 [[1; 2^63];[0;1]] = None.
Proof. vm_compute. reflexivity. Qed.

Example ex_inv_big_ok : integer_inverse 2 [[1; 2^63-1];[0;1]] = Some [[1; -(2^63-1)];[0;1]].
Proof. vm_compute. reflexivity. Qed.

(* entries of size 2^40: an invertible one, and a dense random one (the whole elimination runs on
   large fractions; the result is not integral) *)
Example ex_inv_2p40 :
  integer_inverse 4 [[1;0;0;0];[456938;1;0;0];[-732759412348;67185932921;1;918581];[-797708;73141;0;1]]
  = Some [[1;0;0;0];[-456938;1;0;0];[0;0;1;-918581];[33421699966;-73141;0;1]].
Proof. vm_compute. reflexivity. Qed.

Example ex_inv_2p40_dense :
  integer_inverse 4 [[510954598228;-979539360075;734655406651;490640023927];
                     [-771102130714;-335160821409;-1005819690828;-469671947453];
                     [-441848027687;584665366065;692343035107;184159838463];
                     [148532133153;327395858531;829536644632;-888554312460]] = None.
Proof. vm_compute. reflexivity. Qed.

Example ex_check :
  check_integer_inverse ([[1;1];[0;1]], Some [[1;-1];[0;1]]) = true /\
  check_integer_inverse ([[2;0];[0;1]], None) = true /\
  check_integer_inverse ([[1;1];[0;1]], None) = false.
Proof. vm_compute. auto. Qed.
