(** Proofs about the list models of the torch / numpy primitives in Tensor.v. *)
From Coq Require Import ZArith List Bool Arith Lia Permutation Sorted.
From V Require Import Base Tensor.
Import ListNotations.
Open Scope Z_scope.

Definition sortedZ (l : list Z) : Prop := StronglySorted Z.le l.
Definition sorted_by {A} (key : A -> Z) (l : list A) : Prop :=
  StronglySorted (fun a b => key a <= key b) l.
Definition strictly_by {A} (key : A -> Z) (l : list A) : Prop :=
  StronglySorted (fun a b => key a < key b) l.

(* ------------------------------------------------------------------ *)
(** * Generic helpers *)

Lemma Forall_perm {A} (P : A -> Prop) l l' : Permutation l l' -> Forall P l -> Forall P l'.
Proof.
  intros Hp Hf. rewrite Forall_forall in *. intros x Hx. apply Hf.
  eapply Permutation_in; [symmetry; exact Hp | exact Hx].
Qed.

Lemma SSorted_app_inv {A} (R : A -> A -> Prop) l1 l2 :
  StronglySorted R (l1 ++ l2) -> StronglySorted R l1 /\ StronglySorted R l2.
Proof.
  induction l1 as [|a t IH]; simpl; intros H.
  - split; [constructor | exact H].
  - apply StronglySorted_inv in H. destruct H as [Hs Hf].
    destruct (IH Hs) as [H1 H2]. split; [|exact H2].
    constructor; [exact H1|]. apply Forall_app in Hf. tauto.
Qed.

Lemma sortedZ_nth l : sortedZ l ->
  forall i j, (i <= j)%nat -> (j < length l)%nat -> nth i l 0 <= nth j l 0.
Proof.
  intros H. unfold sortedZ in H.
  induction H as [|a l Hs IH Hf]; intros i j Hij Hj.
  - simpl in Hj. lia.
  - destruct i, j; simpl in *; try lia.
    + rewrite Forall_forall in Hf. apply Hf. apply nth_In. lia.
    + apply IH; lia.
Qed.

(* ------------------------------------------------------------------ *)
(** * is_sorted *)

Fixpoint sorted_go (p : Z) (r : list Z) : bool :=
  match r with [] => true | b :: r' => (p <=? b) && sorted_go b r' end.

Lemma is_sorted_cons a t : is_sorted (a :: t) = sorted_go a t.
Proof. reflexivity. Qed.

Lemma sorted_go_iff r : forall p, sorted_go p r = true <-> sortedZ (p :: r).
Proof.
  unfold sortedZ. induction r as [|b r' IH]; intros p.
  - simpl. split; [|reflexivity]. intros _. constructor; constructor.
  - cbn [sorted_go]. rewrite andb_true_iff, Z.leb_le, IH. split.
    + intros [Hpb Hs]. constructor; [exact Hs|].
      constructor; [exact Hpb|].
      apply StronglySorted_inv in Hs. destruct Hs as [_ Hf].
      eapply Forall_impl; [|exact Hf]. intros x Hx. simpl in Hx. lia.
    + intros H. apply StronglySorted_inv in H. destruct H as [Hs Hf].
      split; [|exact Hs]. inversion Hf; assumption.
Qed.

Lemma is_sorted_iff l : is_sorted l = true <-> sortedZ l.
Proof.
  destruct l as [|a t].
  - simpl. split; [intros _; constructor | reflexivity].
  - rewrite is_sorted_cons. apply sorted_go_iff.
Qed.

(* ------------------------------------------------------------------ *)
(** * Bisection / searchsorted *)

Lemma mid_bounds lo hi : (lo < hi)%nat -> (lo <= (lo + hi) / 2 < hi)%nat.
Proof.
  intros H. split.
  - apply Nat.div_le_lower_bound; lia.
  - apply Nat.div_lt_upper_bound; lia.
Qed.

Lemma bisect_spec a v : sortedZ a -> forall fuel lo hi,
  (lo <= hi)%nat -> (hi <= length a)%nat -> (hi - lo < fuel)%nat ->
  (forall i, (i < lo)%nat -> nth i a 0 < v) ->
  (forall i, (hi <= i)%nat -> (i < length a)%nat -> v <= nth i a 0) ->
  (lo <= bisect fuel a v lo hi <= hi)%nat /\
  (forall i, (i < bisect fuel a v lo hi)%nat -> nth i a 0 < v) /\
  (forall i, (bisect fuel a v lo hi <= i)%nat -> (i < length a)%nat -> v <= nth i a 0).
Proof.
  intros Hs. induction fuel as [|f IH]; intros lo hi Hlh Hhi Hf Hlo Hge; [lia|].
  cbn [bisect].
  destruct (Nat.ltb_spec lo hi) as [Hlt|Hnlt].
  - pose proof (mid_bounds lo hi Hlt) as Hmid.
    set (mid := ((lo + hi) / 2)%nat) in *.
    destruct (Z.ltb_spec (nth mid a 0) v) as [Hv|Hv].
    + destruct (IH (S mid) hi) as (H1 & H2 & H3); try lia.
      * intros i Hi. apply Z.le_lt_trans with (nth mid a 0); [|exact Hv].
        apply sortedZ_nth; [exact Hs | lia | lia].
      * exact Hge.
      * split; [lia | split; assumption].
    + destruct (IH lo mid) as (H1 & H2 & H3); try lia.
      * exact Hlo.
      * intros i Hi Hil. apply Z.le_trans with (nth mid a 0); [exact Hv|].
        apply sortedZ_nth; [exact Hs | lia | lia].
      * split; [lia | split; assumption].
  - assert (lo = hi) by lia. subst hi.
    split; [lia | split; assumption].
Qed.

Lemma lower_bound_spec a v : sortedZ a ->
  (lower_bound a v <= length a)%nat /\
  (forall i, (i < lower_bound a v)%nat -> nth i a 0 < v) /\
  (forall i, (lower_bound a v <= i)%nat -> (i < length a)%nat -> v <= nth i a 0).
Proof.
  intros Hs. unfold lower_bound.
  destruct (bisect_spec a v Hs (S (length a)) 0%nat (length a)) as (H1 & H2 & H3);
    try lia; try (intros; lia).
  split; [lia | split; assumption].
Qed.

Lemma isin_ss1_unfold hay e : hay <> [] ->
  isin_ss1 hay e =
  (nth (if (length hay <=? lower_bound hay e)%nat then (length hay - 1)%nat else lower_bound hay e)
       hay 0 =? e).
Proof. destruct hay; [congruence | reflexivity]. Qed.

(* binary search is membership on sorted haystacks *)
Theorem isin_ss1_sorted hay e : sortedZ hay -> (isin_ss1 hay e = true <-> In e hay).
Proof.
  intros Hs. destruct hay as [|h t].
  - simpl. split; [discriminate | tauto].
  - remember (h :: t) as hay eqn:E.
    assert (Hne : hay <> []) by (subst; discriminate).
    assert (Hlen : (0 < length hay)%nat) by (subst; simpl; lia).
    clear E h t. rewrite isin_ss1_unfold by exact Hne.
    destruct (lower_bound_spec hay e Hs) as (Hr & Hlt & Hge).
    set (r := lower_bound hay e) in *.
    destruct (Nat.leb_spec (length hay) r) as [Hc|Hc].
    + (* clamp: every element is < e *)
      rewrite Z.eqb_eq. split.
      * intros H. specialize (Hlt (length hay - 1)%nat). lia.
      * intros Hin. apply (In_nth _ _ 0) in Hin. destruct Hin as (i & Hi & Hn).
        specialize (Hlt i). lia.
    + rewrite Z.eqb_eq. split.
      * intros H. rewrite <- H. apply nth_In. exact Hc.
      * intros Hin. apply (In_nth _ _ 0) in Hin. destruct Hin as (i & Hi & Hn).
        assert (Hri : (r <= i)%nat).
        { destruct (le_lt_dec r i) as [|Hlt']; [assumption|].
          specialize (Hlt i Hlt'). lia. }
        pose proof (sortedZ_nth hay Hs r i Hri Hi).
        specialize (Hge r (le_n _) Hc). lia.
Qed.

Lemma isin1_iff hay e : isin1 hay e = true <-> In e hay.
Proof.
  unfold isin1. rewrite existsb_exists. split.
  - intros (x & Hx & Heq). apply Z.eqb_eq in Heq. subst. exact Hx.
  - intros H. exists e. split; [exact H | apply Z.eqb_refl].
Qed.

Corollary isin_ss_eq_isin es hay : sortedZ hay -> isin_ss es hay = isin es hay.
Proof.
  intros Hs. unfold isin_ss, isin. apply map_ext. intros e.
  apply eq_true_iff_eq. rewrite isin_ss1_sorted by exact Hs. rewrite isin1_iff. reflexivity.
Qed.

Lemma isin_ss_length es hay : length (isin_ss es hay) = length es.
Proof. unfold isin_ss. apply map_length. Qed.

(* ------------------------------------------------------------------ *)
(** * Stable merge sort *)

Section SortProofs.
  Context {A : Type} (key : A -> Z).

  Lemma merge_nil_l l2 : merge key [] l2 = l2.
  Proof. destruct l2; reflexivity. Qed.

  Lemma merge_nil_r l1 : merge key l1 [] = l1.
  Proof. destruct l1; reflexivity. Qed.

  Lemma merge_cons a t1 b t2 :
    merge key (a :: t1) (b :: t2) =
    if key a <=? key b then a :: merge key t1 (b :: t2) else b :: merge key (a :: t1) t2.
  Proof. reflexivity. Qed.

  Lemma merge_perm l1 : forall l2, Permutation (merge key l1 l2) (l1 ++ l2).
  Proof.
    induction l1 as [|a t1 IH1]; intros l2.
    - rewrite merge_nil_l. reflexivity.
    - induction l2 as [|b t2 IH2].
      + rewrite merge_nil_r, app_nil_r. reflexivity.
      + rewrite merge_cons. destruct (key a <=? key b).
        * rewrite <- app_comm_cons. apply perm_skip. apply IH1.
        * etransitivity; [apply perm_skip; exact IH2 | apply Permutation_middle].
  Qed.

  Lemma sorted_by_inv a l : sorted_by key (a :: l) ->
    sorted_by key l /\ Forall (fun x => key a <= key x) l.
  Proof. intros H. apply StronglySorted_inv in H. exact H. Qed.

  Lemma merge_sorted l1 : forall l2,
    sorted_by key l1 -> sorted_by key l2 -> sorted_by key (merge key l1 l2).
  Proof.
    induction l1 as [|a t1 IH1]; intros l2 H1 H2.
    - rewrite merge_nil_l. exact H2.
    - induction l2 as [|b t2 IH2].
      + rewrite merge_nil_r. exact H1.
      + rewrite merge_cons.
        destruct (sorted_by_inv _ _ H1) as [H1s H1f].
        destruct (sorted_by_inv _ _ H2) as [H2s H2f].
        destruct (Z.leb_spec (key a) (key b)) as [Hab|Hab].
        * constructor; [apply IH1; assumption|].
          eapply Forall_perm; [symmetry; apply merge_perm|].
          apply Forall_app. split; [exact H1f|].
          constructor; [exact Hab|].
          eapply Forall_impl; [|exact H2f]. intros x Hx. simpl in Hx. lia.
        * constructor; [apply IH2; assumption|].
          eapply Forall_perm; [symmetry; apply merge_perm|].
          apply Forall_app. split; [|exact H2f].
          constructor; [lia|].
          eapply Forall_impl; [|exact H1f]. intros x Hx. simpl in Hx. lia.
  Qed.

  Definition fk (k : Z) (a : A) : bool := key a =? k.

  Lemma filter_cons (f : A -> bool) x l :
    filter f (x :: l) = if f x then x :: filter f l else filter f l.
  Proof. reflexivity. Qed.

  Lemma filter_none (f : A -> bool) l : Forall (fun x => f x = false) l -> filter f l = [].
  Proof.
    induction 1 as [|x l Hx Hl IH]; [reflexivity|].
    rewrite filter_cons, Hx. exact IH.
  Qed.

  (* on ties the left element goes first, so per-key subsequences are concatenated *)
  Lemma merge_filter k l1 : forall l2, sorted_by key l1 ->
    filter (fk k) (merge key l1 l2) = filter (fk k) l1 ++ filter (fk k) l2.
  Proof.
    induction l1 as [|a t1 IH1]; intros l2 H1.
    - rewrite merge_nil_l. reflexivity.
    - induction l2 as [|b t2 IH2].
      + rewrite merge_nil_r. change (filter (fk k) []) with (@nil A).
        rewrite app_nil_r. reflexivity.
      + rewrite merge_cons.
        destruct (sorted_by_inv _ _ H1) as [H1s H1f].
        destruct (Z.leb_spec (key a) (key b)) as [Hab|Hab].
        * rewrite (filter_cons _ a (merge key t1 (b :: t2))).
          rewrite (filter_cons _ a t1).
          rewrite IH1 by exact H1s.
          destruct (fk k a); reflexivity.
        * rewrite (filter_cons _ b (merge key (a :: t1) t2)).
          rewrite (filter_cons _ b t2).
          rewrite IH2.
          destruct (fk k b) eqn:Eb; [|reflexivity].
          unfold fk in Eb. apply Z.eqb_eq in Eb.
          rewrite (filter_none (fk k) (a :: t1)); [reflexivity|].
          constructor.
          -- unfold fk. apply Z.eqb_neq. lia.
          -- eapply Forall_impl; [|exact H1f]. intros x Hx. simpl in Hx.
             unfold fk. apply Z.eqb_neq. lia.
  Qed.

  Lemma merge_sorted_app l1 : forall l2, sorted_by key (l1 ++ l2) -> merge key l1 l2 = l1 ++ l2.
  Proof.
    induction l1 as [|a t1 IH1]; intros l2 H.
    - apply merge_nil_l.
    - destruct l2 as [|b t2].
      + rewrite merge_nil_r, app_nil_r. reflexivity.
      + rewrite merge_cons. rewrite <- app_comm_cons in H.
        destruct (sorted_by_inv _ _ H) as [Hs Hf].
        apply Forall_app in Hf. destruct Hf as [_ Hf]. inversion Hf as [|? ? Hab _]; subst.
        destruct (Z.leb_spec (key a) (key b)) as [_|Hc]; [|lia].
        rewrite IH1 by exact Hs. reflexivity.
  Qed.

  Lemma msort_fuel_S f a b t :
    msort_fuel key (S f) (a :: b :: t) =
    merge key (msort_fuel key f (firstn (length (a :: b :: t) / 2) (a :: b :: t)))
              (msort_fuel key f (skipn (length (a :: b :: t) / 2) (a :: b :: t))).
  Proof. reflexivity. Qed.

  (* induction principle following the recursion of the sort *)
  Lemma msort_ind (P : list A -> list A -> Prop) :
    (forall l, (length l <= 1)%nat -> P l l) ->
    (forall l h l1' l2', (0 < h < length l)%nat ->
        P (firstn h l) l1' -> P (skipn h l) l2' -> P l (merge key l1' l2')) ->
    forall fuel l, (length l <= fuel)%nat -> P l (msort_fuel key fuel l).
  Proof.
    intros Hbase Hstep. induction fuel as [|f IH]; intros l Hl.
    - cbn [msort_fuel]. apply Hbase. lia.
    - destruct l as [|a [|b t]].
      + cbn [msort_fuel]. apply Hbase. simpl. lia.
      + cbn [msort_fuel]. apply Hbase. simpl. lia.
      + rewrite msort_fuel_S.
        remember (a :: b :: t) as l eqn:E.
        assert (Hlen : (2 <= length l)%nat) by (subst; simpl; lia).
        clear E a b t.
        assert (Hh : (0 < length l / 2 < length l)%nat).
        { split.
          - apply Nat.div_str_pos. lia.
          - apply Nat.div_lt; lia. }
        apply (Hstep l (length l / 2)%nat); [exact Hh | apply IH | apply IH].
        * rewrite firstn_length. lia.
        * rewrite skipn_length. lia.
  Qed.

  Lemma sorted_by_small l : (length l <= 1)%nat -> sorted_by key l.
  Proof.
    destruct l as [|a [|b t]]; simpl; intros H; try lia.
    - constructor.
    - constructor; constructor.
  Qed.

  Lemma msort_fuel_perm fuel l : (length l <= fuel)%nat -> Permutation (msort_fuel key fuel l) l.
  Proof.
    apply (msort_ind (fun l l' => Permutation l' l)).
    - reflexivity.
    - intros l0 h l1' l2' _ Hp1 Hp2.
      etransitivity; [apply merge_perm|].
      rewrite <- (firstn_skipn h l0) at 1. apply Permutation_app; assumption.
  Qed.

  Lemma msort_fuel_sorted fuel l : (length l <= fuel)%nat -> sorted_by key (msort_fuel key fuel l).
  Proof.
    apply (msort_ind (fun l l' => sorted_by key l')).
    - apply sorted_by_small.
    - intros l0 h l1' l2' _ H1 H2. apply merge_sorted; assumption.
  Qed.

  Lemma msort_fuel_filter k fuel l : (length l <= fuel)%nat ->
    filter (fk k) (msort_fuel key fuel l) = filter (fk k) l.
  Proof.
    intros H.
    apply (msort_ind (fun l l' => sorted_by key l' /\ filter (fk k) l' = filter (fk k) l)) in H.
    - apply H.
    - intros l0 Hl0. split; [apply sorted_by_small; exact Hl0 | reflexivity].
    - intros l0 h l1' l2' _ [Hs1 Hf1] [Hs2 Hf2]. split.
      + apply merge_sorted; assumption.
      + rewrite merge_filter by exact Hs1. rewrite Hf1, Hf2, <- filter_app, firstn_skipn.
        reflexivity.
  Qed.

  Lemma msort_fuel_id fuel l : (length l <= fuel)%nat -> sorted_by key l -> msort_fuel key fuel l = l.
  Proof.
    apply (msort_ind (fun l l' => sorted_by key l -> l' = l)).
    - reflexivity.
    - intros l0 h l1' l2' _ H1 H2 Hs.
      pose proof Hs as Hs'. rewrite <- (firstn_skipn h l0) in Hs'.
      destruct (SSorted_app_inv _ _ _ Hs') as [Ha Hb].
      rewrite (H1 Ha), (H2 Hb).
      rewrite merge_sorted_app by exact Hs'. apply firstn_skipn.
  Qed.

  Theorem stable_sort_perm l : Permutation (stable_sort key l) l.
  Proof. apply msort_fuel_perm. apply le_n. Qed.

  Theorem stable_sort_sorted l : sorted_by key (stable_sort key l).
  Proof. apply msort_fuel_sorted. apply le_n. Qed.

  (* stability: elements with equal keys keep their relative order *)
  Theorem stable_sort_stable l k :
    filter (fun a => key a =? k) (stable_sort key l) = filter (fun a => key a =? k) l.
  Proof. apply (msort_fuel_filter k). apply le_n. Qed.

  Lemma stable_sort_id l : sorted_by key l -> stable_sort key l = l.
  Proof. apply msort_fuel_id. apply le_n. Qed.
End SortProofs.

Lemma sort_z_sorted l : sortedZ (sort_z l).
Proof. exact (stable_sort_sorted (fun x => x) l). Qed.

Lemma sort_z_perm l : Permutation (sort_z l) l.
Proof. exact (stable_sort_perm (fun x => x) l). Qed.

(* sorting a sorted list changes nothing *)
Lemma sort_z_id l : sortedZ l -> sort_z l = l.
Proof. intros H. exact (stable_sort_id (fun x => x) l H). Qed.

(* ------------------------------------------------------------------ *)
(** * dedup_adjacent *)

Section SkipAux.
  Context {A : Type} (key : A -> Z).
  (* standalone copy of the local [skip] of dedup_adjacent (same fix once [key] is a parameter) *)
  Fixpoint skip_aux (prev : A) (r : list A) : list A :=
    match r with
    | [] => []
    | b :: r' => if key b =? key prev then skip_aux prev r' else b :: skip_aux b r'
    end.
End SkipAux.

Section DedupProofs.
  Context {A : Type} (key : A -> Z).

  Lemma dedup_cons a t : dedup_adjacent key (a :: t) = a :: skip_aux key a t.
  Proof. reflexivity. Qed.

  Lemma skip_aux_cons p b r :
    skip_aux key p (b :: r) = if key b =? key p then skip_aux key p r else b :: skip_aux key b r.
  Proof. reflexivity. Qed.

  Lemma skip_aux_strict r : forall p,
    sorted_by key (p :: r) -> strictly_by key (p :: skip_aux key p r).
  Proof.
    induction r as [|b r' IH]; intros p H.
    - simpl. constructor; constructor.
    - rewrite skip_aux_cons.
      apply StronglySorted_inv in H. destruct H as [Hs Hf].
      apply StronglySorted_inv in Hs. destruct Hs as [Hs' Hf'].
      inversion Hf as [|? ? Hpb Hpr]; subst.
      destruct (Z.eqb_spec (key b) (key p)) as [Heq|Hne].
      + apply IH. constructor; assumption.
      + assert (Hb : strictly_by key (b :: skip_aux key b r')).
        { apply IH. constructor; assumption. }
        constructor; [exact Hb|].
        constructor; [lia|].
        apply StronglySorted_inv in Hb. destruct Hb as [_ Hbf].
        eapply Forall_impl; [|exact Hbf]. intros x Hx. simpl in Hx. lia.
  Qed.

  Theorem dedup_adjacent_strict l : sorted_by key l -> strictly_by key (dedup_adjacent key l).
  Proof.
    destruct l as [|a t]; intros H.
    - simpl. constructor.
    - rewrite dedup_cons. apply skip_aux_strict. exact H.
  Qed.

  Lemma skip_aux_incl r : forall p a, In a (skip_aux key p r) -> In a r.
  Proof.
    induction r as [|b r' IH]; intros p a H.
    - exact H.
    - rewrite skip_aux_cons in H. destruct (key b =? key p).
      + right. eapply IH; exact H.
      + destruct H as [H|H]; [left; exact H | right; eapply IH; exact H].
  Qed.

  Theorem dedup_adjacent_incl l a : In a (dedup_adjacent key l) -> In a l.
  Proof.
    destruct l as [|x t]; [intros H; exact H|].
    rewrite dedup_cons. intros [H|H]; [left; exact H | right; eapply skip_aux_incl; exact H].
  Qed.

  Lemma skip_aux_keys r : forall p k,
    In k (map key (p :: skip_aux key p r)) <-> In k (map key (p :: r)).
  Proof.
    induction r as [|b r' IH]; intros p k.
    - reflexivity.
    - rewrite skip_aux_cons. destruct (Z.eqb_spec (key b) (key p)) as [Heq|Hne].
      + rewrite IH. simpl. rewrite Heq. tauto.
      + specialize (IH b k). simpl in *. tauto.
  Qed.

  Theorem dedup_adjacent_keys l k :
    In k (map key (dedup_adjacent key l)) <-> In k (map key l).
  Proof.
    destruct l as [|a t]; [reflexivity|].
    rewrite dedup_cons. apply skip_aux_keys.
  Qed.

  Lemma skip_aux_first r : forall p a,
    sorted_by key (p :: r) -> In a (skip_aux key p r) ->
    exists l1 l2, r = l1 ++ a :: l2 /\ Forall (fun b => key b <> key a) (p :: l1).
  Proof.
    induction r as [|b r' IH]; intros p a H Hin.
    - destruct Hin.
    - rewrite skip_aux_cons in Hin.
      apply StronglySorted_inv in H. destruct H as [Hs Hf].
      pose proof Hs as Hs0.
      apply StronglySorted_inv in Hs. destruct Hs as [Hs' Hf'].
      inversion Hf as [|? ? Hpb Hpr]; subst.
      destruct (Z.eqb_spec (key b) (key p)) as [Heq|Hne].
      + destruct (IH p a) as (l1 & l2 & -> & Hall); [constructor; assumption | exact Hin |].
        exists (b :: l1), l2. split; [reflexivity|].
        inversion Hall as [|? ? Hpa Hl1]; subst.
        constructor; [exact Hpa|]. constructor; [congruence | exact Hl1].
      + destruct Hin as [->|Hin].
        * exists [], r'. split; [reflexivity|]. constructor; [lia | constructor].
        * destruct (IH b a Hs0 Hin) as (l1 & l2 & -> & Hall).
          exists (b :: l1), l2. split; [reflexivity|].
          constructor; [|exact Hall].
          rewrite Forall_forall in Hf'.
          assert (key b <= key a) by (apply Hf'; apply in_or_app; right; left; reflexivity).
          lia.
  Qed.

  (* the element kept for a key is the FIRST element of the sorted list with that key *)
  Theorem dedup_adjacent_first l a :
    sorted_by key l -> In a (dedup_adjacent key l) ->
    exists l1 l2, l = l1 ++ a :: l2 /\ Forall (fun b => key b <> key a) l1.
  Proof.
    destruct l as [|x t]; intros Hs Hin; [destruct Hin|].
    rewrite dedup_cons in Hin. destruct Hin as [->|Hin].
    - exists [], t. split; [reflexivity | constructor].
    - destruct (skip_aux_first t x a Hs Hin) as (l1 & l2 & -> & Hall).
      exists (x :: l1), l2. split; [reflexivity | exact Hall].
  Qed.

  Lemma skip_aux_id r : forall p, strictly_by key (p :: r) -> skip_aux key p r = r.
  Proof.
    induction r as [|b r' IH]; intros p H; [reflexivity|].
    rewrite skip_aux_cons.
    apply StronglySorted_inv in H. destruct H as [Hs Hf].
    inversion Hf as [|? ? Hpb Hpr]; subst.
    destruct (Z.eqb_spec (key b) (key p)) as [Heq|Hne]; [lia|].
    rewrite IH by exact Hs. reflexivity.
  Qed.

  Lemma dedup_adjacent_id l : strictly_by key l -> dedup_adjacent key l = l.
  Proof.
    destruct l as [|a t]; intros H; [reflexivity|].
    rewrite dedup_cons, skip_aux_id by exact H. reflexivity.
  Qed.
End DedupProofs.

Theorem unique_sorted_spec l :
  StronglySorted Z.lt (unique_sorted l) /\ (forall x, In x (unique_sorted l) <-> In x l).
Proof.
  unfold unique_sorted. split.
  - exact (dedup_adjacent_strict (fun x => x) (sort_z l) (sort_z_sorted l)).
  - intros x.
    pose proof (dedup_adjacent_keys (fun x => x) (sort_z l) x) as H.
    rewrite !map_id in H. rewrite H. split; intros Hin.
    + eapply Permutation_in; [apply sort_z_perm | exact Hin].
    + eapply Permutation_in; [symmetry; apply sort_z_perm | exact Hin].
Qed.

(* ------------------------------------------------------------------ *)
(** * tensor_split *)

Lemma split_sizes_concat {A} sizes : forall l : list A,
  (length l <= list_sum sizes)%nat -> concat (split_sizes sizes l) = l.
Proof.
  induction sizes as [|s rest IH]; intros l H.
  - simpl in *. destruct l; simpl in *; [reflexivity | lia].
  - cbn [split_sizes concat]. rewrite IH; [apply firstn_skipn|].
    rewrite skipn_length. cbn [list_sum fold_right] in H. unfold list_sum. lia.
Qed.

Lemma split_sizes_length {A} sizes : forall l : list A,
  length (split_sizes sizes l) = length sizes.
Proof.
  induction sizes as [|s rest IH]; intros l; [reflexivity|].
  cbn [split_sizes length]. rewrite IH. reflexivity.
Qed.

Lemma list_sum_repeat x n : list_sum (repeat x n) = (n * x)%nat.
Proof. induction n as [|n IH]; [reflexivity|]. cbn [repeat]. change (list_sum (x :: repeat x n)) with (x + list_sum (repeat x n))%nat. rewrite IH. lia. Qed.

Theorem tensor_split_concat {A} (k : nat) (l : list A) :
  (0 < k)%nat -> concat (tensor_split k l) = l.
Proof.
  intros Hk. unfold tensor_split. cbv zeta.
  apply split_sizes_concat.
  rewrite list_sum_app, !list_sum_repeat.
  pose proof (Nat.div_mod (length l) k ltac:(lia)) as Hdm.
  pose proof (Nat.mod_upper_bound (length l) k ltac:(lia)) as Hub.
  set (q := (length l / k)%nat) in *. set (r := (length l mod k)%nat) in *.
  nia.
Qed.

Lemma tensor_split_length {A} (k : nat) (l : list A) :
  (0 < k)%nat -> length (tensor_split k l) = k.
Proof.
  intros Hk. unfold tensor_split. cbv zeta.
  rewrite split_sizes_length, app_length, !repeat_length.
  pose proof (Nat.mod_upper_bound (length l) k ltac:(lia)) as Hub. lia.
Qed.

(* ------------------------------------------------------------------ *)
(** * Masks *)

Lemma mask_select_nil_r {A} (l : list A) : mask_select l [] = [].
Proof. destruct l; reflexivity. Qed.

Lemma mask_select_In {A} (l : list A) m x (d : A) :
  In x (mask_select l m) <->
  exists i, (i < length l)%nat /\ nth i l d = x /\ nth i m false = true.
Proof.
  revert m. induction l as [|a t IH]; intros m.
  - simpl. split; [tauto|]. intros (i & Hi & _). lia.
  - destruct m as [|b mt].
    + simpl. split; [tauto|]. intros (i & _ & _ & H). destruct i; discriminate.
    + cbn [mask_select]. destruct b.
      * simpl In. rewrite IH. split.
        -- intros [->|(i & Hi & Hx & Hm)].
           ++ exists O. simpl. repeat split. lia.
           ++ exists (S i). simpl. repeat split; [lia | exact Hx | exact Hm].
        -- intros (i & Hi & Hx & Hm). destruct i as [|i]; simpl in *.
           ++ left. exact Hx.
           ++ right. exists i. repeat split; [lia | exact Hx | exact Hm].
      * rewrite IH. split.
        -- intros (i & Hi & Hx & Hm).
           exists (S i). simpl. repeat split; [lia | exact Hx | exact Hm].
        -- intros (i & Hi & Hx & Hm). destruct i as [|i]; simpl in *.
           ++ discriminate.
           ++ exists i. repeat split; [lia | exact Hx | exact Hm].
Qed.

Lemma mask_select_map {A B} (f : A -> B) l m :
  mask_select (map f l) m = map f (mask_select l m).
Proof.
  revert m. induction l as [|a t IH]; intros m; [reflexivity|].
  destruct m as [|b mt]; [reflexivity|].
  cbn [map mask_select]. destruct b; cbn [map]; rewrite IH; reflexivity.
Qed.

Lemma mask_select_Forall {A} (P : A -> Prop) l : forall m,
  Forall P l -> Forall P (mask_select l m).
Proof.
  induction l as [|a t IH]; intros m H; [constructor|].
  destruct m as [|b mt]; [constructor|].
  inversion H; subst. cbn [mask_select]. destruct b; [constructor; [assumption|] |]; apply IH; assumption.
Qed.

Lemma mask_select_SSorted {A} (R : A -> A -> Prop) l : forall m,
  StronglySorted R l -> StronglySorted R (mask_select l m).
Proof.
  induction l as [|a t IH]; intros m H; [constructor|].
  destruct m as [|b mt]; [constructor|].
  apply StronglySorted_inv in H. destruct H as [Hs Hf].
  cbn [mask_select]. destruct b.
  - constructor; [apply IH; exact Hs | apply mask_select_Forall; exact Hf].
  - apply IH; exact Hs.
Qed.

Lemma mask_select_sorted {A} (key : A -> Z) l m :
  strictly_by key l -> strictly_by key (mask_select l m).
Proof. apply mask_select_SSorted. Qed.

Lemma mask_select_sorted_le {A} (key : A -> Z) l m :
  sorted_by key l -> sorted_by key (mask_select l m).
Proof. apply mask_select_SSorted. Qed.

Lemma first_true_spec m i :
  first_true m = Some i <->
  (nth i m false = true /\ forall j, (j < i)%nat -> nth j m false = false).
Proof.
  revert i. induction m as [|b t IH]; intros i.
  - simpl. split; [discriminate|]. intros [H _]. destruct i; discriminate.
  - destruct b; cbn [first_true].
    + split.
      * intros H. inversion H; subst. split; [reflexivity | intros; lia].
      * intros [H1 H2]. destruct i; [reflexivity|].
        specialize (H2 O ltac:(lia)). discriminate.
    + split.
      * intros H. destruct (first_true t) as [i'|] eqn:E; [|discriminate].
        simpl in H. inversion H; subst.
        destruct (IH i') as [IH1 _]. destruct (IH1 eq_refl) as [E1 E2]. split; [exact E1|].
        intros [|j] Hj; [reflexivity|]. simpl. apply E2. lia.
      * intros [H1 H2]. destruct i as [|i']; [discriminate|]. simpl in H1.
        assert (first_true t = Some i') as ->; [|reflexivity].
        apply IH. split; [exact H1|]. intros j Hj. apply (H2 (S j)). lia.
Qed.

Lemma first_true_none m : first_true m = None <-> (forall i, nth i m false = false).
Proof.
  induction m as [|b t IH].
  - simpl. split; [intros _ i; destruct i; reflexivity | reflexivity].
  - destruct b; cbn [first_true].
    + split; [discriminate|]. intros H. specialize (H O). discriminate.
    + split.
      * intros H. destruct (first_true t) eqn:E; [discriminate|].
        intros [|i]; [reflexivity|]. simpl. apply IH. reflexivity.
      * intros H. assert (first_true t = None) as ->; [|reflexivity].
        apply IH. intros i. apply (H (S i)).
Qed.

(* ------------------------------------------------------------------ *)
(** * setdiff1d *)

Lemma setdiff1d_spec a b :
  sortedZ (setdiff1d a b) /\ (forall x, In x (setdiff1d a b) <-> In x a /\ ~ In x b).
Proof.
  unfold setdiff1d. split; [apply sort_z_sorted|].
  intros x.
  assert (Hf : In x (filter (fun x0 => negb (isin1 b x0)) a) <-> In x a /\ ~ In x b).
  { rewrite filter_In, negb_true_iff, <- not_true_iff_false, isin1_iff. reflexivity. }
  rewrite <- Hf. split; intros Hin.
  - eapply Permutation_in; [apply sort_z_perm | exact Hin].
  - eapply Permutation_in; [symmetry; apply sort_z_perm | exact Hin].
Qed.

Print Assumptions isin_ss1_sorted.
Print Assumptions stable_sort_stable.
Print Assumptions dedup_adjacent_first.
Print Assumptions tensor_split_concat.
