(** The edge list returned by the BFS model (Bfs.v) when [return_all_edges] is requested, and the
    alignment of states and hashes that makes its vertex numbering meaningful.
    Extends the loop invariant of BfsProofs.v with facts about [e_starts_rev]/[e_ends_rev]. *)
From Coq Require Import ZArith List Bool Arith Lia Permutation Sorted.
From V Require Import Base BaseProofs Tensor TensorProofs Graph GraphProofs GraphImpl Bfs BfsStep BfsProofs.
Import ListNotations.
Local Open Scope nat_scope.

(* ------------------------------------------------------------------ *)
(** * Generic list facts *)

Lemma combine_app {A B} (x1 : list A) : forall (y1 : list B) x2 y2,
  length x1 = length y1 -> combine (x1 ++ x2) (y1 ++ y2) = combine x1 y1 ++ combine x2 y2.
Proof.
  induction x1 as [|a x1 IH]; intros [|b y1] x2 y2 H; simpl in *; try discriminate; auto.
  rewrite IH by lia. reflexivity.
Qed.

Lemma combine_swap {A B} (xs : list A) : forall (ys : list B) a b,
  In (a, b) (combine xs ys) <-> In (b, a) (combine ys xs).
Proof.
  induction xs as [|x xs IH]; intros [|y ys] a b; simpl; try tauto.
  rewrite IH. split; (intros [H | H]; [left; inversion H; reflexivity | right; exact H]).
Qed.

Lemma combine_map_map {A B C} (f : A -> B) (h : A -> C) l :
  combine (map f l) (map h l) = map (fun v => (f v, h v)) l.
Proof. induction l as [|a l IH]; simpl; [reflexivity | rewrite IH; reflexivity]. Qed.

Lemma repeat_list_S {A} (l : list A) n : repeat_list l (S n) = l ++ repeat_list l n.
Proof. reflexivity. Qed.

Lemma repeat_list_length {A} (l : list A) n : length (repeat_list l n) = n * length l.
Proof.
  induction n as [|n IH]; [reflexivity|]. rewrite repeat_list_S, app_length, IH. reflexivity.
Qed.

Lemma get_neighbors_length G l : length (get_neighbors G l) = n_gens G * length l.
Proof.
  unfold get_neighbors, n_gens. induction (acts G) as [|g gs IH]; [reflexivity|].
  simpl. rewrite app_length, map_length, IH. reflexivity.
Qed.

(* pairs of two block lists that have the same shape come from one block *)
Lemma In_combine_concat {A B} (xs : list (list A)) : forall (ys : list (list B)) a b,
  length xs = length ys ->
  (forall k, length (nth k xs []) = length (nth k ys [])) ->
  (In (a, b) (combine (concat xs) (concat ys)) <->
   exists k, In (a, b) (combine (nth k xs []) (nth k ys []))).
Proof.
  induction xs as [|x xs IH]; intros [|y ys] a b Hlen Hk; simpl in Hlen; try discriminate.
  - simpl. split; [intros [] | intros ([|k] & [])].
  - simpl concat. rewrite combine_app by (apply (Hk 0)). rewrite in_app_iff.
    rewrite IH; [| lia | intros k; apply (Hk (S k))]. split.
    + intros [H | (k & H)]; [exists 0; exact H | exists (S k); exact H].
    + intros ([|k] & H); [left; exact H | right; exists k; exact H].
Qed.

(* one expansion block: starts are the layer hashes repeated once per generator, ends are the hashes
   of the generator-major neighbour list *)
Lemma block_in (hf : state -> Z) (l : list state) (gs : list (state -> state)) a b :
  In (a, b) (combine (repeat_list (map hf l) (length gs))
                     (map hf (flat_map (fun g => map g l) gs))) <->
  exists v g, In v l /\ In g gs /\ a = hf v /\ b = hf (g v).
Proof.
  induction gs as [|g gs IH].
  - simpl. split; [intros [] | intros (v & g & _ & [] & _)].
  - cbn [length flat_map]. rewrite repeat_list_S, map_app.
    rewrite combine_app by (rewrite !map_length; reflexivity).
    rewrite in_app_iff, IH, map_map, combine_map_map, in_map_iff. split.
    + intros [(v & Heq & Hv) | (v & g' & Hv & Hg & Ha & Hb)].
      * inversion Heq; subst. exists v, g. simpl; auto.
      * exists v, g'. simpl; auto.
    + intros (v & g' & Hv & [Hg | Hg] & Ha & Hb).
      * subst g'. left. exists v. subst. auto.
      * right. exists v, g'. auto.
Qed.

Lemma expand_plain_nbh G st : snd (expand_plain G st) = hashes G (get_neighbors G (layer1 st)).
Proof.
  unfold expand_plain.
  destruct (get_unique_states G (get_neighbors G (layer1 st))
              (hashes G (get_neighbors G (layer1 st)))) as [u uh].
  reflexivity.
Qed.

Ltac prjx := cbn [it layer1 layer1_h seen sizes_rev stored_rev all_h_rev trace_rev e_starts_rev e_ends_rev
                  mk_break mk_next with_trace edge_st] in *.

(* ------------------------------------------------------------------ *)
(** * The additional loop invariant *)

Section BfsEdges.
  Variable G : impl.
  Variable cfg : bfs_cfg.
  Variable U : state -> Prop.
  Hypothesis U_closed : closed state (acts G) U.
  Hypothesis NoColl : forall a b, U a -> U b -> hashf G a = hashf G b -> a = b.
  Hypothesis IdOK : is_identity G = true -> forall a, U a -> unword G (hashf G a) = a.
  Hypothesis Sym : inv_closed G = true -> symmetric_on state (acts G) U.
  Hypothesis batch_pos : (1 <= batch_size cfg)%Z.
  Variable starts : list state.
  Hypothesis starts_U : forall s, In s starts -> U s.
  Hypothesis starts_ne : starts <> [].
  Hypothesis edges_on : ret_edges cfg = true.
  Notation L i := (layer state st_eq_dec (acts G) starts i).
  Local Notation hf := (hashf G).
  Local Notation Core := (Core G cfg starts).
  Local Notation Inv := (Inv G cfg starts).

  (** ** Recorded expansion blocks: block k (oldest last) is the expansion of the true layer k *)

  Inductive EB : nat -> list (list Z) -> list (list Z) -> Prop :=
  | EB0 : EB 0 [] []
  | EBS n ss es l : EB n ss es -> set_eq l (L n) ->
      EB (S n) (repeat_list (map hf l) (n_gens G) :: ss) (map hf (get_neighbors G l) :: es).

  Definition is_edge (n : nat) (a b : Z) : Prop :=
    exists v g i, i < n /\ In v (L i) /\ In g (acts G) /\ a = hf v /\ b = hf (g v).

  Lemma block_len l :
    length (repeat_list (map hf l) (n_gens G)) = length (map hf (get_neighbors G l)).
  Proof. rewrite repeat_list_length, !map_length, get_neighbors_length. reflexivity. Qed.

  Lemma block_edge n l a b : set_eq l (L n) ->
    (In (a, b) (combine (repeat_list (map hf l) (n_gens G)) (map hf (get_neighbors G l))) <->
     exists v g, In v (L n) /\ In g (acts G) /\ a = hf v /\ b = hf (g v)).
  Proof.
    intros Hset. unfold n_gens, get_neighbors. rewrite block_in.
    split; intros (v & g & Hv & Hg & Ha & Hb); exists v, g; repeat split; auto; apply Hset; auto.
  Qed.

  Lemma EB_len n ss es : EB n ss es -> length (concat (rev ss)) = length (concat (rev es)).
  Proof.
    induction 1 as [|n ss es l HEB IH Hset]; [reflexivity|].
    simpl rev. rewrite !concat_app, !app_length, IH. simpl concat. rewrite !app_nil_r, block_len.
    reflexivity.
  Qed.

  Lemma EB_in n ss es : EB n ss es -> forall a b,
    In (a, b) (combine (concat (rev ss)) (concat (rev es))) <-> is_edge n a b.
  Proof.
    induction 1 as [|n ss es l HEB IH Hset]; intros a b.
    - simpl. split; [intros [] | intros (v & g & i & Hi & _); lia].
    - simpl rev. rewrite !concat_app. simpl concat. rewrite !app_nil_r.
      rewrite combine_app by (eapply EB_len; eauto).
      rewrite in_app_iff, IH, (block_edge n l a b Hset). unfold is_edge. split.
      + intros [(v & g & i & Hi & H) | (v & g & H)].
        * exists v, g, i. split; [lia | exact H].
        * exists v, g, n. split; [lia | exact H].
      + intros (v & g & i & Hi & H). destruct (Nat.eq_dec i n) as [-> | Hne].
        * right. exists v, g. exact H.
        * left. exists v, g, i. split; [lia | exact H].
  Qed.

  (** ** The invariant: alignment of the current layer, the edge blocks, and (when hashes are
      returned) the would-be result list [hl] of hash layers matching the stored states *)

  Record XInv (st : bfs_st) (ne : nat) (hl : list (list Z)) : Prop := {
    x_al : layer1_h st = map hf (layer1 st);
    x_eb : EB ne (e_starts_rev st) (e_ends_rev st);
    x_hl : ret_hashes cfg = true ->
           length hl = it st /\ nth (it st - 1) hl [] = layer1_h st /\
           forall k l, In (k, l) (stored_rev st) -> nth k hl [] = map hf l;
  }.

  (* at the loop head and at a non-exhaustive break *)
  Definition XHead (st : bfs_st) : Prop :=
    XInv st (it st - 1) (rev (layer1_h st :: all_h_rev st)).
  (* at the "next layer is empty" break *)
  Definition XBrk (st : bfs_st) : Prop := XInv st (it st) (rev (all_h_rev st)).

  Definition XPost (r : bfs_st + bfs_st * bool) : Prop :=
    match r with
    | inl st' => XHead st'
    | inr (st', true) => XBrk st'
    | inr (st', false) => XHead st'
    end.

  Lemma xinit : XHead (bfs_init G starts).
  Proof.
    unfold XHead, bfs_init.
    destruct (get_unique_states G starts (hashes G starts)) as [l1 l1h] eqn:E.
    apply (gus_spec G U NoColl IdOK) in E; [|exact starts_U].
    destruct E as (_ & _ & Hal & _). constructor; prjx.
    - exact Hal.
    - constructor.
    - intros _. simpl. split; [reflexivity|]. split; [reflexivity|].
      intros k l [H | []]. inversion H; subst. reflexivity.
  Qed.

  Lemma xhead_with_trace st t : XHead st -> XHead (with_trace st t).
  Proof. unfold XHead. intros [H1 H2 H3]. constructor; prjx; assumption. Qed.

  Lemma batched_off st : batched cfg st = false.
  Proof. unfold batched, do_batching. rewrite edges_on. reflexivity. Qed.

  Lemma hashes_pushed_on st : ret_hashes cfg = true ->
    hashes_pushed cfg st = layer1_h st :: all_h_rev st.
  Proof. unfold hashes_pushed. intros ->. reflexivity. Qed.

  (* the state after recording the expansion of the current layer *)
  Lemma xedge st : Core st -> XHead st ->
    XInv (edge_st G st (snd (expand_plain G st))) (it st) (rev (layer1_h st :: all_h_rev st)).
  Proof.
    intros Hc [H1 H2 H3]. pose proof (c_pos _ _ _ _ Hc) as Hpos.
    destruct (c_layer _ _ _ _ Hc) as (_ & Hset & _).
    constructor; prjx.
    - exact H1.
    - rewrite expand_plain_nbh. unfold hashes. rewrite H1.
      replace (it st) with (S (it st - 1)) at 1 by lia. constructor; assumption.
    - exact H3.
  Qed.

  Lemma xbreak st : XInv st (it st) (rev (layer1_h st :: all_h_rev st)) -> XBrk (mk_break cfg st).
  Proof.
    unfold XBrk. intros [H1 H2 H3]. constructor; prjx; auto.
    intros Hr. rewrite (hashes_pushed_on st Hr). auto.
  Qed.

  Lemma xnext st l2 :
    Core st -> XInv st (it st) (rev (layer1_h st :: all_h_rev st)) ->
    XHead (mk_next G cfg l2 (map hf l2) st).
  Proof.
    unfold XHead. intros Hc [H1 H2 H3]. constructor; prjx.
    - reflexivity.
    - replace (S (it st) - 1) with (it st) by lia. exact H2.
    - intros Hr. rewrite (hashes_pushed_on st Hr). destruct (H3 Hr) as (Hlen & Hlast & Hst).
      set (hl := rev (layer1_h st :: all_h_rev st)) in *.
      change (rev (map hf l2 :: layer1_h st :: all_h_rev st)) with (hl ++ [map hf l2]).
      replace (S (it st) - 1) with (it st) by lia.
      assert (Hnew : nth (it st) (hl ++ [map hf l2]) [] = map hf l2).
      { rewrite app_nth2 by lia. rewrite Hlen, Nat.sub_diag. reflexivity. }
      split; [rewrite app_length; simpl; lia|]. split; [exact Hnew|].
      intros k l Hin.
      assert (Hcase : (it st, l2) = (k, l) \/ In (k, l) (stored_rev st)).
      { revert Hin. destruct (lenZ l2 <=? max_store cfg)%Z; simpl; tauto. }
      destruct Hcase as [Heq | Hold].
      + inversion Heq; subst k l. exact Hnew.
      + destruct (c_stored1 _ _ _ _ Hc k l Hold) as (Hk & _).
        rewrite app_nth1 by lia. apply Hst. exact Hold.
  Qed.

  Lemma iter_cont_xpost st l2 :
    Core st -> XInv st (it st) (rev (layer1_h st :: all_h_rev st)) ->
    XPost (iter_cont G cfg l2 (map hf l2) st).
  Proof.
    intros Hc HX. pose proof (xnext st l2 Hc HX) as HN.
    unfold iter_cont, XPost. destruct (max_explore cfg <=? lenZ l2)%Z; [exact HN|].
    destruct (stop cfg) as [f|]; [|exact HN].
    destruct (f (it st) l2 (map hf l2)); apply xhead_with_trace; exact HN.
  Qed.

  Lemma iter_tail_xpost st l2 :
    Core st -> XInv st (it st) (rev (layer1_h st :: all_h_rev st)) ->
    XPost (iter_tail G cfg l2 (map hf l2) st).
  Proof.
    intros Hc HX. unfold iter_tail. destruct l2 as [|a l2'] eqn:El2.
    - unfold XPost. apply xbreak. exact HX.
    - rewrite <- El2. apply iter_cont_xpost; assumption.
  Qed.

  Lemma bfs_iter_xpost st : Core st -> XHead st -> XPost (bfs_iter G cfg st).
  Proof.
    intros Hc HX. rewrite bfs_iter_eq, batched_off, edges_on.
    pose proof (xedge st Hc HX) as HE.
    destruct (expand_plain G st) as [[l2 l2h] nbh] eqn:E. cbn [fst snd] in *.
    apply (expand_plain_spec G U U_closed NoColl IdOK) in E;
      [| apply (inv_layer1_U G cfg U U_closed starts starts_U); exact Hc
       | apply (inv_seen_sorted G cfg starts); exact Hc].
    destruct E as (_ & -> & _ & _).
    apply iter_tail_xpost.
    - apply core_edge_st. exact Hc.
    - exact HE.
  Qed.

  (** ** The whole loop *)

  Lemma loop_xpost n : forall st, Inv st -> XHead st -> XPost (loop_nat (bfs_iter G cfg) n st).
  Proof.
    induction n as [|n IH]; intros st Hinv HX.
    - exact HX.
    - cbn [loop_nat].
      pose proof (bfs_iter_post G cfg U U_closed NoColl IdOK Sym batch_pos starts starts_U st Hinv) as HP.
      pose proof (bfs_iter_xpost st (proj1 Hinv) HX) as HQ.
      destruct (bfs_iter G cfg st) as [st1 | [st1 [|]]]; unfold Post in HP; unfold XPost in HQ.
      + apply IH; [apply HP | exact HQ].
      + exact HQ.
      + exact HQ.
  Qed.

  Lemma loop_xfinal : XPost (loop_N (bfs_iter G cfg) (max_diameter cfg) (bfs_init G starts)).
  Proof.
    rewrite loop_N_nat. apply loop_xpost; [|exact xinit].
    apply (init_inv G cfg U NoColl IdOK Sym starts starts_U starts_ne).
  Qed.

  (** ** The edge field of the result record *)

  Definition edges_of (ss es : list (list Z)) (explored : bool) : result (option (list (Z * Z))) :=
    match ss, es with
    | v1 :: _, v2 :: _ =>
        Ok (Some (combine (concat (rev (if explored then ss else v2 :: ss)))
                          (concat (rev (if explored then es else v1 :: es)))))
    | _, _ => if explored then Ok (Some []) else Err IndexErr
    end.

  Lemma finish_edges st b o :
    bfs_finish cfg st b = Ok o -> edges_of (e_starts_rev st) (e_ends_rev st) b = Ok (edges o).
  Proof.
    unfold bfs_finish, edges_of. cbv zeta. rewrite edges_on.
    destruct (e_starts_rev st) as [|v1 ss]; [|destruct (e_ends_rev st) as [|v2 es]];
      destruct b; simpl bind; intros H; inversion H; reflexivity.
  Qed.

  Lemma edges_of_some ss es b e : edges_of ss es b = Ok e -> exists x, e = Some x.
  Proof.
    unfold edges_of. destruct ss as [|v1 ss]; [|destruct es as [|v2 es]]; destruct b;
      intros H; inversion H; eauto.
  Qed.

  Lemma edges_of_true n ss es : EB n ss es ->
    edges_of ss es true = Ok (Some (combine (concat (rev ss)) (concat (rev es)))).
  Proof. destruct 1; reflexivity. Qed.

  Definition is_back_edge (n : nat) (a b : Z) : Prop :=
    exists v g, In v (L n) /\ In g (acts G) /\ a = hf (g v) /\ b = hf v.

  Lemma edges_of_false n ss es x : EB n ss es -> edges_of ss es false = Ok (Some x) ->
    1 <= n /\ forall a b, In (a, b) x <-> is_edge n a b \/ is_back_edge (n - 1) a b.
  Proof.
    intros HEB. destruct HEB as [|n ss es l HEB Hset]; [discriminate|].
    pose proof (EBS _ _ _ _ HEB Hset) as HEB'.
    unfold edges_of. intros H. inversion H; subst x; clear H. split; [lia|]. intros a b.
    set (v1 := repeat_list (map hf l) (n_gens G)) in *.
    set (v2 := map hf (get_neighbors G l)) in *.
    change (rev (v2 :: v1 :: ss)) with (rev (v1 :: ss) ++ [v2]).
    change (rev (v1 :: v2 :: es)) with (rev (v2 :: es) ++ [v1]).
    rewrite (concat_app (rev (v1 :: ss))), (concat_app (rev (v2 :: es))).
    simpl (concat [_]). rewrite !app_nil_r.
    rewrite combine_app by (exact (EB_len _ _ _ HEB')).
    rewrite in_app_iff, (EB_in _ _ _ HEB'), combine_swap.
    unfold v1, v2. rewrite (block_edge n l b a Hset).
    replace (S n - 1) with n by lia. unfold is_back_edge. split.
    - intros [H | (v & g & Hv & Hg & Hb & Ha)]; [left; exact H | right; exists v, g; auto].
    - intros [H | (v & g & Hv & Hg & Ha & Hb)]; [left; exact H | right; exists v, g; auto].
  Qed.

  (** ** Final state of a successful run *)

  Lemma bfs_run o : bfs G cfg starts = Ok o ->
    exists st b, bfs_finish cfg st b = Ok o /\ Core st /\ (if b then XBrk st else XHead st).
  Proof.
    unfold bfs.
    pose proof (loop_final G cfg U U_closed NoColl IdOK Sym batch_pos starts starts_U starts_ne) as HF.
    pose proof loop_xfinal as HX.
    destruct (loop_N (bfs_iter G cfg) (max_diameter cfg) (bfs_init G starts)) as [st | [st [|]]];
      unfold XPost in HX; intros Hfin.
    - exists st, false. split; [exact Hfin|]. split; [apply HF | exact HX].
    - exists st, true. split; [exact Hfin|]. split; [apply HF | exact HX].
    - exists st, false. split; [exact Hfin|]. split; [apply HF | exact HX].
  Qed.

  (** ** Main theorems *)

  (* with edges requested the result is never None *)
  Lemma bfs_edges_some o : bfs G cfg starts = Ok o -> exists es, edges o = Some es.
  Proof.
    intros Hb. destruct (bfs_run o Hb) as (st & b & Hfin & _).
    apply finish_edges in Hfin. eapply edges_of_some; eauto.
  Qed.

  (* the same fact needs none of the correctness hypotheses (only [ret_edges cfg = true]) *)
  Lemma bfs_edges_some_min o : bfs G cfg starts = Ok o -> exists es, edges o = Some es.
  Proof.
    unfold bfs. intros Hb.
    destruct (loop_N (bfs_iter G cfg) (max_diameter cfg) (bfs_init G starts)) as [st | [st b]];
      apply finish_edges in Hb; eapply edges_of_some; eauto.
  Qed.

  (* with edges requested, states and hashes of every layer are aligned: this is what makes vertex
     numbering consistent *)
  Theorem bfs_layers_hashes_aligned o :
    bfs G cfg starts = Ok o -> ret_hashes cfg = true ->
    forall k l, In (k, l) (layers o) -> nth k (layer_hashes o) [] = map (hashf G) l.
  Proof.
    intros Hb Hr k l Hin. destruct (bfs_run o Hb) as (st & b & Hfin & Hc & HX).
    apply bfs_finish_fields in Hfin. destruct Hfin as (_ & _ & Hlay & Hlh & _).
    rewrite (core_D _ _ _ _ Hc) in Hlay. rewrite Hr in Hlh. rewrite Hlh. rewrite Hlay in Hin.
    destruct b; cbn [andb negb] in *.
    - destruct HX as [H1 _ H3]. destruct (H3 Hr) as (_ & Hlast & Hst).
      assert (Hcase : In (k, l) (stored_rev st) \/ (k, l) = (it st - 1, layer1 st)).
      { destruct (existsb (fun '(k, _) => k =? it st - 1) (rev (stored_rev st))); cbn [negb] in Hin.
        - left. apply in_rev. exact Hin.
        - apply in_app_iff in Hin. destruct Hin as [Hin | [Heq | []]].
          + left. apply in_rev. exact Hin.
          + right. symmetry. exact Heq. }
      destruct Hcase as [Hold | Heq].
      + apply Hst. exact Hold.
      + inversion Heq; subst k l. rewrite Hlast. exact H1.
    - destruct HX as [_ _ H3]. destruct (H3 Hr) as (_ & _ & Hst).
      apply Hst. apply in_rev. exact Hin.
  Qed.

  (* completed run: the edge list is exactly {(hash v, hash (g v)) | v in the orbit, g a generator} *)
  Theorem bfs_edges_completed o es :
    bfs G cfg starts = Ok o -> completed o = true -> edges o = Some es ->
    let D := length (sizes o) in
    forall a b, In (a, b) es <->
      exists v g i, (i < D)%nat /\ In v (L i) /\ In g (acts G) /\ a = hashf G v /\ b = hashf G (g v).
  Proof.
    intros Hb Hcomp He. destruct (bfs_run o Hb) as (st & b & Hfin & Hc & HX).
    pose proof (finish_edges _ _ _ Hfin) as Hed.
    apply bfs_finish_fields in Hfin. destruct Hfin as (Hcb & Hsz & _).
    rewrite Hcomp in Hcb. subst b. cbv zeta. rewrite Hsz, (core_D _ _ _ _ Hc).
    destruct HX as [_ HEB _]. rewrite (edges_of_true _ _ _ HEB), He in Hed.
    inversion Hed; subst es. intros a b. apply (EB_in _ _ _ HEB).
  Qed.

  (* interrupted run: every out-edge of every vertex of a non-final layer is present, and every other
     entry is the reversal of an out-edge of the last expanded layer *)
  Theorem bfs_edges_interrupted o es :
    bfs G cfg starts = Ok o -> completed o = false -> edges o = Some es ->
    let D := length (sizes o) in
    (forall v g i, (i + 1 < D)%nat -> In v (L i) -> In g (acts G) -> In (hashf G v, hashf G (g v)) es) /\
    (forall a b, In (a, b) es ->
       (exists v g i, (i + 1 < D)%nat /\ In v (L i) /\ In g (acts G) /\ a = hashf G v /\ b = hashf G (g v))
       \/ (exists v g, (2 <= D)%nat /\ In v (L (D - 2)) /\ In g (acts G) /\ a = hashf G (g v) /\ b = hashf G v)).
  Proof.
    intros Hb Hcomp He. destruct (bfs_run o Hb) as (st & b & Hfin & Hc & HX).
    pose proof (finish_edges _ _ _ Hfin) as Hed.
    apply bfs_finish_fields in Hfin. destruct Hfin as (Hcb & Hsz & _).
    rewrite Hcomp in Hcb. subst b. cbv zeta. rewrite Hsz, (core_D _ _ _ _ Hc).
    destruct HX as [_ HEB _]. rewrite He in Hed.
    destruct (edges_of_false _ _ _ _ HEB Hed) as (Hn & Hiff). split.
    - intros v g i Hi Hv Hg. apply Hiff. left. exists v, g, i. repeat split; auto. lia.
    - intros a b Hin. apply Hiff in Hin. destruct Hin as [(v & g & i & Hi & H) | (v & g & Hv & H)].
      + left. exists v, g, i. split; [lia | exact H].
      + right. exists v, g. split; [lia|]. replace (it st - 2) with (it st - 1 - 1) by lia.
        split; [exact Hv | exact H].
  Qed.

  (* interrupted run, exact form: a successful interrupted run made at least one expansion, and the
     list consists exactly of the out-edges of layers 0..D-2 and the reversed out-edges of layer D-2 *)
  Theorem bfs_edges_interrupted_exact o es :
    bfs G cfg starts = Ok o -> completed o = false -> edges o = Some es ->
    let D := length (sizes o) in
    (2 <= D)%nat /\
    forall a b, In (a, b) es <->
       (exists v g i, (i + 1 < D)%nat /\ In v (L i) /\ In g (acts G) /\ a = hashf G v /\ b = hashf G (g v))
       \/ (exists v g, In v (L (D - 2)) /\ In g (acts G) /\ a = hashf G (g v) /\ b = hashf G v).
  Proof.
    intros Hb Hcomp He. destruct (bfs_run o Hb) as (st & b & Hfin & Hc & HX).
    pose proof (finish_edges _ _ _ Hfin) as Hed.
    apply bfs_finish_fields in Hfin. destruct Hfin as (Hcb & Hsz & _).
    rewrite Hcomp in Hcb. subst b. cbv zeta. rewrite Hsz, (core_D _ _ _ _ Hc).
    destruct HX as [_ HEB _]. rewrite He in Hed.
    destruct (edges_of_false _ _ _ _ HEB Hed) as (Hn & Hiff). split; [lia|].
    intros a b. rewrite Hiff. replace (it st - 2) with (it st - 1 - 1) by lia.
    unfold is_edge, is_back_edge. split.
    - intros [(v & g & i & Hi & H) | H]; [left | right; exact H].
      exists v, g, i. split; [lia | exact H].
    - intros [(v & g & i & Hi & H) | H]; [left | right; exact H].
      exists v, g, i. split; [lia | exact H].
  Qed.
End BfsEdges.

Print Assumptions bfs_layers_hashes_aligned.
Print Assumptions bfs_edges_completed.
Print Assumptions bfs_edges_interrupted.
Print Assumptions bfs_edges_interrupted_exact.
Print Assumptions bfs_edges_some.
Print Assumptions bfs_edges_some_min.
Print Assumptions In_combine_concat.
