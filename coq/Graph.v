(** Abstract Schreier graphs: walks, distance, reference BFS layers. Pure mathematics, no hashing. *)
From Coq Require Import List Bool Arith Lia.
Import ListNotations.

Section Graph.
  Variable St : Type.
  Variable eq_dec : forall a b : St, {a = b} + {a <> b}.
  Variable gens : list (St -> St).

  (* applying generator indices in order; None when an index is out of range *)
  Fixpoint run (s : St) (p : list nat) : option St :=
    match p with
    | [] => Some s
    | i :: rest => match nth_error gens i with Some g => run (g s) rest | None => None end
    end.

  (* walk s p t: replaying path p from s ends in t *)
  Definition walk (s : St) (p : list nat) (t : St) : Prop := run s p = Some t.

  (* reach S k t: t is the end of a walk of exactly k edges starting somewhere in S *)
  Inductive reach (S : list St) : nat -> St -> Prop :=
  | reach0 s : In s S -> reach S 0 s
  | reachS k x g : reach S k x -> In g gens -> reach S (Datatypes.S k) (g x).

  Definition dist_is (S : list St) (t : St) (d : nat) : Prop :=
    reach S d t /\ forall k, k < d -> ~ reach S k t.

  (* all out-neighbours of a list of states *)
  Definition N (l : list St) : list St := flat_map (fun x => map (fun g => g x) gens) l.

  Definition mem (x : St) (l : list St) : bool := if in_dec eq_dec x l then true else false.

  (* textbook layers: L0 = dedup S, L_{i+1} = dedup (N L_i \ (L0 ∪ ... ∪ L_i)) *)
  Fixpoint ref_layers (S : list St) (i : nat) : list St * list St :=   (* (layer i, everything seen up to i) *)
    match i with
    | O => let l0 := nodup eq_dec S in (l0, l0)
    | Datatypes.S j =>
        let '(lj, seen) := ref_layers S j in
        let next := nodup eq_dec (filter (fun x => negb (mem x seen)) (N lj)) in
        (next, next ++ seen)
    end.
  Definition layer (S : list St) (i : nat) : list St := fst (ref_layers S i).
  Definition seen_upto (S : list St) (i : nat) : list St := snd (ref_layers S i).

  (* every generator can be undone by some generator (what "inverse closed" gives) *)
  Definition symmetric_on (U : St -> Prop) : Prop :=
    forall g x, In g gens -> U x -> exists g', In g' gens /\ g' (g x) = x.

  Definition closed (U : St -> Prop) : Prop := forall g x, In g gens -> U x -> U (g x).
End Graph.
