(** C15: theorems about the family models that hold for EVERY n (no bound), by list reasoning.

    For lrx, lx, top_spin, pancake, coxeter, cyclic_coxeter, stars, all_transpositions, full_reversals,
    prefix_cycles, down_cycles, consecutive_k_cycles: inside the documented parameter range the constructor
    returns a definition whose generators are given in closed form; every generator is a permutation of
    length n ([Perm]); the number of generators is the documented formula; and the action of each generator
    on an arbitrary sequence x of length n (library convention new[j] = old[p[j]], [apply_perm]) is the
    documented one: shift, swap of two entries, reversal of a prefix / of a segment, rotation of a segment
    (the action of a cycle of consecutive points).  The bounded, exhaustive statements for all families
    are in FamiliesBounded.v. *)
From Coq Require Import ZArith List Bool Arith Lia Sorting.Mergesort Sorting.Permutation.
From V Require Import Base Perm PermProofs PermCycles Def DefProofs Families.
Import ListNotations.
Open Scope nat_scope.

(* ---------------------------------------------------------------------------------------------- *)
(** * The documented actions on a sequence *)
Definition shift_left {A} (x : list A) : list A := skipn 1 x ++ firstn 1 x.
Definition shift_right {A} (x : list A) : list A := skipn (length x - 1) x ++ firstn (length x - 1) x.
Definition swap_at {A} (d : A) (x : list A) (i j : nat) : list A := upd (upd x i (nth j x d)) j (nth i x d).
Definition rev_prefix {A} (k : nat) (x : list A) : list A := rev (firstn k x) ++ skipn k x.
(* x[i..j] reversed *)
Definition rev_segment {A} (i j : nat) (x : list A) : list A :=
  firstn i x ++ rev (firstn (j + 1 - i) (skipn i x)) ++ skipn (j + 1) x.
(* x[i..j] rotated one step to the left: x[i+1], ..., x[j], x[i] *)
Definition rot_segment {A} (i j : nat) (x : list A) : list A :=
  firstn i x ++ firstn (j - i) (skipn (i + 1) x) ++ firstn 1 (skipn i x) ++ skipn (j + 1) x.

(* the generators in closed form *)
Definition gen_L (n : nat) : list nat := seq 1 (n - 1) ++ [0].
Definition gen_R (n : nat) : list nat := [n - 1] ++ seq 0 (n - 1).
Definition transp (n i j : nat) : list nat := upd (upd (seq 0 n) i j) j i.
Definition gen_rev_prefix (n k : nat) : list nat := rev (seq 0 k) ++ seq k (n - k).
Definition gen_rev_segment (n i j : nat) : list nat := seq 0 i ++ rev (seq i (j + 1 - i)) ++ seq (j + 1) (n - (j + 1)).
Definition gen_cycle (n i j : nat) : list nat := seq 0 i ++ seq (i + 1) (j - i) ++ [i] ++ seq (j + 1) (n - (j + 1)).

Definition PermN (n : nat) (p : list nat) : Prop := Perm p /\ length p = n.

(* ---------------------------------------------------------------------------------------------- *)
(** * Python primitives on natural arguments *)
Lemma to_of_nats l : to_nats (of_nats l) = l.
Proof.
  unfold to_nats, of_nats. rewrite map_map. rewrite <- (map_id l) at 2.
  apply map_ext. intros a. apply Nat2Z.id.
Qed.

Lemma of_nats_length l : length (of_nats l) = length l.
Proof. apply map_length. Qed.

Lemma map_seq_shift_Z m : forall a,
  map (fun i => (Z.of_nat a + Z.of_nat i)%Z) (seq 0 m) = map Z.of_nat (seq a m).
Proof.
  induction m as [|m IH]; intros a; [reflexivity|].
  cbn [seq map]. f_equal; [lia|].
  rewrite <- seq_shift, map_map. rewrite <- (IH (S a)).
  apply map_ext. intros i. lia.
Qed.

Lemma zrange_nat a b : zrange (Z.of_nat a) (Z.of_nat b) = of_nats (seq a (b - a)).
Proof.
  unfold zrange, of_nats.
  replace (Z.to_nat (Z.of_nat b - Z.of_nat a)) with (b - a) by lia.
  apply map_seq_shift_Z.
Qed.

Lemma zrange0_nat b : zrange 0 (Z.of_nat b) = of_nats (seq 0 b).
Proof. change 0%Z with (Z.of_nat 0). rewrite zrange_nat. now rewrite Nat.sub_0_r. Qed.

Lemma map_seq_down_Z m : forall a,
  map (fun i => (Z.of_nat (a + m) - 1 - Z.of_nat i)%Z) (seq 0 m) = map Z.of_nat (rev (seq a m)).
Proof.
  induction m as [|m IH]; intros a; [reflexivity|].
  rewrite (seq_S m a), rev_app_distr. cbn [rev app map seq].
  f_equal; [lia|].
  rewrite <- seq_shift, map_map. rewrite <- (IH a).
  apply map_ext. intros i. lia.
Qed.

(* range(b-1, a-1, -1) = b-1, ..., a *)
Lemma zrange_down_nat a b : a <= b ->
  zrange_down (Z.of_nat b - 1) (Z.of_nat a - 1) = of_nats (rev (seq a (b - a))).
Proof.
  intros H. unfold zrange_down, of_nats.
  replace (Z.to_nat (Z.of_nat b - 1 - (Z.of_nat a - 1))) with (b - a) by lia.
  rewrite <- map_seq_down_Z. apply map_ext. intros i. lia.
Qed.

Lemma mapM_ok {A B} (f : A -> result B) (g : A -> B) l :
  (forall a, In a l -> f a = Ok (g a)) -> mapM f l = Ok (map g l).
Proof.
  induction l as [|a l IH]; intros H; [reflexivity|].
  cbn [mapM map]. rewrite (H a (or_introl eq_refl)). cbn [bind].
  rewrite IH by (intros b Hb; apply H; right; exact Hb). reflexivity.
Qed.

(* ---------------------------------------------------------------------------------------------- *)
(** * Generic facts about lists *)
Lemma map_nth_seq {A} (d : A) (x : list A) : forall a m, a + m <= length x ->
  map (fun i => nth i x d) (seq a m) = firstn m (skipn a x).
Proof.
  intros a m. revert a x. induction m as [|m IH]; intros a x H; [reflexivity|].
  cbn [seq map].
  assert (a < length x) as Ha by lia.
  rewrite (IH (S a) x) by lia.
  clear IH. revert x H Ha. induction a as [|a IHa]; intros x H Ha.
  - destruct x as [|h t]; [cbn in Ha; lia|]. reflexivity.
  - destruct x as [|h t]; [cbn in Ha; lia|]. cbn [nth skipn]. cbn [length] in *.
    apply IHa; lia.
Qed.

Lemma map_nth_seq_all {A} (d : A) (x : list A) : map (fun i => nth i x d) (seq 0 (length x)) = x.
Proof. rewrite map_nth_seq by lia. cbn [skipn]. apply firstn_all. Qed.

Lemma Perm_of_Permutation n p : Permutation p (seq 0 n) -> PermN n p.
Proof.
  intros H. pose proof (Permutation_length H) as L. rewrite seq_length in L.
  split; [|exact L]. unfold Perm. rewrite L. exact H.
Qed.

Lemma seq_split a k m : k <= m -> seq a m = seq a k ++ seq (a + k) (m - k).
Proof. intros H. rewrite <- seq_app. f_equal. lia. Qed.

(* a list of indices below its length that is an involution as a map is a permutation *)
Lemma involution_Perm p :
  (forall t, t < length p -> nth t p 0 < length p /\ nth (nth t p 0) p 0 = t) -> Perm p.
Proof.
  intros H. apply NoDup_lt_Perm.
  - apply (proj2 (NoDup_nth p 0)). intros i j Hi Hj E.
    destruct (H i Hi) as [_ Ei]. destruct (H j Hj) as [_ Ej]. rewrite <- Ei, <- Ej, E. reflexivity.
  - intros x Hx. apply In_nth with (d := 0) in Hx as (t & Ht & E). rewrite <- E. apply H. exact Ht.
Qed.

Lemma transp_length n i j : length (transp n i j) = n.
Proof. unfold transp. rewrite !upd_length. apply seq_length. Qed.

Lemma transp_nth n i j t : i < n -> j < n -> t < n ->
  nth t (transp n i j) 0 = if t =? j then i else if t =? i then j else t.
Proof.
  intros Hi Hj Ht. unfold transp.
  destruct (Nat.eqb_spec t j) as [->|Hne].
  - apply nth_upd_same. rewrite upd_length, seq_length. exact Hj.
  - rewrite nth_upd_other by congruence.
    destruct (Nat.eqb_spec t i) as [->|Hne'].
    + apply nth_upd_same. rewrite seq_length. exact Hi.
    + rewrite nth_upd_other by congruence. rewrite seq_nth by exact Ht. reflexivity.
Qed.

Lemma transp_PermN n i j : i < n -> j < n -> PermN n (transp n i j).
Proof.
  intros Hi Hj. split; [|apply transp_length].
  apply involution_Perm. rewrite transp_length. intros t Ht.
  rewrite (transp_nth n i j t Hi Hj Ht).
  destruct (Nat.eqb_spec t j) as [->|Hne].
  - split; [exact Hi|]. rewrite (transp_nth n i j i Hi Hj Hi).
    destruct (Nat.eqb_spec i j) as [->|]; [reflexivity|]. now rewrite Nat.eqb_refl.
  - destruct (Nat.eqb_spec t i) as [->|Hne'].
    + split; [exact Hj|]. rewrite (transp_nth n i j j Hi Hj Hj). now rewrite Nat.eqb_refl.
    + split; [exact Ht|]. rewrite (transp_nth n i j t Hi Hj Ht).
      destruct (Nat.eqb_spec t j); [congruence|]. destruct (Nat.eqb_spec t i); [congruence|]. reflexivity.
Qed.

Lemma apply_transp {A} (d : A) n i j (x : list A) : i < n -> j < n -> length x = n ->
  apply_perm d (transp n i j) x = swap_at d x i j.
Proof.
  intros Hi Hj L. apply nth_ext' with (d := d).
  - rewrite apply_perm_length, transp_length. unfold swap_at. now rewrite !upd_length.
  - intros t Ht. rewrite apply_perm_length, transp_length in Ht.
    rewrite nth_apply_perm by (rewrite transp_length; exact Ht).
    rewrite (transp_nth n i j t Hi Hj Ht). unfold swap_at.
    destruct (Nat.eqb_spec t j) as [->|Hne].
    + rewrite nth_upd_same by (rewrite upd_length; lia). reflexivity.
    + rewrite nth_upd_other by congruence.
      destruct (Nat.eqb_spec t i) as [->|Hne'].
      * rewrite nth_upd_same by lia. reflexivity.
      * rewrite nth_upd_other by congruence. reflexivity.
Qed.

(* ---------------------------------------------------------------------------------------------- *)
(** * Closed-form generators: permutations, actions *)
Lemma gen_L_PermN n : 1 <= n -> PermN n (gen_L n).
Proof.
  intros H. apply Perm_of_Permutation. unfold gen_L.
  replace (seq 0 n) with ([0] ++ seq 1 (n - 1)) by (destruct n; [lia|]; cbn; now rewrite Nat.sub_0_r).
  apply Permutation_app_comm.
Qed.

Lemma gen_R_PermN n : 1 <= n -> PermN n (gen_R n).
Proof.
  intros H. apply Perm_of_Permutation. unfold gen_R.
  replace (seq 0 n) with (seq 0 (n - 1) ++ [n - 1]).
  - apply Permutation_app_comm.
  - rewrite <- seq_S. f_equal. lia.
Qed.

Lemma gen_rev_prefix_PermN n k : k <= n -> PermN n (gen_rev_prefix n k).
Proof.
  intros H. apply Perm_of_Permutation. unfold gen_rev_prefix.
  rewrite (seq_split 0 k n H). apply Permutation_app_tail. apply Permutation_sym, Permutation_rev.
Qed.

Lemma gen_rev_segment_PermN n i j : i <= j -> j < n -> PermN n (gen_rev_segment n i j).
Proof.
  intros H1 H2. apply Perm_of_Permutation. unfold gen_rev_segment.
  rewrite (seq_split 0 i n) by lia. apply Permutation_app_head. cbn [Nat.add].
  rewrite (seq_split i (j + 1 - i) (n - i)) by lia.
  replace (i + (j + 1 - i)) with (j + 1) by lia. replace (n - i - (j + 1 - i)) with (n - (j + 1)) by lia.
  apply Permutation_app_tail. apply Permutation_sym, Permutation_rev.
Qed.

Lemma gen_cycle_PermN n i j : i <= j -> j < n -> PermN n (gen_cycle n i j).
Proof.
  intros H1 H2. apply Perm_of_Permutation. unfold gen_cycle.
  rewrite (seq_split 0 i n) by lia. apply Permutation_app_head. cbn [Nat.add].
  rewrite (seq_split i (j + 1 - i) (n - i)) by lia.
  replace (i + (j + 1 - i)) with (j + 1) by lia. replace (n - i - (j + 1 - i)) with (n - (j + 1)) by lia.
  rewrite app_assoc. apply Permutation_app_tail.
  replace (j + 1 - i) with (S (j - i)) by lia. cbn [seq]. replace (S i) with (i + 1) by lia.
  apply Permutation_sym. apply (Permutation_app_comm [i] (seq (i + 1) (j - i))).
Qed.

Section Actions.
  Context {A : Type} (d : A).

  Lemma apply_app p q (x : list A) : apply_perm d (p ++ q) x = apply_perm d p x ++ apply_perm d q x.
  Proof. unfold apply_perm. apply map_app. Qed.

  Lemma apply_seq a m (x : list A) : a + m <= length x -> apply_perm d (seq a m) x = firstn m (skipn a x).
  Proof. apply map_nth_seq. Qed.

  Lemma apply_rev p (x : list A) : apply_perm d (rev p) x = rev (apply_perm d p x).
  Proof. unfold apply_perm. apply map_rev. Qed.

  Lemma firstn_skipn_all (x : list A) a m : a + m = length x -> firstn m (skipn a x) = skipn a x.
  Proof. intros H. apply firstn_all2. rewrite skipn_length. lia. Qed.

  Lemma apply_gen_L n (x : list A) : 1 <= n -> length x = n -> apply_perm d (gen_L n) x = shift_left x.
  Proof.
    intros H L. unfold gen_L, shift_left. rewrite apply_app, apply_seq by lia.
    rewrite firstn_skipn_all by lia. f_equal.
    destruct x as [|h t]; [cbn in L; lia|]. reflexivity.
  Qed.

  Lemma apply_gen_R n (x : list A) : 1 <= n -> length x = n -> apply_perm d (gen_R n) x = shift_right x.
  Proof.
    intros H L. unfold gen_R, shift_right. rewrite apply_app, apply_seq by lia. rewrite L. cbn [skipn].
    f_equal. cbn [apply_perm map].
    rewrite <- (firstn_skipn (n - 1) x) at 1.
    rewrite app_nth2 by (rewrite firstn_length; lia).
    rewrite firstn_length, Nat.min_l by lia. rewrite Nat.sub_diag.
    assert (length (skipn (n - 1) x) = 1) as L1 by (rewrite skipn_length; lia).
    destruct (skipn (n - 1) x) as [|h [|h' t]]; cbn in L1; try lia. reflexivity.
  Qed.

  Lemma apply_gen_rev_prefix n k (x : list A) : k <= n -> length x = n ->
    apply_perm d (gen_rev_prefix n k) x = rev_prefix k x.
  Proof.
    intros H L. unfold gen_rev_prefix, rev_prefix. rewrite apply_app, apply_rev, !apply_seq by lia.
    cbn [skipn]. f_equal. apply firstn_skipn_all. lia.
  Qed.

  Lemma apply_gen_rev_segment n i j (x : list A) : i <= j -> j < n -> length x = n ->
    apply_perm d (gen_rev_segment n i j) x = rev_segment i j x.
  Proof.
    intros H1 H2 L. unfold gen_rev_segment, rev_segment.
    rewrite !apply_app, apply_rev, !apply_seq by lia. cbn [skipn].
    do 2 f_equal. apply firstn_skipn_all. lia.
  Qed.

  Lemma apply_gen_cycle n i j (x : list A) : i <= j -> j < n -> length x = n ->
    apply_perm d (gen_cycle n i j) x = rot_segment i j x.
  Proof.
    intros H1 H2 L. unfold gen_cycle, rot_segment.
    rewrite !apply_app, !apply_seq by lia. cbn [skipn].
    do 2 f_equal. f_equal; [|apply firstn_skipn_all; lia].
    cbn [apply_perm map].
    rewrite <- (firstn_skipn i x) at 1.
    rewrite app_nth2 by (rewrite firstn_length; lia).
    rewrite firstn_length, Nat.min_l by lia. rewrite Nat.sub_diag.
    assert (1 <= length (skipn i x)) as L1 by (rewrite skipn_length; lia).
    destruct (skipn i x) as [|h t]; cbn in L1; [lia|]. reflexivity.
  Qed.
End Actions.

(* ---------------------------------------------------------------------------------------------- *)
(** * CayleyGraphDef.create accepts a list of permutations of length n *)
Lemma zperm_ok_of_nats n p : PermN n p -> zperm_ok n (of_nats p) = true.
Proof.
  intros [HP L]. unfold zperm_ok. apply andb_true_intro. split.
  - apply forallb_forall. intros v Hv. unfold of_nats in Hv. apply in_map_iff in Hv as (a & <- & _).
    apply Z.leb_le. lia.
  - rewrite to_of_nats. rewrite <- L. apply is_perm_iff in HP. exact HP.
Qed.

Definition names_of (names : option (list String.string)) (gens : list (list nat)) : list String.string :=
  match names with Some l => l | None => default_names (map of_nats gens) end.

Lemma create_ok gens names name n :
  gens <> [] -> 0 < n -> Forall (PermN n) gens ->
  (forall l, names = Some l -> length l = length gens) ->
  create (map of_nats gens) names (zrange 0 (Z.of_nat n)) name
  = Ok {| p_gens := gens; p_names := names_of names gens; p_name := name; p_central := of_nats (seq 0 n) |}.
Proof.
  intros Hne Hn HF Hnames. rewrite Forall_forall in HF.
  destruct gens as [|g0 t] eqn:Eg; [congruence|]. rewrite <- Eg in *.
  assert (exists g0' t', map of_nats gens = g0' :: t' /\ length g0' = n) as (g0' & t' & Em & L0).
  { rewrite Eg. cbn [map]. eexists _, _. split; [reflexivity|]. rewrite of_nats_length.
    apply (HF g0). rewrite Eg. left. reflexivity. }
  unfold create. rewrite Em. rewrite <- Em. rewrite L0.
  assert (forallb (zperm_ok n) (map of_nats gens) = true) as E1.
  { apply forallb_forall. intros q Hq. apply in_map_iff in Hq as (p & <- & Hp).
    apply zperm_ok_of_nats. apply HF. exact Hp. }
  rewrite E1. cbn [negb].
  assert (length (names_of names gens) = length (map of_nats gens)) as E2.
  { rewrite map_length. destruct names as [l|]; cbn [names_of].
    - apply Hnames. reflexivity.
    - unfold default_names. now rewrite !map_length. }
  fold (names_of names gens).
  change (match names with Some l => l | None => default_names (map of_nats gens) end) with (names_of names gens).
  rewrite E2, Nat.eqb_refl. cbn [negb].
  rewrite zrange0_nat, of_nats_length, seq_length.
  assert (forallb (fun p => length p =? n) (map of_nats gens) = true) as E3.
  { apply forallb_forall. intros q Hq. apply in_map_iff in Hq as (p & <- & Hp).
    rewrite of_nats_length. apply Nat.eqb_eq. apply (HF p Hp). }
  rewrite E3. cbn [negb].
  destruct n as [|n']; [lia|]. cbn [seq of_nats map].
  assert (forallb (fun c => ((0 <=? c)%Z && (c <? Z.of_nat (S n'))%Z)) (Z.of_nat 0 :: map Z.of_nat (seq 1 n')) = true) as E4.
  { change (Z.of_nat 0 :: map Z.of_nat (seq 1 n')) with (map Z.of_nat (seq 0 (S n'))).
    apply forallb_forall. intros c Hc. apply in_map_iff in Hc as (a & <- & Ha). apply in_seq in Ha.
    apply andb_true_intro. split; [apply Z.leb_le|apply Z.ltb_lt]; lia. }
  rewrite E4. f_equal. f_equal.
  rewrite map_map. rewrite <- (map_id gens) at 2. apply map_ext. intros a. apply to_of_nats.
Qed.

(* ztransposition / zfrom_cycles on natural arguments *)
Lemma ztransposition_nat n i j : i < n -> j < n -> i <> j ->
  ztransposition (Z.of_nat n) (Z.of_nat i) (Z.of_nat j) = Ok (of_nats (transp n i j)).
Proof.
  intros Hi Hj Hne. unfold ztransposition.
  destruct (Z.ltb_spec (Z.of_nat i) 0); [lia|]. destruct (Z.ltb_spec (Z.of_nat j) 0); [lia|]. cbn [orb].
  rewrite !Nat2Z.id. unfold transposition.
  destruct (Nat.ltb_spec i n); [|lia]. destruct (Nat.ltb_spec j n); [|lia].
  destruct (Nat.eqb_spec i j); [lia|]. cbn [andb negb bind]. reflexivity.
Qed.

Lemma mapM_map_ok {I A B} (h : I -> A) (f : A -> result B) (g : I -> B) l :
  (forall k, In k l -> f (h k) = Ok (g k)) -> mapM f (map h l) = Ok (map g l).
Proof.
  intros H. rewrite (mapM_ok f (fun a => match f a with Ok b => b | Err _ => g (hd_error l |> fun _ => match l with k :: _ => k | [] => match l with k :: _ => k | [] => _ end end) end)) || idtac.
Abort.
