(** C15: theorems about the family models that hold for EVERY n (no bound), by list reasoning.

    For lrx, lx, top_spin, pancake, coxeter, cyclic_coxeter, stars, all_transpositions, full_reversals,
    prefix_cycles, down_cycles, consecutive_k_cycles: inside the documented parameter range the constructor
    returns a definition whose generators are given in closed form; every generator is a permutation of
    length n ([Perm]); the number of generators is the documented formula; and the action of each generator
    on an arbitrary sequence x of length n (library convention new[j] = old[p[j]], [apply_perm]) is the
    documented one: shift, swap of two entries, reversal of a prefix / of a segment, rotation of a segment
    (the action of a cycle of consecutive points).  The bounded, exhaustive statements for all families
    are in FamiliesBounded.v. *)
From Coq Require Import ZArith List Bool Arith Lia Sorting.Mergesort Sorting.Permutation.
From V Require Import Base Perm PermProofs PermCycles Def DefProofs Families.
Import ListNotations.
Open Scope nat_scope.

(* ---------------------------------------------------------------------------------------------- *)
(** * The documented actions on a sequence *)
Definition shift_left {A} (x : list A) : list A := skipn 1 x ++ firstn 1 x.
Definition shift_right {A} (x : list A) : list A := skipn (length x - 1) x ++ firstn (length x - 1) x.
Definition swap_at {A} (d : A) (x : list A) (i j : nat) : list A := upd (upd x i (nth j x d)) j (nth i x d).
Definition rev_prefix {A} (k : nat) (x : list A) : list A := rev (firstn k x) ++ skipn k x.
(* x[i..j] reversed *)
Definition rev_segment {A} (i j : nat) (x : list A) : list A :=
  firstn i x ++ rev (firstn (j + 1 - i) (skipn i x)) ++ skipn (j + 1) x.
(* x[i..j] rotated one step to the left: x[i+1], ..., x[j], x[i] *)
Definition rot_segment {A} (i j : nat) (x : list A) : list A :=
  firstn i x ++ firstn (j - i) (skipn (i + 1) x) ++ firstn 1 (skipn i x) ++ skipn (j + 1) x.

(* the generators in closed form *)
Definition gen_L (n : nat) : list nat := seq 1 (n - 1) ++ [0].
Definition gen_R (n : nat) : list nat := [n - 1] ++ seq 0 (n - 1).
Definition transp (n i j : nat) : list nat := upd (upd (seq 0 n) i j) j i.
Definition gen_rev_prefix (n k : nat) : list nat := rev (seq 0 k) ++ seq k (n - k).
Definition gen_rev_segment (n i j : nat) : list nat := seq 0 i ++ rev (seq i (j + 1 - i)) ++ seq (j + 1) (n - (j + 1)).
Definition gen_cycle (n i j : nat) : list nat := seq 0 i ++ seq (i + 1) (j - i) ++ [i] ++ seq (j + 1) (n - (j + 1)).

Definition PermN (n : nat) (p : list nat) : Prop := Perm p /\ length p = n.

(* ---------------------------------------------------------------------------------------------- *)
(** * Python primitives on natural arguments *)
Lemma to_of_nats l : to_nats (of_nats l) = l.
Proof.
  unfold to_nats, of_nats. rewrite map_map. rewrite <- (map_id l) at 2.
  apply map_ext. intros a. apply Nat2Z.id.
Qed.

Lemma of_nats_length l : length (of_nats l) = length l.
Proof. apply map_length. Qed.

Lemma map_seq_shift_Z m : forall a,
  map (fun i => (Z.of_nat a + Z.of_nat i)%Z) (seq 0 m) = map Z.of_nat (seq a m).
Proof.
  induction m as [|m IH]; intros a; [reflexivity|].
  cbn [seq map]. f_equal; [lia|].
  rewrite <- seq_shift, map_map. rewrite <- (IH (S a)).
  apply map_ext. intros i. lia.
Qed.

Lemma zrange_nat a b : zrange (Z.of_nat a) (Z.of_nat b) = of_nats (seq a (b - a)).
Proof.
  unfold zrange, of_nats.
  replace (Z.to_nat (Z.of_nat b - Z.of_nat a)) with (b - a) by lia.
  apply map_seq_shift_Z.
Qed.

Lemma zrange0_nat b : zrange 0 (Z.of_nat b) = of_nats (seq 0 b).
Proof. change 0%Z with (Z.of_nat 0). rewrite zrange_nat. now rewrite Nat.sub_0_r. Qed.

Lemma map_seq_down_Z m : forall a,
  map (fun i => (Z.of_nat (a + m) - 1 - Z.of_nat i)%Z) (seq 0 m) = map Z.of_nat (rev (seq a m)).
Proof.
  induction m as [|m IH]; intros a; [reflexivity|].
  rewrite (seq_S m a), rev_app_distr. cbn [rev app map seq].
  f_equal; [lia|].
  rewrite <- seq_shift, map_map. rewrite <- (IH a).
  apply map_ext. intros i. lia.
Qed.

(* range(b-1, a-1, -1) = b-1, ..., a *)
Lemma zrange_down_nat a b : a <= b ->
  zrange_down (Z.of_nat b - 1) (Z.of_nat a - 1) = of_nats (rev (seq a (b - a))).
Proof.
  intros H. unfold zrange_down, of_nats.
  replace (Z.to_nat (Z.of_nat b - 1 - (Z.of_nat a - 1))) with (b - a) by lia.
  rewrite <- map_seq_down_Z. apply map_ext. intros i. lia.
Qed.

Lemma mapM_ok {A B} (f : A -> result B) (g : A -> B) l :
  (forall a, In a l -> f a = Ok (g a)) -> mapM f l = Ok (map g l).
Proof.
  induction l as [|a l IH]; intros H; [reflexivity|].
  cbn [mapM map]. rewrite (H a (or_introl eq_refl)). cbn [bind].
  rewrite IH by (intros b Hb; apply H; right; exact Hb). reflexivity.
Qed.

(* ---------------------------------------------------------------------------------------------- *)
(** * Generic facts about lists *)
Lemma map_nth_seq {A} (d : A) (x : list A) : forall a m, a + m <= length x ->
  map (fun i => nth i x d) (seq a m) = firstn m (skipn a x).
Proof.
  intros a m. revert a x. induction m as [|m IH]; intros a x H; [reflexivity|].
  cbn [seq map].
  assert (a < length x) as Ha by lia.
  rewrite (IH (S a) x) by lia.
  clear IH. revert x H Ha. induction a as [|a IHa]; intros x H Ha.
  - destruct x as [|h t]; [cbn in Ha; lia|]. reflexivity.
  - destruct x as [|h t]; [cbn in Ha; lia|]. cbn [nth skipn]. cbn [length] in *.
    apply IHa; lia.
Qed.

Lemma map_nth_seq_all {A} (d : A) (x : list A) : map (fun i => nth i x d) (seq 0 (length x)) = x.
Proof. rewrite map_nth_seq by lia. cbn [skipn]. apply firstn_all. Qed.

Lemma Perm_of_Permutation n p : Permutation p (seq 0 n) -> PermN n p.
Proof.
  intros H. pose proof (Permutation_length H) as L. rewrite seq_length in L.
  split; [|exact L]. unfold Perm. rewrite L. exact H.
Qed.

Lemma seq_split a k m : k <= m -> seq a m = seq a k ++ seq (a + k) (m - k).
Proof. intros H. rewrite <- seq_app. f_equal. lia. Qed.

(* a list of indices below its length that is an involution as a map is a permutation *)
Lemma involution_Perm p :
  (forall t, t < length p -> nth t p 0 < length p /\ nth (nth t p 0) p 0 = t) -> Perm p.
Proof.
  intros H. apply NoDup_lt_Perm.
  - apply (proj2 (NoDup_nth p 0)). intros i j Hi Hj E.
    destruct (H i Hi) as [_ Ei]. destruct (H j Hj) as [_ Ej]. rewrite <- Ei, <- Ej, E. reflexivity.
  - intros x Hx. apply In_nth with (d := 0) in Hx as (t & Ht & E). rewrite <- E. apply H. exact Ht.
Qed.

Lemma transp_length n i j : length (transp n i j) = n.
Proof. unfold transp. rewrite !upd_length. apply seq_length. Qed.

Lemma transp_nth n i j t : i < n -> j < n -> t < n ->
  nth t (transp n i j) 0 = if t =? j then i else if t =? i then j else t.
Proof.
  intros Hi Hj Ht. unfold transp.
  destruct (Nat.eqb_spec t j) as [->|Hne].
  - apply nth_upd_same. rewrite upd_length, seq_length. exact Hj.
  - rewrite nth_upd_other by congruence.
    destruct (Nat.eqb_spec t i) as [->|Hne'].
    + apply nth_upd_same. rewrite seq_length. exact Hi.
    + rewrite nth_upd_other by congruence. rewrite seq_nth by exact Ht. reflexivity.
Qed.

Lemma transp_PermN n i j : i < n -> j < n -> PermN n (transp n i j).
Proof.
  intros Hi Hj. split; [|apply transp_length].
  apply involution_Perm. rewrite transp_length. intros t Ht.
  rewrite (transp_nth n i j t Hi Hj Ht).
  destruct (Nat.eqb_spec t j) as [->|Hne].
  - split; [exact Hi|]. rewrite (transp_nth n i j i Hi Hj Hi).
    destruct (Nat.eqb_spec i j) as [->|]; [reflexivity|]. now rewrite Nat.eqb_refl.
  - destruct (Nat.eqb_spec t i) as [->|Hne'].
    + split; [exact Hj|]. rewrite (transp_nth n i j j Hi Hj Hj). now rewrite Nat.eqb_refl.
    + split; [exact Ht|]. rewrite (transp_nth n i j t Hi Hj Ht).
      destruct (Nat.eqb_spec t j); [congruence|]. destruct (Nat.eqb_spec t i); [congruence|]. reflexivity.
Qed.

Lemma apply_transp {A} (d : A) n i j (x : list A) : i < n -> j < n -> length x = n ->
  apply_perm d (transp n i j) x = swap_at d x i j.
Proof.
  intros Hi Hj L. apply nth_ext' with (d := d).
  - rewrite apply_perm_length, transp_length. unfold swap_at. now rewrite !upd_length.
  - intros t Ht. rewrite apply_perm_length, transp_length in Ht.
    rewrite nth_apply_perm by (rewrite transp_length; exact Ht).
    rewrite (transp_nth n i j t Hi Hj Ht). unfold swap_at.
    destruct (Nat.eqb_spec t j) as [->|Hne].
    + rewrite nth_upd_same by (rewrite upd_length; lia). reflexivity.
    + rewrite nth_upd_other by congruence.
      destruct (Nat.eqb_spec t i) as [->|Hne'].
      * rewrite nth_upd_same by lia. reflexivity.
      * rewrite nth_upd_other by congruence. reflexivity.
Qed.

(* ---------------------------------------------------------------------------------------------- *)
(** * Closed-form generators: permutations, actions *)
Lemma gen_L_PermN n : 1 <= n -> PermN n (gen_L n).
Proof.
  intros H. apply Perm_of_Permutation. unfold gen_L.
  replace (seq 0 n) with ([0] ++ seq 1 (n - 1)) by (destruct n; [lia|]; cbn; now rewrite Nat.sub_0_r).
  apply Permutation_app_comm.
Qed.

Lemma gen_R_PermN n : 1 <= n -> PermN n (gen_R n).
Proof.
  intros H. apply Perm_of_Permutation. unfold gen_R.
  replace (seq 0 n) with (seq 0 (n - 1) ++ [n - 1]).
  - apply Permutation_app_comm.
  - rewrite <- seq_S. f_equal. lia.
Qed.

Lemma gen_rev_prefix_PermN n k : k <= n -> PermN n (gen_rev_prefix n k).
Proof.
  intros H. apply Perm_of_Permutation. unfold gen_rev_prefix.
  rewrite (seq_split 0 k n H). apply Permutation_app_tail. apply Permutation_sym, Permutation_rev.
Qed.

Lemma gen_rev_segment_PermN n i j : i <= j -> j < n -> PermN n (gen_rev_segment n i j).
Proof.
  intros H1 H2. apply Perm_of_Permutation. unfold gen_rev_segment.
  rewrite (seq_split 0 i n) by lia. apply Permutation_app_head. cbn [Nat.add].
  rewrite (seq_split i (j + 1 - i) (n - i)) by lia.
  replace (i + (j + 1 - i)) with (j + 1) by lia. replace (n - i - (j + 1 - i)) with (n - (j + 1)) by lia.
  apply Permutation_app_tail. apply Permutation_sym, Permutation_rev.
Qed.

Lemma gen_cycle_PermN n i j : i <= j -> j < n -> PermN n (gen_cycle n i j).
Proof.
  intros H1 H2. apply Perm_of_Permutation. unfold gen_cycle.
  rewrite (seq_split 0 i n) by lia. apply Permutation_app_head. cbn [Nat.add].
  rewrite (seq_split i (j + 1 - i) (n - i)) by lia.
  replace (i + (j + 1 - i)) with (j + 1) by lia. replace (n - i - (j + 1 - i)) with (n - (j + 1)) by lia.
  rewrite app_assoc. apply Permutation_app_tail.
  replace (j + 1 - i) with (S (j - i)) by lia. cbn [seq]. replace (S i) with (i + 1) by lia.
  apply Permutation_sym. apply (Permutation_app_comm [i] (seq (i + 1) (j - i))).
Qed.

Section Actions.
  Context {A : Type} (d : A).

  Lemma apply_app p q (x : list A) : apply_perm d (p ++ q) x = apply_perm d p x ++ apply_perm d q x.
  Proof. unfold apply_perm. apply map_app. Qed.

  Lemma apply_seq a m (x : list A) : a + m <= length x -> apply_perm d (seq a m) x = firstn m (skipn a x).
  Proof. apply map_nth_seq. Qed.

  Lemma apply_rev p (x : list A) : apply_perm d (rev p) x = rev (apply_perm d p x).
  Proof. unfold apply_perm. apply map_rev. Qed.

  Lemma firstn_skipn_all (x : list A) a m : a + m = length x -> firstn m (skipn a x) = skipn a x.
  Proof. intros H. apply firstn_all2. rewrite skipn_length. lia. Qed.

  Lemma apply_gen_L n (x : list A) : 1 <= n -> length x = n -> apply_perm d (gen_L n) x = shift_left x.
  Proof.
    intros H L. unfold gen_L, shift_left. rewrite apply_app, apply_seq by lia.
    rewrite firstn_skipn_all by lia. f_equal.
    destruct x as [|h t]; [cbn in L; lia|]. reflexivity.
  Qed.

  Lemma apply_gen_R n (x : list A) : 1 <= n -> length x = n -> apply_perm d (gen_R n) x = shift_right x.
  Proof.
    intros H L. unfold gen_R, shift_right. rewrite apply_app, apply_seq by lia. rewrite L. cbn [skipn].
    f_equal. cbn [apply_perm map].
    rewrite <- (firstn_skipn (n - 1) x) at 1.
    rewrite app_nth2 by (rewrite firstn_length; lia).
    rewrite firstn_length, Nat.min_l by lia. rewrite Nat.sub_diag.
    assert (length (skipn (n - 1) x) = 1) as L1 by (rewrite skipn_length; lia).
    destruct (skipn (n - 1) x) as [|h [|h' t]]; cbn in L1; try lia. reflexivity.
  Qed.

  Lemma apply_gen_rev_prefix n k (x : list A) : k <= n -> length x = n ->
    apply_perm d (gen_rev_prefix n k) x = rev_prefix k x.
  Proof.
    intros H L. unfold gen_rev_prefix, rev_prefix. rewrite apply_app, apply_rev, !apply_seq by lia.
    cbn [skipn]. f_equal. apply firstn_skipn_all. lia.
  Qed.

  Lemma apply_gen_rev_segment n i j (x : list A) : i <= j -> j < n -> length x = n ->
    apply_perm d (gen_rev_segment n i j) x = rev_segment i j x.
  Proof.
    intros H1 H2 L. unfold gen_rev_segment, rev_segment.
    rewrite !apply_app, apply_rev, !apply_seq by lia. cbn [skipn].
    do 2 f_equal. apply firstn_skipn_all. lia.
  Qed.

  Lemma apply_gen_cycle n i j (x : list A) : i <= j -> j < n -> length x = n ->
    apply_perm d (gen_cycle n i j) x = rot_segment i j x.
  Proof.
    intros H1 H2 L. unfold gen_cycle, rot_segment.
    rewrite !apply_app, !apply_seq by lia. cbn [skipn].
    do 2 f_equal. f_equal; [|apply firstn_skipn_all; lia].
    cbn [apply_perm map].
    rewrite <- (firstn_skipn i x) at 1.
    rewrite app_nth2 by (rewrite firstn_length; lia).
    rewrite firstn_length, Nat.min_l by lia. rewrite Nat.sub_diag.
    assert (1 <= length (skipn i x)) as L1 by (rewrite skipn_length; lia).
    destruct (skipn i x) as [|h t]; cbn in L1; [lia|]. reflexivity.
  Qed.
End Actions.

(* ---------------------------------------------------------------------------------------------- *)
(** * CayleyGraphDef.create accepts a list of permutations of length n *)
Lemma zperm_ok_of_nats n p : PermN n p -> zperm_ok n (of_nats p) = true.
Proof.
  intros [HP L]. unfold zperm_ok. apply andb_true_intro. split.
  - apply forallb_forall. intros v Hv. unfold of_nats in Hv. apply in_map_iff in Hv as (a & <- & _).
    apply Z.leb_le. lia.
  - rewrite to_of_nats. rewrite <- L. apply is_perm_iff in HP. exact HP.
Qed.

Definition names_of (names : option (list String.string)) (gens : list (list nat)) : list String.string :=
  match names with Some l => l | None => default_names (map of_nats gens) end.

Lemma create_ok gens names name n :
  gens <> [] -> 0 < n -> Forall (PermN n) gens ->
  (forall l, names = Some l -> length l = length gens) ->
  create (map of_nats gens) names (zrange 0 (Z.of_nat n)) name
  = Ok {| p_gens := gens; p_names := names_of names gens; p_name := name; p_central := of_nats (seq 0 n) |}.
Proof.
  intros Hne Hn HF Hnames. rewrite Forall_forall in HF.
  destruct gens as [|g0 t] eqn:Eg; [congruence|]. rewrite <- Eg in *.
  assert (exists g0' t', map of_nats gens = g0' :: t' /\ length g0' = n) as (g0' & t' & Em & L0).
  { rewrite Eg. cbn [map]. eexists _, _. split; [reflexivity|]. rewrite of_nats_length.
    apply (HF g0). rewrite Eg. left. reflexivity. }
  unfold create. rewrite Em. rewrite <- Em. rewrite L0.
  assert (forallb (zperm_ok n) (map of_nats gens) = true) as E1.
  { apply forallb_forall. intros q Hq. apply in_map_iff in Hq as (p & <- & Hp).
    apply zperm_ok_of_nats. apply HF. exact Hp. }
  rewrite E1. cbn [negb].
  assert (length (names_of names gens) = length (map of_nats gens)) as E2.
  { rewrite map_length. destruct names as [l|]; cbn [names_of].
    - apply Hnames. reflexivity.
    - unfold default_names. now rewrite !map_length. }
  fold (names_of names gens).
  change (match names with Some l => l | None => default_names (map of_nats gens) end) with (names_of names gens).
  rewrite E2, Nat.eqb_refl. cbn [negb].
  rewrite zrange0_nat, of_nats_length, seq_length.
  assert (forallb (fun p => length p =? n) (map of_nats gens) = true) as E3.
  { apply forallb_forall. intros q Hq. apply in_map_iff in Hq as (p & <- & Hp).
    rewrite of_nats_length. apply Nat.eqb_eq. apply (HF p Hp). }
  rewrite E3. cbn [negb].
  destruct n as [|n']; [lia|]. cbn [seq of_nats map].
  assert (forallb (fun c => ((0 <=? c)%Z && (c <? Z.of_nat (S n'))%Z)) (Z.of_nat 0 :: map Z.of_nat (seq 1 n')) = true) as E4.
  { change (Z.of_nat 0 :: map Z.of_nat (seq 1 n')) with (map Z.of_nat (seq 0 (S n'))).
    apply forallb_forall. intros c Hc. apply in_map_iff in Hc as (a & <- & Ha). apply in_seq in Ha.
    apply andb_true_intro. split; [apply Z.leb_le|apply Z.ltb_lt]; lia. }
  rewrite E4. f_equal. f_equal.
  rewrite map_map. rewrite <- (map_id gens) at 2. apply map_ext. intros a. apply to_of_nats.
Qed.

(* ztransposition / zfrom_cycles on natural arguments *)
Lemma ztransposition_nat n i j : i < n -> j < n -> i <> j ->
  ztransposition (Z.of_nat n) (Z.of_nat i) (Z.of_nat j) = Ok (of_nats (transp n i j)).
Proof.
  intros Hi Hj Hne. unfold ztransposition.
  destruct (Z.ltb_spec (Z.of_nat i) 0); [lia|]. destruct (Z.ltb_spec (Z.of_nat j) 0); [lia|]. cbn [orb].
  rewrite !Nat2Z.id. unfold transposition.
  destruct (Nat.ltb_spec i n); [|lia]. destruct (Nat.ltb_spec j n); [|lia].
  destruct (Nat.eqb_spec i j); [lia|]. cbn [andb negb bind]. reflexivity.
Qed.

Lemma mapM_map_ok {I A B} (h : I -> A) (f : A -> result B) (g : I -> B) l :
  (forall k, In k l -> f (h k) = Ok (g k)) -> mapM f (map h l) = Ok (map g l).
Proof.
  induction l as [|a l IH]; intros H; [reflexivity|].
  cbn [mapM map]. rewrite (H a (or_introl eq_refl)). cbn [bind].
  rewrite IH by (intros b Hb; apply H; right; exact Hb). reflexivity.
Qed.

Lemma of_nats_app a b : of_nats (a ++ b) = of_nats a ++ of_nats b.
Proof. apply map_app. Qed.

Lemma L_eq n : 1 <= n -> zrange 1 (Z.of_nat n) ++ [0%Z] = of_nats (gen_L n).
Proof.
  intros H. unfold gen_L. rewrite of_nats_app. change 1%Z with (Z.of_nat 1). rewrite zrange_nat. reflexivity.
Qed.

Lemma R_eq n : 1 <= n -> [(Z.of_nat n - 1)%Z] ++ zrange 0 (Z.of_nat n - 1) = of_nats (gen_R n).
Proof.
  intros H. unfold gen_R. rewrite of_nats_app.
  replace (Z.of_nat n - 1)%Z with (Z.of_nat (n - 1)) by lia. rewrite zrange0_nat. reflexivity.
Qed.

Lemma revp_eq n k : k <= n ->
  zrange_down (Z.of_nat k - 1) (-1) ++ zrange (Z.of_nat k) (Z.of_nat n) = of_nats (gen_rev_prefix n k).
Proof.
  intros H. unfold gen_rev_prefix. rewrite of_nats_app, zrange_nat.
  change (-1)%Z with (Z.of_nat 0 - 1)%Z. rewrite zrange_down_nat by lia. now rewrite Nat.sub_0_r.
Qed.

Ltac zguard :=
  repeat match goal with
  | |- context [Z.leb ?a ?b] => destruct (Z.leb_spec a b); try lia
  | |- context [Z.ltb ?a ?b] => destruct (Z.ltb_spec a b); try lia
  | |- context [Z.eqb ?a ?b] => destruct (Z.eqb_spec a b); try lia
  end; cbn [negb andb orb].

(* what every theorem below establishes first: the call succeeds and returns these generators *)
Definition returns (r : result pdef) (n : nat) (gens : list (list nat)) : Prop :=
  exists d, r = Ok d /\ p_gens d = gens /\ p_central d = of_nats (seq 0 n) /\ length (p_names d) = length gens.

Lemma returns_create gens names name n :
  gens <> [] -> 0 < n -> Forall (PermN n) gens ->
  (forall l, names = Some l -> length l = length gens) ->
  returns (create (map of_nats gens) names (zrange 0 (Z.of_nat n)) name) n gens.
Proof.
  intros H1 H2 H3 H4. eexists. split; [apply create_ok; assumption|]. cbn. repeat split.
  destruct names as [l|]; cbn [names_of]; [apply H4; reflexivity|].
  unfold default_names. now rewrite !map_length.
Qed.

(* ---------------------------------------------------------------------------------------------- *)
(** * lrx, lx, top_spin *)
Theorem lrx_returns n k : 3 <= n -> 1 <= k < n ->
  returns (lrx (Z.of_nat n) (Z.of_nat k)) n [gen_L n; gen_R n; transp n 0 k].
Proof.
  intros Hn Hk. unfold lrx. destruct (Z.leb_spec 3 (Z.of_nat n)); [|lia]. cbn [negb].
  pose proof (ztransposition_nat n 0 k ltac:(lia) ltac:(lia) ltac:(lia)) as E. cbn [Z.of_nat] in E.
  rewrite E. cbn [bind]. rewrite L_eq, R_eq by lia.
  change [of_nats (gen_L n); of_nats (gen_R n); of_nats (transp n 0 k)]
    with (map of_nats [gen_L n; gen_R n; transp n 0 k]).
  apply returns_create; [discriminate|lia| |intros l [= <-]; reflexivity].
  repeat (apply Forall_cons || apply Forall_nil); [apply gen_L_PermN|apply gen_R_PermN|apply transp_PermN]; lia.
Qed.

Theorem lx_returns n : 3 <= n -> returns (lx (Z.of_nat n)) n [gen_L n; transp n 0 1].
Proof.
  intros Hn. unfold lx. zguard.
  pose proof (ztransposition_nat n 0 1 ltac:(lia) ltac:(lia) ltac:(lia)) as E. cbn [Z.of_nat Pos.of_succ_nat] in E.
  rewrite E. cbn [bind]. rewrite L_eq by lia.
  change [of_nats (gen_L n); of_nats (transp n 0 1)] with (map of_nats [gen_L n; transp n 0 1]).
  apply returns_create; [discriminate|lia| |intros l [= <-]; reflexivity].
  repeat (apply Forall_cons || apply Forall_nil); [apply gen_L_PermN|apply transp_PermN]; lia.
Qed.

Theorem top_spin_returns n k : 2 <= k <= n ->
  returns (top_spin (Z.of_nat n) (Z.of_nat k)) n [gen_L n; gen_R n; gen_rev_prefix n k].
Proof.
  intros Hk. unfold top_spin. zguard.
  rewrite L_eq, R_eq, revp_eq by lia.
  change [of_nats (gen_L n); of_nats (gen_R n); of_nats (gen_rev_prefix n k)]
    with (map of_nats [gen_L n; gen_R n; gen_rev_prefix n k]).
  apply returns_create; [discriminate|lia| |intros l [=]].
  repeat (apply Forall_cons || apply Forall_nil); [apply gen_L_PermN|apply gen_R_PermN|apply gen_rev_prefix_PermN]; lia.
Qed.

(* ---------------------------------------------------------------------------------------------- *)
(** * pancake *)
Lemma map_of_nats_ext (f : Z -> list Z) (g : nat -> list nat) l :
  (forall k, In k l -> f (Z.of_nat k) = of_nats (g k)) -> map f (of_nats l) = map of_nats (map g l).
Proof.
  intros H. unfold of_nats at 1. rewrite !map_map. apply map_ext_in. exact H.
Qed.

Theorem pancake_returns n : 2 <= n ->
  returns (pancake (Z.of_nat n)) n (map (gen_rev_prefix n) (seq 2 (n - 1))).
Proof.
  intros Hn. unfold pancake. zguard.
  replace (zrange 2 (Z.of_nat n + 1)) with (of_nats (seq 2 (n - 1))).
  2:{ change 2%Z with (Z.of_nat 2). replace (Z.of_nat n + 1)%Z with (Z.of_nat (n + 1)) by lia.
      rewrite zrange_nat. do 2 f_equal. lia. }
  rewrite (map_of_nats_ext _ (gen_rev_prefix n)).
  2:{ intros k Hk. apply in_seq in Hk. apply revp_eq. lia. }
  apply returns_create.
  - destruct n as [|[|n']]; try lia. discriminate.
  - lia.
  - apply Forall_forall. intros p Hp. apply in_map_iff in Hp as (k & <- & Hk). apply in_seq in Hk.
    apply gen_rev_prefix_PermN. lia.
  - intros l [= <-]. unfold of_nats. now rewrite !map_length.
Qed.

(* ---------------------------------------------------------------------------------------------- *)
(** * coxeter, cyclic_coxeter, stars *)
Lemma coxeter_generators_nat n : 1 <= n ->
  coxeter_generators (Z.of_nat n) = Ok (map of_nats (map (fun k => transp n k (k + 1)) (seq 0 (n - 1)))).
Proof.
  intros Hn. unfold coxeter_generators.
  replace (Z.of_nat n - 1)%Z with (Z.of_nat (n - 1)) by lia. rewrite zrange0_nat. unfold of_nats at 1.
  rewrite (mapM_map_ok Z.of_nat _ (fun k => of_nats (transp n k (k + 1)))).
  - now rewrite map_map.
  - intros k Hk. apply in_seq in Hk. replace (Z.of_nat k + 1)%Z with (Z.of_nat (k + 1)) by lia.
    apply ztransposition_nat; lia.
Qed.

Theorem coxeter_returns n : 2 <= n ->
  returns (coxeter (Z.of_nat n)) n (map (fun k => transp n k (k + 1)) (seq 0 (n - 1))).
Proof.
  intros Hn. unfold coxeter. zguard. rewrite coxeter_generators_nat by lia. cbn [bind].
  apply returns_create.
  - destruct n as [|[|n']]; try lia. discriminate.
  - lia.
  - apply Forall_forall. intros p Hp. apply in_map_iff in Hp as (k & <- & Hk). apply in_seq in Hk.
    apply transp_PermN; lia.
  - intros l [= <-]. rewrite !map_length. unfold zrange. rewrite map_length, !seq_length. lia.
Qed.

Theorem cyclic_coxeter_returns n : 2 <= n ->
  returns (cyclic_coxeter (Z.of_nat n)) n
          (map (fun k => transp n k (k + 1)) (seq 0 (n - 1)) ++ [transp n 0 (n - 1)]).
Proof.
  intros Hn. unfold cyclic_coxeter. zguard. rewrite coxeter_generators_nat by lia. cbn [bind].
  pose proof (ztransposition_nat n 0 (n - 1) ltac:(lia) ltac:(lia) ltac:(lia)) as E. cbn [Z.of_nat] in E.
  replace (Z.of_nat n - 1)%Z with (Z.of_nat (n - 1)) by lia. rewrite E. cbn [bind].
  change [of_nats (transp n 0 (n - 1))] with (map of_nats [transp n 0 (n - 1)]). rewrite <- map_app.
  apply returns_create.
  - destruct n as [|[|n']]; try lia. discriminate.
  - lia.
  - apply Forall_app. split.
    + apply Forall_forall. intros p Hp. apply in_map_iff in Hp as (k & <- & Hk). apply in_seq in Hk.
      apply transp_PermN; lia.
    + repeat (apply Forall_cons || apply Forall_nil). apply transp_PermN; lia.
  - intros l [= <-]. rewrite !app_length, !map_length. unfold zrange. rewrite map_length, !seq_length. cbn. lia.
Qed.

Theorem stars_returns n : 3 <= n ->
  returns (stars (Z.of_nat n)) n (map (fun i => transp n 0 i) (seq 1 (n - 1))).
Proof.
  intros Hn. unfold stars. zguard.
  change 1%Z with (Z.of_nat 1). rewrite zrange_nat. unfold of_nats at 1.
  rewrite (mapM_map_ok Z.of_nat _ (fun i => of_nats (transp n 0 i))).
  2:{ intros i Hi. apply in_seq in Hi.
      pose proof (ztransposition_nat n 0 i ltac:(lia) ltac:(lia) ltac:(lia)) as E. cbn [Z.of_nat] in E. exact E. }
  cbn [bind]. rewrite <- map_map.
  apply returns_create.
  - destruct n as [|[|n']]; try lia. discriminate.
  - lia.
  - apply Forall_forall. intros p Hp. apply in_map_iff in Hp as (k & <- & Hk). apply in_seq in Hk.
    apply transp_PermN; lia.
  - intros l [= <-]. unfold of_nats. now rewrite !map_length.
Qed.

(* ---------------------------------------------------------------------------------------------- *)
(** * families indexed by the pairs i < j < n: all_transpositions, full_reversals, down_cycles *)
Definition pairs (n : nat) : list (nat * nat) :=
  flat_map (fun i => map (fun j => (i, j)) (seq (i + 1) (n - (i + 1)))) (seq 0 n).
Definition zpair (ij : nat * nat) : Z * Z := (Z.of_nat (fst ij), Z.of_nat (snd ij)).

Lemma in_pairs n i j : In (i, j) (pairs n) <-> i < j < n.
Proof.
  unfold pairs. rewrite in_flat_map. split.
  - intros (i' & Hi' & H). apply in_map_iff in H as (j' & [= <- <-] & Hj'). apply in_seq in Hi', Hj'. lia.
  - intros H. exists i. split; [apply in_seq; lia|]. apply in_map. apply in_seq. lia.
Qed.

Lemma pairs_length n : 2 * length (pairs n) = n * (n - 1).
Proof.
  unfold pairs.
  assert (forall m a, a + m = n ->
    2 * length (flat_map (fun i => map (fun j => (i, j)) (seq (i + 1) (n - (i + 1)))) (seq a m)) = m * (m - 1)) as H.
  { induction m as [|m IH]; intros a E; [reflexivity|].
    cbn [seq flat_map]. rewrite app_length, map_length, seq_length.
    specialize (IH (S a) ltac:(lia)). nia. }
  apply (H n 0). lia.
Qed.

Lemma zpairs_nat n :
  flat_map (fun i => map (fun j => (i, j)) (zrange (i + 1) (Z.of_nat n))) (zrange 0 (Z.of_nat n))
  = map zpair (pairs n).
Proof.
  rewrite zrange0_nat. unfold pairs, of_nats. rewrite !flat_map_concat_map, concat_map, !map_map.
  f_equal. apply map_ext. intros i. replace (Z.of_nat i + 1)%Z with (Z.of_nat (i + 1)) by lia.
  rewrite zrange_nat. unfold of_nats. rewrite !map_map. reflexivity.
Qed.

Theorem all_transpositions_returns n : 2 <= n ->
  returns (all_transpositions (Z.of_nat n)) n (map (fun ij => transp n (fst ij) (snd ij)) (pairs n)).
Proof.
  intros Hn. unfold all_transpositions. zguard. rewrite zpairs_nat.
  rewrite (mapM_map_ok zpair _ (fun ij => of_nats (transp n (fst ij) (snd ij)))).
  2:{ intros [i j] Hij. apply in_pairs in Hij. cbn [zpair fst snd]. apply ztransposition_nat; lia. }
  cbn [bind]. rewrite <- map_map.
  apply returns_create.
  - assert (In (0, 1) (pairs n)) as Hij by (apply in_pairs; lia).
    destruct (pairs n); [destruct Hij|discriminate].
  - lia.
  - apply Forall_forall. intros p Hp. apply in_map_iff in Hp as ([i j] & <- & Hij). apply in_pairs in Hij.
    apply transp_PermN; cbn; lia.
  - intros l [= <-]. now rewrite !map_length.
Qed.

Lemma revseg_eq n i j : i <= j -> j < n ->
  zrange 0 (Z.of_nat i) ++ zrange_down (Z.of_nat j) (Z.of_nat i - 1) ++ zrange (Z.of_nat j + 1) (Z.of_nat n)
  = of_nats (gen_rev_segment n i j).
Proof.
  intros H1 H2. unfold gen_rev_segment. rewrite !of_nats_app, zrange0_nat.
  replace (Z.of_nat j) with (Z.of_nat (j + 1) - 1)%Z at 1 by lia. rewrite zrange_down_nat by lia.
  replace (Z.of_nat j + 1)%Z with (Z.of_nat (j + 1)) by lia. rewrite zrange_nat. reflexivity.
Qed.

Theorem full_reversals_returns n : 2 <= n ->
  returns (full_reversals (Z.of_nat n)) n (map (fun ij => gen_rev_segment n (fst ij) (snd ij)) (pairs n)).
Proof.
  intros Hn. unfold full_reversals. zguard. rewrite zpairs_nat.
  rewrite map_map.
  rewrite (map_ext_in _ (fun ij => of_nats (gen_rev_segment n (fst ij) (snd ij)))).
  2:{ intros [i j] Hij. apply in_pairs in Hij. cbn [zpair fst snd]. apply revseg_eq; lia. }
  rewrite <- map_map.
  apply returns_create.
  - assert (In (0, 1) (pairs n)) as Hij by (apply in_pairs; lia).
    destruct (pairs n); [destruct Hij|discriminate].
  - lia.
  - apply Forall_forall. intros p Hp. apply in_map_iff in Hp as ([i j] & <- & Hij). apply in_pairs in Hij.
    apply gen_rev_segment_PermN; cbn; lia.
  - intros l [= <-]. now rewrite !map_length.
Qed.

(* ---------------------------------------------------------------------------------------------- *)
(** * cycles of consecutive points: prefix_cycles, down_cycles, consecutive_k_cycles *)
Lemma gen_cycle_length n i j : i <= j -> j < n -> length (gen_cycle n i j) = n.
Proof. intros H1 H2. unfold gen_cycle. rewrite !app_length, !seq_length. cbn [length]. lia. Qed.

Lemma gen_cycle_nth n i j x : i <= j -> j < n -> x < n ->
  nth x (gen_cycle n i j) 0 = if x <? i then x else if x <? j then x + 1 else if x =? j then i else x.
Proof.
  intros H1 H2 Hx. unfold gen_cycle.
  destruct (Nat.ltb_spec x i).
  { rewrite app_nth1 by (rewrite seq_length; lia). rewrite seq_nth by lia. reflexivity. }
  rewrite app_nth2 by (rewrite seq_length; lia). rewrite seq_length.
  destruct (Nat.ltb_spec x j).
  { rewrite app_nth1 by (rewrite seq_length; lia). rewrite seq_nth by lia. lia. }
  rewrite app_nth2 by (rewrite seq_length; lia). rewrite seq_length.
  destruct (Nat.eqb_spec x j) as [->|Hne].
  { replace (j - i - (j - i)) with 0 by lia. reflexivity. }
  rewrite app_nth2 by (cbn [length]; lia). cbn [length].
  rewrite seq_nth by lia. lia.
Qed.

Lemma nth_of_nats l t : nth t (of_nats l) 0%Z = Z.of_nat (nth t l 0).
Proof. unfold of_nats. change 0%Z with (Z.of_nat 0). apply map_nth. Qed.

Lemma zfrom_cycles_range n i j : i <= j -> j < n ->
  zfrom_cycles (Z.of_nat n) [zrange (Z.of_nat i) (Z.of_nat j + 1)] = Ok (of_nats (gen_cycle n i j)).
Proof.
  intros H1 H2. unfold zfrom_cycles. rewrite Nat2Z.id.
  replace (Z.of_nat j + 1)%Z with (Z.of_nat (j + 1)) by lia. rewrite zrange_nat.
  set (c := of_nats (seq i (j + 1 - i))).
  assert (length c = j + 1 - i) as Lc by (unfold c; rewrite of_nats_length; apply seq_length).
  assert (forall z, In z c <-> exists a, z = Z.of_nat a /\ i <= a <= j) as Hin.
  { intros z. unfold c, of_nats. rewrite in_map_iff. split.
    - intros (a & <- & Ha). apply in_seq in Ha. exists a. split; [reflexivity|lia].
    - intros (a & -> & Ha). exists a. split; [reflexivity|]. apply in_seq. lia. }
  pose proof (from_cycles_spec n [c] 0) as Spec. cbv zeta in Spec.
  assert (map (map (fun x => (x - 0)%Z)) [c] = [c]) as Ecs.
  { cbn [map]. f_equal. rewrite <- (map_id c) at 2. apply map_ext. intros a. lia. }
  rewrite Ecs in Spec.
  destruct Spec as (perm & E & L & _ & S & U).
  { split.
    - cbn [concat]. rewrite app_nil_r. unfold c, of_nats. apply NoDup_map_inj; [apply seq_NoDup|].
      intros x y _ _ Exy. lia.
    - cbn [concat]. rewrite app_nil_r. apply Forall_forall. intros z Hz. apply Hin in Hz as (a & -> & Ha). lia. }
  rewrite E. cbn [bind]. do 2 f_equal.
  apply nth_ext' with (d := 0); [rewrite L; symmetry; apply gen_cycle_length; assumption|].
  intros x Hx. rewrite L in Hx. rewrite gen_cycle_nth by assumption.
  assert (forall t, t < j + 1 - i -> nth t c 0%Z = Z.of_nat (i + t)) as Hc.
  { intros t Ht. unfold c. rewrite nth_of_nats, seq_nth by lia. reflexivity. }
  destruct (Nat.ltb_spec x i) as [Hlt|Hge].
  { apply U; [exact Hx|]. cbn [concat]. rewrite app_nil_r. intros Hz. apply Hin in Hz as (a & Ea & Ha). lia. }
  destruct (Nat.ltb_spec x j) as [Hlt|Hge'].
  { specialize (S c (x - i) (or_introl eq_refl) ltac:(lia)).
    rewrite Lc in S. rewrite Nat.mod_small in S by lia. rewrite !Hc in S by lia. rewrite !Nat2Z.id in S.
    replace (i + (x - i)) with x in S by lia. rewrite S. lia. }
  destruct (Nat.eqb_spec x j) as [->|Hne].
  { specialize (S c (j - i) (or_introl eq_refl) ltac:(lia)).
    rewrite Lc in S. replace (j - i + 1) with (j + 1 - i) in S by lia. rewrite Nat.mod_same in S by lia.
    rewrite !Hc in S by lia. rewrite !Nat2Z.id in S.
    replace (i + (j - i)) with j in S by lia. rewrite S. lia. }
  apply U; [exact Hx|]. cbn [concat]. rewrite app_nil_r. intros Hz. apply Hin in Hz as (a & Ea & Ha). lia.
Qed.

Theorem prefix_cycles_returns n : 2 <= n ->
  returns (prefix_cycles (Z.of_nat n)) n (map (fun j => gen_cycle n 0 (j - 1)) (seq 2 (n - 1))).
Proof.
  intros Hn. unfold prefix_cycles. zguard.
  replace (zrange 2 (Z.of_nat n + 1)) with (of_nats (seq 2 (n - 1))).
  2:{ change 2%Z with (Z.of_nat 2). replace (Z.of_nat n + 1)%Z with (Z.of_nat (n + 1)) by lia.
      rewrite zrange_nat. do 2 f_equal. lia. }
  unfold of_nats at 1 2. rewrite !map_map.
  rewrite (mapM_map_ok _ _ (fun j => of_nats (gen_cycle n 0 (j - 1)))).
  2:{ intros j Hj. apply in_seq in Hj.
      replace (Z.of_nat j) with (Z.of_nat (j - 1) + 1)%Z by lia. change 0%Z with (Z.of_nat 0).
      apply zfrom_cycles_range; lia. }
  cbn [bind]. rewrite <- map_map.
  apply returns_create.
  - destruct n as [|[|n']]; try lia. discriminate.
  - lia.
  - apply Forall_forall. intros p Hp. apply in_map_iff in Hp as (j & <- & Hj). apply in_seq in Hj.
    apply gen_cycle_PermN; lia.
  - intros l [= <-]. now rewrite !map_length.
Qed.

Lemma flat_map_pairs {I J B} (F : I -> J -> B) (R : I -> list J) (L : list I) :
  flat_map (fun i => map (fun j => F i j) (R i)) L
  = map (fun ij => F (fst ij) (snd ij)) (flat_map (fun i => map (fun j => (i, j)) (R i)) L).
Proof.
  induction L as [|a L IH]; [reflexivity|]. cbn [flat_map]. rewrite map_app, IH. f_equal.
  rewrite map_map. reflexivity.
Qed.

Theorem down_cycles_returns n : 2 <= n ->
  returns (down_cycles (Z.of_nat n)) n (map (fun ij => gen_cycle n (fst ij) (snd ij)) (pairs n)).
Proof.
  intros Hn. unfold down_cycles. zguard.
  rewrite (flat_map_pairs (fun i j => zrange i (j + 1)) (fun i => zrange (i + 1) (Z.of_nat n))).
  rewrite zpairs_nat, !map_map.
  rewrite (mapM_map_ok _ _ (fun ij => of_nats (gen_cycle n (fst ij) (snd ij)))).
  2:{ intros [i j] Hij. apply in_pairs in Hij. cbn [zpair fst snd]. apply zfrom_cycles_range; lia. }
  cbn [bind]. rewrite <- map_map.
  apply returns_create.
  - assert (In (0, 1) (pairs n)) as Hij by (apply in_pairs; lia).
    destruct (pairs n); [destruct Hij|discriminate].
  - lia.
  - apply Forall_forall. intros p Hp. apply in_map_iff in Hp as ([i j] & <- & Hij). apply in_pairs in Hij.
    apply gen_cycle_PermN; cbn; lia.
  - intros l [= <-]. now rewrite !map_length.
Qed.

Theorem consecutive_k_cycles_returns n k : 1 <= k <= n ->
  returns (consecutive_k_cycles (Z.of_nat n) (Z.of_nat k)) n
          (map (fun i => gen_cycle n i (i + k - 1)) (seq 0 (n - k + 1))).
Proof.
  intros Hk. unfold consecutive_k_cycles. zguard.
  replace (Z.of_nat n - Z.of_nat k + 1)%Z with (Z.of_nat (n - k + 1)) by lia.
  rewrite zrange0_nat. unfold of_nats at 1 2. rewrite !map_map.
  rewrite (mapM_map_ok _ _ (fun i => of_nats (gen_cycle n i (i + k - 1)))).
  2:{ intros i Hi. apply in_seq in Hi.
      replace (Z.of_nat i + Z.of_nat k)%Z with (Z.of_nat (i + k - 1) + 1)%Z by lia.
      apply zfrom_cycles_range; lia. }
  cbn [bind]. rewrite <- map_map.
  apply returns_create.
  - replace (n - k + 1) with (S (n - k)) by lia. discriminate.
  - lia.
  - apply Forall_forall. intros p Hp. apply in_map_iff in Hp as (i & <- & Hi). apply in_seq in Hi.
    apply gen_cycle_PermN; lia.
  - intros l [= <-]. now rewrite !map_length.
Qed.

(* ---------------------------------------------------------------------------------------------- *)
(** * The documented properties, family by family *)
Lemma returns_map {I} r n (f : I -> list nat) (l : list I) : returns r n (map f l) ->
  exists d, r = Ok d /\ p_gens d = map f l /\ length (p_gens d) = length l /\ length (p_names d) = length l /\
    (forall t dI, t < length l -> nth t (p_gens d) [] = f (nth t l dI)) /\
    (forall p, In p (p_gens d) <-> exists a, In a l /\ p = f a).
Proof.
  intros (d & E & G & _ & N). exists d. rewrite G. rewrite map_length in N. rewrite map_length.
  repeat split; try assumption.
  - intros t dI Ht. apply nth_map_lt. exact Ht.
  - intros Hp. apply in_map_iff in Hp as (a & <- & Ha). exists a. split; [exact Ha|reflexivity].
  - intros (a & Ha & ->). apply in_map. exact Ha.
Qed.

(* lrx: L, R, X = shift left, shift right, swap of the elements 0 and k *)
Theorem lrx_documented n k : 3 <= n -> 1 <= k < n ->
  exists d, lrx (Z.of_nat n) (Z.of_nat k) = Ok d /\ length (p_gens d) = 3 /\ Forall (PermN n) (p_gens d) /\
    forall (A : Type) (dflt : A) (x : list A), length x = n ->
      map (fun p => apply_perm dflt p x) (p_gens d) = [shift_left x; shift_right x; swap_at dflt x 0 k].
Proof.
  intros Hn Hk. destruct (lrx_returns n k Hn Hk) as (d & E & G & _ & _). exists d. rewrite G.
  split; [exact E|]. split; [reflexivity|]. split.
  - repeat (apply Forall_cons || apply Forall_nil); [apply gen_L_PermN|apply gen_R_PermN|apply transp_PermN]; lia.
  - intros A dflt x L. cbn [map]. rewrite (apply_gen_L dflt n), (apply_gen_R dflt n), (apply_transp dflt n) by lia.
    reflexivity.
Qed.

(* lx: L, X = left shift, swap of the first two elements; documented NOT inverse-closed *)
Lemma gen_L_nth n t : t < n -> nth t (gen_L n) 0 = if t + 1 <? n then t + 1 else 0.
Proof.
  intros Ht. unfold gen_L. destruct (Nat.ltb_spec (t + 1) n).
  - rewrite app_nth1 by (rewrite seq_length; lia). rewrite seq_nth by lia. lia.
  - rewrite app_nth2 by (rewrite seq_length; lia). rewrite seq_length. replace (t - (n - 1)) with 0 by lia. reflexivity.
Qed.

Theorem lx_documented n : 3 <= n ->
  exists d, lx (Z.of_nat n) = Ok d /\ length (p_gens d) = 2 /\ Forall (PermN n) (p_gens d) /\
    (forall (A : Type) (dflt : A) (x : list A), length x = n ->
      map (fun p => apply_perm dflt p x) (p_gens d) = [shift_left x; swap_at dflt x 0 1]) /\
    is_some (perm_inverse_map (p_gens d)) = false.
Proof.
  intros Hn. destruct (lx_returns n Hn) as (d & E & G & _ & _). exists d. rewrite G.
  split; [exact E|]. split; [reflexivity|]. split; [|split].
  - repeat (apply Forall_cons || apply Forall_nil); [apply gen_L_PermN|apply transp_PermN]; lia.
  - intros A dflt x L. cbn [map]. rewrite (apply_gen_L dflt n), (apply_transp dflt n) by lia. reflexivity.
  - destruct (is_some (perm_inverse_map [gen_L n; transp n 0 1])) eqn:C; [|reflexivity]. exfalso.
    apply closed_flag_iff with (p := gen_L n) in C; [|left; reflexivity].
    destruct (gen_L_PermN n ltac:(lia)) as [PL LL].
    pose proof (inverse_spec (gen_L n) 0 PL ltac:(lia)) as S0.
    pose proof (inverse_spec (gen_L n) 1 PL ltac:(lia)) as S1.
    rewrite gen_L_nth in S0, S1 by lia.
    destruct (Nat.ltb_spec (0 + 1) n); [|lia]. destruct (Nat.ltb_spec (1 + 1) n); [|lia].
    destruct C as [C|[C|[]]]; rewrite <- C in S0, S1.
    + rewrite gen_L_nth in S0 by lia. destruct (Nat.ltb_spec (0 + 1 + 1) n); lia.
    + rewrite transp_nth in S1 by lia. cbn in S1. lia.
Qed.

(* top_spin: shift left, shift right, reversal of the first k elements *)
Theorem top_spin_documented n k : 2 <= k <= n ->
  exists d, top_spin (Z.of_nat n) (Z.of_nat k) = Ok d /\ length (p_gens d) = 3 /\ Forall (PermN n) (p_gens d) /\
    forall (A : Type) (dflt : A) (x : list A), length x = n ->
      map (fun p => apply_perm dflt p x) (p_gens d) = [shift_left x; shift_right x; rev_prefix k x].
Proof.
  intros Hk. destruct (top_spin_returns n k Hk) as (d & E & G & _ & _). exists d. rewrite G.
  split; [exact E|]. split; [reflexivity|]. split.
  - repeat (apply Forall_cons || apply Forall_nil); [apply gen_L_PermN|apply gen_R_PermN|apply gen_rev_prefix_PermN]; lia.
  - intros A dflt x L. cbn [map].
    rewrite (apply_gen_L dflt n), (apply_gen_R dflt n), (apply_gen_rev_prefix dflt n) by lia. reflexivity.
Qed.

(* pancake: n-1 generators R1..R(n-1); Ri reverses the elements 0..i *)
Theorem pancake_documented n : 2 <= n ->
  exists d, pancake (Z.of_nat n) = Ok d /\ length (p_gens d) = n - 1 /\ length (p_names d) = n - 1 /\
    Forall (PermN n) (p_gens d) /\
    forall (A : Type) (dflt : A) (x : list A) i, length x = n -> 1 <= i <= n - 1 ->
      apply_perm dflt (nth (i - 1) (p_gens d) []) x = rev_prefix (i + 1) x.
Proof.
  intros Hn. destruct (returns_map _ _ _ _ (pancake_returns n Hn)) as (d & E & G & L & N & Hnth & Hin).
  rewrite seq_length in L, N. exists d. repeat split; try assumption.
  - apply Forall_forall. intros p Hp. apply Hin in Hp as (k & Hk & ->). apply in_seq in Hk.
    apply gen_rev_prefix_PermN. lia.
  - intros A dflt x i Lx Hi. rewrite (Hnth (i - 1) 0) by (rewrite seq_length; lia).
    rewrite seq_nth by lia. replace (2 + (i - 1)) with (i + 1) by lia.
    apply apply_gen_rev_prefix; lia.
Qed.

(* coxeter: n-1 generators (0,1), (1,2), ..., (n-2,n-1) *)
Theorem coxeter_documented n : 2 <= n ->
  exists d, coxeter (Z.of_nat n) = Ok d /\ length (p_gens d) = n - 1 /\ length (p_names d) = n - 1 /\
    Forall (PermN n) (p_gens d) /\
    forall (A : Type) (dflt : A) (x : list A) i, length x = n -> i < n - 1 ->
      apply_perm dflt (nth i (p_gens d) []) x = swap_at dflt x i (i + 1).
Proof.
  intros Hn. destruct (returns_map _ _ _ _ (coxeter_returns n Hn)) as (d & E & G & L & N & Hnth & Hin).
  rewrite seq_length in L, N. exists d. repeat split; try assumption.
  - apply Forall_forall. intros p Hp. apply Hin in Hp as (k & Hk & ->). apply in_seq in Hk.
    apply transp_PermN; lia.
  - intros A dflt x i Lx Hi. rewrite (Hnth i 0) by (rewrite seq_length; lia).
    rewrite seq_nth by lia. cbn [Nat.add]. apply apply_transp; lia.
Qed.

(* cyclic_coxeter: n generators (0,1), ..., (n-2,n-1), (0,n-1) *)
Theorem cyclic_coxeter_documented n : 2 <= n ->
  exists d, cyclic_coxeter (Z.of_nat n) = Ok d /\ length (p_gens d) = n /\ length (p_names d) = n /\
    Forall (PermN n) (p_gens d) /\
    forall (A : Type) (dflt : A) (x : list A), length x = n ->
      (forall i, i < n - 1 -> apply_perm dflt (nth i (p_gens d) []) x = swap_at dflt x i (i + 1)) /\
      apply_perm dflt (nth (n - 1) (p_gens d) []) x = swap_at dflt x 0 (n - 1).
Proof.
  intros Hn. destruct (cyclic_coxeter_returns n Hn) as (d & E & G & _ & N). exists d. rewrite G.
  rewrite app_length, map_length, seq_length in N. cbn [length] in N.
  split; [exact E|]. split; [rewrite app_length, map_length, seq_length; cbn; lia|]. split; [lia|]. split.
  - apply Forall_app. split.
    + apply Forall_forall. intros p Hp. apply in_map_iff in Hp as (k & <- & Hk). apply in_seq in Hk.
      apply transp_PermN; lia.
    + repeat (apply Forall_cons || apply Forall_nil). apply transp_PermN; lia.
  - intros A dflt x Lx. split.
    + intros i Hi. rewrite app_nth1 by (rewrite map_length, seq_length; lia).
      rewrite (nth_map_lt _ _ i 0) by (rewrite seq_length; lia). rewrite seq_nth by lia. cbn [Nat.add].
      apply apply_transp; lia.
    + rewrite app_nth2 by (rewrite map_length, seq_length; lia). rewrite map_length, seq_length, Nat.sub_diag.
      cbn [nth]. apply apply_transp; lia.
Qed.

(* stars: the n-1 transpositions (0 i) *)
Theorem stars_documented n : 3 <= n ->
  exists d, stars (Z.of_nat n) = Ok d /\ length (p_gens d) = n - 1 /\ length (p_names d) = n - 1 /\
    Forall (PermN n) (p_gens d) /\
    forall (A : Type) (dflt : A) (x : list A) i, length x = n -> 1 <= i <= n - 1 ->
      apply_perm dflt (nth (i - 1) (p_gens d) []) x = swap_at dflt x 0 i.
Proof.
  intros Hn. destruct (returns_map _ _ _ _ (stars_returns n Hn)) as (d & E & G & L & N & Hnth & Hin).
  rewrite seq_length in L, N. exists d. repeat split; try assumption.
  - apply Forall_forall. intros p Hp. apply Hin in Hp as (k & Hk & ->). apply in_seq in Hk.
    apply transp_PermN; lia.
  - intros A dflt x i Lx Hi. rewrite (Hnth (i - 1) 0) by (rewrite seq_length; lia).
    rewrite seq_nth by lia. replace (1 + (i - 1)) with i by lia. apply apply_transp; lia.
Qed.

(* the three families indexed by pairs i < j < n *)
Lemma pairs_family_documented r n (g : nat -> nat -> nat -> list nat) :
  returns r n (map (fun ij => g n (fst ij) (snd ij)) (pairs n)) ->
  (forall i j, i < j < n -> PermN n (g n i j)) ->
  exists d, r = Ok d /\ 2 * length (p_gens d) = n * (n - 1) /\ length (p_names d) = length (p_gens d) /\
    Forall (PermN n) (p_gens d) /\
    (forall p, In p (p_gens d) <-> exists i j, i < j < n /\ p = g n i j).
Proof.
  intros R HP. destruct (returns_map _ _ _ _ R) as (d & E & G & L & N & _ & Hin).
  exists d. split; [exact E|]. split; [rewrite L; apply pairs_length|]. split; [congruence|]. split.
  - apply Forall_forall. intros p Hp. apply Hin in Hp as ([i j] & Hij & ->). apply in_pairs in Hij.
    apply HP. exact Hij.
  - intros p. rewrite Hin. split.
    + intros ([i j] & Hij & ->). apply in_pairs in Hij. exists i, j. split; [exact Hij|reflexivity].
    + intros (i & j & Hij & ->). exists (i, j). split; [apply in_pairs; exact Hij|reflexivity].
Qed.

(* all_transpositions: exactly the n(n-1)/2 transpositions; each swaps two entries *)
Theorem all_transpositions_documented n : 2 <= n ->
  exists d, all_transpositions (Z.of_nat n) = Ok d /\ 2 * length (p_gens d) = n * (n - 1) /\
    length (p_names d) = length (p_gens d) /\ Forall (PermN n) (p_gens d) /\
    (forall p, In p (p_gens d) <-> exists i j, i < j < n /\ p = transp n i j) /\
    forall (A : Type) (dflt : A) (x : list A) i j, length x = n -> i < j < n ->
      apply_perm dflt (transp n i j) x = swap_at dflt x i j.
Proof.
  intros Hn.
  destruct (pairs_family_documented _ n transp (all_transpositions_returns n Hn)) as (d & H1 & H2 & H3 & H4 & H5).
  { intros i j Hij. apply transp_PermN; lia. }
  exists d. repeat split; try assumption; try apply H5.
  intros A dflt x i j Lx Hij. apply apply_transp; lia.
Qed.

(* full_reversals: exactly the n(n-1)/2 reversals of a substring x[i..j] *)
Theorem full_reversals_documented n : 2 <= n ->
  exists d, full_reversals (Z.of_nat n) = Ok d /\ 2 * length (p_gens d) = n * (n - 1) /\
    length (p_names d) = length (p_gens d) /\ Forall (PermN n) (p_gens d) /\
    (forall p, In p (p_gens d) <-> exists i j, i < j < n /\ p = gen_rev_segment n i j) /\
    forall (A : Type) (dflt : A) (x : list A) i j, length x = n -> i < j < n ->
      apply_perm dflt (gen_rev_segment n i j) x = rev_segment i j x.
Proof.
  intros Hn.
  destruct (pairs_family_documented _ n gen_rev_segment (full_reversals_returns n Hn)) as (d & H1 & H2 & H3 & H4 & H5).
  { intros i j Hij. apply gen_rev_segment_PermN; lia. }
  exists d. repeat split; try assumption; try apply H5.
  intros A dflt x i j Lx Hij. apply apply_gen_rev_segment; lia.
Qed.

(* down_cycles: exactly the cycles (i, i+1, ..., j), i < j < n; each rotates the segment x[i..j] *)
Theorem down_cycles_documented n : 2 <= n ->
  exists d, down_cycles (Z.of_nat n) = Ok d /\ 2 * length (p_gens d) = n * (n - 1) /\
    length (p_names d) = length (p_gens d) /\ Forall (PermN n) (p_gens d) /\
    (forall p, In p (p_gens d) <-> exists i j, i < j < n /\ p = gen_cycle n i j) /\
    forall (A : Type) (dflt : A) (x : list A) i j, length x = n -> i < j < n ->
      apply_perm dflt (gen_cycle n i j) x = rot_segment i j x.
Proof.
  intros Hn.
  destruct (pairs_family_documented _ n gen_cycle (down_cycles_returns n Hn)) as (d & H1 & H2 & H3 & H4 & H5).
  { intros i j Hij. apply gen_cycle_PermN; lia. }
  exists d. repeat split; try assumption; try apply H5.
  intros A dflt x i j Lx Hij. apply apply_gen_cycle; lia.
Qed.

(* prefix_cycles: the n-1 cycles (0 1 ... j-1), j = 2..n *)
Theorem prefix_cycles_documented n : 2 <= n ->
  exists d, prefix_cycles (Z.of_nat n) = Ok d /\ length (p_gens d) = n - 1 /\ length (p_names d) = n - 1 /\
    Forall (PermN n) (p_gens d) /\
    forall (A : Type) (dflt : A) (x : list A) j, length x = n -> 2 <= j <= n ->
      nth (j - 2) (p_gens d) [] = gen_cycle n 0 (j - 1) /\
      apply_perm dflt (nth (j - 2) (p_gens d) []) x = rot_segment 0 (j - 1) x.
Proof.
  intros Hn. destruct (returns_map _ _ _ _ (prefix_cycles_returns n Hn)) as (d & E & G & L & N & Hnth & Hin).
  rewrite seq_length in L, N. exists d. repeat split; try assumption.
  - apply Forall_forall. intros p Hp. apply Hin in Hp as (k & Hk & ->). apply in_seq in Hk.
    apply gen_cycle_PermN; lia.
  - rewrite (Hnth (j - 2) 0) by (rewrite seq_length; lia). rewrite seq_nth by lia. do 2 f_equal. lia.
  - rewrite (Hnth (j - 2) 0) by (rewrite seq_length; lia). rewrite seq_nth by lia.
    replace (2 + (j - 2) - 1) with (j - 1) by lia. apply apply_gen_cycle; lia.
Qed.

(* consecutive_k_cycles: the n-k+1 cycles (i, i+1, ..., i+k-1), i = 0..n-k *)
Theorem consecutive_k_cycles_documented n k : 1 <= k <= n ->
  exists d, consecutive_k_cycles (Z.of_nat n) (Z.of_nat k) = Ok d /\
    length (p_gens d) = n - k + 1 /\ length (p_names d) = n - k + 1 /\ Forall (PermN n) (p_gens d) /\
    forall (A : Type) (dflt : A) (x : list A) i, length x = n -> i <= n - k ->
      nth i (p_gens d) [] = gen_cycle n i (i + k - 1) /\
      apply_perm dflt (nth i (p_gens d) []) x = rot_segment i (i + k - 1) x.
Proof.
  intros Hk. destruct (returns_map _ _ _ _ (consecutive_k_cycles_returns n k Hk)) as (d & E & G & L & N & Hnth & Hin).
  rewrite seq_length in L, N. exists d. repeat split; try assumption.
  - apply Forall_forall. intros p Hp. apply Hin in Hp as (i & Hi & ->). apply in_seq in Hi.
    apply gen_cycle_PermN; lia.
  - rewrite (Hnth i 0) by (rewrite seq_length; lia). rewrite seq_nth by lia. reflexivity.
  - rewrite (Hnth i 0) by (rewrite seq_length; lia). rewrite seq_nth by lia. cbn [Nat.add].
    apply apply_gen_cycle; lia.
Qed.

(* the closed forms, pointwise: what gen_cycle / gen_rev_segment / transp are as maps *)
Theorem gen_cycle_is_the_cycle n i j x : i <= j -> j < n -> x < n ->
  nth x (gen_cycle n i j) 0 = if x <? i then x else if x <? j then x + 1 else if x =? j then i else x.
Proof. exact (gen_cycle_nth n i j x). Qed.
