(** Chunked hashing (hasher.py: _make_hashes_cpu_and_modern_gpu / _make_hashes_older_gpu) and the
    side conditions on the generated constants that the hash theorems need. *)
From Coq Require Import ZArith List Bool Arith Lia.
From V Require Import Base W64 Tensor Hash.
Import ListNotations.
Open Scope Z_scope.

(* if rows <= chunk: one product; else tensor_split into ceil(rows/chunk) parts, hash each, stack *)
Definition hash_rows_chunked (f : list Z -> Z) (chunk : Z) (rows : list (list Z)) : list Z :=
  if Z.of_nat (length rows) <=? chunk then map f rows
  else
    let parts := Z.to_nat ((Z.of_nat (length rows) + chunk - 1) / chunk) in
    concat (map (map f) (tensor_split parts rows)).

(* what makes a mixing step a bijection of 64-bit words *)
Definition step_ok (s : mix_step) : bool :=
  match s with
  | XorShr k => (1 <=? k) && (k <=? 63)
  | MulC c => Z.odd c
  | XorSar _ => false            (* arithmetic shift: x and ~x collide *)
  end.
