(** The exported explicit graph of a completed BFS IS the Schreier graph.
    Composition of the renumbering theorems of ExportProofs.v with the facts about the BFS model
    proved in BfsProofs.v / BfsEdges.v (the lemmas behind props/C08.v: bfs_edges_completed,
    bfs_layers_hashes_aligned) and bfs_prefix. *)
From Coq Require Import ZArith List Bool Arith Lia Permutation String.
From V Require Import Base BaseProofs Tensor Graph GraphProofs GraphImpl Perm Bfs BfsStep BfsProofs BfsEdges
                      Export ExportProofs.
Import ListNotations.
Local Open Scope nat_scope.
Local Notation length := Datatypes.length.
Local Notation concat := List.concat.

(* ------------------------------------------------------------------ *)
(** * all_states of a BFS result *)

(* self.layers[k] *)
Definition stored_layer (o : bfs_out) (k : nat) : list state :=
  match find (fun '(k', _) => k' =? k) (layers o) with Some (_, l) => l | None => [] end.

(* BfsResult.all_states: vstack([self.layers[i] for i in range(len(self.layer_sizes))]) *)
Definition all_states (o : bfs_out) : list state :=
  concat (map (stored_layer o) (seq 0 (length (sizes o)))).

(* ------------------------------------------------------------------ *)
(** * Generic list facts *)

Lemma find_key {B} (ly : list (nat * B)) k l :
  NoDup (map fst ly) -> In (k, l) ly -> find (fun '(k', _) => k' =? k) ly = Some (k, l).
Proof.
  induction ly as [|[k0 l0] ly IH]; intros Hnd Hin; [destruct Hin|].
  simpl in Hnd. inversion Hnd as [|x xs Hnotin Hnd']; subst.
  simpl. destruct Hin as [Heq | Hin].
  - inversion Heq; subst. rewrite Nat.eqb_refl. reflexivity.
  - destruct (Nat.eqb_spec k0 k) as [-> | Hne].
    + exfalso. apply Hnotin. apply in_map_iff. exists (k, l). auto.
    + apply IH; assumption.
Qed.

Lemma NoDup_concat_map {A} (f : nat -> list A) (ks : list nat) :
  NoDup ks -> (forall k, In k ks -> NoDup (f k)) ->
  (forall k1 k2 t, In k1 ks -> In k2 ks -> In t (f k1) -> In t (f k2) -> k1 = k2) ->
  NoDup (concat (map f ks)).
Proof.
  induction ks as [|k ks IH]; intros Hnd Hf Hdis; [constructor|].
  inversion Hnd as [|x xs Hnotin Hnd']; subst. simpl. apply NoDup_app_intro.
  - apply Hf. left. reflexivity.
  - apply IH; [exact Hnd' | intros k' Hk'; apply Hf; right; exact Hk'|].
    intros k1 k2 t H1 H2. apply Hdis; right; assumption.
  - intros t Ht Hc. apply in_concat in Hc. destruct Hc as (l & Hl & Htl).
    apply in_map_iff in Hl. destruct Hl as (k' & <- & Hk').
    assert (k = k') by (apply (Hdis k k' t); simpl; auto). subst k'. contradiction.
Qed.

Lemma in_concat_map {A} (f : nat -> list A) (ks : list nat) t :
  In t (concat (map f ks)) <-> exists k, In k ks /\ In t (f k).
Proof.
  rewrite in_concat. split.
  - intros (l & Hl & Ht). apply in_map_iff in Hl. destruct Hl as (k & <- & Hk). eauto.
  - intros (k & Hk & Ht). exists (f k). split; [apply in_map; exact Hk | exact Ht].
Qed.

Lemma Forall2_map_same {A B C} (R : B -> C -> Prop) (f : A -> B) (g : A -> C) (ks : list A) :
  (forall k, In k ks -> R (f k) (g k)) -> Forall2 R (map f ks) (map g ks).
Proof.
  induction ks as [|k ks IH]; intros H; simpl; constructor.
  - apply H. left. reflexivity.
  - apply IH. intros k' Hk'. apply H. right. exact Hk'.
Qed.

Lemma list_eq_map_seq {A} (l : list A) (d : A) (f : nat -> A) :
  (forall k, k < length l -> nth k l d = f k) -> l = map f (seq 0 (length l)).
Proof.
  intros H. apply (nth_ext _ _ d (f 0)).
  - rewrite map_length, seq_length. reflexivity.
  - intros k Hk. rewrite H by exact Hk.
    rewrite (nth_indep _ (f 0) (f (length l))) by (rewrite map_length, seq_length; exact Hk).
    rewrite map_nth, seq_nth by exact Hk. reflexivity.
Qed.

(* ------------------------------------------------------------------ *)
(** * The composition *)

Section ExportSchreier.
  Variable G : impl.
  Variable cfg : bfs_cfg.
  Variable U : state -> Prop.
  Hypothesis U_closed : closed state (acts G) U.
  Hypothesis NoColl : forall a b, U a -> U b -> hashf G a = hashf G b -> a = b.
  Hypothesis IdOK : is_identity G = true -> forall a, U a -> unword G (hashf G a) = a.
  Hypothesis Sym : inv_closed G = true -> symmetric_on state (acts G) U.
  Hypothesis batch_pos : (1 <= batch_size cfg)%Z.
  Variable starts : list state.
  Hypothesis starts_U : forall s, In s starts -> U s.
  Hypothesis starts_ne : starts <> [].
  Hypothesis edges_on : ret_edges cfg = true.          (* return_all_edges=True *)
  Hypothesis hashes_on : ret_hashes cfg = true.        (* return_all_hashes=True *)
  Variable o : bfs_out.
  Variable es : list (Z * Z).
  Hypothesis run : bfs G cfg starts = Ok o.
  Hypothesis done : completed o = true.
  Hypothesis Hes : edges o = Some es.
  (* the assertion of BfsResult.all_states: every layer was stored *)
  Hypothesis all_stored : length (layers o) = length (sizes o).

  Notation L i := (layer state st_eq_dec (acts G) starts i).
  Local Notation hf := (hashf G).
  Local Notation D := (length (sizes o)).
  Local Notation states := (all_states o).

  Lemma keys_lt k l : In (k, l) (layers o) -> k < D /\ NoDup l /\ set_eq l (L k).
  Proof. pose proof (bfs_prefix G cfg U U_closed NoColl IdOK Sym batch_pos starts starts_U starts_ne o run) as P. cbv zeta in P. apply P. Qed.

  Lemma keys_nodup : NoDup (map fst (layers o)).
  Proof. pose proof (bfs_prefix G cfg U U_closed NoColl IdOK Sym batch_pos starts starts_U starts_ne o run) as P. cbv zeta in P. apply P. Qed.

  Lemma LD_empty : L D = [].
  Proof. pose proof (bfs_prefix G cfg U U_closed NoColl IdOK Sym batch_pos starts starts_U starts_ne o run) as P. cbv zeta in P. destruct P as (_ & _ & _ & _ & P5 & _). apply P5. exact done. Qed.

  Lemma sizes_are : sizes o = map (fun i => length (L i)) (seq 0 D).
  Proof. pose proof (bfs_prefix G cfg U U_closed NoColl IdOK Sym batch_pos starts starts_U starts_ne o run) as P. cbv zeta in P. apply P. Qed.

  Lemma hashes_len : length (layer_hashes o) = D.
  Proof.
    pose proof (bfs_prefix G cfg U U_closed NoColl IdOK Sym batch_pos starts starts_U starts_ne o run) as P. cbv zeta in P.
    destruct P as (_ & _ & _ & _ & _ & _ & _ & _ & _ & _ & _ & P12 & _). apply P12. exact hashes_on.
  Qed.

  (* every layer 0..D-1 is present (pigeonhole on the distinct keys < D) *)
  Lemma layer_stored k : k < D -> In (k, stored_layer o k) (layers o).
  Proof.
    intros Hk.
    assert (Hincl : incl (seq 0 D) (map fst (layers o))).
    { apply NoDup_length_incl.
      - exact keys_nodup.
      - rewrite seq_length, map_length, all_stored. lia.
      - intros k' Hk'. apply in_map_iff in Hk'. destruct Hk' as ([k'' l] & Heq & Hin).
        simpl in Heq. subst k''. apply keys_lt in Hin. apply in_seq. lia. }
    assert (Hin : In k (map fst (layers o))) by (apply Hincl, in_seq; lia).
    apply in_map_iff in Hin. destruct Hin as ([k' l] & Heq & Hin). simpl in Heq. subst k'.
    unfold stored_layer. rewrite (find_key _ _ _ keys_nodup Hin). exact Hin.
  Qed.

  Lemma layer_good k : k < D -> NoDup (stored_layer o k) /\ set_eq (stored_layer o k) (L k).
  Proof. intros Hk. apply layer_stored in Hk. apply keys_lt in Hk. tauto. Qed.

  Lemma layer_len k : k < D -> length (stored_layer o k) = length (L k).
  Proof.
    intros Hk. destruct (layer_good k Hk) as [Hnd Hset]. apply Permutation_length.
    apply NoDup_Permutation; [exact Hnd | apply layer_NoDup | exact Hset].
  Qed.

  (* the rows of all_states are exactly the states at distance < D, each once *)
  Lemma states_in t : In t states <-> exists k, k < D /\ In t (L k).
  Proof.
    unfold all_states. rewrite in_concat_map. split.
    - intros (k & Hk & Ht). apply in_seq in Hk. exists k. split; [lia|].
      apply (proj2 (layer_good k ltac:(lia))). exact Ht.
    - intros (k & Hk & Ht). exists k. split; [apply in_seq; lia|].
      apply (proj2 (layer_good k Hk)). exact Ht.
  Qed.

  Lemma states_nodup : NoDup states.
  Proof.
    unfold all_states. apply NoDup_concat_map.
    - apply seq_NoDup.
    - intros k Hk. apply in_seq in Hk. apply layer_good. lia.
    - intros k1 k2 t H1 H2 T1 T2. apply in_seq in H1. apply in_seq in H2.
      apply (proj2 (layer_good k1 ltac:(lia))) in T1. apply (proj2 (layer_good k2 ltac:(lia))) in T2.
      eapply layers_disjoint; eauto.
  Qed.

  Lemma states_U t : In t states -> U t.
  Proof.
    intros Ht. apply states_in in Ht. destruct Ht as (k & _ & Ht).
    eapply layer_in_closed; eauto.
  Qed.

  (* the vertex set is the orbit of the start states *)
  Lemma states_orbit t : In t states <-> exists k, reach state (acts G) starts k t.
  Proof.
    rewrite states_in. split.
    - intros (k & _ & Ht). exists k. apply ref_layers_dist in Ht. apply Ht.
    - intros (k & Hr). destruct (reach_has_dist state st_eq_dec _ _ _ _ Hr) as (dd & _ & Hd).
      apply (ref_layers_dist state st_eq_dec) in Hd. exists dd. split; [|exact Hd].
      destruct (Nat.lt_ge_cases dd D) as [Hlt | Hge]; [exact Hlt|].
      rewrite (empty_layer_stays state st_eq_dec _ _ _ LD_empty dd Hge) in Hd. destruct Hd.
  Qed.

  Lemma states_closed v g : In v states -> In g (acts G) -> In (g v) states.
  Proof.
    intros Hv Hg. apply states_orbit in Hv. destruct Hv as (k & Hr).
    apply states_orbit. exists (S k). constructor; assumption.
  Qed.

  Lemma hashes_are : layer_hashes o = map (fun k => map hf (stored_layer o k)) (seq 0 D).
  Proof.
    rewrite <- hashes_len. apply (list_eq_map_seq _ []). intros k Hk. rewrite hashes_len in Hk.
    apply (bfs_layers_hashes_aligned G cfg U U_closed NoColl IdOK Sym batch_pos starts starts_U starts_ne
             edges_on o run hashes_on).
    apply layer_stored. exact Hk.
  Qed.

  (* row k of all_states hashes to the k-th hash of the concatenated layers_hashes *)
  Lemma hashes_aligned : concat (layer_hashes o) = map hf states.
  Proof.
    rewrite hashes_are. unfold all_states. rewrite concat_map, map_map. reflexivity.
  Qed.

  Lemma sizes_agree_o : sizes_agree (layer_hashes o) (sizes o).
  Proof.
    pose proof sizes_are as Hs. pose proof hashes_are as Hh.
    assert (Hlen : forall k, k < D -> length (map hf (stored_layer o k)) = length (L k)).
    { intros k Hk. rewrite map_length. apply layer_len. exact Hk. }
    remember D as n eqn:En. rewrite Hs, Hh. unfold sizes_agree. apply Forall2_map_same.
    intros k Hk. apply in_seq in Hk. apply Hlen. lia.
  Qed.

  Lemma states_length : length states = fold_right Nat.add 0 (sizes o).
  Proof.
    rewrite (sizes_agree_sum _ _ sizes_agree_o), hashes_aligned, map_length. reflexivity.
  Qed.

  Lemma es_char a b :
    In (a, b) es <-> exists v g, In v states /\ In g (acts G) /\ a = hf v /\ b = hf (g v).
  Proof.
    pose proof (bfs_edges_completed G cfg U U_closed NoColl IdOK Sym batch_pos starts starts_U starts_ne
                  edges_on o es run done Hes) as HE. cbv zeta in HE. rewrite HE. split.
    - intros (v & g & i & Hi & Hv & Hg & Ha & Hb). exists v, g. split; [|auto].
      apply states_in. eauto.
    - intros (v & g & Hv & Hg & Ha & Hb). apply states_in in Hv. destruct Hv as (i & Hi & Hv).
      exists v, g, i. auto.
  Qed.

  (** ** Main theorem: vertex numbering and edge list describe exactly the Schreier graph *)
  Theorem export_is_schreier_graph :
    exists m el,
      hashes_to_indices (layer_hashes o) (sizes o) = Ok m /\      (* hashes_to_indices_dict succeeds *)
      edges_list m es = Ok el /\                                  (* edges_list succeeds *)
      length el = length es /\
      (* the vertices: rows of all_states = the orbit, each state once, num_vertices of them *)
      NoDup states /\
      (forall t, In t states <-> exists k, reach state (acts G) starts k t) /\
      length states = fold_right Nat.add 0 (sizes o) /\
      (* vertex k is row k of all_states *)
      (forall k, k < length states -> assoc_get (hf (nth k states [])) m = Some k) /\
      (forall h k, assoc_get h m = Some k -> k < length states /\ h = hf (nth k states [])) /\
      (* there is an entry (i, j) exactly when some generator maps state i to state j *)
      (forall i j, In (i, j) el <->
         i < length states /\ j < length states /\
         exists g, In g (acts G) /\ g (nth i states []) = nth j states []).
  Proof.
    assert (Hinj : forall a b, In a states -> In b states -> hf a = hf b -> a = b).
    { intros a b Ha Hb. apply NoColl; apply states_U; assumption. }
    destruct (numbering_consistent state hf [] states (layer_hashes o) (sizes o)
                states_nodup Hinj sizes_agree_o hashes_aligned (acts G) states_closed es es_char)
      as (el & Hm & Hel & Hlen & Hiff).
    exists (numbering state hf states), el.
    split; [exact Hm|]. split; [exact Hel|]. split; [exact Hlen|].
    split; [exact states_nodup|]. split; [exact states_orbit|]. split; [exact states_length|].
    split; [intros k Hk; apply numbering_get; [exact states_nodup | exact Hinj | exact Hk]|].
    split; [intros h k; apply numbering_get_inv | exact Hiff].
  Qed.

  (** ** Names.  For a permutation graph (generator i acts as apply_perm of perms[i]):
      get_edge_name(i, j) answers on every exported edge with the name of a generator that maps
      state i to state j (the first one); vertex k's name is the name of row k. *)
  Variable perms : list (list nat).
  Variable names : list string.
  Hypothesis acts_perms : acts G = map (fun p => apply_perm 0%Z p) perms.
  Hypothesis names_len : length names = length perms.

  Theorem export_edge_names m el :
    hashes_to_indices (layer_hashes o) (sizes o) = Ok m -> edges_list m es = Ok el ->
    forall i j, In (i, j) el ->
      exists nm k, edge_name perms names (nth i states []) (nth j states []) = Ok nm /\
                   k < length perms /\ nth k names ""%string = nm /\
                   apply_perm 0%Z (nth k perms []) (nth i states []) = nth j states [] /\
                   forall k', k' < k -> apply_perm 0%Z (nth k' perms []) (nth i states []) <> nth j states [].
  Proof.
    intros Hm Hel i j Hin.
    destruct export_is_schreier_graph as (m' & el' & Hm' & Hel' & _ & _ & _ & _ & _ & _ & Hiff).
    rewrite Hm in Hm'. inversion Hm'; subst m'. rewrite Hel in Hel'. inversion Hel'; subst el'.
    apply Hiff in Hin. destruct Hin as (_ & _ & g & Hg & Hgij).
    rewrite acts_perms in Hg. apply in_map_iff in Hg. destruct Hg as (p & <- & Hp).
    destruct (edge_name_total perms names (nth i states []) (nth j states []) names_len) as (nm & k0 & Hnm & _).
    { exists p. auto. }
    apply edge_name_spec in Hnm. destruct Hnm as (k & Hk & _ & Hnth & Hmap & Hfirst).
    exists nm, k. split; [apply edge_name_spec; exists k; repeat split; auto; lia|].
    split; [exact Hk|]. split; [exact Hnth|]. split; [exact Hmap | exact Hfirst].
  Qed.

  Theorem export_vertex_names k :
    k < length states -> nth k (map vertex_name states) ""%string = vertex_name (nth k states []).
  Proof. intros Hk. apply nth_map_lt. exact Hk. Qed.

  (* distinct vertices get distinct names when the states are rows of one width with entries >= 0 *)
  Theorem export_vertex_names_distinct w :
    (forall s, U s -> length s = w /\ forall x, In x s -> (0 <= x)%Z) ->
    NoDup (map vertex_name states).
  Proof.
    intros HU. apply (vertex_names_nodup states w); [|exact states_nodup].
    intros s Hs. apply HU. apply states_U. exact Hs.
  Qed.
End ExportSchreier.

Print Assumptions export_is_schreier_graph.
Print Assumptions export_edge_names.
Print Assumptions export_vertex_names_distinct.

(* ------------------------------------------------------------------ *)
(** * Non-vacuity: a concrete run satisfying every hypothesis (rotation of 3 points, 2 generators) *)

Module Ex.
  Definition perms : list (list nat) := [[1; 2; 0]; [0; 1; 2]].
  Definition names : list string := ["r"; "e"]%string.
  Definition G : impl :=
    {| acts := map (fun p => apply_perm 0%Z p) perms;
       hashf := fun s => (3 * nth 0 s 0 + nth 1 s 0)%Z;
       is_identity := false; unword := fun _ => []; inv_closed := false; central := [0; 1; 2]%Z |}.
  Definition cfg : bfs_cfg :=
    {| batch_size := 10; max_store := 1000; max_explore := 1000; max_diameter := 10%N;
       ret_edges := true; ret_hashes := true; no_batching := false; stop := None |}.
  Definition orbit : list state := [[0; 1; 2]; [1; 2; 0]; [2; 0; 1]]%Z.
  Definition U (s : state) : Prop := In s orbit.
  Definition starts : list state := [[0; 1; 2]]%Z.
  Definition o : bfs_out :=
    match bfs G cfg starts with Ok o => o | Err _ => {| completed := false; sizes := []; layers := [];
      layer_hashes := []; edges := None; callback_trace := [] |} end.
  Definition es : list (Z * Z) := match edges o with Some e => e | None => [] end.

  Lemma U_cases s : U s -> s = [0; 1; 2]%Z \/ s = [1; 2; 0]%Z \/ s = [2; 0; 1]%Z.
  Proof. unfold U, orbit. simpl. intuition. Qed.

  Example hypotheses_hold :
    closed state (acts G) U /\
    (forall a b, U a -> U b -> hashf G a = hashf G b -> a = b) /\
    (is_identity G = true -> forall a, U a -> unword G (hashf G a) = a) /\
    (inv_closed G = true -> symmetric_on state (acts G) U) /\
    (1 <= batch_size cfg)%Z /\ (forall s, In s starts -> U s) /\ starts <> [] /\
    ret_edges cfg = true /\ ret_hashes cfg = true /\
    bfs G cfg starts = Ok o /\ completed o = true /\ edges o = Some es /\
    length (layers o) = length (sizes o) /\
    acts G = map (fun p => apply_perm 0%Z p) perms /\ length names = length perms.
  Proof.
    split.
    { intros g x Hg Hx. simpl in Hg. apply U_cases in Hx.
      destruct Hg as [<- | [<- | []]]; destruct Hx as [-> | [-> | ->]]; unfold U, orbit; simpl; auto. }
    split.
    { intros a b Ha Hb. apply U_cases in Ha. apply U_cases in Hb.
      destruct Ha as [-> | [-> | ->]]; destruct Hb as [-> | [-> | ->]]; simpl; intros H;
        try reflexivity; discriminate H. }
    split; [discriminate|]. split; [discriminate|]. split; [simpl; lia|].
    split. { intros s [<- | []]. unfold U, orbit. simpl. auto. }
    split; [discriminate|].
    split; [reflexivity|]. split; [reflexivity|].
    split; [vm_compute; reflexivity|]. split; [vm_compute; reflexivity|].
    split; [vm_compute; reflexivity|]. split; [vm_compute; reflexivity|].
    split; reflexivity.
  Qed.

  (* and what the export computes on it *)
  Example export_values :
    all_states o = orbit /\
    hashes_to_indices (layer_hashes o) (sizes o) = Ok [(1%Z, 0); (5%Z, 1); (6%Z, 2)] /\
    edges_list [(1%Z, 0); (5%Z, 1); (6%Z, 2)] es = Ok [(0, 1); (0, 0); (1, 2); (1, 1); (2, 0); (2, 2)] /\
    edge_name perms names (nth 0 orbit []) (nth 1 orbit []) = Ok "r"%string /\
    edge_name perms names (nth 1 orbit []) (nth 1 orbit []) = Ok "e"%string /\
    map vertex_name (all_states o) = ["012"; "120"; "201"]%string.
  Proof.
    split; [vm_compute; reflexivity|]. split; [vm_compute; reflexivity|].
    split; [vm_compute; reflexivity|]. split; [vm_compute; reflexivity|].
    split; vm_compute; reflexivity.
  Qed.

  (* the main theorem applied to this run *)
  Example export_is_schreier_graph_instance :
    exists m el,
      hashes_to_indices (layer_hashes o) (sizes o) = Ok m /\ edges_list m es = Ok el /\
      forall i j, In (i, j) el <->
        i < length (all_states o) /\ j < length (all_states o) /\
        exists g, In g (acts G) /\ g (nth i (all_states o) []) = nth j (all_states o) [].
  Proof.
    destruct hypotheses_hold as (H1 & H2 & H3 & H4 & H5 & H6 & H7 & H8 & H9 & H10 & H11 & H12 & H13 & _).
    destruct (export_is_schreier_graph G cfg U H1 H2 H3 H4 H5 starts H6 H7 H8 H9 o es H10 H11 H12 H13)
      as (m & el & Hm & Hel & _ & _ & _ & _ & _ & _ & Hiff).
    exists m, el. auto.
  Qed.
End Ex.
