(** A row-wise (memoised) computation of the unsigned Stirling numbers of the first kind, proved equal to the
    recursive [GrowthFormulas.stirling] (the Python uses functools.cache; the plain recursion is exponential
    under vm_compute).  Used by the harness to compare the all-transpositions dataset rows up to n = 30. *)
From Coq Require Import ZArith NArith List Lia.
From V Require Import GrowthFormulas.
Import ListNotations.

Fixpoint stirling_row (n : nat) : list N :=            (* [c(n,0); c(n,1); ...; c(n,n)] *)
  match n with
  | O => [1%N]
  | S n' => let r := stirling_row n' in
            map (fun p => (N.of_nat n' * fst p + snd p)%N) (combine (r ++ [0%N]) (0%N :: r))
  end.

Lemma stirling_row_length n : length (stirling_row n) = S n.
Proof.
  induction n as [|n IH]; [reflexivity|].
  cbn [stirling_row]. rewrite map_length, combine_length, app_length. cbn [length]. rewrite IH. lia.
Qed.

Lemma stirling_above n : forall k, n < k -> stirling n k = 0%N.
Proof.
  induction n as [|n IH]; intros k Hk.
  - destruct k; [lia|reflexivity].
  - destruct k as [|k]; [lia|]. cbn [stirling]. rewrite (IH (S k)), (IH k) by lia. lia.
Qed.

Lemma stirling_row_spec n : forall k, nth k (stirling_row n) 0%N = stirling n k.
Proof.
  induction n as [|n IH]; intros k.
  - destruct k as [|[|k]]; reflexivity.
  - cbn [stirling_row].
    destruct (Nat.lt_ge_cases k (S (S n))) as [Hlt|Hge].
    + assert (Hc : length (combine (stirling_row n ++ [0%N]) (0%N :: stirling_row n)) = S (S n)).
      { rewrite combine_length, app_length. cbn [length]. rewrite stirling_row_length. lia. }
      set (f := fun p : N * N => (N.of_nat n * fst p + snd p)%N).
      rewrite (nth_indep _ 0%N (f (0%N, 0%N))) by (rewrite map_length; lia).
      rewrite (map_nth f). rewrite combine_nth by (rewrite app_length; cbn [length]; rewrite stirling_row_length; lia).
      unfold f. cbn [fst snd].
      destruct k as [|k].
      * cbn [nth]. rewrite app_nth1 by (rewrite stirling_row_length; lia). rewrite IH.
        destruct n; cbn [stirling]; lia.
      * cbn [nth stirling].
        destruct (Nat.eq_dec (S k) (S n)) as [E|NE].
        -- rewrite app_nth2 by (rewrite stirling_row_length; lia). rewrite stirling_row_length.
           replace (S k - S n) with 0 by lia. cbn [nth]. rewrite IH.
           rewrite (stirling_above n (S k)) by lia. lia.
        -- rewrite app_nth1 by (rewrite stirling_row_length; lia). rewrite !IH. reflexivity.
    + rewrite nth_overflow by (rewrite map_length, combine_length, app_length; cbn [length]; rewrite stirling_row_length; lia).
      symmetry. apply stirling_above. lia.
Qed.

Definition all_transpositions_growth_fast (n : nat) : list N :=
  let r := stirling_row n in map (fun k => nth (n + 1 - k) r 0%N) (seq 1 n).

Theorem all_transpositions_growth_fast_eq n : all_transpositions_growth_fast n = all_transpositions_growth n.
Proof.
  unfold all_transpositions_growth_fast, all_transpositions_growth.
  apply map_ext. intros k. apply stirling_row_spec.
Qed.
Print Assumptions all_transpositions_growth_fast_eq.

Example fast_30_length : length (all_transpositions_growth_fast 30) = 30.
Proof. vm_compute. reflexivity. Qed.
