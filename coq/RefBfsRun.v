(** Runner for the verified reference BFS on growth-function dataset rows (C17), with the
    soundness of the boolean checks: a [true] answer means the row IS the list of sizes of the
    textbook layers of Graph.v (the distance classes, GraphProofs.ref_layers_dist). *)
From Coq Require Import ZArith List Bool Arith Lia.
Import ListNotations.
From V Require Import Base Graph Perm Matrix RefBfs RefBfsProofs.

(* how a dataset key denotes generators: one-line permutations (library convention
   apply p x = [x[p[i]]]) or n*n matrices acting on flat row-major n*m states, optional modulus *)
Inductive rb_gens :=
| RBPerm (perms : list (list nat))
| RBMatrix (modulo : Z) (n m : nat) (mats : list (list (list Z))).

Definition rb_funs (g : rb_gens) : list (zstate -> zstate) :=
  match g with
  | RBPerm perms => map (fun p => apply_perm 0%Z p) perms
  | RBMatrix modulo n m mats => map (fun M => mat_apply modulo n m M) mats
  end.

(* gc_exact = true : gc_row is claimed to be the whole growth function;
   gc_exact = false: gc_row is claimed to be its first [length gc_row] terms *)
Record growth_case := {
  gc_gens : rb_gens;
  gc_start : list Z;
  gc_exact : bool;
  gc_row : list Z
}.

Definition sizes_eqb (sizes : list nat) (row : list Z) : bool :=
  z_list_eqb (map Z.of_nat sizes) row.

Definition check_growth_exact (g : rb_gens) (start : list Z) (row : list Z) : bool :=
  match growth_fuel (rb_funs g) [start] (S (length row)) with
  | Some sizes => sizes_eqb sizes row
  | None => false
  end.

Definition check_growth_prefix (g : rb_gens) (start : list Z) (row : list Z) : bool :=
  match row with
  | [] => false
  | _ :: rest => sizes_eqb (growth_prefix (rb_funs g) [start] (length rest)) row
  end.

Definition check_growth_case (c : growth_case) : bool :=
  if gc_exact c then check_growth_exact (gc_gens c) (gc_start c) (gc_row c)
  else check_growth_prefix (gc_gens c) (gc_start c) (gc_row c).

(* ------------------------------------------------------------------------------------------- *)
Lemma z_list_eqb_eq : forall a b, z_list_eqb a b = true -> a = b.
Proof.
  unfold z_list_eqb. induction a as [|x a IH]; intros [|y b]; simpl; intros H; try discriminate; auto.
  apply andb_true_iff in H. destruct H as [H1 H2]. apply Z.eqb_eq in H1. subst y.
  f_equal. apply IH. exact H2.
Qed.

Lemma sizes_eqb_eq sizes row : sizes_eqb sizes row = true -> row = map Z.of_nat sizes.
Proof. intros H. symmetry. apply z_list_eqb_eq. exact H. Qed.

Section Sound.
  Variable g : rb_gens.
  Variable start : list Z.
  Local Notation layer := (Graph.layer zstate zstate_eq_dec (rb_funs g) [start]).

  (* the row is exactly the growth function: its terms are the layer sizes, no layer before
     its end is empty, and the layer after its end is empty (so nothing else is reachable) *)
  Theorem check_growth_exact_sound (row : list Z) :
    check_growth_exact g start row = true ->
    row = map (fun i => Z.of_nat (length (layer i))) (seq 0 (length row)) /\
    layer (length row) = [] /\
    (forall i, (i < length row)%nat -> layer i <> []).
  Proof.
    unfold check_growth_exact. intros H.
    destruct (growth_fuel (rb_funs g) [start] (S (length row))) as [sizes|] eqn:E; [|discriminate].
    apply sizes_eqb_eq in H.
    destruct (growth_correct (rb_funs g) [start] _ sizes E) as (Hs & He & Hne).
    assert (Hlen : length row = length sizes) by (rewrite H, map_length; reflexivity).
    rewrite Hlen. split; [|split; assumption].
    rewrite H. rewrite Hs at 1. rewrite map_map. reflexivity.
  Qed.

  Theorem check_growth_prefix_sound (row : list Z) :
    check_growth_prefix g start row = true ->
    row = map (fun i => Z.of_nat (length (layer i))) (seq 0 (length row)).
  Proof.
    unfold check_growth_prefix. destruct row as [|r rest]; [discriminate|]. intros H.
    apply sizes_eqb_eq in H. rewrite growth_prefix_correct in H.
    rewrite map_map in H. exact H.
  Qed.
End Sound.
