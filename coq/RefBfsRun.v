(** Runner for the verified reference BFS on growth-function dataset rows (C17), with the
    soundness of the boolean checks: a [true] answer means the row IS the list of sizes of the
    textbook layers of Graph.v (the distance classes, GraphProofs.ref_layers_dist). *)
From Coq Require Import ZArith List Bool Arith Lia.
Import ListNotations.
From V Require Import Base W64 W64Proofs Graph Perm Matrix RefBfs RefBfsProofs.
Local Open Scope nat_scope.   (* Matrix.v opens Z_scope for its importers *)

(* how a dataset key denotes generators: one-line permutations (library convention
   apply p x = [x[p[i]]]) or n*n matrices acting on flat row-major n*m states, optional modulus *)
Inductive rb_gens :=
| RBPerm (perms : list (list nat))
| RBMatrix (modulo : Z) (n m : nat) (mats : list (list (list Z))).

(* ---- a faster matrix action: the columns of the state are extracted once per application
   instead of one [nth] per term; proved below to be Matrix.mat_apply on well-shaped generators ---- *)
Fixpoint stride (m n : nat) (S : list Z) : list Z :=
  match n with
  | O => []
  | Datatypes.S n' => nth 0 S 0%Z :: stride m n' (skipn m S)
  end.

Definition columns (n m : nat) (S : list Z) : list (list Z) :=
  map (fun k => stride m n (skipn k S)) (seq 0 m).

(* int64 wrap-around that costs a comparison when nothing wraps (a 64-bit division otherwise) *)
Definition wrap_fast (z : Z) : Z :=
  if ((- two63 <=? z) && (z <? two63))%Z then z else wrap z.

Definition dot_mod_fast (modulo : Z) (terms : list (Z * Z)) : Z :=
  if (0 <? modulo)%Z
  then (wrap_fast (zsum (map (fun '(a, b) => (wrap_fast (a * b) mod modulo)%Z) terms)) mod modulo)%Z
  else wrap_fast (zsum (map (fun '(a, b) => (a * b)%Z) terms)).

Definition mat_apply_fast (modulo : Z) (n m : nat) (M : list (list Z)) (S : list Z) : list Z :=
  let cols := columns n m S in
  flat_map (fun Mi => map (fun col => dot_mod_fast modulo (combine Mi col)) cols) M.

(* what is executed *)
Definition rb_funs (g : rb_gens) : list (zstate -> zstate) :=
  match g with
  | RBPerm perms => map (fun p => apply_perm 0%Z p) perms
  | RBMatrix modulo n m mats => map (fun M => mat_apply_fast modulo n m M) mats
  end.

(* what it denotes: the models of the library's generator actions (Perm.v, Matrix.v) *)
Definition rb_funs_spec (g : rb_gens) : list (zstate -> zstate) :=
  match g with
  | RBPerm perms => map (fun p => apply_perm 0%Z p) perms
  | RBMatrix modulo n m mats => map (fun M => mat_apply modulo n m M) mats
  end.

(* every matrix generator is n*n *)
Definition rb_wf (g : rb_gens) : bool :=
  match g with
  | RBPerm _ => true
  | RBMatrix _ n _ mats =>
      forallb (fun M => (length M =? n) && forallb (fun r : list Z => length r =? n) M) mats
  end.

(* gc_exact = true : gc_row is claimed to be the whole growth function;
   gc_exact = false: gc_row is claimed to be its first [length gc_row] terms *)
Record growth_case := {
  gc_gens : rb_gens;
  gc_start : list Z;
  gc_exact : bool;
  gc_row : list Z
}.

Definition sizes_eqb (sizes : list nat) (row : list Z) : bool :=
  z_list_eqb (map Z.of_nat sizes) row.

Definition check_growth_exact (g : rb_gens) (start : list Z) (row : list Z) : bool :=
  rb_wf g &&
  match growth_fuel (rb_funs g) [start] (S (length row)) with
  | Some sizes => sizes_eqb sizes row
  | None => false
  end.

Definition check_growth_prefix (g : rb_gens) (start : list Z) (row : list Z) : bool :=
  rb_wf g &&
  match row with
  | [] => false
  | _ :: rest => sizes_eqb (growth_prefix (rb_funs g) [start] (length rest)) row
  end.

Definition check_growth_case (c : growth_case) : bool :=
  if gc_exact c then check_growth_exact (gc_gens c) (gc_start c) (gc_row c)
  else check_growth_prefix (gc_gens c) (gc_start c) (gc_row c).

(* ------------------------------------------------------------------------------------------- *)
Lemma z_list_eqb_eq : forall a b, z_list_eqb a b = true -> a = b.
Proof.
  unfold z_list_eqb. induction a as [|x a IH]; intros [|y b]; simpl; intros H; try discriminate; auto.
  apply andb_true_iff in H. destruct H as [H1 H2]. apply Z.eqb_eq in H1. subst y.
  f_equal. apply IH. exact H2.
Qed.

Lemma sizes_eqb_eq sizes row : sizes_eqb sizes row = true -> row = map Z.of_nat sizes.
Proof. intros H. symmetry. apply z_list_eqb_eq. exact H. Qed.

(* ---- the fast matrix action is Matrix.mat_apply ---- *)
Lemma nth_skipn_add {A} (d : A) : forall k l i, nth i (skipn k l) d = nth (k + i) l d.
Proof.
  induction k as [|k IH]; intros l i; simpl; auto.
  destruct l as [|a l]; simpl; auto. destruct i; reflexivity.
Qed.

Lemma map_nth_seq_id {A} (d : A) : forall l, map (fun i => nth i l d) (seq 0 (length l)) = l.
Proof.
  induction l as [|a l IH]; simpl; auto. f_equal.
  rewrite <- seq_shift, map_map. exact IH.
Qed.

Lemma combine_map_same {A B C} (f : A -> B) (h : A -> C) : forall l,
  combine (map f l) (map h l) = map (fun x => (f x, h x)) l.
Proof. induction l as [|a l IH]; simpl; auto. f_equal. exact IH. Qed.

Lemma flat_map_map_r {A B C} (f : B -> list C) (h : A -> B) : forall l,
  flat_map f (map h l) = flat_map (fun x => f (h x)) l.
Proof. induction l as [|a l IH]; simpl; auto. f_equal. exact IH. Qed.

Lemma flat_map_ext_in {A B} (f h : A -> list B) : forall l,
  (forall a, In a l -> f a = h a) -> flat_map f l = flat_map h l.
Proof.
  induction l as [|a l IH]; intros H; simpl; auto.
  rewrite (H a (or_introl eq_refl)), IH; auto. intros b Hb. apply H. right. exact Hb.
Qed.

Lemma stride_spec m : forall n S, stride m n S = map (fun j => nth (j * m) S 0%Z) (seq 0 n).
Proof.
  induction n as [|n IH]; intros S; simpl; auto. f_equal.
  rewrite IH, <- seq_shift, map_map. apply map_ext. intros j.
  rewrite nth_skipn_add. reflexivity.
Qed.

Lemma wrap_fast_eq z : wrap_fast z = wrap z.
Proof.
  unfold wrap_fast. destruct ((- two63 <=? z) && (z <? two63))%Z eqn:E; auto.
  apply andb_true_iff in E. destruct E as [E1 E2].
  apply Z.leb_le in E1. apply Z.ltb_lt in E2.
  symmetry. apply wrap_id. unfold in64. split; assumption.
Qed.

Lemma dot_mod_fast_eq modulo terms : dot_mod_fast modulo terms = dot_mod modulo terms.
Proof.
  unfold dot_mod_fast, dot_mod. destruct (0 <? modulo)%Z.
  - rewrite wrap_fast_eq. do 3 f_equal. apply map_ext. intros [a b]. rewrite wrap_fast_eq. reflexivity.
  - apply wrap_fast_eq.
Qed.

Theorem mat_apply_fast_eq modulo n m M S :
  length M = n -> (forall r, In r M -> length r = n) ->
  mat_apply_fast modulo n m M S = mat_apply modulo n m M S.
Proof.
  intros HM Hrows. subst n. unfold mat_apply, mat_apply_fast, columns.
  assert (E : forall F : list Z -> list Z,
             flat_map (fun i => F (nth i M [])) (seq 0 (length M)) = flat_map F M).
  { intros F. rewrite <- (flat_map_map_r F (fun i => nth i M [])), map_nth_seq_id. reflexivity. }
  etransitivity; [|symmetry; apply (E (fun Mi => map (fun k => dot_mod modulo
      (map (fun j => (nth j Mi 0%Z, mat_entry m S j k)) (seq 0 (length M)))) (seq 0 m)))].
  apply flat_map_ext_in. intros Mi HMi. rewrite map_map. apply map_ext. intros k.
  rewrite dot_mod_fast_eq. f_equal.
  rewrite stride_spec.
  transitivity (combine (map (fun j => nth j Mi 0%Z) (seq 0 (length M)))
                        (map (fun j => nth (j * m) (skipn k S) 0%Z) (seq 0 (length M)))).
  - f_equal. rewrite <- (Hrows Mi HMi). symmetry. apply map_nth_seq_id.
  - rewrite combine_map_same. apply map_ext. intros j. f_equal.
    unfold mat_entry. rewrite nth_skipn_add. f_equal. apply Nat.add_comm.
Qed.

(* pointwise equal generator lists have the same reference layers *)
Definition peq (f h : zstate -> zstate) : Prop := forall x, f x = h x.

Lemma N_peq gens gens' : Forall2 peq gens gens' ->
  forall l, Graph.N zstate gens l = Graph.N zstate gens' l.
Proof.
  intros H l. unfold Graph.N. apply flat_map_ext. intros x.
  induction H as [|f h gens gens' Hfh _ IH]; simpl; auto. rewrite Hfh, IH. reflexivity.
Qed.

Lemma ref_layers_peq gens gens' : Forall2 peq gens gens' ->
  forall S i, Graph.ref_layers zstate zstate_eq_dec gens S i = Graph.ref_layers zstate zstate_eq_dec gens' S i.
Proof.
  intros H S i. induction i as [|i IH]; simpl; auto.
  rewrite IH. destruct (Graph.ref_layers zstate zstate_eq_dec gens' S i) as [lj seen].
  rewrite (N_peq gens gens' H). reflexivity.
Qed.

Lemma layer_peq gens gens' : Forall2 peq gens gens' ->
  forall S i, Graph.layer zstate zstate_eq_dec gens S i = Graph.layer zstate zstate_eq_dec gens' S i.
Proof. intros H S i. unfold Graph.layer. rewrite (ref_layers_peq gens gens' H). reflexivity. Qed.

Lemma rb_funs_peq g : rb_wf g = true -> Forall2 peq (rb_funs g) (rb_funs_spec g).
Proof.
  destruct g as [perms | modulo n m mats]; simpl; intros Hwf.
  - induction perms as [|p perms IH]; simpl; constructor; auto. intros x. reflexivity.
  - induction mats as [|M mats IH]; simpl in *; constructor.
    + apply andb_true_iff in Hwf. destruct Hwf as [HM _].
      apply andb_true_iff in HM. destruct HM as [Hlen Hrows].
      intros x. apply mat_apply_fast_eq.
      * apply Nat.eqb_eq. exact Hlen.
      * intros r Hr. rewrite forallb_forall in Hrows. apply Nat.eqb_eq. apply Hrows. exact Hr.
    + apply IH. apply andb_true_iff in Hwf. destruct Hwf as [_ H]. exact H.
Qed.

Section Sound.
  Variable g : rb_gens.
  Variable start : list Z.
  Local Notation layer := (Graph.layer zstate zstate_eq_dec (rb_funs_spec g) [start]).

  (* the row is exactly the growth function: its terms are the layer sizes, no layer before
     its end is empty, and the layer after its end is empty (so nothing else is reachable) *)
  Theorem check_growth_exact_sound (row : list Z) :
    check_growth_exact g start row = true ->
    row = map (fun i => Z.of_nat (length (layer i))) (seq 0 (length row)) /\
    layer (length row) = [] /\
    (forall i, (i < length row)%nat -> layer i <> []).
  Proof.
    unfold check_growth_exact. intros H. apply andb_true_iff in H. destruct H as [Hwf H].
    pose proof (layer_peq _ _ (rb_funs_peq g Hwf) [start]) as Hl.
    destruct (growth_fuel (rb_funs g) [start] (S (length row))) as [sizes|] eqn:E; [|discriminate].
    apply sizes_eqb_eq in H.
    destruct (growth_correct (rb_funs g) [start] _ sizes E) as (Hs & He & Hne).
    assert (Hlen : length row = length sizes) by (rewrite H, map_length; reflexivity).
    rewrite Hlen. split; [|split].
    - rewrite H. rewrite Hs at 1. rewrite map_map. apply map_ext. intros i. rewrite Hl. reflexivity.
    - rewrite <- Hl. exact He.
    - intros i Hi. rewrite <- Hl. apply Hne. exact Hi.
  Qed.

  Theorem check_growth_prefix_sound (row : list Z) :
    check_growth_prefix g start row = true ->
    row = map (fun i => Z.of_nat (length (layer i))) (seq 0 (length row)).
  Proof.
    unfold check_growth_prefix. intros H. apply andb_true_iff in H. destruct H as [Hwf H].
    pose proof (layer_peq _ _ (rb_funs_peq g Hwf) [start]) as Hl.
    destruct row as [|r rest]; [discriminate|].
    apply sizes_eqb_eq in H. rewrite growth_prefix_correct in H.
    rewrite map_map in H. rewrite H at 1. apply map_ext. intros i. rewrite Hl. reflexivity.
  Qed.
End Sound.
