(** C13 at full strength, part 1 and 2 (extends Convert.v / ConvertProofs.v, which are not modified).

    A1.  NARROW integer arithmetic.  [StringEncoder.encode] computes
            encoded[:, i//64] |= ((s[:, i//w] >> (i%w)) & 1) << (i%64)
         in the dtype OF ITS INPUT [s].  [CayleyGraph.encode_states] first casts the states to int64
         ([torch.as_tensor(states).to(torch.int64)]), so that the dtype is always int64.  [encode_in d]
         is what the encoder WOULD compute on an input of dtype [d]:
           - [encode_in I64 = encode]                               (what the library does; unconditional)
           - [encode_in d = encode] when the whole code fits d      (n*w <= value_bits d: no harm)
           - [encode_in d <> encode] on concrete in-range states as soon as n*w = value_bits d + 1,
             and in general for EVERY shape (w, n) with 1 <= w <= value_bits d (symbols fit the dtype)
             and n*w > value_bits d  (so the cast is NECESSARY and the bound of the second statement is
             exact: [encode_in_harmless_iff]).

    A2.  Container forms.  A user hands states over as a flat list, a batch of rows, a batch of
         matrix-shaped states, a single matrix-shaped state, or (central state only) a string of
         digits; as a Python list (int64), or an array / tensor of any integer dtype.  [normalize_states]
         models [encode_states]' conversion (as_tensor -> int64 -> reshape(-1, state_size)) on such a
         container, [normalize_central] models [CayleyGraphDef.normalize_central_state].

    A3.  Entry points.  The schema [entry_container_independent]: every function of the normalised batch
         composed with the conversion gives the same result for every container form and dtype.  Its
         instances for the modelled entry points (bfs, apply_path, get_neighbors, find_path, path
         queries, central state) are in ConvertEntry.v. *)
From Coq Require Import String Ascii.
From Coq Require Import ZArith List Bool Arith Lia.
From V Require Import Base W64 W64Proofs PermProofs Codec CodecBits CodecProofs Convert ConvertProofs.
Import ListNotations.
Open Scope Z_scope.

(* ====================================================================== *)
(** * A1. Narrow integer arithmetic *)

(* two's complement (unsigned for U8) wrap-around to the width of dtype d *)
Definition wrap_to (d : dtype) (z : Z) : Z := store_as d z.

Definition bits (d : dtype) : nat :=
  match d with I8 => 8 | I16 => 16 | I32 => 32 | I64 => 64 | U8 => 8 end%nat.
(* number of VALUE bits: bits without the sign bit *)
Definition value_bits (d : dtype) : nat :=
  match d with I8 => 7 | I16 => 15 | I32 => 31 | I64 => 63 | U8 => 8 end%nat.
Definition is_signed (d : dtype) : bool := match d with U8 => false | _ => true end.

Definition in_dt (d : dtype) (z : Z) : Prop := dt_min d <= z <= dt_max d.

Lemma value_bits_bits d : value_bits d = (if is_signed d then bits d - 1 else bits d)%nat.
Proof. destruct d; reflexivity. Qed.

Lemma dt_max_pow d : dt_max d = 2 ^ Z.of_nat (value_bits d) - 1.
Proof. destruct d; reflexivity. Qed.

Lemma dt_min_pow d : dt_min d = if is_signed d then - 2 ^ Z.of_nat (value_bits d) else 0.
Proof. destruct d; reflexivity. Qed.

Lemma dt_card_pos d : 0 < dt_card d.
Proof. destruct d; reflexivity. Qed.

Lemma dt_card_pow d : dt_card d = 2 ^ Z.of_nat (bits d).
Proof. destruct d; reflexivity. Qed.

Lemma wrap_to_range d z : in_dt d (wrap_to d z).
Proof.
  unfold in_dt, wrap_to, store_as. pose proof (dt_card_pos d) as Hc.
  pose proof (Z.mod_pos_bound (z - dt_min d) (dt_card d) Hc) as Hm.
  unfold dt_card in *. lia.
Qed.

Lemma wrap_to_id d z : in_dt d z -> wrap_to d z = z.
Proof.
  unfold in_dt, wrap_to, store_as. intros H.
  rewrite Z.mod_small; [lia|]. unfold dt_card. lia.
Qed.

Lemma wrap_to_idem d z : wrap_to d (wrap_to d z) = wrap_to d z.
Proof. apply wrap_to_id, wrap_to_range. Qed.

(* the wrap is a congruence modulo 2^bits *)
Lemma wrap_to_congr d z : (wrap_to d z) mod 2 ^ Z.of_nat (bits d) = z mod 2 ^ Z.of_nat (bits d).
Proof.
  rewrite <- dt_card_pow. unfold wrap_to, store_as.
  pose proof (dt_card_pos d) as Hc.
  rewrite Zplus_mod, Zmod_mod, <- Zplus_mod. f_equal. lia.
Qed.

Lemma wrap_to_I64 z : wrap_to I64 z = wrap z.
Proof. unfold wrap_to, store_as, wrap, dt_card, dt_min, dt_max, two63, two64. lia. Qed.

Lemma in_dt_I64 z : in_dt I64 z <-> in64 z.
Proof. unfold in_dt, in64, dt_min, dt_max, two63. lia. Qed.

(* a value is in the range [-2^k, 2^k) iff its arithmetic shift by k is 0 or -1 *)
Lemma signed_range_shiftr k a : 0 <= k -> (- 2 ^ k <= a < 2 ^ k <-> Z.shiftr a k = 0 \/ Z.shiftr a k = -1).
Proof.
  intros Hk. rewrite Z.shiftr_div_pow2 by exact Hk.
  assert (0 < 2 ^ k) as Hp by (apply Z.pow_pos_nonneg; lia).
  set (p := 2 ^ k) in *. clearbody p.
  pose proof (Z.div_mod a p ltac:(lia)) as Hd. pose proof (Z.mod_pos_bound a p Hp) as Hm.
  set (q := a / p) in *. set (r := a mod p) in *. clearbody q r. nia.
Qed.

Lemma unsigned_range_shiftr k a : 0 <= k -> (0 <= a < 2 ^ k <-> Z.shiftr a k = 0).
Proof.
  intros Hk. rewrite Z.shiftr_div_pow2 by exact Hk.
  assert (0 < 2 ^ k) as Hp by (apply Z.pow_pos_nonneg; lia).
  set (p := 2 ^ k) in *. clearbody p.
  pose proof (Z.div_mod a p ltac:(lia)) as Hd. pose proof (Z.mod_pos_bound a p Hp) as Hm.
  set (q := a / p) in *. set (r := a mod p) in *. clearbody q r. nia.
Qed.

Lemma in_dt_shiftr d a :
  in_dt d a <-> (Z.shiftr a (Z.of_nat (value_bits d)) = 0 \/
                 (is_signed d = true /\ Z.shiftr a (Z.of_nat (value_bits d)) = -1)).
Proof.
  unfold in_dt. rewrite dt_max_pow, dt_min_pow.
  pose proof (signed_range_shiftr (Z.of_nat (value_bits d)) a ltac:(lia)) as HS.
  pose proof (unsigned_range_shiftr (Z.of_nat (value_bits d)) a ltac:(lia)) as HU.
  destruct (is_signed d).
  - split; [intros H; assert (Hr : - 2 ^ Z.of_nat (value_bits d) <= a < 2 ^ Z.of_nat (value_bits d)) by lia;
            apply HS in Hr; destruct Hr; auto|].
    intros H. assert (Hr : Z.shiftr a (Z.of_nat (value_bits d)) = 0 \/ Z.shiftr a (Z.of_nat (value_bits d)) = -1)
      by (destruct H as [H|[_ H]]; auto).
    apply HS in Hr. lia.
  - split; [intros H; left; apply HU; lia|].
    intros [H|[H _]]; [|discriminate]. apply HU in H. lia.
Qed.

(* the range of every dtype is closed under bitwise OR: the OR of two d-values never needs wrapping *)
Lemma lor_in_dt d a b : in_dt d a -> in_dt d b -> in_dt d (Z.lor a b).
Proof.
  rewrite !in_dt_shiftr, Z.shiftr_lor.
  intros [Ha|[Hs Ha]] [Hb|[Hs' Hb]]; rewrite Ha, Hb; cbn; auto.
Qed.

(* the operations of dtype d *)
Definition shl_in (d : dtype) (x k : Z) : Z := wrap_to d (Z.shiftl x k).
Definition or_in (d : dtype) (x y : Z) : Z := wrap_to d (Z.lor x y).

Definition term_in (d : dtype) (w : nat) (s : list Z) (i : nat) : Z :=
  shl_in d (w_and (w_sar (nth (i / w) s 0) (Z.of_nat (i mod w))) 1) (Z.of_nat (i mod CL)).

(* StringEncoder.encode with every shift and OR computed in dtype d *)
Definition encode_in (d : dtype) (w n : nat) (s : list Z) : list Z :=
  fold_left (fun enc i =>
     let c := (i / CL)%nat in
     upd enc c (or_in d (nth c enc 0)
                       (shl_in d (w_and (w_sar (nth (i / w) s 0) (Z.of_nat (i mod w))) 1) (Z.of_nat (i mod CL)))))
    (seq 0 (w * n)) (repeat 0 (encoded_length w n)).

(* what torch really does on a narrow input: the shifts are computed in dtype d, the result is
   promoted (sign / zero extended: the value is kept) and OR-ed into the int64 accumulator *)
Definition encode_mix (d : dtype) (w n : nat) (s : list Z) : list Z :=
  orfold (fun i => (i / CL)%nat) (fun i => to_int64 d (term_in d w s i)) (seq 0 (w * n)) (repeat 0 (encoded_length w n)).

Lemma Forall_in_dt_nth d l i : Forall (in_dt d) l -> in_dt d (nth i l 0).
Proof.
  intros H. destruct (Nat.lt_ge_cases i (length l)) as [Hi|Hi].
  - rewrite Forall_forall in H. apply H. apply nth_In. exact Hi.
  - rewrite nth_overflow by exact Hi. destruct d; unfold in_dt; cbn; lia.
Qed.

Lemma in_dt_0 d : in_dt d 0.
Proof. destruct d; unfold in_dt; cbn; lia. Qed.

(* the two narrow models coincide: whether the OR is done in d or in int64 makes no difference *)
Theorem encode_in_eq_mix d w n s : encode_in d w n s = encode_mix d w n s.
Proof.
  unfold encode_in, encode_mix, orfold.
  assert (Forall (in_dt d) (repeat 0 (encoded_length w n))) as Hinit
    by (apply Forall_repeat, in_dt_0).
  revert Hinit. generalize (repeat 0 (encoded_length w n)) as init. generalize (seq 0 (w * n)) as l.
  induction l as [|i l IH]; intros init Hinit; [reflexivity|].
  cbn [fold_left]. cbv zeta.
  assert (or_in d (nth (i / CL) init 0)
            (shl_in d (w_and (w_sar (nth (i / w) s 0) (Z.of_nat (i mod w))) 1) (Z.of_nat (i mod CL)))
          = Z.lor (nth (i / CL) init 0) (to_int64 d (term_in d w s i))) as E.
  { unfold or_in, to_int64, term_in. apply wrap_to_id. apply lor_in_dt.
    - apply Forall_in_dt_nth. exact Hinit.
    - apply wrap_to_range. }
  rewrite E. apply IH. apply Forall_upd; [exact Hinit|].
  apply lor_in_dt; [apply Forall_in_dt_nth; exact Hinit|apply wrap_to_range].
Qed.

Lemma orfold_ext {A} (idx : A -> nat) g g' l init :
  (forall a, In a l -> g a = g' a) -> orfold idx g l init = orfold idx g' l init.
Proof.
  unfold orfold. revert init. induction l as [|a l IH]; intros init H; [reflexivity|].
  cbn [fold_left]. rewrite (H a) by (left; reflexivity). apply IH. intros a' Ha'. apply H. right. exact Ha'.
Qed.

(** (i) the library's case: after the cast the dtype is int64 and the narrow model IS the encoder.
    No hypothesis on the states is needed. *)
Theorem encode_in_I64 w n s : encode_in I64 w n s = encode w n s.
Proof.
  rewrite encode_in_eq_mix, encode_orfold. unfold encode_mix. apply orfold_ext.
  intros i _. unfold to_int64, term_in, enc_term, shl_in, w_shl. apply wrap_to_I64.
Qed.

(* what encode_states computes for an input of dtype d: cast first, then encode *)
Definition lib_encode (d : dtype) (w n : nat) (stored : list Z) : list Z :=
  encode_in I64 w n (map (to_int64 d) stored).

Corollary lib_encode_spec d w n s :
  Forall (in_dt d) s -> lib_encode d w n (map (store_as d) s) = encode w n s.
Proof.
  intros H. unfold lib_encode. rewrite encode_in_I64. f_equal. rewrite map_map.
  rewrite <- (map_id s) at 2. apply map_ext_in. intros v Hv. apply dtype_roundtrip.
  rewrite Forall_forall in H. apply (H v Hv).
Qed.

Lemma land_1_bit x : Z.land x 1 = 0 \/ Z.land x 1 = 1.
Proof.
  change 1 with (Z.ones 1) at 1 2. rewrite Z.land_ones by lia.
  pose proof (Z.mod_pos_bound x (2 ^ 1) ltac:(reflexivity)) as H. change (2 ^ 1) with 2 in *. lia.
Qed.

(* one shifted bit below the value bits of d is computed alike in d and in int64 *)
Lemma term_in_small d w s i :
  (i mod CL < value_bits d)%nat -> term_in d w s i = enc_term w s i.
Proof.
  intros Hi. unfold term_in, enc_term, shl_in, w_shl, w_and, w_sar.
  set (x := Z.shiftr _ _). set (k := Z.of_nat (i mod CL)).
  assert (0 <= k < Z.of_nat (value_bits d)) as Hk by (unfold k; lia).
  assert (Z.of_nat (value_bits d) <= 63) as Hv by (destruct d; cbn; lia).
  rewrite Z.shiftl_mul_pow2 by lia.
  assert (0 < 2 ^ k) as Hp by (apply Z.pow_pos_nonneg; lia).
  assert (2 ^ k < 2 ^ Z.of_nat (value_bits d)) as Hlt by (apply Z.pow_lt_mono_r; lia).
  assert (2 ^ Z.of_nat (value_bits d) <= 2 ^ 63) as Hle by (apply Z.pow_le_mono_r; lia).
  assert (0 <= Z.land x 1 * 2 ^ k < 2 ^ Z.of_nat (value_bits d)) as Hr
    by (destruct (land_1_bit x) as [E|E]; rewrite E; lia).
  rewrite wrap_to_id, wrap_id; [reflexivity| |].
  - unfold in64. rewrite two63_eq. lia.
  - unfold in_dt. rewrite dt_max_pow, dt_min_pow. destruct (is_signed d); lia.
Qed.

(** (ii) a narrow dtype does no harm when the whole code fits its value bits:
         n*w <= 7 (int8), 15 (int16), 31 (int32), 63 (int64), 8 (uint8).
    No hypothesis on the states.  The bound is exact: see [encode_in_refuted_*] (n*w = bound + 1)
    and [encode_in_bound_exact] (every shape above the bound). *)
Theorem encode_in_fits d w n s :
  (n * w <= value_bits d)%nat -> encode_in d w n s = encode w n s.
Proof.
  intros Hfit. rewrite encode_in_eq_mix, encode_orfold. unfold encode_mix. apply orfold_ext.
  intros i Hi. apply in_seq in Hi. unfold to_int64. apply term_in_small.
  assert (value_bits d <= 63)%nat as Hv by (destruct d; cbn; lia).
  unfold CL. rewrite Nat.mod_small by lia. lia.
Qed.

(* the statement asked for: signed narrow types with n*w <= bits - 1 *)
Corollary encode_in_fits_signed d w n s :
  is_signed d = true -> (n * w <= bits d - 1)%nat -> encode_in d w n s = encode w n s.
Proof. intros Hs H. apply encode_in_fits. rewrite value_bits_bits, Hs. exact H. Qed.

Corollary encode_in_fits_unsigned w n s : (n * w <= 8)%nat -> encode_in U8 w n s = encode w n s.
Proof. intros H. apply encode_in_fits. exact H. Qed.

(** (iii) refutations by computation: in-range states (below 2^w, inside the dtype) on which the narrow
    encoder differs from the int64 one.  First exactly one bit above the bound of (ii) ... *)
Example encode_in_refuted_I8 :
  let s := [0;0;0;0;0;0;0;1] in
  encodable 1 s = true /\ Forall (in_dt I8) s /\ (8 * 1 = value_bits I8 + 1)%nat /\
  encode 1 8 s = [128] /\ encode_in I8 1 8 s = [-128].
Proof.
  cbv zeta. split; [vm_compute; reflexivity|]. split; [repeat constructor; unfold in_dt; cbn; lia|].
  split; [reflexivity|]. split; vm_compute; reflexivity.
Qed.

Example encode_in_refuted_U8 :
  let s := [0;0;0;0;0;0;0;0;1] in
  encodable 1 s = true /\ Forall (in_dt U8) s /\ (9 * 1 = value_bits U8 + 1)%nat /\
  encode 1 9 s = [256] /\ encode_in U8 1 9 s = [0].
Proof.
  cbv zeta. split; [vm_compute; reflexivity|]. split; [repeat constructor; unfold in_dt; cbn; lia|].
  split; [reflexivity|]. split; vm_compute; reflexivity.
Qed.

Example encode_in_refuted_I16 :
  let s := [0;0;0;0;0;0;0;2] in
  encodable 2 s = true /\ Forall (in_dt I16) s /\ (8 * 2 = value_bits I16 + 1)%nat /\
  encode 2 8 s = [32768] /\ encode_in I16 2 8 s = [-32768].
Proof.
  cbv zeta. split; [vm_compute; reflexivity|]. split; [repeat constructor; unfold in_dt; cbn; lia|].
  split; [reflexivity|]. split; vm_compute; reflexivity.
Qed.

Example encode_in_refuted_I32 :
  let s := [0;0;0;0;0;0;0;8] in
  encodable 4 s = true /\ Forall (in_dt I32) s /\ (8 * 4 = value_bits I32 + 1)%nat /\
  encode 4 8 s = [2147483648] /\ encode_in I32 4 8 s = [-2147483648].
Proof.
  cbv zeta. split; [vm_compute; reflexivity|]. split; [repeat constructor; unfold in_dt; cbn; lia|].
  split; [reflexivity|]. split; vm_compute; reflexivity.
Qed.

(* ... then with n*w > bits(d): a permutation of 16 elements, 4 bits each, held in an int8 / uint8 /
   int16 / int32 array (every entry fits every one of these types) *)
Definition perm16 : list Z := [15;14;13;12;11;10;9;8;7;6;5;4;3;2;1;0].

Theorem encode_in_refuted :
  encodable 4 perm16 = true /\
  (forall d, Forall (in_dt d) perm16) /\
  (forall d, d <> I64 -> (16 * 4 > bits d)%nat /\ encode_in d 4 16 perm16 <> encode 4 16 perm16) /\
  encode_in I64 4 16 perm16 = encode 4 16 perm16.
Proof.
  split; [reflexivity|]. split; [intros d; destruct d; repeat constructor; cbn; lia|].
  split; [|apply encode_in_I64].
  intros d Hd. destruct d; try (exfalso; apply Hd; reflexivity); (split; [cbn; lia|vm_compute; discriminate]).
Qed.

(** The bound of (ii) is exact, for EVERY shape: whenever the symbols fit the dtype (1 <= w <= value_bits d)
    and the code does not (n*w > value_bits d), some state - with entries below 2^w and inside the dtype -
    is encoded differently by the narrow arithmetic. *)
Definition onebit (w n p : nat) : list Z := upd (repeat 0 n) (p / w) (2 ^ Z.of_nat (p mod w)).

Lemma onebit_testbit w n p e :
  (1 <= w)%nat -> (p < n * w)%nat ->
  Z.testbit (nth (e / w) (onebit w n p) 0) (Z.of_nat (e mod w)) = (e =? p)%nat.
Proof.
  intros Hw Hp. unfold onebit.
  assert (p / w < n)%nat as Hq by (apply div_lt_of_lt_mul; exact Hp).
  pose proof (div_mod_recompose e w ltac:(lia)) as He. pose proof (div_mod_recompose p w ltac:(lia)) as Hp'.
  destruct (Nat.eq_dec (p / w) (e / w)) as [Eq|Ne].
  - rewrite <- Eq. rewrite nth_upd_same by (rewrite repeat_length; exact Hq).
    rewrite Z.pow2_bits_eqb by lia.
    destruct (Nat.eqb_spec e p) as [->|Hne]; [apply Z.eqb_refl|].
    apply Z.eqb_neq. intros Hm. apply Hne. rewrite <- He, <- Hp', Eq. f_equal. lia.
  - rewrite nth_upd_other by exact Ne. rewrite nth_repeat0, Z.bits_0.
    destruct (Nat.eqb_spec e p) as [->|Hne]; [contradiction Ne; reflexivity|reflexivity].
Qed.

Lemma onebit_term d w n p :
  (1 <= w)%nat -> (p < n * w)%nat -> (p < 64)%nat ->
  term_in d w (onebit w n p) p = wrap_to d (2 ^ Z.of_nat p).
Proof.
  intros Hw Hp H64. unfold term_in, shl_in, w_and, w_sar, onebit.
  assert (p / w < n)%nat as Hq by (apply div_lt_of_lt_mul; exact Hp).
  rewrite nth_upd_same by (rewrite repeat_length; exact Hq).
  rewrite Z.shiftr_div_pow2 by lia. rewrite Z.div_same by (apply Z.pow_nonzero; lia).
  change (Z.land 1 1) with 1. unfold CL. rewrite Nat.mod_small by exact H64.
  rewrite Z.shiftl_1_l. reflexivity.
Qed.

Lemma onebit_props d w n p :
  (1 <= w <= value_bits d)%nat -> (p < n * w)%nat ->
  length (onebit w n p) = n /\ encodable w (onebit w n p) = true /\ Forall (in_dt d) (onebit w n p).
Proof.
  intros Hw Hp. unfold onebit. split; [rewrite upd_length; apply repeat_length|].
  assert (0 < w)%nat as Hw0 by lia. pose proof (Nat.mod_upper_bound p w ltac:(lia)) as Hm.
  assert (0 < 2 ^ Z.of_nat (p mod w)) as Hpos by (apply Z.pow_pos_nonneg; lia).
  assert (2 ^ Z.of_nat (p mod w) < 2 ^ Z.of_nat w) as Hlt by (apply Z.pow_lt_mono_r; lia).
  assert (2 ^ Z.of_nat w <= 2 ^ Z.of_nat (value_bits d)) as Hle by (apply Z.pow_le_mono_r; lia).
  split.
  - unfold encodable. apply forallb_forall. apply Forall_forall. apply Forall_upd.
    + apply Forall_repeat. assert (0 < 2 ^ Z.of_nat w) by (apply Z.pow_pos_nonneg; lia).
      apply andb_true_iff. split; [reflexivity|apply Z.ltb_lt; lia].
    + apply andb_true_iff. split; [apply Z.leb_le; lia|apply Z.ltb_lt; exact Hlt].
  - apply Forall_upd; [apply Forall_repeat, in_dt_0|].
    unfold in_dt. rewrite dt_max_pow, dt_min_pow. destruct (is_signed d); lia.
Qed.

Lemma wrap_to_top_signed d :
  is_signed d = true -> Z.testbit (wrap_to d (2 ^ Z.of_nat (value_bits d))) 63 = true.
Proof. destruct d; intros H; try discriminate H; vm_compute; reflexivity. Qed.

Theorem encode_in_bound_exact d w n :
  d <> I64 -> (1 <= w <= value_bits d)%nat -> (n * w > value_bits d)%nat ->
  exists s, length s = n /\ encodable w s = true /\ Forall (in_dt d) s /\ encode_in d w n s <> encode w n s.
Proof.
  intros Hd Hw Hn. set (p := value_bits d).
  assert (p < n * w)%nat as Hp by (unfold p; lia).
  assert (p <= 31)%nat as Hp31 by (unfold p; destruct d; cbn; try lia; contradiction Hd; reflexivity).
  exists (onebit w n p). destruct (onebit_props d w n p Hw Hp) as (H1 & H2 & H3).
  split; [exact H1|]. split; [exact H2|]. split; [exact H3|].
  assert (0 < encoded_length w n)%nat as HL.
  { unfold encoded_length. apply Nat.div_str_pos. lia. }
  assert (forall b, 0 <= b < 64 ->
            Z.testbit (nth 0 (encode w n (onebit w n p)) 0) b
            = if (Z.to_nat b <? n * w)%nat then (Z.to_nat b =? p)%nat else false) as Henc.
  { intros b Hb. rewrite (encode_testbit_gen w n _ 0 b HL Hb). cbv zeta. cbn [Nat.mul Nat.add].
    destruct (Nat.ltb_spec (Z.to_nat b) (n * w)); [|reflexivity].
    apply onebit_testbit; lia. }
  assert (forall b, Z.testbit (nth 0 (encode_in d w n (onebit w n p)) 0) b
            = existsb (fun i => (i / CL =? 0)%nat && Z.testbit (term_in d w (onebit w n p) i) b) (seq 0 (w * n))) as Hin.
  { intros b. rewrite encode_in_eq_mix. unfold encode_mix. rewrite orfold_testbit0 by exact HL. reflexivity. }
  intros Heq. destruct (is_signed d) eqn:Hs.
  - (* signed: the sign extension of the wrapped bit reaches bit 63, which the int64 code leaves clear *)
    assert (Z.testbit (nth 0 (encode_in d w n (onebit w n p)) 0) 63 = true) as Ht.
    { rewrite Hin. apply existsb_exists. exists p. split; [apply in_seq; lia|].
      apply andb_true_iff. split.
      - apply Nat.eqb_eq. unfold CL. apply Nat.div_small. lia.
      - rewrite (onebit_term d w n p) by lia. apply wrap_to_top_signed. exact Hs. }
    rewrite Heq, Henc in Ht by lia. change (Z.to_nat 63) with 63%nat in Ht.
    destruct (63 <? n * w)%nat; [|discriminate Ht].
    apply Nat.eqb_eq in Ht. lia.
  - (* unsigned: the bit is shifted out *)
    assert (d = U8) as -> by (destruct d; try discriminate Hs; reflexivity).
    assert (Z.testbit (nth 0 (encode_in U8 w n (onebit w n p)) 0) 8 = false) as Ht.
    { rewrite Hin. destruct (existsb _ _) eqn:E; [|reflexivity]. exfalso.
      apply existsb_exists in E as (i & _ & Hi). apply andb_true_iff in Hi as [_ Hi].
      rewrite (testbit_above_pow2 (term_in U8 w (onebit w n p) i) 8 8) in Hi; [discriminate Hi| |lia].
      pose proof (wrap_to_range U8 (Z.shiftl (w_and (w_sar (nth (i / w) (onebit w n p) 0) (Z.of_nat (i mod w))) 1) (Z.of_nat (i mod CL)))) as Hr.
      unfold in_dt in Hr. cbn [dt_min dt_max] in Hr. unfold term_in, shl_in. change (2 ^ 8) with 256. lia. }
    rewrite Heq, Henc in Ht by lia. change (Z.to_nat 8) with 8%nat in Ht. change p with 8%nat in *.
    destruct (Nat.ltb_spec 8 (n * w)); [discriminate Ht|lia].
Qed.

(* for widths whose symbols fit the dtype, (ii) is an equivalence *)
Corollary encode_in_harmless_iff d w n :
  d <> I64 -> (1 <= w <= value_bits d)%nat ->
  ((forall s, encode_in d w n s = encode w n s) <-> (n * w <= value_bits d)%nat).
Proof.
  intros Hd Hw. split.
  - intros H. destruct (Nat.le_gt_cases (n * w) (value_bits d)) as [Hle|Hgt]; [exact Hle|].
    destruct (encode_in_bound_exact d w n Hd Hw Hgt) as (s & _ & _ & _ & Hne). contradiction (Hne (H s)).
  - intros H s. apply encode_in_fits. exact H.
Qed.

Example encode_in_bound_exact_nonvacuous :
  I8 <> I64 /\ (1 <= 3 <= value_bits I8)%nat /\ (3 * 3 > value_bits I8)%nat /\
  onebit 3 3 7 = [0; 0; 2] /\ encode_in I8 3 3 [0; 0; 2] = [-128] /\ encode 3 3 [0; 0; 2] = [128].
Proof. split; [discriminate|]. split; [cbn; lia|]. split; [cbn; lia|]. repeat split; vm_compute; reflexivity. Qed.

(* non-vacuity of (i)/(ii): a code that fits int8 (2 symbols of 3 bits), held in int8 *)
Example encode_in_fits_nonvacuous :
  (2 * 3 <= value_bits I8)%nat /\ Forall (in_dt I8) [5; 6] /\
  encode_in I8 3 2 [5; 6] = [53] /\ encode 3 2 [5; 6] = [53] /\
  lib_encode I8 3 2 (map (store_as I8) [5; 6]) = [53].
Proof.
  split; [cbn; lia|]. split; [repeat constructor; unfold in_dt; cbn; lia|]. repeat split; vm_compute; reflexivity.
Qed.

(* ====================================================================== *)
(** * A2. Container forms *)

(** What a user can hand over.  Python lists are containers of Python ints (arbitrary precision, cast to
    int64: dtype I64); NumPy arrays and torch tensors have an integer dtype d and HOLD [store_as d v].
    Nesting depth: 1 (flat), 2 (rows, or one matrix-shaped state), 3 (a batch of matrix-shaped states).
    A string is accepted for central states only ([normalize_central_state]: [int(x) for x in s]). *)
Inductive container :=
| C1 (l : list Z)
| C2 (ll : list (list Z))
| C3 (lll : list (list (list Z)))
| CStr (s : string).

(* all rows as long as the first one *)
Definition same_len {A} (ll : list (list A)) : bool :=
  match ll with [] => true | r :: t => forallb (fun r' => (length r' =? length r)%nat) t end.
(* nested lists that form an array: [np.array] / [torch.as_tensor] raise ValueError otherwise *)
Definition rect2 (ll : list (list Z)) : bool := same_len ll.
Definition rect3 (lll : list (list (list Z))) : bool := same_len lll && same_len (concat lll).

(** [CayleyGraph.encode_states]: torch.as_tensor(states).to(int64).reshape((-1, state_size)).
    A ragged nested list is a ValueError (as_tensor), a string a TypeError (as_tensor; modelling
    assumption on torch's error class), a total size that is not a multiple of state_size the
    RuntimeError of reshape. *)
Definition normalize_states (d : dtype) (size : nat) (c : container) : result (list (list Z)) :=
  match c with
  | C1 l => normalize d size l
  | C2 ll => if rect2 ll then normalize d size (concat ll) else Err ValueErr
  | C3 lll => if rect3 lll then normalize d size (concat (concat lll)) else Err ValueErr
  | CStr _ => Err TypeErr
  end.

(** [CayleyGraphDef.normalize_central_state]: np.array(list) -> reshape((-1,)) -> [int(x) for x in ...];
    a string is iterated character by character. *)
Definition normalize_central (d : dtype) (c : container) : result (list Z) :=
  match c with
  | C1 l => Ok (map (to_int64 d) l)
  | C2 ll => if rect2 ll then Ok (map (to_int64 d) (concat ll)) else Err ValueErr
  | C3 lll => if rect3 lll then Ok (map (to_int64 d) (concat (concat lll))) else Err ValueErr
  | CStr s => central_of_string s
  end.

(** The forms in which ONE logical batch (k rows of [size] values) can be presented. *)
Inductive cform :=
| FFlat                    (* all values in one flat sequence; for k = 1: the state given flat *)
| FRows                    (* k rows: a one-row batch when k = 1 *)
| FMatrices (c : nat)      (* every state as a (size/c) x c matrix, nested one level deeper *)
| FOneMatrix (c : nat)     (* k = 1: the single state as a (size/c) x c matrix *)
| FString.                 (* k = 1, values 0..9: a string of digits *)

Definition digit_char (v : Z) : ascii := ascii_of_nat (48 + Z.to_nat v).
Definition string_of_digits (row : list Z) : string :=
  fold_right (fun v acc => String (digit_char v) acc) EmptyString row.
Definition is_digit_val (v : Z) : bool := (0 <=? v) && (v <=? 9).

Definition splits (c : nat) (row : list Z) : bool := (0 <? c)%nat && (length row mod c =? 0)%nat.

Definition present (d : dtype) (f : cform) (batch : list (list Z)) : option container :=
  match f with
  | FFlat => Some (C1 (map (store_as d) (concat batch)))
  | FRows => Some (C2 (map (map (store_as d)) batch))
  | FMatrices c =>
      if forallb (splits c) batch
      then Some (C3 (map (fun row => chunks (length row) c (map (store_as d) row)) batch))
      else None
  | FOneMatrix c =>
      match batch with
      | [row] => if splits c row then Some (C2 (chunks (length row) c (map (store_as d) row))) else None
      | _ => None
      end
  | FString =>
      match batch with
      | [row] => if forallb is_digit_val row then Some (CStr (string_of_digits row)) else None
      | _ => None
      end
  end.

(* the forms accepted by encode_states for this batch (a string is not) *)
Definition applicable (f : cform) (batch : list (list Z)) : bool :=
  match f with
  | FFlat | FRows => true
  | FMatrices c => forallb (splits c) batch
  | FOneMatrix c => match batch with [row] => splits c row | _ => false end
  | FString => false
  end.

Lemma applicable_present d f batch : applicable f batch = true -> exists c, present d f batch = Some c.
Proof.
  destruct f as [| |c|c|]; cbn [applicable present]; intros H; try discriminate H; try (eexists; reflexivity).
  - rewrite H. eexists; reflexivity.
  - destruct batch as [|row [|r2 rest]]; try discriminate H. rewrite H. eexists; reflexivity.
Qed.

(* ---------- lists ---------- *)
Lemma same_len_Forall {A} (ll : list (list A)) c : Forall (fun r => length r = c) ll -> same_len ll = true.
Proof.
  intros H. destruct ll as [|r t]; [reflexivity|]. cbn [same_len].
  inversion H as [|? ? Hr Ht]; subst. apply forallb_forall. intros r' Hin.
  rewrite Forall_forall in Ht. rewrite (Ht r' Hin). apply Nat.eqb_refl.
Qed.

Lemma same_len_spec {A} (ll : list (list A)) : same_len ll = true <-> exists c, Forall (fun r => length r = c) ll.
Proof.
  split; [|intros [c H]; apply (same_len_Forall ll c H)].
  destruct ll as [|r t]; [intros _; exists 0%nat; constructor|]. cbn [same_len]. intros H.
  exists (length r). constructor; [reflexivity|]. apply Forall_forall. intros r' Hin.
  rewrite forallb_forall in H. apply Nat.eqb_eq. apply H. exact Hin.
Qed.

Lemma concat_chunks c : (0 < c)%nat -> forall fuel (l : list Z), (length l <= fuel)%nat -> concat (chunks fuel c l) = l.
Proof.
  intros Hc. induction fuel as [|fuel IH]; intros l Hl.
  - destruct l; [reflexivity|cbn in Hl; lia].
  - cbn [chunks]. destruct l as [|a t] eqn:E; [reflexivity|]. rewrite <- E in *.
    cbn [concat]. rewrite IH; [apply firstn_skipn|].
    rewrite skipn_length. assert (0 < length l)%nat by (rewrite E; cbn; lia). lia.
Qed.

Lemma chunks_shape c k : (0 < c)%nat -> forall fuel (l : list Z),
  length l = (k * c)%nat -> (length l <= fuel)%nat ->
  Forall (fun r => length r = c) (chunks fuel c l) /\ length (chunks fuel c l) = k.
Proof.
  intros Hc. revert k. intros k fuel. revert k. induction fuel as [|fuel IH]; intros k l Hk Hl.
  - destruct l; [|cbn in Hl; lia]. cbn in Hk. split; [constructor|]. cbn. nia.
  - cbn [chunks]. destruct l as [|a t] eqn:E.
    + cbn in Hk. split; [constructor|]. cbn. nia.
    + rewrite <- E in *. assert (0 < length l)%nat as Hpos by (rewrite E; cbn; lia).
      destruct k as [|k]; [cbn in Hk; lia|].
      destruct (IH k (skipn c l)) as [H1 H2].
      * rewrite skipn_length. lia.
      * rewrite skipn_length. lia.
      * split; [constructor; [rewrite firstn_length; lia|exact H1]|]. cbn [length]. rewrite H2. reflexivity.
Qed.

Lemma splits_spec c row : splits c row = true -> (0 < c)%nat /\ exists k, length row = (k * c)%nat.
Proof.
  unfold splits. intros H. apply andb_true_iff in H as [H1 H2].
  apply Nat.ltb_lt in H1. apply Nat.eqb_eq in H2. split; [exact H1|].
  apply Nat.mod_divides in H2; [|lia]. destruct H2 as [k Hk]. exists k. lia.
Qed.

Lemma Forall_concat {A} (P : A -> Prop) (ll : list (list A)) : Forall (Forall P) ll -> Forall P (concat ll).
Proof.
  induction 1 as [|r t Hr _ IH]; [constructor|]. cbn [concat]. apply Forall_app. split; assumption.
Qed.

Lemma concat_concat_map {A B} (g : A -> list (list B)) (l : list A) :
  concat (concat (map g l)) = concat (map (fun x => concat (g x)) l).
Proof.
  induction l as [|a t IH]; [reflexivity|]. cbn [map concat]. rewrite concat_app, IH. reflexivity.
Qed.

(* ---------- every presentation flattens to the stored values of the batch, and is rectangular ---------- *)
Definition elements_of (c : container) : list Z :=
  match c with C1 l => l | C2 ll => concat ll | C3 lll => concat (concat lll) | CStr _ => [] end.
Definition is_rect (c : container) : bool :=
  match c with C1 _ => true | C2 ll => rect2 ll | C3 lll => rect3 lll | CStr _ => false end.

Lemma normalize_states_elements d size c :
  is_rect c = true -> normalize_states d size c = normalize d size (elements_of c).
Proof. destruct c; cbn [is_rect normalize_states elements_of]; intros H; rewrite ?H; try reflexivity; discriminate. Qed.

Lemma present_elements d f size batch c :
  Forall (fun row => length row = size) batch ->
  applicable f batch = true -> present d f batch = Some c ->
  is_rect c = true /\ elements_of c = map (store_as d) (flatten batch).
Proof.
  intros HF Happ Hp. destruct f as [| |cc|cc|]; cbn [applicable present] in *.
  - inversion Hp; subst c. split; reflexivity.
  - inversion Hp; subst c. cbn [is_rect elements_of]. split.
    + apply (same_len_Forall _ size). apply Forall_map. revert HF. apply Forall_impl. intros r Hr.
      rewrite map_length. exact Hr.
    + unfold flatten. rewrite concat_map. reflexivity.
  - rewrite Happ in Hp. inversion Hp; subst c. clear Hp. cbn [is_rect elements_of].
    assert (forall row, In row batch ->
              (0 < cc)%nat /\ exists k, length (map (store_as d) row) = (k * cc)%nat) as Hs.
    { intros row Hin. rewrite forallb_forall in Happ. rewrite map_length. apply splits_spec. apply Happ. exact Hin. }
    split.
    + unfold rect3. apply andb_true_iff. split.
      * destruct batch as [|r0 t]; [reflexivity|].
        assert (0 < cc)%nat as Hcc by (apply (Hs r0); left; reflexivity).
        assert (exists k0, size = (k0 * cc)%nat) as [k0 Hk0].
        { destruct (Hs r0 (or_introl eq_refl)) as [_ [k Hk]]. exists k. rewrite map_length in Hk.
          inversion HF; subst. exact Hk. }
        apply (same_len_Forall _ k0). apply Forall_map. apply Forall_forall. intros row Hin.
        rewrite Forall_forall in HF. pose proof (HF row Hin) as Hlen.
        apply (chunks_shape cc k0 Hcc); rewrite map_length; lia.
      * apply (same_len_Forall _ cc). apply Forall_concat. apply Forall_map. apply Forall_forall.
        intros row Hin. destruct (Hs row Hin) as [Hcc [k Hk]].
        apply (chunks_shape cc k Hcc); rewrite ?map_length in *; lia.
    + unfold flatten. rewrite concat_map, concat_concat_map. f_equal. apply map_ext_in. intros row Hin.
      destruct (Hs row Hin) as [Hcc _]. apply concat_chunks; [exact Hcc|]. rewrite map_length. lia.
  - destruct batch as [|row [|r2 rest]]; try discriminate Happ. rewrite Happ in Hp. inversion Hp; subst c. clear Hp.
    destruct (splits_spec cc row Happ) as [Hcc [k Hk]]. cbn [is_rect elements_of]. split.
    + apply (same_len_Forall _ cc). apply (chunks_shape cc k Hcc); rewrite map_length; lia.
    + unfold flatten. cbn [concat]. rewrite app_nil_r. apply concat_chunks; [exact Hcc|]. rewrite map_length. lia.
  - discriminate Happ.
Qed.

(** C13 for the conversion: EVERY applicable form of the same logical batch, in EVERY dtype that can hold
    its values, normalises to that batch. *)
Theorem normalize_form_independent d size f (batch : list (list Z)) c :
  (0 < size)%nat -> Forall (fun row => length row = size) batch ->
  Forall (Forall (in_dt d)) batch ->
  applicable f batch = true -> present d f batch = Some c ->
  normalize_states d size c = Ok batch.
Proof.
  intros Hs HF HR Happ Hp. destruct (present_elements d f size batch c HF Happ Hp) as [Hrect Hel].
  rewrite (normalize_states_elements d size c Hrect), Hel. apply normalize_denote; assumption.
Qed.

(* two presentations, two dtypes: same result *)
Corollary normalize_two_forms d1 d2 size f1 f2 (batch : list (list Z)) c1 c2 :
  (0 < size)%nat -> Forall (fun row => length row = size) batch ->
  Forall (Forall (in_dt d1)) batch -> Forall (Forall (in_dt d2)) batch ->
  applicable f1 batch = true -> applicable f2 batch = true ->
  present d1 f1 batch = Some c1 -> present d2 f2 batch = Some c2 ->
  normalize_states d1 size c1 = normalize_states d2 size c2.
Proof.
  intros Hs HF H1 H2 A1 A2 P1 P2.
  rewrite (normalize_form_independent d1 size f1 batch c1), (normalize_form_independent d2 size f2 batch c2); auto.
Qed.

(* ---------- the central state: every form, including the string of digits ---------- *)
Lemma digit_val_char v : 0 <= v <= 9 -> digit_val (digit_char v) = Some v.
Proof.
  intros Hv. unfold digit_val, digit_char. rewrite nat_ascii_embedding by lia.
  destruct (Nat.leb_spec 48 (48 + Z.to_nat v)) as [_|H]; [|lia].
  destruct (Nat.leb_spec (48 + Z.to_nat v) 57) as [_|H]; [|lia].
  cbn [andb]. f_equal. lia.
Qed.

Lemma central_of_string_digits row :
  forallb is_digit_val row = true -> central_of_string (string_of_digits row) = Ok row.
Proof.
  induction row as [|v t IH]; intros H; [reflexivity|].
  cbn [forallb] in H. apply andb_true_iff in H as [Hv Ht]. unfold is_digit_val in Hv.
  apply andb_true_iff in Hv as [H0 H9]. apply Z.leb_le in H0, H9.
  cbn [string_of_digits fold_right central_of_string]. rewrite digit_val_char by lia.
  fold (string_of_digits t). rewrite (IH Ht). reflexivity.
Qed.

Lemma normalize_central_elements d c :
  is_rect c = true -> normalize_central d c = Ok (map (to_int64 d) (elements_of c)).
Proof. destruct c; cbn [is_rect normalize_central elements_of]; intros H; rewrite ?H; try reflexivity; discriminate. Qed.

Definition applicable_central (f : cform) (row : list Z) : bool :=
  match f with
  | FFlat | FRows => true
  | FMatrices c | FOneMatrix c => splits c row
  | FString => forallb is_digit_val row
  end.

Theorem normalize_central_form_independent d f (row : list Z) c :
  Forall (in_dt d) row -> applicable_central f row = true -> present d f [row] = Some c ->
  normalize_central d c = Ok row.
Proof.
  intros HR Happ Hp.
  assert (map (to_int64 d) (map (store_as d) row) = row) as Hrt.
  { rewrite map_map. rewrite <- (map_id row) at 2. apply map_ext_in. intros v Hv. apply dtype_roundtrip.
    rewrite Forall_forall in HR. apply (HR v Hv). }
  assert (forall f', applicable f' [row] = true -> present d f' [row] = Some c -> normalize_central d c = Ok row) as Hgen.
  { intros f' A Hp'.
    destruct (present_elements d f' (length row) [row] c (Forall_cons _ eq_refl (Forall_nil _)) A Hp') as [Hr He].
    rewrite (normalize_central_elements d c Hr), He. unfold flatten. cbn [concat]. rewrite app_nil_r. f_equal. exact Hrt. }
  destruct f as [| |cc|cc|].
  - apply (Hgen FFlat); [reflexivity|exact Hp].
  - apply (Hgen FRows); [reflexivity|exact Hp].
  - apply (Hgen (FMatrices cc)); [|exact Hp]. cbn [applicable forallb]. cbn [applicable_central] in Happ. rewrite Happ. reflexivity.
  - apply (Hgen (FOneMatrix cc)); [exact Happ|exact Hp].
  - cbn [present applicable_central] in *. rewrite Happ in Hp. inversion Hp; subst c.
    cbn [normalize_central]. apply central_of_string_digits. exact Happ.
Qed.

(* ---------- rejections ---------- *)
Definition ragged {A} (ll : list (list A)) : Prop := ~ exists c, Forall (fun r => length r = c) ll.

Lemma ragged_same_len {A} (ll : list (list A)) : ragged ll -> same_len ll = false.
Proof.
  intros H. destruct (same_len ll) eqn:E; [|reflexivity]. exfalso. apply H. apply same_len_spec. exact E.
Qed.

(* ragged nesting: the ValueError of as_tensor / np.array *)
Theorem normalize_states_ragged2 d size ll : ragged ll -> normalize_states d size (C2 ll) = Err ValueErr.
Proof. intros H. cbn [normalize_states]. unfold rect2. rewrite (ragged_same_len ll H). reflexivity. Qed.

Theorem normalize_states_ragged3 d size lll :
  ragged lll \/ ragged (concat lll) -> normalize_states d size (C3 lll) = Err ValueErr.
Proof.
  intros H. cbn [normalize_states]. unfold rect3.
  destruct H as [H|H]; rewrite (ragged_same_len _ H); rewrite ?andb_false_r; reflexivity.
Qed.

Theorem normalize_central_ragged d ll : ragged ll -> normalize_central d (C2 ll) = Err ValueErr.
Proof. intros H. cbn [normalize_central]. unfold rect2. rewrite (ragged_same_len ll H). reflexivity. Qed.

(* rectangular but of a total size that is not a multiple of state_size: the RuntimeError of reshape *)
Theorem normalize_states_bad_size d size c :
  (0 < size)%nat -> is_rect c = true -> (length (elements_of c) mod size <> 0)%nat ->
  normalize_states d size c = Err RuntimeErr.
Proof.
  intros Hs Hr Hm. rewrite (normalize_states_elements d size c Hr). apply normalize_rejects; assumption.
Qed.

(* a string is not a state container *)
Theorem normalize_states_string d size s : normalize_states d size (CStr s) = Err TypeErr.
Proof. reflexivity. Qed.

(* a central state string: accepted iff all characters are digits; otherwise the ValueError of int(x) *)
Fixpoint chars (s : string) : list ascii := match s with EmptyString => [] | String c t => c :: chars t end.

Theorem central_of_string_spec s :
  match central_of_string s with
  | Ok row => map digit_val (chars s) = map Some row
  | Err e => e = ValueErr /\ exists c, In c (chars s) /\ digit_val c = None
  end.
Proof.
  induction s as [|c t IH]; [reflexivity|]. cbn [central_of_string chars map].
  destruct (digit_val c) as [v|] eqn:E.
  - destruct (central_of_string t) as [r|e]; cbn [bind].
    + cbn [map]. rewrite IH. reflexivity.
    + destruct IH as [He [c' [Hin Hc']]]. split; [exact He|]. exists c'. split; [right; exact Hin|exact Hc'].
  - split; [reflexivity|]. exists c. split; [left; reflexivity|exact E].
Qed.

Theorem central_of_string_rejects s c :
  In c (chars s) -> digit_val c = None -> normalize_central I64 (CStr s) = Err ValueErr.
Proof.
  intros Hin Hc. cbn [normalize_central]. pose proof (central_of_string_spec s) as H.
  destruct (central_of_string s) as [row|e]; [|destruct H as [-> _]; reflexivity].
  exfalso. assert (In (digit_val c) (map digit_val (chars s))) as Hi by (apply in_map; exact Hin).
  rewrite H, Hc in Hi. apply in_map_iff in Hi as [x [Hx _]]. discriminate Hx.
Qed.

(* ---------- non-vacuity ---------- *)
Definition ex_batch : list (list Z) := [[1;2;3;4;5;0]; [0;5;4;3;2;1]].

Example ex_forms_states :
  let b := ex_batch in
  (0 < 6)%nat /\ Forall (fun row => length row = 6%nat) b /\ (forall d, Forall (Forall (in_dt d)) b) /\
  present I8 FFlat b = Some (C1 [1;2;3;4;5;0;0;5;4;3;2;1]) /\
  present U8 FRows b = Some (C2 b) /\
  present I16 (FMatrices 3) b = Some (C3 [[[1;2;3];[4;5;0]]; [[0;5;4];[3;2;1]]]) /\
  present I32 (FMatrices 4) b = None /\
  applicable FFlat b = true /\ applicable FRows b = true /\ applicable (FMatrices 3) b = true /\
  applicable (FMatrices 2) b = true /\ applicable (FMatrices 4) b = false /\
  normalize_states I16 6 (C3 [[[1;2;3];[4;5;0]]; [[0;5;4];[3;2;1]]]) = Ok b.
Proof.
  cbv zeta. split; [lia|]. split; [repeat constructor|].
  split; [intros d; destruct d; repeat constructor; unfold in_dt; cbn; lia|].
  repeat split; reflexivity.
Qed.

Example ex_forms_central :
  let row := [1;2;3;4;5;0] in
  present I64 FString [row] = Some (CStr "123450") /\
  present I8 (FOneMatrix 2) [row] = Some (C2 [[1;2];[3;4];[5;0]]) /\
  normalize_central I64 (CStr "123450") = Ok row /\
  normalize_central I8 (C2 [[1;2];[3;4];[5;0]]) = Ok row /\
  normalize_states I8 6 (C2 [[1;2];[3;4];[5;0]]) = Ok [row] /\
  normalize_central I64 (CStr "12a450") = Err ValueErr /\
  normalize_states I64 6 (C2 [[1;2;3];[4;5]]) = Err ValueErr /\
  ragged [[1;2;3];[4;5]] /\
  normalize_states I64 6 (C2 [[1;2;3;4];[5;0;1;2]]) = Err RuntimeErr /\
  normalize_states I64 6 (CStr "123450") = Err TypeErr.
Proof.
  cbv zeta. repeat split; try reflexivity.
  intros [c H]. inversion H as [|? ? H1 H2]; subst. inversion H2 as [|? ? H3 _]; subst. discriminate H3.
Qed.

(* the hypotheses of the central-state and rejection theorems on concrete instances *)
Example ex_hyps_central :
  let row := [1;2;3;4;5;0] in
  Forall (in_dt I8) row /\
  applicable_central FString row = true /\ applicable_central (FOneMatrix 2) row = true /\
  applicable_central (FMatrices 3) row = true /\ applicable_central (FOneMatrix 4) row = false /\
  applicable_central FString [1;2;10] = false.
Proof. cbv zeta. split; [repeat constructor; unfold in_dt; cbn; lia|]. repeat split; reflexivity. Qed.

Example ex_hyps_rejections :
  ragged [[[1;2];[3;4]]; [[5;6]]] /\
  normalize_states I64 2 (C3 [[[1;2];[3;4]]; [[5;6]]]) = Err ValueErr /\
  ragged (concat [[[1;2];[3]]; [[5;6];[7;8]]]) /\
  (0 < 6)%nat /\ is_rect (C2 [[1;2;3;4];[5;0;1;2]]) = true /\
  Nat.modulo (length (elements_of (C2 [[1;2;3;4];[5;0;1;2]]))) 6 <> 0%nat /\
  In "a"%char (chars "12a450") /\ digit_val "a"%char = None.
Proof.
  split.
  { intros [c H]. inversion H as [|? ? H1 H2]; subst. inversion H2 as [|? ? H3 _]; subst. discriminate H3. }
  split; [reflexivity|]. split.
  { intros [c H]. inversion H as [|? ? H1 H2]; subst. inversion H2 as [|? ? H3 _]; subst. discriminate H3. }
  split; [lia|]. split; [reflexivity|]. split; [cbn; lia|]. split; [cbn; auto|reflexivity].
Qed.

(* ====================================================================== *)
(** * A3. Entry points *)

(* container -> the batch the algorithms see; None when the form does not apply or the conversion raises *)
Definition norm (d : dtype) (size : nat) (f : cform) (batch : list (list Z)) : option (list (list Z)) :=
  match present d f batch with
  | Some c => match normalize_states d size c with Ok b => Some b | Err _ => None end
  | None => None
  end.

Lemma norm_spec d size f batch :
  (0 < size)%nat -> Forall (fun row => length row = size) batch -> Forall (Forall (in_dt d)) batch ->
  applicable f batch = true -> norm d size f batch = Some batch.
Proof.
  intros Hs HF HR Happ. unfold norm. destruct (applicable_present d f batch Happ) as [c Hc].
  rewrite Hc, (normalize_form_independent d size f batch c); auto.
Qed.

(** The schema: ANY entry point [f] that takes the normalised batch gives the same result for every
    applicable container form and every dtype that can hold the values - and that result is [f batch]. *)
Theorem entry_container_independent :
  forall (R : Type) (f : list (list Z) -> R) size d1 form1 d2 form2 (batch : list (list Z)),
  (0 < size)%nat -> Forall (fun row => length row = size) batch ->
  Forall (Forall (in_dt d1)) batch -> Forall (Forall (in_dt d2)) batch ->
  applicable form1 batch = true -> applicable form2 batch = true ->
  option_map f (norm d1 size form1 batch) = option_map f (norm d2 size form2 batch) /\
  option_map f (norm d1 size form1 batch) = Some (f batch).
Proof.
  intros R f size d1 form1 d2 form2 batch Hs HF H1 H2 A1 A2.
  rewrite (norm_spec d1 size form1 batch), (norm_spec d2 size form2 batch); auto.
Qed.

Print Assumptions encode_in_eq_mix.
Print Assumptions encode_in_I64.
Print Assumptions lib_encode_spec.
Print Assumptions encode_in_fits.
Print Assumptions encode_in_refuted.
Print Assumptions encode_in_bound_exact.
Print Assumptions encode_in_harmless_iff.
Print Assumptions normalize_form_independent.
Print Assumptions normalize_two_forms.
Print Assumptions normalize_central_form_independent.
Print Assumptions normalize_states_ragged2.
Print Assumptions normalize_states_ragged3.
Print Assumptions normalize_states_bad_size.
Print Assumptions central_of_string_spec.
Print Assumptions central_of_string_rejects.
Print Assumptions entry_container_independent.
