(** E3 - the random-walk theorems (C07) and the engine-agreement theorems about the interactive BFS and the
    unthinned BFS-mode walk (C11: C11_ibfs_growth, C11_ibfs_layers, C11_walks_bfs_exhaustive) instantiated for the
    concrete graph implementation model [impl_of d] (what AlgoRun.check_walk_case evaluates).

    Part 1: permutation graphs ([wf_perm_desc d]); what remains is NoColl on [Ustates d] (nothing for the identity
    hasher on one-word codes) and the hypotheses about the oracle (random draws) and the start state.  The classic and
    nbt walks never hash for their specification: their corollaries carry NO hypothesis about hashing; the side
    condition "at least one generator" of the nbt theorem is discharged.
    Part 2: matrix graphs ([wf_matrix_core d] for walks, [wf_matrix_desc d] where the inverse-closed flag matters).
    Part 0 / "agree": the growth-function form of the unthinned walk (the number of returned states labelled k is the
    size of layer k) and the agreement of the three engines (main BFS, interactive BFS, unthinned walk) on one graph. *)
From Coq Require Import ZArith List Bool Arith Lia Factorial Sorting.Sorted.
From V Require Import Base BaseProofs Tensor Perm PermProofs Codec Hash Matrix Graph GraphProofs GraphImpl Def DefProofs
                      Bfs BfsStep BfsProofs Paths PathsProofs BfsRun PathRun Interactive InteractiveProofs Walks WalksProofs
                      AlgoRun InstPerm InstSmall InstBfs InstPaths InstShared InstMatrix InstMatrixBfs.
From V.gen Require Import Consts.
Import ListNotations.
Local Open Scope nat_scope.

(* ------------------------------------------------------------------ *)
(** * 0. The growth function of an exhaustive walk (any impl) *)

(* how many returned states carry the label k *)
Definition walk_count (x : list state) (y : list nat) (k : nat) : nat :=
  length (filter (fun i => nth i y 0 =? k) (seq 0 (length x))).

Lemma NoDup_map_on {A B} (f : A -> B) (l : list A) :
  NoDup l -> (forall a b, In a l -> In b l -> f a = f b -> a = b) -> NoDup (map f l).
Proof.
  induction l as [|a t IH]; intros Hnd Hinj; [constructor|].
  inversion Hnd as [|? ? Hna Hnt]; subst. cbn [map]. constructor.
  - intros Hin. apply in_map_iff in Hin as (b & Hfb & Hb). apply Hna.
    rewrite (Hinj a b); [exact Hb | left; reflexivity | right; exact Hb | symmetry; exact Hfb].
  - apply IH; [exact Hnt|]. intros a' b' Ha' Hb'. apply Hinj; right; assumption.
Qed.

(* the conclusion of C11_walks_bfs_exhaustive in growth-function form *)
Theorem exhaustive_growth (gens : list (state -> state)) (start : state) (x : list state) (y : list nat) :
  NoDup x ->
  (forall t k, (exists i, i < length x /\ nth i x [] = t /\ nth i y 0 = k) <->
               In t (layer state st_eq_dec gens [start] k)) ->
  forall k, walk_count x y k = length (layer state st_eq_dec gens [start] k).
Proof.
  intros Hnd Hiff k. unfold walk_count.
  set (idx := filter (fun i => nth i y 0 =? k) (seq 0 (length x))).
  set (l := map (fun i => nth i x []) idx).
  assert (Hidx : forall i, In i idx <-> i < length x /\ nth i y 0 = k).
  { intros i. unfold idx. rewrite filter_In, in_seq, Nat.eqb_eq. split; intros [H1 H2]; (split; [lia | exact H2]). }
  assert (Hl : length l = length idx) by (unfold l; apply map_length).
  rewrite <- Hl.
  assert (Hndl : NoDup l).
  { unfold l. apply NoDup_map_on.
    - unfold idx. apply NoDup_filter, seq_NoDup.
    - intros a b Ha Hb E. apply Hidx in Ha as [Ha _]. apply Hidx in Hb as [Hb _].
      apply (proj1 (NoDup_nth x []) Hnd a b Ha Hb E). }
  apply Nat.le_antisymm.
  - apply NoDup_incl_length; [exact Hndl|]. intros t Ht. unfold l in Ht.
    apply in_map_iff in Ht as (i & Hi & Hin). apply Hidx in Hin as [Hlt Hy].
    apply Hiff. exists i. auto.
  - apply NoDup_incl_length; [apply layer_NoDup|]. intros t Ht.
    apply Hiff in Ht as (i & Hlt & Hx & Hy). unfold l. apply in_map_iff. exists i. split; [exact Hx|].
    apply Hidx. auto.
Qed.

(* ================================================================== *)
(** * Part 1. Permutation graphs *)

Lemma perm_n_gens_impl d : wf_perm_desc d -> n_gens (impl_of d) = length (desc_perms d).
Proof. intros Hwf. unfold n_gens, impl_of. apply perm_n_gens. exact Hwf. Qed.

Lemma perm_n_gens_pos d : wf_perm_desc d -> 1 <= n_gens (impl_of d).
Proof.
  intros Hwf. rewrite (perm_n_gens_impl d Hwf). destruct Hwf as (_ & Hne & _).
  destruct (desc_perms d); [congruence | cbn; lia].
Qed.

Section PermWalks.
  Variable d : gdesc.
  Hypothesis Hwf : wf_perm_desc d.

  (* C07_walks_classic_spec: no hashing is involved; the draws are generator indices of the description *)
  Theorem walks_perm_classic_spec :
    forall (start : state) (width length_ : nat) (draws : list (list nat)) (x : list state) (y : list nat),
    1 <= length_ ->
    length_ - 1 <= length draws ->
    Forall (fun dr : list nat => length dr = width /\ Forall (fun g => g < length (desc_perms d)) dr) draws ->
    walks_classic (impl_of d) width length_ start draws = (x, y) ->
    length x = width * length_ /\
    length y = width * length_ /\
    (forall i, i < width * length_ -> nth i y 0 = i / width) /\
    (forall i, i < width -> nth i x [] = start) /\
    (forall i, i + width < width * length_ ->
       exists p, In p (desc_perms d) /\ nth (i + width) x [] = apply_perm 0%Z p (nth i x [])) /\
    (forall i, i < width * length_ -> reach state (acts (impl_of d)) [start] (nth i y 0) (nth i x [])).
  Proof.
    intros start width length_ draws x y Hl Hdr Hd Hw.
    rewrite <- (perm_n_gens_impl d Hwf) in Hd.
    destruct (@walks_classic_spec (impl_of d) start width length_ draws x y Hl Hdr Hd Hw)
      as (H1 & H2 & H3 & H4 & H5 & H6).
    split; [exact H1|]. split; [exact H2|]. split; [exact H3|]. split; [exact H4|]. split; [|exact H6].
    intros i Hi. destruct (H5 i Hi) as (g & Hg & Hx).
    destruct (perm_acts_in splitmix_steps hash_mult d g Hwf Hg) as (p & Hp & ->). exists p. auto.
  Qed.

  (* C07_walks_nbt_spec, every history depth: "at least one generator" holds for every description *)
  Theorem walks_perm_nbt_spec :
    forall (start : state) (width length_ depth : nat) (perms : list (list nat)) (x : list state) (y : list nat),
    1 <= length_ -> 1 <= width ->
    Forall (fun p : list nat => Forall (fun i => i < length p) p) perms ->
    walks_nbt (impl_of d) width length_ depth start perms = Ok (x, y) ->
    length x = length y /\
    (forall i, i < width -> nth i x [] = start /\ nth i y 0 = 0) /\
    (forall i, i < length x -> reach state (acts (impl_of d)) [start] (nth i y 0) (nth i x [])).
  Proof.
    intros start width length_ depth perms x y Hl Hw Hp.
    exact (@walks_nbt_spec (impl_of d) start width length_ depth perms x y Hl Hw Hp (fun _ => perm_n_gens_pos d Hwf)).
  Qed.

  Hypothesis Hnc : NoCollOn (impl_of d) (Ustates d).

  Let Hcl : closed state (acts (impl_of d)) (Ustates d) := perm_closed splitmix_steps hash_mult d Hwf.
  Let Hid : is_identity (impl_of d) = true -> forall a, Ustates d a -> unword (impl_of d) (hashf (impl_of d) a) = a :=
    perm_IdOK_nocoll splitmix_steps hash_mult d Hwf Hnc.

  (* C07_walks_bfs_spec *)
  Theorem walks_perm_bfs_spec :
    forall start, Ustates d start ->
    forall (width length_ : nat) (perms : list (list nat)) (x : list state) (y : list nat),
    1 <= length_ -> 1 <= width ->
    Forall (fun p : list nat => NoDup p /\ Forall (fun i => i < length p) p) perms ->
    walks_bfs (impl_of d) width length_ start perms = Ok (x, y) ->
    length x = length y /\
    nth 0 x [] = start /\
    nth 0 y 1 = 0 /\
    NoDup x /\
    (forall i, i < length x -> reach state (acts (impl_of d)) [start] (nth i y 0) (nth i x [])).
  Proof.
    intros start Hs. exact (@walks_bfs_spec (impl_of d) start (Ustates d) Hcl Hnc Hid Hs).
  Qed.

  (* C07_walks_bfs_exhaustive = C11_walks_bfs_exhaustive *)
  Theorem walks_perm_bfs_exhaustive :
    forall start, Ustates d start ->
    forall (width length_ : nat) (perms : list (list nat)) (x : list state) (y : list nat) (D : nat),
    1 <= width ->
    (forall i, length (layer state st_eq_dec (acts (impl_of d)) [start] i) <= width) ->
    layer state st_eq_dec (acts (impl_of d)) [start] (S D) = [] ->
    D < length_ ->
    walks_bfs (impl_of d) width length_ start perms = Ok (x, y) ->
    NoDup x /\
    (forall (t : state) (k : nat),
       (exists i, i < length x /\ nth i x [] = t /\ nth i y 0 = k) <->
       In t (layer state st_eq_dec (acts (impl_of d)) [start] k)).
  Proof.
    intros start Hs. exact (@walks_bfs_exhaustive (impl_of d) start (Ustates d) Hcl Hnc Hid Hs).
  Qed.

  (* the width bound holds by counting as soon as the walk is wider than n! + 1 *)
  Theorem walks_perm_bfs_exhaustive_fact :
    forall start, Ustates d start ->
    forall (width length_ : nat) (perms : list (list nat)) (x : list state) (y : list nat) (D : nat),
    fact (desc_n d) + 1 <= width ->
    layer state st_eq_dec (acts (impl_of d)) [start] (S D) = [] ->
    D < length_ ->
    walks_bfs (impl_of d) width length_ start perms = Ok (x, y) ->
    NoDup x /\
    (forall (t : state) (k : nat),
       (exists i, i < length x /\ nth i x [] = t /\ nth i y 0 = k) <->
       In t (layer state st_eq_dec (acts (impl_of d)) [start] k)).
  Proof.
    intros start Hs width length_ perms x y D Hw.
    apply walks_perm_bfs_exhaustive; [exact Hs | lia |].
    intros i. apply Nat.le_trans with (fact (desc_n d) + 1); [|exact Hw].
    apply (perm_layer_le_fact splitmix_steps hash_mult d start i Hwf).
  Qed.

  (* growth-function form: the unthinned walk computes the growth function *)
  Theorem walks_perm_bfs_growth :
    forall start, Ustates d start ->
    forall (width length_ : nat) (perms : list (list nat)) (x : list state) (y : list nat) (D : nat),
    1 <= width ->
    (forall i, length (layer state st_eq_dec (acts (impl_of d)) [start] i) <= width) ->
    layer state st_eq_dec (acts (impl_of d)) [start] (S D) = [] ->
    D < length_ ->
    walks_bfs (impl_of d) width length_ start perms = Ok (x, y) ->
    forall k, walk_count x y k = length (layer state st_eq_dec (acts (impl_of d)) [start] k).
  Proof.
    intros start Hs width length_ perms x y D Hw Hlay HD Hlen Hrun.
    destruct (walks_perm_bfs_exhaustive start Hs width length_ perms x y D Hw Hlay HD Hlen Hrun) as [Hnd Hiff].
    exact (exhaustive_growth (acts (impl_of d)) start x y Hnd Hiff).
  Qed.

  (* ---- interactive BFS on impl_of d: the stored inverse-closed flag must be honest ---- *)
  Hypothesis Hflag : flag_sound d.

  Let Hsym : inv_closed (impl_of d) = true -> symmetric_on state (acts (impl_of d)) (Ustates d) :=
    perm_Sym splitmix_steps hash_mult d Hwf Hflag.

  (* C11_ibfs_growth *)
  Theorem ibfs_perm_growth :
    forall starts, (forall s, In s starts -> Ustates d s) ->
    forall k,
    map (@length Z) (ihashes (ibfs_after (impl_of d) starts k)) =
    map (fun i => length (layer state st_eq_dec (acts (impl_of d)) starts i)) (seq 0 (S k)).
  Proof. exact (@ibfs_growth (impl_of d) (Ustates d) Hcl Hnc Hid Hsym). Qed.

  (* C11_ibfs_layers *)
  Theorem ibfs_perm_impl_layers :
    forall starts, (forall s, In s starts -> Ustates d s) ->
    forall k,
    let b := ibfs_after (impl_of d) starts k in
    length (ihashes b) = S k /\
    NoDup (cur_layer b) /\
    set_eq (cur_layer b) (layer state st_eq_dec (acts (impl_of d)) starts k) /\
    (forall i, i <= k ->
       StronglySorted Z.lt (nth i (ihashes b) []) /\
       (forall h, In h (nth i (ihashes b) []) <->
          exists t, In t (layer state st_eq_dec (acts (impl_of d)) starts i) /\ hashf (impl_of d) t = h)) /\
    nth k (ihashes b) [] = map (hashf (impl_of d)) (cur_layer b).
  Proof. exact (@ibfs_layers (impl_of d) (Ustates d) Hcl Hnc Hid Hsym). Qed.

  (* ---- C11 end to end: the three engines agree on one graph ----
     a completed main BFS from [start] reports sizes; the interactive BFS stepped (number of layers - 1) times holds
     hash layers of exactly these sizes, and an unthinned BFS-mode walk labels exactly sizes[k] states with k *)
  Theorem engines_agree_perm :
    forall (cfg : bfs_cfg) start, Ustates d start -> (1 <= batch_size cfg)%Z ->
    forall o, bfs (impl_of d) cfg [start] = Ok o -> completed o = true ->
    map (@length Z) (ihashes (ibfs_after (impl_of d) [start] (length (sizes o) - 1))) = sizes o /\
    forall (width length_ : nat) (perms : list (list nat)) (x : list state) (y : list nat),
    1 <= width -> (forall s, In s (sizes o) -> s <= width) -> length (sizes o) <= length_ ->
    walks_bfs (impl_of d) width length_ start perms = Ok (x, y) ->
    forall k, walk_count x y k = nth k (sizes o) 0.
  Proof.
    intros cfg start Hs Hb o Ho Hc.
    assert (Hst : forall s, In s [start] -> Ustates d s) by (intros s [<- | []]; exact Hs).
    assert (Hne : [start] <> []) by discriminate.
    pose proof (bfs_perm_completed_correct d cfg Hwf Hflag Hnc Hb [start] Hst Hne o Ho Hc) as P.
    pose proof (bfs_perm_prefix d cfg Hwf Hflag Hnc Hb [start] Hst Hne o Ho) as Q.
    cbv zeta in P, Q. destruct P as (Psz & Pne & Pemp & _). destruct Q as (QD & _).
    set (L := fun i => layer state st_eq_dec (acts (impl_of d)) [start] i) in *.
    set (D := length (sizes o)) in *.
    split.
    - rewrite (ibfs_perm_growth [start] Hst (D - 1)). replace (S (D - 1)) with D by lia. symmetry. exact Psz.
    - intros width length_ perms x y Hw Hws Hlen Hrun k.
      assert (Hnth : forall i, nth i (sizes o) 0 = length (L i)).
      { intros i. destruct (le_lt_dec D i) as [Hge | Hlt].
        - rewrite nth_overflow by exact Hge. rewrite (Pemp i Hge). reflexivity.
        - rewrite Psz at 1. rewrite (nth_indep _ 0 (length (L 0))) by (rewrite map_length, seq_length; exact Hlt).
          rewrite (map_nth (fun j => length (L j))), seq_nth by exact Hlt. reflexivity. }
      rewrite Hnth.
      apply (walks_perm_bfs_growth start Hs width length_ perms x y (D - 1) Hw).
      + intros i. fold (L i). rewrite <- Hnth. destruct (le_lt_dec D i) as [Hge | Hlt].
        * rewrite nth_overflow by exact Hge. lia.
        * apply Hws. apply nth_In. exact Hlt.
      + replace (S (D - 1)) with D by lia. apply Pemp. lia.
      + lia.
      + exact Hrun.
  Qed.
End PermWalks.

(* the interactive BFS as the path environment runs it ([pe_G e] carries the computed flag: no flag hypothesis) *)
Theorem ibfs_perm_env_growth : forall d inv_mats e,
  wf_perm_desc d -> env_of d inv_mats = Some e -> NoCollOn (impl_of d) (Ustates d) ->
  forall starts, (forall s, In s starts -> Ustates d s) ->
  forall k,
  map (@length Z) (ihashes (ibfs_after (pe_G e) starts k)) =
  map (fun i => length (layer state st_eq_dec (acts (impl_of d)) starts i)) (seq 0 (S k)).
Proof.
  intros d inv_mats e Hwf He Hnc. prep Hwf He Hnc. rewrite <- (pe_G_acts d inv_mats e Hwf He).
  exact (@ibfs_growth (pe_G e) (Ustates d) Hcl HncG HidG HsymG).
Qed.

Theorem ibfs_perm_env_growth_unconditional : forall d inv_mats e,
  wf_perm_desc d -> env_of d inv_mats = Some e -> g_hasher d = HIdentity -> single_word d ->
  forall starts, (forall s, In s starts -> Ustates d s) ->
  forall k,
  map (@length Z) (ihashes (ibfs_after (pe_G e) starts k)) =
  map (fun i => length (layer state st_eq_dec (acts (impl_of d)) starts i)) (seq 0 (S k)).
Proof.
  intros d inv_mats e Hwf He Hh Hsw.
  exact (ibfs_perm_env_growth d inv_mats e Hwf He (proj1 (impl_of_identity_nocoll d Hwf Hh Hsw))).
Qed.
(* (the layer form for [pe_G e] is InstPaths.ibfs_perm_layers / ibfs_perm_layers_unconditional) *)

(* ------------------------------------------------------------------ *)
(** * 1b. Identity hasher on one-word codes: NO hash hypothesis at all
      (walks_perm_classic_spec and walks_perm_nbt_spec above are already unconditional) *)

Theorem walks_perm_bfs_spec_unconditional : forall d,
  wf_perm_desc d -> g_hasher d = HIdentity -> single_word d ->
  forall start, Ustates d start ->
  forall (width length_ : nat) (perms : list (list nat)) (x : list state) (y : list nat),
  1 <= length_ -> 1 <= width ->
  Forall (fun p : list nat => NoDup p /\ Forall (fun i => i < length p) p) perms ->
  walks_bfs (impl_of d) width length_ start perms = Ok (x, y) ->
  length x = length y /\
  nth 0 x [] = start /\
  nth 0 y 1 = 0 /\
  NoDup x /\
  (forall i, i < length x -> reach state (acts (impl_of d)) [start] (nth i y 0) (nth i x [])).
Proof.
  intros d Hwf Hh Hsw.
  exact (walks_perm_bfs_spec d Hwf (proj1 (impl_of_identity_nocoll d Hwf Hh Hsw))).
Qed.

Theorem walks_perm_bfs_exhaustive_unconditional : forall d,
  wf_perm_desc d -> g_hasher d = HIdentity -> single_word d ->
  forall start, Ustates d start ->
  forall (width length_ : nat) (perms : list (list nat)) (x : list state) (y : list nat) (D : nat),
  1 <= width ->
  (forall i, length (layer state st_eq_dec (acts (impl_of d)) [start] i) <= width) ->
  layer state st_eq_dec (acts (impl_of d)) [start] (S D) = [] ->
  D < length_ ->
  walks_bfs (impl_of d) width length_ start perms = Ok (x, y) ->
  NoDup x /\
  (forall (t : state) (k : nat),
     (exists i, i < length x /\ nth i x [] = t /\ nth i y 0 = k) <->
     In t (layer state st_eq_dec (acts (impl_of d)) [start] k)).
Proof.
  intros d Hwf Hh Hsw.
  exact (walks_perm_bfs_exhaustive d Hwf (proj1 (impl_of_identity_nocoll d Hwf Hh Hsw))).
Qed.

Theorem walks_perm_bfs_exhaustive_fact_unconditional : forall d,
  wf_perm_desc d -> g_hasher d = HIdentity -> single_word d ->
  forall start, Ustates d start ->
  forall (width length_ : nat) (perms : list (list nat)) (x : list state) (y : list nat) (D : nat),
  fact (desc_n d) + 1 <= width ->
  layer state st_eq_dec (acts (impl_of d)) [start] (S D) = [] ->
  D < length_ ->
  walks_bfs (impl_of d) width length_ start perms = Ok (x, y) ->
  NoDup x /\
  (forall (t : state) (k : nat),
     (exists i, i < length x /\ nth i x [] = t /\ nth i y 0 = k) <->
     In t (layer state st_eq_dec (acts (impl_of d)) [start] k)).
Proof.
  intros d Hwf Hh Hsw.
  exact (walks_perm_bfs_exhaustive_fact d Hwf (proj1 (impl_of_identity_nocoll d Hwf Hh Hsw))).
Qed.

Theorem walks_perm_bfs_growth_unconditional : forall d,
  wf_perm_desc d -> g_hasher d = HIdentity -> single_word d ->
  forall start, Ustates d start ->
  forall (width length_ : nat) (perms : list (list nat)) (x : list state) (y : list nat) (D : nat),
  1 <= width ->
  (forall i, length (layer state st_eq_dec (acts (impl_of d)) [start] i) <= width) ->
  layer state st_eq_dec (acts (impl_of d)) [start] (S D) = [] ->
  D < length_ ->
  walks_bfs (impl_of d) width length_ start perms = Ok (x, y) ->
  forall k, walk_count x y k = length (layer state st_eq_dec (acts (impl_of d)) [start] k).
Proof.
  intros d Hwf Hh Hsw.
  exact (walks_perm_bfs_growth d Hwf (proj1 (impl_of_identity_nocoll d Hwf Hh Hsw))).
Qed.

Theorem ibfs_perm_growth_unconditional : forall d,
  wf_perm_desc d -> g_hasher d = HIdentity -> single_word d -> flag_sound d ->
  forall starts, (forall s, In s starts -> Ustates d s) ->
  forall k,
  map (@length Z) (ihashes (ibfs_after (impl_of d) starts k)) =
  map (fun i => length (layer state st_eq_dec (acts (impl_of d)) starts i)) (seq 0 (S k)).
Proof.
  intros d Hwf Hh Hsw Hflag.
  exact (ibfs_perm_growth d Hwf (proj1 (impl_of_identity_nocoll d Hwf Hh Hsw)) Hflag).
Qed.

Theorem ibfs_perm_impl_layers_unconditional : forall d,
  wf_perm_desc d -> g_hasher d = HIdentity -> single_word d -> flag_sound d ->
  forall starts, (forall s, In s starts -> Ustates d s) ->
  forall k,
  let b := ibfs_after (impl_of d) starts k in
  length (ihashes b) = S k /\
  NoDup (cur_layer b) /\
  set_eq (cur_layer b) (layer state st_eq_dec (acts (impl_of d)) starts k) /\
  (forall i, i <= k ->
     StronglySorted Z.lt (nth i (ihashes b) []) /\
     (forall h, In h (nth i (ihashes b) []) <->
        exists t, In t (layer state st_eq_dec (acts (impl_of d)) starts i) /\ hashf (impl_of d) t = h)) /\
  nth k (ihashes b) [] = map (hashf (impl_of d)) (cur_layer b).
Proof.
  intros d Hwf Hh Hsw Hflag.
  exact (ibfs_perm_impl_layers d Hwf (proj1 (impl_of_identity_nocoll d Hwf Hh Hsw)) Hflag).
Qed.

Theorem engines_agree_perm_unconditional : forall d,
  wf_perm_desc d -> g_hasher d = HIdentity -> single_word d -> flag_sound d ->
  forall (cfg : bfs_cfg) start, Ustates d start -> (1 <= batch_size cfg)%Z ->
  forall o, bfs (impl_of d) cfg [start] = Ok o -> completed o = true ->
  map (@length Z) (ihashes (ibfs_after (impl_of d) [start] (length (sizes o) - 1))) = sizes o /\
  forall (width length_ : nat) (perms : list (list nat)) (x : list state) (y : list nat),
  1 <= width -> (forall s, In s (sizes o) -> s <= width) -> length (sizes o) <= length_ ->
  walks_bfs (impl_of d) width length_ start perms = Ok (x, y) ->
  forall k, walk_count x y k = nth k (sizes o) 0.
Proof.
  intros d Hwf Hh Hsw Hflag.
  exact (engines_agree_perm d Hwf (proj1 (impl_of_identity_nocoll d Hwf Hh Hsw)) Hflag).
Qed.

(* ================================================================== *)
(** * Part 2. Matrix graphs *)

Lemma matrix_n_gens_impl d modulo n m mats :
  g_kind d = GMatrix modulo n m mats -> n_gens (impl_of d) = length mats.
Proof. intros Hk. unfold n_gens. rewrite (acts_matrix d modulo n m mats Hk). apply map_length. Qed.

Lemma matrix_n_gens_pos d : wf_matrix_core d = true -> 1 <= n_gens (impl_of d).
Proof.
  intros H. apply wf_matrix_core_spec in H as (modulo & n & m & mats & W).
  rewrite (matrix_n_gens_impl d modulo n m mats (InstMatrix.wf_kind _ _ _ _ _ W)).
  pose proof (wf_nonempty _ _ _ _ _ W) as Hne. destruct mats; [congruence | cbn; lia].
Qed.

(* C07_walks_classic_spec: no hashing, no well-formedness needed; the draws are indices into the matrix list *)
Theorem walks_matrix_classic_spec :
  forall d modulo n m mats, g_kind d = GMatrix modulo n m mats ->
  forall (start : state) (width length_ : nat) (draws : list (list nat)) (x : list state) (y : list nat),
  1 <= length_ ->
  length_ - 1 <= length draws ->
  Forall (fun dr : list nat => length dr = width /\ Forall (fun g => g < length mats) dr) draws ->
  walks_classic (impl_of d) width length_ start draws = (x, y) ->
  length x = width * length_ /\
  length y = width * length_ /\
  (forall i, i < width * length_ -> nth i y 0 = i / width) /\
  (forall i, i < width -> nth i x [] = start) /\
  (forall i, i + width < width * length_ ->
     exists M, In M mats /\ nth (i + width) x [] = mat_apply modulo n m M (nth i x [])) /\
  (forall i, i < width * length_ -> reach state (acts (impl_of d)) [start] (nth i y 0) (nth i x [])).
Proof.
  intros d modulo n m mats Hk start width length_ draws x y Hl Hdr Hd Hw.
  rewrite <- (matrix_n_gens_impl d modulo n m mats Hk) in Hd.
  destruct (@walks_classic_spec (impl_of d) start width length_ draws x y Hl Hdr Hd Hw)
    as (H1 & H2 & H3 & H4 & H5 & H6).
  split; [exact H1|]. split; [exact H2|]. split; [exact H3|]. split; [exact H4|]. split; [|exact H6].
  intros i Hi. destruct (H5 i Hi) as (g & Hg & Hx).
  rewrite (acts_matrix d modulo n m mats Hk) in Hg. apply in_map_iff in Hg as (M & <- & HM). exists M. auto.
Qed.

Section MatrixWalks.
  Variable d : gdesc.
  Hypothesis Hwf : wf_matrix_core d = true.

  (* C07_walks_nbt_spec, every history depth *)
  Theorem walks_matrix_nbt_spec :
    forall (start : state) (width length_ depth : nat) (perms : list (list nat)) (x : list state) (y : list nat),
    1 <= length_ -> 1 <= width ->
    Forall (fun p : list nat => Forall (fun i => i < length p) p) perms ->
    walks_nbt (impl_of d) width length_ depth start perms = Ok (x, y) ->
    length x = length y /\
    (forall i, i < width -> nth i x [] = start /\ nth i y 0 = 0) /\
    (forall i, i < length x -> reach state (acts (impl_of d)) [start] (nth i y 0) (nth i x [])).
  Proof.
    intros start width length_ depth perms x y Hl Hw Hp.
    exact (@walks_nbt_spec (impl_of d) start width length_ depth perms x y Hl Hw Hp (fun _ => matrix_n_gens_pos d Hwf)).
  Qed.

  Hypothesis NC : NoCollMat d.

  (* C07_walks_bfs_spec *)
  Theorem walks_matrix_bfs_spec :
    forall start, Umat d start ->
    forall (width length_ : nat) (perms : list (list nat)) (x : list state) (y : list nat),
    1 <= length_ -> 1 <= width ->
    Forall (fun p : list nat => NoDup p /\ Forall (fun i => i < length p) p) perms ->
    walks_bfs (impl_of d) width length_ start perms = Ok (x, y) ->
    length x = length y /\
    nth 0 x [] = start /\
    nth 0 y 1 = 0 /\
    NoDup x /\
    (forall i, i < length x -> reach state (acts (impl_of d)) [start] (nth i y 0) (nth i x [])).
  Proof.
    intros start Hs.
    exact (@walks_bfs_spec (impl_of d) start (Umat d) (matrix_closed d Hwf) NC (matrix_unword d Hwf) Hs).
  Qed.

  (* C07_walks_bfs_exhaustive = C11_walks_bfs_exhaustive *)
  Theorem walks_matrix_bfs_exhaustive :
    forall start, Umat d start ->
    forall (width length_ : nat) (perms : list (list nat)) (x : list state) (y : list nat) (D : nat),
    1 <= width ->
    (forall i, length (layer state st_eq_dec (acts (impl_of d)) [start] i) <= width) ->
    layer state st_eq_dec (acts (impl_of d)) [start] (S D) = [] ->
    D < length_ ->
    walks_bfs (impl_of d) width length_ start perms = Ok (x, y) ->
    NoDup x /\
    (forall (t : state) (k : nat),
       (exists i, i < length x /\ nth i x [] = t /\ nth i y 0 = k) <->
       In t (layer state st_eq_dec (acts (impl_of d)) [start] k)).
  Proof.
    intros start Hs.
    exact (@walks_bfs_exhaustive (impl_of d) start (Umat d) (matrix_closed d Hwf) NC (matrix_unword d Hwf) Hs).
  Qed.

  Theorem walks_matrix_bfs_growth :
    forall start, Umat d start ->
    forall (width length_ : nat) (perms : list (list nat)) (x : list state) (y : list nat) (D : nat),
    1 <= width ->
    (forall i, length (layer state st_eq_dec (acts (impl_of d)) [start] i) <= width) ->
    layer state st_eq_dec (acts (impl_of d)) [start] (S D) = [] ->
    D < length_ ->
    walks_bfs (impl_of d) width length_ start perms = Ok (x, y) ->
    forall k, walk_count x y k = length (layer state st_eq_dec (acts (impl_of d)) [start] k).
  Proof.
    intros start Hs width length_ perms x y D Hw Hlay HD Hlen Hrun.
    destruct (walks_matrix_bfs_exhaustive start Hs width length_ perms x y D Hw Hlay HD Hlen Hrun) as [Hnd Hiff].
    exact (exhaustive_growth (acts (impl_of d)) start x y Hnd Hiff).
  Qed.

  (* ---- interactive BFS on impl_of d: the stored inverse-closed flag must be honest (wf_matrix_desc) ---- *)
  Hypothesis Hflag : flag_okb d = true.

  Let Hwfd : wf_matrix_desc d = true.
  Proof. unfold wf_matrix_desc. rewrite Hwf, Hflag. reflexivity. Qed.

  (* C11_ibfs_growth *)
  Theorem ibfs_matrix_growth :
    forall starts, (forall s, In s starts -> Umat d s) ->
    forall k,
    map (@length Z) (ihashes (ibfs_after (impl_of d) starts k)) =
    map (fun i => length (layer state st_eq_dec (acts (impl_of d)) starts i)) (seq 0 (S k)).
  Proof.
    exact (@ibfs_growth (impl_of d) (Umat d) (matrix_closed d Hwf) NC (matrix_unword d Hwf) (matrix_symmetric d Hwfd)).
  Qed.

  (* C11_ibfs_layers *)
  Theorem ibfs_matrix_layers :
    forall starts, (forall s, In s starts -> Umat d s) ->
    forall k,
    let b := ibfs_after (impl_of d) starts k in
    length (ihashes b) = S k /\
    NoDup (cur_layer b) /\
    set_eq (cur_layer b) (layer state st_eq_dec (acts (impl_of d)) starts k) /\
    (forall i, i <= k ->
       StronglySorted Z.lt (nth i (ihashes b) []) /\
       (forall h, In h (nth i (ihashes b) []) <->
          exists t, In t (layer state st_eq_dec (acts (impl_of d)) starts i) /\ hashf (impl_of d) t = h)) /\
    nth k (ihashes b) [] = map (hashf (impl_of d)) (cur_layer b).
  Proof.
    exact (@ibfs_layers (impl_of d) (Umat d) (matrix_closed d Hwf) NC (matrix_unword d Hwf) (matrix_symmetric d Hwfd)).
  Qed.

  (* C11 end to end: main BFS, interactive BFS and unthinned walk agree *)
  Theorem engines_agree_matrix :
    forall (cfg : bfs_cfg) start, Umat d start -> (1 <= batch_size cfg)%Z ->
    forall o, bfs (impl_of d) cfg [start] = Ok o -> completed o = true ->
    map (@length Z) (ihashes (ibfs_after (impl_of d) [start] (length (sizes o) - 1))) = sizes o /\
    forall (width length_ : nat) (perms : list (list nat)) (x : list state) (y : list nat),
    1 <= width -> (forall s, In s (sizes o) -> s <= width) -> length (sizes o) <= length_ ->
    walks_bfs (impl_of d) width length_ start perms = Ok (x, y) ->
    forall k, walk_count x y k = nth k (sizes o) 0.
  Proof.
    intros cfg start Hs Hb o Ho Hc.
    assert (Hst : forall s, In s [start] -> Umat d s) by (intros s [<- | []]; exact Hs).
    assert (Hne : [start] <> []) by discriminate.
    pose proof (matrix_bfs_completed_correct d cfg Hwfd NC Hb [start] Hst Hne o Ho Hc) as P.
    pose proof (matrix_bfs_prefix d cfg Hwfd NC Hb [start] Hst Hne o Ho) as Q.
    cbv zeta in P, Q. destruct P as (Psz & Pne & Pemp & _). destruct Q as (QD & _).
    set (L := fun i => layer state st_eq_dec (acts (impl_of d)) [start] i) in *.
    set (D := length (sizes o)) in *.
    split.
    - rewrite (ibfs_matrix_growth [start] Hst (D - 1)). replace (S (D - 1)) with D by lia. symmetry. exact Psz.
    - intros width length_ perms x y Hw Hws Hlen Hrun k.
      assert (Hnth : forall i, nth i (sizes o) 0 = length (L i)).
      { intros i. destruct (le_lt_dec D i) as [Hge | Hlt].
        - rewrite nth_overflow by exact Hge. rewrite (Pemp i Hge). reflexivity.
        - rewrite Psz at 1. rewrite (nth_indep _ 0 (length (L 0))) by (rewrite map_length, seq_length; exact Hlt).
          rewrite (map_nth (fun j => length (L j))), seq_nth by exact Hlt. reflexivity. }
      rewrite Hnth.
      apply (walks_matrix_bfs_growth start Hs width length_ perms x y (D - 1) Hw).
      + intros i. fold (L i). rewrite <- Hnth. destruct (le_lt_dec D i) as [Hge | Hlt].
        * rewrite nth_overflow by exact Hge. lia.
        * apply Hws. apply nth_In. exact Hlt.
      + replace (S (D - 1)) with D by lia. apply Pemp. lia.
      + lia.
      + exact Hrun.
  Qed.
End MatrixWalks.

(* the interactive BFS as the path environment runs it *)
Theorem ibfs_matrix_env_growth : forall d inv_mats e,
  wf_matrix_core d = true -> wf_inv_mats d inv_mats = true -> env_of d inv_mats = Some e -> NoCollMat d ->
  forall starts, (forall s, In s starts -> Umat d s) ->
  forall k,
  map (@length Z) (ihashes (ibfs_after (pe_G e) starts k)) =
  map (fun i => length (layer state st_eq_dec (acts (impl_of d)) starts i)) (seq 0 (S k)).
Proof.
  intros d inv_mats e Hwf Hinv He NC.
  pose proof (matrix_env_facts d inv_mats e Hwf Hinv He) as F.
  destruct (env_of_shares_origin d inv_mats e He) as (_ & _ & Hacts & _). rewrite <- Hacts.
  exact (@ibfs_growth (pe_G e) (Umat d) (ef_closed _ _ F) (proj1 (env_of_nocoll d inv_mats e (Umat d) He NC))
           (ef_idok _ _ F) (ef_sym _ _ F)).
Qed.

Theorem ibfs_matrix_env_layers : forall d inv_mats e,
  wf_matrix_core d = true -> wf_inv_mats d inv_mats = true -> env_of d inv_mats = Some e -> NoCollMat d ->
  forall starts, (forall s, In s starts -> Umat d s) ->
  forall k,
  let b := ibfs_after (pe_G e) starts k in
  length (ihashes b) = S k /\
  NoDup (cur_layer b) /\
  set_eq (cur_layer b) (layer state st_eq_dec (acts (pe_G e)) starts k) /\
  (forall i, i <= k ->
     StronglySorted Z.lt (nth i (ihashes b) []) /\
     (forall h, In h (nth i (ihashes b) []) <->
        exists t, In t (layer state st_eq_dec (acts (pe_G e)) starts i) /\ hashf (pe_G e) t = h)) /\
  nth k (ihashes b) [] = map (hashf (pe_G e)) (cur_layer b).
Proof.
  intros d inv_mats e Hwf Hinv He NC.
  pose proof (matrix_env_facts d inv_mats e Hwf Hinv He) as F.
  exact (@ibfs_layers (pe_G e) (Umat d) (ef_closed _ _ F) (proj1 (env_of_nocoll d inv_mats e (Umat d) He NC))
           (ef_idok _ _ F) (ef_sym _ _ F)).
Qed.

Lemma wf_matrix_desc_flag d : wf_matrix_desc d = true -> flag_okb d = true.
Proof. unfold wf_matrix_desc. intros H. apply andb_true_iff in H. tauto. Qed.

(* the three flag-dependent theorems with the single hypothesis [wf_matrix_desc d] (= core && flag) *)

Theorem ibfs_matrix_growth_desc : forall d,
  wf_matrix_desc d = true -> NoCollMat d ->
  forall starts, (forall s, In s starts -> Umat d s) ->
  forall k,
  map (@length Z) (ihashes (ibfs_after (impl_of d) starts k)) =
  map (fun i => length (layer state st_eq_dec (acts (impl_of d)) starts i)) (seq 0 (S k)).
Proof.
  intros d Hwf NC.
  exact (ibfs_matrix_growth d (wf_matrix_desc_core d Hwf) NC (wf_matrix_desc_flag d Hwf)).
Qed.

Theorem ibfs_matrix_layers_desc : forall d,
  wf_matrix_desc d = true -> NoCollMat d ->
  forall starts, (forall s, In s starts -> Umat d s) ->
  forall k,
  let b := ibfs_after (impl_of d) starts k in
  length (ihashes b) = S k /\
  NoDup (cur_layer b) /\
  set_eq (cur_layer b) (layer state st_eq_dec (acts (impl_of d)) starts k) /\
  (forall i, i <= k ->
     StronglySorted Z.lt (nth i (ihashes b) []) /\
     (forall h, In h (nth i (ihashes b) []) <->
        exists t, In t (layer state st_eq_dec (acts (impl_of d)) starts i) /\ hashf (impl_of d) t = h)) /\
  nth k (ihashes b) [] = map (hashf (impl_of d)) (cur_layer b).
Proof.
  intros d Hwf NC.
  exact (ibfs_matrix_layers d (wf_matrix_desc_core d Hwf) NC (wf_matrix_desc_flag d Hwf)).
Qed.

Theorem engines_agree_matrix_desc : forall d,
  wf_matrix_desc d = true -> NoCollMat d ->
  forall (cfg : bfs_cfg) start, Umat d start -> (1 <= batch_size cfg)%Z ->
  forall o, bfs (impl_of d) cfg [start] = Ok o -> completed o = true ->
  map (@length Z) (ihashes (ibfs_after (impl_of d) [start] (length (sizes o) - 1))) = sizes o /\
  forall (width length_ : nat) (perms : list (list nat)) (x : list state) (y : list nat),
  1 <= width -> (forall s, In s (sizes o) -> s <= width) -> length (sizes o) <= length_ ->
  walks_bfs (impl_of d) width length_ start perms = Ok (x, y) ->
  forall k, walk_count x y k = nth k (sizes o) 0.
Proof.
  intros d Hwf NC.
  exact (engines_agree_matrix d (wf_matrix_desc_core d Hwf) NC (wf_matrix_desc_flag d Hwf)).
Qed.

(* ------------------------------------------------------------------ *)
(** * 2b. Identity hasher (1 x 1 matrices): NO hash hypothesis at all
      (walks_matrix_classic_spec and walks_matrix_nbt_spec above are already unconditional) *)

Theorem walks_matrix_bfs_spec_unconditional : forall d,
  wf_matrix_core d = true -> is_identity (impl_of d) = true ->
  forall start, Umat d start ->
  forall (width length_ : nat) (perms : list (list nat)) (x : list state) (y : list nat),
  1 <= length_ -> 1 <= width ->
  Forall (fun p : list nat => NoDup p /\ Forall (fun i => i < length p) p) perms ->
  walks_bfs (impl_of d) width length_ start perms = Ok (x, y) ->
  length x = length y /\
  nth 0 x [] = start /\
  nth 0 y 1 = 0 /\
  NoDup x /\
  (forall i, i < length x -> reach state (acts (impl_of d)) [start] (nth i y 0) (nth i x [])).
Proof.
  intros d Hwf Hid.
  exact (walks_matrix_bfs_spec d Hwf (matrix_identity_nocoll d Hwf Hid)).
Qed.

Theorem walks_matrix_bfs_exhaustive_unconditional : forall d,
  wf_matrix_core d = true -> is_identity (impl_of d) = true ->
  forall start, Umat d start ->
  forall (width length_ : nat) (perms : list (list nat)) (x : list state) (y : list nat) (D : nat),
  1 <= width ->
  (forall i, length (layer state st_eq_dec (acts (impl_of d)) [start] i) <= width) ->
  layer state st_eq_dec (acts (impl_of d)) [start] (S D) = [] ->
  D < length_ ->
  walks_bfs (impl_of d) width length_ start perms = Ok (x, y) ->
  NoDup x /\
  (forall (t : state) (k : nat),
     (exists i, i < length x /\ nth i x [] = t /\ nth i y 0 = k) <->
     In t (layer state st_eq_dec (acts (impl_of d)) [start] k)).
Proof.
  intros d Hwf Hid.
  exact (walks_matrix_bfs_exhaustive d Hwf (matrix_identity_nocoll d Hwf Hid)).
Qed.

Theorem walks_matrix_bfs_growth_unconditional : forall d,
  wf_matrix_core d = true -> is_identity (impl_of d) = true ->
  forall start, Umat d start ->
  forall (width length_ : nat) (perms : list (list nat)) (x : list state) (y : list nat) (D : nat),
  1 <= width ->
  (forall i, length (layer state st_eq_dec (acts (impl_of d)) [start] i) <= width) ->
  layer state st_eq_dec (acts (impl_of d)) [start] (S D) = [] ->
  D < length_ ->
  walks_bfs (impl_of d) width length_ start perms = Ok (x, y) ->
  forall k, walk_count x y k = length (layer state st_eq_dec (acts (impl_of d)) [start] k).
Proof.
  intros d Hwf Hid.
  exact (walks_matrix_bfs_growth d Hwf (matrix_identity_nocoll d Hwf Hid)).
Qed.

Theorem ibfs_matrix_growth_unconditional : forall d,
  wf_matrix_desc d = true -> is_identity (impl_of d) = true ->
  forall starts, (forall s, In s starts -> Umat d s) ->
  forall k,
  map (@length Z) (ihashes (ibfs_after (impl_of d) starts k)) =
  map (fun i => length (layer state st_eq_dec (acts (impl_of d)) starts i)) (seq 0 (S k)).
Proof.
  intros d Hwf Hid.
  exact (ibfs_matrix_growth_desc d Hwf (NoCollMat_identity d Hwf Hid)).
Qed.

Theorem ibfs_matrix_layers_unconditional : forall d,
  wf_matrix_desc d = true -> is_identity (impl_of d) = true ->
  forall starts, (forall s, In s starts -> Umat d s) ->
  forall k,
  let b := ibfs_after (impl_of d) starts k in
  length (ihashes b) = S k /\
  NoDup (cur_layer b) /\
  set_eq (cur_layer b) (layer state st_eq_dec (acts (impl_of d)) starts k) /\
  (forall i, i <= k ->
     StronglySorted Z.lt (nth i (ihashes b) []) /\
     (forall h, In h (nth i (ihashes b) []) <->
        exists t, In t (layer state st_eq_dec (acts (impl_of d)) starts i) /\ hashf (impl_of d) t = h)) /\
  nth k (ihashes b) [] = map (hashf (impl_of d)) (cur_layer b).
Proof.
  intros d Hwf Hid.
  exact (ibfs_matrix_layers_desc d Hwf (NoCollMat_identity d Hwf Hid)).
Qed.

Theorem engines_agree_matrix_unconditional : forall d,
  wf_matrix_desc d = true -> is_identity (impl_of d) = true ->
  forall (cfg : bfs_cfg) start, Umat d start -> (1 <= batch_size cfg)%Z ->
  forall o, bfs (impl_of d) cfg [start] = Ok o -> completed o = true ->
  map (@length Z) (ihashes (ibfs_after (impl_of d) [start] (length (sizes o) - 1))) = sizes o /\
  forall (width length_ : nat) (perms : list (list nat)) (x : list state) (y : list nat),
  1 <= width -> (forall s, In s (sizes o) -> s <= width) -> length (sizes o) <= length_ ->
  walks_bfs (impl_of d) width length_ start perms = Ok (x, y) ->
  forall k, walk_count x y k = nth k (sizes o) 0.
Proof.
  intros d Hwf Hid.
  exact (engines_agree_matrix_desc d Hwf (NoCollMat_identity d Hwf Hid)).
Qed.

(* ================================================================== *)
(** * Part 3. Non-vacuity *)

Local Open Scope Z_scope.

Definition walk_s0 : state := [3; 1; 4; 0; 2].
Example walk_s0_U : Ustates lrx5 walk_s0.
Proof. apply Ustatesb_spec. vm_compute. reflexivity. Qed.

Lemma Forall_by_forallb {A} (P : A -> Prop) (f : A -> bool) (l : list A) :
  (forall a, f a = true -> P a) -> forallb f l = true -> Forall P l.
Proof. intros Hf H. apply Forall_forall. intros a Ha. apply Hf. rewrite forallb_forall in H. apply H, Ha. Qed.

(* boolean forms of the oracle side conditions *)
Definition draws_okb (width ngens : nat) (draws : list (list nat)) : bool :=
  forallb (fun dr => (length dr =? width)%nat && forallb (fun g => (g <? ngens)%nat) dr) draws.
Lemma draws_okb_spec width ngens draws : draws_okb width ngens draws = true ->
  Forall (fun dr : list nat => length dr = width /\ Forall (fun g => (g < ngens)%nat) dr) draws.
Proof.
  apply Forall_by_forallb. intros dr H. apply andb_true_iff in H as [H1 H2]. apply Nat.eqb_eq in H1. split; [exact H1|].
  revert H2. apply Forall_by_forallb. intros g Hg. apply Nat.ltb_lt. exact Hg.
Qed.

Definition inrange_okb (perms : list (list nat)) : bool :=
  forallb (fun p => forallb (fun i => (i <? length p)%nat) p) perms.
Lemma inrange_okb_spec perms : inrange_okb perms = true ->
  Forall (fun p : list nat => Forall (fun i => (i < length p)%nat) p) perms.
Proof.
  apply Forall_by_forallb. intros p. apply Forall_by_forallb. intros i Hi. apply Nat.ltb_lt. exact Hi.
Qed.

Definition randperm_okb (perms : list (list nat)) : bool :=
  forallb (fun p => Beam.nodup_nat p && forallb (fun i => (i <? length p)%nat) p) perms.
Lemma nodup_nat_NoDup l : Beam.nodup_nat l = true -> NoDup l.
Proof.
  induction l as [|a t IH]; intros H; [constructor|].
  cbn [Beam.nodup_nat] in H. apply andb_true_iff in H as [H1 H2]. constructor; [|apply IH; exact H2].
  intros Hin. apply negb_true_iff in H1. assert (existsb (Nat.eqb a) t = true) as E; [|congruence].
  apply existsb_exists. exists a. split; [exact Hin | apply Nat.eqb_refl].
Qed.
Lemma randperm_okb_spec perms : randperm_okb perms = true ->
  Forall (fun p : list nat => NoDup p /\ Forall (fun i => (i < length p)%nat) p) perms.
Proof.
  apply Forall_by_forallb. intros p H. apply andb_true_iff in H as [H1 H2]. split; [apply nodup_nat_NoDup; exact H1|].
  revert H2. apply Forall_by_forallb. intros i Hi. apply Nat.ltb_lt. exact Hi.
Qed.

(* ---- LRX(5): classic walks (2 walks of 3 states; draws L,X then R,R) ---- *)
Example lrx5_walk_classic :
  exists x y, walks_classic (impl_of lrx5) 2 3 walk_s0 [[0; 2]; [1; 1]]%nat = (x, y) /\
    y = [0; 0; 1; 1; 2; 2]%nat /\ nth 5 x [] = [2; 1; 3; 4; 0] /\
    (forall i, (i < 6)%nat -> reach state (acts (impl_of lrx5)) [walk_s0] (nth i y 0%nat) (nth i x [])) /\
    reach state (acts (impl_of lrx5)) [walk_s0] 2 [2; 1; 3; 4; 0].
Proof.
  destruct (walks_classic (impl_of lrx5) 2 3 walk_s0 [[0; 2]; [1; 1]]%nat) as [x y] eqn:E.
  exists x, y. split; [reflexivity|].
  assert (Hc : walks_classic (impl_of lrx5) 2 3 walk_s0 [[0; 2]; [1; 1]]%nat =
               ([[3; 1; 4; 0; 2]; [3; 1; 4; 0; 2]; [1; 4; 0; 2; 3]; [1; 3; 4; 0; 2]; [3; 1; 4; 0; 2]; [2; 1; 3; 4; 0]],
                [0; 0; 1; 1; 2; 2]%nat)) by (vm_compute; reflexivity).
  assert (Hd : Forall (fun dr : list nat => length dr = 2%nat /\ Forall (fun g => (g < length (desc_perms lrx5))%nat) dr)
                 [[0; 2]; [1; 1]]%nat) by (apply draws_okb_spec; vm_compute; reflexivity).
  destruct (walks_perm_classic_spec lrx5 lrx5_wf walk_s0 2 3 [[0; 2]; [1; 1]]%nat x y ltac:(lia) ltac:(cbn; lia) Hd E)
    as (_ & _ & _ & _ & _ & H6).
  rewrite E in Hc. inversion Hc; subst x y. split; [reflexivity|]. split; [reflexivity|]. split; [exact H6|].
  exact (H6 5%nat ltac:(lia)).
Qed.

(* ---- nbt walks, history depth 0 (the default) and 2 ---- *)
Example lrx5_walk_nbt :
  (exists x y, walks_nbt (impl_of lrx5) 2 3 0 walk_s0 [[4; 1; 0; 2; 3; 5]; [5; 4; 3; 2; 1; 0]]%nat = Ok (x, y) /\
     length x = 6%nat /\ length x = length y /\
     (forall i, (i < length x)%nat -> reach state (acts (impl_of lrx5)) [walk_s0] (nth i y 0%nat) (nth i x []))) /\
  (exists x y, walks_nbt (impl_of lrx5) 2 3 2 walk_s0 [[4; 1; 0; 2; 3; 5]; [3; 2; 1; 0]]%nat = Ok (x, y) /\
     length x = 6%nat /\ length x = length y /\
     (forall i, (i < length x)%nat -> reach state (acts (impl_of lrx5)) [walk_s0] (nth i y 0%nat) (nth i x []))).
Proof.
  split.
  - destruct (walks_nbt (impl_of lrx5) 2 3 0 walk_s0 [[4; 1; 0; 2; 3; 5]; [5; 4; 3; 2; 1; 0]]%nat) as [[x y]|er] eqn:E.
    2:{ exfalso. assert (H : match walks_nbt (impl_of lrx5) 2 3 0 walk_s0 [[4; 1; 0; 2; 3; 5]; [5; 4; 3; 2; 1; 0]]%nat with
                             | Ok _ => true | Err _ => false end = true) by (vm_compute; reflexivity).
        rewrite E in H. discriminate. }
    assert (Hl : match walks_nbt (impl_of lrx5) 2 3 0 walk_s0 [[4; 1; 0; 2; 3; 5]; [5; 4; 3; 2; 1; 0]]%nat with
                 | Ok (x', _) => (length x' =? 6)%nat | Err _ => false end = true) by (vm_compute; reflexivity).
    rewrite E in Hl. apply Nat.eqb_eq in Hl.
    exists x, y. split; [reflexivity|]. split; [exact Hl|].
    destruct (walks_perm_nbt_spec lrx5 lrx5_wf walk_s0 2 3 0 [[4; 1; 0; 2; 3; 5]; [5; 4; 3; 2; 1; 0]]%nat x y ltac:(lia) ltac:(lia)
                (inrange_okb_spec [[4; 1; 0; 2; 3; 5]; [5; 4; 3; 2; 1; 0]]%nat ltac:(vm_compute; reflexivity)) E) as (H1 & _ & H3).
    split; [exact H1 | exact H3].
  - destruct (walks_nbt (impl_of lrx5) 2 3 2 walk_s0 [[4; 1; 0; 2; 3; 5]; [3; 2; 1; 0]]%nat) as [[x y]|er] eqn:E.
    2:{ exfalso. assert (H : match walks_nbt (impl_of lrx5) 2 3 2 walk_s0 [[4; 1; 0; 2; 3; 5]; [3; 2; 1; 0]]%nat with
                             | Ok _ => true | Err _ => false end = true) by (vm_compute; reflexivity).
        rewrite E in H. discriminate. }
    assert (Hl : match walks_nbt (impl_of lrx5) 2 3 2 walk_s0 [[4; 1; 0; 2; 3; 5]; [3; 2; 1; 0]]%nat with
                 | Ok (x', _) => (length x' =? 6)%nat | Err _ => false end = true) by (vm_compute; reflexivity).
    rewrite E in Hl. apply Nat.eqb_eq in Hl.
    exists x, y. split; [reflexivity|]. split; [exact Hl|].
    destruct (walks_perm_nbt_spec lrx5 lrx5_wf walk_s0 2 3 2 [[4; 1; 0; 2; 3; 5]; [3; 2; 1; 0]]%nat x y ltac:(lia) ltac:(lia)
                (inrange_okb_spec [[4; 1; 0; 2; 3; 5]; [3; 2; 1; 0]]%nat ltac:(vm_compute; reflexivity)) E) as (H1 & _ & H3).
    split; [exact H1 | exact H3].
Qed.

(* ---- bfs-mode walk, thinned to width 2 (three recorded randperms): unconditional ---- *)
Example lrx5_walk_bfs_thinned :
  exists x y, walks_bfs (impl_of lrx5) 2 4 walk_s0 [[2; 0; 1]; [1; 2; 0; 3]; [0; 1; 2; 3]]%nat = Ok (x, y) /\
    y = [0; 1; 1; 2; 2; 3; 3]%nat /\ NoDup x /\
    (forall i, (i < length x)%nat -> reach state (acts (impl_of lrx5)) [walk_s0] (nth i y 0%nat) (nth i x [])).
Proof.
  destruct (walks_bfs (impl_of lrx5) 2 4 walk_s0 [[2; 0; 1]; [1; 2; 0; 3]; [0; 1; 2; 3]]%nat) as [[x y]|er] eqn:E.
  2:{ exfalso. assert (H : match walks_bfs (impl_of lrx5) 2 4 walk_s0 [[2; 0; 1]; [1; 2; 0; 3]; [0; 1; 2; 3]]%nat with
                           | Ok _ => true | Err _ => false end = true) by (vm_compute; reflexivity).
      rewrite E in H. discriminate. }
  assert (Hy : match walks_bfs (impl_of lrx5) 2 4 walk_s0 [[2; 0; 1]; [1; 2; 0; 3]; [0; 1; 2; 3]]%nat with
               | Ok (_, y') => nat_list_eqb y' [0; 1; 1; 2; 2; 3; 3]%nat | Err _ => false end = true)
    by (vm_compute; reflexivity).
  rewrite E in Hy. apply PermProofs.list_eqb_nat_true in Hy.
  exists x, y. split; [reflexivity|]. split; [exact Hy|].
  destruct (walks_perm_bfs_spec_unconditional lrx5 lrx5_wf eq_refl lrx5_single walk_s0 walk_s0_U 2 4 [[2; 0; 1]; [1; 2; 0; 3]; [0; 1; 2; 3]]%nat x y
              ltac:(lia) ltac:(lia) (randperm_okb_spec [[2; 0; 1]; [1; 2; 0; 3]; [0; 1; 2; 3]]%nat ltac:(vm_compute; reflexivity)) E) as (_ & _ & _ & H4 & H5).
  split; [exact H4 | exact H5].
Qed.

(* ---- C11 on LRX(5), unconditional: the unthinned walk (width 121 = 5! + 1, 11 rounds) labels exactly
        1,3,6,10,16,24,29,21,6,3,1 states with 0..10 - the growth function InstBfs.lrx5_growth proved for the main
        BFS - and the interactive BFS stepped 10 times holds hash layers of these sizes ---- *)
Example lrx5_engines_agree :
  (exists x y, walks_bfs (impl_of lrx5) 121 11 (g_central lrx5) [] = Ok (x, y) /\
     map (walk_count x y) (seq 0 11) = [1; 3; 6; 10; 16; 24; 29; 21; 6; 3; 1]%nat /\
     (forall k, (11 <= k)%nat -> walk_count x y k = 0%nat)) /\
  map (@length Z) (ihashes (ibfs_after (impl_of lrx5) [g_central lrx5] 10)) = [1; 3; 6; 10; 16; 24; 29; 21; 6; 3; 1]%nat.
Proof.
  destruct lrx5_run as (o & Ho & Hc & Hsz).
  assert (HcU : Ustates lrx5 (g_central lrx5)) by apply (perm_central_U splitmix_steps hash_mult lrx5 lrx5_wf).
  destruct (engines_agree_perm_unconditional lrx5 lrx5_wf eq_refl lrx5_single lrx5_flag cfg_default (g_central lrx5) HcU
              ltac:(cbn; lia) o Ho Hc) as [Hi Hw].
  rewrite Hsz in Hi, Hw. cbn [length Nat.sub] in Hi. split; [|exact Hi].
  destruct (walks_bfs (impl_of lrx5) 121 11 (g_central lrx5) []) as [[x y]|er] eqn:E.
  2:{ exfalso. assert (H : match walks_bfs (impl_of lrx5) 121 11 (g_central lrx5) [] with
                           | Ok _ => true | Err _ => false end = true) by (vm_compute; reflexivity).
      rewrite E in H. discriminate. }
  exists x, y. split; [reflexivity|].
  assert (Hk : forall k, walk_count x y k = nth k [1; 3; 6; 10; 16; 24; 29; 21; 6; 3; 1]%nat 0%nat).
  { apply (Hw 121%nat 11%nat [] x y); [lia | | cbn; lia | exact E].
    intros s Hs. cbn in Hs. lia. }
  split.
  - cbn [seq map]. rewrite !Hk. reflexivity.
  - intros k Hge. rewrite Hk. apply nth_overflow. cbn. exact Hge.
Qed.

(* the NoColl-conditional theorems apply to the two-word splitmix description *)
Example big24_walk_instance :
  NoCollOn (impl_of big24) (Ustates big24) ->
  forall width length_ perms x y, (1 <= length_)%nat -> (1 <= width)%nat ->
  Forall (fun p : list nat => NoDup p /\ Forall (fun i => (i < length p)%nat) p) perms ->
  walks_bfs (impl_of big24) width length_ (g_central big24) perms = Ok (x, y) -> NoDup x.
Proof.
  intros Hnc width length_ perms x y Hl Hw Hp Hrun.
  apply (walks_perm_bfs_spec big24 big24_wf Hnc (g_central big24)
           (perm_central_U splitmix_steps hash_mult big24 big24_wf) width length_ perms x y Hl Hw Hp Hrun).
Qed.

(* ---- matrix graphs: the Heisenberg vectors mod 5 (dot-product hash, NoColl by enumeration) ---- *)

Example heisv_walk_classic :
  exists x y, walks_classic (impl_of heisv_desc) 2 3 [2; 3; 1] [[0; 1]; [1; 1]]%nat = (x, y) /\
    nth 5 x [] = [2; 0; 1] /\ reach state (acts (impl_of heisv_desc)) [[2; 3; 1]] 2 [2; 0; 1].
Proof.
  destruct (walks_classic (impl_of heisv_desc) 2 3 [2; 3; 1] [[0; 1]; [1; 1]]%nat) as [x y] eqn:E.
  exists x, y. split; [reflexivity|].
  assert (Hc : walks_classic (impl_of heisv_desc) 2 3 [2; 3; 1] [[0; 1]; [1; 1]]%nat =
               ([[2; 3; 1]; [2; 3; 1]; [0; 3; 1]; [2; 4; 1]; [0; 4; 1]; [2; 0; 1]], [0; 0; 1; 1; 2; 2]%nat))
    by (vm_compute; reflexivity).
  assert (Hd : Forall (fun dr : list nat => length dr = 2%nat /\ Forall (fun g => (g < length [heis_x; heis_y])%nat) dr)
                 [[0; 1]; [1; 1]]%nat) by (apply draws_okb_spec; vm_compute; reflexivity).
  destruct (walks_matrix_classic_spec heisv_desc 5 3%nat 1%nat [heis_x; heis_y] eq_refl [2; 3; 1] 2 3 [[0; 1]; [1; 1]]%nat x y
              ltac:(lia) ltac:(cbn; lia) Hd E) as (_ & _ & _ & _ & _ & H6).
  rewrite E in Hc. inversion Hc; subst x y. split; [reflexivity|]. exact (H6 5%nat ltac:(lia)).
Qed.

Lemma le_sum (l : list nat) s : In s l -> (s <= fold_right Nat.add 0%nat l)%nat.
Proof. induction l as [|a t IH]; intros H; [destruct H|]. cbn. destruct H as [-> | H]; [lia | specialize (IH H); lia]. Qed.

(* C11 for the matrix model: whatever the completed main BFS reported (its sizes sum to 25), the interactive BFS and
   an unthinned walk of width 25 report the same growth function *)
Example heisv_engines_agree :
  exists o, bfs (impl_of heisv_desc) heisv_cfg [g_central heisv_desc] = Ok o /\ completed o = true /\
    map (@length Z) (ihashes (ibfs_after (impl_of heisv_desc) [g_central heisv_desc] (length (sizes o) - 1))) = sizes o /\
    forall length_ perms x y, (length (sizes o) <= length_)%nat ->
      walks_bfs (impl_of heisv_desc) 25 length_ (g_central heisv_desc) perms = Ok (x, y) ->
      forall k, walk_count x y k = nth k (sizes o) 0%nat.
Proof.
  destruct heisv_bfs_run as (o & Ho & Hc & Hsum). exists o. split; [exact Ho|]. split; [exact Hc|].
  destruct (engines_agree_matrix_desc heisv_desc heisv_wf heisv_nocoll heisv_cfg (g_central heisv_desc)
              (matrix_central_U _ (wf_matrix_desc_core _ heisv_wf)) ltac:(cbn; lia) o Ho Hc) as [Hi Hw].
  split; [exact Hi|]. intros length_ perms x y Hlen Hrun.
  apply (Hw 25%nat length_ perms x y); [lia | | exact Hlen | exact Hrun].
  intros s Hs. rewrite <- Hsum. apply le_sum. exact Hs.
Qed.

(* and the run exists: 1,1,2,4,7,6,4 *)
Example heisv_walk_run :
  match walks_bfs (impl_of heisv_desc) 25 9 (g_central heisv_desc) [] with
  | Ok (x, y) => map (walk_count x y) (seq 0 8) | Err _ => [] end = [1; 1; 2; 4; 7; 6; 4; 0]%nat.
Proof. vm_compute. reflexivity. Qed.

(* ---- 1 x 1 matrices with the identity hasher: unconditional ---- *)
Example mul2_engines_agree_unconditional :
  exists o, bfs (impl_of mul2_desc) heisv_cfg [g_central mul2_desc] = Ok o /\ completed o = true /\ sizes o = [1; 1; 1; 1]%nat /\
    map (@length Z) (ihashes (ibfs_after (impl_of mul2_desc) [g_central mul2_desc] 3)) = [1; 1; 1; 1]%nat /\
    forall perms x y, walks_bfs (impl_of mul2_desc) 1 5 (g_central mul2_desc) perms = Ok (x, y) ->
      map (walk_count x y) (seq 0 5) = [1; 1; 1; 1; 0]%nat.
Proof.
  destruct (bfs (impl_of mul2_desc) heisv_cfg [g_central mul2_desc]) as [o|er] eqn:E.
  2:{ exfalso. assert (H : match bfs (impl_of mul2_desc) heisv_cfg [g_central mul2_desc] with Ok _ => true | Err _ => false end = true)
        by (vm_compute; reflexivity).
      rewrite E in H. discriminate. }
  assert (H : match bfs (impl_of mul2_desc) heisv_cfg [g_central mul2_desc] with
              | Ok o' => completed o' && nat_list_eqb (sizes o') [1; 1; 1; 1]%nat | Err _ => false end = true)
    by (vm_compute; reflexivity).
  rewrite E in H. apply andb_true_iff in H as [Hc Hsz]. apply PermProofs.list_eqb_nat_true in Hsz.
  exists o. split; [reflexivity|]. split; [exact Hc|]. split; [exact Hsz|].
  destruct (engines_agree_matrix_unconditional mul2_desc mul2_wf eq_refl heisv_cfg (g_central mul2_desc)
              (matrix_central_U _ (wf_matrix_desc_core _ mul2_wf)) ltac:(cbn; lia) o E Hc) as [Hi Hw].
  rewrite Hsz in Hi, Hw. cbn [length Nat.sub] in Hi. split; [exact Hi|].
  intros perms x y Hrun.
  assert (Hk : forall k, walk_count x y k = nth k [1; 1; 1; 1]%nat 0%nat).
  { apply (Hw 1%nat 5%nat perms x y); [lia | | cbn; lia | exact Hrun]. intros s Hs. cbn in Hs. lia. }
  cbn [seq map]. rewrite !Hk. reflexivity.
Qed.


(* the interactive BFS of the path environment ([pe_G e], computed flag): same growth, unconditionally *)
Example lrx5_ibfs_env : forall e, env_of lrx5 [] = Some e ->
  map (@length Z) (ihashes (ibfs_after (pe_G e) [g_central lrx5] 10)) = [1; 3; 6; 10; 16; 24; 29; 21; 6; 3; 1]%nat.
Proof.
  intros e He.
  assert (Hst : forall s, In s [g_central lrx5] -> Ustates lrx5 s).
  { intros s [<- | []]. apply (perm_central_U splitmix_steps hash_mult lrx5 lrx5_wf). }
  rewrite (ibfs_perm_env_growth_unconditional lrx5 [] e lrx5_wf He eq_refl lrx5_single [g_central lrx5] Hst 10).
  exact (proj1 lrx5_growth).
Qed.

Print Assumptions exhaustive_growth.
Print Assumptions walks_perm_classic_spec.
Print Assumptions walks_perm_nbt_spec.
Print Assumptions walks_perm_bfs_spec.
Print Assumptions walks_perm_bfs_exhaustive.
Print Assumptions walks_perm_bfs_exhaustive_fact.
Print Assumptions walks_perm_bfs_growth.
Print Assumptions ibfs_perm_growth.
Print Assumptions ibfs_perm_impl_layers.
Print Assumptions engines_agree_perm.
Print Assumptions ibfs_perm_env_growth.
Print Assumptions ibfs_perm_env_growth_unconditional.
Print Assumptions walks_perm_bfs_spec_unconditional.
Print Assumptions walks_perm_bfs_exhaustive_unconditional.
Print Assumptions walks_perm_bfs_exhaustive_fact_unconditional.
Print Assumptions walks_perm_bfs_growth_unconditional.
Print Assumptions ibfs_perm_growth_unconditional.
Print Assumptions ibfs_perm_impl_layers_unconditional.
Print Assumptions engines_agree_perm_unconditional.
Print Assumptions walks_matrix_classic_spec.
Print Assumptions walks_matrix_nbt_spec.
Print Assumptions walks_matrix_bfs_spec.
Print Assumptions walks_matrix_bfs_exhaustive.
Print Assumptions walks_matrix_bfs_growth.
Print Assumptions ibfs_matrix_growth.
Print Assumptions ibfs_matrix_layers.
Print Assumptions engines_agree_matrix.
Print Assumptions ibfs_matrix_env_growth.
Print Assumptions ibfs_matrix_env_layers.
Print Assumptions ibfs_matrix_growth_desc.
Print Assumptions ibfs_matrix_layers_desc.
Print Assumptions engines_agree_matrix_desc.
Print Assumptions walks_matrix_bfs_spec_unconditional.
Print Assumptions walks_matrix_bfs_exhaustive_unconditional.
Print Assumptions walks_matrix_bfs_growth_unconditional.
Print Assumptions ibfs_matrix_growth_unconditional.
Print Assumptions ibfs_matrix_layers_unconditional.
Print Assumptions engines_agree_matrix_unconditional.
Print Assumptions lrx5_walk_classic.
Print Assumptions lrx5_walk_nbt.
Print Assumptions lrx5_walk_bfs_thinned.
Print Assumptions lrx5_engines_agree.
Print Assumptions heisv_walk_classic.
Print Assumptions heisv_engines_agree.
Print Assumptions mul2_engines_agree_unconditional.
Print Assumptions lrx5_ibfs_env.
