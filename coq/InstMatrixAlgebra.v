(** The algebra behind "an inverse generator undoes a generator", at full strength and without MathComp:
    the matrix action of Matrix.v is a monoid action,
        mat_apply (mat_mul A B) x = mat_apply A (mat_apply B x)      (A*B mod p)*x mod p = A*(B*x mod p) mod p
        mat_apply (eye n) x = x
    for a modulus 2 <= p <= 2^31 on reduced operands ([_mod]) and for int64 wrap-around ([_wrap], no condition
    on the matrices).  [mat_undo_*_direct] re-derive the undo property of InstMatrix.v from these two laws. *)
From Coq Require Import ZArith List Bool Arith Lia.
From V Require Import Base W64 W64Proofs Matrix MatrixProofs Def DefProofs InstMatrix.
Import ListNotations.
Open Scope Z_scope.

(* ------------------------------------------------------------------ *)
(** * 1. Finite sums *)

Lemma zsum_map_zero {A} (l : list A) : zsum (map (fun _ => 0) l) = 0.
Proof. induction l as [|x l IH]; [reflexivity|]. cbn [map]. rewrite zsum_cons, IH. reflexivity. Qed.

Lemma zsum_map_add {A} (f g : A -> Z) l :
  zsum (map (fun x => f x + g x) l) = zsum (map f l) + zsum (map g l).
Proof. induction l as [|x l IH]; [reflexivity|]. cbn [map]. rewrite !zsum_cons, IH. lia. Qed.

Lemma zsum_map_scale_l {A} c (f : A -> Z) l : zsum (map (fun x => c * f x) l) = c * zsum (map f l).
Proof. induction l as [|x l IH]; [cbn [map]; rewrite !zsum_nil; lia|]. cbn [map]. rewrite !zsum_cons, IH. lia. Qed.

Lemma zsum_map_scale_r {A} c (f : A -> Z) l : zsum (map (fun x => f x * c) l) = zsum (map f l) * c.
Proof. induction l as [|x l IH]; [cbn [map]; rewrite !zsum_nil; lia|]. cbn [map]. rewrite !zsum_cons, IH. lia. Qed.

Lemma zsum_map_ext_in {A} (f g : A -> Z) l : (forall x, In x l -> f x = g x) -> zsum (map f l) = zsum (map g l).
Proof. intros H. f_equal. apply map_ext_in. exact H. Qed.

Lemma zsum_swap {A B} (F : A -> B -> Z) l1 l2 :
  zsum (map (fun x => zsum (map (fun y => F x y) l2)) l1) = zsum (map (fun y => zsum (map (fun x => F x y) l1)) l2).
Proof.
  induction l1 as [|a l1 IH].
  - cbn [map]. rewrite zsum_nil. symmetry. apply (zsum_map_zero l2).
  - cbn [map]. rewrite zsum_cons, IH.
    rewrite (zsum_map_ext_in (fun y => zsum (F a y :: map (fun x => F x y) l1))
                             (fun y => F a y + zsum (map (fun x => F x y) l1)) l2).
    + rewrite zsum_map_add. reflexivity.
    + intros y _. apply zsum_cons.
Qed.

Lemma zsum_delta (f : nat -> Z) i : forall len st,
  zsum (map (fun j => delta i j * f j) (seq st len)) = if ((st <=? i) && (i <? st + len))%nat then f i else 0.
Proof.
  induction len as [|len IH]; intros st.
  - cbn [seq map]. rewrite zsum_nil.
    destruct (st <=? i)%nat eqn:E1, (i <? st + 0)%nat eqn:E2; cbn [andb]; try reflexivity.
    apply Nat.leb_le in E1. apply Nat.ltb_lt in E2. lia.
  - cbn [seq map]. rewrite zsum_cons, IH. unfold delta.
    destruct (Nat.eqb_spec i st) as [Heq|Hne];
      destruct (Nat.leb_spec (S st) i), (Nat.ltb_spec i (S st + len)), (Nat.leb_spec st i), (Nat.ltb_spec i (st + S len));
      try subst i; cbn [andb]; lia.
Qed.

Lemma dotZ_delta_l n s i k : (i < n)%nat -> dotZ n delta s i k = s i k.
Proof.
  intros Hi. unfold dotZ. rewrite (zsum_delta (fun j => s j k) i n 0%nat).
  assert ((0 <=? i)%nat = true) as -> by (apply Nat.leb_le; lia).
  assert ((i <? 0 + n)%nat = true) as -> by (apply Nat.ltb_lt; lia). reflexivity.
Qed.

Lemma dotZ_ext_l n a a' b i k :
  (forall j, (j < n)%nat -> a i j = a' i j) -> dotZ n a b i k = dotZ n a' b i k.
Proof.
  intros H. unfold dotZ. apply zsum_map_ext_in. intros j Hj. apply in_seq in Hj. rewrite H by lia. reflexivity.
Qed.

(* ------------------------------------------------------------------ *)
(** * 2. Associativity in a residue ring with chosen representatives *)

Section Norm.
  Variable M : Z.
  Variable norm : Z -> Z.
  Hypothesis norm_cong : forall z, norm z mod M = z mod M.
  Hypothesis norm_eq : forall a b, a mod M = b mod M -> norm a = norm b.

  Lemma zsum_mod_ext {A} (f g : A -> Z) l :
    (forall x, In x l -> f x mod M = g x mod M) -> zsum (map f l) mod M = zsum (map g l) mod M.
  Proof.
    induction l as [|x l IH]; intros H; [reflexivity|].
    cbn [map]. rewrite !zsum_cons. rewrite Zplus_mod, (H x (or_introl eq_refl)), IH, <- Zplus_mod; [reflexivity|].
    intros y Hy. apply H. right. exact Hy.
  Qed.

  Lemma mul_norm_l' a b : (norm a * b) mod M = (a * b) mod M.
  Proof. rewrite <- Zmult_mod_idemp_l, norm_cong, Zmult_mod_idemp_l. reflexivity. Qed.
  Lemma mul_norm_r' a b : (a * norm b) mod M = (a * b) mod M.
  Proof. rewrite <- Zmult_mod_idemp_r, norm_cong, Zmult_mod_idemp_r. reflexivity. Qed.

  (* (A * B) * S = A * (B * S), with the intermediate products normalised *)
  Theorem dotZ_assoc n (a b s : nat -> nat -> Z) i k :
    norm (dotZ n (fun i j => norm (dotZ n a b i j)) s i k) =
    norm (dotZ n a (fun j k => norm (dotZ n b s j k)) i k).
  Proof.
    apply norm_eq. unfold dotZ.
    rewrite (zsum_mod_ext (fun j => norm (zsum (map (fun l => a i l * b l j) (seq 0 n))) * s j k)
                          (fun j => zsum (map (fun l => a i l * b l j) (seq 0 n)) * s j k))
      by (intros j _; apply mul_norm_l').
    rewrite (zsum_mod_ext (fun l => a i l * norm (zsum (map (fun j => b l j * s j k) (seq 0 n))))
                          (fun l => a i l * zsum (map (fun j => b l j * s j k) (seq 0 n))))
      by (intros l _; apply mul_norm_r').
    f_equal.
    rewrite (zsum_map_ext_in (fun j => zsum (map (fun l => a i l * b l j) (seq 0 n)) * s j k)
                             (fun j => zsum (map (fun l => a i l * b l j * s j k) (seq 0 n))))
      by (intros j _; symmetry; apply (zsum_map_scale_r (s j k) (fun l => a i l * b l j))).
    rewrite (zsum_map_ext_in (fun l => a i l * zsum (map (fun j => b l j * s j k) (seq 0 n)))
                             (fun l => zsum (map (fun j => a i l * b l j * s j k) (seq 0 n)))).
    - apply (zsum_swap (fun j l => a i l * b l j * s j k)).
    - intros l _. rewrite <- (zsum_map_scale_l (a i l) (fun j => b l j * s j k)).
      apply zsum_map_ext_in. intros j _. lia.
  Qed.
End Norm.

(* ------------------------------------------------------------------ *)
(** * 3. With a modulus *)

Section Modular.
  Variable p : Z.
  Hypothesis Hp : 2 <= p <= 2 ^ 31.
  Variable n : nat.
  Hypothesis Hn : Z.of_nat n < 2 ^ 32.

  Definition reduced (A : list (list Z)) : Prop :=
    forall r c, (r < n)%nat -> (c < n)%nat -> 0 <= mentry A r c < p.

  Lemma mentry_mat_mul_mod A B i k :
    reduced A -> reduced B -> (i < n)%nat -> (k < n)%nat ->
    mentry (mat_mul p n A B) i k = dotZ n (mentry A) (mentry B) i k mod p.
  Proof.
    intros HA HB Hi Hk. unfold mentry at 1, mat_mul.
    rewrite (nth2_map_seq n (fun i k => dot_mod p (map (fun j => (nth j (nth i A []) 0, nth k (nth j B []) 0)) (seq 0 n))) i k Hi Hk).
    rewrite dot_mod_exact; auto.
    - rewrite map_map. reflexivity.
    - apply Forall_forall. intros [a b] Hin. apply in_map_iff in Hin as (j & Hj & Hin). apply in_seq in Hin.
      inversion Hj; subst. cbn [fst snd]. split; [apply HA|apply HB]; lia.
    - rewrite map_length, seq_length. exact Hn.
  Qed.

  Lemma mat_mul_reduced A B : reduced A -> reduced B -> reduced (mat_mul p n A B).
  Proof. intros HA HB r c Hr Hc. rewrite mentry_mat_mul_mod by auto. apply Z.mod_pos_bound. lia. Qed.

  Lemma mentry_eye i k : (i < n)%nat -> (k < n)%nat -> mentry (eye n) i k = delta i k.
  Proof. intros Hi Hk. unfold mentry, eye, delta. apply (nth2_map_seq n (fun i j => if (i =? j)%nat then 1 else 0) i k Hi Hk). Qed.

  Lemma eye_reduced : reduced (eye n).
  Proof. intros r c Hr Hc. rewrite mentry_eye by auto. unfold delta. destruct (r =? c)%nat; lia. Qed.

  (* the action is compatible with the product: (A*B mod p) * S mod p = A * (B*S mod p) mod p *)
  Theorem mat_apply_mul_mod m A B S :
    reduced A -> reduced B -> (forall j, (j < n * m)%nat -> 0 <= nth j S 0 < p) ->
    mat_apply p n m (mat_mul p n A B) S = mat_apply p n m A (mat_apply p n m B S).
  Proof.
    intros HA HB HS. apply (flat_ext n m); [apply mat_apply_length|apply mat_apply_length|].
    intros i k Hi Hk.
    rewrite (mat_apply_mod_entry p n m (mat_mul p n A B) S i k Hp Hn (mat_mul_reduced A B HA HB) HS Hi Hk).
    rewrite (mat_apply_mod_twice_entry p n m B A S i k Hp Hn HB HA HS Hi Hk).
    rewrite (dotZ_ext_l n (mentry (mat_mul p n A B)) (fun i j => dotZ n (mentry A) (mentry B) i j mod p) (mat_entry m S) i k)
      by (intros j Hj; apply mentry_mat_mul_mod; auto).
    apply (dotZ_assoc p (fun z => z mod p)).
    - intros z. apply Zmod_mod.
    - intros a b E. exact E.
  Qed.

  (* the identity matrix acts trivially on reduced states *)
  Theorem mat_apply_eye_mod m S :
    length S = (n * m)%nat -> (forall j, (j < n * m)%nat -> 0 <= nth j S 0 < p) ->
    mat_apply p n m (eye n) S = S.
  Proof.
    intros HL HS. apply (flat_ext n m); [apply mat_apply_length|exact HL|].
    intros i k Hi Hk.
    rewrite (mat_apply_mod_entry p n m (eye n) S i k Hp Hn eye_reduced HS Hi Hk).
    rewrite (dotZ_ext_l n (mentry (eye n)) delta (mat_entry m S) i k) by (intros j Hj; apply mentry_eye; auto).
    rewrite dotZ_delta_l by exact Hi. unfold mat_entry. apply Z.mod_small. apply HS. nia.
  Qed.

  (* hence a left inverse undoes the action: no MathComp needed *)
  Corollary mat_undo_mod_direct m M M' S :
    reduced M -> reduced M' -> mat_mul p n M' M = eye n ->
    length S = (n * m)%nat -> (forall j, (j < n * m)%nat -> 0 <= nth j S 0 < p) ->
    mat_apply p n m M' (mat_apply p n m M S) = S.
  Proof.
    intros HM HM' Hprod HL HS.
    rewrite <- (mat_apply_mul_mod m M' M S HM' HM HS), Hprod. apply mat_apply_eye_mod; assumption.
  Qed.
End Modular.

(* ------------------------------------------------------------------ *)
(** * 4. Modulo 0: int64 wrap-around, no condition on the matrices or the state *)

Lemma wrap_norm_cong' z : wrap z mod two64 = z mod two64.
Proof. apply wrap_mod. Qed.
Lemma wrap_norm_eq' a b : a mod two64 = b mod two64 -> wrap a = wrap b.
Proof. intros H. apply wrap_eq_iff. exact H. Qed.

Lemma mentry_mat_mul_wrap n A B i k : (i < n)%nat -> (k < n)%nat ->
  mentry (mat_mul 0 n A B) i k = wrap (dotZ n (mentry A) (mentry B) i k).
Proof.
  intros Hi Hk. unfold mentry at 1, mat_mul.
  rewrite (nth2_map_seq n (fun i k => dot_mod 0 (map (fun j => (nth j (nth i A []) 0, nth k (nth j B []) 0)) (seq 0 n))) i k Hi Hk).
  rewrite dot_mod_zero, map_map. reflexivity.
Qed.

Theorem mat_apply_mul_wrap n m A B S :
  mat_apply 0 n m (mat_mul 0 n A B) S = mat_apply 0 n m A (mat_apply 0 n m B S).
Proof.
  apply (flat_ext n m); [apply mat_apply_length|apply mat_apply_length|].
  intros i k Hi Hk.
  rewrite (mat_apply0_entry n m (mat_mul 0 n A B) S i k Hi Hk).
  rewrite (mat_apply0_twice_entry n m B A S i k Hi Hk).
  rewrite (dotZ_ext_l n (mentry (mat_mul 0 n A B)) (fun i j => wrap (dotZ n (mentry A) (mentry B) i j)) (mat_entry m S) i k)
    by (intros j Hj; apply mentry_mat_mul_wrap; auto).
  apply (dotZ_assoc two64 wrap wrap_norm_cong' wrap_norm_eq').
Qed.

Theorem mat_apply_eye_wrap n m S :
  length S = (n * m)%nat -> (forall j, (j < n * m)%nat -> in64 (nth j S 0)) ->
  mat_apply 0 n m (eye n) S = S.
Proof.
  intros HL HS. apply (flat_ext n m); [apply mat_apply_length|exact HL|].
  intros i k Hi Hk.
  rewrite (mat_apply0_entry n m (eye n) S i k Hi Hk).
  rewrite (dotZ_ext_l n (mentry (eye n)) delta (mat_entry m S) i k).
  - rewrite dotZ_delta_l by exact Hi. unfold mat_entry. apply wrap_id. apply HS. nia.
  - intros j Hj. unfold mentry, eye, delta.
    apply (nth2_map_seq n (fun i j => if (i =? j)%nat then 1 else 0) i j Hi Hj).
Qed.

Corollary mat_undo_wrap_direct n m M M' S :
  mat_mul 0 n M' M = eye n ->
  length S = (n * m)%nat -> (forall j, (j < n * m)%nat -> in64 (nth j S 0)) ->
  mat_apply 0 n m M' (mat_apply 0 n m M S) = S.
Proof.
  intros Hprod HL HS. rewrite <- mat_apply_mul_wrap, Hprod. apply mat_apply_eye_wrap; assumption.
Qed.

(* ------------------------------------------------------------------ *)
(** * 5. In the vocabulary of InstMatrix.v *)

Lemma MatOk_reduced p n M : p <> 0 -> MatOk p n M -> reduced p n M.
Proof. intros Hp HM r c Hr Hc. apply (rng_mod p _ Hp). apply (MatOk_entry p n M r c); assumption. Qed.

Theorem mat_apply_mul modulo n m A B S :
  ModOk modulo n -> MatOk modulo n A -> MatOk modulo n B -> UmatP modulo n m S ->
  mat_apply modulo n m (mat_mul modulo n A B) S = mat_apply modulo n m A (mat_apply modulo n m B S).
Proof.
  intros [-> | [Hp Hn]] HA HB [HL HS].
  - apply mat_apply_mul_wrap.
  - assert (modulo <> 0) as Hne by lia.
    apply (mat_apply_mul_mod modulo Hp n Hn m A B S (MatOk_reduced _ _ _ Hne HA) (MatOk_reduced _ _ _ Hne HB)).
    intros j Hj. apply (rng_mod modulo _ Hne). apply Forall_nth_rng; [exact HS|lia].
Qed.

Theorem mat_apply_eye modulo n m S :
  ModOk modulo n -> UmatP modulo n m S -> mat_apply modulo n m (eye n) S = S.
Proof.
  intros [-> | [Hp Hn]] [HL HS].
  - apply mat_apply_eye_wrap; [exact HL|]. intros j Hj. apply (Forall_nth_rng in64); [exact HS|lia].
  - assert (modulo <> 0) as Hne by lia.
    apply (mat_apply_eye_mod modulo Hp n Hn m S HL).
    intros j Hj. apply (rng_mod modulo _ Hne). apply Forall_nth_rng; [exact HS|lia].
Qed.

(* non-vacuity: x * y on a Heisenberg state mod 5, both sides computed; and the general law instantiated *)
Example heis_mul_computed :
  mat_apply 5 3 3 (mat_mul 5 3 heis_x heis_y) [1;2;3; 0;1;4; 0;0;1]
  = mat_apply 5 3 3 heis_x (mat_apply 5 3 3 heis_y [1;2;3; 0;1;4; 0;0;1]).
Proof. vm_compute. reflexivity. Qed.

Example heis_mul_instance S :
  UmatP 5 3 3 S ->
  mat_apply 5 3 3 (mat_mul 5 3 heis_x heis_y) S = mat_apply 5 3 3 heis_x (mat_apply 5 3 3 heis_y S).
Proof.
  apply mat_apply_mul.
  - right. split; [lia|cbn; lia].
  - apply wf_mat_spec. vm_compute. reflexivity.
  - apply wf_mat_spec. vm_compute. reflexivity.
Qed.

Print Assumptions dotZ_assoc.
Print Assumptions mat_apply_mul_mod.
Print Assumptions mat_apply_eye_mod.
Print Assumptions mat_undo_mod_direct.
Print Assumptions mat_apply_mul_wrap.
Print Assumptions mat_apply_eye_wrap.
Print Assumptions mat_undo_wrap_direct.
Print Assumptions mat_apply_mul.
Print Assumptions mat_apply_eye.
