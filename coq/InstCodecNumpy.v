(** E6 (third file, optional corollary of (e)) - the NumPy engine (bfs_numpy, NumpyEncodedProofs.v) runs the 1-D
    routines on single code words.  For a well-formed one-word description its hypotheses are exactly
    [wf_perm_desc] / [Ustates], the word it starts from is the model's code word (= the identity hash), and its
    result is the growth function of the graph [acts (impl_of d)] the other search theorems talk about. *)
From Coq Require Import ZArith List Bool Arith Lia.
From V Require Import Base W64 Tensor Perm PermProofs Codec CodecProofs Hash Graph GraphImpl Bfs BfsStep BfsRun
                      NumpyBfs NumpyBfsProofs NumpyEncodedProofs InstPerm InstCodec.
From V.gen Require Import Consts.
Import ListNotations.
Local Open Scope Z_scope.

(* the universe of the search models is the codec domain of the NumPy theorem *)
Lemma Ustates_valid_state d w s : g_width d = Some w -> (Ustates d s <-> valid_state w (desc_n d) s).
Proof. intros Hw. unfold Ustates, valid_state. rewrite Hw. reflexivity. Qed.

Lemma wf_perms_ok d : wf_perm_desc d -> perms_ok (desc_n d) (desc_perms d).
Proof. intros Hwf. apply Forall_forall. intros p Hp. apply (wf_perm_in d p Hwf Hp). Qed.

Lemma code_is_code_word w n s : code w n s = code_word w n s.
Proof. reflexivity. Qed.

(* the list of functions the NumPy engine receives = the 1-D routines of (e) *)
Lemma word_gens_routines w n perms : word_gens w n perms = map (fun p => eval_prog1d (emit w n p)) perms.
Proof. reflexivity. Qed.

Theorem numpy_engine_on_model d w idx s0 (md : BinNums.N) :
  wf_perm_desc d -> g_width d = Some w -> single_word d ->
  np_inverse_index (desc_perms d) = Ok idx -> Ustates d s0 -> (1 <= md)%N ->
  bfs_numpy (map (fun p => eval_prog1d (emit w (desc_n d) p)) (desc_perms d)) idx (code_word w (desc_n d) s0) md
  = take_nonzero (map (fun i => length (layer state st_eq_dec (acts (impl_of d)) [s0] i)) (seq 0 (S (N.to_nat md)))).
Proof.
  intros Hwf Hw Hsw Hidx Hs0 Hmd.
  pose proof (wf_width d Hwf) as Hwd. rewrite Hw in Hwd. cbn [width_ok] in Hwd.
  assert (Hnw : (desc_n d * w <= 64)%nat) by (unfold single_word in Hsw; rewrite Hw in Hsw; exact Hsw).
  unfold impl_of. rewrite (perm_acts_wf splitmix_steps hash_mult d Hwf).
  apply (numpy_bfs_encoded_growth w (desc_n d) Hwd Hnw (desc_perms d) (wf_perms_ok d Hwf) idx Hidx s0 md).
  - apply (Ustates_valid_state d w s0 Hw). exact Hs0.
  - exact Hmd.
Qed.

(* with the identity hasher the start word is the model's hash of the start state *)
Corollary numpy_engine_on_model_hash d w idx s0 (md : BinNums.N) :
  wf_perm_desc d -> g_width d = Some w -> g_hasher d = HIdentity -> single_word d ->
  np_inverse_index (desc_perms d) = Ok idx -> Ustates d s0 -> (1 <= md)%N ->
  bfs_numpy (map (fun p => eval_prog1d (emit w (desc_n d) p)) (desc_perms d)) idx (hashf (impl_of d) s0) md
  = take_nonzero (map (fun i => length (layer state st_eq_dec (acts (impl_of d)) [s0] i)) (seq 0 (S (N.to_nat md)))).
Proof.
  intros Hwf Hw Hh Hsw Hidx Hs0 Hmd. unfold impl_of at 1.
  rewrite (identity_hash_is_code_word splitmix_steps hash_mult d w s0 Hwf Hw Hh).
  apply numpy_engine_on_model; assumption.
Qed.

(* non-vacuity: lrx5 (left shift / right shift are mutually inverse, the swap is an involution) *)
Example lrx5_inverse_index : np_inverse_index (desc_perms lrx5) = Ok [1; 0; 2]%nat.
Proof. vm_compute. reflexivity. Qed.

Example lrx5_numpy :
  bfs_numpy (map (fun p => eval_prog1d (emit 3 5 p)) (desc_perms lrx5)) [1; 0; 2]%nat (hashf (impl_of lrx5) (g_central lrx5)) 20
  = take_nonzero (map (fun i => length (layer state st_eq_dec (acts (impl_of lrx5)) [g_central lrx5] i)) (seq 0 21)).
Proof.
  apply (numpy_engine_on_model_hash lrx5 3 _ _ 20%N lrx5_wf eq_refl eq_refl lrx5_single lrx5_inverse_index).
  - apply (perm_central_U splitmix_steps hash_mult lrx5 lrx5_wf).
  - discriminate.
Qed.

Example lrx5_numpy_run :
  bfs_numpy (map (fun p => eval_prog1d (emit 3 5 p)) (desc_perms lrx5)) [1; 0; 2]%nat (hashf (impl_of lrx5) (g_central lrx5)) 20
  = [1; 3; 6; 10; 16; 24; 29; 21; 6; 3; 1]%nat.
Proof. vm_compute. reflexivity. Qed.

Print Assumptions numpy_engine_on_model.
Print Assumptions numpy_engine_on_model_hash.
Print Assumptions lrx5_numpy.
