(** Vocabulary of the generated effect table (gen/Effects.v, translator T2) and the decision rule. *)
From Coq Require Import List Bool String.
Import ListNotations.
Open Scope string_scope.

Inductive base_kind :=
| BSelf         (* self.attr = ...                       inside a method of e_class *)
| BSelfGraph    (* self.graph.attr = ...                 a helper object writing through its graph reference *)
| BParamGraph   (* graph.attr = ... / setattr(graph, ..) a function writing to the graph it was given *)
| BFresh        (* v.attr = ... where v = SomeClass(...) was created in the same function *)
| BOther.       (* anything else: not understood, never accepted *)

Record effect := { e_file : string; e_class : string; e_func : string; e_base : base_kind; e_attr : string; e_sub : bool }.

Definition mem_str (s : string) (l : list string) : bool := existsb (String.eqb s) l.

(* objects whose attributes later operations read *)
Definition protected_classes : list string :=
  ["CayleyGraph"; "StateHasher"; "StringEncoder"; "CayleyGraphDef"; "MatrixGenerator"; "BfsResult"; "CayleyPath"; "BeamSearchResult"].
Definition constructors : list string := ["__init__"; "__post_init__"].
(* the only attributes an operation may set on an existing graph: the find_path cache *)
Definition cache_attrs : list string := ["_bfs_result_for_find_path"; "_bfs_result_for_find_path_key"].

Definition effect_ok (e : effect) : bool :=
  match e_base e with
  | BFresh => true
  | BSelf => if mem_str (e_class e) protected_classes then mem_str (e_func e) constructors else true
  | BSelfGraph | BParamGraph => mem_str (e_attr e) cache_attrs && negb (e_sub e)
  | BOther => false
  end.
