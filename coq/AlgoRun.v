(** Glue for evaluating the beam-search, random-walk and predictor models on harness cases. *)
From Coq Require Import ZArith List Bool Arith Lia.
From V Require Import Base W64 Tensor Hash Perm Matrix GraphImpl Def Bfs BfsRun Paths PathRun Predictor Beam Walks.
Import ListNotations.
Open Scope Z_scope.

(* ---- beam search ---- *)
Record beam_case := {
  bm_g : gdesc; bm_inv_mats : list (list (list Z)); bm_batch : Z;
  bm_advanced : bool; bm_start : list Z; bm_width : nat; bm_steps : N; bm_history : nat; bm_return_path : bool;
  bm_ball_depth : option N;                        (* bfs_result_for_mitm = graph.bfs(max_diameter=d, return_all_hashes=True) *)
  bm_sels : list selection;                         (* recorded (scores, argsort prefix) of every pruning step *)
  bm_expected : result (bool * nat * option (list nat));
}.

Definition beam_res_eqb := result_eqb (fun a b : bool * nat * option (list nat) =>
  let '(f1, l1, p1) := a in let '(f2, l2, p2) := b in Bool.eqb f1 f2 && (l1 =? l2)%nat && option_eqb nat_list_eqb p1 p2).

Definition run_beam (c : beam_case) : result (bool * nat * option (list nat)) :=
  match env_of (bm_g c) (bm_inv_mats c) with
  | None => Err RuntimeErr
  | Some e =>
      let G := pe_G e in let Gi := pe_Ginv e in
      do ball <- match bm_ball_depth c with
                 | None => Ok None
                 | Some d => do b <- ball_of G (bm_batch c) d 1000000000000 [g_central (bm_g c)]; Ok (Some b)
                 end;
      do r <- (if bm_advanced c
               then search_advanced G (bm_width c) (bm_history c) (bm_start c) (central G) (bm_steps c) (bm_sels c)
               else search_simple G Gi (pe_invmap e) (bm_width c) (bm_return_path c) ball (bm_start c) (bm_steps c) (bm_sels c));
      Ok (path_found r, path_length r, bpath r)
  end.
Definition check_beam_case (c : beam_case) : bool := beam_res_eqb (run_beam c) (bm_expected c).

(* ---- random walks ---- *)
Inductive wmode := WClassic (draws : list (list nat)) | WBfs (perms : list (list nat)) | WNbt (depth : nat) (perms : list (list nat)).
Record walk_case := {
  wk_g : gdesc; wk_mode : wmode; wk_width : nat; wk_length : nat; wk_start : list Z;
  wk_x : list (list Z); wk_y : list nat;
}.
Definition check_walk_case (c : walk_case) : bool :=
  let G := impl_of (wk_g c) in
  let r := match wk_mode c with
           | WClassic d => Ok (walks_classic G (wk_width c) (wk_length c) (wk_start c) d)
           | WBfs p => walks_bfs G (wk_width c) (wk_length c) (wk_start c) p
           | WNbt h p => walks_nbt G (wk_width c) (wk_length c) h (wk_start c) p
           end in
  match r with
  | Ok (x, y) => z_list2_eqb x (wk_x c) && nat_list_eqb y (wk_y c)
  | Err _ => false
  end.

(* ---- predictor ---- *)
Record pred_case := { pr_central : list Z; pr_states : list (list Z); pr_batch : Z; pr_hamming : list Z; pr_zero : list Z }.
Definition check_pred_case (c : pred_case) : bool :=
  z_list_eqb (predictor_call (predict_hamming (pr_central c)) (pr_batch c) (pr_states c)) (pr_hamming c)
  && z_list_eqb (predictor_call predict_zero (pr_batch c) (pr_states c)) (pr_zero c).
