(** Bounded, exhaustive statement for permutations_with_cycle_lenghts (C20): for every n <= 6 and
    every partition of n (in ascending and in descending order) the enumeration returns every
    permutation of that cycle type exactly once.  The domain is finite, the bound is part of the
    statement, and the proof is a kernel computation over the whole domain. *)
From Coq Require Import ZArith List Bool Arith Lia Sorting.Mergesort.
From V Require Import Base Perm.
Import ListNotations.

(* partitions of n with parts <= m, parts in descending order *)
Fixpoint parts_aux (fuel n m : nat) : list (list nat) :=
  match fuel with
  | O => match n with O => [[]] | _ => [] end
  | S f =>
    match n with
    | O => [[]]
    | _ => flat_map (fun k => if (k <=? n) then map (cons k) (parts_aux f (n - k) k) else [])
                    (rev (seq 1 m))
    end
  end.
Definition partitions (n : nat) : list (list nat) :=
  let ps := parts_aux n n n in ps ++ map (@rev nat) ps.

Definition memb (q : list nat) (l : list (list nat)) : bool := existsb (nat_list_eqb q) l.
Fixpoint nodupb (l : list (list nat)) : bool :=
  match l with [] => true | a :: t => negb (memb a t) && nodupb t end.

Definition has_type (lens q : list nat) : bool :=
  is_perm q && nat_list_eqb (cycle_type q) (NatSort.sort lens).

Definition class_ok (n : nat) (lens : list nat) : bool :=
  match perms_with_cycle_lengths n lens with
  | Ok res =>
      nodupb res
      && forallb (fun q => (length q =? n) && has_type lens q) res
      && forallb (fun q => implb (has_type lens q) (memb q res)) (all_perms n)
  | Err _ => false
  end.

Definition class_ok_upto (N : nat) : bool :=
  forallb (fun n => forallb (class_ok n) (partitions n)) (seq 1 N).

Lemma class_ok_upto_6 : class_ok_upto 6 = true.
Proof. vm_compute. reflexivity. Qed.

Theorem class_enumeration_exact_le6 n lens :
  1 <= n <= 6 -> In lens (partitions n) -> class_ok n lens = true.
Proof.
  intros Hn Hin. pose proof class_ok_upto_6 as H. unfold class_ok_upto in H.
  rewrite forallb_forall in H. specialize (H n). rewrite forallb_forall in H.
  apply H; auto. apply in_seq. lia.
Qed.

(* the real code raises ValueError when the lengths do not sum to n, AssertionError on a 0 part *)
Lemma class_bad_sum : perms_with_cycle_lengths 4 [2; 1] = Err ValueErr.
Proof. reflexivity. Qed.
Lemma class_zero_part : perms_with_cycle_lengths 3 [3; 0] = Err AssertionErr.
Proof. reflexivity. Qed.
