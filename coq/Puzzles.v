(** Model of the generated puzzles: cayleypy/puzzles/cube.py, hungarian_rings.py, globe.py and the
    entry points of puzzles.py that call them ([Puzzles.rubik_cube], [Puzzles.hungarian_rings],
    [Puzzles.globe_puzzle]).  Statement by statement; Python dictionaries are association lists
    in insertion order; [" ".join(map(str, p))] followed by [list(map(int, value.split()))] is the
    identity on lists of non-negative integers and is not modelled as text. *)
From Coq Require Import ZArith List Bool Arith Lia String Ascii DecimalString.
From V Require Import Base Perm.
Import ListNotations.
Local Open Scope string_scope.
Local Open Scope list_scope.
Local Open Scope nat_scope.
Notation "a +++ b" := (String.append a b) (at level 60, right associativity).

(* ---------- formatting ---------- *)
Definition str_of_nat (n : nat) : string := NilZero.string_of_uint (Nat.to_uint n).
Definition str_of_Z (z : Z) : string := NilZero.string_of_int (Z.to_int z).

(* int(name[1:]) for a name made of one letter and decimal digits *)
Definition name_index (nm : string) : nat :=
  match nm with
  | String _ rest => match NilEmpty.uint_of_string rest with Some d => Nat.of_uint d | None => 0 end
  | EmptyString => 0
  end.

(* "c1c2" in s *)
Fixpoint has_sub2 (c1 c2 : ascii) (s : string) : bool :=
  match s with
  | EmptyString => false
  | String a t =>
      match t with
      | String b _ => (Ascii.eqb a c1 && Ascii.eqb b c2) || has_sub2 c1 c2 t
      | EmptyString => false
      end
  end.

Fixpoint has_char (c : ascii) (s : string) : bool :=
  match s with EmptyString => false | String a t => Ascii.eqb a c || has_char c t end.

Definition starts_with_char (c : ascii) (s : string) : bool :=
  match s with String a _ => Ascii.eqb a c | EmptyString => false end.

Fixpoint join (sep : string) (l : list string) : string :=
  match l with
  | [] => ""
  | [a] => a
  | a :: t => a +++ sep +++ join sep t
  end.

(* ---------- dictionaries and sorted() ---------- *)
Fixpoint sdict_set {V} (k : string) (v : V) (d : list (string * V)) : list (string * V) :=
  match d with
  | [] => [(k, v)]
  | (k', v') :: t => if String.eqb k k' then (k', v) :: t else (k', v') :: sdict_set k v t
  end.

(* list.index; a missing element is a ValueError in Python, never reached here *)
Fixpoint index_of (k : string) (l : list string) : nat :=
  match l with
  | [] => 0
  | a :: t => if String.eqb k a then 0 else S (index_of k t)
  end.

(* sorted(items, key=...) : stable insertion sort on a nat key *)
Fixpoint insert_by {A} (key : A -> nat) (x : A) (l : list A) : list A :=
  match l with
  | [] => [x]
  | y :: t => if key y <=? key x then y :: insert_by key x t else x :: l
  end.
Definition sort_by {A} (key : A -> nat) (l : list A) : list A :=
  fold_left (fun acc x => insert_by key x acc) l [].

(* ====================================================================================== *)
(** * Cube *)

(* faces = ["U", "F", "R", "B", "L", "D"] *)
Definition fU := 0. Definition fF := 1. Definition fR := 2.
Definition fB := 3. Definition fL := 4. Definition fD := 5.

Definition sticker (n face row col : nat) : nat := face * (n * n) + row * n + col.

(* rotate_face_cw(face_name) *)
Definition rf_inner (n face : nat) (st : list nat * list bool * nat * nat) (_ : nat)
  : list nat * list bool * nat * nat :=
  let '(cycle, permuted, r, c) := st in
  let idx := sticker n face r c in
  let cycle' := if existsb (Nat.eqb idx) cycle then cycle else cycle ++ [idx] in
  (cycle', upd permuted (r * n + c) true, c, n - 1 - r).

Definition rf_step (n face : nat) (st : list (list nat) * list bool) (rc : nat * nat)
  : list (list nat) * list bool :=
  let '(cycles, permuted) := st in
  let '(r0, c0) := rc in
  if nth (r0 * n + c0) permuted false then st
  else
    let '(cycle, permuted', _, _) := fold_left (rf_inner n face) (seq 0 4) ([], permuted, r0, c0) in
    (if 1 <? List.length cycle then cycles ++ [cycle] else cycles, permuted').

Definition rotate_face_cw (n face : nat) : list (list nat) :=
  fst (fold_left (rf_step n face) (list_prod (seq 0 n) (seq 0 n)) ([], repeat false (n * n))).

Inductive mtype := MF | MR | MD.
Definition mtype_eqb (a b : mtype) : bool :=
  match a, b with MF, MF | MR, MR | MD, MD => true | _, _ => false end.
Definition mletter (t : mtype) : string := match t with MF => "f" | MR => "r" | MD => "d" end.
Definition mname (t : mtype) (i : nat) : string := mletter t +++ str_of_nat i.

(* the cycles collected for move [t] on slice [s] (the body of the loop over move names) *)
Definition move_cycles (n : nat) (t : mtype) (s : nat) : list (list nat) :=
  let base :=
    match t with
    | MF => map (fun k => rev [sticker n fU (n - 1 - s) k; sticker n fR k s;
                               sticker n fD s (n - 1 - k); sticker n fL (n - 1 - k) (n - 1 - s)])
                (seq 0 n)
    | MR => map (fun k => [sticker n fU k s; sticker n fF k s; sticker n fD k s;
                           sticker n fB (n - 1 - k) (n - 1 - s)]) (seq 0 n)
            ++ (if s =? n - 1 then map (@rev nat) (rotate_face_cw n fR) else [])
            ++ (if s =? 0 then rotate_face_cw n fL else [])
    | MD => map (fun k => [sticker n fF (n - 1 - s) k; sticker n fL (n - 1 - s) k;
                           sticker n fB (n - 1 - s) k; sticker n fR (n - 1 - s) k]) (seq 0 n)
    end in
  let f0 : option nat := None in
  let f1 := if mtype_eqb t MF && (s =? 0) then Some fF else f0 in
  let f2 := if mtype_eqb t MF && (s =? n - 1) then Some fB else f1 in
  let f3 := if mtype_eqb t MR && (s =? 0) then Some fL else f2 in
  let f4 := if mtype_eqb t MR && (s =? n - 1) then Some fR else f3 in
  let f5 := if mtype_eqb t MD && (s =? 0) then Some fD else f4 in
  let f6 := if mtype_eqb t MD && (s =? n - 1) then Some fU else f5 in
  match f6 with
  | None => base
  | Some face =>
      let cw := rotate_face_cw n face in
      let ccw0 := false in
      let ccw1 := if (mtype_eqb t MF || mtype_eqb t MD) && (s =? 0) then true else ccw0 in
      let ccw2 := if mtype_eqb t MR && (s =? n - 1) then true else ccw1 in
      base ++ (if ccw2 then map (@rev nat) cw else cw)
  end.

(* p = list(range(total)); for cycle in all_cycles: if len(cycle) < 2: continue; p[cycle[i]] = cycle[i+1] *)
Definition move_perm (n : nat) (t : mtype) (s : nat) : list nat :=
  perm_of_cycles (6 * (n * n)) (filter (fun c => negb (List.length c <? 2)) (move_cycles n t s)).

Definition out_name (n : nat) (t : mtype) (s : nat) : string :=
  match t with MR => mname MR (n - 1 - s) | _ => mname t s end.

(* generate_cube_permutations_oneline(n), values as lists instead of space-separated text *)
Definition cube_moves (n : nat) : result (list (string * list nat)) :=
  if n <? 2 then Err AssertionErr else
  let ordered := list_prod [MF; MR; MD] (seq 0 n) in
  let names_ordered := map (fun '(t, i) => mname t i) ordered in
  let moves := fold_left (fun d '(t, s) => sdict_set (out_name n t s) (move_perm n t s) d) ordered [] in
  Ok (sort_by (fun kv => index_of (fst kv) names_ordered) moves).

Definition cube_central (n : nat) : list nat := flat_map (fun color => repeat color (n * n)) (seq 0 6).

Record puzzle := mk_puzzle {
  pz_gens : list (list nat);
  pz_names : list string;
  pz_central : list nat;
  pz_name : string }.

(* CayleyGraphDef.create + __post_init__ for permutation generators with an explicit central state *)
Definition create_def (gens : list (list nat)) (names : list string) (central : list nat) (name : string)
  : result puzzle :=
  match gens with
  | [] => Err IndexErr
  | g0 :: _ =>
      let n := List.length g0 in
      if negb (forallb (fun p => Nat.eqb (List.length p) n && is_perm p) gens) then Err AssertionErr
      else if negb (List.length names =? List.length gens) then Err AssertionErr
      else if negb (forallb (fun p => List.length p =? List.length central) gens) then Err AssertionErr
      else if negb (forallb (fun v => v <? List.length central) central) then Err AssertionErr
      else match central with [] => Err ValueErr | _ => Ok (mk_puzzle gens names central name) end
  end.

(* get_qtm_metric_moves *)
Definition is_center (n : nat) (nm : string) : bool := Nat.odd n && (name_index nm =? (n - 1) / 2).

Definition qtm_moves (n : nat) : result (list (string * list nat)) :=
  do all <- cube_moves n;
  Ok (filter (fun kv => negb (is_center n (fst kv))) all).

(* get_htm_metric_moves *)
Definition htm_moves (n : nat) : result (list (string * list nat)) :=
  do all <- cube_moves n;
  Ok (fold_left (fun d kv =>
        if is_center n (fst kv) then d
        else
          let p := snd kv in
          let d1 := sdict_set (fst kv) p d in
          sdict_set (fst kv +++ "^2") (map (fun i => nth (nth i p 0) p 0) (seq 0 (List.length p))) d1)
      all []).

(* itertools.product([0, 1, 2], repeat=n) *)
Fixpoint product3 (n : nat) : list (list nat) :=
  match n with
  | O => [[]]
  | S n' => flat_map (fun x => map (cons x) (product3 n')) [0; 1; 2]
  end.

(* get_atm_metric_moves *)
Definition atm_moves (n : nat) : result (list (string * list nat)) :=
  do base <- cube_moves n;
  match base with [] => Ok [] | _ =>
  let total := 6 * n * n in
  let slices (letter : ascii) :=
    map (fun kv => (snd kv, inverse_perm (snd kv)))
        (sort_by (fun kv => name_index (fst kv)) (filter (fun kv => starts_with_char letter (fst kv)) base)) in
  let axes := [("X", slices "r"%char); ("Y", slices "d"%char); ("Z", slices "f"%char)] in
  Ok (fold_left (fun d '(axis_name, sl) =>
        fold_left (fun d combo =>
          if forallb (Nat.eqb 0) combo then d
          else
            let '(perm, parts) :=
              fold_left (fun (acc : list nat * list string) '(i, state) =>
                let '(cur, parts) := acc in
                let cwccw := nth i sl ([], []) in
                if state =? 1 then (compose (fst cwccw) cur, parts ++ ["s" +++ str_of_nat i +++ "_cw"])
                else if state =? 2 then (compose (snd cwccw) cur, parts ++ ["s" +++ str_of_nat i +++ "_ccw"])
                else acc)
              (combine (seq 0 (List.length combo)) combo) (identity_perm total, []) in
            sdict_set ("axis_" +++ axis_name +++ "_" +++ join "_" parts) perm d)
        (product3 n) d) axes [])
  end.

(* CUBE222_MOVES *)
Definition cube222_moves : result (list (string * list nat)) :=
  do f0 <- from_cycles 24 [[2; 19; 21; 8]; [3; 17; 20; 10]; [4; 6; 7; 5]]%Z 0;
  do r1 <- from_cycles 24 [[1; 5; 21; 14]; [3; 7; 23; 12]; [8; 10; 11; 9]]%Z 0;
  do d0 <- from_cycles 24 [[6; 18; 14; 10]; [7; 19; 15; 11]; [20; 22; 23; 21]]%Z 0;
  Ok [("f0", f0); ("r1", r1); ("d0", d0)].

Definition central_222 : list nat := flat_map (fun color => repeat color 4) (seq 0 6).

Definition with_inverses (suffix : string) (moves : list (string * list nat))
  : list (list nat) * list string :=
  (flat_map (fun kv => [snd kv; inverse_perm (snd kv)]) moves,
   flat_map (fun kv => [fst kv; fst kv +++ suffix]) moves).

Definition fixed_corner_cub_quarter : result puzzle :=
  do m <- cube222_moves;
  let '(g, nm) := with_inverses "'" m in create_def g nm central_222 "".

Definition fixed_corner_cub_half : result puzzle :=
  do m <- cube222_moves;
  create_def (flat_map (fun kv => [snd kv; inverse_perm (snd kv); compose (snd kv) (snd kv)]) m)
             (flat_map (fun kv => [fst kv; fst kv +++ "'"; fst kv +++ "^2"]) m) central_222 "".

Definition rubik_cube_qstm (size : Z) : result puzzle :=
  if (size <? 2)%Z then Err AssertionErr else
  let n := Z.to_nat size in
  do m <- cube_moves n;
  let '(g, nm) := with_inverses "_inv" m in create_def g nm (cube_central n) "".

Definition rubik_cube_qtm (size : Z) : result puzzle :=
  if (size <? 2)%Z then Err ValueErr else
  let n := Z.to_nat size in
  do m <- qtm_moves n;
  let '(g, nm) := with_inverses "'" m in create_def g nm (cube_central n) "".

Definition rubik_cube_htm (size : Z) : result puzzle :=
  if (size <? 2)%Z then Err ValueErr else
  let n := Z.to_nat size in
  do m <- htm_moves n;
  create_def
    (flat_map (fun kv => if negb (has_sub2 "^"%char "2"%char (fst kv)) then [snd kv; inverse_perm (snd kv)] else [snd kv]) m)
    (flat_map (fun kv => if negb (has_sub2 "^"%char "2"%char (fst kv)) then [fst kv; fst kv +++ "'"] else [fst kv]) m)
    (cube_central n) "".

Definition rubik_cube_atm (size : Z) : result puzzle :=
  if (size <? 2)%Z then Err ValueErr else
  let n := Z.to_nat size in
  do m <- atm_moves n;
  create_def (map snd m) (map fst m) (cube_central n) "".

(* Puzzles.rubik_cube(cube_size, metric) *)
Definition rubik_cube (size : Z) (metric : string) : result puzzle :=
  if String.eqb metric "QSTM" then rubik_cube_qstm size
  else if String.eqb metric "QTM" then rubik_cube_qtm size
  else if String.eqb metric "HTM" then rubik_cube_htm size
  else if String.eqb metric "ATM" then rubik_cube_atm size
  else if String.eqb metric "fixed_QTM" then fixed_corner_cub_quarter
  else if String.eqb metric "fixed_HTM" then fixed_corner_cub_half
  else Err ValueErr.

(* ====================================================================================== *)
(** * Hungarian rings (all integers are Python ints: Z) *)

(* list(range(a, b)) *)
Definition zrange (a b : Z) : list Z := map (fun i => (a + Z.of_nat i)%Z) (seq 0 (Z.to_nat (b - a))).

(* _circular_shift(items, step) *)
Definition circular_shift {A} (items : list A) (step : Z) : list A :=
  let k := if 0 <? List.length items then Z.to_nat (step mod Z.of_nat (List.length items)) else 0 in
  skipn k items ++ firstn k items.

(* _get_intersections *)
Definition get_intersections (left_index right_index : Z) : result Z :=
  if ((left_index =? 0) && (right_index =? 0))%Z then Ok 1%Z
  else if ((0 <? left_index) && (0 <? right_index))%Z then Ok 2%Z
  else Err ValueErr.

(* _create_right_ring *)
Definition create_right_ring (left_size left_index right_size right_index full_size : Z) : result (list Z) :=
  do inter <- get_intersections left_index right_index;
  let right_ring :=
    if (inter =? 2)%Z then
      let second := (left_size + right_size - right_index - 1)%Z in
      let rr := [0%Z] ++ zrange left_size second ++ [left_index] in
      if (1 <? right_index)%Z then rr ++ zrange second full_size else rr
    else [0%Z] ++ zrange left_size full_size in
  if (Z.of_nat (List.length right_ring) =? right_size)%Z then Ok right_ring else Err AssertionErr.

(* l[i] with Python index semantics *)
Definition py_nth (l : list Z) (i : Z) : result Z :=
  let n := Z.of_nat (List.length l) in
  if ((0 <=? i) && (i <? n))%Z then Ok (nth (Z.to_nat i) l 0%Z)
  else if ((- n <=? i) && (i <? 0))%Z then Ok (nth (Z.to_nat (i + n)) l 0%Z)
  else Err IndexErr.

(* l[i] = v with Python index semantics *)
Definition py_upd (l : list Z) (i v : Z) : result (list Z) :=
  let n := Z.of_nat (List.length l) in
  if ((0 <=? i) && (i <? n))%Z then Ok (upd l (Z.to_nat i) v)
  else if ((- n <=? i) && (i <? 0))%Z then Ok (upd l (Z.to_nat (i + n)) v)
  else Err IndexErr.

(* l.remove(v): first occurrence, ValueError when absent *)
Fixpoint py_remove (l : list Z) (v : Z) : result (list Z) :=
  match l with
  | [] => Err ValueErr
  | a :: t => if Z.eqb a v then Ok t else match py_remove t v with Ok t' => Ok (a :: t') | Err e => Err e end
  end.

(* hungarian_rings_permutations *)
Definition hungarian_rings_permutations (left_size left_index right_size right_index step : Z)
  : result (list Z * list Z) :=
  if ((left_index <? 0) || (right_index <? 0))%Z then Err ValueErr
  else if ((left_size <=? left_index) || (right_size <=? right_index))%Z then Err ValueErr
  else
    do inter <- get_intersections left_index right_index;
    let full_size := (left_size + right_size - inter)%Z in
    let left_ring := zrange 0 left_size in
    let left_rotation := circular_shift left_ring step ++ zrange left_size full_size in
    do right_ring <- create_right_ring left_size left_index right_size right_index full_size;
    let shifted := circular_shift right_ring step in
    do first_v <- py_nth shifted 0;
    do shifted1 <- py_remove shifted first_v;
    do (second_v, shifted2) <-
       (if (inter =? 2)%Z then
          do sv <- py_nth shifted1 (- right_index);
          do sh <- py_remove shifted1 sv;
          Ok (Some sv, sh)
        else Ok (None, shifted1));
    let rr0 := left_ring ++ shifted2 in
    do rr1 <- py_upd rr0 0 first_v;
    do rr2 <- match second_v with Some sv => py_upd rr1 left_index sv | None => Ok rr1 end;
    Ok (left_rotation, rr2).

(* get_santa_parameters_from_n *)
Definition get_santa_parameters_from_n (n : Z) : result (Z * Z * Z * Z) :=
  let right_size := ((n + 2) / 2)%Z in
  if negb (4 <=? right_size)%Z then Err AssertionErr else
  let left_size := (n + 2 - right_size)%Z in
  let left_index := (right_size / 3)%Z in
  let right_index := (left_index + 1)%Z in
  Ok (left_size, left_index, right_size, right_index).

(* hungarian_rings_generators *)
Definition hungarian_rings_generators (left_size left_index right_size right_index : Z)
  : result (list (list Z) * list string) :=
  if ((left_size <=? 1) || (right_size <=? 1))%Z then Err ValueErr else
  do (forth_l, forth_r) <- hungarian_rings_permutations left_size left_index right_size right_index 1;
  do (back_l, back_r) <- hungarian_rings_permutations left_size left_index right_size right_index (-1);
  let g0 := [forth_l; forth_r] in
  let n0 := ["L"; "R"] in
  let '(g1, n1) := if negb (z_list_eqb forth_l back_l) then (g0 ++ [back_l], n0 ++ ["-L"]) else (g0, n0) in
  let '(g2, n2) := if negb (z_list_eqb forth_r back_r) then (g1 ++ [back_r], n1 ++ ["-R"]) else (g1, n1) in
  Ok (g2, n2).

(* Puzzles.hungarian_rings *)
Definition hungarian_rings (left_size left_index right_size right_index : Z) : result puzzle :=
  if negb (2 * left_index <=? left_size)%Z then Err AssertionErr
  else if negb (2 * right_index <=? right_size)%Z then Err AssertionErr
  else
    do (gens, names) <- hungarian_rings_generators left_size left_index right_size right_index;
    let gens' := map (map Z.to_nat) gens in
    let n := List.length (nth 0 gens' []) in
    create_def gens' names (seq 0 n)
      ("hungarian_rings-" +++ str_of_Z left_size +++ "-" +++ str_of_Z left_index +++ "-"
       +++ str_of_Z right_size +++ "-" +++ str_of_Z right_index).

(* ====================================================================================== *)
(** * Globe *)

(* help_cyclic(start_pos, finish_pos, n) with fin1 = finish_pos + 1 *)
Definition help_cyclic (start_pos fin1 n : nat) : list nat :=
  seq 0 start_pos
  ++ map (fun i => if S i =? fin1 then start_pos else i + 1) (seq start_pos (fin1 - start_pos))
  ++ seq fin1 (n - fin1).

Definition swap_cells (lst : list nat) (i j : nat) : list nat :=
  let a := nth i lst 0 in let b := nth j lst 0 in upd (upd lst i b) j a.

(* globe_gens(a, b) *)
Definition globe_gens (a b : nat) : list (string * list nat) :=
  let x_count := 2 * b in
  let y_count := a + 1 in
  let n := 2 * (a + 1) * b in
  let rs := map (fun r => ("r" +++ str_of_nat r, help_cyclic (r * x_count) ((r + 1) * x_count) n)) (seq 0 y_count) in
  let total_a := y_count - 1 in
  let fs := map (fun f =>
      ("f" +++ str_of_nat f,
       fold_left (fun lst i =>
          let block1 := map (fun k => i * x_count + (f + k) mod x_count) (seq 0 b) in
          let block2 := map (fun k => (total_a - i) * x_count + (f + k) mod x_count) (seq 0 b) in
          fold_left (fun lst k => swap_cells lst (nth k block1 0) (nth (b - 1 - k) block2 0)) (seq 0 b) lst)
        (seq 0 (y_count / 2)) (seq 0 n))) (seq 0 x_count) in
  fold_left (fun d kv => sdict_set (fst kv) (snd kv) d) (rs ++ fs) [].

(* globe_puzzle(a, b) *)
Definition globe_puzzle (a b : nat) : result puzzle :=
  let moves := globe_gens a b in
  create_def
    (flat_map (fun kv => if has_char "r"%char (fst kv) then [snd kv; inverse_perm (snd kv)] else [snd kv]) moves)
    (flat_map (fun kv => if has_char "r"%char (fst kv) then [fst kv; fst kv +++ "_inv"] else [fst kv]) moves)
    (seq 0 (2 * b * (a + 1)))
    ("globe_puzzle-" +++ str_of_nat a +++ "-" +++ str_of_nat b).
