(** Glue for evaluating the BFS model on harness cases (uses the generated constants). *)
From Coq Require Import ZArith List Bool Arith Lia.
From V Require Import Base W64 Tensor Hash GraphImpl Bfs.
From V.gen Require Import Consts.
Import ListNotations.
Open Scope Z_scope.

Definition impl_of (d : gdesc) : impl := mk_impl splitmix_steps hash_mult d.

(* the stop callbacks the harness uses *)
Inductive stop_kind :=
| StopNone
| StopAtCall (k : nat)            (* returns True at its k-th call (1-based) *)
| StopSizeGe (s : nat)
| StopHasHash (h : Z)
| StopNever.                      (* a hook that always returns False *)

Definition stop_of (k : stop_kind) : option (nat -> list state -> list Z -> bool) :=
  match k with
  | StopNone => None
  | StopAtCall c => Some (fun i _ _ => (i =? c)%nat)     (* when called once per layer in order, call c is iteration c *)
  | StopSizeGe s => Some (fun _ l _ => (s <=? length l)%nat)
  | StopHasHash h => Some (fun _ _ hs => isin1 hs h)
  | StopNever => Some (fun _ _ _ => false)
  end.

Record bfs_case := {
  c_g : gdesc; c_starts : list (list Z);
  c_batch : Z; c_store : Z; c_explore : Z; c_diam : N;
  c_edges : bool; c_hashes : bool; c_nobatch : bool; c_stop : stop_kind;
  (* observed on the implementation *)
  e_err : option err;
  e_completed : bool; e_sizes : list nat; e_layers : list (nat * list (list Z));
  e_hashes : list (list Z); e_edges : option (list (Z * Z)); e_trace : list nat;  (* sizes of the layers the callback saw *)
}.

Definition run_case (c : bfs_case) : result bfs_out :=
  bfs (impl_of (c_g c))
      {| batch_size := c_batch c; max_store := c_store c; max_explore := c_explore c; max_diameter := c_diam c;
         ret_edges := c_edges c; ret_hashes := c_hashes c; no_batching := c_nobatch c; stop := stop_of (c_stop c) |}
      (c_starts c).

Definition zpair_eqb (a b : Z * Z) : bool := (fst a =? fst b) && (snd a =? snd b).
Definition layer_eqb (a b : nat * list (list Z)) : bool := (fst a =? fst b)%nat && z_list2_eqb (snd a) (snd b).

Definition check_case (c : bfs_case) : bool :=
  match run_case c, e_err c with
  | Err e, Some e' => err_eqb e e'
  | Ok o, None =>
      Bool.eqb (completed o) (e_completed c)
      && nat_list_eqb (sizes o) (e_sizes c)
      && list_eqb layer_eqb (layers o) (e_layers c)
      && z_list2_eqb (layer_hashes o) (e_hashes c)
      && option_eqb (list_eqb zpair_eqb) (edges o) (e_edges c)
      && nat_list_eqb (map (fun i => nth i (sizes o) O) (callback_trace o)) (e_trace c)
  | _, _ => false
  end.
