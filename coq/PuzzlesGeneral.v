(** P12 - general-parameter structure theorems for the generated puzzles (no bound on the parameters).

    This file collects the main results; the proofs live in
      PuzzlesGeneralCommon.v  (create_def, inverse_perm uniqueness, "table stepping along a list" = single cycle, names)
      PuzzlesGeneralCube.v    (QSTM / QTM / HTM generator lists of rubik_cube n, every n >= 2)
      PuzzlesGeneralCubeAtm.v (ATM generator list of rubik_cube n, every n >= 2)
      PuzzlesGeneralGlobe.v   (globe_gens / globe_puzzle, every a, b >= 1)
      PuzzlesGeneralRings.v   (hungarian_rings_permutations / _generators / hungarian_rings, every admissible tuple)
    Compile order: PuzzlesGeneralCommon, PuzzlesGeneralCube, PuzzlesGeneralCubeAtm, PuzzlesGeneralGlobe,
    PuzzlesGeneralRings, PuzzlesGeneral.

    The structure predicates ([CubeMetricsStructure], [RingsStructure], [GlobeStructure], [GensStructure], ...) are
    the ones of PuzzlesProofs.v, where they are established by kernel computation for n <= 6, sizes <= 12 and
    a, b <= 6; here they are proved for ALL admissible parameters. *)
From Coq Require Import String Ascii ZArith List Bool Arith Lia.
From V Require Import Base Perm PermProofs Puzzles PuzzlesProofs CubeGeneral CubeGeneralMoves.
From V Require Export PuzzlesGeneralCommon PuzzlesGeneralCube PuzzlesGeneralCubeAtm PuzzlesGeneralGlobe PuzzlesGeneralRings.
Import ListNotations.
Local Open Scope list_scope.
Local Open Scope nat_scope.

(** (1) CUBE, every n >= 2: the 3n layer turns (CubeGeneralMoves.v) and the generator lists of the metrics
    QSTM (6n generators), QTM (6*outer_count n), HTM (9*outer_count n) and ATM (3 (3^n - 1)): the constructor
    succeeds, all generators are permutations of 6 n^2 points, the list is inverse-closed.
    CubeStructure n = CubeMovesStructure n /\ CubeMetricsStructure n /\ CubeAtmStructure n. *)
Theorem cube_general n : 2 <= n -> CubeStructure n.
Proof. apply cube_structure_general. Qed.

(** (2) RINGS, all sizes ls, rs >= 2 and all index pairs the model accepts (li = ri = 0, or 1 <= li < ls and
    1 <= ri < rs; [rings_perms_rejects]: every other pair raises ValueError, and create_right_ring's length
    assertion never fires: [create_right_ring_eq]):
    RingsPermsStructure (both rotations are permutations and single cycles of lengths ls, rs; the right cycle fixes
    every other point; the two supports meet exactly in {0, li}; spacing li / ri; step -1 gives inverse_perm),
    RingsGensStructure and, under the two assertions of Puzzles.hungarian_rings, RingsPuzzleStructure
    (inverse-closed generator list of 2, 3 or 4 permutations). *)
Theorem rings_general ls li rs ri :
  (2 <= ls)%Z -> (2 <= rs)%Z -> ((li = 0 /\ ri = 0) \/ (1 <= li < ls /\ 1 <= ri < rs))%Z ->
  RingsStructure ls li rs ri.
Proof. apply rings_structure_general. Qed.

(** (3) GLOBE, all a, b >= 1: r_k one cycle of length 2b on row k, f_k an involution (not the identity) and a
    permutation of 2(a+1)b points; globe_puzzle succeeds with 2(a+1) + 2b generators, inverse-closed. *)
Theorem globe_general a b : 1 <= a -> 1 <= b -> GlobeStructure a b.
Proof. apply globe_structure_general. Qed.

(** "globe, cube and ring generator sets are inverse-closed", in one statement *)
Theorem generator_sets_inverse_closed :
  (forall n metric, 2 <= n -> In metric ["QSTM"; "QTM"; "HTM"; "ATM"]%string ->
     exists pz, rubik_cube (Z.of_nat n) metric = Ok pz /\
       (forall g, In g (pz_gens pz) -> length g = 6 * (n * n) /\ Perm g) /\ InverseClosed (pz_gens pz)) /\
  (forall ls li rs ri, (2 <= ls)%Z -> (2 <= rs)%Z -> ((li = 0 /\ ri = 0) \/ (1 <= li < ls /\ 1 <= ri < rs))%Z ->
     (2 * li <= ls)%Z -> (2 * ri <= rs)%Z ->
     exists pz, hungarian_rings ls li rs ri = Ok pz /\
       (forall g, In g (pz_gens pz) -> length g = ring_points ls li rs ri /\ Perm g) /\ InverseClosed (pz_gens pz)) /\
  (forall a b, 1 <= a -> 1 <= b ->
     exists pz, globe_puzzle a b = Ok pz /\
       (forall g, In g (pz_gens pz) -> length g = 2 * (a + 1) * b /\ Perm g) /\ InverseClosed (pz_gens pz)).
Proof.
  split; [|split].
  - intros n metric Hn Hm. destruct (cube_metrics_general n Hn) as (H1 & H2 & H3). cbv zeta in H1, H2, H3.
    pose proof (cube_atm_general n Hn) as H4. unfold CubeAtmStructure in H4.
    destruct Hm as [<-|[<-|[<-|[<-|[]]]]].
    + destruct H1 as (pz & E & _ & HP & HI). exists pz. auto.
    + destruct H2 as (pz & E & _ & HP & HI). exists pz. auto.
    + destruct H3 as (pz & E & _ & HP & HI). exists pz. auto.
    + destruct H4 as (pz & E & _ & HP & HI). exists pz. auto.
  - intros ls li rs ri H1 H2 H3 A1 A2.
    destruct (rings_structure_general ls li rs ri H1 H2 H3) as (_ & _ & HPz).
    destruct (HPz A1 A2) as (gens & names & _ & pz & E & _ & (pz' & E' & _ & HP & HI)).
    inversion E'; subst pz'. exists pz. auto.
  - intros a b Ha Hb. destruct (globe_puzzle_general a b Ha Hb) as (pz & E & _ & HP & HI). exists pz. auto.
Qed.

(** "Hungarian-ring rotations are single cycles of the ring lengths sharing exactly the intersection points at the
    stated spacing", read off RingsPermsStructure for arbitrary sizes *)
Theorem rings_rotations_general ls li rs ri :
  (2 <= ls)%Z -> (2 <= rs)%Z -> ((li = 0 /\ ri = 0) \/ (1 <= li < ls /\ 1 <= ri < rs))%Z ->
  exists L R : list nat,
    hungarian_rings_permutations ls li rs ri 1 = Ok (map Z.of_nat L, map Z.of_nat R) /\
    hungarian_rings_permutations ls li rs ri (-1) = Ok (map Z.of_nat (inverse_perm L), map Z.of_nat (inverse_perm R)) /\
    Perm L /\ Perm R /\ SingleCycle L (Z.to_nat ls) /\ SingleCycle R (Z.to_nat rs) /\
    (forall x, (Moved L x /\ Moved R x) <-> (x = 0 \/ x = Z.to_nat li)) /\
    (DistIs L 0 (Z.to_nat li) (Z.to_nat li) \/ DistIs L (Z.to_nat li) 0 (Z.to_nat li)) /\
    (DistIs R 0 (Z.to_nat li) (Z.to_nat ri) \/ DistIs R (Z.to_nat li) 0 (Z.to_nat ri)).
Proof.
  intros H1 H2 H3. destruct (rings_structure_general ls li rs ri H1 H2 H3) as (HP & _).
  destruct HP as (L & R & E1 & E2 & _ & _ & PL & PR & SL & _ & SR & HI & DL & DR).
  exists L, R. split; [exact E1|]. split; [exact E2|]. split; [exact PL|]. split; [exact PR|].
  split; [exact SL|]. split; [exact SR|]. split; [exact HI|]. split; [exact DL|exact DR].
Qed.

(* ---------- non-vacuity of the hypotheses ---------- *)
Example ex_cube_general : 2 <= 7 /\ In "HTM"%string ["QSTM"; "QTM"; "HTM"; "ATM"]%string.
Proof. split; [lia|cbn; auto]. Qed.
Example ex_rings_general_hyps :
  (2 <= 10)%Z /\ (2 <= 8)%Z /\ ((3 = 0 /\ 4 = 0) \/ (1 <= 3 < 10 /\ 1 <= 4 < 8))%Z /\ (2 * 3 <= 10)%Z /\ (2 * 4 <= 8)%Z
  /\ gens_ok (ring_points 10 3 8 4) 4 (hungarian_rings 10 3 8 4) = true.
Proof. split; [lia|]. split; [lia|]. split; [lia|]. split; [lia|]. split; [lia|]. vm_compute. reflexivity. Qed.
Example ex_globe_general_hyps : 1 <= 2 /\ 1 <= 3 /\ gens_ok (2 * (2 + 1) * 3) 12 (globe_puzzle 2 3) = true.
Proof. split; [lia|]. split; [lia|]. vm_compute. reflexivity. Qed.

Print Assumptions cube_general.
Print Assumptions rings_general.
Print Assumptions globe_general.
Print Assumptions generator_sets_inverse_closed.
Print Assumptions rings_rotations_general.
