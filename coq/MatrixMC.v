(** C10.2 for matrices: MatrixGenerator.inv only checks M * M' = I, but the inverted definition
    needs M' * M = I.  In a commutative ring a right inverse of a square matrix is a left inverse
    (MathComp [mulmx1C]); this file bridges that fact to the list model of Matrix.v, both for
    modulo 0 (int64 arithmetic = the ring Z/2^64, signed representatives given by [wrap]) and for a
    modulus 2 <= m <= 2^31 (the ring Z/m, no overflow).  One generic residue ring serves both. *)
From mathcomp Require Import all_ssreflect all_algebra.
From Coq Require Import ZArith Lia.
From V Require Import Base W64 W64Proofs Matrix MatrixProofs Def DefProofs.
Import GRing.Theory.

Set Implicit Arguments.
Unset Strict Implicit.
Unset Printing Implicit Defensive.

Local Close Scope Z_scope.
Local Open Scope ring_scope.

(* ------------------------------------------------------------------ *)
(** * Z as an eqType / choiceType (only what the ring structures below need) *)

Definition Z_eqMixin := EqMixin Z.eqb_spec.
Canonical Z_eqType := EqType Z Z_eqMixin.

Definition Z_to_pair (z : Z) : nat * nat := (Z.to_nat z, Z.to_nat (- z)).
Definition Z_of_pair (p : nat * nat) : Z := (Z.of_nat p.1 - Z.of_nat p.2)%Z.
Lemma Z_to_pairK : cancel Z_to_pair Z_of_pair.
Proof. move=> z; rewrite /Z_to_pair /Z_of_pair /=; lia. Qed.
Definition Z_choiceMixin := CanChoiceMixin Z_to_pairK.
Canonical Z_choiceType := ChoiceType Z Z_choiceMixin.

(* ------------------------------------------------------------------ *)
(** * The residue ring Z/m with representatives chosen by [norm] *)

Section Residue.
Variables (m : Z) (norm : Z -> Z).
Hypothesis m_gt1 : (1 < m)%Z.
Hypothesis norm_cong : forall z, (norm z mod m = z mod m)%Z.
Hypothesis norm_eq : forall a b, (a mod m = b mod m)%Z -> norm a = norm b.

Lemma norm_idem z : norm (norm z) = norm z.
Proof. exact: norm_eq (norm_cong z). Qed.

Record res : Type := Res { rval : Z; rvalP : Z.eqb (norm rval) rval }.
Canonical res_subType := [subType for rval].
Definition res_eqMixin := [eqMixin of res by <:].
Canonical res_eqType := EqType res res_eqMixin.
Definition res_choiceMixin := [choiceMixin of res by <:].
Canonical res_choiceType := ChoiceType res res_choiceMixin.

Lemma mk_proof z : Z.eqb (norm (norm z)) (norm z).
Proof. by rewrite norm_idem Z.eqb_refl. Qed.
Definition mk (z : Z) : res := Res (mk_proof z).

Lemma rval_mk z : rval (mk z) = norm z. Proof. by []. Qed.

Lemma rval_norm (x : res) : norm (rval x) = rval x.
Proof. by case: x => z /= /Z.eqb_spec. Qed.

Lemma mk_eq a b : (a mod m = b mod m)%Z -> mk a = mk b.
Proof. by move=> H; apply: val_inj; rewrite /= (norm_eq H). Qed.

Lemma mk_rval (x : res) : mk (rval x) = x.
Proof. by apply: val_inj; rewrite /= rval_norm. Qed.

Lemma mk_inj_mod a b : mk a = mk b -> (a mod m = b mod m)%Z.
Proof. by move=> /(congr1 rval) /= H; rewrite -(norm_cong a) H norm_cong. Qed.

(* congruence lemmas: [norm] may be dropped under [_ mod m] *)
Lemma add_norm_l a b : ((norm a + b) mod m = (a + b) mod m)%Z.
Proof. by rewrite -Zplus_mod_idemp_l norm_cong Zplus_mod_idemp_l. Qed.
Lemma add_norm_r a b : ((a + norm b) mod m = (a + b) mod m)%Z.
Proof. by rewrite -Zplus_mod_idemp_r norm_cong Zplus_mod_idemp_r. Qed.
Lemma mul_norm_l a b : ((norm a * b) mod m = (a * b) mod m)%Z.
Proof. by rewrite -Zmult_mod_idemp_l norm_cong Zmult_mod_idemp_l. Qed.
Lemma mul_norm_r a b : ((a * norm b) mod m = (a * b) mod m)%Z.
Proof. by rewrite -Zmult_mod_idemp_r norm_cong Zmult_mod_idemp_r. Qed.
Lemma opp_norm a : ((- norm a) mod m = (- a) mod m)%Z.
Proof.
  have E x : (- x = (-1) * x)%Z by lia.
  by rewrite (E (norm a)) (E a) mul_norm_r.
Qed.

Definition radd (x y : res) : res := mk (rval x + rval y)%Z.
Definition ropp (x : res) : res := mk (- rval x)%Z.
Definition rmul (x y : res) : res := mk (rval x * rval y)%Z.
Definition rzero : res := mk 0%Z.
Definition rone : res := mk 1%Z.

Lemma raddA : associative radd.
Proof.
  move=> x y z; apply: mk_eq; rewrite !rval_mk add_norm_r add_norm_l.
  by congr (_ mod _)%Z; lia.
Qed.
Lemma raddC : commutative radd.
Proof. by move=> x y; apply: mk_eq; congr (_ mod _)%Z; lia. Qed.
Lemma radd0 : left_id rzero radd.
Proof.
  move=> x; rewrite -[RHS]mk_rval; apply: mk_eq; rewrite rval_mk add_norm_l.
  by congr (_ mod _)%Z; lia.
Qed.
Lemma raddN : left_inverse rzero ropp radd.
Proof.
  move=> x; apply: mk_eq; rewrite rval_mk add_norm_l.
  by congr (_ mod _)%Z; lia.
Qed.
Definition res_zmodMixin := ZmodMixin raddA raddC radd0 raddN.
Canonical res_zmodType := ZmodType res res_zmodMixin.

Lemma rmulA : associative rmul.
Proof.
  move=> x y z; apply: mk_eq; rewrite !rval_mk mul_norm_r mul_norm_l.
  by congr (_ mod _)%Z; lia.
Qed.
Lemma rmulC : commutative rmul.
Proof. by move=> x y; apply: mk_eq; congr (_ mod _)%Z; lia. Qed.
Lemma rmul1 : left_id rone rmul.
Proof.
  move=> x; rewrite -[RHS]mk_rval; apply: mk_eq; rewrite rval_mk mul_norm_l.
  by congr (_ mod _)%Z; lia.
Qed.
Lemma rmulDl : left_distributive rmul radd.
Proof.
  move=> x y z; apply: mk_eq; rewrite !rval_mk mul_norm_l add_norm_l add_norm_r.
  by congr (_ mod _)%Z; lia.
Qed.
Lemma rone_neq0 : rone != rzero.
Proof.
  apply/eqP => /mk_inj_mod. rewrite Z.mod_1_l // Z.mod_0_l; lia.
Qed.
Definition res_ringMixin := ComRingMixin rmulA rmulC rmul1 rmulDl rone_neq0.
Canonical res_ringType := RingType res res_ringMixin.
Canonical res_comRingType := ComRingType res rmulC.

(* [mk] is a ring morphism from Z *)
Lemma mk_add a b : mk a + mk b = mk (a + b)%Z.
Proof. by apply: mk_eq; rewrite !rval_mk add_norm_l add_norm_r. Qed.
Lemma mk_mul a b : mk a * mk b = mk (a * b)%Z.
Proof. by apply: mk_eq; rewrite !rval_mk mul_norm_l mul_norm_r. Qed.
Lemma mk_0 : mk 0%Z = 0. Proof. by []. Qed.
Lemma mk_1 : mk 1%Z = 1. Proof. by []. Qed.

Lemma zsum_rcons l x : zsum (List.app l (cons x nil)) = (zsum l + x)%Z.
Proof. by rewrite /zsum List.fold_left_app. Qed.

Lemma sum_mk n (F : nat -> Z) : \sum_(j < n) mk (F j) = mk (zsum (List.map F (List.seq 0 n))).
Proof.
  elim: n => [|n IH]; first by rewrite big_ord0.
  by rewrite List.seq_S List.map_app zsum_rcons -mk_add -IH big_ord_recr /=.
Qed.

Definition toM q n (a : nat -> nat -> Z) : 'M[res]_(q, n) := \matrix_(i, j) mk (a i j).

Lemma toM_mul q n p (a b : nat -> nat -> Z) (i : 'I_q) (k : 'I_p) :
  (toM q n a *m toM n p b) i k = mk (dotZ n a b i k).
Proof.
  rewrite mxE /dotZ -sum_mk; apply: eq_bigr => j _.
  by rewrite !mxE mk_mul.
Qed.

Lemma delta_mk n (i k : 'I_n) : mk (delta i k) = (1%:M : 'M[res]_n) i k.
Proof.
  rewrite mxE /delta. have -> : Nat.eqb i k = (i == k :> nat) by apply/idP/eqP => /Nat.eqb_spec.
  by rewrite -val_eqE; case: (_ == _).
Qed.

(* the generic statement, free of any MathComp vocabulary *)
Theorem residue_right_inverse_is_left n (a b : nat -> nat -> Z) :
  (forall i k, (i < n)%coq_nat -> (k < n)%coq_nat -> norm (dotZ n a b i k) = norm (delta i k)) ->
  (forall i k, (i < n)%coq_nat -> (k < n)%coq_nat -> norm (dotZ n b a i k) = norm (delta i k)).
Proof.
  move=> H.
  have AB : toM n n a *m toM n n b = 1%:M :> 'M[res]_n.
  { apply/matrixP => i k. rewrite toM_mul -delta_mk. apply: val_inj => /=.
    by apply: H; apply/ltP. }
  have BA := mulmx1C AB.
  move=> i k /ltP Hi /ltP Hk.
  move/matrixP/(_ (Ordinal Hi) (Ordinal Hk)): BA.
  by rewrite toM_mul -delta_mk => /(congr1 rval).
Qed.

(* a left inverse undoes the action on an n x p block of values (the state), including the
   intermediate normalisation of the first product *)
Theorem residue_inverse_undoes n p (a' a s : nat -> nat -> Z) :
  (forall i k, (i < n)%coq_nat -> (k < n)%coq_nat -> norm (dotZ n a' a i k) = norm (delta i k)) ->
  forall i k, (i < n)%coq_nat -> (k < p)%coq_nat ->
    norm (dotZ n a' (fun j k => norm (dotZ n a s j k)) i k) = norm (s i k).
Proof.
  move=> H.
  have A'A : toM n n a' *m toM n n a = 1%:M :> 'M[res]_n.
  { apply/matrixP => i k. rewrite toM_mul -delta_mk. apply: val_inj => /=.
    by apply: H; apply/ltP. }
  have E : toM n p (fun j k => norm (dotZ n a s j k)) = toM n n a *m toM n p s.
  { apply/matrixP => j k. rewrite toM_mul mxE. apply: mk_eq. exact: norm_cong. }
  move=> i k /ltP Hi /ltP Hk.
  have := @toM_mul n n p a' (fun j k => norm (dotZ n a s j k)) (Ordinal Hi) (Ordinal Hk).
  by rewrite E mulmxA A'A mul1mx mxE => /(congr1 rval) /= <-.
Qed.

End Residue.

(* ------------------------------------------------------------------ *)
(** * Instance 1: modulo 0, i.e. int64 arithmetic = Z/2^64 with [wrap] *)

Lemma wrap_norm_cong z : (wrap z mod two64 = z mod two64)%Z.
Proof. exact: wrap_mod. Qed.
Lemma wrap_norm_eq a b : (a mod two64 = b mod two64)%Z -> wrap a = wrap b.
Proof. by move=> H; apply/wrap_eq_iff. Qed.
Lemma two64_gt1 : (1 < two64)%Z. Proof. by []. Qed.

Lemma wrap_delta i k : wrap (delta i k) = delta i k.
Proof. by rewrite /delta; case: (Nat.eqb i k). Qed.

Theorem mat_mul0_right_inverse_is_left n A B :
  mat_mul 0 n A B = eye n -> mat_mul 0 n B A = eye n.
Proof.
  move=> /mat_mul0_eye_iff H; apply/mat_mul0_eye_iff => i k Hi Hk.
  rewrite -(wrap_delta i k).
  apply: (residue_right_inverse_is_left two64_gt1 wrap_norm_cong wrap_norm_eq) Hi Hk => i' k' Hi' Hk'.
  by rewrite wrap_delta; apply: H.
Qed.

(* MatrixGenerator.inv with modulo 0: whatever the oracle proposed, an accepted result is the
   two-sided inverse in the sense of the library's own is_inverse_to *)
Theorem mat_inv_two_sided_mod0 n M cand M' :
  mat_inv 0 n M cand = Ok M' ->
  mat_mul 0 n M M' = eye n /\ mat_mul 0 n M' M = eye n /\ is_inverse_to 0 n M M' = true.
Proof.
  move=> /mat_inv_sound_mod0 [_ H1].
  have H2 := mat_mul0_right_inverse_is_left H1.
  split=> //; split=> //. rewrite /is_inverse_to H1 H2.
  by have /mat_eqb_true -> : eye n = eye n by [].
Qed.

(* on states: applying M' after M gives the state back (flat row-major n x m states of int64) *)
Theorem mat_apply0_undo n m M M' S :
  mat_mul 0 n M' M = eye n ->
  length S = (n * m)%coq_nat -> (forall idx, (idx < n * m)%coq_nat -> in64 (List.nth idx S 0%Z)) ->
  mat_apply 0 n m M' (mat_apply 0 n m M S) = S.
Proof.
  move=> /mat_mul0_eye_iff H HL Hin. apply: mat_apply0_undo_crit HL Hin _ => i k Hi Hk.
  apply: (residue_inverse_undoes two64_gt1 wrap_norm_cong wrap_norm_eq) Hi Hk => i' k' Hi' Hk'.
  by rewrite wrap_delta; apply: H.
Qed.

(* C10.2, matrices, modulo 0: the generator produced by inv undoes the original generator, and
   vice versa, on every int64 state *)
Theorem mat_inv_undoes_mod0 n m M cand M' S :
  mat_inv 0 n M cand = Ok M' ->
  length S = (n * m)%coq_nat -> (forall idx, (idx < n * m)%coq_nat -> in64 (List.nth idx S 0%Z)) ->
  mat_apply 0 n m M' (mat_apply 0 n m M S) = S /\ mat_apply 0 n m M (mat_apply 0 n m M' S) = S.
Proof.
  move=> /mat_inv_two_sided_mod0 [H1 [H2 _]] HL Hin.
  by split; apply: mat_apply0_undo.
Qed.

(* ------------------------------------------------------------------ *)
(** * Instance 2: modulus 2 <= m <= 2^31, reduced entries: Z/m *)

Section Modular.
Variable modulo : Z.
Hypothesis Hm : (2 <= modulo <= 2 ^ 31)%Z.

Let m_gt1 : (1 < modulo)%Z. Proof. lia. Qed.
Let modn (z : Z) : Z := (z mod modulo)%Z.
Let modn_cong z : (modn z mod modulo = z mod modulo)%Z.
Proof. rewrite /modn Zmod_mod //. Qed.
Let modn_eq a b : (a mod modulo = b mod modulo)%Z -> modn a = modn b.
Proof. by []. Qed.

Lemma mod_delta i k : (delta i k mod modulo = delta i k)%Z.
Proof. rewrite /delta; case: (Nat.eqb i k); rewrite Z.mod_small //; lia. Qed.

Theorem mat_mul_mod_right_inverse_is_left n A B :
  (Z.of_nat n < 2 ^ 32)%Z ->
  (forall r c0, (r < n)%coq_nat -> (c0 < n)%coq_nat -> (0 <= mentry A r c0 < modulo)%Z) ->
  (forall r c0, (r < n)%coq_nat -> (c0 < n)%coq_nat -> (0 <= mentry B r c0 < modulo)%Z) ->
  mat_mul modulo n A B = eye n -> mat_mul modulo n B A = eye n.
Proof.
  move=> Hn HA HB /(mat_mul_mod_eye_iff modulo n A B Hm Hn HA HB) H.
  apply/(mat_mul_mod_eye_iff modulo n B A Hm Hn HB HA) => i k Hi Hk.
  rewrite -(mod_delta i k).
  apply: (residue_right_inverse_is_left m_gt1 modn_cong modn_eq) Hi Hk => i' k' Hi' Hk'.
  by rewrite /modn mod_delta; apply: H.
Qed.

(* MatrixGenerator.inv with a modulus: an accepted result is the two-sided inverse *)
Theorem mat_inv_two_sided_modular n M cand M' :
  (Z.of_nat n < 2 ^ 32)%Z ->
  (forall r c0, (r < n)%coq_nat -> (c0 < n)%coq_nat -> (0 <= mentry M r c0 < modulo)%Z) ->
  (forall r c0, (r < n)%coq_nat -> (c0 < n)%coq_nat -> (- 2 ^ 31 <= mentry cand r c0 <= 2 ^ 31)%Z) ->
  mat_inv modulo n M cand = Ok M' ->
  mat_mul modulo n M M' = eye n /\ mat_mul modulo n M' M = eye n /\ is_inverse_to modulo n M M' = true.
Proof.
  move=> Hn HM HC Hinv.
  have [EM' H1] := mat_inv_sound_modular' modulo n M cand M' Hm HM HC Hinv.
  have HM' r c0 : (r < n)%coq_nat -> (c0 < n)%coq_nat -> (0 <= mentry M' r c0 < modulo)%Z.
  { move=> _ _. rewrite EM' /mentry nth_map_map_mod. apply: Z.mod_pos_bound. lia. }
  have H2 := mat_mul_mod_right_inverse_is_left Hn HM HM' H1.
  split=> //; split=> //. rewrite /is_inverse_to H1 H2.
  by have /mat_eqb_true -> : eye n = eye n by [].
Qed.

Theorem mat_apply_mod_undo n m M M' S :
  (Z.of_nat n < 2 ^ 32)%Z ->
  (forall r c0, (r < n)%coq_nat -> (c0 < n)%coq_nat -> (0 <= mentry M r c0 < modulo)%Z) ->
  (forall r c0, (r < n)%coq_nat -> (c0 < n)%coq_nat -> (0 <= mentry M' r c0 < modulo)%Z) ->
  mat_mul modulo n M' M = eye n ->
  length S = (n * m)%coq_nat -> (forall j, (j < n * m)%coq_nat -> (0 <= List.nth j S 0 < modulo)%Z) ->
  mat_apply modulo n m M' (mat_apply modulo n m M S) = S.
Proof.
  move=> Hn HM HM' /(mat_mul_mod_eye_iff modulo n M' M Hm Hn HM' HM) H HL HS.
  apply: (mat_apply_mod_undo_crit modulo n m M M' S Hm Hn HM HM' HL HS) => i k Hi Hk.
  apply: (residue_inverse_undoes m_gt1 modn_cong modn_eq (mat_entry m S)) Hi Hk => i' k' Hi' Hk'.
  by rewrite /modn mod_delta; apply: H.
Qed.

(* C10.2, matrices, with a modulus: the generator produced by inv undoes the original generator,
   and vice versa, on every reduced state *)
Theorem mat_inv_undoes_modular n m M cand M' S :
  (Z.of_nat n < 2 ^ 32)%Z ->
  (forall r c0, (r < n)%coq_nat -> (c0 < n)%coq_nat -> (0 <= mentry M r c0 < modulo)%Z) ->
  (forall r c0, (r < n)%coq_nat -> (c0 < n)%coq_nat -> (- 2 ^ 31 <= mentry cand r c0 <= 2 ^ 31)%Z) ->
  mat_inv modulo n M cand = Ok M' ->
  length S = (n * m)%coq_nat -> (forall j, (j < n * m)%coq_nat -> (0 <= List.nth j S 0 < modulo)%Z) ->
  mat_apply modulo n m M' (mat_apply modulo n m M S) = S /\ mat_apply modulo n m M (mat_apply modulo n m M' S) = S.
Proof.
  move=> Hn HM HC Hinv HL HS.
  have [H1 [H2 _]] := mat_inv_two_sided_modular Hn HM HC Hinv.
  have [EM' _] := mat_inv_sound_modular' modulo n M cand M' Hm HM HC Hinv.
  have HM' r c0 : (r < n)%coq_nat -> (c0 < n)%coq_nat -> (0 <= mentry M' r c0 < modulo)%Z.
  { move=> _ _. rewrite EM' /mentry nth_map_map_mod. apply: Z.mod_pos_bound. lia. }
  by split; apply: mat_apply_mod_undo.
Qed.

End Modular.

Print Assumptions mat_mul0_right_inverse_is_left.
Print Assumptions mat_inv_two_sided_mod0.
Print Assumptions mat_mul_mod_right_inverse_is_left.
Print Assumptions mat_inv_two_sided_modular.
Print Assumptions mat_inv_undoes_mod0.
Print Assumptions mat_inv_undoes_modular.
