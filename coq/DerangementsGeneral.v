(** General-n membership theorems for the derangement families of Families.v (models of
    cayleypy/graphs_lib.py [PermutationGroups.derangements] / [involutive_derangements]). *)
From Coq Require Import ZArith List Bool Arith Lia Sorting.Mergesort Sorting.Permutation.
From V Require Import Base Perm PermProofs PermCycles BitmaskProofs Def DefProofs Families FamiliesProofs
  ClassEnumGeneral.
Import ListNotations.
Open Scope nat_scope.

(* ------------------------------------------------------------------------------------------- *)
(** * generic *)

Lemma filter_combine_snd {A B} (f : B -> bool) : forall (l1 : list A) (l2 : list B),
  length l1 = length l2 ->
  map snd (filter (fun ip => f (snd ip)) (combine l1 l2)) = filter f l2.
Proof.
  induction l1 as [|a l1 IH]; intros [|b l2] H; cbn [length] in H; try lia; [reflexivity|].
  cbn [combine filter snd]. destruct (f b); cbn [map snd]; rewrite IH by lia; reflexivity.
Qed.

Lemma of_to_nats q : Forall (fun v => (0 <= v)%Z) q -> of_nats (to_nats q) = q.
Proof.
  unfold of_nats, to_nats. rewrite map_map. intros H. rewrite <- (map_id q) at 2.
  apply map_ext_in. intros v Hv. rewrite Forall_forall in H. specialize (H v Hv). lia.
Qed.

Lemma Permutation_of_nats_nonneg l q : Permutation (of_nats l) q -> Forall (fun v => (0 <= v)%Z) q.
Proof.
  intros HP. apply Forall_forall. intros v Hv.
  eapply Permutation_in in Hv; [|symmetry; exact HP].
  unfold of_nats in Hv. apply in_map_iff in Hv as (a & <- & _). lia.
Qed.

(* ------------------------------------------------------------------------------------------- *)
(** * derangements(n) *)

(* the selection test of the list comprehension: all(perm[i] != i for i in range(n)) *)
Definition no_fix_z (n : Z) (perm : list Z) : bool :=
  negb (existsb (fun i => (znth perm i =? i)%Z) (zrange 0 n)).

Definition Derangement (N : nat) (p : list nat) : Prop :=
  Perm p /\ length p = N /\ forall i, i < N -> nth i p 0 <> i.

Lemma no_fix_z_spec N p : length p = N ->
  no_fix_z (Z.of_nat N) (of_nats p) = true <-> forall i, i < N -> nth i p 0 <> i.
Proof.
  intros L. unfold no_fix_z. rewrite negb_true_iff. rewrite zrange0_nat. split.
  - intros H i Hi E.
    assert (existsb (fun i => (znth (of_nats p) i =? i)%Z) (of_nats (seq 0 N)) = true); [|congruence].
    apply existsb_exists. exists (Z.of_nat i). split.
    + unfold of_nats. apply in_map. apply in_seq. lia.
    + unfold znth. rewrite Nat2Z.id, nth_of_nats, E. apply Z.eqb_refl.
  - intros H. destruct (existsb _ _) eqn:E; [|reflexivity]. exfalso.
    apply existsb_exists in E as (z & Hz & Ez). unfold of_nats in Hz.
    apply in_map_iff in Hz as (i & <- & Hi). apply in_seq in Hi.
    unfold znth in Ez. rewrite Nat2Z.id, nth_of_nats in Ez. apply Z.eqb_eq in Ez.
    apply (H i); lia.
Qed.

Lemma derangements_gens_eq n :
  let ps := perms (zrange 0 n) in
  map snd (filter (fun '(idx, perm) => negb (existsb (fun i => (znth perm i =? i)%Z) (zrange 0 n)))
                  (combine (seq 0 (length ps)) ps))
  = filter (no_fix_z n) ps.
Proof.
  cbv zeta. set (ps := perms (zrange 0 n)).
  rewrite <- (filter_combine_snd (no_fix_z n) (seq 0 (length ps)) ps) by apply seq_length.
  f_equal. apply filter_ext. intros [idx perm]. reflexivity.
Qed.

(* the rotation i -> i+1 is a derangement: the family is never empty for n >= 2 *)
Lemma gen_L_derangement N : 2 <= N -> Derangement N (gen_L N).
Proof.
  intros HN. destruct (gen_L_PermN N ltac:(lia)) as [HP L]. split; [exact HP|]. split; [exact L|].
  intros i Hi. rewrite gen_L_nth by exact Hi. destruct (Nat.ltb_spec (i + 1) N); lia.
Qed.

Theorem derangements_spec N : 2 <= N ->
  exists d, derangements (Z.of_nat N) = Ok d /\
    (forall p, In p (p_gens d) <-> Derangement N p) /\
    NoDup (p_gens d) /\
    length (p_names d) = length (p_gens d) /\
    p_central d = of_nats (seq 0 N).
Proof.
  intros HN. unfold derangements.
  destruct (Z.leb_spec 2 (Z.of_nat N)) as [_|]; [|lia]. cbn [negb]. cbv zeta.
  rewrite derangements_gens_eq. cbv zeta.
  set (n := Z.of_nat N). set (ps := perms (zrange 0 n)).
  set (G := map to_nats (filter (no_fix_z n) ps)).
  assert (forall q, In q ps <-> Permutation (of_nats (seq 0 N)) q) as Hps.
  { intros q. unfold ps, n. rewrite zrange0_nat. apply perms_In_iff. }
  assert (filter (no_fix_z n) ps = map of_nats G) as EG.
  { unfold G. rewrite map_map. rewrite <- (map_id (filter _ ps)) at 1. apply map_ext_in.
    intros q Hq. apply filter_In in Hq as [Hq _]. apply Hps in Hq.
    symmetry. apply of_to_nats. eapply Permutation_of_nats_nonneg. exact Hq. }
  assert (forall p, In p G <-> Derangement N p) as HG.
  { intros p. unfold G. rewrite in_map_iff. split.
    - intros (q & <- & Hq). apply filter_In in Hq as [Hq Hf]. apply Hps in Hq.
      pose proof (of_to_nats q (Permutation_of_nats_nonneg _ _ Hq)) as Eq.
      assert (Permutation (to_nats q) (seq 0 N)) as HP.
      { rewrite <- (to_of_nats (seq 0 N)). unfold to_nats. apply Permutation_map. symmetry. exact Hq. }
      destruct (Perm_of_Permutation N _ HP) as [HPm L].
      split; [exact HPm|]. split; [exact L|]. apply no_fix_z_spec; [exact L|]. rewrite Eq. exact Hf.
    - intros (HP & L & Hnf). exists (of_nats p). split; [apply to_of_nats|].
      apply filter_In. split.
      + apply Hps. unfold of_nats. apply Permutation_map. symmetry. rewrite <- L. exact HP.
      + apply no_fix_z_spec; assumption. }
  rewrite EG.
  match goal with |- context [create _ (Some ?nm) _ ?name] => set (names := nm); set (nme := name) end.
  assert (length names = length G) as Hnames.
  { unfold names. rewrite map_length. rewrite <- (map_length snd). rewrite derangements_gens_eq.
    fold n ps. rewrite EG. apply map_length. }
  unfold n. rewrite (create_ok G (Some names) nme N).
  - eexists. split; [reflexivity|]. cbn [p_gens p_names p_central names_of].
    split; [exact HG|]. split; [|split; [exact Hnames|reflexivity]].
    unfold G. apply NoDup_map_inj.
    + apply NoDup_filter. apply perms_NoDup. unfold n. rewrite zrange0_nat.
      unfold of_nats. apply NoDup_map_inj; [apply seq_NoDup|]. intros x y _ _ E. lia.
    + intros q1 q2 H1 H2 E. apply filter_In in H1 as [H1 _], H2 as [H2 _]. apply Hps in H1, H2.
      rewrite <- (of_to_nats q1), <- (of_to_nats q2), E; try reflexivity;
        eapply Permutation_of_nats_nonneg; eassumption.
  - intros E. pose proof (proj2 (HG (gen_L N)) (gen_L_derangement N HN)) as Hin.
    rewrite E in Hin. destruct Hin.
  - lia.
  - apply Forall_forall. intros p Hp. apply HG in Hp as (H1 & H2 & _). split; assumption.
  - intros l El. inversion El; subst. exact Hnames.
Qed.

Theorem derangements_small n : (n < 2)%Z -> derangements n = Err AssertionErr.
Proof. intros H. unfold derangements. destruct (Z.leb_spec 2 n); [lia|reflexivity]. Qed.

(* small-n validation: the characterisation agrees with the computed generator list *)
Example derangements_4 :
  match derangements 4 with
  | Ok d => p_gens d = [[1;0;3;2];[1;2;3;0];[1;3;0;2];[2;0;3;1];[2;3;0;1];[2;3;1;0];[3;0;1;2];[3;2;0;1];[3;2;1;0]]
  | Err _ => False
  end.
Proof. vm_compute. reflexivity. Qed.

Example Derangement_instance : Derangement 4 [1; 0; 3; 2].
Proof.
  split; [apply is_perm_iff; reflexivity|]. split; [reflexivity|].
  intros i Hi. do 4 (destruct i as [|i]; [cbn; lia|]). lia.
Qed.

Print Assumptions derangements_spec.

(* ------------------------------------------------------------------------------------------- *)
(** * involutive_derangements(n): generate_matchings *)

Definition flatm (m : list (Z * Z)) : list Z := flat_map (fun ab => [fst ab; snd ab]) m.

(* the first element is matched with any later one; the rest is matched recursively *)
Inductive Matching : list Z -> list (Z * Z) -> Prop :=
| Matching_nil : Matching [] []
| Matching_cons first r1 partner r2 m :
    Matching (r1 ++ r2) m -> Matching (first :: r1 ++ partner :: r2) ((first, partner) :: m).

Lemma gm_nil f : generate_matchings f [] = [[]].
Proof. destruct f; reflexivity. Qed.

Lemma gm_unfold f first rest :
  generate_matchings (S f) (first :: rest) =
  flat_map (fun i =>
      let partner := nth i (first :: rest) 0%Z in
      let remaining := firstn (i - 1) (skipn 1 (first :: rest)) ++ skipn (i + 1) (first :: rest) in
      map (cons (first, partner)) (generate_matchings f remaining))
    (seq 1 (length (first :: rest) - 1)).
Proof.
  destruct rest as [|b [|c r]]; [reflexivity| |reflexivity].
  cbn [length Nat.sub seq flat_map nth Nat.add firstn skipn app]. rewrite gm_nil. reflexivity.
Qed.

Lemma split_at {A} (d : A) : forall j (l : list A), j < length l ->
  l = firstn j l ++ nth j l d :: skipn (S j) l.
Proof.
  induction j as [|j IH]; intros [|a l] H; cbn [length] in H; try lia; [reflexivity|].
  cbn [firstn nth skipn app]. f_equal. apply IH. lia.
Qed.

Lemma firstn_app_exact {A} (l1 l2 : list A) : firstn (length l1) (l1 ++ l2) = l1.
Proof. rewrite firstn_app, Nat.sub_diag, firstn_all. cbn [firstn]. apply app_nil_r. Qed.

Lemma skipn_app_exact {A} (l1 l2 : list A) : skipn (length l1) (l1 ++ l2) = l2.
Proof. rewrite skipn_app, Nat.sub_diag, skipn_all. reflexivity. Qed.

Theorem generate_matchings_spec : forall f els m, length els <= f ->
  (In m (generate_matchings f els) <-> Matching els m).
Proof.
  induction f as [|f IH]; intros els m Hf.
  - destruct els as [|a l]; [|cbn [length] in Hf; lia]. rewrite gm_nil. split.
    + intros [<-|[]]. constructor.
    + intros H. inversion H. left. reflexivity.
  - destruct els as [|first rest].
    { rewrite gm_nil. split; [intros [<-|[]]; constructor|intros H; inversion H; left; reflexivity]. }
    rewrite gm_unfold. replace (length (first :: rest) - 1) with (length rest) by (cbn [length]; lia).
    cbn [length] in Hf. rewrite in_flat_map. split.
    + intros (i & Hi & Hm). apply in_seq in Hi. cbv zeta in Hm.
      apply in_map_iff in Hm as (m' & <- & Hm').
      destruct i as [|j]; [lia|]. cbn [nth skipn Nat.sub] in *. rewrite Nat.sub_0_r in Hm'.
      replace (S j + 1) with (S (S j)) in Hm' by lia.
      change (skipn (S (S j)) (first :: rest)) with (skipn (S j) rest) in Hm'.
      apply IH in Hm'.
      2: { rewrite app_length, firstn_length, skipn_length. lia. }
      rewrite (split_at 0%Z j rest) at 1 by lia. constructor. exact Hm'.
    + intros H. inversion H as [|? r1 partner r2 m' Hm' E1 E2]; subst.
      exists (S (length r1)). split; [apply in_seq; rewrite app_length; cbn [length]; lia|].
      cbv zeta. cbn [nth skipn Nat.sub]. rewrite Nat.sub_0_r.
      replace (length r1 + 1) with (S (length r1)) by lia.
      rewrite app_nth2, Nat.sub_diag by lia. cbn [nth].
      assert (firstn (length r1) (r1 ++ partner :: r2) ++
              skipn (S (length r1) + 1) (first :: r1 ++ partner :: r2) = r1 ++ r2) as Erem.
      { rewrite firstn_app_exact. f_equal.
        replace (S (length r1) + 1) with (S (S (length r1))) by lia.
        change (skipn (S (S (length r1))) (first :: r1 ++ partner :: r2))
          with (skipn (S (length r1)) (r1 ++ partner :: r2)).
        replace (S (length r1)) with (length (r1 ++ [partner])) by (rewrite app_length; cbn; lia).
        replace (r1 ++ partner :: r2) with ((r1 ++ [partner]) ++ r2) by (rewrite <- app_assoc; reflexivity).
        apply skipn_app_exact. }
      rewrite Erem. apply in_map. apply IH; [|exact Hm'].
      rewrite !app_length in *. cbn [length] in Hf. lia.
Qed.

Lemma Matching_perm els m : Matching els m -> Permutation (flatm m) els.
Proof.
  induction 1 as [|first r1 partner r2 m _ IH]; [constructor|].
  unfold flatm in *. cbn [flat_map fst snd app]. constructor.
  rewrite IH. apply Permutation_middle.
Qed.

Lemma Matching_exists : forall k els, length els = 2 * k -> exists m, Matching els m.
Proof.
  induction k as [|k IH]; intros els L.
  - destruct els; [|discriminate]. exists []. constructor.
  - destruct els as [|a [|b r]]; cbn [length] in L; try lia.
    destruct (IH r ltac:(lia)) as (m & Hm). exists ((a, b) :: m).
    apply (Matching_cons a [] b r m). exact Hm.
Qed.

(* ------------------------------------------------------------------------------------------- *)
(** * the swaps *)

Definition swaps (m : list (Z * Z)) (l : list Z) : list Z :=
  fold_left (fun perm '(a, b) => zswap perm a b) m l.

Lemma zswap_spec l a b : (0 <= a < Z.of_nat (length l))%Z -> (0 <= b < Z.of_nat (length l))%Z -> a <> b ->
  length (zswap l a b) = length l /\ znth (zswap l a b) a = znth l b /\ znth (zswap l a b) b = znth l a /\
  forall x, (0 <= x)%Z -> x <> a -> x <> b -> znth (zswap l a b) x = znth l x.
Proof.
  intros Ha Hb Hab. unfold zswap, zset, znth. split; [rewrite !upd_length; reflexivity|].
  assert (Z.to_nat a <> Z.to_nat b) as Hne by lia.
  split; [|split].
  - rewrite nth_upd_other by lia. apply nth_upd_same. lia.
  - apply nth_upd_same. rewrite upd_length. lia.
  - intros x Hx Hxa Hxb. rewrite !nth_upd_other by lia. reflexivity.
Qed.

Lemma flatm_pair_neq m a b : NoDup (flatm m) -> In (a, b) m -> a <> b.
Proof.
  intros ND Hin. apply in_split in Hin as (m1 & m2 & ->). unfold flatm in ND.
  rewrite flat_map_app in ND. apply NoDup_app_r in ND. cbn [flat_map fst snd app] in ND.
  inversion ND as [|? ? Hn _]; subst. intros ->. apply Hn. left. reflexivity.
Qed.

Lemma swaps_spec : forall m l N, length l = N -> NoDup (flatm m) ->
  (forall z, In z (flatm m) -> (0 <= z < Z.of_nat N)%Z) ->
  (forall z, In z (flatm m) -> znth l z = z) ->
  let r := swaps m l in
  length r = N /\ (forall a b, In (a, b) m -> znth r a = b /\ znth r b = a) /\
  (forall x, (0 <= x)%Z -> ~ In x (flatm m) -> znth r x = znth l x).
Proof.
  induction m as [|[a b] m IH]; intros l N L ND Hr Hid; cbv zeta.
  - cbn [swaps fold_left]. split; [exact L|]. split; [intros a b []|reflexivity].
  - unfold swaps. cbn [fold_left]. fold (swaps m (zswap l a b)).
    unfold flatm in *. cbn [flat_map fst snd app] in *.
    inversion ND as [|? ? Hna ND1]; subst. inversion ND1 as [|? ? Hnb ND2]; subst.
    assert (a <> b) as Hab by (intros ->; apply Hna; left; reflexivity).
    assert (~ In a (flat_map (fun ab => [fst ab; snd ab]) m)) as Hna' by (intros H; apply Hna; right; exact H).
    destruct (zswap_spec l a b) as (S1 & S2 & S3 & S4); [apply Hr; simpl; auto|apply Hr; simpl; auto|exact Hab|].
    destruct (IH (zswap l a b) (length l)) as (I1 & I2 & I3); auto.
    { intros z Hz. apply Hr. right. right. exact Hz. }
    { intros z Hz. rewrite S4.
      - apply Hid. right. right. exact Hz.
      - apply (Hr z). right. right. exact Hz.
      - intros ->. contradiction.
      - intros ->. contradiction. }
    cbv zeta in I1, I2, I3. split; [exact I1|]. split.
    + intros a' b' [E|Hin].
      * inversion E; subst a' b'. rewrite !I3; auto; try (apply Hr; simpl; auto).
        rewrite S2, S3. rewrite !Hid by (simpl; auto). split; reflexivity.
      * apply I2. exact Hin.
    + intros x Hx Hnin. rewrite I3; [|exact Hx|intros H; apply Hnin; right; right; exact H].
      apply S4; auto; intros ->; apply Hnin; simpl; auto.
Qed.

(* ------------------------------------------------------------------------------------------- *)
(** * fixed-point-free involutions *)

Definition InvDerangement (N : nat) (p : list nat) : Prop :=
  Perm p /\ length p = N /\ (forall i, i < N -> nth i p 0 <> i) /\
  (forall i, i < N -> nth (nth i p 0) p 0 = i).

Lemma znth_of_nats l i : znth (of_nats l) (Z.of_nat i) = Z.of_nat (nth i l 0).
Proof. unfold znth. rewrite Nat2Z.id. apply nth_of_nats. Qed.

Lemma idZ_In N z : In z (of_nats (seq 0 N)) <-> (0 <= z < Z.of_nat N)%Z.
Proof.
  unfold of_nats. rewrite in_map_iff. split.
  - intros (i & <- & Hi). apply in_seq in Hi. lia.
  - intros H. exists (Z.to_nat z). split; [lia|apply in_seq; lia].
Qed.

Lemma idZ_NoDup N : NoDup (of_nats (seq 0 N)).
Proof. unfold of_nats. apply NoDup_map_inj; [apply seq_NoDup|]. intros x y _ _ E. lia. Qed.

Lemma idZ_znth N z : (0 <= z < Z.of_nat N)%Z -> znth (of_nats (seq 0 N)) z = z.
Proof.
  intros H. rewrite <- (Z2Nat.id z) at 1 by lia. rewrite znth_of_nats, seq_nth by lia. lia.
Qed.

(* what a matching of 0..N-1 turns the identity into *)
Lemma swaps_matching N m : Matching (of_nats (seq 0 N)) m ->
  let r := swaps m (of_nats (seq 0 N)) in
  r = of_nats (to_nats r) /\ InvDerangement N (to_nats r) /\
  (forall a b, In (a, b) m -> znth r a = b /\ znth r b = a).
Proof.
  intros HM. cbv zeta. pose proof (Matching_perm _ _ HM) as HP.
  assert (NoDup (flatm m)) as ND by (eapply Permutation_NoDup; [symmetry; exact HP|apply idZ_NoDup]).
  assert (forall z, In z (flatm m) <-> (0 <= z < Z.of_nat N)%Z) as Hin.
  { intros z. rewrite <- idZ_In. split; apply Permutation_in; [exact HP|symmetry; exact HP]. }
  destruct (swaps_spec m (of_nats (seq 0 N)) N) as (L & S & _); auto.
  { rewrite of_nats_length. apply seq_length. }
  { intros z Hz. apply Hin. exact Hz. }
  { intros z Hz. apply idZ_znth. apply Hin. exact Hz. }
  cbv zeta in L, S. set (r := swaps m (of_nats (seq 0 N))) in *.
  (* every index has a partner *)
  assert (forall i, i < N -> exists y, (0 <= y < Z.of_nat N)%Z /\ y <> Z.of_nat i /\
            znth r (Z.of_nat i) = y /\ znth r y = Z.of_nat i) as Hpart.
  { intros i Hi. assert (In (Z.of_nat i) (flatm m)) as Hi' by (apply Hin; lia).
    unfold flatm in Hi'. apply in_flat_map in Hi' as ([a b] & Hab & Hi'). cbn [fst snd] in Hi'.
    pose proof (flatm_pair_neq m a b ND Hab) as Hne. destruct (S a b Hab) as [Sa Sb].
    assert (In a (flatm m) /\ In b (flatm m)) as [Ia Ib].
    { split; unfold flatm; apply in_flat_map; exists (a, b); (split; [exact Hab|simpl; auto]). }
    destruct Hi' as [<-|[<-|[]]].
    - exists b. split; [apply Hin; exact Ib|]. auto.
    - exists a. split; [apply Hin; exact Ia|]. auto. }
  assert (Forall (fun v => (0 <= v)%Z) r) as Hnn.
  { apply Forall_forall. intros v Hv. apply In_nth with (d := 0%Z) in Hv as (t & Ht & <-).
    destruct (Hpart t ltac:(lia)) as (y & Hy & _ & E & _). unfold znth in E. rewrite Nat2Z.id in E. lia. }
  pose proof (of_to_nats r Hnn) as Er. split; [symmetry; exact Er|].
  set (p := to_nats r) in *.
  assert (length p = N) as Lp by (unfold p, to_nats; rewrite map_length; exact L).
  assert (forall i, i < N -> nth i p 0 < N /\ nth i p 0 <> i /\ nth (nth i p 0) p 0 = i) as Hp.
  { intros i Hi. destruct (Hpart i Hi) as (y & Hy & Hne & E1 & E2).
    rewrite <- Er in E1, E2. rewrite znth_of_nats in E1.
    rewrite <- E1 in E2. rewrite znth_of_nats in E2. lia. }
  split; [|exact S]. split; [|split; [exact Lp|split]].
  - apply involution_Perm. rewrite Lp. intros t Ht. destruct (Hp t Ht) as (H1 & _ & H3). auto.
  - intros i Hi. apply (Hp i Hi).
  - intros i Hi. apply (Hp i Hi).
Qed.

(* conversely every fixed-point-free involution comes from a matching *)
Definition pz (p : list nat) (x : Z) : Z := Z.of_nat (nth (Z.to_nat x) p 0).

Lemma matching_of_involution N p : InvDerangement N p ->
  forall k els, length els <= k -> NoDup els ->
  (forall x, In x els -> (0 <= x < Z.of_nat N)%Z /\ In (pz p x) els) ->
  exists m, Matching els m /\ forall a b, In (a, b) m -> b = pz p a.
Proof.
  intros (HP & L & Hnf & Hinv).
  assert (forall x, (0 <= x < Z.of_nat N)%Z -> pz p x <> x /\ pz p (pz p x) = x) as Hpz.
  { intros x Hx. unfold pz. rewrite Nat2Z.id. specialize (Hnf (Z.to_nat x) ltac:(lia)).
    specialize (Hinv (Z.to_nat x) ltac:(lia)). lia. }
  induction k as [|k IH]; intros els Hk ND Hcl.
  - destruct els; [|cbn [length] in Hk; lia]. exists []. split; [constructor|intros a b []].
  - destruct els as [|first rest]; [exists []; split; [constructor|intros a b []]|].
    destruct (Hcl first (or_introl eq_refl)) as [Hf Hpf].
    destruct (Hpz first Hf) as [Hne Hback].
    destruct Hpf as [E|Hpf]; [congruence|].
    remember (pz p first) as partner eqn:Epartner.
    apply in_split in Hpf as (r1 & r2 & Erest). subst rest.
    apply NoDup_cons_iff in ND as [Hnfirst ND'].
    pose proof (NoDup_remove_1 _ _ _ ND') as ND''. pose proof (NoDup_remove_2 _ _ _ ND') as Hnpartner.
    destruct (IH (r1 ++ r2)) as (m & Hm & Hpairs); auto.
    { cbn [length] in Hk. rewrite app_length in *. cbn [length] in Hk. lia. }
    { intros x Hx.
      assert (In x (first :: r1 ++ partner :: r2)) as Hx'.
      { right. apply in_app_or in Hx as [Hx|Hx]; apply in_or_app; [left|right; right]; exact Hx. }
      destruct (Hcl x Hx') as [Hxr Hpx]. split; [exact Hxr|].
      destruct (Hpz x Hxr) as [_ Hbx].
      destruct Hpx as [E|Hpx].
      - exfalso. apply Hnpartner. replace partner with x; [exact Hx|].
        rewrite Epartner, E. symmetry. exact Hbx.
      - apply in_app_or in Hpx as [Hpx|[E|Hpx]]; [apply in_or_app; left; exact Hpx| |apply in_or_app; right; exact Hpx].
        exfalso. apply Hnfirst. replace first with x.
        + apply in_app_or in Hx as [Hx|Hx]; apply in_or_app; [left|right; right]; exact Hx.
        + rewrite <- Hbx, <- E. exact Hback. }
    exists ((first, partner) :: m). split; [constructor; exact Hm|].
    intros a b [E|Hin]; [inversion E; subst a b; exact Epartner|apply Hpairs; exact Hin].
Qed.

Lemma involution_matching N p : InvDerangement N p ->
  exists m, Matching (of_nats (seq 0 N)) m /\ swaps m (of_nats (seq 0 N)) = of_nats p.
Proof.
  intros HI. pose proof HI as (HP & L & Hnf & Hinv).
  destruct (matching_of_involution N p HI N (of_nats (seq 0 N))) as (m & HM & Hpairs).
  { rewrite of_nats_length, seq_length. lia. }
  { apply idZ_NoDup. }
  { intros x Hx. apply idZ_In in Hx. split; [exact Hx|]. apply idZ_In. unfold pz.
    pose proof (Perm_lt p (Z.to_nat x) HP ltac:(lia)). lia. }
  exists m. split; [exact HM|].
  destruct (swaps_matching N m HM) as (Er & (_ & Lr & _) & S). cbv zeta in *.
  set (r := swaps m (of_nats (seq 0 N))) in *. rewrite Er. f_equal.
  apply nth_ext' with (d := 0); [congruence|]. rewrite Lr. intros i Hi.
  pose proof (Matching_perm _ _ HM) as HPm.
  assert (In (Z.of_nat i) (flatm m)) as Hi'.
  { eapply Permutation_in; [symmetry; exact HPm|]. apply idZ_In. lia. }
  unfold flatm in Hi'. apply in_flat_map in Hi' as ([a b] & Hab & Hi'). cbn [fst snd] in Hi'.
  destruct (S a b Hab) as [Sa Sb]. pose proof (Hpairs a b Hab) as Eb.
  rewrite Er in Sa, Sb.
  destruct Hi' as [Ea|[Eb'|[]]].
  - subst a. rewrite znth_of_nats in Sa. unfold pz in Eb. rewrite Nat2Z.id in Eb. lia.
  - (* i = b = p a, so p i = a *)
    subst b.
    assert (In a (flatm m)) as Ia by (unfold flatm; apply in_flat_map; exists (a, Z.of_nat i); simpl; auto).
    eapply Permutation_in in Ia; [|exact HPm]. apply idZ_In in Ia.
    rewrite znth_of_nats in Sb. unfold pz in Eb.
    specialize (Hinv (Z.to_nat a) ltac:(lia)).
    assert (i = nth (Z.to_nat a) p 0) as Ei by lia. rewrite <- Ei in Hinv. lia.
Qed.

(* ------------------------------------------------------------------------------------------- *)
(** * no matching, hence no generator, is produced twice *)

Lemma NoDup_split_unique {A} (p : A) : forall r1 r2 r1' r2',
  NoDup (r1 ++ p :: r2) -> r1 ++ p :: r2 = r1' ++ p :: r2' -> r1 = r1' /\ r2 = r2'.
Proof.
  induction r1 as [|a r1 IH]; intros r2 r1' r2' ND E.
  - destruct r1' as [|a' r1']; cbn [app] in *.
    + injection E as E2. auto.
    + injection E as Ea E2. subst a'. exfalso. apply NoDup_cons_iff in ND as [Hn _]. apply Hn.
      rewrite E2. apply in_or_app. right. left. reflexivity.
  - destruct r1' as [|a' r1']; cbn [app] in *.
    + injection E as Ea E2. subst a. exfalso. apply NoDup_cons_iff in ND as [Hn _]. apply Hn.
      apply in_or_app. right. left. reflexivity.
    + injection E as Ea E2. subst a'. apply NoDup_cons_iff in ND as [_ ND'].
      destruct (IH _ _ _ ND' E2) as [-> ->]. auto.
Qed.

Lemma Matching_determined (f : Z -> Z) : forall els m1, Matching els m1 -> NoDup els ->
  (forall a b, In (a, b) m1 -> f a = b) ->
  forall m2, Matching els m2 -> (forall a b, In (a, b) m2 -> f a = b) -> m1 = m2.
Proof.
  induction 1 as [|first r1 partner r2 m1 HM1 IH]; intros ND H1 m2 HM2 H2.
  - inversion HM2. reflexivity.
  - remember (first :: r1 ++ partner :: r2) as els eqn:Eels.
    destruct HM2 as [|first' r1' partner' r2' m2' HM2']; [discriminate|].
    injection Eels as Ef Erest. subst first'.
    assert (partner' = partner) as ->.
    { rewrite <- (H1 first partner (or_introl eq_refl)). symmetry. apply H2. left. reflexivity. }
    apply NoDup_cons_iff in ND as [_ ND].
    destruct (NoDup_split_unique partner _ _ _ _ ND Erest) as [-> ->].
    f_equal. apply IH; auto.
    + eapply NoDup_remove_1. exact ND.
    + intros a b Hab. apply H1. right. exact Hab.
    + intros a b Hab. apply H2. right. exact Hab.
Qed.

Lemma generate_matchings_NoDup : forall f els, NoDup els -> NoDup (generate_matchings f els).
Proof.
  induction f as [|f IH]; intros els ND.
  - destruct els as [|a [|b [|c r]]]; cbn [generate_matchings]; repeat constructor; intros [].
  - destruct els as [|first rest]; [rewrite gm_nil; repeat constructor; intros []|].
    rewrite gm_unfold. replace (length (first :: rest) - 1) with (length rest) by (cbn [length]; lia).
    apply NoDup_cons_iff in ND as [Hnf NDr].
    apply NoDup_flat_map_disj.
    + apply seq_NoDup.
    + intros i Hi. apply in_seq in Hi. cbv zeta. apply NoDup_map_inj.
      * apply IH. destruct i as [|j]; [lia|]. cbn [skipn Nat.sub]. rewrite Nat.sub_0_r.
        replace (S j + 1) with (S (S j)) by lia.
        change (skipn (S (S j)) (first :: rest)) with (skipn (S j) rest).
        rewrite (split_at 0%Z j rest) in NDr by lia. eapply NoDup_remove_1. exact NDr.
      * intros a b _ _ E. inversion E. reflexivity.
    + intros i j x Hi Hj H1 H2. apply in_seq in Hi, Hj. cbv zeta in H1, H2.
      apply in_map_iff in H1 as (m1 & <- & _). apply in_map_iff in H2 as (m2 & E & _).
      inversion E as [[E1 E2]]. destruct i as [|i]; [lia|]. destruct j as [|j]; [lia|].
      cbn [nth] in E1. f_equal. apply (proj1 (NoDup_nth rest 0%Z) NDr); [lia|lia|]. symmetry. exact E1.
Qed.

(* ------------------------------------------------------------------------------------------- *)
(** * involutive_derangements(n) *)

Theorem involutive_derangements_spec N : 2 <= N -> Nat.Even N ->
  exists d, involutive_derangements (Z.of_nat N) = Ok d /\
    (forall p, In p (p_gens d) <-> InvDerangement N p) /\
    NoDup (p_gens d) /\
    length (p_names d) = length (p_gens d) /\
    p_central d = of_nats (seq 0 N).
Proof.
  intros HN [k Hk]. unfold involutive_derangements.
  assert ((2 <=? Z.of_nat N)%Z && (Z.of_nat N mod 2 =? 0)%Z = true) as Eg.
  { apply andb_true_intro. split; [apply Z.leb_le; lia|]. apply Z.eqb_eq.
    rewrite Hk, Nat2Z.inj_mul, Z.mul_comm. apply Z_mod_mult. }
  rewrite Eg. cbn [negb]. cbv zeta. rewrite Nat2Z.id.
  rewrite zrange0_nat. set (idZ := of_nats (seq 0 N)).
  set (ms := generate_matchings N idZ).
  assert (forall m, In m ms <-> Matching idZ m) as Hms.
  { intros m. apply generate_matchings_spec. unfold idZ. rewrite of_nats_length, seq_length. lia. }
  set (gens := map (fun matching => fold_left (fun perm '(a, b) => zswap perm a b) matching idZ) ms).
  set (G := map to_nats gens).
  assert (gens = map of_nats G) as EG.
  { unfold G. rewrite map_map. rewrite <- (map_id gens) at 1. apply map_ext_in.
    intros r Hr. unfold gens in Hr. apply in_map_iff in Hr as (m & <- & Hm). apply Hms in Hm.
    apply (swaps_matching N m Hm). }
  assert (forall p, In p G <-> InvDerangement N p) as HG.
  { intros p. unfold G, gens. rewrite map_map, in_map_iff. split.
    - intros (m & <- & Hm). apply Hms in Hm. apply (swaps_matching N m Hm).
    - intros HI. destruct (involution_matching N p HI) as (m & Hm & E).
      exists m. split; [|apply Hms; exact Hm]. fold (swaps m idZ). unfold idZ. rewrite E. apply to_of_nats. }
  rewrite EG.
  match goal with |- context [create _ (Some ?nm) _ ?name] => set (names := nm); set (nme := name) end.
  assert (length names = length G) as Hnames.
  { unfold names, G, gens. rewrite !map_length, seq_length. reflexivity. }
  unfold idZ. rewrite <- zrange0_nat. rewrite (create_ok G (Some names) nme N).
  - eexists. split; [reflexivity|]. cbn [p_gens p_names p_central names_of].
    split; [exact HG|]. split; [|split; [exact Hnames|rewrite zrange0_nat; reflexivity]].
    unfold G, gens. rewrite map_map. apply NoDup_map_inj.
    + apply generate_matchings_NoDup. apply idZ_NoDup.
    + intros m1 m2 H1 H2 E. apply Hms in H1, H2.
      destruct (swaps_matching N m1 H1) as (Er1 & _ & S1).
      destruct (swaps_matching N m2 H2) as (Er2 & _ & S2). cbv zeta in *.
      assert (swaps m1 idZ = swaps m2 idZ) as Er.
      { unfold idZ. rewrite Er1, Er2. f_equal. exact E. }
      apply (Matching_determined (znth (swaps m1 idZ)) idZ m1 H1 (idZ_NoDup N)).
      * intros a b Hab. apply (S1 a b Hab).
      * exact H2.
      * intros a b Hab. rewrite Er. apply (S2 a b Hab).
  - destruct (Matching_exists k idZ) as (m & Hm).
    { unfold idZ. rewrite of_nats_length, seq_length. exact Hk. }
    intros E. apply Hms in Hm. assert (In (to_nats (swaps m idZ)) G) as Hin.
    { unfold G, gens. rewrite map_map. apply in_map_iff. exists m. split; [reflexivity|exact Hm]. }
    rewrite E in Hin. destruct Hin.
  - lia.
  - apply Forall_forall. intros p Hp. apply HG in Hp as (H1 & H2 & _). split; assumption.
  - intros l El. inversion El; subst. exact Hnames.
Qed.

Theorem involutive_derangements_bad n : (n < 2)%Z \/ (n mod 2 <> 0)%Z ->
  involutive_derangements n = Err AssertionErr.
Proof.
  intros H. unfold involutive_derangements.
  destruct (Z.leb_spec 2 n); destruct (Z.eqb_spec (n mod 2) 0); cbn [andb negb]; try reflexivity.
  destruct H; lia.
Qed.

Example involutive_derangements_4 :
  match involutive_derangements 4 with
  | Ok d => p_gens d = [[1;0;3;2];[2;3;0;1];[3;2;1;0]]
  | Err _ => False
  end.
Proof. vm_compute. reflexivity. Qed.

Example InvDerangement_instance : InvDerangement 4 [2; 3; 0; 1].
Proof.
  split; [apply is_perm_iff; reflexivity|]. split; [reflexivity|].
  split; intros i Hi; do 4 (destruct i as [|i]; [cbn; lia|]); lia.
Qed.

Print Assumptions generate_matchings_spec.
Print Assumptions involutive_derangements_spec.
