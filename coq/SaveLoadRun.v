(** Glue: compare the model's store and loaded result with what h5py / BfsResult.load produced. *)
From Coq Require Import ZArith List Bool Arith Lia String.
From V Require Import Base SaveLoad.
Import ListNotations.
Open Scope string_scope.
Open Scope list_scope.

Definition h5val_eqb (a b : h5val) : bool :=
  match a, b with
  | HBool x, HBool y => Bool.eqb x y
  | HInts x, HInts y => z_list_eqb x y
  | HInts2 x, HInts2 y => z_list2_eqb x y
  | HStrs x, HStrs y => list_eqb String.eqb x y
  | HStr x, HStr y => String.eqb x y
  | HEmptyScalar, HEmptyScalar => true
  | _, _ => false
  end.

(* stores compared as maps: same keys, equal values (h5py iterates keys alphabetically) *)
Definition store_eqb (a b : store) : bool :=
  forallb (fun '(k, v) => match store_get k b with Some v' => h5val_eqb v v' | None => false end) a
  && forallb (fun '(k, _) => match store_get k a with Some _ => true | None => false end) b
  && (List.length a =? List.length b)%nat.

Record sl_case := {
  sl_result : bfs_result;          (* the BfsResult that was saved *)
  sl_file : store;                 (* raw content of the written file, read back with h5py *)
  sl_loaded : bfs_result;          (* BfsResult.load(file) *)
  sl_equal : bool;                 (* loaded == original *)
}.

Definition check_sl (c : sl_case) : bool :=
  store_eqb (save (sl_result c)) (sl_file c)
  && match load (sl_file c) with
     | Ok r => result_eq r (sl_loaded c) && result_eq (sl_loaded c) r
     | Err _ => false
     end
  && Bool.eqb (result_eq (sl_loaded c) (sl_result c)) (sl_equal c).
