(** Helper material for CodecProofs.v: bit-level facts on int64 words, closure of [in64]
    under the logical operations, and a generic "or into a cell" fold. *)
From Coq Require Import ZArith List Bool Arith Lia Zify ZifyClasses ZifyNat ZifyBool.
From V Require Import Base W64 W64Proofs PermProofs.
Import ListNotations.
Open Scope Z_scope.

Ltac Zify.zify_post_hook ::= Z.div_mod_to_equations.

(* ---------- bits of small constants ---------- *)
Lemma testbit_1 j : Z.testbit 1 j = (j =? 0).
Proof. destruct j; reflexivity. Qed.

(* ---------- in64 from its bits, and closure properties ---------- *)
Lemma in64_0 : in64 0.
Proof. unfold in64, two63. lia. Qed.

Lemma in64_of_bits a : (forall i, 63 <= i -> Z.testbit a i = Z.testbit a 63) -> in64 a.
Proof.
  intros H. assert (a = wrap a) as ->; [|apply wrap_in64].
  apply Z.bits_inj'. intros i Hi.
  destruct (Z_lt_ge_dec i 64).
  - rewrite wrap_testbit by lia. reflexivity.
  - rewrite (in64_high_bits (wrap a) i (wrap_in64 a)) by lia.
    rewrite wrap_testbit by lia. apply H. lia.
Qed.

Lemma lor_in64 a b : in64 a -> in64 b -> in64 (Z.lor a b).
Proof.
  intros Ha Hb. apply in64_of_bits. intros i Hi.
  rewrite !Z.lor_spec, (in64_high_bits a i Ha Hi), (in64_high_bits b i Hb Hi). reflexivity.
Qed.

Lemma land_in64 a b : in64 a -> in64 b -> in64 (Z.land a b).
Proof.
  intros Ha Hb. apply in64_of_bits. intros i Hi.
  rewrite !Z.land_spec, (in64_high_bits a i Ha Hi), (in64_high_bits b i Hb Hi). reflexivity.
Qed.

Lemma shiftr_in64 a k : in64 a -> 0 <= k -> in64 (Z.shiftr a k).
Proof.
  intros Ha Hk. apply in64_of_bits. intros i Hi.
  rewrite !Z.shiftr_spec by lia.
  rewrite (in64_high_bits a (i + k) Ha) by lia.
  rewrite (in64_high_bits a (63 + k) Ha) by lia. reflexivity.
Qed.

Lemma in64_nonneg_high a i : in64 a -> 0 <= a -> 63 <= i -> Z.testbit a i = false.
Proof.
  intros Ha Hn Hi. rewrite (in64_high_bits a i Ha Hi).
  destruct (Z.testbit a 63) eqn:E; auto. apply (in64_neg_testbit a Ha) in E. lia.
Qed.

Lemma Forall_in64_nth l i : Forall in64 l -> in64 (nth i l 0).
Proof.
  intros H. destruct (Nat.lt_ge_cases i (length l)) as [Hi|Hi].
  - rewrite Forall_forall in H. apply H. apply nth_In. exact Hi.
  - rewrite nth_overflow by exact Hi. apply in64_0.
Qed.

Lemma Forall_repeat {A} (P : A -> Prop) a n : P a -> Forall P (repeat a n).
Proof. intros H. induction n; simpl; constructor; auto. Qed.

Lemma Forall_upd {A} (P : A -> Prop) l i v : Forall P l -> P v -> Forall P (upd l i v).
Proof.
  intros H Hv. revert i. induction H as [|h t Hh Ht IH]; intros [|i]; simpl; constructor; auto.
Qed.

Lemma nth_repeat0 c L : nth c (repeat 0 L) 0 = 0.
Proof. revert c; induction L; intros [|c]; simpl; auto. Qed.

(* ---------- the bit-serial term  ((v >> k) & 1) << m ---------- *)
Lemma bitterm_testbit v k m b :
  0 <= b < 64 -> 0 <= k -> 0 <= m ->
  Z.testbit (w_shl (w_and (w_sar v k) 1) m) b = (b =? m) && Z.testbit v k.
Proof.
  intros Hb Hk Hm. unfold w_shl, w_and, w_sar.
  rewrite wrap_testbit by lia. rewrite Z.shiftl_spec by lia.
  rewrite Z.land_spec, testbit_1.
  destruct (Z.eqb_spec b m) as [->|Hne].
  - rewrite Z.sub_diag. rewrite Z.shiftr_spec by lia. simpl. rewrite andb_true_r. reflexivity.
  - destruct (Z.eqb_spec (b - m) 0); [lia|]. rewrite andb_false_r. reflexivity.
Qed.

Lemma bitterm_in64 v k m : in64 (w_shl (w_and (w_sar v k) 1) m).
Proof. unfold w_shl. apply wrap_in64. Qed.

(* ---------- generic fold: acc[idx a] |= g a ---------- *)
Definition orfold {A} (idx : A -> nat) (g : A -> Z) (l : list A) (init : list Z) : list Z :=
  fold_left (fun acc a => upd acc (idx a) (Z.lor (nth (idx a) acc 0) (g a))) l init.

Lemma orfold_length {A} (idx : A -> nat) g l init : length (orfold idx g l init) = length init.
Proof.
  unfold orfold. revert init. induction l as [|a l IH]; intros init; simpl; auto.
  rewrite IH. apply upd_length.
Qed.

Lemma orfold_in64 {A} (idx : A -> nat) g l init :
  (forall a, In a l -> in64 (g a)) -> Forall in64 init -> Forall in64 (orfold idx g l init).
Proof.
  unfold orfold. revert init. induction l as [|a l IH]; intros init Hg Hi; simpl; auto.
  apply IH.
  - intros a' Ha'. apply Hg. right. exact Ha'.
  - apply Forall_upd; auto. apply lor_in64.
    + apply Forall_in64_nth. exact Hi.
    + apply Hg. left. reflexivity.
Qed.

Lemma orfold_testbit {A} (idx : A -> nat) g l init c b :
  (c < length init)%nat ->
  Z.testbit (nth c (orfold idx g l init) 0) b =
    Z.testbit (nth c init 0) b || existsb (fun a => (idx a =? c)%nat && Z.testbit (g a) b) l.
Proof.
  unfold orfold. revert init. induction l as [|a l IH]; intros init Hc; simpl.
  - rewrite orb_false_r. reflexivity.
  - rewrite IH by (rewrite upd_length; exact Hc).
    destruct (Nat.eqb_spec (idx a) c) as [E|E].
    + rewrite E. rewrite nth_upd_same by exact Hc. rewrite Z.lor_spec. simpl.
      rewrite orb_assoc. reflexivity.
    + rewrite nth_upd_other by exact E. simpl. reflexivity.
Qed.

Lemma orfold_testbit0 {A} (idx : A -> nat) g l L c b :
  (c < L)%nat ->
  Z.testbit (nth c (orfold idx g l (repeat 0 L)) 0) b =
    existsb (fun a => (idx a =? c)%nat && Z.testbit (g a) b) l.
Proof.
  intros Hc. rewrite orfold_testbit by (rewrite repeat_length; exact Hc).
  rewrite nth_repeat0, Z.bits_0. reflexivity.
Qed.

(* boolean equality from logical equivalence of being true *)
Lemma bool_eq_iff (a b : bool) : (a = true <-> b = true) -> a = b.
Proof.
  destruct a, b; intros [H1 H2]; try reflexivity.
  - symmetry. apply H1. reflexivity.
  - apply H2. reflexivity.
Qed.

(* ---------- nat division facts with a symbolic divisor ---------- *)
Lemma div_mul_add k w j : (j < w)%nat -> ((k * w + j) / w = k)%nat.
Proof. intros H. symmetry. apply Nat.div_unique with (r := j); lia. Qed.

Lemma mod_mul_add k w j : (j < w)%nat -> ((k * w + j) mod w = j)%nat.
Proof. intros H. symmetry. apply Nat.mod_unique with (q := k); lia. Qed.

Lemma mul_add_lt i j n w : (i < n)%nat -> (j < w)%nat -> (i * w + j < n * w)%nat.
Proof. intros. nia. Qed.

Lemma div_lt_of_lt_mul e n w : (e < n * w)%nat -> (e / w < n)%nat.
Proof.
  intros H. assert (w <> 0)%nat by (intros ->; lia).
  apply Nat.div_lt_upper_bound; lia.
Qed.

Lemma div_mod_recompose e w : (w <> 0)%nat -> (e / w * w + e mod w = e)%nat.
Proof. intros H. pose proof (Nat.div_mod e w H). lia. Qed.
