(** The bit-mask BFS engine (BitmaskEngine.v, model of cayleypy/algo/bfs_bitmask.py) computes the
    growth function of the Cayley graph: whenever it returns normally, the result is the list of
    sizes of the true BFS layers (Graph.layer, i.e. the distance classes, GraphProofs.ref_layers_dist)
    from the start permutation, cut at the depth limit or just before the first empty layer.
    Generators need not be inverse closed.  On valid input the engine never fails
    (bitmask_bfs_from_total; before fix 40d8e7d the np.roll grouping of paint_gray could). *)
From Coq Require Import ZArith NArith PArith List Bool Arith Lia Sorting.Permutation
  FMapPositive MSetPositive.
From V Require Import Base BaseProofs Perm PermProofs PermCycles Bitmask BitmaskProofs
  BitmaskEngine BitmaskEngineTables.
From V Require Graph GraphProofs NumpyBfsProofs.
Import ListNotations.

Definition st_eq_dec : forall a b : list nat, {a = b} + {a <> b} := list_eq_dec Nat.eq_dec.

(* ------------------------------------------------------------------------------------------- *)
(** * Chunk-list plumbing: routing is a map over the chunk list *)

Definition rk (c : chunk) (q : list nat) : positive := prefix_to_rank_fast q (c_map2 c).
Definition in_chunk (c : chunk) (q : list nat) : Prop := skipn RR q = c_suffix c.

(* what routing one state does to one chunk *)
Definition paint_if (q : list nat) (c : chunk) : chunk :=
  if nat_list_eqb (skipn RR q) (c_suffix c) then chunk_paint c [q] else c.
Definition paint_all (nbrs : list (list nat)) (c : chunk) : chunk :=
  fold_left (fun c' q => paint_if q c') nbrs c.

Lemma paint_if_suffix q c : c_suffix (paint_if q c) = c_suffix c.
Proof. unfold paint_if. destruct (nat_list_eqb _ _); reflexivity. Qed.

Lemma map_paint_if_suffix q cs : map c_suffix (map (paint_if q) cs) = map c_suffix cs.
Proof. rewrite map_map. apply map_ext. intros c. apply paint_if_suffix. Qed.

Lemma paint_all_suffix nbrs : forall c, c_suffix (paint_all nbrs c) = c_suffix c.
Proof.
  induction nbrs as [|q t IH]; intros c; [reflexivity|].
  cbn [paint_all fold_left]. fold (paint_all t (paint_if q c)). rewrite IH. apply paint_if_suffix.
Qed.

Lemma map_paint_all_suffix nbrs cs : map c_suffix (map (paint_all nbrs) cs) = map c_suffix cs.
Proof. rewrite map_map. apply map_ext. intros c. apply paint_all_suffix. Qed.

Lemma paint_in_eq key q : forall cs,
  NoDup (map c_suffix cs) -> In key (map c_suffix cs) ->
  paint_in key [q] cs =
  Some (map (fun c => if nat_list_eqb key (c_suffix c) then chunk_paint c [q] else c) cs).
Proof.
  induction cs as [|c t IH]; intros Hnd Hin; [contradiction|].
  cbn [map] in Hnd, Hin. inversion Hnd as [|s l Hns Hndt]; subst.
  cbn [paint_in map]. destruct (nat_list_eqb key (c_suffix c)) eqn:E.
  - apply list_eqb_nat_true in E. subst key. f_equal. f_equal.
    rewrite <- (map_id t) at 1. apply map_ext_in. intros c' Hc'.
    destruct (nat_list_eqb (c_suffix c) (c_suffix c')) eqn:E'; [|reflexivity].
    apply list_eqb_nat_true in E'. exfalso. apply Hns. rewrite E'. apply in_map. exact Hc'.
  - destruct Hin as [Hk | Hin]; [subst key; rewrite nat_list_eqb_refl in E; discriminate|].
    rewrite (IH Hndt Hin). reflexivity.
Qed.

Lemma paint_in_none key group : forall cs, ~ In key (map c_suffix cs) -> paint_in key group cs = None.
Proof.
  induction cs as [|c t IH]; intros Hn; [reflexivity|]. cbn [paint_in].
  destruct (nat_list_eqb key (c_suffix c)) eqn:E.
  - apply list_eqb_nat_true in E. exfalso. apply Hn. left. symmetry. exact E.
  - rewrite IH; [reflexivity|]. intros Hin. apply Hn. right. exact Hin.
Qed.

Lemma route_eq cs q :
  NoDup (map c_suffix cs) -> In (skipn RR q) (map c_suffix cs) -> route cs q = Ok (map (paint_if q) cs).
Proof. intros Hnd Hin. unfold route. rewrite (paint_in_eq _ q cs Hnd Hin). reflexivity. Qed.

Lemma route_key_error cs q : ~ In (skipn RR q) (map c_suffix cs) -> route cs q = Err KeyErr.
Proof. intros Hn. unfold route. rewrite (paint_in_none _ _ cs Hn). reflexivity. Qed.

Lemma fold_route nbrs : forall cs,
  NoDup (map c_suffix cs) -> (forall q, In q nbrs -> In (skipn RR q) (map c_suffix cs)) ->
  fold_left (fun acc q => do cs' <- acc; route cs' q) nbrs (Ok cs) = Ok (map (paint_all nbrs) cs).
Proof.
  induction nbrs as [|q t IH]; intros cs Hnd Hk; cbn [fold_left].
  - cbn [bind]. unfold paint_all. cbn [fold_left]. rewrite map_id. reflexivity.
  - cbn [bind]. rewrite (route_eq cs q Hnd (Hk q (or_introl eq_refl))).
    rewrite IH.
    + rewrite map_map. reflexivity.
    + rewrite map_paint_if_suffix. exact Hnd.
    + intros q' Hq'. rewrite map_paint_if_suffix. apply Hk. right. exact Hq'.
Qed.

(** the call of paint_gray that raises IndexError: the empty array (never made by the engine: no_bad_call) *)
Definition bad_call (nbrs : list (list nat)) : bool :=
  match nbrs with
  | [] => true
  | _ => false
  end.

Theorem paint_gray_eq cs nbrs :
  NoDup (map c_suffix cs) -> (forall q, In q nbrs -> In (skipn RR q) (map c_suffix cs)) ->
  paint_gray cs nbrs = if bad_call nbrs then Err IndexErr else Ok (map (paint_all nbrs) cs).
Proof.
  intros Hnd Hk. destruct nbrs as [|q [|q' t]].
  - reflexivity.
  - cbn [paint_gray bad_call]. rewrite (route_eq cs q Hnd (Hk q (or_introl eq_refl))). reflexivity.
  - unfold paint_gray, bad_call. apply fold_route; assumption.
Qed.

(* the neighbours painted during one step: those of every chunk whose last layer is non-empty *)
Definition all_nbrs (gens : list (list nat)) (l : list chunk) : list (list nat) :=
  concat (map (neighbors gens) (filter c_changed l)).

Definition phase_step (gens : list (list nat)) (acc : result (list chunk * bool)) (c1 : chunk) :=
  bind acc (fun st =>
    if c_changed c1
    then bind (paint_gray (fst st) (neighbors gens c1)) (fun cs'' => Ok (cs'', true))
    else Ok st).

Lemma phase_err gens l e : fold_left (phase_step gens) l (Err e) = Err e.
Proof. induction l as [|c t IH]; [reflexivity | exact IH]. Qed.

Lemma paint_all_app a b c : paint_all (a ++ b) c = paint_all b (paint_all a c).
Proof. unfold paint_all. apply fold_left_app. Qed.

Lemma paint_phase_gen gens : forall l cs u,
  NoDup (map c_suffix cs) ->
  (forall c1 q, In c1 l -> c_changed c1 = true -> In q (neighbors gens c1) ->
                In (skipn RR q) (map c_suffix cs)) ->
  fold_left (phase_step gens) l (Ok (cs, u)) =
  if existsb (fun c1 => c_changed c1 && bad_call (neighbors gens c1)) l then Err IndexErr
  else Ok (map (paint_all (all_nbrs gens l)) cs, u || existsb c_changed l).
Proof.
  induction l as [|c1 t IH]; intros cs u Hnd Hk.
  - cbn [fold_left existsb all_nbrs filter map concat]. unfold paint_all. cbn [fold_left].
    rewrite map_id, orb_false_r. reflexivity.
  - cbn [fold_left existsb]. unfold phase_step at 2. cbn [bind fst].
    unfold all_nbrs. cbn [filter].
    destruct (c_changed c1) eqn:Hc.
    + cbn [andb orb map concat].
      rewrite (paint_gray_eq cs (neighbors gens c1) Hnd)
        by (intros q Hq; apply (Hk c1 q); [left; reflexivity | exact Hc | exact Hq]).
      destruct (bad_call (neighbors gens c1)); cbn [bind orb].
      * apply phase_err.
      * rewrite IH.
        -- destruct (existsb _ t); [reflexivity|]. f_equal. f_equal.
           ++ rewrite map_map. apply map_ext. intros c. rewrite paint_all_app. reflexivity.
           ++ rewrite orb_true_r. reflexivity.
        -- rewrite map_paint_all_suffix. exact Hnd.
        -- intros c2 q Hc2 Hch Hq. rewrite map_paint_all_suffix.
           apply (Hk c2 q); [right; exact Hc2 | exact Hch | exact Hq].
    + cbn [andb orb]. apply IH; [exact Hnd|].
      intros c2 q Hc2 Hch Hq. apply (Hk c2 q); [right; exact Hc2 | exact Hch | exact Hq].
Qed.

Theorem paint_phase_eq gens cs :
  NoDup (map c_suffix cs) ->
  (forall c1 q, In c1 cs -> c_changed c1 = true -> In q (neighbors gens c1) ->
                In (skipn RR q) (map c_suffix cs)) ->
  paint_phase gens cs =
  if existsb (fun c1 => c_changed c1 && bad_call (neighbors gens c1)) cs then Err IndexErr
  else Ok (map (paint_all (all_nbrs gens cs)) cs, existsb c_changed cs).
Proof. intros Hnd Hk. exact (paint_phase_gen gens cs cs false Hnd Hk). Qed.

(* ------------------------------------------------------------------------------------------- *)
(** * What painting does to one chunk: only the gray set changes *)

Lemma set_gray_id c : set_gray c (c_gray c) = c.
Proof. destruct c; reflexivity. Qed.

Definition gray_fold (c : chunk) (nbrs : list (list nat)) (g : PS.t) : PS.t :=
  fold_left (fun g' q => if nat_list_eqb (skipn RR q) (c_suffix c) then PS.add (rk c q) g' else g')
            nbrs g.

Lemma paint_all_set_gray c nbrs : forall g,
  paint_all nbrs (set_gray c g) = set_gray c (gray_fold c nbrs g).
Proof.
  induction nbrs as [|q t IH]; intros g; [reflexivity|].
  unfold paint_all, gray_fold. cbn [fold_left].
  fold (paint_all t (paint_if q (set_gray c g))).
  fold (gray_fold c t (if nat_list_eqb (skipn RR q) (c_suffix c) then PS.add (rk c q) g else g)).
  rewrite <- IH. f_equal. unfold paint_if.
  change (c_suffix (set_gray c g)) with (c_suffix c).
  destruct (nat_list_eqb (skipn RR q) (c_suffix c)); [|reflexivity].
  destruct c; reflexivity.
Qed.

Lemma paint_all_eq c nbrs : paint_all nbrs c = set_gray c (gray_fold c nbrs (c_gray c)).
Proof. rewrite <- (set_gray_id c) at 1. apply paint_all_set_gray. Qed.

Lemma gray_fold_In c nbrs : forall g r,
  PS.In r (gray_fold c nbrs g) <->
  PS.In r g \/ exists q, In q nbrs /\ in_chunk c q /\ r = rk c q.
Proof.
  induction nbrs as [|q t IH]; intros g r.
  - cbn. split; [auto | intros [H | (q & [] & _)]; exact H].
  - unfold gray_fold. cbn [fold_left].
    fold (gray_fold c t (if nat_list_eqb (skipn RR q) (c_suffix c) then PS.add (rk c q) g else g)).
    rewrite IH. destruct (nat_list_eqb (skipn RR q) (c_suffix c)) eqn:E.
    + apply list_eqb_nat_true in E. rewrite PS.add_spec. split.
      * intros [[-> | H] | (q' & Hq' & Hc & ->)].
        -- right. exists q. split; [left; reflexivity | auto].
        -- left. exact H.
        -- right. exists q'. split; [right; exact Hq' | auto].
      * intros [H | (q' & [<- | Hq'] & Hc & ->)].
        -- left. right. exact H.
        -- left. left. reflexivity.
        -- right. exists q'. auto.
    + split.
      * intros [H | (q' & Hq' & Hc & ->)]; [left; exact H|].
        right. exists q'. split; [right; exact Hq' | auto].
      * intros [H | (q' & [<- | Hq'] & Hc & ->)]; [left; exact H | |].
        -- exfalso. unfold in_chunk in Hc. rewrite Hc, nat_list_eqb_refl in E. discriminate.
        -- right. exists q'. auto.
Qed.

(* ------------------------------------------------------------------------------------------- *)
(** * Sets of ranks as images of sets of permutations *)

Lemma cardN_zero_Empty s : cardN s = 0%N -> PS.Empty s.
Proof.
  intros Hz a Ha. rewrite cardN_spec, PS.cardinal_spec in Hz.
  apply PS_elements_In in Ha. destruct (PS.elements s); [contradiction | discriminate].
Qed.

(* ------------------------------------------------------------------------------------------- *)
(** * The Cayley graph and where its growth function is cut *)

(** states are one-line permutations, generator g acts by apply_perm (new[i] = old[g[i]]) *)
Definition fs (gens : list (list nat)) : list (list nat -> list nat) := map (apply_perm 0) gens.

Section Cut.
  Variable gens : list (list nat).
  Variable start : list nat.
  Local Notation L := (Graph.layer (list nat) st_eq_dec (fs gens) [start]).
  Local Notation Seen := (Graph.seen_upto (list nat) st_eq_dec (fs gens) [start]).

  Lemma L0_eq : L 0 = [start].
  Proof. reflexivity. Qed.
  Lemma Seen0_eq : Seen 0 = [start].
  Proof. reflexivity. Qed.

  Definition sizesN (i : nat) : N := N.of_nat (length (L i)).

  (** [growth_cut md k]: k is where the growth function is cut: at max_diameter, or just before
      the first empty layer, whichever comes first (same notion as NumpyBfsProofs.growth_cut) *)
  Definition growth_cut (md k : nat) : Prop :=
    k <= md /\ (forall i, i <= k -> L i <> []) /\ (k = md \/ L (S k) = []).

  Lemma sizes_rev_S m : rev (map sizesN (seq 0 (S m))) = sizesN m :: rev (map sizesN (seq 0 m)).
  Proof. rewrite seq_S, map_app, rev_app_distr. reflexivity. Qed.

  Lemma cut_at_last md k t :
    growth_cut md k -> (forall i, i <= t -> L i <> []) -> (md = t \/ L (S t) = []) -> t <= md -> k = t.
  Proof.
    intros (Hk & Hne & Hend) Hnet Hendt Htm.
    destruct (lt_eq_lt_dec k t) as [[Hlt | Heq] | Hgt]; [|exact Heq|].
    - exfalso. destruct Hend as [-> | He]; [lia|]. apply (Hnet (S k)); [lia | exact He].
    - exfalso. destruct Hendt as [-> | He]; [lia|]. apply (Hne (S t)); [lia | exact He].
  Qed.

  (** the cut exists and is unique *)
  Lemma growth_cut_exists md : exists k, growth_cut md k.
  Proof.
    induction md as [|m (k & Hk & Hne & Hend)].
    - exists 0. split; [lia|]. split; [|left; reflexivity].
      intros i Hi. assert (i = 0) by lia. subst i. rewrite L0_eq. discriminate.
    - destruct Hend as [-> | He].
      + destruct (L (S m)) as [|x r] eqn:HL.
        * exists m. split; [lia|]. split; [exact Hne | right; exact HL].
        * exists (S m). split; [lia|]. split; [|left; reflexivity].
          intros i Hi. destruct (Nat.eq_dec i (S m)) as [-> | Hn'].
          -- rewrite HL. discriminate.
          -- apply Hne. lia.
      + exists k. split; [lia|]. split; [exact Hne | right; exact He].
  Qed.

  Lemma growth_cut_unique md k1 k2 : growth_cut md k1 -> growth_cut md k2 -> k1 = k2.
  Proof.
    intros H1 (Hk2 & Hne2 & Hend2). apply (cut_at_last md k1 k2 H1 Hne2); [|exact Hk2].
    destruct Hend2 as [-> | He]; [left; reflexivity | right; exact He].
  Qed.

  (** the cut list = all sizes up to the depth limit, stopped at the first zero *)
  Lemma cut_takewhile md k :
    growth_cut md k ->
    map (fun i => length (L i)) (seq 0 (S k)) =
    NumpyBfsProofs.take_nonzero (map (fun i => length (L i)) (seq 0 (S md))).
  Proof.
    intros (Hk & Hne & Hend).
    replace (S md) with (S k + (md - k)) by lia.
    rewrite seq_app, map_app. symmetry. apply NumpyBfsProofs.take_nonzero_app.
    - intros x Hx. apply in_map_iff in Hx. destruct Hx as (i & <- & Hi). apply in_seq in Hi.
      intros Hc. apply length_zero_iff_nil in Hc. apply (Hne i); [lia | exact Hc].
    - destruct Hend as [-> | He].
      + left. replace (md - md) with 0 by lia. reflexivity.
      + destruct (md - k) as [|m']; [left; reflexivity|]. right.
        cbn [seq map hd Nat.add]. rewrite He. reflexivity.
  Qed.
End Cut.

Section Engine.
  Variable n : nat.
  Variable gens : list (list nat).
  Variable start : list nat.

  (** permutations of n symbols *)
  Definition PermN (p : list nat) : Prop := is_perm p = true /\ length p = n.

  Hypothesis Hn : 8 <= n.
  Hypothesis Hgens : forall g, In g gens -> PermN g.
  Hypothesis Hstart : PermN start.

  (** the Cayley graph: states are one-line permutations, generator g acts by apply_perm *)
  Local Notation fs := (fs gens).
  Local Notation L := (Graph.layer (list nat) st_eq_dec fs [start]).
  Local Notation Seen := (Graph.seen_upto (list nat) st_eq_dec fs [start]).
  Local Notation Nb := (Graph.N (list nat) fs).
  Local Notation sizesN := (sizesN gens start).
  Local Notation growth_cut := (growth_cut gens start).

  Lemma apply_PermN g p : PermN g -> PermN p -> PermN (apply_perm 0 g p).
  Proof.
    intros [Hg Hlg] [Hp Hlp]. split.
    - apply is_perm_iff. apply (compose_is_perm g p); [apply is_perm_iff; exact Hg | apply is_perm_iff; exact Hp | congruence].
    - rewrite apply_perm_length. exact Hlg.
  Qed.

  Lemma fs_closed : Graph.closed (list nat) fs PermN.
  Proof.
    intros f x Hf Hx. apply in_map_iff in Hf. destruct Hf as (g & <- & Hg).
    apply apply_PermN; [apply Hgens; exact Hg | exact Hx].
  Qed.

  Lemma layer_PermN t p : In p (L t) -> PermN p.
  Proof.
    apply (GraphProofs.layer_in_closed (list nat) st_eq_dec fs PermN [start] t p fs_closed).
    intros s [<- | []]. exact Hstart.
  Qed.

  Lemma seen_PermN t p : In p (Seen t) -> PermN p.
  Proof.
    intros Hp. apply GraphProofs.seen_upto_spec in Hp. destruct Hp as (k & _ & Hk).
    exact (layer_PermN k p Hk).
  Qed.

  Lemma Nb_PermN t p : In p (Nb (L t)) -> PermN p.
  Proof.
    intros Hp. apply GraphProofs.N_spec in Hp. destruct Hp as (x & f & Hx & Hf & ->).
    apply fs_closed; [exact Hf | exact (layer_PermN t x Hx)].
  Qed.

  (** ** one chunk *)

  Definition wf_chunk (c : chunk) : Prop :=
    sfx_ok n (c_suffix c) /\ c_map1 c = chunk_map1 n (c_suffix c) /\ c_map2 c = chunk_map2 n (c_map1 c).

  Lemma rk_unrank c q :
    wf_chunk c -> PermN q -> in_chunk c q ->
    rank_to_prefix_fast (rk c q) (c_map1 c) ++ c_suffix c = q.
  Proof.
    intros (_ & H1 & H2) [Hp Hl] Hc. unfold rk. rewrite H2, H1. unfold in_chunk, RR in Hc. rewrite <- Hc.
    exact (fast_unrank_rank n q Hp Hl Hn).
  Qed.

  Lemma rk_inj c q q' :
    wf_chunk c -> PermN q -> PermN q' -> in_chunk c q -> in_chunk c q' -> rk c q = rk c q' -> q = q'.
  Proof.
    intros Hwf Hq Hq' Hc Hc' He.
    rewrite <- (rk_unrank c q Hwf Hq Hc), <- (rk_unrank c q' Hwf Hq' Hc'), He. reflexivity.
  Qed.

  (** [repr c P s]: the set of ranks s is the image of the permutations of chunk c satisfying P *)
  Definition repr (c : chunk) (P : list nat -> Prop) (s : PS.t) : Prop :=
    forall r, PS.In r s <-> exists q, P q /\ in_chunk c q /\ r = rk c q.

  Lemma repr_ext c P P' s : (forall q, P q <-> P' q) -> repr c P s -> repr c P' s.
  Proof.
    intros He Hr r. rewrite (Hr r). split; intros (q & Hq & H); exists q; (split; [apply He; exact Hq | exact H]).
  Qed.

  Lemma repr_same c c' P s :
    c_suffix c' = c_suffix c -> c_map2 c' = c_map2 c -> repr c P s -> repr c' P s.
  Proof.
    intros Hs Hm Hr r. rewrite (Hr r). unfold in_chunk, rk. rewrite Hs, Hm. reflexivity.
  Qed.

  (** flush_gray_to_black on one chunk: B = what black stands for, G = what gray stands for *)
  Lemma flush_chunk_spec c (B G : list nat -> Prop) :
    wf_chunk c ->
    (forall q, B q -> PermN q) -> (forall q, G q -> PermN q) ->
    repr c B (c_black c) -> repr c G (c_gray c) ->
    let c' := flush_chunk c in
    wf_chunk c' /\
    repr c' (fun q => G q /\ ~ B q) (c_last c') /\
    repr c' (fun q => B q \/ G q) (c_black c') /\
    PS.Empty (c_gray c') /\
    c_count c' = cardN (c_last c') /\
    c_changed c' = negb (c_count c' =? 0)%N.
  Proof.
    intros Hwf HB HG Hb Hg.
    (* the new vertices, as a set of ranks *)
    assert (Hnew : repr c (fun q => G q /\ ~ B q) (PS.diff (c_gray c) (c_black c))).
    { intros r. rewrite PS.diff_spec, (Hg r), (Hb r). split.
      - intros [(q & Hq & Hc & ->) Hnb]. exists q. split; [|auto]. split; [exact Hq|].
        intros HBq. apply Hnb. exists q. auto.
      - intros (q & [Hq Hnq] & Hc & ->). split; [exists q; auto|].
        intros (q' & Hq' & Hc' & He). apply Hnq.
        rewrite (rk_inj c q q' Hwf (HG q Hq) (HB q' Hq') Hc Hc' He). exact Hq'. }
    unfold flush_chunk. cbv zeta.
    destruct (cardN (PS.diff (c_gray c) (c_black c)) =? 0)%N eqn:Hz.
    - apply N.eqb_eq in Hz. pose proof (cardN_zero_Empty _ Hz) as Hemp.
      split; [exact Hwf|]. cbn [c_last c_black c_gray c_count c_changed].
      split; [|split; [|split; [exact Hemp | split; reflexivity]]].
      + intros r. split.
        * intros Hr. exfalso. revert Hr. apply PS.empty_spec.
        * intros Hex. exfalso. apply (Hemp r). apply Hnew. destruct Hex as (q & Hq & Hc & ->).
          exists q. auto.
      + intros r. rewrite (Hb r). split.
        * intros (q & Hq & H). exists q. auto.
        * intros (q & [Hq | Hq] & Hc & ->); [exists q; auto|].
          (* a gray state of this chunk is already black, because nothing is new *)
          assert (Hin : PS.In (rk c q) (c_gray c)) by (apply Hg; exists q; auto).
          destruct (PS.mem (rk c q) (c_black c)) eqn:Hm.
          -- apply PS.mem_spec in Hm. apply Hb in Hm. exact Hm.
          -- exfalso. apply (Hemp (rk c q)). apply PS.diff_spec. split; [exact Hin|].
             intros Hc'. apply PS.mem_spec in Hc'. congruence.
    - split; [exact Hwf|]. cbn [c_last c_black c_gray c_count c_changed].
      split; [exact Hnew|]. split; [|split; [apply PS.empty_spec | split; [reflexivity|]]].
      + intros r. rewrite PS.union_spec, (Hb r), (Hnew r). split.
        * intros [(q & Hq & H) | (q & [Hq _] & H)]; exists q; auto.
        * intros (q & [Hq | Hq] & Hc & ->); [left; exists q; auto|].
          destruct (PS.mem (rk c q) (c_black c)) eqn:Hm.
          -- left. apply PS.mem_spec in Hm. apply Hb in Hm. exact Hm.
          -- right. exists q. split; [|auto]. split; [exact Hq|]. intros HBq.
             assert (Hc' : PS.In (rk c q) (c_black c)) by (apply Hb; exists q; auto).
             apply PS.mem_spec in Hc'. congruence.
      + rewrite Hz. reflexivity.
  Qed.

  (** ** the invariant: after t steps, chunk by chunk, last_layer is layer t, black is everything
      up to layer t, gray is clear, and the two bookkeeping fields agree with last_layer *)
  Definition chunk_inv (t : nat) (c : chunk) : Prop :=
    wf_chunk c /\
    repr c (fun q => In q (L t)) (c_last c) /\
    repr c (fun q => In q (Seen t)) (c_black c) /\
    PS.Empty (c_gray c) /\
    c_count c = cardN (c_last c) /\
    c_changed c = negb (c_count c =? 0)%N.

  Definition Inv (t : nat) (cs : list chunk) : Prop :=
    map c_suffix cs = suffixes n /\ forall c, In c cs -> chunk_inv t c.

  Lemma Inv_NoDup t cs : Inv t cs -> NoDup (map c_suffix cs).
  Proof. intros [Hs _]. rewrite Hs. apply suffixes_NoDup. Qed.

  Lemma PermN_has_chunk t cs q : Inv t cs -> PermN q -> In (skipn RR q) (map c_suffix cs).
  Proof.
    intros [Hs _] [Hp Hl]. rewrite Hs. apply suffixes_complete. exact (perm_suffix_ok n q Hp Hl Hn).
  Qed.

  Lemma materialize_spec t c p :
    chunk_inv t c -> (In p (materialize c) <-> In p (L t) /\ in_chunk c p).
  Proof.
    intros (Hwf & Hlast & _). unfold materialize. rewrite in_map_iff. split.
    - intros (ri & <- & Hri). apply PS_elements_In in Hri. apply Hlast in Hri.
      destruct Hri as (q & Hq & Hc & ->).
      rewrite (rk_unrank c q Hwf (layer_PermN t q Hq) Hc). auto.
    - intros [Hp Hc]. exists (rk c p). split.
      + exact (rk_unrank c p Hwf (layer_PermN t p Hp) Hc).
      + apply PS_elements_In. apply Hlast. exists p. auto.
  Qed.

  Lemma neighbors_spec t c q :
    chunk_inv t c ->
    (In q (neighbors gens c) <->
     exists g p, In g gens /\ In p (L t) /\ in_chunk c p /\ q = apply_perm 0 g p).
  Proof.
    intros Hinv. unfold neighbors. cbv zeta. rewrite in_concat. split.
    - intros (l & Hl & Hq). apply in_map_iff in Hl. destruct Hl as (g & <- & Hg).
      apply in_map_iff in Hq. destruct Hq as (p & <- & Hp).
      apply (materialize_spec t c p Hinv) in Hp. exists g, p. tauto.
    - intros (g & p & Hg & Hp & Hc & ->). exists (map (apply_perm 0 g) (materialize c)). split.
      + apply in_map_iff. exists g. auto.
      + apply in_map. apply (materialize_spec t c p Hinv). auto.
  Qed.

  (** a chunk holding a state of layer t has its flag set *)
  Lemma chunk_of_layer_changed t c p :
    chunk_inv t c -> In p (L t) -> in_chunk c p -> c_changed c = true.
  Proof.
    intros (Hwf & Hlast & _ & _ & Hcnt & Hch) Hp Hc. rewrite Hch, Hcnt.
    destruct (cardN (c_last c) =? 0)%N eqn:Hz; [|reflexivity].
    apply N.eqb_eq in Hz. exfalso. apply (cardN_zero_Empty _ Hz (rk c p)).
    apply Hlast. exists p. auto.
  Qed.

  Lemma all_nbrs_spec t cs q : Inv t cs -> (In q (all_nbrs gens cs) <-> In q (Nb (L t))).
  Proof.
    intros HI. unfold all_nbrs. rewrite in_concat, GraphProofs.N_spec. split.
    - intros (l & Hl & Hq). apply in_map_iff in Hl. destruct Hl as (c & <- & Hc).
      apply filter_In in Hc. destruct Hc as [Hc _].
      apply (neighbors_spec t c q (proj2 HI c Hc)) in Hq.
      destruct Hq as (g & p & Hg & Hp & _ & ->).
      exists p, (apply_perm 0 g). split; [exact Hp|]. split; [|reflexivity].
      unfold fs. apply in_map. exact Hg.
    - intros (p & f & Hp & Hf & ->). unfold fs in Hf. apply in_map_iff in Hf.
      destruct Hf as (g & <- & Hg).
      pose proof (PermN_has_chunk t cs p HI (layer_PermN t p Hp)) as Hk.
      apply in_map_iff in Hk. destruct Hk as (c & Hcs & Hc).
      exists (neighbors gens c). split.
      + apply in_map. apply filter_In. split; [exact Hc|].
        apply (chunk_of_layer_changed t c p (proj2 HI c Hc) Hp). symmetry. exact Hcs.
      + apply (neighbors_spec t c _ (proj2 HI c Hc)). exists g, p.
        split; [exact Hg|]. split; [exact Hp|]. split; [symmetry; exact Hcs | reflexivity].
  Qed.

  Lemma nbrs_routable t cs c1 q :
    Inv t cs -> In c1 cs -> In q (neighbors gens c1) -> In (skipn RR q) (map c_suffix cs).
  Proof.
    intros HI Hc1 Hq. apply (PermN_has_chunk t cs q HI).
    apply (neighbors_spec t c1 q (proj2 HI c1 Hc1)) in Hq.
    destruct Hq as (g & p & Hg & Hp & _ & ->).
    apply apply_PermN; [apply Hgens; exact Hg | exact (layer_PermN t p Hp)].
  Qed.

  (** painting [nbrs] (any states standing for G) and flushing turns a chunk of step t into the
      chunk of the next step *)
  Lemma paint_flush_chunk c (B G : list nat -> Prop) nbrs :
    wf_chunk c -> PS.Empty (c_gray c) ->
    (forall q, B q -> PermN q) -> (forall q, G q -> PermN q) ->
    (forall q, In q nbrs <-> G q) ->
    repr c B (c_black c) ->
    let c' := flush_chunk (paint_all nbrs c) in
    c_suffix c' = c_suffix c /\
    wf_chunk c' /\
    repr c' (fun q => G q /\ ~ B q) (c_last c') /\
    repr c' (fun q => B q \/ G q) (c_black c') /\
    PS.Empty (c_gray c') /\
    c_count c' = cardN (c_last c') /\
    c_changed c' = negb (c_count c' =? 0)%N.
  Proof.
    intros Hwf Hemp HB HG Hnb Hb. cbv zeta. rewrite paint_all_eq.
    set (c1 := set_gray c (gray_fold c nbrs (c_gray c))).
    assert (Hwf1 : wf_chunk c1) by exact Hwf.
    assert (Hb1 : repr c1 B (c_black c1)) by exact Hb.
    assert (Hg1 : repr c1 G (c_gray c1)).
    { intros r. change (c_gray c1) with (gray_fold c nbrs (c_gray c)).
      rewrite gray_fold_In. split.
      - intros [Hr | (q & Hq & H)]; [exfalso; exact (Hemp r Hr)|].
        exists q. split; [apply Hnb; exact Hq | exact H].
      - intros (q & Hq & H). right. exists q. split; [apply Hnb; exact Hq | exact H]. }
    split; [unfold flush_chunk; cbv zeta; destruct (_ =? _)%N; reflexivity|].
    exact (flush_chunk_spec c1 B G Hwf1 HB HG Hb1 Hg1).
  Qed.

  (** ONE STEP: the painting phase is the explicit map (or the IndexError), and painting then
      flushing carries the invariant from t to t+1 *)
  Theorem step_inv t cs :
    Inv t cs ->
    paint_phase gens cs =
      (if existsb (fun c1 => c_changed c1 && bad_call (neighbors gens c1)) cs then Err IndexErr
       else Ok (map (paint_all (all_nbrs gens cs)) cs, existsb c_changed cs)) /\
    Inv (S t) (flush (map (paint_all (all_nbrs gens cs)) cs)).
  Proof.
    intros HI. split.
    - apply paint_phase_eq; [exact (Inv_NoDup t cs HI)|].
      intros c1 q Hc1 _ Hq. exact (nbrs_routable t cs c1 q HI Hc1 Hq).
    - destruct HI as [Hs Hall].
      assert (Hstep : forall c, In c cs ->
                c_suffix (flush_chunk (paint_all (all_nbrs gens cs) c)) = c_suffix c /\
                chunk_inv (S t) (flush_chunk (paint_all (all_nbrs gens cs) c))).
      { intros c Hc. destruct (Hall c Hc) as (Hwf & _ & Hblack & Hemp & _).
        destruct (paint_flush_chunk c (fun q => In q (Seen t)) (fun q => In q (Nb (L t)))
                    (all_nbrs gens cs) Hwf Hemp (seen_PermN t) (Nb_PermN t)
                    (fun q => all_nbrs_spec t cs q (conj Hs Hall)) Hblack)
          as (Hsfx & Hwf' & Hl' & Hb' & He' & Hc' & Hch').
        split; [exact Hsfx|]. split; [exact Hwf'|]. split; [|split; [|auto]].
        - apply (repr_ext _ (fun q => In q (Nb (L t)) /\ ~ In q (Seen t))); [|exact Hl'].
          intros q. symmetry. apply GraphProofs.layer_succ_spec.
        - apply (repr_ext _ (fun q => In q (Seen t) \/ In q (Nb (L t)))); [|exact Hb'].
          intros q. rewrite GraphProofs.seen_S, in_app_iff, GraphProofs.layer_succ_spec.
          destruct (in_dec st_eq_dec q (Seen t)); tauto. }
      split.
      + unfold flush. rewrite map_map, map_map, <- Hs. apply map_ext_in.
        intros c Hc. apply (Hstep c Hc).
      + intros c' Hc'. unfold flush in Hc'. rewrite map_map in Hc'.
        apply in_map_iff in Hc'. destruct Hc' as (c & <- & Hc). apply (Hstep c Hc).
  Qed.

  (** ** counting: the sum of the per-chunk counts is the size of the layer *)
  Lemma chunk_count t c :
    chunk_inv t c ->
    c_count c = N.of_nat (length (filter (fun q => nat_list_eqb (skipn RR q) (c_suffix c)) (L t))).
  Proof.
    intros (Hwf & Hlast & _ & _ & Hcnt & _). rewrite Hcnt, cardN_spec. f_equal.
    apply (PS_cardinal_image (rk c)).
    - apply NoDup_filter. apply GraphProofs.layer_NoDup.
    - intros x y Hx Hy He. apply filter_In in Hx. apply filter_In in Hy.
      destruct Hx as [Hx Hcx]. destruct Hy as [Hy Hcy].
      apply list_eqb_nat_true in Hcx. apply list_eqb_nat_true in Hcy.
      exact (rk_inj c x y Hwf (layer_PermN t x Hx) (layer_PermN t y Hy) Hcx Hcy He).
    - intros r. rewrite (Hlast r). split.
      + intros (q & Hq & Hc & ->). exists q. split; [|reflexivity].
        apply filter_In. split; [exact Hq|]. apply list_eqb_nat_true. exact Hc.
      + intros (q & Hq & ->). apply filter_In in Hq. destruct Hq as [Hq Hc].
        apply list_eqb_nat_true in Hc. exists q. auto.
  Qed.

  Theorem count_inv t cs : Inv t cs -> count_last cs = N.of_nat (length (L t)).
  Proof.
    intros HI.
    rewrite <- (partition_count (skipn RR) (map c_suffix cs) (L t) (Inv_NoDup t cs HI))
      by (intros q Hq; apply (PermN_has_chunk t cs q HI (layer_PermN t q Hq))).
    destruct HI as [_ Hall]. unfold count_last. induction cs as [|c cs IH]; [reflexivity|].
    cbn [map fold_right nat_sum].
    fold (nat_sum (map (fun k => length (filter (fun x => nat_list_eqb (skipn RR x) k) (L t)))
                       (map c_suffix cs))).
    rewrite Nat2N.inj_add, <- IH by (intros c' Hc'; apply Hall; right; exact Hc').
    rewrite (chunk_count t c) by (apply Hall; left; reflexivity). reflexivity.
  Qed.

  Lemma used_flag t cs : Inv t cs -> L t <> [] -> existsb c_changed cs = true.
  Proof.
    intros HI Hne. destruct (L t) as [|p l] eqn:HL; [contradiction|].
    assert (Hp : In p (L t)) by (rewrite HL; left; reflexivity).
    pose proof (PermN_has_chunk t cs p HI (layer_PermN t p Hp)) as Hk.
    apply in_map_iff in Hk. destruct Hk as (c & Hcs & Hc).
    apply existsb_exists. exists c. split; [exact Hc|].
    apply (chunk_of_layer_changed t c p (proj2 HI c Hc) Hp). symmetry. exact Hcs.
  Qed.

  (** ** the initial state *)
  Lemma init_chunks_suffix : map c_suffix (init_chunks n) = suffixes n.
  Proof. unfold init_chunks. rewrite map_map. cbn [new_chunk c_suffix]. apply map_id. Qed.

  Lemma init_chunk_wf sfx : In sfx (suffixes n) -> wf_chunk (new_chunk n sfx).
  Proof. intros Hin. split; [exact (suffixes_sound n sfx Hin)|]. split; reflexivity. Qed.

  Theorem init_inv :
    paint_gray (init_chunks n) [start] = Ok (map (paint_all [start]) (init_chunks n)) /\
    Inv 0 (flush (map (paint_all [start]) (init_chunks n))).
  Proof.
    split.
    - rewrite paint_gray_eq; [reflexivity | rewrite init_chunks_suffix; apply suffixes_NoDup |].
      intros q [<- | []]. rewrite init_chunks_suffix. apply suffixes_complete.
      destruct Hstart as [Hp Hl]. exact (perm_suffix_ok n start Hp Hl Hn).
    - assert (Hstep : forall c, In c (init_chunks n) ->
                c_suffix (flush_chunk (paint_all [start] c)) = c_suffix c /\
                chunk_inv 0 (flush_chunk (paint_all [start] c))).
      { intros c Hc. unfold init_chunks in Hc. apply in_map_iff in Hc. destruct Hc as (sfx & <- & Hsfx).
        destruct (paint_flush_chunk (new_chunk n sfx) (fun _ => False) (fun q => q = start) [start])
          as (Hs' & Hwf' & Hl' & Hb' & He' & Hc' & Hch').
        - exact (init_chunk_wf sfx Hsfx).
        - apply PS.empty_spec.
        - intros q [].
        - intros q ->. exact Hstart.
        - intros q. split; [intros [<- | []]; reflexivity | intros ->; left; reflexivity].
        - intros r. split; [intros Hr; exfalso; revert Hr; apply PS.empty_spec | intros (q & [] & _)].
        - split; [exact Hs'|]. split; [exact Hwf'|]. split; [|split; [|auto]].
          + apply (repr_ext _ (fun q => q = start /\ ~ False)); [|exact Hl'].
            intros q. rewrite L0_eq. split; [intros [-> _]; left; reflexivity | intros [<- | []]; auto].
          + apply (repr_ext _ (fun q => False \/ q = start)); [|exact Hb'].
            intros q. rewrite Seen0_eq. split; [intros [[] | ->]; left; reflexivity | intros [<- | []]; auto]. }
      split.
      + unfold flush. rewrite map_map, map_map, <- init_chunks_suffix. apply map_ext_in.
        intros c Hc. apply (Hstep c Hc).
      + intros c' Hc'. unfold flush in Hc'. rewrite map_map in Hc'.
        apply in_map_iff in Hc'. destruct Hc' as (c & <- & Hc). apply (Hstep c Hc).
  Qed.

  (** ** the loop *)

  Lemma loop_correct m : forall t cs sr k,
    Inv t cs ->
    (forall i, i <= t -> L i <> []) ->
    sr = rev (map sizesN (seq 0 (S t))) ->
    growth_cut (t + m) k ->
    match loop_nat (bfs_iter gens) m (cs, sr) with
    | inl (_, s) => rev s = map sizesN (seq 0 (S k))
    | inr (Ok s) => s = map sizesN (seq 0 (S k))
    | inr (Err e) => e = IndexErr
    end.
  Proof.
    induction m as [|m IH]; intros t cs sr k HI Hne Hsr Hcut.
    - cbn [loop_nat]. rewrite Hsr, rev_involutive.
      rewrite (cut_at_last gens start _ k t Hcut Hne); [reflexivity | left; lia | lia].
    - cbn [loop_nat]. unfold bfs_iter at 1.
      destruct (step_inv t cs HI) as [Hphase HI'].
      rewrite Hphase. destruct (existsb _ cs); [reflexivity|].
      rewrite (used_flag t cs HI (Hne t (le_n t))). cbn [negb].
      set (cs2 := flush (map (paint_all (all_nbrs gens cs)) cs)) in *.
      rewrite (count_inv (S t) cs2 HI').
      destruct (N.of_nat (length (L (S t))) =? 0)%N eqn:Hz.
      + apply N.eqb_eq in Hz. assert (HL : L (S t) = []) by (apply length_zero_iff_nil; lia).
        rewrite Hsr, rev_involutive.
        rewrite (cut_at_last gens start _ k t Hcut Hne); [reflexivity | right; exact HL | lia].
      + apply N.eqb_neq in Hz.
        apply (IH (S t)).
        * exact HI'.
        * intros i Hi. destruct (Nat.eq_dec i (S t)) as [-> | Hn'].
          -- intros Hc. apply Hz. rewrite Hc. reflexivity.
          -- apply Hne. lia.
        * rewrite (sizes_rev_S gens start (S t)), Hsr. reflexivity.
        * replace (S t + m) with (t + S m) by lia. exact Hcut.
  Qed.

  (** the engine proper (after the input assertions): on valid input it either returns the sizes
      of the true layers 0..k, or fails with the IndexError of paint_gray *)
  Theorem bfs_run_correct (max_diameter : N) (k : nat) :
    growth_cut (N.to_nat max_diameter) k ->
    match bfs_run n gens start max_diameter with
    | Ok sizes => sizes = map (fun i => length (L i)) (seq 0 (S k))
    | Err e => e = IndexErr
    end.
  Proof.
    intros Hcut. unfold bfs_run. destruct init_inv as [Hpaint HI0].
    rewrite Hpaint. cbn [bind]. cbv zeta.
    set (cs2 := flush (map (paint_all [start]) (init_chunks n))) in *.
    rewrite loop_N_nat.
    pose proof (loop_correct (N.to_nat max_diameter) 0 cs2 [count_last cs2] k HI0) as Hloop.
    assert (Hto : forall l, map N.to_nat (map sizesN l) = map (fun i => length (L i)) l).
    { intros l. rewrite map_map. apply map_ext. intros i. unfold sizesN. apply Nat2N.id. }
    destruct (loop_nat (bfs_iter gens) (N.to_nat max_diameter) (cs2, [count_last cs2]))
      as [[cs' s] | [s | e]].
    - rewrite Hloop; [apply Hto | | | exact Hcut].
      + intros i Hi. assert (i = 0) by lia. subst i. rewrite L0_eq. discriminate.
      + rewrite (count_inv 0 cs2 HI0). reflexivity.
    - rewrite Hloop; [apply Hto | | | exact Hcut].
      + intros i Hi. assert (i = 0) by lia. subst i. rewrite L0_eq. discriminate.
      + rewrite (count_inv 0 cs2 HI0). reflexivity.
    - apply Hloop; [| | exact Hcut].
      + intros i Hi. assert (i = 0) by lia. subst i. rewrite L0_eq. discriminate.
      + rewrite (count_inv 0 cs2 HI0). reflexivity.
  Qed.

End Engine.


(* ------------------------------------------------------------------------------------------- *)
(* ------------------------------------------------------------------------------------------- *)
(** * The engine with its input assertions *)

Local Notation Layer gens start := (Graph.layer (list nat) st_eq_dec (fs gens) [start]).

(** what the assertions guarding the engine say *)
Definition valid_input (n : nat) (gens : list (list nat)) (start : list nat) : Prop :=
  gens <> [] /\ (forall g, In g gens -> PermN n g) /\ 8 < n /\ PermN n start.

Lemma perm_of_size_spec n p : perm_of_size n p = true <-> PermN n p.
Proof.
  unfold perm_of_size, PermN. rewrite andb_true_iff, Nat.eqb_eq. reflexivity.
Qed.

Lemma valid_inputb_spec n gens start : valid_inputb n gens start = true <-> valid_input n gens start.
Proof.
  unfold valid_inputb, valid_input.
  rewrite !andb_true_iff, !negb_true_iff, forallb_forall, perm_of_size_spec, Nat.leb_gt.
  unfold RR. split.
  - intros [[[Hg Hall] Hn] Hs]. split; [destruct gens; [discriminate | discriminate]|].
    split; [intros g Hg'; apply perm_of_size_spec; apply Hall; exact Hg' | auto].
  - intros (Hg & Hall & Hn & Hs). split; [split; [split|]|]; auto.
    + destruct gens; [contradiction | reflexivity].
    + intros g Hg'. apply perm_of_size_spec. apply Hall. exact Hg'.
Qed.

Lemma identity_PermN n : PermN n (identity_perm n).
Proof.
  unfold identity_perm. split; [|apply seq_length].
  apply is_perm_iff. unfold Perm. rewrite seq_length. apply Permutation_refl.
Qed.

(** ALL OUTCOMES.  Invalid input: AssertionError.  Valid input: the sizes of the true layers
    0..k (k = depth limit or index of the last non-empty layer), or the IndexError. *)
Theorem bitmask_bfs_from_outcomes n gens start (max_diameter : N) (k : nat) :
  growth_cut gens start (N.to_nat max_diameter) k ->
  match bitmask_bfs_from n gens start max_diameter with
  | Ok sizes => valid_input n gens start /\
                sizes = map (fun i => length (Layer gens start i)) (seq 0 (S k))
  | Err e => (e = AssertionErr /\ ~ valid_input n gens start) \/
             (e = IndexErr /\ valid_input n gens start)
  end.
Proof.
  intros Hcut. unfold bitmask_bfs_from.
  destruct (valid_inputb n gens start) eqn:Hv.
  - apply valid_inputb_spec in Hv. pose proof Hv as (Hg & Hall & Hn & Hs).
    pose proof (bfs_run_correct n gens start (Nat.lt_le_incl _ _ Hn) Hall Hs max_diameter k Hcut) as Hrun.
    destruct (bfs_run n gens start max_diameter) as [sizes | e].
    + split; [exact Hv | exact Hrun].
    + right. split; [exact Hrun | exact Hv].
  - left. split; [reflexivity|]. intros Hc. apply valid_inputb_spec in Hc. congruence.
Qed.

(** MAIN THEOREM (growth_cut form).  Whenever the engine returns normally, the result is the list
    of sizes of the true BFS layers 0..k from the start permutation. *)
Theorem bitmask_bfs_from_growth n gens start (max_diameter : N) (sizes : list nat) (k : nat) :
  bitmask_bfs_from n gens start max_diameter = Ok sizes ->
  growth_cut gens start (N.to_nat max_diameter) k ->
  sizes = map (fun i => length (Layer gens start i)) (seq 0 (S k)).
Proof.
  intros Hok Hcut. pose proof (bitmask_bfs_from_outcomes n gens start max_diameter k Hcut) as H.
  rewrite Hok in H. apply H.
Qed.

(** a normal return certifies the input assertions *)
Theorem bitmask_bfs_from_ok_valid n gens start max_diameter sizes :
  bitmask_bfs_from n gens start max_diameter = Ok sizes -> valid_input n gens start.
Proof.
  intros Hok. unfold bitmask_bfs_from in Hok.
  destruct (valid_inputb n gens start) eqn:Hv; [|discriminate].
  apply valid_inputb_spec. exact Hv.
Qed.

(** MAIN THEOREM (computable form, same shape as NumpyBfsProofs.numpy_bfs_growth_takewhile):
    the sizes of layers 0..max_diameter, stopped at the first zero.  No hypothesis other than the
    normal return is needed: 8 < n and "the generators are permutations of n symbols" are the
    engine's own assertions ([bitmask_bfs_from_ok_valid]); inverse closure is not assumed. *)
Theorem bitmask_bfs_from_growth_takewhile n gens start (max_diameter : N) (sizes : list nat) :
  bitmask_bfs_from n gens start max_diameter = Ok sizes ->
  sizes = NumpyBfsProofs.take_nonzero
            (map (fun i => length (Layer gens start i)) (seq 0 (S (N.to_nat max_diameter)))).
Proof.
  intros Hok.
  destruct (growth_cut_exists gens start (N.to_nat max_diameter)) as (k & Hcut).
  rewrite (bitmask_bfs_from_growth n gens start max_diameter sizes k Hok Hcut).
  apply cut_takewhile. exact Hcut.
Qed.

(** the statement of the task: Cayley graph of permutations of n symbols, from the identity *)
Theorem bitmask_bfs_growth n gens (max_diameter : N) (sizes : list nat) :
  bitmask_bfs n gens max_diameter = Ok sizes ->
  sizes = NumpyBfsProofs.take_nonzero
            (map (fun i => length (Layer gens (identity_perm n) i))
                 (seq 0 (S (N.to_nat max_diameter)))).
Proof. apply bitmask_bfs_from_growth_takewhile. Qed.

(** the same with the assertions of the code written out as hypotheses (they are redundant:
    [bitmask_bfs_from_ok_valid]) *)
Corollary bitmask_bfs_growth_hyps n gens (max_diameter : N) (sizes : list nat) :
  8 < n -> (forall g, In g gens -> is_perm g = true /\ length g = n) ->
  bitmask_bfs n gens max_diameter = Ok sizes ->
  sizes = NumpyBfsProofs.take_nonzero
            (map (fun i => length (Layer gens (identity_perm n) i))
                 (seq 0 (S (N.to_nat max_diameter)))).
Proof. intros _ _. apply bitmask_bfs_growth. Qed.

(** entry i of the result counts the permutations at distance exactly i from the start *)
Corollary bitmask_bfs_counts_distance_classes n gens start (max_diameter : N) sizes k i :
  bitmask_bfs_from n gens start max_diameter = Ok sizes ->
  growth_cut gens start (N.to_nat max_diameter) k ->
  length sizes = S k /\
  (i <= k ->
   exists cls, NoDup cls /\
               (forall x, In x cls <-> Graph.dist_is (list nat) (fs gens) [start] x i) /\
               nth i sizes 0 = length cls).
Proof.
  intros Hok Hcut. rewrite (bitmask_bfs_from_growth n gens start max_diameter sizes k Hok Hcut). split.
  - rewrite map_length, seq_length. reflexivity.
  - intros Hi. exists (Layer gens start i). split; [apply GraphProofs.layer_NoDup|]. split.
    + intros x. apply GraphProofs.ref_layers_dist.
    + rewrite (nth_indep _ 0 ((fun i => length (Layer gens start i)) 0))
        by (rewrite map_length, seq_length; lia).
      rewrite (map_nth (fun i => length (Layer gens start i))). rewrite seq_nth by lia. reflexivity.
Qed.

(* ------------------------------------------------------------------------------------------- *)
(** * The engine never fails on valid input *)

(** [step_inv] / [paint_phase_eq] give the exact condition step by step: the step fails iff some
    chunk with a non-empty last layer makes a [bad_call], i.e. paints an EMPTY array.  A chunk
    whose flag is set holds a state of the current layer and there is at least one generator, so
    its neighbour array is never empty.  (Before fix 40d8e7d the np.roll grouping also failed when
    all states of a call lay in one chunk: generators that all treat the trailing positions alike.) *)

Lemma cardN_pos_In s : cardN s <> 0%N -> exists r, PS.In r s.
Proof.
  intros Hc. rewrite cardN_spec, PS.cardinal_spec in Hc.
  destruct (PS.elements s) as [|r l] eqn:He; [exfalso; apply Hc; reflexivity|].
  exists r. apply PS_elements_In. rewrite He. left. reflexivity.
Qed.

Section Totality.
  Variable n : nat.
  Variable gens : list (list nat).
  Variable start : list nat.
  Hypothesis Hvalid : valid_input n gens start.

  Let Hn : 8 <= n.
  Proof. destruct Hvalid as (_ & _ & H & _). apply Nat.lt_le_incl. exact H. Qed.
  Let Hgens : forall g, In g gens -> PermN n g.
  Proof. destruct Hvalid as (_ & H & _). exact H. Qed.
  Let Hstart : PermN n start.
  Proof. destruct Hvalid as (_ & _ & _ & H). exact H. Qed.

  Local Notation L := (Graph.layer (list nat) st_eq_dec (fs gens) [start]).

  (** a chunk whose flag is set holds a state of the current layer *)
  Lemma changed_has_state t c :
    chunk_inv n gens start t c -> c_changed c = true -> exists p, In p (L t) /\ in_chunk c p.
  Proof.
    intros (Hwf & Hlast & _ & _ & Hcnt & Hch) Hc. rewrite Hch, Hcnt in Hc.
    apply negb_true_iff in Hc. apply N.eqb_neq in Hc.
    destruct (cardN_pos_In _ Hc) as (r & Hr). apply Hlast in Hr.
    destruct Hr as (p & Hp & Hcp & _). exists p. auto.
  Qed.

  (** no step of the engine paints an empty array *)
  Lemma no_bad_call t cs :
    Inv n gens start t cs ->
    existsb (fun c1 => c_changed c1 && bad_call (neighbors gens c1)) cs = false.
  Proof.
    intros HI.
    destruct (existsb _ cs) eqn:He; [|reflexivity]. exfalso.
    apply existsb_exists in He. destruct He as (c & Hc & Hb).
    apply andb_true_iff in Hb. destruct Hb as [Hch Hbad].
    pose proof (proj2 HI c Hc) as Hci.
    destruct (changed_has_state t c Hci Hch) as (p & Hp & Hcp).
    destruct Hvalid as (Hne & _).
    destruct gens as [|g gs] eqn:Hg; [apply Hne; reflexivity|].
    assert (Hin : In (apply_perm 0 g p) (neighbors (g :: gs) c)).
    { apply (neighbors_spec n (g :: gs) start Hn Hgens Hstart t c _ Hci).
      exists g, p. split; [left; reflexivity|]. auto. }
    destruct (neighbors (g :: gs) c); [destruct Hin | discriminate Hbad].
  Qed.

  Lemma loop_no_err m : forall t cs sr,
    Inv n gens start t cs ->
    match loop_nat (bfs_iter gens) m (cs, sr) with
    | inr (Err _) => False
    | _ => True
    end.
  Proof.
    induction m as [|m IH]; intros t cs sr HI; [exact I|].
    cbn [loop_nat]. unfold bfs_iter at 1.
    destruct (step_inv n gens start Hn Hgens Hstart t cs HI) as [Hphase HI'].
    rewrite Hphase, (no_bad_call t cs HI).
    destruct (negb (existsb c_changed cs)); [exact I|].
    destruct (count_last _ =? 0)%N; [exact I|].
    apply (IH (S t)); assumption.
  Qed.

  (** on valid input the engine always returns normally (and then [bitmask_bfs_from_growth] says what) *)
  Theorem bitmask_bfs_from_total max_diameter :
    exists sizes, bitmask_bfs_from n gens start max_diameter = Ok sizes.
  Proof.
    unfold bitmask_bfs_from.
    rewrite (proj2 (valid_inputb_spec n gens start) Hvalid).
    unfold bfs_run. destruct (init_inv n gens start Hn Hstart) as [Hpaint HI0].
    rewrite Hpaint. cbn [bind]. cbv zeta. rewrite loop_N_nat.
    pose proof (loop_no_err (N.to_nat max_diameter) 0 _
                  [count_last (flush (map (paint_all [start]) (init_chunks n)))] HI0) as Hl.
    destruct (loop_nat _ _ _) as [[cs' s] | [s | e]]; [eexists; reflexivity | eexists; reflexivity | contradiction].
  Qed.
End Totality.

(** ALL OUTCOMES, final form.  Invalid input: AssertionError.  Valid input: the sizes of the true
    layers 0..k (k = depth limit or index of the last non-empty layer).  Nothing else. *)
Theorem bitmask_bfs_from_outcomes_total n gens start (max_diameter : N) (k : nat) :
  growth_cut gens start (N.to_nat max_diameter) k ->
  match bitmask_bfs_from n gens start max_diameter with
  | Ok sizes => valid_input n gens start /\
                sizes = map (fun i => length (Layer gens start i)) (seq 0 (S k))
  | Err e => e = AssertionErr /\ ~ valid_input n gens start
  end.
Proof.
  intros Hcut. pose proof (bitmask_bfs_from_outcomes n gens start max_diameter k Hcut) as H.
  destruct (bitmask_bfs_from n gens start max_diameter) as [sizes | e] eqn:Hr; [exact H|].
  destruct H as [H | [_ Hv]]; [exact H|].
  destruct (bitmask_bfs_from_total n gens start Hv max_diameter) as (sizes & Hs). congruence.
Qed.

(** valid input: the engine returns exactly the growth function (cut at the depth limit) *)
Theorem bitmask_bfs_from_valid n gens start (max_diameter : N) :
  valid_input n gens start ->
  bitmask_bfs_from n gens start max_diameter =
  Ok (NumpyBfsProofs.take_nonzero
        (map (fun i => length (Layer gens start i)) (seq 0 (S (N.to_nat max_diameter))))).
Proof.
  intros Hv. destruct (bitmask_bfs_from_total n gens start Hv max_diameter) as (sizes & Hs).
  rewrite Hs. f_equal. exact (bitmask_bfs_from_growth_takewhile n gens start max_diameter sizes Hs).
Qed.

(* ------------------------------------------------------------------------------------------- *)
(** * Non-vacuity: concrete instances of the hypotheses and of the theorems *)

Definition ex_L9 : list nat := [1; 2; 3; 4; 5; 6; 7; 8; 0].
Definition ex_R9 : list nat := [8; 0; 1; 2; 3; 4; 5; 6; 7].
Definition ex_X9 : list nat := [1; 0; 2; 3; 4; 5; 6; 7; 8].
Definition ex_lrx9 : list (list nat) := [ex_L9; ex_R9; ex_X9].
Definition ex_lx9 : list (list nat) := [ex_L9; ex_X9].            (* not inverse closed *)
Definition ex_Y9 : list nat := [0; 2; 1; 3; 4; 5; 6; 7; 8].
Definition ex_xy9 : list (list nat) := [ex_X9; ex_Y9].            (* both fix the trailing position *)

Example ex_lrx9_valid : valid_input 9 ex_lrx9 (identity_perm 9).
Proof. apply valid_inputb_spec. vm_compute. reflexivity. Qed.

Example ex_lx9_valid : valid_input 9 ex_lx9 (identity_perm 9).
Proof. apply valid_inputb_spec. vm_compute. reflexivity. Qed.

Example ex_xy9_valid : valid_input 9 ex_xy9 (identity_perm 9).
Proof. apply valid_inputb_spec. vm_compute. reflexivity. Qed.

(* the hypothesis of the growth theorems: a normal return (the model is run: n = 9, depth 5) *)
Example ex_lrx9_run5 : bitmask_bfs 9 ex_lrx9 5 = Ok [1; 3; 6; 12; 24; 46].
Proof. vm_compute. reflexivity. Qed.

(* the same statement on bitmask_bfs_from, so that theorems about it apply without any unfolding
   (never let the kernel compare two runs of the engine by lazy reduction) *)
Example ex_lrx9_run5_from : bitmask_bfs_from 9 ex_lrx9 (identity_perm 9) 5 = Ok [1; 3; 6; 12; 24; 46].
Proof. vm_compute. reflexivity. Qed.

Example ex_lx9_run6 : bitmask_bfs 9 ex_lx9 6 = Ok [1; 2; 3; 5; 8; 13; 21].
Proof. vm_compute. reflexivity. Qed.

(* ... so the theorem yields facts about the mathematical layers *)
Example ex_lrx9_layers :
  NumpyBfsProofs.take_nonzero
    (map (fun i => length (Graph.layer (list nat) st_eq_dec (fs ex_lrx9) [identity_perm 9] i)) (seq 0 6))
  = [1; 3; 6; 12; 24; 46].
Proof. symmetry. exact (bitmask_bfs_growth 9 ex_lrx9 5 [1; 3; 6; 12; 24; 46] ex_lrx9_run5). Qed.

(* a concrete cut: depth limit 5 reached with all six layers non-empty *)
Example ex_lrx9_cut : growth_cut ex_lrx9 (identity_perm 9) 5 5.
Proof.
  destruct (growth_cut_exists ex_lrx9 (identity_perm 9) 5) as (k & Hk).
  pose proof (bitmask_bfs_from_growth 9 ex_lrx9 (identity_perm 9) 5 [1; 3; 6; 12; 24; 46] k
                ex_lrx9_run5_from Hk) as H.
  apply (f_equal (@length nat)) in H. rewrite map_length, seq_length in H. cbn [length] in H.
  injection H as <-. exact Hk.
Qed.

(* a cut before the limit: the single generator X has the two-element orbit {id, X} *)
Example ex_x9_run : bitmask_bfs_from 9 [ex_X9] (identity_perm 9) 1000 = Ok [1; 1].
Proof. vm_compute. reflexivity. Qed.

Example ex_x9_cut : growth_cut [ex_X9] (identity_perm 9) 1000 1.
Proof.
  destruct (growth_cut_exists [ex_X9] (identity_perm 9) 1000) as (k & Hk).
  pose proof (bitmask_bfs_from_growth 9 [ex_X9] (identity_perm 9) 1000 [1; 1] k ex_x9_run Hk) as H.
  apply (f_equal (@length nat)) in H. rewrite map_length, seq_length in H. cbn [length] in H.
  injection H as <-. exact Hk.
Qed.

(* generators that all fix the trailing position (one chunk only): the engine now handles them
   (before fix 40d8e7d: IndexError at the first step) *)
Example ex_xy9_run : bitmask_bfs 9 ex_xy9 3 = Ok [1; 2; 2; 1].
Proof. vm_compute. reflexivity. Qed.

Example ex_xy9_total : exists sizes, bitmask_bfs_from 9 ex_xy9 (identity_perm 9) 1000 = Ok sizes.
Proof. exact (bitmask_bfs_from_total 9 ex_xy9 (identity_perm 9) ex_xy9_valid 1000). Qed.

Example ex_xy9_depth0 : bitmask_bfs 9 ex_xy9 0 = Ok [1].
Proof. vm_compute. reflexivity. Qed.

(* input assertions *)
Example ex_assert_n8 : bitmask_bfs 8 [[1; 0; 2; 3; 4; 5; 6; 7]] 3 = Err AssertionErr.
Proof. vm_compute. reflexivity. Qed.
Example ex_assert_not_perm : bitmask_bfs 9 [[1; 1; 2; 3; 4; 5; 6; 7; 8]] 3 = Err AssertionErr.
Proof. vm_compute. reflexivity. Qed.

(* the invariant is inhabited: the state after the initial paint + flush *)
Example ex_Inv0 :
  Inv 9 ex_lrx9 (identity_perm 9) 0 (flush (map (paint_all [identity_perm 9]) (init_chunks 9))).
Proof.
  destruct ex_lrx9_valid as (_ & Hall & Hn & Hs).
  exact (proj2 (init_inv 9 ex_lrx9 (identity_perm 9) (Nat.lt_le_incl _ _ Hn) Hs)).
Qed.

(* hypotheses of paint_gray_eq on the fresh chunk list, and both outcomes *)
Example ex_paint_gray_hyps :
  NoDup (map c_suffix (init_chunks 9)) /\
  (forall q, In q [ex_L9; ex_X9] -> In (skipn RR q) (map c_suffix (init_chunks 9))).
Proof.
  split; [rewrite init_chunks_suffix; apply suffixes_NoDup|].
  intros q [<- | [<- | []]]; vm_compute; tauto.
Qed.

Example ex_bad_call : bad_call [] = true /\ bad_call [ex_L9; ex_X9] = false /\
                      bad_call [ex_X9] = false /\ bad_call [ex_X9; ex_X9] = false.
Proof. repeat split; reflexivity. Qed.
