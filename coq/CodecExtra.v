(** Automatic code width (CayleyGraph.__init__) and path application as a fold. *)
From Coq Require Import ZArith List Bool Arith Lia.
From V Require Import Base W64 Codec Perm.
Import ListNotations.
Open Scope Z_scope.

(* max(1, int(math.ceil(math.log2(max_value + 1)))) *)
Definition auto_width_fixed (mx : Z) : nat := Nat.max 1 (Z.to_nat (Z.log2_up (mx + 1))).

Theorem auto_width_spec mx : 0 <= mx ->
  let w := auto_width_fixed mx in
  (1 <= w)%nat /\ mx < 2 ^ Z.of_nat w /\ (forall w', (1 <= w')%nat -> mx < 2 ^ Z.of_nat w' -> (w <= w')%nat).
Proof.
  intros Hmx w. unfold w, auto_width_fixed. split; [lia|].
  destruct (Z.eq_dec mx 0) as [->|Hne].
  - simpl. split; [lia|]. intros w' Hw' _. lia.
  - assert (1 < mx + 1) as H1 by lia.
    pose proof (Z.log2_up_spec (mx + 1) H1) as [Hlo Hhi].
    pose proof (Z.log2_up_pos (mx + 1) H1) as Hpos.
    split.
    + apply Z.lt_le_trans with (2 ^ Z.log2_up (mx + 1)); [lia|].
      apply Z.pow_le_mono_r; lia.
    + intros w' Hw' Hlt.
      assert (Z.log2_up (mx + 1) <= Z.of_nat w') as Hle.
      { apply Z.log2_up_le_pow2; lia. }
      lia.
Qed.

(* apply_path: generators applied in order = left fold of single actions *)
Definition apply_path {A} (acts : list (A -> A)) (s : A) (path : list nat) : result A :=
  fold_left (fun r i => do x <- r; match nth_error acts i with Some g => Ok (g x) | None => Err AssertionErr end) path (Ok s).

Lemma apply_path_app {A} (acts : list (A -> A)) s p q :
  apply_path acts s (p ++ q) = match apply_path acts s p with Ok m => apply_path acts m q
                                | Err e => fold_left (fun r i => do x <- r; match nth_error acts i with Some g => Ok (g x) | None => Err AssertionErr end) q (Err e) end.
Proof. unfold apply_path. rewrite fold_left_app. destruct (fold_left _ p (Ok s)); reflexivity. Qed.

Lemma apply_path_cons {A} (acts : list (A -> A)) s i p g :
  nth_error acts i = Some g -> apply_path acts s (i :: p) = apply_path acts (g s) p.
Proof. intros H. unfold apply_path. simpl. rewrite H. reflexivity. Qed.
