(** General-n theorems for [Perm.perms_with_cycle_lengths] (model of
    cayleypy/permutation_utils.py [permutations_with_cycle_lenghts]): for EVERY n >= 1 and EVERY list
    [lens] of positive cycle lengths summing to n, IN ANY ORDER (the model, like the Python, only
    looks at Counter(lens)), the result
      (1) consists of permutations of n points whose cycle type is [lens] (soundness),
      (2) has no duplicates,
      (3) contains every permutation of n points of that cycle type (completeness),
    and the fuel [length lens] of the backtracking generator is never exhausted (the result is the
    same for every larger fuel).  "Cycle type" is stated twice: with the reference function
    [Perm.cycle_type], and with explicit cycle decompositions ([ClassEnumCycles.CycleDecomp]).
    (4), the count formula |result| * prod_k (k^(m_k) m_k!) = n!, is in ClassEnumCount.v; the
    [conjugacy_classes] family built on this function is in ConjugacyClassesGeneral.v. *)
From Coq Require Import ZArith List Bool Arith Lia Sorting.Mergesort Sorting.Permutation Sorting.Sorted.
From V Require Import Base Perm PermProofs PermCycles BitmaskProofs PermEnum ClassEnumCycles.
Import ListNotations.

(* ------------------------------------------------------------------------------------------- *)
(** * generic *)

Lemma NoDup_flat_map_disj {A B} (f : A -> list B) l :
  NoDup l -> (forall a, In a l -> NoDup (f a)) ->
  (forall a b x, In a l -> In b l -> In x (f a) -> In x (f b) -> a = b) ->
  NoDup (flat_map f l).
Proof.
  induction l as [|a t IH]; intros ND Hf Hd; cbn [flat_map]; [constructor|].
  inversion ND as [|? ? Hna NDt]; subst. apply NoDup_app_intro.
  - apply Hf. left. reflexivity.
  - apply IH; auto.
    + intros b Hb. apply Hf. right. exact Hb.
    + intros b c x Hb Hc. apply Hd; right; assumption.
  - intros x H1 H2. apply in_flat_map in H2 as (b & Hb & Hxb).
    assert (a = b) as -> by (apply (Hd a b x); simpl; auto). contradiction.
Qed.

Lemma flat_map_ext_in {A B} (f g : A -> list B) l :
  (forall a, In a l -> f a = g a) -> flat_map f l = flat_map g l.
Proof.
  induction l as [|a t IH]; intros H; cbn [flat_map]; [reflexivity|].
  rewrite H by (left; reflexivity). rewrite IH; [reflexivity|]. intros b Hb. apply H. right. exact Hb.
Qed.

(* ------------------------------------------------------------------------------------------- *)
(** * itertools.combinations of a sorted list *)

Lemma combs_0 {A} (l : list A) : combs 0 l = [[]].
Proof. destruct l; reflexivity. Qed.

Lemma combs_incl {A} : forall (l : list A) k c, In c (combs k l) -> incl c l.
Proof.
  induction l as [|x t IH]; intros k c H; destruct k as [|k]; cbn [combs] in H.
  - destruct H as [<-|[]]. intros y [].
  - destruct H.
  - destruct H as [<-|[]]. intros y [].
  - apply in_app_or in H as [H|H].
    + apply in_map_iff in H as (c' & <- & Hc'). apply IH in Hc'.
      intros y [<-|Hy]; [left; reflexivity|right; apply Hc'; exact Hy].
    + apply IH in H. intros y Hy. right. apply H. exact Hy.
Qed.

Lemma combs_length {A} : forall (l : list A) k c, In c (combs k l) -> length c = k.
Proof.
  induction l as [|x t IH]; intros k c H; destruct k as [|k]; cbn [combs] in H.
  - destruct H as [<-|[]]. reflexivity.
  - destruct H.
  - destruct H as [<-|[]]. reflexivity.
  - apply in_app_or in H as [H|H].
    + apply in_map_iff in H as (c' & <- & Hc'). cbn [length]. f_equal. apply (IH _ _ Hc').
    + apply (IH _ _ H).
Qed.

Lemma combs_sorted : forall l k c, StronglySorted lt l -> In c (combs k l) -> StronglySorted lt c.
Proof.
  induction l as [|x t IH]; intros k c S H; destruct k as [|k]; cbn [combs] in H.
  - destruct H as [<-|[]]. constructor.
  - destruct H.
  - destruct H as [<-|[]]. constructor.
  - inversion S as [|? ? St Ft]; subst. apply in_app_or in H as [H|H].
    + apply in_map_iff in H as (c' & <- & Hc'). constructor; [apply (IH _ _ St Hc')|].
      apply Forall_forall. intros y Hy. rewrite Forall_forall in Ft. apply Ft.
      apply (combs_incl _ _ _ Hc'). exact Hy.
    + apply (IH _ _ St H).
Qed.

Lemma combs_complete : forall l c, StronglySorted lt l -> StronglySorted lt c -> incl c l ->
  In c (combs (length c) l).
Proof.
  induction l as [|x t IH]; intros c Sl Sc Hincl.
  - destruct c as [|y c']; [left; reflexivity|]. destruct (Hincl y (or_introl eq_refl)).
  - destruct c as [|y c']; [rewrite combs_0; left; reflexivity|].
    cbn [length combs]. inversion Sl as [|? ? St Ft]; subst. inversion Sc as [|? ? Sc' Fc']; subst.
    rewrite Forall_forall in Ft, Fc'.
    destruct (Hincl y (or_introl eq_refl)) as [<-|Hy].
    + apply in_or_app. left. apply in_map. apply IH; auto.
      intros z Hz. destruct (Hincl z (or_intror Hz)) as [<-|Hzt]; [|exact Hzt].
      specialize (Fc' _ Hz). lia.
    + apply in_or_app. right. apply (IH (y :: c')); auto.
      intros z [<-|Hz]; [exact Hy|].
      destruct (Hincl z (or_intror Hz)) as [<-|Hzt]; [|exact Hzt].
      specialize (Fc' _ Hz). specialize (Ft _ Hy). lia.
Qed.

Lemma combs_NoDup {A} : forall (l : list A) k, NoDup l -> NoDup (combs k l).
Proof.
  induction l as [|x t IH]; intros k ND; destruct k as [|k]; cbn [combs].
  - constructor; [intros []|constructor].
  - constructor.
  - constructor; [intros []|constructor].
  - inversion ND as [|? ? Hnx NDt]; subst. apply NoDup_app_intro.
    + apply NoDup_map_inj; [apply IH; exact NDt|]. intros a b _ _ E. inversion E. reflexivity.
    + apply IH. exact NDt.
    + intros c H1 H2. apply in_map_iff in H1 as (c' & <- & _).
      apply combs_incl in H2. apply Hnx. apply H2. left. reflexivity.
Qed.

Lemma remove_all_In xs l y : In y (remove_all xs l) <-> In y l /\ ~ In y xs.
Proof.
  unfold remove_all. rewrite filter_In. rewrite negb_true_iff, existsb_eqb_false. tauto.
Qed.

Lemma remove_all_sorted xs l : StronglySorted lt l -> StronglySorted lt (remove_all xs l).
Proof. apply StronglySorted_filter. Qed.

(* ------------------------------------------------------------------------------------------- *)
(** * Counter(cycle_lengths) *)

Definition expand (cnt : list (nat * nat)) : list nat :=
  flat_map (fun km => repeat (fst km) (snd km)) cnt.
Definition keys_sorted (cnt : list (nat * nat)) : Prop := StronglySorted lt (map fst cnt).
Definition mult_ok (cnt : list (nat * nat)) : Prop := Forall (fun km => 1 <= snd km) cnt.

Lemma counter_add_keys k c x : In x (map fst (counter_add k c)) <-> x = k \/ In x (map fst c).
Proof.
  induction c as [|[k' m] t IH]; cbn [counter_add map fst In].
  - intuition.
  - destruct (Nat.eqb_spec k k') as [->|Hne]; [cbn [map fst In]; intuition|].
    destruct (k <? k'); cbn [map fst In]; [intuition|]. rewrite IH. intuition.
Qed.

Lemma counter_add_sorted k c : keys_sorted c -> keys_sorted (counter_add k c).
Proof.
  unfold keys_sorted. induction c as [|[k' m] t IH]; intros S; cbn [counter_add map fst].
  - constructor; constructor.
  - destruct (Nat.eqb_spec k k') as [->|Hne]; [exact S|].
    destruct (Nat.ltb_spec k k') as [Hlt|Hge].
    + cbn [map fst]. constructor; [exact S|]. cbn [map fst] in S.
      inversion S as [|? ? St Ft]; subst. constructor; [exact Hlt|].
      eapply Forall_impl; [|exact Ft]. intros b Hb. lia.
    + cbn [map fst] in *. inversion S as [|? ? St Ft]; subst. constructor; [apply IH; exact St|].
      apply Forall_forall. intros x Hx. apply counter_add_keys in Hx as [->|Hx]; [lia|].
      rewrite Forall_forall in Ft. apply Ft. exact Hx.
Qed.

Lemma counter_add_mult k c : mult_ok c -> mult_ok (counter_add k c).
Proof.
  unfold mult_ok. induction c as [|[k' m] t IH]; intros M; cbn [counter_add].
  - constructor; [cbn; lia|constructor].
  - inversion M as [|? ? Mh Mt]; subst. cbn [snd] in Mh.
    destruct (k =? k'); [constructor; [cbn; lia|exact Mt]|].
    destruct (k <? k'); [constructor; [cbn; lia|exact M]|].
    constructor; [exact Mh|apply IH; exact Mt].
Qed.

Lemma counter_add_expand k c : Permutation (expand (counter_add k c)) (k :: expand c).
Proof.
  unfold expand. induction c as [|[k' m] t IH]; cbn [counter_add flat_map fst snd].
  - cbn. reflexivity.
  - destruct (Nat.eqb_spec k k') as [->|Hne]; [cbn [flat_map fst snd repeat app]; reflexivity|].
    destruct (k <? k'); [cbn [flat_map fst snd repeat app]; reflexivity|].
    cbn [flat_map fst snd]. rewrite IH. symmetry. apply Permutation_middle.
Qed.

Lemma counter_of_sorted l : keys_sorted (counter_of l).
Proof. induction l as [|k l IH]; cbn [counter_of fold_right]; [constructor|apply counter_add_sorted; exact IH]. Qed.
Lemma counter_of_mult l : mult_ok (counter_of l).
Proof. induction l as [|k l IH]; cbn [counter_of fold_right]; [constructor|apply counter_add_mult; exact IH]. Qed.
Lemma counter_of_expand l : Permutation (expand (counter_of l)) l.
Proof.
  induction l as [|k l IH]; cbn [counter_of fold_right]; [reflexivity|].
  fold (counter_of l). rewrite counter_add_expand. constructor. exact IH.
Qed.

Lemma counter_dec_keys k c x : In x (map fst (counter_dec k c)) -> In x (map fst c).
Proof.
  induction c as [|[k' m] t IH]; cbn [counter_dec map fst In]; [auto|].
  destruct (k =? k').
  - destruct (m =? 1); cbn [map fst In]; intuition.
  - cbn [map fst In]. intuition.
Qed.

Lemma counter_dec_sorted k c : keys_sorted c -> keys_sorted (counter_dec k c).
Proof.
  unfold keys_sorted. induction c as [|[k' m] t IH]; intros S; cbn [counter_dec]; [exact S|].
  cbn [map fst] in S. inversion S as [|? ? St Ft]; subst.
  destruct (k =? k').
  - destruct (m =? 1); [exact St|exact S].
  - cbn [map fst]. constructor; [apply IH; exact St|].
    apply Forall_forall. intros x Hx. apply counter_dec_keys in Hx.
    rewrite Forall_forall in Ft. apply Ft. exact Hx.
Qed.

Lemma counter_dec_mult k c : mult_ok c -> mult_ok (counter_dec k c).
Proof.
  unfold mult_ok. induction c as [|[k' m] t IH]; intros M; cbn [counter_dec]; [exact M|].
  inversion M as [|? ? Mh Mt]; subst. cbn [snd] in Mh.
  destruct (k =? k').
  - destruct (Nat.eqb_spec m 1); [exact Mt|]. constructor; [cbn; lia|exact Mt].
  - constructor; [exact Mh|apply IH; exact Mt].
Qed.

Lemma counter_dec_expand k c : mult_ok c -> In k (map fst c) ->
  Permutation (expand c) (k :: expand (counter_dec k c)).
Proof.
  unfold expand, mult_ok. induction c as [|[k' m] t IH]; intros M Hk; [destruct Hk|].
  inversion M as [|? ? Mh Mt]; subst. cbn [snd] in Mh.
  cbn [counter_dec flat_map fst snd].
  destruct (Nat.eqb_spec k k') as [->|Hne].
  - destruct (Nat.eqb_spec m 1) as [->|Hm1].
    + cbn [repeat app]. reflexivity.
    + cbn [flat_map fst snd]. destruct m as [|m']; [lia|]. cbn [repeat app].
      replace (S m' - 1) with m' by lia. reflexivity.
  - cbn [flat_map fst snd]. cbn [map fst In] in Hk. destruct Hk as [E|Hk]; [congruence|].
    rewrite (IH Mt Hk). symmetry. apply Permutation_middle.
Qed.

Lemma expand_In_keys k c : In k (expand c) -> In k (map fst c).
Proof.
  unfold expand. intros H. apply in_flat_map in H as ([k' m] & Hin & Hr).
  cbn [fst snd] in Hr. apply repeat_spec in Hr. subst. apply in_map_iff. exists (k', m). auto.
Qed.

Lemma expand_nil c : mult_ok c -> expand c = [] -> c = [].
Proof.
  destruct c as [|[k m] t]; [reflexivity|]. intros M E. inversion M as [|? ? Mh _]; subst.
  cbn [snd] in Mh. unfold expand in E. cbn [flat_map fst snd] in E.
  destruct m as [|m]; [lia|]. discriminate.
Qed.

(* ------------------------------------------------------------------------------------------- *)
(** * the generator, one level at a time *)

Definition bt_comb (f : nat) (last : Z) (avail : list nat) (cnt' : list (nat * nat)) (comb : list nat)
  : list (list (list nat)) :=
  match comb with
  | [] => []
  | m :: rest =>
      if (Z.of_nat m <=? last)%Z then []
      else flat_map (fun order =>
             let cyc := m :: order in
             map (cons cyc) (backtrack f (Z.of_nat m) (remove_all cyc avail) cnt'))
           (perms rest)
  end.

Definition bt_body (f : nat) (last : Z) (avail : list nat) (cnt : list (nat * nat)) (k : nat) :=
  flat_map (bt_comb f last avail (counter_dec k cnt)) (combs k avail).

Lemma backtrack_S f last avail cnt : cnt <> [] ->
  backtrack (S f) last avail cnt = flat_map (bt_body f last avail cnt) (map fst cnt).
Proof. destruct cnt; [congruence|reflexivity]. Qed.

Lemma backtrack_nil fuel last avail :
  backtrack fuel last avail [] = match avail with [] => [[]] | _ => [] end.
Proof. destruct fuel; reflexivity. Qed.

Lemma backtrack_O last avail cnt : cnt <> [] -> backtrack 0 last avail cnt = [].
Proof. destruct cnt; [congruence|reflexivity]. Qed.

Lemma bt_comb_In f last avail cnt' comb x :
  In x (bt_comb f last avail cnt' comb) <->
  exists m rest order tail, comb = m :: rest /\ (last < Z.of_nat m)%Z /\ Permutation rest order /\
    In tail (backtrack f (Z.of_nat m) (remove_all (m :: order) avail) cnt') /\
    x = (m :: order) :: tail.
Proof.
  unfold bt_comb. destruct comb as [|m rest].
  - split; [intros []|]. intros (m & rest & order & tail & E & _). discriminate.
  - destruct (Z.leb_spec (Z.of_nat m) last) as [Hle|Hlt].
    + split; [intros []|]. intros (m' & rest' & order & tail & E & Hl & _). inversion E; subst. lia.
    + rewrite in_flat_map. split.
      * intros (order & Ho & Hx). cbv zeta in Hx. apply in_map_iff in Hx as (tail & <- & Ht).
        apply perms_In_iff in Ho. exists m, rest, order, tail. auto.
      * intros (m' & rest' & order & tail & E & Hl & HP & Ht & ->). inversion E; subst.
        exists order. split; [apply perms_In_iff; exact HP|]. cbv zeta. apply in_map. exact Ht.
Qed.

Lemma bt_body_In f last avail cnt k x :
  In x (bt_body f last avail cnt k) <->
  exists m rest order tail, In (m :: rest) (combs k avail) /\ (last < Z.of_nat m)%Z /\
    Permutation rest order /\
    In tail (backtrack f (Z.of_nat m) (remove_all (m :: order) avail) (counter_dec k cnt)) /\
    x = (m :: order) :: tail.
Proof.
  unfold bt_body. rewrite in_flat_map. split.
  - intros (comb & Hc & Hx). apply bt_comb_In in Hx as (m & rest & order & tail & -> & H).
    exists m, rest, order, tail. tauto.
  - intros (m & rest & order & tail & Hc & H). exists (m :: rest). split; [exact Hc|].
    apply bt_comb_In. exists m, rest, order, tail. tauto.
Qed.

(* ------------------------------------------------------------------------------------------- *)
(** * what the generator yields *)

(* lists of cycles over [avail] in canonical form with length multiset [cnt] *)
Definition BT (last : Z) (avail : list nat) (cnt : list (nat * nat)) (cs : list (list nat)) : Prop :=
  NoDup (concat cs) /\ (forall y, In y (concat cs) <-> In y avail) /\
  Forall head_min cs /\ heads_incr last cs /\ Permutation (map (@length nat) cs) (expand cnt).

Lemma backtrack_sound : forall fuel last avail cnt cs,
  StronglySorted lt avail -> mult_ok cnt ->
  In cs (backtrack fuel last avail cnt) -> BT last avail cnt cs.
Proof.
  induction fuel as [|f IH]; intros last avail cnt cs Sa M Hin.
  - destruct cnt as [|e c]; [|rewrite backtrack_O in Hin by discriminate; destruct Hin].
    rewrite backtrack_nil in Hin. destruct avail as [|a t]; [|destruct Hin].
    destruct Hin as [<-|[]]. unfold BT. cbn. repeat split; auto; constructor.
  - destruct cnt as [|e c].
    { rewrite backtrack_nil in Hin. destruct avail as [|a t]; [|destruct Hin].
      destruct Hin as [<-|[]]. unfold BT. cbn. repeat split; auto; constructor. }
    rewrite backtrack_S in Hin by discriminate. set (cnt := e :: c) in *.
    apply in_flat_map in Hin as (k & Hk & Hin).
    apply bt_body_In in Hin as (m & rest & order & tail & Hc & Hl & HP & Ht & ->).
    pose proof (combs_sorted _ _ _ Sa Hc) as Sc.
    pose proof (combs_incl _ _ _ Hc) as Ic.
    pose proof (combs_length _ _ _ Hc) as Lc.
    assert (Permutation (m :: rest) (m :: order)) as HPc by (constructor; exact HP).
    destruct (IH _ _ _ _ (remove_all_sorted (m :: order) avail Sa) (counter_dec_mult k cnt M) Ht)
      as (T1 & T2 & T3 & T4 & T5).
    unfold BT. cbn [concat map heads_incr]. split; [|split; [|split; [|split]]].
    + apply NoDup_app_intro; auto.
      * eapply Permutation_NoDup; [exact HPc|apply sorted_lt_NoDup; exact Sc].
      * intros y H1 H2. apply T2 in H2. apply remove_all_In in H2 as [_ H2]. contradiction.
    + intros y. rewrite in_app_iff, T2, remove_all_In. split.
      * intros [H|[H _]]; [|exact H]. apply Ic. eapply Permutation_in; [symmetry; exact HPc|exact H].
      * intros H. destruct (in_dec Nat.eq_dec y (m :: order)); [left|right]; auto.
    + constructor; [|exact T3]. cbn [head_min]. inversion Sc as [|? ? _ Fr]; subst.
      apply Forall_forall. intros y Hy. rewrite Forall_forall in Fr. apply Fr.
      eapply Permutation_in; [symmetry; exact HP|exact Hy].
    + split; [exact Hl|exact T4].
    + rewrite (counter_dec_expand k cnt M Hk). rewrite <- (Permutation_length HPc), Lc.
      constructor. exact T5.
Qed.

Lemma backtrack_complete : forall cs fuel last avail cnt,
  StronglySorted lt avail -> mult_ok cnt -> BT last avail cnt cs -> length cs <= fuel ->
  In cs (backtrack fuel last avail cnt).
Proof.
  induction cs as [|c t IH]; intros fuel last avail cnt Sa M (B1 & B2 & B3 & B4 & B5) Hf.
  - cbn [map] in B5. apply Permutation_nil in B5. apply expand_nil in B5; [|exact M]. subst cnt.
    rewrite backtrack_nil. destruct avail as [|a l]; [left; reflexivity|].
    exfalso. apply (proj2 (B2 a)). left. reflexivity.
  - cbn [length] in Hf. destruct fuel as [|f]; [lia|].
    cbn [concat map heads_incr] in *. inversion B3 as [|? ? Hm B3']; subst.
    destruct c as [|m order]; [destruct Hm|]. destruct B4 as [Hl B4]. cbn [head_min] in Hm.
    set (c := m :: order) in *. set (k := length c) in *.
    assert (In k (map fst cnt)) as Hk.
    { apply expand_In_keys. eapply Permutation_in; [exact B5|left; reflexivity]. }
    assert (cnt <> []) as Hne by (intros ->; destruct Hk).
    rewrite backtrack_S by exact Hne. apply in_flat_map. exists k. split; [exact Hk|].
    assert (NoDup c) as NDc by (eapply NoDup_app_l; exact B1).
    assert (incl c avail) as Ic by (intros y Hy; apply B2; apply in_or_app; left; exact Hy).
    (* the sorted version of the cycle is the combination that was chosen *)
    set (comb := filter (fun a => existsb (Nat.eqb a) c) avail).
    assert (StronglySorted lt comb) as Scomb by (apply StronglySorted_filter; exact Sa).
    assert (Permutation comb c) as Pcomb.
    { apply NoDup_Permutation; [apply sorted_lt_NoDup; exact Scomb|exact NDc|].
      intros y. unfold comb. rewrite filter_In, existsb_eqb_In. split; [tauto|]. intros H. split; auto. }
    assert (In comb (combs k avail)) as Hcomb.
    { unfold k. rewrite <- (Permutation_length Pcomb). apply combs_complete; auto.
      intros y Hy. unfold comb in Hy. apply filter_In in Hy. tauto. }
    destruct comb as [|m' rest] eqn:Ecomb.
    { apply Permutation_length in Pcomb. discriminate. }
    assert (m' = m) as ->.
    { inversion Scomb as [|? ? _ Fr]; subst. rewrite Forall_forall in Fr, Hm.
      assert (In m' c) as H1 by (eapply Permutation_in; [exact Pcomb|left; reflexivity]).
      assert (In m (m' :: rest)) as H2 by (eapply Permutation_in; [symmetry; exact Pcomb|left; reflexivity]).
      destruct H1 as [H1|H1]; [auto|]. destruct H2 as [H2|H2]; [auto|].
      specialize (Fr _ H2). specialize (Hm _ H1). lia. }
    apply bt_body_In. exists m, rest, order, t. split; [exact Hcomb|]. split; [exact Hl|].
    split; [eapply Permutation_cons_inv; exact Pcomb|]. split; [|reflexivity].
    apply IH; [apply remove_all_sorted; exact Sa|apply counter_dec_mult; exact M| |lia].
    unfold BT. split; [eapply NoDup_app_r; exact B1|]. split; [|split; [exact B3'|split; [exact B4|]]].
    + intros y. rewrite remove_all_In. split.
      * intros Hy. split; [apply B2; apply in_or_app; right; exact Hy|].
        intros Hc. eapply NoDup_app_disj; [exact B1|exact Hc|exact Hy].
      * intros [H1 H2]. apply B2 in H1. apply in_app_or in H1 as [H1|H1]; [contradiction|exact H1].
    + rewrite (counter_dec_expand k cnt M Hk) in B5. eapply Permutation_cons_inv. exact B5.
Qed.

Lemma backtrack_NoDup : forall fuel last avail cnt,
  StronglySorted lt avail -> keys_sorted cnt -> NoDup (backtrack fuel last avail cnt).
Proof.
  induction fuel as [|f IH]; intros last avail cnt Sa Sk.
  - destruct cnt as [|e c]; [|rewrite backtrack_O by discriminate; constructor].
    rewrite backtrack_nil. destruct avail; [constructor; [intros []|constructor]|constructor].
  - destruct cnt as [|e c].
    { rewrite backtrack_nil. destruct avail; [constructor; [intros []|constructor]|constructor]. }
    rewrite backtrack_S by discriminate. set (cnt := e :: c) in *.
    apply NoDup_flat_map_disj.
    + apply sorted_lt_NoDup. exact Sk.
    + intros k Hk. unfold bt_body. apply NoDup_flat_map_disj.
      * apply combs_NoDup. apply sorted_lt_NoDup. exact Sa.
      * intros comb Hcomb. unfold bt_comb. destruct comb as [|m rest]; [constructor|].
        destruct (Z.of_nat m <=? last)%Z; [constructor|].
        pose proof (sorted_lt_NoDup _ (combs_sorted _ _ _ Sa Hcomb)) as NDc.
        inversion NDc as [|? ? _ NDr]; subst.
        apply NoDup_flat_map_disj.
        -- apply perms_NoDup. exact NDr.
        -- intros order _. cbv zeta. apply NoDup_map_inj.
           ++ apply IH; [apply remove_all_sorted; exact Sa|apply counter_dec_sorted; exact Sk].
           ++ intros a b _ _ E. inversion E. reflexivity.
        -- intros o1 o2 x _ _ H1 H2. cbv zeta in H1, H2.
           apply in_map_iff in H1 as (t1 & <- & _). apply in_map_iff in H2 as (t2 & E & _).
           inversion E. reflexivity.
      * intros c1 c2 x Hc1 Hc2 H1 H2.
        apply bt_comb_In in H1 as (m1 & r1 & o1 & t1 & -> & _ & P1 & _ & ->).
        apply bt_comb_In in H2 as (m2 & r2 & o2 & t2 & -> & _ & P2 & _ & E).
        inversion E; subst. apply sorted_lt_perm_unique.
        -- apply (combs_sorted _ _ _ Sa Hc1).
        -- apply (combs_sorted _ _ _ Sa Hc2).
        -- constructor. rewrite P1, P2. reflexivity.
    + intros k1 k2 x _ _ H1 H2.
      apply bt_body_In in H1 as (m1 & r1 & o1 & t1 & Hc1 & _ & P1 & _ & ->).
      apply bt_body_In in H2 as (m2 & r2 & o2 & t2 & Hc2 & _ & P2 & _ & E).
      inversion E; subst. apply combs_length in Hc1, Hc2. cbn [length] in *.
      rewrite <- Hc1, <- Hc2. f_equal. rewrite (Permutation_length P1), (Permutation_length P2). reflexivity.
Qed.

(* the fuel only has to cover the number of cycles still to place *)
Lemma backtrack_fuel : forall f1 f2 last avail cnt, mult_ok cnt ->
  length (expand cnt) <= f1 -> length (expand cnt) <= f2 ->
  backtrack f1 last avail cnt = backtrack f2 last avail cnt.
Proof.
  induction f1 as [|f1 IH]; intros f2 last avail cnt M H1 H2.
  - destruct (expand cnt) eqn:E; [|cbn [length] in H1; lia].
    apply expand_nil in E; [|exact M]. subst. rewrite !backtrack_nil. reflexivity.
  - destruct cnt as [|e c]; [rewrite !backtrack_nil; reflexivity|].
    set (cnt := e :: c) in *.
    destruct f2 as [|f2].
    { destruct (expand cnt) eqn:E; [|cbn [length] in H2; lia].
      apply expand_nil in E; [discriminate|exact M]. }
    rewrite !backtrack_S by discriminate. apply flat_map_ext_in. intros k Hk.
    pose proof (Permutation_length (counter_dec_expand k cnt M Hk)) as HL. cbn [length] in HL.
    unfold bt_body. apply flat_map_ext. intros comb. unfold bt_comb.
    destruct comb as [|m rest]; [reflexivity|]. destruct (Z.of_nat m <=? last)%Z; [reflexivity|].
    apply flat_map_ext. intros order. cbv zeta. f_equal.
    apply IH; [apply counter_dec_mult; exact M|lia|lia].
Qed.

(* ------------------------------------------------------------------------------------------- *)
(** * from cycle lists to one-line permutations *)

Lemma perm_of_cycles_write n cs : perm_of_cycles n cs = write_cycles cs (seq 0 n).
Proof. reflexivity. Qed.

Lemma in_seq0 n y : In y (seq 0 n) <-> y < n.
Proof. rewrite in_seq. lia. Qed.

(* the permutation written from a canonical cycle list has exactly that canonical decomposition *)
Lemma perm_of_cycles_canon n cnt cs : BT (-1) (seq 0 n) cnt cs ->
  let q := perm_of_cycles n cs in
  length q = n /\ Perm q /\ Canon q cs.
Proof.
  intros (B1 & B2 & B3 & B4 & B5). cbv zeta. rewrite perm_of_cycles_write.
  destruct (write_cycles_spec cs (seq 0 n) B1) as (L & S & U).
  { intros x Hx. rewrite seq_length. apply in_seq0. apply B2. exact Hx. }
  cbv zeta in L, S, U. rewrite seq_length in L.
  set (q := write_cycles cs (seq 0 n)) in *.
  split; [exact L|]. split.
  - apply (cycles_Perm q n cs); auto.
    + intros x Hx. apply in_seq0. apply B2. exact Hx.
    + intros x Hx Hn. exfalso. apply Hn. apply B2. apply in_seq0. exact Hx.
  - split; auto.
    + intros y. rewrite L, B2. apply in_seq0.
    + apply Forall_forall. intros c Hc i Hi. apply S; assumption.
Qed.

(* a permutation is determined by any of its cycle decompositions *)
Lemma perm_of_cycles_decomp q cs : CycleDecomp q cs -> perm_of_cycles (length q) cs = q.
Proof.
  intros [ND Hcov HNE HF]. rewrite perm_of_cycles_write.
  destruct (write_cycles_spec cs (seq 0 (length q)) ND) as (L & S & U).
  { intros x Hx. rewrite seq_length. apply Hcov. exact Hx. }
  cbv zeta in L, S, U. rewrite seq_length in L.
  apply nth_ext' with (d := 0); [exact L|]. rewrite L. intros y Hy.
  apply Hcov in Hy. apply in_concat in Hy as (c & Hc & Hyc).
  apply In_nth with (d := 0) in Hyc as (i & Hi & <-).
  rewrite (S c i Hc Hi). rewrite Forall_forall in HF. symmetry. apply (HF c Hc i Hi).
Qed.

Lemma CycleDecomp_Perm q cs : CycleDecomp q cs -> Perm q.
Proof.
  intros [ND Hcov HNE HF]. apply (cycles_Perm q (length q) cs); auto.
  - intros x Hx. apply Hcov. exact Hx.
  - intros c i Hc Hi. rewrite Forall_forall in HF. apply (HF c Hc i Hi).
  - intros x Hx Hn. exfalso. apply Hn. apply Hcov. exact Hx.
Qed.

(* ------------------------------------------------------------------------------------------- *)
(** * the main theorems *)

Definition sum_list (l : list nat) : nat := fold_right Nat.add 0 l.

(* the three guards of the Python function, in order *)
Theorem class_enum_result n lens :
  perms_with_cycle_lengths n lens =
    if negb (1 <=? n) then Err AssertionErr
    else if negb (forallb (fun k => 1 <=? k) lens) then Err AssertionErr
    else if negb (sum_list lens =? n) then Err ValueErr
    else Ok (map (perm_of_cycles n) (backtrack (length lens) (-1) (seq 0 n) (counter_of lens))).
Proof. reflexivity. Qed.

Theorem class_enum_Ok_iff n lens :
  (exists res, perms_with_cycle_lengths n lens = Ok res) <->
  1 <= n /\ Forall (fun k => 1 <= k) lens /\ sum_list lens = n.
Proof.
  rewrite class_enum_result.
  destruct (Nat.leb_spec 1 n) as [Hn|Hn]; cbn [negb].
  2: { split; [intros (res & E); discriminate|intros (H & _); lia]. }
  destruct (forallb (fun k => 1 <=? k) lens) eqn:Ef; cbn [negb].
  2: { split; [intros (res & E); discriminate|]. intros (_ & HF & _). exfalso.
       assert (forallb (fun k => 1 <=? k) lens = true); [|congruence].
       apply forallb_forall. rewrite Forall_forall in HF. intros x Hx. apply Nat.leb_le. apply HF. exact Hx. }
  assert (Forall (fun k => 1 <= k) lens) as HF.
  { apply Forall_forall. intros x Hx. rewrite forallb_forall in Ef. apply Nat.leb_le. apply Ef. exact Hx. }
  destruct (Nat.eqb_spec (sum_list lens) n) as [Hs|Hs]; cbn [negb].
  - split; [intros _; auto|]. intros _. eexists. reflexivity.
  - split; [intros (res & E); discriminate|]. intros (_ & _ & E). contradiction.
Qed.

Lemma class_enum_Ok_inv n lens res : perms_with_cycle_lengths n lens = Ok res ->
  1 <= n /\ Forall (fun k => 1 <= k) lens /\ sum_list lens = n /\
  res = map (perm_of_cycles n) (backtrack (length lens) (-1) (seq 0 n) (counter_of lens)).
Proof.
  intros E. destruct (proj1 (class_enum_Ok_iff n lens) (ex_intro _ res E)) as (H1 & H2 & H3).
  split; [exact H1|]. split; [exact H2|]. split; [exact H3|].
  rewrite class_enum_result in E.
  destruct (negb (1 <=? n)); [discriminate|].
  destruct (negb (forallb _ lens)); [discriminate|].
  destruct (negb (sum_list lens =? n)); [discriminate|]. inversion E. reflexivity.
Qed.

(** ** fuel: [length lens] is enough, i.e. any larger fuel gives the same enumeration, so the
    out-of-fuel branch of [backtrack] (which silently yields nothing) is never taken *)
Theorem class_enum_fuel_irrelevant n lens fuel : length lens <= fuel ->
  backtrack fuel (-1) (seq 0 n) (counter_of lens) =
  backtrack (length lens) (-1) (seq 0 n) (counter_of lens).
Proof.
  intros Hf. pose proof (Permutation_length (counter_of_expand lens)) as HL.
  apply backtrack_fuel; [apply counter_of_mult|lia|lia].
Qed.

(** ** the input order of [lens] does not matter *)
Lemma BT_perm_lens last avail l1 l2 cs : Permutation l1 l2 ->
  BT last avail (counter_of l1) cs -> BT last avail (counter_of l2) cs.
Proof.
  intros HP (B1 & B2 & B3 & B4 & B5). unfold BT. repeat (split; [assumption|]).
  rewrite B5, !counter_of_expand. exact HP.
Qed.

Section Main.
  Variables (n : nat) (lens : list nat) (res : list (list nat)).
  Hypothesis Hres : perms_with_cycle_lengths n lens = Ok res.

  Let cnt := counter_of lens.
  Let bt := backtrack (length lens) (-1) (seq 0 n) cnt.

  Lemma res_eq : res = map (perm_of_cycles n) bt.
  Proof. apply class_enum_Ok_inv in Hres. tauto. Qed.

  Lemma bt_BT cs : In cs bt <-> BT (-1) (seq 0 n) cnt cs.
  Proof.
    split.
    - apply backtrack_sound; [apply seq_strongly_sorted_lt|apply counter_of_mult].
    - intros H. apply backtrack_complete; auto; [apply seq_strongly_sorted_lt|apply counter_of_mult|].
      destruct H as (_ & _ & _ & _ & B5). apply Permutation_length in B5.
      rewrite map_length in B5. rewrite B5. unfold cnt.
      rewrite (Permutation_length (counter_of_expand lens)). lia.
  Qed.

  (** (1) soundness *)
  Theorem class_enum_sound q : In q res ->
    length q = n /\ Perm q /\ cycle_type q = NatSort.sort lens /\
    exists cs, CycleDecomp q cs /\ Permutation (map (@length nat) cs) lens.
  Proof.
    rewrite res_eq. intros Hin. apply in_map_iff in Hin as (cs & <- & Hcs).
    apply bt_BT in Hcs. destruct (perm_of_cycles_canon n cnt cs Hcs) as (L & HP & HC).
    cbv zeta in *. assert (Permutation (map (@length nat) cs) lens) as HL.
    { destruct Hcs as (_ & _ & _ & _ & B5). rewrite B5. apply counter_of_expand. }
    split; [exact L|]. split; [exact HP|]. split.
    - rewrite (cycle_type_of_decomp _ cs (Canon_decomp _ _ HC)). apply sort_perm_eq. exact HL.
    - exists cs. split; [apply Canon_decomp; exact HC|exact HL].
  Qed.

  (** (2) no duplicates *)
  Theorem class_enum_NoDup : NoDup res.
  Proof.
    rewrite res_eq. apply NoDup_map_inj.
    - apply backtrack_NoDup; [apply seq_strongly_sorted_lt|apply counter_of_sorted].
    - intros cs1 cs2 H1 H2 E. apply bt_BT in H1, H2.
      destruct (perm_of_cycles_canon n cnt cs1 H1) as (_ & _ & C1).
      destruct (perm_of_cycles_canon n cnt cs2 H2) as (_ & _ & C2).
      cbv zeta in *. rewrite <- (canon_unique _ _ C1), <- (canon_unique _ _ C2), E. reflexivity.
  Qed.

  (** (3) completeness, against the reference function [cycle_type] ... *)
  Theorem class_enum_complete q :
    length q = n -> Perm q -> cycle_type q = NatSort.sort lens -> In q res.
  Proof.
    intros L HP HT. rewrite res_eq. pose proof (orbits_canon q HP) as HC.
    apply in_map_iff. exists (orbits q). split.
    - rewrite <- L. apply perm_of_cycles_decomp. apply Canon_decomp. exact HC.
    - apply bt_BT. destruct HC as [C1 C2 C3 C4 C5]. unfold BT.
      split; [exact C1|]. split; [|split; [exact C4|split; [exact C5|]]].
      + intros y. rewrite C2, L. symmetry. apply in_seq0.
      + rewrite cycle_type_orbits in HT. apply sort_eq_perm in HT. rewrite HT.
        symmetry. apply counter_of_expand.
  Qed.

  (** ... and against explicit cycle decompositions (cycles in any order, any rotation) *)
  Theorem class_enum_complete_decomp q cs :
    length q = n -> CycleDecomp q cs -> Permutation (map (@length nat) cs) lens -> In q res.
  Proof.
    intros L HD HL. apply class_enum_complete; [exact L|eapply CycleDecomp_Perm; exact HD|].
    rewrite (cycle_type_of_decomp q cs HD). apply sort_perm_eq. exact HL.
  Qed.

  (** membership, in one statement *)
  Theorem class_enum_In_iff q :
    In q res <-> length q = n /\ Perm q /\ cycle_type q = NatSort.sort lens.
  Proof.
    split.
    - intros H. destruct (class_enum_sound q H) as (H1 & H2 & H3 & _). auto.
    - intros (H1 & H2 & H3). apply class_enum_complete; assumption.
  Qed.
End Main.

(* the result only depends on the multiset of lengths *)
Theorem class_enum_order_irrelevant n l1 l2 r1 r2 : Permutation l1 l2 ->
  perms_with_cycle_lengths n l1 = Ok r1 -> perms_with_cycle_lengths n l2 = Ok r2 ->
  forall q, In q r1 <-> In q r2.
Proof.
  intros HP H1 H2 q. rewrite (class_enum_In_iff n l1 r1 H1), (class_enum_In_iff n l2 r2 H2).
  rewrite (sort_perm_eq l1 l2 HP). reflexivity.
Qed.

(* ... in fact the two calls return the very same list: Counter(lens) forgets the order *)
Ltac break_cmp :=
  repeat (cbn [counter_add];
          match goal with
          | |- context [?x =? ?y] => destruct (Nat.eqb_spec x y); try lia; subst
          | |- context [?x <? ?y] => destruct (Nat.ltb_spec x y); try lia
          end).

Lemma counter_add_comm a b c : counter_add a (counter_add b c) = counter_add b (counter_add a c).
Proof. induction c as [|[k m] t IH]; break_cmp; try reflexivity. rewrite IH. reflexivity. Qed.

Lemma counter_of_perm l1 l2 : Permutation l1 l2 -> counter_of l1 = counter_of l2.
Proof.
  unfold counter_of. induction 1 as [|x l l' _ IH|x y l|l l' l'' _ IH1 _ IH2]; cbn [fold_right].
  - reflexivity.
  - rewrite IH. reflexivity.
  - apply counter_add_comm.
  - congruence.
Qed.

Theorem class_enum_order_irrelevant_eq n l1 l2 : Permutation l1 l2 ->
  perms_with_cycle_lengths n l1 = perms_with_cycle_lengths n l2.
Proof.
  intros HP. rewrite !class_enum_result.
  rewrite (counter_of_perm _ _ HP), (Permutation_length HP).
  assert (sum_list l1 = sum_list l2) as ->.
  { unfold sum_list. clear -HP. induction HP; cbn [fold_right]; lia. }
  assert (forallb (fun k => 1 <=? k) l1 = forallb (fun k => 1 <=? k) l2) as ->; [|reflexivity].
  clear -HP. induction HP as [|x l l' _ IH|x y l|l l' l'' _ IH1 _ IH2]; cbn [forallb].
  - reflexivity.
  - rewrite IH. reflexivity.
  - destruct (1 <=? x), (1 <=? y); reflexivity.
  - congruence.
Qed.

(* ------------------------------------------------------------------------------------------- *)
(** * the bounded checker of PermEnum.v / C20 succeeds for every n (the bound 6 removed) *)

Lemma memb_In q l : memb q l = true <-> In q l.
Proof.
  unfold memb. rewrite existsb_exists. split.
  - intros (x & Hx & E). apply list_eqb_nat_true in E. subst. exact Hx.
  - intros H. exists q. split; [exact H|apply list_eqb_nat_true; reflexivity].
Qed.

Lemma nodupb_NoDup l : NoDup l -> nodupb l = true.
Proof.
  induction 1 as [|a t Hn ND IH]; [reflexivity|]. cbn [nodupb]. rewrite IH, andb_true_r.
  apply negb_true_iff. destruct (memb a t) eqn:E; [|reflexivity]. apply memb_In in E. contradiction.
Qed.

Lemma has_type_iff lens q :
  has_type lens q = true <-> Perm q /\ cycle_type q = NatSort.sort lens.
Proof. unfold has_type. rewrite andb_true_iff, is_perm_iff, list_eqb_nat_true. reflexivity. Qed.

Theorem class_enumeration_exact n lens :
  1 <= n -> Forall (fun k => 1 <= k) lens -> sum_list lens = n -> class_ok n lens = true.
Proof.
  intros Hn HF Hs. destruct (proj2 (class_enum_Ok_iff n lens) (conj Hn (conj HF Hs))) as (res & Hres).
  unfold class_ok. rewrite Hres. rewrite !andb_true_iff. split; [split|].
  - apply nodupb_NoDup. apply (class_enum_NoDup n lens res Hres).
  - apply forallb_forall. intros q Hq.
    destruct (class_enum_sound n lens res Hres q Hq) as (L & HP & HT & _).
    rewrite andb_true_iff. split; [apply Nat.eqb_eq; exact L|apply has_type_iff; auto].
  - apply forallb_forall. intros q Hq. unfold all_perms in Hq. apply perms_In_iff in Hq.
    destruct (has_type lens q) eqn:E; [|reflexivity]. cbn [implb]. apply memb_In.
    apply has_type_iff in E as [HP HT]. apply (class_enum_complete n lens res Hres); auto.
    rewrite <- (Permutation_length Hq). apply seq_length.
Qed.

(* ------------------------------------------------------------------------------------------- *)
(** * non-vacuity and small-n validation *)

Example class_enum_hyp_instance :
  perms_with_cycle_lengths 5 [2; 3] = Ok
    [[1; 0; 3; 4; 2]; [1; 0; 4; 2; 3]; [2; 3; 0; 4; 1]; [2; 4; 0; 1; 3]; [3; 2; 4; 0; 1];
     [3; 4; 1; 0; 2]; [4; 2; 3; 1; 0]; [4; 3; 1; 2; 0]; [1; 2; 0; 4; 3]; [2; 0; 1; 4; 3];
     [1; 3; 4; 0; 2]; [3; 0; 4; 1; 2]; [1; 4; 3; 2; 0]; [4; 0; 3; 2; 1]; [2; 4; 3; 0; 1];
     [3; 4; 0; 2; 1]; [2; 3; 4; 1; 0]; [4; 3; 0; 1; 2]; [3; 2; 1; 4; 0]; [4; 2; 1; 0; 3]].
Proof. vm_compute. reflexivity. Qed.

Example class_enum_unsorted_instance :
  perms_with_cycle_lengths 4 [1; 2; 1] = perms_with_cycle_lengths 4 [2; 1; 1].
Proof. vm_compute. reflexivity. Qed.

Example decomp_instance : CycleDecomp [1; 0; 3; 4; 2] [[3; 4; 2]; [1; 0]].
Proof.
  split.
  - repeat constructor; cbn; intuition discriminate.
  - intros y. cbn. split; [intros [<-|[<-|[<-|[<-|[<-|[]]]]]]; lia|].
    intros H. do 5 (destruct y as [|y]; [tauto|]). lia.
  - repeat constructor; discriminate.
  - repeat constructor; intros i Hi; cbn in Hi;
      repeat (destruct i as [|i]; [reflexivity|]); lia.
Qed.

Print Assumptions class_enum_Ok_iff.
Print Assumptions class_enum_fuel_irrelevant.
Print Assumptions class_enum_sound.
Print Assumptions class_enum_NoDup.
Print Assumptions class_enum_complete.
Print Assumptions class_enum_complete_decomp.
Print Assumptions class_enum_In_iff.
Print Assumptions class_enum_order_irrelevant.
Print Assumptions class_enum_order_irrelevant_eq.
Print Assumptions class_enumeration_exact.
