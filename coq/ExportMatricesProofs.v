(** Theorems about ExportMatrices.v: adjacency matrices (dense / COO), named undirected edges,
    the networkx edge dictionary, the harness checkers, and the composition with
    ExportSchreier.export_is_schreier_graph. *)
From Coq Require Import ZArith List Bool Arith Lia String Permutation.
From V Require Import Base BaseProofs Tensor Graph GraphProofs GraphImpl Perm Bfs BfsStep BfsProofs BfsEdges
                      Export ExportProofs ExportSchreier ExportMatrices.
Import ListNotations.
Local Open Scope nat_scope.
Local Notation length := Datatypes.length.

(* ------------------------------------------------------------------ *)
(** * Small generic facts *)

Lemma upd_len {A} (l : list A) : forall i v, length (upd l i v) = length l.
Proof. induction l as [|a l IH]; intros [|i] v; simpl; auto. Qed.

Lemma nth_upd_if {A} (l : list A) (d : A) : forall i k v,
  nth k (upd l i v) d = if (k =? i) && (i <? length l) then v else nth k l d.
Proof.
  induction l as [|a l IH]; intros i k v.
  - simpl. destruct i, k; simpl; try reflexivity. rewrite andb_false_r. reflexivity.
  - destruct i as [|i], k as [|k]; simpl; try reflexivity. rewrite IH. reflexivity.
Qed.

Lemma nth_repeat_lt {A} (a d : A) n k : k < n -> nth k (repeat a n) d = a.
Proof. revert k. induction n as [|n IH]; intros k Hk; [lia|]. destruct k; simpl; [reflexivity | apply IH; lia]. Qed.

Lemma nth_map_lt' {A B} (f : A -> B) (l : list A) (d : A) (e : B) k :
  k < length l -> nth k (map f l) e = f (nth k l d).
Proof. intros Hk. rewrite (nth_indep _ e (f d)) by (rewrite map_length; exact Hk). apply map_nth. Qed.

Lemma NoDup_snoc {A} (l : list A) x : NoDup l -> ~ In x l -> NoDup (l ++ [x]).
Proof.
  induction l as [|a l IH]; intros Hnd Hx; simpl; [constructor; [intros [] | constructor]|].
  inversion Hnd as [|a' l' Ha Hl]; subst. constructor.
  - rewrite in_app_iff. simpl. intros [H | [H | []]]; [contradiction | subst; apply Hx; left; reflexivity].
  - apply IH; [exact Hl | intros H; apply Hx; right; exact H].
Qed.

Lemma combine_nth_lt {A B} (l1 : list A) : forall (l2 : list B) t d1 d2,
  t < length l1 -> t < length l2 -> nth t (combine l1 l2) (d1, d2) = (nth t l1 d1, nth t l2 d2).
Proof.
  induction l1 as [|a l1 IH]; intros [|b l2] t d1 d2 H1 H2; simpl in *; try lia.
  destruct t; [reflexivity | apply IH; lia].
Qed.

Definition skey_dec (x y : skey) : {x = y} + {x <> y}.
Proof. decide equality; apply string_dec. Defined.

Lemma natpair_eqb_iff (p q : nat * nat) : natpair_eqb p q = true <-> p = q.
Proof.
  destruct p as [a b], q as [c d]. unfold natpair_eqb. simpl.
  rewrite andb_true_iff, !Nat.eqb_eq. split; [intros [-> ->]; reflexivity | intros H; inversion H; auto].
Qed.

Lemma existsb_natpair p el : existsb (natpair_eqb p) el = true <-> In p el.
Proof.
  rewrite existsb_exists. split.
  - intros (q & Hq & He). apply natpair_eqb_iff in He. subst q. exact Hq.
  - intros H. exists p. split; [exact H | apply natpair_eqb_iff; reflexivity].
Qed.

Lemma existsb_natpair_false p el : existsb (natpair_eqb p) el = false <-> ~ In p el.
Proof. rewrite <- existsb_natpair. destruct (existsb _ el); split; congruence. Qed.

Definition natpair_dec (p q : nat * nat) : {p = q} + {p <> q}.
Proof. decide equality; apply Nat.eq_dec. Defined.

Lemma list_eqb_iff {A} (eqb : A -> A -> bool) (Heqb : forall x y, eqb x y = true <-> x = y) (l1 : list A) :
  forall l2, list_eqb eqb l1 l2 = true <-> l1 = l2.
Proof.
  induction l1 as [|a l1 IH]; intros [|b l2]; simpl; try (split; [discriminate | discriminate]).
  - tauto.
  - rewrite andb_true_iff, Heqb, IH. split; [intros [-> ->]; reflexivity | intros H; inversion H; auto].
Qed.

Lemma z_list2_eqb_iff (a b : list (list Z)) : z_list2_eqb a b = true <-> a = b.
Proof. unfold z_list2_eqb. apply list_eqb_iff. intros x y. unfold z_list_eqb. apply list_eqb_iff. apply Z.eqb_eq. Qed.

(* ------------------------------------------------------------------ *)
(** * Shapes *)

(* an n x n matrix as a list of rows *)
Definition shape (n : nat) (M : list (list Z)) : Prop := length M = n /\ Forall (fun r => length r = n) M.

Lemma shape_row n M i : shape n M -> i < n -> length (nth i M []) = n.
Proof.
  intros [Hl Hr] Hi. rewrite Forall_forall in Hr. apply Hr. apply nth_In. lia.
Qed.

Lemma zeros_shape n : shape n (zeros n).
Proof.
  unfold shape, zeros. split; [apply repeat_length|].
  apply Forall_forall. intros r Hr. apply repeat_spec in Hr. subst r. apply repeat_length.
Qed.

Lemma set_entry_shape n M i j v : shape n M -> shape n (set_entry M i j v).
Proof.
  intros [Hl Hr]. unfold set_entry. split; [rewrite upd_len; exact Hl|].
  destruct (Nat.lt_ge_cases i (length M)) as [Hi | Hi].
  - apply Forall_forall. intros r Hin. apply (In_nth _ _ []) in Hin. destruct Hin as (k & Hk & <-).
    rewrite upd_len in Hk. rewrite nth_upd_if.
    rewrite Forall_forall in Hr.
    destruct ((k =? i) && (i <? length M)).
    + rewrite upd_len. apply Hr. apply nth_In. exact Hi.
    + apply Hr. apply nth_In. exact Hk.
  - assert (E : upd M i (upd (nth i M []) j v) = M).
    { apply (nth_ext _ _ [] []); [apply upd_len|]. intros k _. rewrite nth_upd_if.
      destruct (Nat.ltb_spec i (length M)) as [H | H]; [lia|]. rewrite andb_false_r. reflexivity. }
    rewrite E. exact Hr.
Qed.

Lemma fold_set_entry_shape n el : forall M, shape n M ->
  shape n (fold_left (fun M '(i, j) => set_entry M i j 1%Z) el M).
Proof.
  induction el as [|[a b] el IH]; intros M HM; simpl; [exact HM|].
  apply IH. apply set_entry_shape. exact HM.
Qed.

(** the matrix is n x n *)
Theorem dense_shape n el : shape n (adjacency_dense n el).
Proof. unfold adjacency_dense. apply fold_set_entry_shape. apply zeros_shape. Qed.

Corollary dense_length n el : length (adjacency_dense n el) = n.
Proof. apply dense_shape. Qed.

Corollary dense_row_length n el r : In r (adjacency_dense n el) -> length r = n.
Proof. destruct (dense_shape n el) as [_ H]. rewrite Forall_forall in H. apply H. Qed.

(* two n x n matrices with the same entries are equal *)
Lemma matrix_ext n M1 M2 : shape n M1 -> shape n M2 ->
  (forall i j, i < n -> j < n -> entry M1 i j = entry M2 i j) -> M1 = M2.
Proof.
  intros H1 H2 He. apply (nth_ext _ _ [] []); [destruct H1, H2; congruence|].
  intros i Hi. assert (Hin : i < n) by (destruct H1; lia).
  apply (nth_ext _ _ 0%Z 0%Z); [rewrite !(shape_row n) by assumption; reflexivity|].
  intros j Hj. rewrite (shape_row n) in Hj by assumption. apply He; assumption.
Qed.

(* ------------------------------------------------------------------ *)
(** * Entries of the dense matrix *)

Lemma entry_zeros n i j : entry (zeros n) i j = 0%Z.
Proof.
  unfold entry, zeros. destruct (Nat.lt_ge_cases i n) as [Hi | Hi].
  - rewrite nth_repeat_lt by exact Hi. destruct (Nat.lt_ge_cases j n) as [Hj | Hj].
    + apply nth_repeat_lt. exact Hj.
    + apply nth_overflow. rewrite repeat_length. exact Hj.
  - rewrite (nth_overflow _ []) by (rewrite repeat_length; exact Hi). destruct j; reflexivity.
Qed.

Lemma entry_set_entry n M a b v i j : shape n M ->
  entry (set_entry M a b v) i j =
  if (i =? a) && (j =? b) && ((a <? n) && (b <? n)) then v else entry M i j.
Proof.
  intros HM. unfold entry, set_entry. rewrite nth_upd_if. destruct HM as [Hl Hr].
  destruct (Nat.eqb_spec i a) as [-> | Hia]; simpl; [|reflexivity].
  rewrite Hl. destruct (Nat.ltb_spec a n) as [Ha | Ha]; simpl.
  - rewrite nth_upd_if. rewrite (shape_row n M a (conj Hl Hr) Ha). reflexivity.
  - rewrite andb_false_r. reflexivity.
Qed.

Lemma entry_fold n el i j : forall M, shape n M ->
  entry (fold_left (fun M '(a, b) => set_entry M a b 1%Z) el M) i j =
  if (i <? n) && (j <? n) && existsb (natpair_eqb (i, j)) el then 1%Z else entry M i j.
Proof.
  induction el as [|[a b] el IH]; intros M HM.
  - simpl. rewrite andb_false_r. reflexivity.
  - cbn [fold_left]. rewrite IH by (apply set_entry_shape; exact HM).
    rewrite (entry_set_entry n) by exact HM. cbn [existsb]. unfold natpair_eqb at 2. cbn [fst snd].
    destruct (Nat.eqb_spec i a) as [-> | Hia]; destruct (Nat.eqb_spec j b) as [-> | Hjb]; cbn [andb orb];
      try reflexivity.
    destruct (a <? n), (b <? n); cbn [andb]; try reflexivity.
    destruct (existsb _ el); reflexivity.
Qed.

(** the value of every entry *)
Theorem dense_entry_value n el i j :
  entry (adjacency_dense n el) i j =
  if (i <? n) && (j <? n) && existsb (natpair_eqb (i, j)) el then 1%Z else 0%Z.
Proof. unfold adjacency_dense. rewrite (entry_fold n) by apply zeros_shape. rewrite entry_zeros. reflexivity. Qed.

(** (B1) ans[i, j] = 1 exactly for the listed edges *)
Theorem dense_entry_one n el i j : i < n -> j < n ->
  (nth j (nth i (adjacency_dense n el) []) 0%Z = 1%Z <-> In (i, j) el).
Proof.
  intros Hi Hj. change (entry (adjacency_dense n el) i j = 1%Z <-> In (i, j) el).
  rewrite dense_entry_value. apply Nat.ltb_lt in Hi, Hj. rewrite Hi, Hj. cbn [andb].
  rewrite <- existsb_natpair. destruct (existsb _ el); split; congruence.
Qed.

(* without the bounds: outside the matrix every read gives the default 0 *)
Theorem dense_entry_one_gen n el i j :
  entry (adjacency_dense n el) i j = 1%Z <-> i < n /\ j < n /\ In (i, j) el.
Proof.
  rewrite dense_entry_value. rewrite <- existsb_natpair.
  destruct (Nat.ltb_spec i n), (Nat.ltb_spec j n), (existsb _ el); cbn [andb];
    split; try discriminate; try tauto; intros (? & ? & ?); try lia; discriminate.
Qed.

Theorem dense_entry_zero n el i j : i < n -> j < n ->
  (entry (adjacency_dense n el) i j = 0%Z <-> ~ In (i, j) el).
Proof.
  intros Hi Hj. rewrite dense_entry_value. apply Nat.ltb_lt in Hi, Hj. rewrite Hi, Hj. cbn [andb].
  rewrite <- existsb_natpair_false. destruct (existsb _ el); split; congruence.
Qed.

(** (B2) every entry is 0 or 1 *)
Theorem dense_entries_01 n el r x : In r (adjacency_dense n el) -> In x r -> x = 0%Z \/ x = 1%Z.
Proof.
  intros Hr Hx. apply (In_nth _ _ []) in Hr. destruct Hr as (i & Hi & <-).
  apply (In_nth _ _ 0%Z) in Hx. destruct Hx as (j & Hj & <-).
  change (entry (adjacency_dense n el) i j = 0%Z \/ entry (adjacency_dense n el) i j = 1%Z).
  rewrite dense_entry_value. destruct (_ && _); auto.
Qed.

Corollary dense_entry_01 n el i j :
  entry (adjacency_dense n el) i j = 0%Z \/ entry (adjacency_dense n el) i j = 1%Z.
Proof. rewrite dense_entry_value. destruct (_ && _); auto. Qed.

(** the imperative matrix is the closed form *)
Lemma spec_shape n el : shape n (adjacency_spec n el).
Proof.
  unfold shape, adjacency_spec. rewrite map_length, seq_length. split; [reflexivity|].
  apply Forall_forall. intros r Hr. apply in_map_iff in Hr. destruct Hr as (i & <- & _).
  rewrite map_length, seq_length. reflexivity.
Qed.

Lemma entry_spec n el i j : i < n -> j < n ->
  entry (adjacency_spec n el) i j = if existsb (natpair_eqb (i, j)) el then 1%Z else 0%Z.
Proof.
  intros Hi Hj. unfold entry, adjacency_spec.
  rewrite (nth_indep _ [] (map (fun j => if existsb (natpair_eqb (n, j)) el then 1%Z else 0%Z) (seq 0 n)))
    by (rewrite map_length, seq_length; exact Hi).
  rewrite (map_nth (fun i => map (fun j => if existsb (natpair_eqb (i, j)) el then 1%Z else 0%Z) (seq 0 n))).
  rewrite seq_nth by exact Hi. cbn [Nat.add].
  rewrite (nth_indep _ 0%Z (if existsb (natpair_eqb (i, n)) el then 1%Z else 0%Z))
    by (rewrite map_length, seq_length; exact Hj).
  rewrite (map_nth (fun j => if existsb (natpair_eqb (i, j)) el then 1%Z else 0%Z)).
  rewrite seq_nth by exact Hj. reflexivity.
Qed.

Theorem dense_eq_spec n el : adjacency_dense n el = adjacency_spec n el.
Proof.
  apply (matrix_ext n); [apply dense_shape | apply spec_shape|].
  intros i j Hi Hj. rewrite dense_entry_value, entry_spec by assumption.
  apply Nat.ltb_lt in Hi, Hj. rewrite Hi, Hj. reflexivity.
Qed.

(** only the SET of edges (restricted to the matrix) matters: order and multiplicity do not *)
Theorem dense_set_invariant n el1 el2 :
  (forall i j, i < n -> j < n -> (In (i, j) el1 <-> In (i, j) el2)) ->
  adjacency_dense n el1 = adjacency_dense n el2.
Proof.
  intros H. apply (matrix_ext n); try apply dense_shape. intros i j Hi Hj.
  destruct (dense_entry_01 n el1 i j) as [E1 | E1]; rewrite E1; symmetry.
  - apply dense_entry_zero; try assumption. rewrite <- H by assumption. apply dense_entry_zero in E1; assumption.
  - apply dense_entry_one; try assumption. rewrite <- H by assumption. apply dense_entry_one in E1; assumption.
Qed.

(** the bound-checked version: IndexError exactly when some index is >= n *)
Definition edges_in_range (n : nat) (el : list (nat * nat)) : Prop :=
  forall i j, In (i, j) el -> i < n /\ j < n.

Lemma edges_in_range_b_iff n el : edges_in_range_b n el = true <-> edges_in_range n el.
Proof.
  unfold edges_in_range_b, edges_in_range. rewrite forallb_forall. split.
  - intros H i j Hin. specialize (H _ Hin). cbn in H. apply andb_true_iff in H.
    destruct H as [Hi Hj]. apply Nat.ltb_lt in Hi, Hj. auto.
  - intros H [i j] Hin. destruct (H i j Hin) as [Hi Hj]. apply Nat.ltb_lt in Hi, Hj. rewrite Hi, Hj. reflexivity.
Qed.

Theorem adjacency_matrix_ok n el M :
  adjacency_matrix n el = Ok M <-> edges_in_range n el /\ M = adjacency_dense n el.
Proof.
  unfold adjacency_matrix. rewrite <- edges_in_range_b_iff. destruct (edges_in_range_b n el).
  - split; [intros H; inversion H; auto | intros [_ ->]; reflexivity].
  - split; [discriminate | intros [H _]; discriminate].
Qed.

Theorem adjacency_matrix_err n el e :
  adjacency_matrix n el = Err e <-> e = IndexErr /\ exists i j, In (i, j) el /\ (n <= i \/ n <= j).
Proof.
  unfold adjacency_matrix. destruct (edges_in_range_b n el) eqn:E.
  - apply edges_in_range_b_iff in E. split; [discriminate|].
    intros (_ & i & j & Hin & Hb). destruct (E i j Hin). lia.
  - split; [|intros [-> _]; reflexivity]. intros H. inversion H. split; [reflexivity|].
    unfold edges_in_range_b in E.
    assert (Hex : existsb (fun p => negb ((fun '(i, j) => (i <? n) && (j <? n)) p)) el = true).
    { clear H. induction el as [|p el IH]; [discriminate|]. simpl in E |- *.
      destruct ((let '(i, j) := p in (i <? n) && (j <? n))); simpl in *; auto. }
    apply existsb_exists in Hex. destruct Hex as ([i j] & Hin & Hneg). exists i, j. split; [exact Hin|].
    apply negb_true_iff, andb_false_iff in Hneg. destruct Hneg as [Hn | Hn]; apply Nat.ltb_ge in Hn; auto.
Qed.

(* ------------------------------------------------------------------ *)
(** * The sparse (COO) matrix *)

(** (B3) one triple per row of edges_list, in order, all data = 1 *)
Theorem sparse_length el : length (adjacency_sparse el) = length el.
Proof. unfold adjacency_sparse. apply map_length. Qed.

Theorem sparse_rows_cols el : map fst (adjacency_sparse el) = el.
Proof.
  unfold adjacency_sparse. rewrite map_map. rewrite <- (map_id el) at 2.
  apply map_ext. intros [i j]. reflexivity.
Qed.

Theorem sparse_data el : map snd (adjacency_sparse el) = repeat 1%Z (length el).
Proof.
  unfold adjacency_sparse. rewrite map_map. induction el as [|[i j] el IH]; simpl; [reflexivity|].
  rewrite IH. reflexivity.
Qed.

Theorem sparse_nth el k : k < length el ->
  nth k (adjacency_sparse el) (0, 0, 0%Z) = (fst (nth k el (0, 0)), snd (nth k el (0, 0)), 1%Z).
Proof.
  intros Hk. unfold adjacency_sparse. rewrite (nth_map_lt' _ _ (0, 0)) by exact Hk.
  destruct (nth k el (0, 0)) as [i j]. reflexivity.
Qed.

(** the support is the edge set *)
Theorem sparse_support el i j v : In (i, j, v) (adjacency_sparse el) <-> v = 1%Z /\ In (i, j) el.
Proof.
  unfold adjacency_sparse. rewrite in_map_iff. split.
  - intros ([a b] & Heq & Hin). inversion Heq; subst. auto.
  - intros [-> Hin]. exists (i, j). auto.
Qed.

Corollary sparse_support_set el i j : (exists v, In (i, j, v) (adjacency_sparse el)) <-> In (i, j) el.
Proof.
  split; [intros (v & H); apply sparse_support in H; tauto|].
  intros H. exists 1%Z. apply sparse_support. auto.
Qed.

(** what the COO matrix denotes: duplicates are summed, the entry is the multiplicity of the edge *)
Theorem sparse_entry_count el i j :
  coo_entry (adjacency_sparse el) i j = Z.of_nat (count_occ natpair_dec el (i, j)).
Proof.
  unfold adjacency_sparse. induction el as [|[a b] el IH]; [reflexivity|].
  cbn [map coo_entry fold_right]. fold (coo_entry (map (fun '(i, j) => (i, j, 1%Z)) el) i j). rewrite IH.
  destruct (natpair_eqb (a, b) (i, j)) eqn:E.
  - apply natpair_eqb_iff in E. rewrite (count_occ_cons_eq _ _ E). lia.
  - assert (Hne : (a, b) <> (i, j)) by (intros H; apply natpair_eqb_iff in H; congruence).
    rewrite (count_occ_cons_neq _ _ Hne). reflexivity.
Qed.

(** dense versus sparse: the dense matrix forgets multiplicities *)
Theorem dense_vs_sparse n el i j : i < n -> j < n ->
  entry (adjacency_dense n el) i j = Z.min 1 (coo_entry (adjacency_sparse el) i j).
Proof.
  intros Hi Hj. rewrite sparse_entry_count.
  destruct (in_dec natpair_dec (i, j) el) as [Hin | Hnin].
  - unfold entry. rewrite (proj2 (dense_entry_one n el i j Hi Hj) Hin).
    apply (count_occ_In natpair_dec) in Hin. lia.
  - rewrite (proj2 (dense_entry_zero n el i j Hi Hj) Hnin).
    apply (count_occ_not_In natpair_dec) in Hnin. rewrite Hnin. reflexivity.
Qed.

Corollary dense_eq_sparse_simple n el i j : NoDup el -> i < n -> j < n ->
  entry (adjacency_dense n el) i j = coo_entry (adjacency_sparse el) i j.
Proof.
  intros Hnd Hi Hj. rewrite (dense_vs_sparse n) by assumption. rewrite sparse_entry_count.
  pose proof (proj1 (NoDup_count_occ natpair_dec el) Hnd (i, j)). lia.
Qed.

(* ------------------------------------------------------------------ *)
(** * Symmetry *)

Lemma mtranspose_shape n M : shape n (mtranspose n M).
Proof.
  unfold shape, mtranspose. rewrite map_length, seq_length. split; [reflexivity|].
  apply Forall_forall. intros r Hr. apply in_map_iff in Hr. destruct Hr as (i & <- & _).
  rewrite map_length, seq_length. reflexivity.
Qed.

Lemma entry_mtranspose n M i j : i < n -> j < n -> entry (mtranspose n M) i j = entry M j i.
Proof.
  intros Hi Hj. unfold mtranspose. unfold entry at 1.
  rewrite (nth_indep _ [] (map (fun j => entry M j n) (seq 0 n))) by (rewrite map_length, seq_length; exact Hi).
  rewrite (map_nth (fun i => map (fun j => entry M j i) (seq 0 n))). rewrite seq_nth by exact Hi. cbn [Nat.add].
  rewrite (nth_indep _ 0%Z (entry M n i)) by (rewrite map_length, seq_length; exact Hj).
  rewrite (map_nth (fun j => entry M j i)). rewrite seq_nth by exact Hj. reflexivity.
Qed.

(* A = A^T entrywise *)
Lemma transpose_eq_iff n M : shape n M ->
  (mtranspose n M = M <-> forall i j, i < n -> j < n -> entry M i j = entry M j i).
Proof.
  intros HM. split.
  - intros E i j Hi Hj. rewrite <- E at 2. rewrite entry_mtranspose by assumption. reflexivity.
  - intros H. apply (matrix_ext n); [apply mtranspose_shape | exact HM|].
    intros i j Hi Hj. rewrite entry_mtranspose by assumption. apply H; assumption.
Qed.

(** (B4) the dense matrix is symmetric iff the edge set (inside the matrix) is symmetric *)
Theorem dense_symmetric_iff n el :
  (forall i j, i < n -> j < n ->
     nth j (nth i (adjacency_dense n el) []) 0%Z = nth i (nth j (adjacency_dense n el) []) 0%Z)
  <-> (forall i j, i < n -> j < n -> In (i, j) el -> In (j, i) el).
Proof.
  split.
  - intros H i j Hi Hj Hin. apply (dense_entry_one n el j i Hj Hi).
    rewrite <- H by assumption. apply dense_entry_one; assumption.
  - intros H i j Hi Hj.
    change (entry (adjacency_dense n el) i j = entry (adjacency_dense n el) j i).
    destruct (dense_entry_01 n el i j) as [E | E]; rewrite E; symmetry.
    + apply dense_entry_zero; try assumption. apply dense_entry_zero in E; try assumption.
      intros Hji. apply E. apply H; assumption.
    + apply dense_entry_one; try assumption. apply dense_entry_one in E; try assumption. apply H; assumption.
Qed.

Theorem dense_transpose_iff n el :
  mtranspose n (adjacency_dense n el) = adjacency_dense n el
  <-> (forall i j, i < n -> j < n -> In (i, j) el -> In (j, i) el).
Proof. rewrite (transpose_eq_iff n) by apply dense_shape. apply dense_symmetric_iff. Qed.

(* for an edge list inside the matrix (always the case for a BfsResult) no bounds are needed *)
Corollary dense_transpose_iff_in_range n el : edges_in_range n el ->
  (mtranspose n (adjacency_dense n el) = adjacency_dense n el <-> (forall i j, In (i, j) el -> In (j, i) el)).
Proof.
  intros Hr. rewrite dense_transpose_iff. split.
  - intros H i j Hin. destruct (Hr i j Hin). apply H; assumption.
  - intros H i j _ _. apply H.
Qed.

(* ------------------------------------------------------------------ *)
(** * Python sets as duplicate-free lists in first-insertion order *)

Section Dedup.
  Context {A : Type} (eqb : A -> A -> bool).
  Hypothesis eqb_iff : forall x y, eqb x y = true <-> x = y.

  Lemma existsb_eqb x l : existsb (eqb x) l = true <-> In x l.
  Proof.
    rewrite existsb_exists. split.
    - intros (y & Hy & He). apply eqb_iff in He. subst y. exact Hy.
    - intros H. exists x. split; [exact H | apply eqb_iff; reflexivity].
  Qed.

  Lemma existsb_eqb_false x l : existsb (eqb x) l = false <-> ~ In x l.
  Proof. rewrite <- existsb_eqb. destruct (existsb _ l); split; congruence. Qed.

  Definition dedup_from (acc l : list A) : list A := fold_left (fun acc x => add_new eqb x acc) l acc.

  Lemma dedup_from_cons acc y l : dedup_from acc (y :: l) = dedup_from (add_new eqb y acc) l.
  Proof. reflexivity. Qed.

  Lemma dedup_from_in l : forall acc x, In x (dedup_from acc l) <-> In x acc \/ In x l.
  Proof.
    induction l as [|y l IH]; intros acc x; [simpl; tauto|].
    rewrite dedup_from_cons, IH. cbn [In]. unfold add_new. destruct (existsb (eqb y) acc) eqn:E.
    - apply existsb_eqb in E. split; [tauto|]. intros [H | [<- | H]]; auto.
    - rewrite in_app_iff. simpl. tauto.
  Qed.

  Lemma dedup_from_nodup l : forall acc, NoDup acc -> NoDup (dedup_from acc l).
  Proof.
    induction l as [|y l IH]; intros acc Hnd; [exact Hnd|].
    rewrite dedup_from_cons. apply IH. unfold add_new. destruct (existsb (eqb y) acc) eqn:E; [exact Hnd|].
    apply existsb_eqb_false in E. apply NoDup_snoc; assumption.
  Qed.

  Theorem dedup_in l x : In x (dedup eqb l) <-> In x l.
  Proof. change (dedup eqb l) with (dedup_from [] l). rewrite (dedup_from_in l [] x). simpl. tauto. Qed.

  Theorem dedup_nodup l : NoDup (dedup eqb l).
  Proof. apply (dedup_from_nodup l []). constructor. Qed.

  (* first-occurrence order: the head stays, its later copies are dropped *)
  Fixpoint dedup_spec (l : list A) : list A :=
    match l with [] => [] | x :: t => x :: filter (fun y => negb (eqb x y)) (dedup_spec t) end.

  Lemma filter_notin_snoc acc x L :
    filter (fun y => negb (existsb (eqb y) (acc ++ [x]))) L
    = filter (fun y => negb (existsb (eqb y) acc)) (filter (fun y => negb (eqb x y)) L).
  Proof.
    induction L as [|z L IH]; [reflexivity|]. cbn [filter]. rewrite existsb_app. cbn [existsb].
    rewrite orb_false_r.
    assert (Hsym : eqb z x = eqb x z).
    { destruct (eqb z x) eqn:E1, (eqb x z) eqn:E2; try reflexivity.
      - apply eqb_iff in E1. subst z. rewrite (proj2 (eqb_iff x x) eq_refl) in E2. discriminate.
      - apply eqb_iff in E2. subst z. rewrite (proj2 (eqb_iff x x) eq_refl) in E1. discriminate. }
    rewrite Hsym. destruct (eqb x z); cbn [negb].
    - rewrite orb_true_r. cbn [negb]. exact IH.
    - rewrite orb_false_r. cbn [filter]. destruct (existsb (eqb z) acc); cbn [negb]; rewrite IH; reflexivity.
  Qed.

  Lemma filter_notin_drop acc x L : In x acc ->
    filter (fun y => negb (existsb (eqb y) acc)) (filter (fun y => negb (eqb x y)) L)
    = filter (fun y => negb (existsb (eqb y) acc)) L.
  Proof.
    intros Hx. induction L as [|z L IH]; [reflexivity|]. cbn [filter].
    destruct (eqb x z) eqn:E; cbn [negb].
    - apply eqb_iff in E. subst z. rewrite (proj2 (existsb_eqb x acc) Hx). cbn [negb]. exact IH.
    - cbn [filter]. rewrite IH. reflexivity.
  Qed.

  Lemma dedup_from_spec l : forall acc,
    dedup_from acc l = acc ++ filter (fun y => negb (existsb (eqb y) acc)) (dedup_spec l).
  Proof.
    induction l as [|x l IH]; intros acc.
    - simpl. rewrite app_nil_r. reflexivity.
    - rewrite dedup_from_cons. cbn [dedup_spec]. rewrite IH.
      unfold add_new. cbn [filter]. destruct (existsb (eqb x) acc) eqn:E; cbn [negb].
      + apply existsb_eqb in E. rewrite filter_notin_drop by exact E. reflexivity.
      + rewrite filter_notin_snoc. rewrite <- app_assoc. reflexivity.
  Qed.

  Theorem dedup_first_occurrence l : dedup eqb l = dedup_spec l.
  Proof.
    change (dedup eqb l) with (dedup_from [] l). rewrite (dedup_from_spec l []). cbn [app existsb negb].
    induction (dedup_spec l) as [|z L IH]; [reflexivity|]. cbn [filter]. rewrite IH. reflexivity.
  Qed.

  (* comparing sets given as lists *)
  Lemma subset_b_iff l1 l2 : subset_b eqb l1 l2 = true <-> incl l1 l2.
  Proof.
    unfold subset_b, incl. rewrite forallb_forall. split.
    - intros H x Hx. apply existsb_eqb. apply H. exact Hx.
    - intros H x Hx. apply existsb_eqb. apply H. exact Hx.
  Qed.

  Lemma set_eqb_iff l1 l2 : set_eqb eqb l1 l2 = true <-> (forall x, In x l1 <-> In x l2).
  Proof.
    unfold set_eqb. rewrite andb_true_iff, !subset_b_iff. unfold incl. split.
    - intros [H1 H2] x. split; auto.
    - intros H. split; intros x; apply H.
  Qed.
End Dedup.

(* ------------------------------------------------------------------ *)
(** * sorted([a, b]) *)

Lemma skey_eqb_iff (p q : skey) : skey_eqb p q = true <-> p = q.
Proof.
  destruct p as [a b], q as [c d]. unfold skey_eqb. simpl.
  rewrite andb_true_iff, !String.eqb_eq. split; [intros [-> ->]; reflexivity | intros H; inversion H; auto].
Qed.

Lemma ltb_leb_neg a b : String.ltb b a = negb (String.leb a b).
Proof. unfold String.ltb, String.leb. rewrite (String.compare_antisym a b). destruct (String.compare b a); reflexivity. Qed.

Lemma sorted_pair_cases a b :
  (sorted_pair a b = (a, b) /\ String.leb a b = true) \/ (sorted_pair a b = (b, a) /\ String.leb b a = true /\ a <> b).
Proof.
  unfold sorted_pair. rewrite ltb_leb_neg. destruct (String.leb a b) eqn:E; cbn [negb]; [left; auto|].
  right. split; [reflexivity|]. split.
  - destruct (String.leb_total a b) as [H | H]; [congruence | exact H].
  - intros ->. destruct (String.leb_total b b) as [H | H]; congruence.
Qed.

(* the result is ordered *)
Lemma sorted_pair_sorted a b : String.leb (fst (sorted_pair a b)) (snd (sorted_pair a b)) = true.
Proof. destruct (sorted_pair_cases a b) as [[-> H] | (-> & H & _)]; exact H. Qed.

Lemma sorted_pair_comm a b : sorted_pair a b = sorted_pair b a.
Proof.
  destruct (sorted_pair_cases a b) as [[-> H1] | (-> & H1 & N1)];
    destruct (sorted_pair_cases b a) as [[-> H2] | (-> & H2 & N2)]; try reflexivity.
  - rewrite (String.leb_antisym a b H1 H2). reflexivity.
  - rewrite (String.leb_antisym a b H2 H1). reflexivity.
Qed.

Lemma sorted_pair_id a b : String.leb a b = true -> sorted_pair a b = (a, b).
Proof.
  intros H. destruct (sorted_pair_cases a b) as [[E _] | (E & H2 & _)]; [exact E|].
  rewrite E. rewrite (String.leb_antisym a b H H2). reflexivity.
Qed.

(* sorted pairs stand for unordered pairs *)
Theorem sorted_pair_eq_iff a b c d :
  sorted_pair a b = sorted_pair c d <-> (a = c /\ b = d) \/ (a = d /\ b = c).
Proof.
  split.
  - destruct (sorted_pair_cases a b) as [[-> _] | (-> & _ & _)];
      destruct (sorted_pair_cases c d) as [[-> _] | (-> & _ & _)]; intros H; inversion H; auto.
  - intros [[-> ->] | [-> ->]]; [reflexivity | apply sorted_pair_comm].
Qed.

(* ------------------------------------------------------------------ *)
(** * named_undirected_edges *)

Theorem named_undirected_nodup names el : NoDup (named_undirected names el).
Proof. unfold named_undirected. apply (dedup_nodup skey_eqb skey_eqb_iff). Qed.

Theorem named_undirected_in names el p :
  In p (named_undirected names el) <->
  exists i j, In (i, j) el /\ p = sorted_pair (name_of names i) (name_of names j).
Proof.
  unfold named_undirected. rewrite (dedup_in skey_eqb skey_eqb_iff). rewrite in_map_iff. split.
  - intros ([i j] & <- & Hin). exists i, j. auto.
  - intros (i & j & Hin & ->). exists (i, j). auto.
Qed.

Theorem named_undirected_sorted names el a b :
  In (a, b) (named_undirected names el) -> String.leb a b = true.
Proof.
  intros H. apply named_undirected_in in H. destruct H as (i & j & _ & E).
  pose proof (sorted_pair_sorted (name_of names i) (name_of names j)) as S. rewrite <- E in S. exact S.
Qed.

(** (B6) {a, b} is listed iff some row (i, j) of edges_list carries the names a, b in either order *)
Theorem named_undirected_char names el a b :
  In (sorted_pair a b) (named_undirected names el) <->
  exists i j, In (i, j) el /\
    ((name_of names i = a /\ name_of names j = b) \/ (name_of names i = b /\ name_of names j = a)).
Proof.
  rewrite named_undirected_in. split.
  - intros (i & j & Hin & E). exists i, j. split; [exact Hin|].
    apply sorted_pair_eq_iff in E. destruct E as [[-> ->] | [-> ->]]; auto.
  - intros (i & j & Hin & H). exists i, j. split; [exact Hin|].
    apply sorted_pair_eq_iff. destruct H as [[-> ->] | [-> ->]]; auto.
Qed.

(* the same for a raw element of the set *)
Corollary named_undirected_elem names el a b :
  In (a, b) (named_undirected names el) <->
  String.leb a b = true /\
  exists i j, In (i, j) el /\
    ((name_of names i = a /\ name_of names j = b) \/ (name_of names i = b /\ name_of names j = a)).
Proof.
  split.
  - intros H. pose proof (named_undirected_sorted _ _ _ _ H) as S. split; [exact S|].
    apply named_undirected_char. rewrite (sorted_pair_id a b S). exact H.
  - intros [S H]. apply named_undirected_char in H. rewrite (sorted_pair_id a b S) in H. exact H.
Qed.

(* first-occurrence order of the model list *)
Theorem named_undirected_order names el :
  named_undirected names el =
  dedup_spec skey_eqb (map (fun '(i, j) => sorted_pair (name_of names i) (name_of names j)) el).
Proof. unfold named_undirected. apply (dedup_first_occurrence skey_eqb skey_eqb_iff). Qed.

(* with distinct vertex names an undirected edge determines its end points *)
Theorem named_undirected_distinct_names names el i j :
  NoDup names -> edges_in_range (length names) el -> i < length names -> j < length names ->
  (In (sorted_pair (name_of names i) (name_of names j)) (named_undirected names el) <->
   In (i, j) el \/ In (j, i) el).
Proof.
  intros Hnd Hr Hi Hj. rewrite named_undirected_char. unfold name_of. split.
  - intros (i' & j' & Hin & H). destruct (Hr i' j' Hin) as [Hi' Hj'].
    destruct H as [[E1 E2] | [E1 E2]];
      apply (proj1 (NoDup_nth names ""%string) Hnd) in E1; try assumption;
      apply (proj1 (NoDup_nth names ""%string) Hnd) in E2; try assumption; subst; auto.
  - intros [H | H]; [exists i, j | exists j, i]; auto.
Qed.

(* ------------------------------------------------------------------ *)
(** * The networkx edge dictionary *)

Section DictProofs.
  Context {L : Type}.
  Implicit Types (m rows : list (skey * L)) (k : skey) (v : L).

  Lemma skey_eqb_refl k : skey_eqb k k = true.
  Proof. apply skey_eqb_iff. reflexivity. Qed.

  Lemma skey_eqb_neq k k' : k <> k' -> skey_eqb k k' = false.
  Proof. intros H. destruct (skey_eqb k k') eqn:E; [apply skey_eqb_iff in E; contradiction | reflexivity]. Qed.

  Lemma skey_eqb_sym k k' : skey_eqb k k' = skey_eqb k' k.
  Proof.
    destruct (skey_eqb k k') eqn:E.
    - apply skey_eqb_iff in E. subst. symmetry. apply skey_eqb_refl.
    - destruct (skey_eqb k' k) eqn:E'; [|reflexivity]. apply skey_eqb_iff in E'. subst.
      rewrite skey_eqb_refl in E. discriminate.
  Qed.

  Lemma dict_get_cons k k' v m :
    dict_get k ((k', v) :: m) = if skey_eqb k k' then Some v else dict_get k m.
  Proof. unfold dict_get. simpl. destruct (skey_eqb k k'); reflexivity. Qed.

  Lemma dict_get_app k m1 m2 :
    dict_get k (m1 ++ m2) = match dict_get k m1 with Some v => Some v | None => dict_get k m2 end.
  Proof.
    induction m1 as [|[k' v'] m1 IH]; [reflexivity|].
    rewrite <- app_comm_cons, !dict_get_cons. destruct (skey_eqb k k'); [reflexivity | exact IH].
  Qed.

  Lemma dict_get_none k m : dict_get k m = None <-> ~ In k (map fst m).
  Proof.
    induction m as [|[k' v'] m IH]; [simpl; tauto|].
    rewrite dict_get_cons. cbn [map fst In]. destruct (skey_eqb k k') eqn:E.
    - apply skey_eqb_iff in E. subst. split; [discriminate | intros H; exfalso; apply H; left; reflexivity].
    - rewrite IH. split; [|tauto]. intros H [H1 | H1]; [|auto]. subst. rewrite skey_eqb_refl in E. discriminate.
  Qed.

  Lemma dict_get_some_in k v m : dict_get k m = Some v -> In (k, v) m.
  Proof.
    induction m as [|[k' v'] m IH]; [discriminate|]. rewrite dict_get_cons.
    destruct (skey_eqb k k') eqn:E.
    - apply skey_eqb_iff in E. intros H. inversion H; subst. left. reflexivity.
    - intros H. right. apply IH. exact H.
  Qed.

  Lemma dict_has_key k m : existsb (fun '(k', _) => skey_eqb k k') m = true <-> In k (map fst m).
  Proof.
    rewrite existsb_exists. split.
    - intros ([k' v'] & Hin & E). apply skey_eqb_iff in E. subst. apply in_map_iff. exists (k', v'). auto.
    - intros H. apply in_map_iff in H. destruct H as ([k' v'] & E & Hin). simpl in E. subst.
      exists (k, v'). split; [exact Hin | apply skey_eqb_refl].
  Qed.

  Lemma dict_get_overwrite k k0 v0 m :
    dict_get k (map (fun '(k', v') => if skey_eqb k0 k' then (k', v0) else (k', v')) m)
    = if skey_eqb k k0 then match dict_get k m with Some _ => Some v0 | None => None end else dict_get k m.
  Proof.
    induction m as [|[k1 v1] m IH]; [simpl; destruct (skey_eqb k k0); reflexivity|].
    cbn [map]. destruct (skey_eqb k0 k1) eqn:E01; rewrite !dict_get_cons, IH.
    - apply skey_eqb_iff in E01. subst k1. destruct (skey_eqb k k0); reflexivity.
    - destruct (skey_eqb k k1) eqn:E1; [|reflexivity].
      apply skey_eqb_iff in E1. subst k1. rewrite (skey_eqb_sym k k0), E01. reflexivity.
  Qed.

  (** reading a dictionary after an assignment *)
  Lemma dict_get_set k k0 v0 m :
    dict_get k (dict_set k0 v0 m) = if skey_eqb k k0 then Some v0 else dict_get k m.
  Proof.
    unfold dict_set. destruct (existsb _ m) eqn:E.
    - rewrite dict_get_overwrite. destruct (skey_eqb k k0) eqn:Ek; [|reflexivity].
      apply skey_eqb_iff in Ek. subst k0. apply dict_has_key in E.
      destruct (dict_get k m) eqn:G; [reflexivity|]. apply dict_get_none in G. contradiction.
    - rewrite dict_get_app. rewrite dict_get_cons. destruct (skey_eqb k k0) eqn:Ek.
      + apply skey_eqb_iff in Ek. subst k0.
        assert (G : dict_get k m = None).
        { apply dict_get_none. intros H. apply dict_has_key in H. congruence. }
        rewrite G. reflexivity.
      + destruct (dict_get k m); reflexivity.
  Qed.

  Lemma dict_set_keys_nodup k0 v0 m : NoDup (map fst m) -> NoDup (map fst (dict_set k0 v0 m)).
  Proof.
    intros Hnd. unfold dict_set. destruct (existsb _ m) eqn:E.
    - assert (Hk : map fst (map (fun '(k', v') => if skey_eqb k0 k' then (k', v0) else (k', v')) m) = map fst m).
      { rewrite map_map. apply map_ext. intros [k' v']. destruct (skey_eqb k0 k'); reflexivity. }
      rewrite Hk. exact Hnd.
    - rewrite map_app. cbn [map fst]. apply NoDup_snoc; [exact Hnd|].
      intros H. apply dict_has_key in H. congruence.
  Qed.

  (* a dictionary filled by successive assignments *)
  Definition dict_build (rows m : list (skey * L)) : list (skey * L) :=
    fold_left (fun m '(k, lb) => dict_set k lb m) rows m.

  Lemma dict_build_cons k v rows m : dict_build ((k, v) :: rows) m = dict_build rows (dict_set k v m).
  Proof. reflexivity. Qed.

  (* the value read is the one written LAST *)
  Lemma dict_build_get k rows : forall m,
    dict_get k (dict_build rows m) =
    match dict_get k (rev rows) with Some v => Some v | None => dict_get k m end.
  Proof.
    induction rows as [|[k0 v0] rows IH]; intros m; [reflexivity|].
    rewrite dict_build_cons, IH. cbn [rev]. rewrite dict_get_app, dict_get_cons, dict_get_set.
    destruct (dict_get k (rev rows)); [reflexivity|]. destruct (skey_eqb k k0); reflexivity.
  Qed.

  Lemma dict_build_keys_nodup rows : forall m, NoDup (map fst m) -> NoDup (map fst (dict_build rows m)).
  Proof.
    induction rows as [|[k0 v0] rows IH]; intros m Hnd; [exact Hnd|].
    rewrite dict_build_cons. apply IH. apply dict_set_keys_nodup. exact Hnd.
  Qed.

  (* reading the reversed row list = finding the last row with that key *)
  Lemma dict_get_rev_last k v rows (d : skey * L) :
    dict_get k (rev rows) = Some v <->
    exists t, t < length rows /\ nth t rows d = (k, v) /\
              forall t', t < t' -> t' < length rows -> fst (nth t' rows d) <> k.
  Proof.
    induction rows as [|[k0 v0] rows IH] using rev_ind.
    - simpl. split; [discriminate | intros (t & Ht & _); lia].
    - rewrite rev_app_distr. cbn [rev app]. rewrite dict_get_cons, app_length. cbn [length].
      destruct (skey_eqb k k0) eqn:E.
      + apply skey_eqb_iff in E. subst k0. split.
        * intros H. inversion H; subst. exists (length rows). split; [lia|]. split.
          -- rewrite app_nth2 by lia. rewrite Nat.sub_diag. reflexivity.
          -- intros t' H1 H2. lia.
        * intros (t & Ht & Hn & Hlast). destruct (Nat.eq_dec t (length rows)) as [-> | Hne].
          -- rewrite app_nth2 in Hn by lia. rewrite Nat.sub_diag in Hn. simpl in Hn. inversion Hn. reflexivity.
          -- exfalso. apply (Hlast (length rows)); [lia | lia|].
             rewrite app_nth2 by lia. rewrite Nat.sub_diag. reflexivity.
      + assert (Hne : k0 <> k) by (intros ->; rewrite skey_eqb_refl in E; discriminate).
        rewrite IH. split.
        * intros (t & Ht & Hn & Hlast). exists t. split; [lia|]. split; [rewrite app_nth1 by lia; exact Hn|].
          intros t' H1 H2. destruct (Nat.eq_dec t' (length rows)) as [-> | Hne'].
          -- rewrite app_nth2 by lia. rewrite Nat.sub_diag. exact Hne.
          -- rewrite app_nth1 by lia. apply Hlast; lia.
        * intros (t & Ht & Hn & Hlast). destruct (Nat.eq_dec t (length rows)) as [-> | Hne'].
          -- rewrite app_nth2 in Hn by lia. rewrite Nat.sub_diag in Hn. simpl in Hn. inversion Hn. congruence.
          -- exists t. split; [lia|]. split; [rewrite app_nth1 in Hn by lia; exact Hn|].
             intros t' H1 H2. specialize (Hlast t' H1 ltac:(lia)). rewrite app_nth1 in Hlast by lia. exact Hlast.
  Qed.

  Lemma dict_get_rev_none k rows : dict_get k (rev rows) = None <-> ~ In k (map fst rows).
  Proof. rewrite dict_get_none, map_rev. rewrite <- in_rev. tauto. Qed.

  (* when every item stored under k carries the same value, that is the value read *)
  Lemma dict_get_functional k v m :
    (forall v', In (k, v') m -> v' = v) -> In k (map fst m) -> dict_get k m = Some v.
  Proof.
    intros Hf Hin. destruct (dict_get k m) as [v'|] eqn:E.
    - apply dict_get_some_in in E. rewrite (Hf v' E). reflexivity.
    - apply dict_get_none in E. contradiction.
  Qed.

  (** ** rows of the edge list with their names and labels *)
  Variable names : list string.
  Variable labels : list L.
  Variable el : list (nat * nat).

  Lemma nx_rows_length : length (nx_rows names labels el) = Nat.min (length el) (length labels).
  Proof. unfold nx_rows. rewrite map_length, combine_length. reflexivity. Qed.

  Lemma nx_rows_nth t (d : skey * L) (dl : L) : t < length el -> t < length labels ->
    nth t (nx_rows names labels el) d =
    ((name_of names (fst (nth t el (0, 0))), name_of names (snd (nth t el (0, 0)))), nth t labels dl).
  Proof.
    intros H1 H2. unfold nx_rows.
    rewrite (nth_map_lt' _ _ ((0, 0), dl)) by (rewrite combine_length; lia).
    rewrite (combine_nth_lt el labels t (0, 0) dl) by assumption. destruct (nth t el (0, 0)) as [i j]. reflexivity.
  Qed.

  (** DiGraph: keys are distinct, and the label stored under (a, b) is that of the LAST row
      of edges_list whose end points are named a and b *)
  Theorem nx_directed_keys_nodup : NoDup (map fst (nx_edges_directed names labels el)).
  Proof. apply (dict_build_keys_nodup (nx_rows names labels el) []). constructor. Qed.

  Theorem nx_directed_get_rev k :
    dict_get k (nx_edges_directed names labels el) = dict_get k (rev (nx_rows names labels el)).
  Proof.
    change (nx_edges_directed names labels el) with (dict_build (nx_rows names labels el) []).
    rewrite dict_build_get. destruct (dict_get k (rev _)); reflexivity.
  Qed.

  Theorem nx_directed_get a b lb (d : skey * L) :
    dict_get (a, b) (nx_edges_directed names labels el) = Some lb <->
    exists t, t < length (nx_rows names labels el) /\
              nth t (nx_rows names labels el) d = ((a, b), lb) /\
              forall t', t < t' -> t' < length (nx_rows names labels el) ->
                         fst (nth t' (nx_rows names labels el) d) <> (a, b).
  Proof. rewrite nx_directed_get_rev. apply dict_get_rev_last. Qed.

  Theorem nx_directed_get_none a b :
    dict_get (a, b) (nx_edges_directed names labels el) = None <->
    ~ exists i j lb, In ((i, j), lb) (combine el labels) /\ name_of names i = a /\ name_of names j = b.
  Proof.
    rewrite nx_directed_get_rev, dict_get_rev_none. unfold nx_rows. rewrite map_map, in_map_iff. split.
    - intros H (i & j & lb & Hin & <- & <-). apply H. exists ((i, j), lb). auto.
    - intros H ([[i j] lb] & E & Hin). simpl in E. inversion E. apply H. exists i, j, lb. auto.
  Qed.

  (* every stored item comes from a row, and every row's key is stored *)
  Theorem nx_directed_key_iff a b :
    In (a, b) (map fst (nx_edges_directed names labels el)) <->
    exists i j lb, In ((i, j), lb) (combine el labels) /\ name_of names i = a /\ name_of names j = b.
  Proof.
    pose proof (nx_directed_get_none a b) as N. rewrite dict_get_none in N.
    destruct (in_dec skey_dec (a, b) (map fst (nx_edges_directed names labels el))) as [Hin | Hnin].
    - split; [|intros _; exact Hin]. intros _.
      destruct (dict_get (a, b) (nx_edges_directed names labels el)) eqn:G.
      + rewrite nx_directed_get_rev in G. apply dict_get_some_in in G. apply in_rev in G.
        unfold nx_rows in G. apply in_map_iff in G. destruct G as ([[i j] lb] & E & Hc). inversion E; subst.
        exists i, j, l. auto.
      + apply dict_get_none in G. contradiction.
    - split; [contradiction|]. intros H. exfalso. exact (proj1 N Hnin H).
  Qed.

  (** Graph: the same with unordered end points *)
  Definition sort_key (r : skey * L) : skey * L := (sorted_pair (fst (fst r)) (snd (fst r)), snd r).
  Definition nx_rows_sorted : list (skey * L) := map sort_key (nx_rows names labels el).

  Lemma nx_undirected_build : nx_edges_undirected names labels el = dict_build nx_rows_sorted [].
  Proof.
    unfold nx_edges_undirected, nx_rows_sorted, dict_build. generalize (@nil (skey * L)).
    induction (nx_rows names labels el) as [|[[a b] lb] rows IH]; intros m; [reflexivity|].
    cbn [map fold_left]. apply IH.
  Qed.

  Theorem nx_undirected_keys_nodup : NoDup (map fst (nx_edges_undirected names labels el)).
  Proof. rewrite nx_undirected_build. apply dict_build_keys_nodup. constructor. Qed.

  Theorem nx_undirected_get a b lb (d : skey * L) :
    dict_get (sorted_pair a b) (nx_edges_undirected names labels el) = Some lb <->
    exists t, t < length (nx_rows names labels el) /\
              snd (nth t (nx_rows names labels el) d) = lb /\
              (fst (nth t (nx_rows names labels el) d) = (a, b) \/ fst (nth t (nx_rows names labels el) d) = (b, a)) /\
              forall t', t < t' -> t' < length (nx_rows names labels el) ->
                         fst (nth t' (nx_rows names labels el) d) <> (a, b) /\
                         fst (nth t' (nx_rows names labels el) d) <> (b, a).
  Proof.
    rewrite nx_undirected_build, dict_build_get. cbn [dict_get find].
    assert (E0 : forall x : option L, match x with Some v => Some v | None => None end = x) by (intros [v|]; reflexivity).
    rewrite E0. rewrite (dict_get_rev_last _ _ _ (sort_key d)).
    unfold nx_rows_sorted. rewrite map_length.
    assert (Hn : forall t, nth t (map sort_key (nx_rows names labels el)) (sort_key d)
                     = (sorted_pair (fst (fst (nth t (nx_rows names labels el) d))) (snd (fst (nth t (nx_rows names labels el) d))),
                        snd (nth t (nx_rows names labels el) d))).
    { intros t. rewrite map_nth. reflexivity. }
    split.
    - intros (t & Ht & Hnth & Hlast). exists t. split; [exact Ht|]. rewrite Hn in Hnth.
      destruct (nth t (nx_rows names labels el) d) as [[x y] z] eqn:Et. cbn [fst snd] in *.
      inversion Hnth as [[Hk Hz]]. split; [reflexivity|]. split.
      + apply sorted_pair_eq_iff in Hk. destruct Hk as [[-> ->] | [-> ->]]; auto.
      + intros t' H1 H2. specialize (Hlast t' H1 H2). rewrite Hn in Hlast. cbn [fst] in Hlast.
        destruct (nth t' (nx_rows names labels el) d) as [[x' y'] z'] eqn:Et'. cbn [fst snd] in *.
        split; intros H; inversion H; subst; apply Hlast; [reflexivity | apply sorted_pair_comm].
    - intros (t & Ht & Hlb & Hk & Hlast). exists t. split; [exact Ht|]. rewrite Hn. split.
      + destruct (nth t (nx_rows names labels el) d) as [[x y] z] eqn:Et. cbn [fst snd] in *. subst z.
        destruct Hk as [Hk | Hk]; inversion Hk; subst; [reflexivity | rewrite sorted_pair_comm; reflexivity].
      + intros t' H1 H2. specialize (Hlast t' H1 H2). rewrite Hn. cbn [fst].
        destruct (nth t' (nx_rows names labels el) d) as [[x' y'] z'] eqn:Et'. cbn [fst snd] in *.
        intros H. apply sorted_pair_eq_iff in H. destruct Hlast as [N1 N2].
        destruct H as [[-> ->] | [-> ->]]; [apply N1 | apply N2]; reflexivity.
  Qed.

  (** the assertion of to_networkx_graph *)
  Theorem to_networkx_err inverse_closed directed e :
    to_networkx inverse_closed directed names labels el = Err e <->
    e = AssertionErr /\ inverse_closed = false /\ directed = false.
  Proof.
    unfold to_networkx. destruct inverse_closed, directed; cbn [negb andb].
    - split; [discriminate | intros (_ & H1 & H2); discriminate].
    - split; [discriminate | intros (_ & H1 & H2); discriminate].
    - split; [discriminate | intros (_ & H1 & H2); discriminate].
    - split; [intros H; inversion H; auto | intros (-> & _ & _); reflexivity].
  Qed.

  Theorem to_networkx_ok inverse_closed directed nodes edges :
    to_networkx inverse_closed directed names labels el = Ok (nodes, edges) ->
    (inverse_closed = true \/ directed = true) /\
    NoDup nodes /\ (forall a, In a nodes <-> In a names) /\
    edges = (if directed then nx_edges_directed names labels el else nx_edges_undirected names labels el).
  Proof.
    unfold to_networkx. destruct (negb inverse_closed && negb directed) eqn:E; [discriminate|].
    intros H. inversion H; subst. split.
    - destruct inverse_closed, directed; auto; discriminate.
    - split; [apply (dedup_nodup String.eqb String.eqb_eq)|].
      split; [intros a; apply (dedup_in String.eqb String.eqb_eq) | reflexivity].
  Qed.
End DictProofs.

Lemma combine_map_self {A B} (f : A -> B) (l : list A) : combine l (map f l) = map (fun x => (x, f x)) l.
Proof. induction l as [|a l IH]; simpl; [reflexivity | rewrite IH; reflexivity]. Qed.

(** When the label of a row is a function of its end points (this is get_edge_name) and vertex names are
    distinct, the DiGraph stores under (name i, name j) exactly that label: overwriting is harmless. *)
Theorem nx_directed_functional_labels {L} (names : list string) (el : list (nat * nat)) (lab : nat -> nat -> L) :
  NoDup names -> edges_in_range (length names) el ->
  forall i j, In (i, j) el ->
    dict_get (name_of names i, name_of names j)
             (nx_edges_directed names (map (fun '(i, j) => lab i j) el) el) = Some (lab i j).
Proof.
  intros Hnd Hr i j Hin. rewrite nx_directed_get_rev. unfold nx_rows. rewrite combine_map_self, map_map.
  apply dict_get_functional.
  - intros v' Hv. apply in_rev in Hv. apply in_map_iff in Hv. destruct Hv as ([i' j'] & E & Hin').
    inversion E as [[E1 E2 E3]]. destruct (Hr i j Hin) as [Hi Hj]. destruct (Hr i' j' Hin') as [Hi' Hj'].
    unfold name_of in E1, E2.
    apply (proj1 (NoDup_nth names ""%string) Hnd) in E1; try assumption.
    apply (proj1 (NoDup_nth names ""%string) Hnd) in E2; try assumption. subst. reflexivity.
  - rewrite map_rev, <- in_rev, map_map. apply in_map_iff. exists (i, j). auto.
Qed.

(* ------------------------------------------------------------------ *)
(** * What the harness checkers mean *)

Lemma result_eqb_ok {A} (eqb : A -> A -> bool) (Heqb : forall x y, eqb x y = true <-> x = y) (r : result A) a :
  result_eqb eqb r (Ok a) = true <-> r = Ok a.
Proof.
  destruct r as [b | e]; simpl; [|split; discriminate].
  rewrite Heqb. split; [intros ->; reflexivity | intros H; inversion H; reflexivity].
Qed.

Theorem check_dense_iff n el observed :
  check_dense n el observed = true <-> adjacency_matrix n el = Ok observed.
Proof. unfold check_dense. apply result_eqb_ok. apply z_list2_eqb_iff. Qed.

(* a recorded matrix that passes the check has its ones exactly on the edges *)
Corollary check_dense_sound n el observed : check_dense n el observed = true ->
  length observed = n /\ (forall r, In r observed -> length r = n) /\ edges_in_range n el /\
  forall i j, i < n -> j < n -> (nth j (nth i observed []) 0%Z = 1%Z <-> In (i, j) el).
Proof.
  intros H. apply check_dense_iff, adjacency_matrix_ok in H. destruct H as [Hr ->].
  split; [apply dense_length|]. split; [intros r; apply dense_row_length|]. split; [exact Hr|].
  intros i j. apply dense_entry_one.
Qed.

Lemma triple_eqb_iff (a b : nat * nat * Z) : triple_eqb a b = true <-> a = b.
Proof.
  destruct a as [p x], b as [q y]. unfold triple_eqb. cbn [fst snd].
  rewrite andb_true_iff, natpair_eqb_iff, Z.eqb_eq. split; [intros [-> ->]; reflexivity | intros H; inversion H; auto].
Qed.

Theorem check_sparse_iff el observed :
  check_sparse el observed = true <-> observed = adjacency_sparse el.
Proof.
  unfold check_sparse. rewrite (list_eqb_iff triple_eqb triple_eqb_iff). split; intros H; symmetry; exact H.
Qed.

Theorem check_named_undirected_iff names el observed :
  check_named_undirected names el observed = true <->
  forall p, In p observed <->
            exists i j, In (i, j) el /\ p = sorted_pair (name_of names i) (name_of names j).
Proof.
  unfold check_named_undirected. rewrite (set_eqb_iff skey_eqb skey_eqb_iff). split.
  - intros H p. rewrite <- H. apply named_undirected_in.
  - intros H p. rewrite H. apply named_undirected_in.
Qed.

Lemma labelled_eqb_iff (x y : skey * string) : pair_eqb skey_eqb String.eqb x y = true <-> x = y.
Proof.
  destruct x as [k v], y as [k' v']. unfold pair_eqb. cbn [fst snd].
  rewrite andb_true_iff, skey_eqb_iff, String.eqb_eq. split; [intros [-> ->]; reflexivity | intros H; inversion H; auto].
Qed.

Theorem check_nx_directed_iff names labels el observed :
  check_nx_directed names labels el observed = true <->
  forall x, In x (nx_edges_directed names labels el) <-> In x observed.
Proof. unfold check_nx_directed. apply (set_eqb_iff _ labelled_eqb_iff). Qed.

Theorem check_nx_undirected_iff names labels el observed :
  check_nx_undirected names labels el observed = true <->
  forall x, In x (nx_edges_undirected names labels el) <->
            In x (map (fun '((a, b), lb) => (sorted_pair a b, lb)) observed).
Proof. unfold check_nx_undirected. apply (set_eqb_iff _ labelled_eqb_iff). Qed.

(* ------------------------------------------------------------------ *)
(** * Composition with ExportSchreier: the adjacency matrices of a completed run *)

Section MatricesSchreier.
  Variable G : impl.
  Variable cfg : bfs_cfg.
  Variable U : state -> Prop.
  Hypothesis U_closed : closed state (acts G) U.
  Hypothesis NoColl : forall a b, U a -> U b -> hashf G a = hashf G b -> a = b.
  Hypothesis IdOK : is_identity G = true -> forall a, U a -> unword G (hashf G a) = a.
  Hypothesis Sym : inv_closed G = true -> symmetric_on state (acts G) U.
  Hypothesis batch_pos : (1 <= batch_size cfg)%Z.
  Variable starts : list state.
  Hypothesis starts_U : forall s, In s starts -> U s.
  Hypothesis starts_ne : starts <> [].
  Hypothesis edges_on : ret_edges cfg = true.          (* return_all_edges=True *)
  Hypothesis hashes_on : ret_hashes cfg = true.        (* return_all_hashes=True *)
  Variable o : bfs_out.
  Variable es : list (Z * Z).
  Hypothesis run : bfs G cfg starts = Ok o.
  Hypothesis done : completed o = true.
  Hypothesis Hes : edges o = Some es.
  Hypothesis all_stored : length (layers o) = length (sizes o).

  Local Notation states := (all_states o).
  (* BfsResult.num_vertices = sum(layer_sizes) *)
  Local Notation nv := (fold_right Nat.add 0 (sizes o)).
  (* "some generator maps state i to state j" *)
  Definition gen_edge (i j : nat) : Prop :=
    exists g, In g (acts G) /\ g (nth i states []) = nth j states [].

  Variable m : list (Z * nat).
  Variable el : list (nat * nat).
  Hypothesis Hm : hashes_to_indices (layer_hashes o) (sizes o) = Ok m.
  Hypothesis Hel : edges_list m es = Ok el.

  Lemma el_char : length states = nv /\ length el = length es /\
    forall i j, In (i, j) el <-> i < nv /\ j < nv /\ gen_edge i j.
  Proof.
    destruct (export_is_schreier_graph G cfg U U_closed NoColl IdOK Sym batch_pos starts starts_U starts_ne
                edges_on hashes_on o es run done Hes all_stored)
      as (m' & el' & Hm' & Hel' & Hlen & _ & _ & Hn & _ & _ & Hiff).
    rewrite Hm in Hm'. inversion Hm'; subst m'. rewrite Hel in Hel'. inversion Hel'; subst el'.
    split; [exact Hn|]. split; [exact Hlen|]. intros i j. rewrite Hiff, Hn. reflexivity.
  Qed.

  Lemma el_in_range : edges_in_range nv el.
  Proof. intros i j Hin. apply el_char in Hin. tauto. Qed.

  Lemma el_symmetric : inv_closed G = true -> forall i j, In (i, j) el -> In (j, i) el.
  Proof.
    intros Hinv i j Hin. destruct el_char as (Hn & _ & Hiff). apply Hiff in Hin.
    destruct Hin as (Hi & Hj & g & Hg & Hgij). apply Hiff. split; [exact Hj|]. split; [exact Hi|].
    assert (HU : U (nth i states [])).
    { apply (states_U G cfg U U_closed NoColl IdOK Sym batch_pos starts starts_U starts_ne o run all_stored).
      apply nth_In. lia. }
    destruct (Sym Hinv g (nth i states []) Hg HU) as (g' & Hg' & Hback).
    exists g'. split; [exact Hg'|]. rewrite <- Hgij. exact Hback.
  Qed.

  (** (B5) On a completed run: adjacency_matrix() succeeds, is num_vertices x num_vertices with 0/1
      entries, and has a 1 at (i, j) exactly when some generator maps state i to state j;
      adjacency_matrix_sparse() has one entry per recorded edge and the same support; for an
      inverse-closed generator set the matrix is symmetric. *)
  Theorem export_adjacency_is_schreier :
    let A := adjacency_dense nv el in
    adjacency_matrix nv el = Ok A /\
    length A = nv /\ (forall r, In r A -> length r = nv) /\
    (forall r x, In r A -> In x r -> x = 0%Z \/ x = 1%Z) /\
    (forall i j, i < nv -> j < nv -> (nth j (nth i A []) 0%Z = 1%Z <-> gen_edge i j)) /\
    (forall i j, i < nv -> j < nv -> (nth j (nth i A []) 0%Z = 0%Z <-> ~ gen_edge i j)) /\
    length (adjacency_sparse el) = length es /\
    (forall i j, (exists v, In (i, j, v) (adjacency_sparse el)) <-> i < nv /\ j < nv /\ gen_edge i j) /\
    (forall i j v, In (i, j, v) (adjacency_sparse el) -> v = 1%Z) /\
    (inv_closed G = true -> mtranspose nv A = A).
  Proof.
    intros A. destruct el_char as (Hn & Hlen & Hiff).
    split; [apply adjacency_matrix_ok; split; [exact el_in_range | reflexivity]|].
    split; [apply dense_length|]. split; [intros r; apply dense_row_length|].
    split; [intros r x; apply dense_entries_01|].
    split.
    { intros i j Hi Hj. unfold A. rewrite (dense_entry_one nv el i j Hi Hj), Hiff. tauto. }
    split.
    { intros i j Hi Hj. unfold A. change (entry (adjacency_dense nv el) i j = 0%Z <-> ~ gen_edge i j).
      rewrite (dense_entry_zero nv el i j Hi Hj), Hiff. tauto. }
    split; [rewrite sparse_length; exact Hlen|].
    split; [intros i j; rewrite sparse_support_set; apply Hiff|].
    split; [intros i j v Hin; apply sparse_support in Hin; tauto|].
    intros Hinv. apply (dense_transpose_iff_in_range nv el el_in_range). apply el_symmetric. exact Hinv.
  Qed.

  (* the number stored by the COO matrix at (i, j) is the number of recorded edges i -> j *)
  Theorem export_sparse_multiplicity i j :
    coo_entry (adjacency_sparse el) i j = Z.of_nat (count_occ natpair_dec el (i, j)) /\
    ((0 < coo_entry (adjacency_sparse el) i j)%Z <-> i < nv /\ j < nv /\ gen_edge i j).
  Proof.
    split; [apply sparse_entry_count|]. rewrite sparse_entry_count.
    destruct el_char as (_ & _ & Hiff). rewrite <- Hiff. rewrite (count_occ_In natpair_dec). lia.
  Qed.

  (** named_undirected_edges on this graph, when distinct states have distinct names
      (ExportSchreier.export_vertex_names_distinct): {name i, name j} is listed iff some generator
      maps state i to state j or state j to state i *)
  Theorem export_named_undirected i j :
    NoDup (map vertex_name states) -> i < nv -> j < nv ->
    (In (sorted_pair (vertex_name (nth i states [])) (vertex_name (nth j states [])))
        (named_undirected (map vertex_name states) el)
     <-> gen_edge i j \/ gen_edge j i).
  Proof.
    intros Hnd Hi Hj. destruct el_char as (Hn & _ & Hiff).
    assert (Hlm : length (map vertex_name states) = nv) by (rewrite map_length; exact Hn).
    assert (Hname : forall k, k < nv -> vertex_name (nth k states []) = name_of (map vertex_name states) k).
    { intros k Hk. unfold name_of. symmetry. apply nth_map_lt. rewrite map_length in Hlm. rewrite Hlm. exact Hk. }
    rewrite (Hname i Hi), (Hname j Hj).
    rewrite (named_undirected_distinct_names (map vertex_name states) el i j).
    - rewrite !Hiff. tauto.
    - exact Hnd.
    - rewrite Hlm. exact el_in_range.
    - rewrite Hlm. exact Hi.
    - rewrite Hlm. exact Hj.
  Qed.
  (** to_networkx_graph(directed=True) on a permutation graph: the label stored on the edge
      (name i, name j) is get_edge_name(i, j), the name of the first generator mapping state i to state j *)
  Variable perms : list (list nat).
  Variable gnames : list string.
  Hypothesis acts_perms : acts G = map (fun p => apply_perm 0%Z p) perms.
  Hypothesis gnames_len : length gnames = length perms.

  (* get_edge_name(i, j), as a total function *)
  Definition edge_label (i j : nat) : string :=
    match edge_name perms gnames (nth i states []) (nth j states []) with Ok nm => nm | Err _ => ""%string end.

  Theorem export_nx_directed_labels i j :
    NoDup (map vertex_name states) -> In (i, j) el ->
    exists k,
      dict_get (vertex_name (nth i states []), vertex_name (nth j states []))
               (nx_edges_directed (map vertex_name states) (map (fun '(i, j) => edge_label i j) el) el)
        = Some (nth k gnames ""%string) /\
      edge_name perms gnames (nth i states []) (nth j states []) = Ok (nth k gnames ""%string) /\
      k < length perms /\
      apply_perm 0%Z (nth k perms []) (nth i states []) = nth j states [] /\
      forall k', k' < k -> apply_perm 0%Z (nth k' perms []) (nth i states []) <> nth j states [].
  Proof.
    intros Hnd Hin. destruct el_char as (Hn & _ & Hiff).
    assert (Hlm : length (map vertex_name states) = nv) by (rewrite map_length; exact Hn).
    destruct (export_edge_names G cfg U U_closed NoColl IdOK Sym batch_pos starts starts_U starts_ne
                edges_on hashes_on o es run done Hes all_stored perms gnames acts_perms gnames_len
                m el Hm Hel i j Hin) as (nm & k & Hnm & Hk & Hnth & Hmap & Hfirst).
    exists k. rewrite Hnth. split; [|auto].
    pose proof (nx_directed_functional_labels (map vertex_name states) el edge_label Hnd) as T.
    rewrite Hlm in T. specialize (T el_in_range i j Hin).
    assert (Hname : forall t, t < nv -> name_of (map vertex_name states) t = vertex_name (nth t states [])).
    { intros t Ht. unfold name_of. apply nth_map_lt. rewrite map_length in Hlm. rewrite Hlm. exact Ht. }
    destruct (el_in_range i j Hin) as [Hi Hj]. rewrite (Hname i Hi), (Hname j Hj) in T.
    rewrite T. unfold edge_label. rewrite Hnm. reflexivity.
  Qed.
End MatricesSchreier.

Print Assumptions dense_shape.
Print Assumptions dense_entry_one.
Print Assumptions dense_entries_01.
Print Assumptions dense_eq_spec.
Print Assumptions adjacency_matrix_err.
Print Assumptions sparse_support.
Print Assumptions sparse_entry_count.
Print Assumptions dense_vs_sparse.
Print Assumptions dense_symmetric_iff.
Print Assumptions dense_transpose_iff_in_range.
Print Assumptions named_undirected_char.
Print Assumptions named_undirected_elem.
Print Assumptions named_undirected_order.
Print Assumptions named_undirected_distinct_names.
Print Assumptions nx_directed_get.
Print Assumptions nx_directed_key_iff.
Print Assumptions nx_undirected_get.
Print Assumptions to_networkx_ok.
Print Assumptions check_dense_sound.
Print Assumptions check_sparse_iff.
Print Assumptions check_named_undirected_iff.
Print Assumptions check_nx_directed_iff.
Print Assumptions export_adjacency_is_schreier.
Print Assumptions export_sparse_multiplicity.
Print Assumptions export_named_undirected.
Print Assumptions nx_directed_functional_labels.
Print Assumptions export_nx_directed_labels.
Print Assumptions check_nx_undirected_iff.

(* ------------------------------------------------------------------ *)
(** * (C) Examples on 3-vertex graphs, and non-vacuity of every hypothesis used above *)

(** ** the directed 3-cycle with loops (rotation r and identity e on 3 points): ExportMatrices.Ex3,
       whose edge list / names are the export of the run ExportSchreier.Ex *)
Module Ex3Proofs.
  Import Ex3.

  Example dense_value : adjacency_dense 3 el = [[1; 1; 0]; [0; 1; 1]; [1; 0; 1]]%Z.
  Proof. vm_compute. reflexivity. Qed.

  Example matrix_value : adjacency_matrix 3 el = Ok [[1; 1; 0]; [0; 1; 1]; [1; 0; 1]]%Z.
  Proof. vm_compute. reflexivity. Qed.

  (* a vertex count that is too small: numpy's IndexError *)
  Example matrix_too_small : adjacency_matrix 2 el = Err IndexErr.
  Proof. vm_compute. reflexivity. Qed.

  Example sparse_value :
    adjacency_sparse el = [(0, 1, 1%Z); (0, 0, 1%Z); (1, 2, 1%Z); (1, 1, 1%Z); (2, 0, 1%Z); (2, 2, 1%Z)].
  Proof. vm_compute. reflexivity. Qed.

  Example in_range : edges_in_range 3 el.
  Proof. apply edges_in_range_b_iff. vm_compute. reflexivity. Qed.

  Example el_nodup : NoDup el.
  Proof.
    unfold el.
    repeat (constructor; [simpl; intros H; repeat (destruct H as [H | H]; [discriminate H|]); exact H|]).
    constructor.
  Qed.

  (* dense_entry_one at work: (0, 1) is an edge, (1, 0) is not *)
  Example entry_01 : nth 1 (nth 0 (adjacency_dense 3 el) []) 0%Z = 1%Z.
  Proof. apply dense_entry_one; [lia | lia | unfold el; simpl; auto]. Qed.
  Example entry_10 : entry (adjacency_dense 3 el) 1 0 = 0%Z.
  Proof.
    apply dense_entry_zero; [lia | lia|]. unfold el. simpl.
    intros H. repeat (destruct H as [H | H]; [discriminate H|]). exact H.
  Qed.

  (* not symmetric, in both readings of dense_transpose_iff_in_range *)
  Example not_symmetric : mtranspose 3 (adjacency_dense 3 el) <> adjacency_dense 3 el.
  Proof. vm_compute. discriminate. Qed.
  Example edges_not_symmetric : ~ (forall i j, In (i, j) el -> In (j, i) el).
  Proof. intros H. apply not_symmetric. apply (dense_transpose_iff_in_range 3 el in_range). exact H. Qed.

  (* dense = sparse entrywise here (no parallel edges) *)
  Example dense_is_sparse i j : i < 3 -> j < 3 ->
    entry (adjacency_dense 3 el) i j = coo_entry (adjacency_sparse el) i j.
  Proof. apply dense_eq_sparse_simple. exact el_nodup. Qed.

  Example named_value :
    named_undirected names el =
    [("012", "120"); ("012", "012"); ("120", "201"); ("120", "120"); ("012", "201"); ("201", "201")]%string.
  Proof. vm_compute. reflexivity. Qed.

  Example names_nodup : NoDup names.
  Proof. unfold names. repeat constructor; simpl; intuition discriminate. Qed.

  (* named_undirected_distinct_names at work: {name 0, name 2} is listed because of the row (2, 0) *)
  Example named_02 : In (sorted_pair (name_of names 0) (name_of names 2)) (named_undirected names el).
  Proof.
    apply named_undirected_distinct_names; [exact names_nodup | exact in_range | simpl; lia | simpl; lia|].
    right. unfold el. simpl. auto 10.
  Qed.

  Example nx_directed_value :
    nx_edges_directed names labels el =
    [(("012", "120"), "r"); (("012", "012"), "e"); (("120", "201"), "r"); (("120", "120"), "e");
     (("201", "012"), "r"); (("201", "201"), "e")]%string.
  Proof. vm_compute. reflexivity. Qed.

  (* the generators are not inverse closed: directed=True is required *)
  Example nx_needs_directed : to_networkx false false names labels el = Err AssertionErr.
  Proof. reflexivity. Qed.
  Example nx_directed_ok :
    to_networkx false true names labels el = Ok (names, nx_edges_directed names labels el).
  Proof. vm_compute. reflexivity. Qed.

  (* the checkers accept the recorded values of Ex3.case and reject a wrong matrix *)
  Example dense_checked : check_dense 3 el [[1; 1; 0]; [0; 1; 1]; [1; 0; 1]]%Z = true.
  Proof. vm_compute. reflexivity. Qed.
  Example dense_rejected : check_dense 3 el [[1; 1; 0]; [1; 1; 1]; [1; 0; 1]]%Z = false.
  Proof. vm_compute. reflexivity. Qed.
  Example sparse_rejected_reordered :
    check_sparse el [(0, 0, 1%Z); (0, 1, 1%Z); (1, 2, 1%Z); (1, 1, 1%Z); (2, 0, 1%Z); (2, 2, 1%Z)] = false.
  Proof. vm_compute. reflexivity. Qed.

  (** the composition theorem applied to the run ExportSchreier.Ex *)
  Example run_export : 
    hashes_to_indices (layer_hashes Ex.o) (sizes Ex.o) = Ok [(1%Z, 0); (5%Z, 1); (6%Z, 2)] /\
    edges_list [(1%Z, 0); (5%Z, 1); (6%Z, 2)] Ex.es = Ok el /\
    fold_right Nat.add 0 (sizes Ex.o) = 3 /\ map vertex_name (all_states Ex.o) = names.
  Proof. repeat split; vm_compute; reflexivity. Qed.

  Example adjacency_is_schreier_instance :
    forall i j, i < 3 -> j < 3 ->
      (nth j (nth i [[1; 1; 0]; [0; 1; 1]; [1; 0; 1]]%Z []) 0%Z = 1%Z <->
       exists g, In g (acts Ex.G) /\ g (nth i (all_states Ex.o) []) = nth j (all_states Ex.o) []).
  Proof.
    destruct Ex.hypotheses_hold as (H1 & H2 & H3 & H4 & H5 & H6 & H7 & H8 & H9 & H10 & H11 & H12 & H13 & _).
    destruct run_export as (Hm & Hel & Hn & _).
    pose proof (export_adjacency_is_schreier Ex.G Ex.cfg Ex.U H1 H2 H3 H4 H5 Ex.starts H6 H7 H8 H9 Ex.o Ex.es
                  H10 H11 H12 H13 _ _ Hm Hel) as T.
    cbv zeta in T. rewrite Hn in T. rewrite dense_value in T.
    destruct T as (_ & _ & _ & _ & T & _). exact T.
  Qed.

  (* get_edge_name of every row = the recorded labels, and the label theorem applied to row (0, 1) *)
  Example edge_labels_value : map (fun '(i, j) => edge_label Ex.o Ex.perms Ex.names i j) el = labels.
  Proof. vm_compute. reflexivity. Qed.

  Example nx_labels_instance :
    dict_get ("012", "120")%string (nx_edges_directed names labels el) = Some "r"%string.
  Proof.
    destruct Ex.hypotheses_hold as (H1 & H2 & H3 & H4 & H5 & H6 & H7 & H8 & H9 & H10 & H11 & H12 & H13 & H14 & H15).
    destruct run_export as (Hm & Hel & Hn & Hnames).
    assert (Hnd : NoDup (map vertex_name (all_states Ex.o))) by (rewrite Hnames; exact names_nodup).
    destruct (export_nx_directed_labels Ex.G Ex.cfg Ex.U H1 H2 H3 H4 H5 Ex.starts H6 H7 H8 H9 Ex.o Ex.es
                H10 H11 H12 H13 _ _ Hm Hel Ex.perms Ex.names H14 H15 0 1 Hnd ltac:(unfold el; simpl; auto))
      as (k & Hget & Hname & _).
    rewrite edge_labels_value, Hnames in Hget.
    assert (E : nth k Ex.names ""%string = "r"%string).
    { assert (V : edge_name Ex.perms Ex.names (nth 0 (all_states Ex.o) []) (nth 1 (all_states Ex.o) []) = Ok "r"%string)
        by (vm_compute; reflexivity).
      rewrite V in Hname. injection Hname as Hname. symmetry. exact Hname. }
    rewrite E in Hget.
    assert (V0 : vertex_name (nth 0 (all_states Ex.o) []) = "012"%string) by (vm_compute; reflexivity).
    assert (V1 : vertex_name (nth 1 (all_states Ex.o) []) = "120"%string) by (vm_compute; reflexivity).
    rewrite V0, V1 in Hget. exact Hget.
  Qed.

  (* nx_directed_functional_labels needs no run at all *)
  Example functional_labels_instance :
    dict_get (name_of names 2, name_of names 0)
             (nx_edges_directed names (map (fun '(i, j) => (i + 10 * j)) el) el) = Some 2.
  Proof.
    apply (nx_directed_functional_labels names el (fun i j => i + 10 * j) names_nodup in_range 2 0).
    unfold el. simpl. auto 10.
  Qed.
End Ex3Proofs.

(** ** an undirected 3-vertex graph: the path 001 - 010 - 100 with a loop at each end
       (binary strings with one 1 under the two adjacent transpositions; inverse closed) *)
Module ExPath.
  Definition perms : list (list nat) := [[1; 0; 2]; [0; 2; 1]].
  Definition gnames : list string := ["s01"; "s12"]%string.
  Definition G : impl :=
    {| acts := map (fun p => apply_perm 0%Z p) perms;
       hashf := fun s => (4 * nth 0 s 0 + 2 * nth 1 s 0 + nth 2 s 0)%Z;
       is_identity := false; unword := fun _ => []; inv_closed := true; central := [0; 0; 1]%Z |}.
  Definition cfg : bfs_cfg :=
    {| batch_size := 10; max_store := 1000; max_explore := 1000; max_diameter := 10%N;
       ret_edges := true; ret_hashes := true; no_batching := false; stop := None |}.
  Definition orbit : list state := [[0; 0; 1]; [0; 1; 0]; [1; 0; 0]]%Z.
  Definition U (s : state) : Prop := In s orbit.
  Definition starts : list state := [[0; 0; 1]]%Z.
  Definition o : bfs_out :=
    match bfs G cfg starts with Ok o => o | Err _ => {| completed := false; sizes := []; layers := [];
      layer_hashes := []; edges := None; callback_trace := [] |} end.
  Definition es : list (Z * Z) := match edges o with Some e => e | None => [] end.

  Definition m : list (Z * nat) := [(1%Z, 0); (2%Z, 1); (4%Z, 2)].
  Definition el : list (nat * nat) := [(0, 0); (0, 1); (1, 2); (1, 0); (2, 1); (2, 2)].
  Definition names : list string := ["001"; "010"; "100"]%string.
  Definition labels : list string := ["s01"; "s12"; "s01"; "s12"; "s01"; "s12"]%string.

  Lemma U_cases s : U s -> s = [0; 0; 1]%Z \/ s = [0; 1; 0]%Z \/ s = [1; 0; 0]%Z.
  Proof. unfold U, orbit. simpl. intuition. Qed.

  Example hypotheses_hold :
    closed state (acts G) U /\
    (forall a b, U a -> U b -> hashf G a = hashf G b -> a = b) /\
    (is_identity G = true -> forall a, U a -> unword G (hashf G a) = a) /\
    (inv_closed G = true -> symmetric_on state (acts G) U) /\
    (1 <= batch_size cfg)%Z /\ (forall s, In s starts -> U s) /\ starts <> [] /\
    ret_edges cfg = true /\ ret_hashes cfg = true /\
    bfs G cfg starts = Ok o /\ completed o = true /\ edges o = Some es /\
    length (layers o) = length (sizes o) /\ inv_closed G = true.
  Proof.
    split.
    { intros g x Hg Hx. simpl in Hg. apply U_cases in Hx.
      destruct Hg as [<- | [<- | []]]; destruct Hx as [-> | [-> | ->]]; unfold U, orbit; simpl; auto. }
    split.
    { intros a b Ha Hb. apply U_cases in Ha. apply U_cases in Hb.
      destruct Ha as [-> | [-> | ->]]; destruct Hb as [-> | [-> | ->]]; simpl; intros H;
        try reflexivity; discriminate H. }
    split; [discriminate|].
    split.
    { intros _ g x Hg Hx. exists g. split; [exact Hg|]. simpl in Hg. apply U_cases in Hx.
      destruct Hg as [<- | [<- | []]]; destruct Hx as [-> | [-> | ->]]; reflexivity. }
    split; [simpl; lia|].
    split. { intros s [<- | []]. unfold U, orbit. simpl. auto. }
    split; [discriminate|].
    split; [reflexivity|]. split; [reflexivity|].
    split; [vm_compute; reflexivity|]. split; [vm_compute; reflexivity|].
    split; [vm_compute; reflexivity|]. split; [vm_compute; reflexivity|]. reflexivity.
  Qed.

  Example run_export :
    all_states o = orbit /\
    hashes_to_indices (layer_hashes o) (sizes o) = Ok m /\ edges_list m es = Ok el /\
    fold_right Nat.add 0 (sizes o) = 3 /\ map vertex_name (all_states o) = names /\
    map (fun '(i, j) => edge_name perms gnames (nth i orbit []) (nth j orbit [])) el = map (fun s => Ok s) labels.
  Proof. repeat split; vm_compute; reflexivity. Qed.

  Example dense_value : adjacency_dense 3 el = [[1; 1; 0]; [1; 0; 1]; [0; 1; 1]]%Z.
  Proof. vm_compute. reflexivity. Qed.

  Example symmetric_value : mtranspose 3 (adjacency_dense 3 el) = adjacency_dense 3 el.
  Proof. vm_compute. reflexivity. Qed.

  Example named_value :
    named_undirected names el = [("001", "001"); ("001", "010"); ("010", "100"); ("100", "100")]%string.
  Proof. vm_compute. reflexivity. Qed.

  (* Graph(): the edge {001, 010} is added twice, first with label s12 (row (0,1)), then with s01
     (row (1,0)): the later label wins *)
  Example nx_undirected_value :
    nx_edges_undirected names labels el =
    [(("001", "001"), "s01"); (("001", "010"), "s12"); (("010", "100"), "s01"); (("100", "100"), "s12")]%string.
  Proof. vm_compute. reflexivity. Qed.

  Example nx_undirected_ok :
    to_networkx true false names labels el = Ok (names, nx_edges_undirected names labels el).
  Proof. vm_compute. reflexivity. Qed.

  (* nx_undirected_get at work on {010, 001}: the last row with these end points is row 3 = (1, 0) *)
  Example nx_undirected_get_instance :
    dict_get (sorted_pair "010" "001") (nx_edges_undirected names labels el) = Some "s12"%string.
  Proof.
    apply (nx_undirected_get names labels el "010" "001" "s12" (("", ""), ""))%string.
    exists 3. split; [vm_compute; lia|]. split; [reflexivity|]. split; [left; reflexivity|].
    intros t' H1 H2. assert (Hlen : length (nx_rows names labels el) = 6) by reflexivity.
    rewrite Hlen in H2. assert (Ht : t' = 4 \/ t' = 5) by lia.
    destruct Ht as [-> | ->]; split; vm_compute; discriminate.
  Qed.

  (** the composition theorem on this run, including the symmetric part (inv_closed = true) *)
  Example adjacency_is_schreier_instance :
    (forall i j, i < 3 -> j < 3 ->
       (nth j (nth i [[1; 1; 0]; [1; 0; 1]; [0; 1; 1]]%Z []) 0%Z = 1%Z <->
        exists g, In g (acts G) /\ g (nth i (all_states o) []) = nth j (all_states o) [])) /\
    mtranspose 3 [[1; 1; 0]; [1; 0; 1]; [0; 1; 1]]%Z = [[1; 1; 0]; [1; 0; 1]; [0; 1; 1]]%Z.
  Proof.
    destruct hypotheses_hold as (H1 & H2 & H3 & H4 & H5 & H6 & H7 & H8 & H9 & H10 & H11 & H12 & H13 & H14).
    destruct run_export as (_ & Hm & Hel & Hn & _).
    pose proof (export_adjacency_is_schreier G cfg U H1 H2 H3 H4 H5 starts H6 H7 H8 H9 o es
                  H10 H11 H12 H13 _ _ Hm Hel) as T.
    cbv zeta in T. rewrite Hn in T. rewrite dense_value in T.
    destruct T as (_ & _ & _ & _ & T & _ & _ & _ & _ & S). split; [exact T | exact (S H14)].
  Qed.

  (* export_named_undirected on this run: {001, 010} listed, {001, 100} not *)
  Example named_instance :
    In (sorted_pair "001" "010")%string (named_undirected names el) /\
    ~ In (sorted_pair "001" "100")%string (named_undirected names el).
  Proof.
    destruct hypotheses_hold as (H1 & H2 & H3 & H4 & H5 & H6 & H7 & H8 & H9 & H10 & H11 & H12 & H13 & H14).
    destruct run_export as (Hst & Hm & Hel & Hn & Hnames & _).
    assert (Hnd : NoDup (map vertex_name (all_states o))).
    { rewrite Hnames. unfold names. repeat constructor; simpl; intuition discriminate. }
    pose proof (export_named_undirected G cfg U H1 H2 H3 H4 H5 starts H6 H7 H8 H9 o es
                  H10 H11 H12 H13 _ _ Hm Hel) as T.
    rewrite Hn, Hnames, Hst in T. split.
    - apply (T 0 1 Hnd); [lia | lia|]. left. exists (apply_perm 0%Z [0; 2; 1]). split; [simpl; auto | reflexivity].
    - intros H. apply (T 0 2 Hnd) in H; [|lia|lia].
      destruct H as [(g & Hg & E) | (g & Hg & E)]; simpl in Hg;
        destruct Hg as [<- | [<- | []]]; vm_compute in E; discriminate E.
  Qed.
End ExPath.

(** ** parallel edges: two generators doing the same thing.  The COO matrix keeps both entries
       (scipy sums them to 2), the dense matrix says 1. *)
Module ExParallel.
  Definition el : list (nat * nat) := [(0, 1); (0, 1); (1, 2); (1, 2); (2, 0); (2, 0)].
  Example dense_value : adjacency_dense 3 el = [[0; 1; 0]; [0; 0; 1]; [1; 0; 0]]%Z.
  Proof. vm_compute. reflexivity. Qed.
  Example sparse_len : length (adjacency_sparse el) = 6.
  Proof. reflexivity. Qed.
  Example sparse_entry : coo_entry (adjacency_sparse el) 0 1 = 2%Z.
  Proof. reflexivity. Qed.
  Example dense_min : entry (adjacency_dense 3 el) 0 1 = Z.min 1 (coo_entry (adjacency_sparse el) 0 1).
  Proof. apply dense_vs_sparse; lia. Qed.
End ExParallel.
