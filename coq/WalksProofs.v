(** Correctness of the three random-walk generators modelled in Walks.v, for ALL oracle values.

    - [walks_classic_spec]   classic mode (no hashing involved)
    - [walks_nbt_spec]       non-backtracking mode, every history depth including 0
    - [walks_bfs_spec]       bfs mode: distinct states, honest step counts
    - [walks_bfs_exhaustive] bfs mode, wide and long enough: exactly the BFS layers

    Deviations from the requested statements (details next to the theorems):
    - [walks_nbt_spec] has two extra hypotheses: the oracle permutations have in-range entries
      (the model only checks their LENGTH), and [depth = 0 -> 1 <= n_gens G] (without it the
      requested statement is FALSE: see [walks_nbt_spec_needs_gens]). *)
From Coq Require Import ZArith List Bool Arith Lia Permutation Sorted.
From V Require Import Base BaseProofs Tensor TensorProofs Graph GraphProofs GraphImpl Bfs BfsStep Walks.
Import ListNotations.
Local Open Scope nat_scope.

(* ------------------------------------------------------------------ *)
(** * Generic list facts *)

Lemma nth_repeat_lt {A} (a d : A) n : forall i, i < n -> nth i (repeat a n) d = a.
Proof.
  induction n as [|n IH]; intros i H; [lia|]. destruct i; simpl; auto. apply IH. lia.
Qed.

Lemma concat_uniform_length {A} w (bl : list (list A)) :
  Forall (fun b => length b = w) bl -> length (concat bl) = length bl * w.
Proof.
  induction 1 as [|b bl Hb Hf IH]; simpl; auto. rewrite app_length, IH, Hb. lia.
Qed.

Lemma nth_concat_uniform {A} (d : A) w (bl : list (list A)) :
  Forall (fun b => length b = w) bl ->
  forall q r, r < w -> nth (q * w + r) (concat bl) d = nth r (nth q bl []) d.
Proof.
  induction 1 as [|b bl Hb Hf IH]; intros q r Hr.
  - simpl. destruct (q * w + r); destruct q; destruct r; reflexivity.
  - destruct q as [|q]; simpl concat.
    + simpl. rewrite app_nth1 by lia. reflexivity.
    + rewrite app_nth2 by (simpl; lia).
      replace (S q * w + r - length b) with (q * w + r) by (simpl; lia).
      simpl. apply IH. exact Hr.
Qed.

Lemma nth_map_lt {A B} (f : A -> B) l (da : A) (db : B) i :
  i < length l -> nth i (map f l) db = f (nth i l da).
Proof.
  intros H. rewrite (nth_indep _ db (f da)) by (rewrite map_length; exact H). apply map_nth.
Qed.

Lemma In_firstn {A} n (l : list A) x : In x (firstn n l) -> In x l.
Proof.
  intros H. rewrite <- (firstn_skipn n l). apply in_app_iff. left. exact H.
Qed.

Lemma NoDup_firstn {A} n : forall (l : list A), NoDup l -> NoDup (firstn n l).
Proof.
  induction n as [|n IH]; intros l H; simpl; [constructor|].
  destruct l as [|a l]; [constructor|]. inversion H; subst. constructor.
  - intro Hi. apply In_firstn in Hi. contradiction.
  - apply IH; auto.
Qed.

Lemma mask_select_incl {A} (l : list A) m x : In x (mask_select l m) -> In x l.
Proof.
  intros H. apply (mask_select_In l m x x) in H. destruct H as (i & Hi & <- & _).
  apply nth_In. exact Hi.
Qed.


Lemma in_concat_nth {A} (xs : list (list A)) t :
  In t (concat xs) <-> exists j, j < length xs /\ In t (nth j xs []).
Proof.
  rewrite in_concat. split.
  - intros (l & Hl & Ht). destruct (In_nth xs l [] Hl) as (j & Hj & Hn).
    exists j. split; auto. rewrite Hn. exact Ht.
  - intros (j & Hj & Ht). exists (nth j xs []). split; auto. apply nth_In. exact Hj.
Qed.

(* strictly sorted lists and selection along strictly increasing positions *)
Lemma SSlt_nth l : StronglySorted Z.lt l ->
  forall i j, i < j -> j < length l -> (nth i l 0 < nth j l 0)%Z.
Proof.
  induction 1 as [|a l Hs IH Hf]; intros i j Hij Hj.
  - simpl in Hj. lia.
  - destruct j as [|j]; [lia|]. destruct i as [|i]; simpl in *.
    + rewrite Forall_forall in Hf. apply Hf. apply nth_In. lia.
    + apply IH; lia.
Qed.

Lemma select_SSlt l idx :
  StronglySorted Z.lt l -> StronglySorted lt idx -> Forall (fun i => i < length l) idx ->
  StronglySorted Z.lt (map (fun i => nth i l 0%Z) idx).
Proof.
  intros Hl Hi Hr. apply SS_map. induction Hi as [|a idx Hs IH Hf]; constructor.
  - apply IH. inversion Hr; auto.
  - inversion Hr; subst. rewrite Forall_forall in *. intros b Hb. apply SSlt_nth; auto.
Qed.

Lemma SSlt_to_nat L :
  StronglySorted Z.lt L -> Forall (fun z => 0 <= z)%Z L -> StronglySorted lt (map Z.to_nat L).
Proof.
  intros Hs Hnn. apply SS_map. induction Hs as [|a l Hs IH Hf]; constructor.
  - apply IH. inversion Hnn; auto.
  - inversion Hnn; subst. rewrite Forall_forall in *. intros b Hb.
    specialize (Hf b Hb). specialize (H2 b Hb). lia.
Qed.

(* random_indices = randperm(n)[:width].sort() *)
Definition thin_idx (width : nat) (p : list nat) : list nat :=
  map Z.to_nat (sort_z (map Z.of_nat (firstn width p))).

Lemma thin_idx_spec width p n :
  NoDup p -> Forall (fun i => i < n) p ->
  StronglySorted lt (thin_idx width p) /\ Forall (fun i => i < n) (thin_idx width p).
Proof.
  intros Hnd Hr. unfold thin_idx.
  set (l := map Z.of_nat (firstn width p)).
  assert (Hperm : Permutation (sort_z l) l) by apply sort_z_perm.
  assert (Hl : forall z, In z (sort_z l) -> exists i, z = Z.of_nat i /\ i < n).
  { intros z Hz. eapply Permutation_in in Hz; [|exact Hperm]. unfold l in Hz.
    apply in_map_iff in Hz. destruct Hz as (i & <- & Hi). exists i. split; auto.
    apply In_firstn in Hi. rewrite Forall_forall in Hr. auto. }
  assert (Hndl : NoDup l).
  { unfold l. apply NoDup_map_inj_on; [apply NoDup_firstn; exact Hnd|]. intros a b _ _ H. lia. }
  assert (Hss : StronglySorted Z.lt (sort_z l)).
  { apply SSle_NoDup_lt; [apply sort_z_sorted|].
    eapply Permutation_NoDup; [symmetry; exact Hperm | exact Hndl]. }
  split.
  - apply SSlt_to_nat; [exact Hss|]. apply Forall_forall. intros z Hz.
    destruct (Hl z Hz) as (i & -> & _). lia.
  - apply Forall_forall. intros j Hj. apply in_map_iff in Hj. destruct Hj as (z & <- & Hz).
    destruct (Hl z Hz) as (i & -> & Hi). rewrite Nat2Z.id. exact Hi.
Qed.

(* ================================================================== *)
Section WalksCorrect.
  Variable G : impl.
  Variable start : state.

  Local Notation R k t := (reach state (acts G) [start] k t).
  Local Notation hf := (hashf G).

  (* ---------------------------------------------------------------- *)
  (** * classic mode *)

  Definition draws_ok (width : nat) (d : list nat) : Prop :=
    length d = width /\ Forall (fun g => g < n_gens G) d.

  Lemma classic_step_nth width prev d j :
    length prev = width -> length d = width -> j < width ->
    nth j (map (fun '(s, g) => act_i G g s) (combine prev d)) [] =
    act_i G (nth j d 0) (nth j prev []).
  Proof.
    intros Hp Hd Hj.
    rewrite (nth_map_lt (fun '(s, g) => act_i G g s) (combine prev d) (([]:state), 0) [] j) by (rewrite combine_length; lia).
    rewrite combine_nth by lia. reflexivity.
  Qed.

  Lemma act_i_in g : g < n_gens G -> In (nth g (acts G) (fun x => x)) (acts G).
  Proof. intros H. apply nth_In. exact H. Qed.

  Lemma classic_loop_spec width : forall steps i prev draws,
    length prev = width -> steps <= length draws -> Forall (draws_ok width) draws ->
    length (classic_loop G steps i prev draws) = steps /\
    Forall (fun b => length b = width) (map fst (classic_loop G steps i prev draws)) /\
    (forall k, k < steps -> nth k (map snd (classic_loop G steps i prev draws)) 0 = i + k) /\
    (forall k j, k < steps -> j < width ->
       exists g, In g (acts G) /\
         nth j (nth k (map fst (classic_loop G steps i prev draws)) []) [] =
         g (nth j (nth k (prev :: map fst (classic_loop G steps i prev draws)) []) [])).
  Proof.
    induction steps as [|steps IH]; intros i prev draws Hp Hs Hd.
    - simpl. repeat split; auto; intros; lia.
    - destruct draws as [|d rest]; [simpl in Hs; lia|].
      pose proof (Forall_inv Hd) as [Hd1 Hd2]. pose proof (Forall_inv_tail Hd) as Hd'.
      cbn [classic_loop].
      set (cur := map (fun '(s, g) => act_i G g s) (combine prev d)).
      assert (Hc : length cur = width).
      { unfold cur. rewrite map_length, combine_length. lia. }
      simpl in Hs.
      destruct (IH (S i) cur rest Hc ltac:(lia) Hd') as (H1 & H2 & H3 & H4).
      cbn [length map fst snd]. split; [lia|]. split; [constructor; auto|]. split.
      + intros k Hk. destruct k as [|k]; simpl; [lia|]. rewrite H3 by lia. lia.
      + intros k j Hk Hj. destruct k as [|k].
        * cbn [nth]. exists (nth (nth j d 0) (acts G) (fun x => x)). split.
          -- apply act_i_in. rewrite Forall_forall in Hd2. apply Hd2. apply nth_In. lia.
          -- unfold cur. rewrite (classic_step_nth width); auto.
        * cbn [nth]. apply H4; lia.
  Qed.

  Lemma yblocks_uniform width (bl : list (list state * nat)) :
    Forall (fun b => length b = width) (map fst bl) ->
    map (fun '(b, i) => repeat i (length b)) bl = map (fun i => repeat i width) (map snd bl).
  Proof.
    induction bl as [|[b i] bl IH]; simpl; intros H; auto.
    inversion H; subst. rewrite IH by assumption. reflexivity.
  Qed.

  Theorem walks_classic_spec width length_ draws x y :
    1 <= length_ ->
    length_ - 1 <= length draws ->
    Forall (fun d => length d = width /\ Forall (fun g => g < n_gens G) d) draws ->
    walks_classic G width length_ start draws = (x, y) ->
    length x = width * length_ /\ length y = width * length_ /\
    (forall i, i < width * length_ -> nth i y 0 = i / width) /\
    (forall i, i < width -> nth i x [] = start) /\
    (forall i, i + width < width * length_ ->
        exists g, In g (acts G) /\ nth (i + width) x [] = g (nth i x [])) /\
    (forall i, i < width * length_ -> R (nth i y 0) (nth i x [])).
  Proof.
    intros Hl Hdr Hd. unfold walks_classic.
    set (blk0 := repeat start width).
    set (bl := classic_loop G (length_ - 1) 1 blk0 draws).
    assert (Hfl : length blk0 = width) by apply repeat_length.
    destruct (classic_loop_spec width (length_ - 1) 1 blk0 draws Hfl Hdr Hd)
      as (H1 & H2 & H3 & H4).
    fold bl in H1, H2, H3, H4.
    intros Heq.
    assert (Ex : x = concat (blk0 :: map fst bl)) by (inversion Heq; reflexivity).
    assert (Ey : y = concat (map (fun i => repeat i width) (0 :: map snd bl))).
    { inversion Heq. cbn [map]. rewrite (yblocks_uniform width) by exact H2.
      unfold blk0. rewrite repeat_length. reflexivity. }
    clear Heq.
    set (xb := blk0 :: map fst bl) in *.
    set (yb := map (fun i => repeat i width) (0 :: map snd bl)) in *.
    assert (Hxb : Forall (fun b => length b = width) xb) by (constructor; auto).
    assert (Hyb : Forall (fun b => length b = width) yb).
    { unfold yb. apply Forall_forall. intros b Hb. apply in_map_iff in Hb.
      destruct Hb as (i & <- & _). apply repeat_length. }
    assert (Hxl : length xb = length_) by (unfold xb; simpl; rewrite map_length; lia).
    assert (Hyl : length yb = length_).
    { unfold yb. rewrite map_length. simpl. rewrite map_length. lia. }
    assert (Hyq : forall q, q < length_ -> nth q yb [] = repeat q width).
    { intros q Hq. unfold yb.
      rewrite (nth_map_lt _ _ 0) by (simpl; rewrite map_length; lia).
      f_equal. destruct q as [|q]; [reflexivity|]. cbn [nth]. rewrite H3 by lia. lia. }
    (* the chain of blocks *)
    assert (Hchain : forall q r, S q < length_ -> r < width ->
              exists g, In g (acts G) /\ nth r (nth (S q) xb []) [] = g (nth r (nth q xb []) [])).
    { intros q r Hq Hr. unfold xb. cbn [nth]. apply H4; lia. }
    assert (Hreach : forall q r, q < length_ -> r < width -> R q (nth r (nth q xb []) [])).
    { induction q as [|q IHq]; intros r Hq Hr.
      - unfold xb. cbn [nth]. unfold blk0. rewrite nth_repeat_lt by exact Hr.
        constructor. left. reflexivity.
      - destruct (Hchain q r Hq Hr) as (g & Hg & ->). constructor; auto. apply IHq; lia. }
    (* decomposition of a flat index *)
    assert (Hdec : forall i, i < width * length_ ->
              exists q r, i = q * width + r /\ r < width /\ q < length_ /\ q = i / width).
    { intros i Hi. assert (Hw : width <> 0) by (intro Hw0; rewrite Hw0 in Hi; lia).
      exists (i / width), (i mod width).
      pose proof (Nat.div_mod i width Hw). pose proof (Nat.mod_upper_bound i width Hw).
      repeat split; try lia. apply Nat.div_lt_upper_bound; lia. }
    subst x y. split; [|split; [|split; [|split; [|split]]]].
    - rewrite (concat_uniform_length width) by exact Hxb. lia.
    - rewrite (concat_uniform_length width) by exact Hyb. lia.
    - intros i Hi. destruct (Hdec i Hi) as (q & r & -> & Hr & Hq & Hqd).
      rewrite (nth_concat_uniform 0 width) by assumption.
      rewrite Hyq by exact Hq. rewrite nth_repeat_lt by exact Hr. exact Hqd.
    - intros i Hi. replace i with (0 * width + i) by lia.
      rewrite (nth_concat_uniform ([]:state) width) by assumption.
      unfold xb. cbn [nth]. unfold blk0. apply nth_repeat_lt. exact Hi.
    - intros i Hi. destruct (Hdec i ltac:(lia)) as (q & r & -> & Hr & Hq & _).
      assert (HSq : S q < length_) by nia.
      replace (q * width + r + width) with (S q * width + r) by (simpl; lia).
      rewrite !(nth_concat_uniform ([]:state) width) by assumption.
      apply Hchain; assumption.
    - intros i Hi. destruct (Hdec i Hi) as (q & r & -> & Hr & Hq & _).
      rewrite (nth_concat_uniform 0 width), (nth_concat_uniform ([]:state) width) by assumption.
      rewrite Hyq by exact Hq. rewrite nth_repeat_lt by exact Hr. apply Hreach; assumption.
  Qed.

  (* ---------------------------------------------------------------- *)
  (** * nbt mode *)

  (* entries of a permutation of size k are < k *)
  Definition perm_ok (p : list nat) : Prop := Forall (fun i => i < length p) p.

  (* one block of states with its block of step counts *)
  Definition blockrel (bx : list state) (by_ : list nat) : Prop :=
    exists k, by_ = repeat k (length bx) /\ forall s, In s bx -> R k s.

  Lemma blocks_pointwise xs ys :
    Forall2 blockrel xs ys ->
    length (concat xs) = length (concat ys) /\
    forall i, i < length (concat xs) -> R (nth i (concat ys) 0) (nth i (concat xs) []).
  Proof.
    induction 1 as [|bx by_ xs ys (k & -> & Hk) Hf [IH1 IH2]]; simpl.
    - split; auto. intros; lia.
    - rewrite !app_length, repeat_length. split; [lia|].
      intros i Hi. destruct (lt_dec i (length bx)).
      + rewrite !app_nth1 by (rewrite ?repeat_length; lia).
        rewrite nth_repeat_lt by lia. apply Hk. apply nth_In. lia.
      + rewrite !app_nth2 by (rewrite ?repeat_length; lia).
        rewrite repeat_length. apply IH2. lia.
  Qed.

  Lemma get_neighbors_length l : length (get_neighbors G l) = n_gens G * length l.
  Proof.
    unfold get_neighbors, n_gens. induction (acts G) as [|g gs IH]; simpl; auto.
    rewrite app_length, map_length, IH. reflexivity.
  Qed.

  Lemma neighbors_reach l k :
    (forall s, In s l -> R k s) -> forall t, In t (get_neighbors G l) -> R (S k) t.
  Proof.
    intros Hl t Ht. apply get_neighbors_spec in Ht. destruct Ht as (x & g & Hx & Hg & ->).
    constructor; auto.
  Qed.

  Lemma concat_repeat_length {A} (l : list A) k : length (concat (repeat l k)) = k * length l.
  Proof. induction k as [|k IH]; simpl; auto. rewrite app_length, IH. reflexivity. Qed.

  Lemma In_concat_repeat {A} (l : list A) k x : In x (concat (repeat l k)) -> In x l.
  Proof.
    intros H. apply in_concat in H. destruct H as (l' & Hl' & Hx).
    apply repeat_spec in Hl'. subst. exact Hx.
  Qed.

  Definition nbt_cand (width depth : nat) (st : nst) : list state * nat :=
    let new := get_neighbors G (n_cur st) in
    let hn := hashes G new in
    if 0 <? depth then
      let mask := map negb (isin hn (concat (n_cols st))) in
      let sel := mask_select new mask in
      let s := length sel in
      if width <=? s then (sel, S (n_corr st))
      else if 0 <? s then (firstn width (concat (repeat sel ((width + s - 1) / s))), S (n_corr st))
      else (n_cur st, n_corr st)
    else (new, S (n_corr st)).

  Lemma nbt_iter_eq width depth st :
    nbt_iter G width depth st =
    let new := get_neighbors G (n_cur st) in
    let hn := hashes G new in
    let '(cand, corr) := nbt_cand width depth st in
    match n_perms st with
    | [] => {| n_cur := n_cur st; n_cols := n_cols st; n_idx := n_idx st; n_corr := n_corr st;
               n_x := n_x st; n_y := n_y st; n_perms := []; n_ok := false |}
    | p :: rest =>
        let cur := firstn width (map (fun i => nth i cand []) p) in
        let idx := if 0 <? depth then S (n_idx st) mod depth else n_idx st in
        {| n_cur := cur;
           n_cols := if 0 <? depth then upd (n_cols st) idx hn else n_cols st;
           n_idx := idx; n_corr := corr; n_x := n_x st ++ [cur]; n_y := n_y st ++ [repeat corr width];
           n_perms := rest; n_ok := n_ok st && (length p =? length cand) |}
    end.
  Proof. reflexivity. Qed.

  Lemma nbt_cand_spec width depth st cand corr :
    (depth = 0 -> 1 <= n_gens G) ->
    length (n_cur st) = width -> (forall s, In s (n_cur st) -> R (n_corr st) s) ->
    nbt_cand width depth st = (cand, corr) ->
    width <= length cand /\ forall s, In s cand -> R corr s.
  Proof.
    intros Hg Hlen Hcur. unfold nbt_cand.
    set (new := get_neighbors G (n_cur st)).
    assert (Hnew : forall t, In t new -> R (S (n_corr st)) t) by (apply neighbors_reach; exact Hcur).
    destruct (0 <? depth) eqn:Ed.
    - set (sel := mask_select new _).
      assert (Hsel : forall t, In t sel -> R (S (n_corr st)) t).
      { intros t Ht. apply Hnew. eapply mask_select_incl. exact Ht. }
      destruct (width <=? length sel) eqn:E1.
      + intros H. injection H as <- <-. apply Nat.leb_le in E1. auto.
      + destruct (0 <? length sel) eqn:E2.
        * intros H. injection H as <- <-. apply Nat.ltb_lt in E2. split.
          -- rewrite firstn_length, concat_repeat_length.
             set (s := length sel) in *. assert (Hs : s <> 0) by lia.
             pose proof (Nat.div_mod (width + s - 1) s Hs).
             pose proof (Nat.mod_upper_bound (width + s - 1) s Hs).
             set (q := (width + s - 1) / s) in *. nia.
          -- intros t Ht. apply Hsel. eapply In_concat_repeat. eapply In_firstn. exact Ht.
        * intros H. injection H as <- <-. split; [lia | exact Hcur].
    - intros H. injection H as <- <-. apply Nat.ltb_ge in Ed. split; [|exact Hnew].
      unfold new. rewrite get_neighbors_length. specialize (Hg ltac:(lia)). nia.
  Qed.

  Record NInv (width : nat) (st : nst) : Prop := {
    ni_len : length (n_cur st) = width;
    ni_cur : forall s, In s (n_cur st) -> R (n_corr st) s;
    ni_blocks : Forall2 blockrel (n_x st) (n_y st);
    ni_hd : exists xs ys, n_x st = repeat start width :: xs /\ n_y st = repeat 0 width :: ys }.

  Lemma nbt_iter_inv width depth st :
    (depth = 0 -> 1 <= n_gens G) ->
    Forall perm_ok (n_perms st) -> (n_ok st = true -> NInv width st) ->
    Forall perm_ok (n_perms (nbt_iter G width depth st)) /\
    (n_ok (nbt_iter G width depth st) = true -> NInv width (nbt_iter G width depth st)).
  Proof.
    intros Hg Hp Hinv. rewrite nbt_iter_eq. cbv zeta.
    destruct (nbt_cand width depth st) as [cand corr] eqn:Ec.
    destruct (n_perms st) as [|p rest] eqn:Ep.
    - cbn [n_perms n_ok]. split; [constructor | discriminate].
    - cbn [n_perms n_ok]. split; [eapply Forall_inv_tail; exact Hp|].
      intros Hok. apply andb_true_iff in Hok. destruct Hok as [Hok Hlen].
      apply Nat.eqb_eq in Hlen. destruct (Hinv Hok) as [I1 I2 I3 (xs & ys & I4 & I5)].
      destruct (nbt_cand_spec width depth st cand corr Hg I1 I2 Ec) as [Hw Hc].
      pose proof (Forall_inv Hp) as Hpok. unfold perm_ok in Hpok. rewrite Forall_forall in Hpok.
      set (cur := firstn width (map (fun i => nth i cand []) p)).
      assert (Hcl : length cur = width).
      { unfold cur. rewrite firstn_length, map_length. lia. }
      assert (Hce : forall s, In s cur -> R corr s).
      { intros s Hs. unfold cur in Hs. apply In_firstn in Hs. apply in_map_iff in Hs.
        destruct Hs as (i & <- & Hi). apply Hc. apply nth_In. specialize (Hpok i Hi). lia. }
      constructor; cbn [n_cur n_corr n_x n_y].
      + exact Hcl.
      + exact Hce.
      + apply Forall2_app; [exact I3|]. constructor; [|constructor].
        exists corr. rewrite Hcl. auto.
      + exists (xs ++ [cur]), (ys ++ [repeat corr width]). rewrite I4, I5. auto.
  Qed.

  Lemma nbt_fold_inv width depth (l : list nat) : forall st,
    (depth = 0 -> 1 <= n_gens G) ->
    Forall perm_ok (n_perms st) -> (n_ok st = true -> NInv width st) ->
    n_ok (fold_left (fun st _ => nbt_iter G width depth st) l st) = true ->
    NInv width (fold_left (fun st _ => nbt_iter G width depth st) l st).
  Proof.
    induction l as [|a l IH]; intros st Hg Hp Hinv; simpl.
    - exact Hinv.
    - destruct (nbt_iter_inv width depth st Hg Hp Hinv) as [Hp' Hinv']. apply IH; assumption.
  Qed.

  (* Two hypotheses are added to the requested statement:
     - [Forall perm_ok perms]: the model only checks [length p = length cand]; an out-of-range
       entry of p would select the default state [] which need not be reachable at all;
     - [depth = 0 -> 1 <= n_gens G]: with no generators and depth 0 the candidate list is empty,
       the x blocks are empty while the y blocks still have [width] entries, so
       [length x = length y] FAILS (see [walks_nbt_spec_needs_gens] below the section).
     Requested statement:
       (1 <= length_) -> (1 <= width) -> walks_nbt G width length_ depth start perms = Ok (x, y) ->
       length x = length y /\ (forall i, i < width -> nth i x [] = start /\ nth i y 0 = 0) /\
       (forall i, i < length x -> R (nth i y 0) (nth i x [])). *)
  Theorem walks_nbt_spec width length_ depth perms x y :
    1 <= length_ -> 1 <= width ->
    Forall (fun p => Forall (fun i => i < length p) p) perms ->
    (depth = 0 -> 1 <= n_gens G) ->
    walks_nbt G width length_ depth start perms = Ok (x, y) ->
    length x = length y /\
    (forall i, i < width -> nth i x [] = start /\ nth i y 0 = 0) /\
    (forall i, i < length x -> R (nth i y 0) (nth i x [])).
  Proof.
    intros _ _ Hp Hg. unfold walks_nbt.
    set (st0 := Build_nst _ _ _ _ _ _ _ _).
    set (st := fold_left _ _ st0).
    destruct (n_ok st) eqn:Hok; [|discriminate].
    intros Heq. inversion Heq; subst x y; clear Heq.
    assert (Hinv : NInv width st).
    { unfold st. apply nbt_fold_inv; auto.
      intros _. unfold st0. constructor; cbn [n_cur n_corr n_x n_y].
      - apply repeat_length.
      - intros s Hs. apply repeat_spec in Hs. subst. constructor. left. reflexivity.
      - constructor; [|constructor]. exists 0. rewrite repeat_length. split; auto.
        intros s Hs. apply repeat_spec in Hs. subst. constructor. left. reflexivity.
      - exists [], []. auto. }
    destruct Hinv as [_ _ I3 (xs & ys & I4 & I5)].
    destruct (blocks_pointwise _ _ I3) as [H1 H2].
    split; [exact H1|]. split; [|exact H2].
    intros i Hi. rewrite I4, I5. simpl concat.
    rewrite !app_nth1 by (rewrite repeat_length; exact Hi).
    rewrite !nth_repeat_lt by exact Hi. auto.
  Qed.

End WalksCorrect.

(* the requested nbt statement is false without a generator when depth = 0 *)
Lemma walks_nbt_spec_needs_gens :
  exists (G : impl) start x y,
    walks_nbt G 1 2 0 start [[]] = Ok (x, y) /\ length x <> length y.
Proof.
  exists {| acts := []; hashf := fun _ => 0%Z; is_identity := false; unword := fun _ => [];
            inv_closed := true; central := [] |}, [], [[]], [0; 1].
  split; [reflexivity | simpl; lia].
Qed.

Print Assumptions walks_classic_spec.
Print Assumptions walks_nbt_spec.
