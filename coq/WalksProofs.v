(** Correctness of the three random-walk generators modelled in Walks.v, for ALL oracle values.

    - [walks_classic_spec]   classic mode (no hashing involved)
    - [walks_nbt_spec]       non-backtracking mode, every history depth including 0
    - [walks_bfs_spec]       bfs mode: distinct states, honest step counts
    - [walks_bfs_exhaustive] bfs mode, wide and long enough: exactly the BFS layers

    Deviations from the requested statements (details next to the theorems):
    - [walks_nbt_spec] has two extra hypotheses: the oracle permutations have in-range entries
      (the model only checks their LENGTH), and [depth = 0 -> 1 <= n_gens G] (without it the
      requested statement is FALSE: see [walks_nbt_spec_needs_gens]). *)
From Coq Require Import ZArith List Bool Arith Lia Permutation Sorted.
From V Require Import Base BaseProofs Tensor TensorProofs Graph GraphProofs GraphImpl Bfs BfsStep Walks.
Import ListNotations.
Local Open Scope nat_scope.

(* ------------------------------------------------------------------ *)
(** * Generic list facts *)

Lemma nth_repeat_lt {A} (a d : A) n : forall i, i < n -> nth i (repeat a n) d = a.
Proof.
  induction n as [|n IH]; intros i H; [lia|]. destruct i; simpl; auto. apply IH. lia.
Qed.

Lemma concat_uniform_length {A} w (bl : list (list A)) :
  Forall (fun b => length b = w) bl -> length (concat bl) = length bl * w.
Proof.
  induction 1 as [|b bl Hb Hf IH]; simpl; auto. rewrite app_length, IH, Hb. lia.
Qed.

Lemma nth_concat_uniform {A} (d : A) w (bl : list (list A)) :
  Forall (fun b => length b = w) bl ->
  forall q r, r < w -> nth (q * w + r) (concat bl) d = nth r (nth q bl []) d.
Proof.
  induction 1 as [|b bl Hb Hf IH]; intros q r Hr.
  - simpl. destruct (q * w + r); destruct q; destruct r; reflexivity.
  - destruct q as [|q]; simpl concat.
    + simpl. rewrite app_nth1 by lia. reflexivity.
    + rewrite app_nth2 by (simpl; lia).
      replace (S q * w + r - length b) with (q * w + r) by (simpl; lia).
      simpl. apply IH. exact Hr.
Qed.

Lemma nth_map_lt {A B} (f : A -> B) l (da : A) (db : B) i :
  i < length l -> nth i (map f l) db = f (nth i l da).
Proof.
  intros H. rewrite (nth_indep _ db (f da)) by (rewrite map_length; exact H). apply map_nth.
Qed.

Lemma In_firstn {A} n (l : list A) x : In x (firstn n l) -> In x l.
Proof.
  intros H. rewrite <- (firstn_skipn n l). apply in_app_iff. left. exact H.
Qed.

Lemma NoDup_firstn {A} n : forall (l : list A), NoDup l -> NoDup (firstn n l).
Proof.
  induction n as [|n IH]; intros l H; simpl; [constructor|].
  destruct l as [|a l]; [constructor|]. inversion H; subst. constructor.
  - intro Hi. apply In_firstn in Hi. contradiction.
  - apply IH; auto.
Qed.

Lemma mask_select_incl {A} (l : list A) m x : In x (mask_select l m) -> In x l.
Proof.
  intros H. apply (mask_select_In l m x x) in H. destruct H as (i & Hi & <- & _).
  apply nth_In. exact Hi.
Qed.


Lemma in_concat_nth {A} (xs : list (list A)) t :
  In t (concat xs) <-> exists j, j < length xs /\ In t (nth j xs []).
Proof.
  rewrite in_concat. split.
  - intros (l & Hl & Ht). destruct (In_nth xs l [] Hl) as (j & Hj & Hn).
    exists j. split; auto. rewrite Hn. exact Ht.
  - intros (j & Hj & Ht). exists (nth j xs []). split; auto. apply nth_In. exact Hj.
Qed.

(* strictly sorted lists and selection along strictly increasing positions *)
Lemma SSlt_nth l : StronglySorted Z.lt l ->
  forall i j, i < j -> j < length l -> (nth i l 0 < nth j l 0)%Z.
Proof.
  induction 1 as [|a l Hs IH Hf]; intros i j Hij Hj.
  - simpl in Hj. lia.
  - destruct j as [|j]; [lia|]. destruct i as [|i]; simpl in *.
    + rewrite Forall_forall in Hf. apply Hf. apply nth_In. lia.
    + apply IH; lia.
Qed.

Lemma select_SSlt l idx :
  StronglySorted Z.lt l -> StronglySorted lt idx -> Forall (fun i => i < length l) idx ->
  StronglySorted Z.lt (map (fun i => nth i l 0%Z) idx).
Proof.
  intros Hl Hi Hr. apply SS_map. induction Hi as [|a idx Hs IH Hf]; constructor.
  - apply IH. inversion Hr; auto.
  - inversion Hr; subst. rewrite Forall_forall in *. intros b Hb. apply SSlt_nth; auto.
Qed.

Lemma SSlt_to_nat L :
  StronglySorted Z.lt L -> Forall (fun z => 0 <= z)%Z L -> StronglySorted lt (map Z.to_nat L).
Proof.
  intros Hs Hnn. apply SS_map. induction Hs as [|a l Hs IH Hf]; constructor.
  - apply IH. inversion Hnn; auto.
  - inversion Hnn; subst. rewrite Forall_forall in *. intros b Hb.
    specialize (Hf b Hb). specialize (H2 b Hb). lia.
Qed.

(* random_indices = randperm(n)[:width].sort() *)
Definition thin_idx (width : nat) (p : list nat) : list nat :=
  map Z.to_nat (sort_z (map Z.of_nat (firstn width p))).

Lemma thin_idx_spec width p n :
  NoDup p -> Forall (fun i => i < n) p ->
  StronglySorted lt (thin_idx width p) /\ Forall (fun i => i < n) (thin_idx width p).
Proof.
  intros Hnd Hr. unfold thin_idx.
  set (l := map Z.of_nat (firstn width p)).
  assert (Hperm : Permutation (sort_z l) l) by apply sort_z_perm.
  assert (Hl : forall z, In z (sort_z l) -> exists i, z = Z.of_nat i /\ i < n).
  { intros z Hz. eapply Permutation_in in Hz; [|exact Hperm]. unfold l in Hz.
    apply in_map_iff in Hz. destruct Hz as (i & <- & Hi). exists i. split; auto.
    apply In_firstn in Hi. rewrite Forall_forall in Hr. auto. }
  assert (Hndl : NoDup l).
  { unfold l. apply NoDup_map_inj_on; [apply NoDup_firstn; exact Hnd|]. intros a b _ _ H. lia. }
  assert (Hss : StronglySorted Z.lt (sort_z l)).
  { apply SSle_NoDup_lt; [apply sort_z_sorted|].
    eapply Permutation_NoDup; [symmetry; exact Hperm | exact Hndl]. }
  split.
  - apply SSlt_to_nat; [exact Hss|]. apply Forall_forall. intros z Hz.
    destruct (Hl z Hz) as (i & -> & _). lia.
  - apply Forall_forall. intros j Hj. apply in_map_iff in Hj. destruct Hj as (z & <- & Hz).
    destruct (Hl z Hz) as (i & -> & Hi). rewrite Nat2Z.id. exact Hi.
Qed.

(* ================================================================== *)
Section WalksCorrect.
  Variable G : impl.
  Variable start : state.

  Local Notation R k t := (reach state (acts G) [start] k t).
  Local Notation hf := (hashf G).

  (* ---------------------------------------------------------------- *)
  (** * classic mode *)

  Definition draws_ok (width : nat) (d : list nat) : Prop :=
    length d = width /\ Forall (fun g => g < n_gens G) d.

  Lemma classic_step_nth width prev d j :
    length prev = width -> length d = width -> j < width ->
    nth j (map (fun '(s, g) => act_i G g s) (combine prev d)) [] =
    act_i G (nth j d 0) (nth j prev []).
  Proof.
    intros Hp Hd Hj.
    rewrite (nth_map_lt (fun '(s, g) => act_i G g s) (combine prev d) (([]:state), 0) [] j) by (rewrite combine_length; lia).
    rewrite combine_nth by lia. reflexivity.
  Qed.

  Lemma act_i_in g : g < n_gens G -> In (nth g (acts G) (fun x => x)) (acts G).
  Proof. intros H. apply nth_In. exact H. Qed.

  Lemma classic_loop_spec width : forall steps i prev draws,
    length prev = width -> steps <= length draws -> Forall (draws_ok width) draws ->
    length (classic_loop G steps i prev draws) = steps /\
    Forall (fun b => length b = width) (map fst (classic_loop G steps i prev draws)) /\
    (forall k, k < steps -> nth k (map snd (classic_loop G steps i prev draws)) 0 = i + k) /\
    (forall k j, k < steps -> j < width ->
       exists g, In g (acts G) /\
         nth j (nth k (map fst (classic_loop G steps i prev draws)) []) [] =
         g (nth j (nth k (prev :: map fst (classic_loop G steps i prev draws)) []) [])).
  Proof.
    induction steps as [|steps IH]; intros i prev draws Hp Hs Hd.
    - simpl. repeat split; auto; intros; lia.
    - destruct draws as [|d rest]; [simpl in Hs; lia|].
      pose proof (Forall_inv Hd) as [Hd1 Hd2]. pose proof (Forall_inv_tail Hd) as Hd'.
      cbn [classic_loop].
      set (cur := map (fun '(s, g) => act_i G g s) (combine prev d)).
      assert (Hc : length cur = width).
      { unfold cur. rewrite map_length, combine_length. lia. }
      simpl in Hs.
      destruct (IH (S i) cur rest Hc ltac:(lia) Hd') as (H1 & H2 & H3 & H4).
      cbn [length map fst snd]. split; [lia|]. split; [constructor; auto|]. split.
      + intros k Hk. destruct k as [|k]; simpl; [lia|]. rewrite H3 by lia. lia.
      + intros k j Hk Hj. destruct k as [|k].
        * cbn [nth]. exists (nth (nth j d 0) (acts G) (fun x => x)). split.
          -- apply act_i_in. rewrite Forall_forall in Hd2. apply Hd2. apply nth_In. lia.
          -- unfold cur. rewrite (classic_step_nth width); auto.
        * cbn [nth]. apply H4; lia.
  Qed.

  Lemma yblocks_uniform width (bl : list (list state * nat)) :
    Forall (fun b => length b = width) (map fst bl) ->
    map (fun '(b, i) => repeat i (length b)) bl = map (fun i => repeat i width) (map snd bl).
  Proof.
    induction bl as [|[b i] bl IH]; simpl; intros H; auto.
    inversion H; subst. rewrite IH by assumption. reflexivity.
  Qed.

  Theorem walks_classic_spec width length_ draws x y :
    1 <= length_ ->
    length_ - 1 <= length draws ->
    Forall (fun d => length d = width /\ Forall (fun g => g < n_gens G) d) draws ->
    walks_classic G width length_ start draws = (x, y) ->
    length x = width * length_ /\ length y = width * length_ /\
    (forall i, i < width * length_ -> nth i y 0 = i / width) /\
    (forall i, i < width -> nth i x [] = start) /\
    (forall i, i + width < width * length_ ->
        exists g, In g (acts G) /\ nth (i + width) x [] = g (nth i x [])) /\
    (forall i, i < width * length_ -> R (nth i y 0) (nth i x [])).
  Proof.
    intros Hl Hdr Hd. unfold walks_classic.
    set (blk0 := repeat start width).
    set (bl := classic_loop G (length_ - 1) 1 blk0 draws).
    assert (Hfl : length blk0 = width) by apply repeat_length.
    destruct (classic_loop_spec width (length_ - 1) 1 blk0 draws Hfl Hdr Hd)
      as (H1 & H2 & H3 & H4).
    fold bl in H1, H2, H3, H4.
    intros Heq.
    assert (Ex : x = concat (blk0 :: map fst bl)) by (inversion Heq; reflexivity).
    assert (Ey : y = concat (map (fun i => repeat i width) (0 :: map snd bl))).
    { inversion Heq. cbn [map]. rewrite (yblocks_uniform width) by exact H2.
      unfold blk0. rewrite repeat_length. reflexivity. }
    clear Heq.
    set (xb := blk0 :: map fst bl) in *.
    set (yb := map (fun i => repeat i width) (0 :: map snd bl)) in *.
    assert (Hxb : Forall (fun b => length b = width) xb) by (constructor; auto).
    assert (Hyb : Forall (fun b => length b = width) yb).
    { unfold yb. apply Forall_forall. intros b Hb. apply in_map_iff in Hb.
      destruct Hb as (i & <- & _). apply repeat_length. }
    assert (Hxl : length xb = length_) by (unfold xb; simpl; rewrite map_length; lia).
    assert (Hyl : length yb = length_).
    { unfold yb. rewrite map_length. simpl. rewrite map_length. lia. }
    assert (Hyq : forall q, q < length_ -> nth q yb [] = repeat q width).
    { intros q Hq. unfold yb.
      rewrite (nth_map_lt _ _ 0) by (simpl; rewrite map_length; lia).
      f_equal. destruct q as [|q]; [reflexivity|]. cbn [nth]. rewrite H3 by lia. lia. }
    (* the chain of blocks *)
    assert (Hchain : forall q r, S q < length_ -> r < width ->
              exists g, In g (acts G) /\ nth r (nth (S q) xb []) [] = g (nth r (nth q xb []) [])).
    { intros q r Hq Hr. unfold xb. cbn [nth]. apply H4; lia. }
    assert (Hreach : forall q r, q < length_ -> r < width -> R q (nth r (nth q xb []) [])).
    { induction q as [|q IHq]; intros r Hq Hr.
      - unfold xb. cbn [nth]. unfold blk0. rewrite nth_repeat_lt by exact Hr.
        constructor. left. reflexivity.
      - destruct (Hchain q r Hq Hr) as (g & Hg & ->). constructor; auto. apply IHq; lia. }
    (* decomposition of a flat index *)
    assert (Hdec : forall i, i < width * length_ ->
              exists q r, i = q * width + r /\ r < width /\ q < length_ /\ q = i / width).
    { intros i Hi. assert (Hw : width <> 0) by (intro Hw0; rewrite Hw0 in Hi; lia).
      exists (i / width), (i mod width).
      pose proof (Nat.div_mod i width Hw). pose proof (Nat.mod_upper_bound i width Hw).
      repeat split; try lia. apply Nat.div_lt_upper_bound; lia. }
    subst x y. split; [|split; [|split; [|split; [|split]]]].
    - rewrite (concat_uniform_length width) by exact Hxb. lia.
    - rewrite (concat_uniform_length width) by exact Hyb. lia.
    - intros i Hi. destruct (Hdec i Hi) as (q & r & -> & Hr & Hq & Hqd).
      rewrite (nth_concat_uniform 0 width) by assumption.
      rewrite Hyq by exact Hq. rewrite nth_repeat_lt by exact Hr. exact Hqd.
    - intros i Hi. replace i with (0 * width + i) by lia.
      rewrite (nth_concat_uniform ([]:state) width) by assumption.
      unfold xb. cbn [nth]. unfold blk0. apply nth_repeat_lt. exact Hi.
    - intros i Hi. destruct (Hdec i ltac:(lia)) as (q & r & -> & Hr & Hq & _).
      assert (HSq : S q < length_) by nia.
      replace (q * width + r + width) with (S q * width + r) by (simpl; lia).
      rewrite !(nth_concat_uniform ([]:state) width) by assumption.
      apply Hchain; assumption.
    - intros i Hi. destruct (Hdec i Hi) as (q & r & -> & Hr & Hq & _).
      rewrite (nth_concat_uniform 0 width), (nth_concat_uniform ([]:state) width) by assumption.
      rewrite Hyq by exact Hq. rewrite nth_repeat_lt by exact Hr. apply Hreach; assumption.
  Qed.

  (* ---------------------------------------------------------------- *)
  (** * nbt mode *)

  (* entries of a permutation of size k are < k *)
  Definition perm_ok (p : list nat) : Prop := Forall (fun i => i < length p) p.

  (* one block of states with its block of step counts *)
  Definition blockrel (bx : list state) (by_ : list nat) : Prop :=
    exists k, by_ = repeat k (length bx) /\ forall s, In s bx -> R k s.

  Lemma blocks_pointwise xs ys :
    Forall2 blockrel xs ys ->
    length (concat xs) = length (concat ys) /\
    forall i, i < length (concat xs) -> R (nth i (concat ys) 0) (nth i (concat xs) []).
  Proof.
    induction 1 as [|bx by_ xs ys (k & -> & Hk) Hf [IH1 IH2]]; simpl.
    - split; auto. intros; lia.
    - rewrite !app_length, repeat_length. split; [lia|].
      intros i Hi. destruct (lt_dec i (length bx)).
      + rewrite !app_nth1 by (rewrite ?repeat_length; lia).
        rewrite nth_repeat_lt by lia. apply Hk. apply nth_In. lia.
      + rewrite !app_nth2 by (rewrite ?repeat_length; lia).
        rewrite repeat_length. apply IH2. lia.
  Qed.

  Lemma get_neighbors_length l : length (get_neighbors G l) = n_gens G * length l.
  Proof.
    unfold get_neighbors, n_gens. induction (acts G) as [|g gs IH]; simpl; auto.
    rewrite app_length, map_length, IH. reflexivity.
  Qed.

  Lemma neighbors_reach l k :
    (forall s, In s l -> R k s) -> forall t, In t (get_neighbors G l) -> R (S k) t.
  Proof.
    intros Hl t Ht. apply get_neighbors_spec in Ht. destruct Ht as (x & g & Hx & Hg & ->).
    constructor; auto.
  Qed.

  Lemma concat_repeat_length {A} (l : list A) k : length (concat (repeat l k)) = k * length l.
  Proof. induction k as [|k IH]; simpl; auto. rewrite app_length, IH. reflexivity. Qed.

  Lemma In_concat_repeat {A} (l : list A) k x : In x (concat (repeat l k)) -> In x l.
  Proof.
    intros H. apply in_concat in H. destruct H as (l' & Hl' & Hx).
    apply repeat_spec in Hl'. subst. exact Hx.
  Qed.

  Definition nbt_cand (width depth : nat) (st : nst) : list state * nat :=
    let new := get_neighbors G (n_cur st) in
    let hn := hashes G new in
    if 0 <? depth then
      let mask := map negb (isin hn (concat (n_cols st))) in
      let sel := mask_select new mask in
      let s := length sel in
      if width <=? s then (sel, S (n_corr st))
      else if 0 <? s then (firstn width (concat (repeat sel ((width + s - 1) / s))), S (n_corr st))
      else (n_cur st, n_corr st)
    else (new, S (n_corr st)).

  Lemma nbt_iter_eq width depth st :
    nbt_iter G width depth st =
    let new := get_neighbors G (n_cur st) in
    let hn := hashes G new in
    let '(cand, corr) := nbt_cand width depth st in
    match n_perms st with
    | [] => {| n_cur := n_cur st; n_cols := n_cols st; n_idx := n_idx st; n_corr := n_corr st;
               n_x := n_x st; n_y := n_y st; n_perms := []; n_ok := false |}
    | p :: rest =>
        let cur := firstn width (map (fun i => nth i cand []) p) in
        let idx := if 0 <? depth then S (n_idx st) mod depth else n_idx st in
        {| n_cur := cur;
           n_cols := if 0 <? depth then upd (n_cols st) idx hn else n_cols st;
           n_idx := idx; n_corr := corr; n_x := n_x st ++ [cur]; n_y := n_y st ++ [repeat corr width];
           n_perms := rest; n_ok := n_ok st && (length p =? length cand) |}
    end.
  Proof. reflexivity. Qed.

  Lemma nbt_cand_spec width depth st cand corr :
    (depth = 0 -> 1 <= n_gens G) ->
    length (n_cur st) = width -> (forall s, In s (n_cur st) -> R (n_corr st) s) ->
    nbt_cand width depth st = (cand, corr) ->
    width <= length cand /\ forall s, In s cand -> R corr s.
  Proof.
    intros Hg Hlen Hcur. unfold nbt_cand.
    set (new := get_neighbors G (n_cur st)).
    assert (Hnew : forall t, In t new -> R (S (n_corr st)) t) by (apply neighbors_reach; exact Hcur).
    destruct (0 <? depth) eqn:Ed.
    - set (sel := mask_select new _).
      assert (Hsel : forall t, In t sel -> R (S (n_corr st)) t).
      { intros t Ht. apply Hnew. eapply mask_select_incl. exact Ht. }
      destruct (width <=? length sel) eqn:E1.
      + intros H. injection H as <- <-. apply Nat.leb_le in E1. auto.
      + destruct (0 <? length sel) eqn:E2.
        * intros H. injection H as <- <-. apply Nat.ltb_lt in E2. split.
          -- rewrite firstn_length, concat_repeat_length.
             set (s := length sel) in *. assert (Hs : s <> 0) by lia.
             pose proof (Nat.div_mod (width + s - 1) s Hs).
             pose proof (Nat.mod_upper_bound (width + s - 1) s Hs).
             set (q := (width + s - 1) / s) in *. nia.
          -- intros t Ht. apply Hsel. eapply In_concat_repeat. eapply In_firstn. exact Ht.
        * intros H. injection H as <- <-. split; [lia | exact Hcur].
    - intros H. injection H as <- <-. apply Nat.ltb_ge in Ed. split; [|exact Hnew].
      unfold new. rewrite get_neighbors_length. specialize (Hg ltac:(lia)). nia.
  Qed.

  Record NInv (width : nat) (st : nst) : Prop := {
    ni_len : length (n_cur st) = width;
    ni_cur : forall s, In s (n_cur st) -> R (n_corr st) s;
    ni_blocks : Forall2 blockrel (n_x st) (n_y st);
    ni_hd : exists xs ys, n_x st = repeat start width :: xs /\ n_y st = repeat 0 width :: ys }.

  Lemma nbt_iter_inv width depth st :
    (depth = 0 -> 1 <= n_gens G) ->
    Forall perm_ok (n_perms st) -> (n_ok st = true -> NInv width st) ->
    Forall perm_ok (n_perms (nbt_iter G width depth st)) /\
    (n_ok (nbt_iter G width depth st) = true -> NInv width (nbt_iter G width depth st)).
  Proof.
    intros Hg Hp Hinv. rewrite nbt_iter_eq. cbv zeta.
    destruct (nbt_cand width depth st) as [cand corr] eqn:Ec.
    destruct (n_perms st) as [|p rest] eqn:Ep.
    - cbn [n_perms n_ok]. split; [constructor | discriminate].
    - cbn [n_perms n_ok]. split; [eapply Forall_inv_tail; exact Hp|].
      intros Hok. apply andb_true_iff in Hok. destruct Hok as [Hok Hlen].
      apply Nat.eqb_eq in Hlen. destruct (Hinv Hok) as [I1 I2 I3 (xs & ys & I4 & I5)].
      destruct (nbt_cand_spec width depth st cand corr Hg I1 I2 Ec) as [Hw Hc].
      pose proof (Forall_inv Hp) as Hpok. unfold perm_ok in Hpok. rewrite Forall_forall in Hpok.
      set (cur := firstn width (map (fun i => nth i cand []) p)).
      assert (Hcl : length cur = width).
      { unfold cur. rewrite firstn_length, map_length. lia. }
      assert (Hce : forall s, In s cur -> R corr s).
      { intros s Hs. unfold cur in Hs. apply In_firstn in Hs. apply in_map_iff in Hs.
        destruct Hs as (i & <- & Hi). apply Hc. apply nth_In. specialize (Hpok i Hi). lia. }
      constructor; cbn [n_cur n_corr n_x n_y].
      + exact Hcl.
      + exact Hce.
      + apply Forall2_app; [exact I3|]. constructor; [|constructor].
        exists corr. rewrite Hcl. auto.
      + exists (xs ++ [cur]), (ys ++ [repeat corr width]). rewrite I4, I5. auto.
  Qed.

  Lemma nbt_fold_inv width depth (l : list nat) : forall st,
    (depth = 0 -> 1 <= n_gens G) ->
    Forall perm_ok (n_perms st) -> (n_ok st = true -> NInv width st) ->
    n_ok (fold_left (fun st _ => nbt_iter G width depth st) l st) = true ->
    NInv width (fold_left (fun st _ => nbt_iter G width depth st) l st).
  Proof.
    induction l as [|a l IH]; intros st Hg Hp Hinv; simpl.
    - exact Hinv.
    - destruct (nbt_iter_inv width depth st Hg Hp Hinv) as [Hp' Hinv']. apply IH; assumption.
  Qed.

  (* Two hypotheses are added to the requested statement:
     - [Forall perm_ok perms]: the model only checks [length p = length cand]; an out-of-range
       entry of p would select the default state [] which need not be reachable at all;
     - [depth = 0 -> 1 <= n_gens G]: with no generators and depth 0 the candidate list is empty,
       the x blocks are empty while the y blocks still have [width] entries, so
       [length x = length y] FAILS (see [walks_nbt_spec_needs_gens] below the section).
     Requested statement:
       (1 <= length_) -> (1 <= width) -> walks_nbt G width length_ depth start perms = Ok (x, y) ->
       length x = length y /\ (forall i, i < width -> nth i x [] = start /\ nth i y 0 = 0) /\
       (forall i, i < length x -> R (nth i y 0) (nth i x [])). *)
  Theorem walks_nbt_spec width length_ depth perms x y :
    1 <= length_ -> 1 <= width ->
    Forall (fun p => Forall (fun i => i < length p) p) perms ->
    (depth = 0 -> 1 <= n_gens G) ->
    walks_nbt G width length_ depth start perms = Ok (x, y) ->
    length x = length y /\
    (forall i, i < width -> nth i x [] = start /\ nth i y 0 = 0) /\
    (forall i, i < length x -> R (nth i y 0) (nth i x [])).
  Proof.
    intros _ _ Hp Hg. unfold walks_nbt.
    set (st0 := Build_nst _ _ _ _ _ _ _ _).
    set (st := fold_left _ _ st0).
    destruct (n_ok st) eqn:Hok; [|discriminate].
    intros Heq. inversion Heq; subst x y; clear Heq.
    assert (Hinv : NInv width st).
    { unfold st. apply nbt_fold_inv; auto.
      intros _. unfold st0. constructor; cbn [n_cur n_corr n_x n_y].
      - apply repeat_length.
      - intros s Hs. apply repeat_spec in Hs. subst. constructor. left. reflexivity.
      - constructor; [|constructor]. exists 0. rewrite repeat_length. split; auto.
        intros s Hs. apply repeat_spec in Hs. subst. constructor. left. reflexivity.
      - exists [], []. auto. }
    destruct Hinv as [_ _ I3 (xs & ys & I4 & I5)].
    destruct (blocks_pointwise _ _ I3) as [H1 H2].
    split; [exact H1|]. split; [|exact H2].
    intros i Hi. rewrite I4, I5. simpl concat.
    rewrite !app_nth1 by (rewrite repeat_length; exact Hi).
    rewrite !nth_repeat_lt by exact Hi. auto.
  Qed.

  (* ---------------------------------------------------------------- *)
  (** * bfs mode: block bookkeeping (no hashing yet) *)

  (* the y blocks that go with a list of x blocks, the first one numbered i *)
  Fixpoint yblocks (i : nat) (xs : list (list state)) : list (list nat) :=
    match xs with [] => [] | b :: t => repeat i (length b) :: yblocks (S i) t end.

  (* every state of block number j is reachable in exactly j steps *)
  Fixpoint blocksR (i : nat) (xs : list (list state)) : Prop :=
    match xs with [] => True | b :: t => (forall s, In s b -> R i s) /\ blocksR (S i) t end.

  Lemma yblocks_app xs : forall i b,
    yblocks i (xs ++ [b]) = yblocks i xs ++ [repeat (i + length xs) (length b)].
  Proof.
    induction xs as [|a xs IH]; intros i b; simpl.
    - rewrite Nat.add_0_r. reflexivity.
    - rewrite IH. replace (S i + length xs) with (i + S (length xs)) by lia. reflexivity.
  Qed.

  Lemma blocksR_app xs : forall i b,
    blocksR i (xs ++ [b]) <-> blocksR i xs /\ (forall s, In s b -> R (i + length xs) s).
  Proof.
    induction xs as [|a xs IH]; intros i b; simpl.
    - rewrite Nat.add_0_r. tauto.
    - rewrite IH. replace (S i + length xs) with (i + S (length xs)) by lia. tauto.
  Qed.

  Lemma yblocks_length xs : forall i, length (concat (yblocks i xs)) = length (concat xs).
  Proof.
    induction xs as [|b xs IH]; intros i; simpl; auto.
    rewrite !app_length, repeat_length, IH. reflexivity.
  Qed.

  Lemma yblocks_nth xs : forall i0 i, i < length (concat xs) ->
    exists j, j < length xs /\ nth i (concat (yblocks i0 xs)) 0 = i0 + j /\
              In (nth i (concat xs) []) (nth j xs []).
  Proof.
    induction xs as [|b xs IH]; intros i0 i Hi; simpl in Hi; [lia|].
    simpl concat. destruct (lt_dec i (length b)) as [Hlt | Hge].
    - exists 0. simpl length. split; [lia|].
      rewrite !app_nth1 by (rewrite ?repeat_length; lia).
      rewrite nth_repeat_lt by lia. split; [lia|]. simpl. apply nth_In. exact Hlt.
    - rewrite app_length in Hi.
      destruct (IH (S i0) (i - length b) ltac:(lia)) as (j & Hj & Hy & Hx).
      exists (S j). simpl length. split; [lia|].
      rewrite !app_nth2 by (rewrite ?repeat_length; lia). rewrite repeat_length.
      split; [lia | exact Hx].
  Qed.

  Lemma yblocks_nth_conv xs : forall i0 j t, In t (nth j xs []) ->
    exists i, i < length (concat xs) /\ nth i (concat xs) [] = t /\
              nth i (concat (yblocks i0 xs)) 0 = i0 + j.
  Proof.
    induction xs as [|b xs IH]; intros i0 j t Ht.
    - destruct j; destruct Ht.
    - simpl concat. destruct j as [|j].
      + simpl in Ht. destruct (In_nth b t [] Ht) as (i & Hi & Hn).
        exists i. rewrite app_length. split; [lia|].
        rewrite (app_nth1 b) by lia.
        rewrite (app_nth1 (repeat i0 (length b))) by (rewrite repeat_length; lia).
        rewrite nth_repeat_lt by lia. split; [exact Hn | lia].
      + simpl in Ht. destruct (IH (S i0) j t Ht) as (i & Hi & Hn & Hy).
        exists (length b + i). rewrite app_length. split; [lia|].
        rewrite (app_nth2 b) by lia.
        rewrite (app_nth2 (repeat i0 (length b))) by (rewrite repeat_length; lia).
        rewrite repeat_length.
        replace (length b + i - length b) with i by lia. split; [exact Hn | lia].
  Qed.

  Lemma blocksR_nth xs : forall i0, blocksR i0 xs ->
    forall j s, In s (nth j xs []) -> R (i0 + j) s.
  Proof.
    induction xs as [|b xs IH]; intros i0 Hb j s Hs.
    - destruct j; destruct Hs.
    - destruct Hb as [Hb1 Hb2]. destruct j as [|j]; simpl in Hs.
      + rewrite Nat.add_0_r. auto.
      + replace (i0 + S j) with (S i0 + j) by lia. eapply IH; eauto.
  Qed.

  (* ---------------------------------------------------------------- *)
  (** * bfs mode: the hash set *)

  Definition hs_has (data : list (list Z)) (h : Z) : Prop := exists part, In part data /\ In h part.
  Definition hs_sorted (data : list (list Z)) : Prop := forall part, In part data -> sortedZ part.

  Lemma hs_has_app data s h : hs_has (data ++ [s]) h <-> hs_has data h \/ In h s.
  Proof.
    unfold hs_has. split.
    - intros (part & Hp & Hh). apply in_app_iff in Hp. destruct Hp as [Hp | [<- | []]]; eauto.
    - intros [(part & Hp & Hh) | Hh].
      + exists part. rewrite in_app_iff. auto.
      + exists s. rewrite in_app_iff. simpl. auto.
  Qed.

  Lemma hs_add_has data s h : hs_has (hs_add data s) h <-> hs_has data h \/ In h s.
  Proof.
    rewrite <- hs_has_app. unfold hs_add. destruct (10 <=? length (data ++ [s])); [|reflexivity].
    unfold hs_has. split.
    - intros (part & [<- | []] & Hh).
      eapply Permutation_in in Hh; [|apply sort_z_perm]. apply in_concat in Hh. exact Hh.
    - intros Hh. exists (sort_z (concat (data ++ [s]))). split; [left; reflexivity|].
      eapply Permutation_in; [symmetry; apply sort_z_perm|]. apply in_concat. exact Hh.
  Qed.

  Lemma hs_add_sorted data s : hs_sorted data -> sortedZ s -> hs_sorted (hs_add data s).
  Proof.
    intros Hd Hs. unfold hs_add. destruct (10 <=? length (data ++ [s])).
    - intros part [<- | []]. apply sort_z_sorted.
    - intros part Hp. apply in_app_iff in Hp. destruct Hp as [Hp | [<- | []]]; auto.
  Qed.

  Lemma hs_mask_eq data x : hs_mask data x = map (fun h => negb (seenb data h)) x.
  Proof. reflexivity. Qed.

  (* ---------------------------------------------------------------- *)
  (** * bfs mode: one iteration, restated *)

  Definition bfs_cand (st : wst) : list state * list Z :=
    let nb := get_neighbors G (w_last st) in
    let '(ns, nh) := get_unique_states G nb (hashes G nb) in
    let mask := hs_mask (w_set st) nh in
    (mask_select ns mask, mask_select nh mask).

  Definition bfs_commit (i_step : nat) (st : wst) (ns : list state) (nh : list Z)
             (perms : list (list nat)) (ok : bool) : wst :=
    {| w_last := ns; w_set := hs_add (w_set st) nh; w_x := w_x st ++ [ns];
       w_y := w_y st ++ [repeat i_step (length ns)]; w_perms := perms; w_ok := w_ok st && ok |}.

  Definition thin {A} (d : A) (width : nat) (p : list nat) (l : list A) : list A :=
    map (fun i => nth i l d) (thin_idx width p).

  Lemma bfs_walk_iter_eq width i st :
    bfs_walk_iter G width i st =
    let '(ns, nh) := bfs_cand st in
    match ns with
    | [] => inr st
    | _ => if width <? length ns then
             match w_perms st with
             | [] => inl (bfs_commit i st ns nh [] false)
             | p :: rest => inl (bfs_commit i st (thin [] width p ns) (thin 0%Z width p nh) rest
                                            (length p =? length ns))
             end
           else inl (bfs_commit i st ns nh (w_perms st) true)
    end.
  Proof.
    unfold bfs_walk_iter, bfs_cand.
    destruct (get_unique_states G (get_neighbors G (w_last st))
                (hashes G (get_neighbors G (w_last st)))) as [u uh].
    cbv zeta. destruct (mask_select u (hs_mask (w_set st) uh)) as [|a l]; [reflexivity|].
    destruct (width <? length (a :: l)); [destruct (w_perms st)|]; reflexivity.
  Qed.

  (* ---------------------------------------------------------------- *)
  (** * bfs mode: the invariant *)

  Variable U : state -> Prop.
  Hypothesis U_closed : closed state (acts G) U.
  Hypothesis NoColl : forall a b, U a -> U b -> hashf G a = hashf G b -> a = b.
  Hypothesis IdOK : is_identity G = true -> forall a, U a -> unword G (hashf G a) = a.
  Hypothesis start_U : U start.

  Record WInv (k : nat) (st : wst) : Prop := {
    wi_x : exists xs, w_x st = xs ++ [w_last st] /\ length xs = k;
    wi_hd : exists xs, w_x st = [start] :: xs;
    wi_y : w_y st = yblocks 0 (w_x st);
    wi_R : blocksR 0 (w_x st);
    wi_nd : NoDup (concat (w_x st));
    wi_U : forall s, In s (concat (w_x st)) -> U s;
    wi_sorted : hs_sorted (w_set st);
    wi_has : forall h, hs_has (w_set st) h <-> In h (map hf (concat (w_x st))) }.

  Lemma winv_last_in k st : WInv k st -> forall s, In s (w_last st) -> In s (concat (w_x st)).
  Proof.
    intros [(xs & Hx & _) _ _ _ _ _ _ _] s Hs. rewrite Hx, concat_app, in_app_iff.
    right. simpl. rewrite app_nil_r. exact Hs.
  Qed.

  Lemma winv_last_R k st : WInv k st -> forall s, In s (w_last st) -> R k s.
  Proof.
    intros [(xs & Hx & Hk) _ _ HR _ _ _ _] s Hs. rewrite Hx in HR.
    apply blocksR_app in HR. destruct HR as [_ HR]. rewrite Hk in HR. simpl in HR. auto.
  Qed.

  Lemma winv_length k st : WInv k st -> length (w_x st) = S k.
  Proof.
    intros [(xs & Hx & Hk) _ _ _ _ _ _ _]. rewrite Hx, app_length. simpl. lia.
  Qed.

  Lemma winv_last_nth k st : WInv k st -> nth k (w_x st) [] = w_last st.
  Proof.
    intros [(xs & Hx & Hk) _ _ _ _ _ _ _]. rewrite Hx, app_nth2 by lia.
    rewrite Hk, Nat.sub_diag. reflexivity.
  Qed.

  (* the candidate layer: the not yet seen neighbours of the last block *)
  Lemma bfs_cand_spec k st ns nh :
    WInv k st -> bfs_cand st = (ns, nh) ->
    NoDup ns /\ nh = map hf ns /\ StronglySorted Z.lt nh /\
    (forall t, In t ns <-> In t (get_neighbors G (w_last st)) /\ ~ In t (concat (w_x st))).
  Proof.
    intros Hinv. unfold bfs_cand.
    assert (HnbU : forall t, In t (get_neighbors G (w_last st)) -> U t).
    { apply (neighbors_U G U U_closed). intros s Hs. apply (wi_U k st Hinv).
      eapply winv_last_in; eauto. }
    destruct (get_unique_states G (get_neighbors G (w_last st))
                (hashes G (get_neighbors G (w_last st)))) as [u uh] eqn:E.
    apply (gus_spec G U NoColl IdOK) in E; [|exact HnbU].
    destruct E as (Hnd & Hin & -> & Hs).
    intros H. injection H as <- <-.
    rewrite hs_mask_eq, mask_select_map, map_map.
    rewrite (mask_select_filter (fun s => negb (seenb (w_set st) (hf s))) u).
    destruct (filter_good G u (fun s => negb (seenb (w_set st) (hf s))) Hnd Hs) as [H1 H2].
    split; [exact H1|]. split; [reflexivity|]. split; [exact H2|].
    intros t. rewrite filter_In, negb_true_iff, Hin.
    rewrite seenb_false_iff by (apply (wi_sorted k st Hinv)).
    split; intros [Ht Hn]; split; auto.
    - intros Hc. assert (Hh : hs_has (w_set st) (hf t)).
      { apply (wi_has k st Hinv). apply in_map. exact Hc. }
      destruct Hh as (part & Hp & Hh). exact (Hn part Hp Hh).
    - intros part Hp Hh. apply Hn.
      assert (Hh' : In (hf t) (map hf (concat (w_x st)))).
      { apply (wi_has k st Hinv). exists part. auto. }
      apply in_map_iff in Hh'. destruct Hh' as (t' & Heq & Ht').
      assert (t' = t) by (apply NoColl; auto; apply (wi_U k st Hinv); exact Ht').
      subst t'. exact Ht'.
  Qed.

  (* appending any strictly-hash-sorted, duplicate free part of the candidates keeps the invariant *)
  Lemma bfs_commit_inv k st ns perms ok :
    WInv k st ->
    NoDup ns -> StronglySorted Z.lt (map hf ns) ->
    (forall t, In t ns -> In t (get_neighbors G (w_last st)) /\ ~ In t (concat (w_x st))) ->
    WInv (S k) (bfs_commit (S k) st ns (map hf ns) perms ok).
  Proof.
    intros Hinv Hnd Hs Hin.
    pose proof (winv_length k st Hinv) as Hlen.
    pose proof Hinv as Hinv'.
    destruct Hinv as [(xs & Hx & Hk) (xs' & Hhd) Hy HR Hnd0 HU Hsorted Hhas].
    assert (HnsU : forall t, In t ns -> U t).
    { intros t Ht. apply Hin in Ht. destruct Ht as [Ht _].
      apply (neighbors_U G U U_closed (w_last st)); auto.
      intros s Hs'. apply HU. eapply winv_last_in; eauto. }
    constructor; cbn [bfs_commit w_last w_set w_x w_y].
    - exists (w_x st). split; [reflexivity | exact Hlen].
    - exists (xs' ++ [ns]). rewrite Hhd. reflexivity.
    - rewrite yblocks_app, Hy, Hlen. reflexivity.
    - apply blocksR_app. split; [exact HR|]. rewrite Hlen. simpl.
      intros s Hs'. apply Hin in Hs'. destruct Hs' as [Hs' _].
      eapply neighbors_reach; [|exact Hs']. apply (winv_last_R k st Hinv').
    - rewrite concat_app. simpl. rewrite app_nil_r. apply NoDup_app_intro; auto.
      intros t Ht1 Ht2. apply Hin in Ht2. tauto.
    - intros s. rewrite concat_app. simpl. rewrite app_nil_r, in_app_iff. intros [H | H]; auto.
    - apply hs_add_sorted; [exact Hsorted | apply SSlt_le; exact Hs].
    - intros h. rewrite hs_add_has, Hhas, concat_app. simpl.
      rewrite app_nil_r, map_app, in_app_iff. reflexivity.
  Qed.

  (* thinning through SORTED in-range distinct positions *)
  Lemma thin_spec width p ns :
    NoDup p -> Forall (fun i => i < length p) p -> length p = length ns ->
    StronglySorted Z.lt (map hf ns) ->
    thin 0%Z width p (map hf ns) = map hf (thin [] width p ns) /\
    NoDup (thin [] width p ns) /\ StronglySorted Z.lt (map hf (thin [] width p ns)) /\
    (forall t, In t (thin [] width p ns) -> In t ns).
  Proof.
    intros Hnd Hr Hlen Hs. rewrite Hlen in Hr.
    destruct (thin_idx_spec width p (length ns) Hnd Hr) as [Hi1 Hi2].
    assert (Hal : thin 0%Z width p (map hf ns) = map hf (thin [] width p ns)).
    { unfold thin. rewrite map_map. apply map_ext_in. intros i Hi.
      rewrite Forall_forall in Hi2. apply (nth_map_lt hf ns []). auto. }
    assert (Hss : StronglySorted Z.lt (map hf (thin [] width p ns))).
    { rewrite <- Hal. unfold thin. apply select_SSlt; auto. rewrite map_length. exact Hi2. }
    split; [exact Hal|]. split; [|split; [exact Hss|]].
    - apply (NoDup_map_inv hf). apply SSlt_NoDup. exact Hss.
    - intros t Ht. unfold thin in Ht. apply in_map_iff in Ht. destruct Ht as (i & <- & Hi).
      apply nth_In. rewrite Forall_forall in Hi2. auto.
  Qed.

  Definition wperm_ok (p : list nat) : Prop := NoDup p /\ Forall (fun i => i < length p) p.

  Lemma bfs_iter_inv width k st :
    Forall wperm_ok (w_perms st) -> (w_ok st = true -> WInv k st) ->
    match bfs_walk_iter G width (S k) st with
    | inl st' => Forall wperm_ok (w_perms st') /\ (w_ok st' = true -> WInv (S k) st')
    | inr st' => st' = st
    end.
  Proof.
    intros Hp Hinv. rewrite bfs_walk_iter_eq.
    destruct (bfs_cand st) as [ns nh] eqn:Ec.
    destruct ns as [|a l]; [reflexivity|]. cbv iota.
    set (ns := a :: l) in *. clearbody ns.
    destruct (width <? length ns) eqn:Ew.
    - destruct (w_perms st) as [|p rest] eqn:Ep.
      + split; [constructor|]. cbn [bfs_commit w_ok]. rewrite andb_false_r. discriminate.
      + split; [eapply Forall_inv_tail; exact Hp|].
        cbn [bfs_commit w_ok]. intros Hok. apply andb_true_iff in Hok. destruct Hok as [Hok Hlen].
        apply Nat.eqb_eq in Hlen. specialize (Hinv Hok).
        destruct (bfs_cand_spec k st ns nh Hinv Ec) as (Hnd & -> & Hs & Hin).
        destruct (Forall_inv Hp) as [Hp1 Hp2].
        destruct (thin_spec width p ns Hp1 Hp2 Hlen Hs) as (Hal & Hnd' & Hs' & Hin').
        rewrite Hal. apply bfs_commit_inv; auto.
        intros t Ht. apply Hin. apply Hin'. exact Ht.
    - split; [exact Hp|]. cbn [bfs_commit w_ok]. rewrite andb_true_r. intros Hok.
      specialize (Hinv Hok).
      destruct (bfs_cand_spec k st ns nh Hinv Ec) as (Hnd & -> & Hs & Hin).
      apply bfs_commit_inv; auto. intros t Ht. apply Hin. exact Ht.
  Qed.

  Lemma bfs_loop_inv width steps : forall k st,
    Forall wperm_ok (w_perms st) -> (w_ok st = true -> WInv k st) ->
    w_ok (bfs_walk_loop G steps width (S k) st) = true ->
    exists k', WInv k' (bfs_walk_loop G steps width (S k) st).
  Proof.
    induction steps as [|steps IH]; intros k st Hp Hinv; simpl.
    - intros Hok. exists k. auto.
    - pose proof (bfs_iter_inv width k st Hp Hinv) as Hit.
      destruct (bfs_walk_iter G width (S k) st) as [st' | st'].
      + destruct Hit as [Hp' Hinv']. apply IH; assumption.
      + subst st'. intros Hok. exists k. auto.
  Qed.

  Definition wst0 (perms : list (list nat)) : wst :=
    {| w_last := [start]; w_set := hs_add [] [hf start]; w_x := [[start]]; w_y := [[0]];
       w_perms := perms; w_ok := true |}.

  Lemma wst0_inv perms : WInv 0 (wst0 perms).
  Proof.
    constructor; cbn [wst0 w_last w_set w_x w_y].
    - exists []. auto.
    - exists []. auto.
    - reflexivity.
    - simpl. split; auto. intros s [<- | []]. constructor. left. reflexivity.
    - simpl. constructor; [intros [] | constructor].
    - simpl. intros s [<- | []]. exact start_U.
    - apply hs_add_sorted; [intros part [] |]. constructor; constructor.
    - intros h. rewrite hs_add_has. simpl. split.
      + intros [(part & [] & _) | H]; exact H.
      + intros H. right. exact H.
  Qed.

  Theorem walks_bfs_spec width length_ perms x y :
    1 <= length_ -> 1 <= width ->
    Forall (fun p => NoDup p /\ Forall (fun i => i < length p) p) perms ->
    walks_bfs G width length_ start perms = Ok (x, y) ->
    length x = length y /\ nth 0 x [] = start /\ nth 0 y 1 = 0 /\
    NoDup x /\
    (forall i, i < length x -> R (nth i y 0) (nth i x [])).
  Proof.
    intros _ _ Hp. unfold walks_bfs. fold (wst0 perms).
    set (st := bfs_walk_loop G (length_ - 1) width 1 (wst0 perms)).
    destruct (w_ok st) eqn:Hok; [|discriminate].
    intros Heq. inversion Heq; subst x y; clear Heq.
    destruct (bfs_loop_inv width (length_ - 1) 0 (wst0 perms) Hp (fun _ => wst0_inv perms) Hok)
      as (k & Hinv).
    fold st in Hinv.
    destruct Hinv as [_ (xs & Hhd) Hy HR Hnd _ _ _].
    rewrite Hy. split; [symmetry; apply yblocks_length|].
    split; [rewrite Hhd; reflexivity|]. split; [rewrite Hhd; reflexivity|].
    split; [exact Hnd|].
    intros i Hi. destruct (yblocks_nth (w_x st) 0 i Hi) as (j & Hj & Hyj & Hxj).
    rewrite Hyj. apply (blocksR_nth (w_x st) 0 HR j). exact Hxj.
  Qed.

  (* ---------------------------------------------------------------- *)
  (** * bfs mode, wide and long enough: exactly the BFS layers *)

  Local Notation L i := (layer state st_eq_dec (acts G) [start] i).

  Definition ExInv (k : nat) (st : wst) : Prop :=
    w_ok st = true /\ WInv k st /\ forall j, j <= k -> set_eq (nth j (w_x st) []) (L j).

  (* with all earlier layers in the set, the candidates are exactly the next true layer *)
  Lemma bfs_cand_layer k st ns nh :
    ExInv k st -> bfs_cand st = (ns, nh) ->
    NoDup ns /\ nh = map hf ns /\ StronglySorted Z.lt nh /\
    (forall t, In t ns -> In t (get_neighbors G (w_last st)) /\ ~ In t (concat (w_x st))) /\
    set_eq ns (L (S k)) /\ length ns = length (L (S k)).
  Proof.
    intros (Hok & Hinv & Hlay) Ec.
    destruct (bfs_cand_spec k st ns nh Hinv Ec) as (Hnd & Hnh & Hs & Hin).
    assert (Hset : set_eq ns (L (S k))).
    { intros t. rewrite Hin, layer_succ_spec.
      assert (H1 : In t (get_neighbors G (w_last st)) <-> In t (N state (acts G) (L k))).
      { rewrite get_neighbors_spec, N_spec. rewrite <- (winv_last_nth k st Hinv).
        split; intros (x & g & Hx & Hg & Ht); exists x, g; repeat split; auto;
          apply (Hlay k (le_n k)); exact Hx. }
      assert (H2 : In t (concat (w_x st)) <-> In t (seen_upto state st_eq_dec (acts G) [start] k)).
      { rewrite in_concat_nth, seen_upto_spec, (winv_length k st Hinv). split.
        - intros (j & Hj & Ht). exists j. split; [lia|]. apply (Hlay j); [lia | exact Ht].
        - intros (j & Hj & Ht). exists j. split; [lia|]. apply (Hlay j); [lia | exact Ht]. }
      rewrite H1, H2. reflexivity. }
    repeat split; auto; try (apply Hin; assumption); try (apply Hset; assumption).
    apply Permutation_length. apply NoDup_Permutation; auto. apply layer_NoDup.
  Qed.

  Lemma bfs_iter_ex width k st :
    (forall i, length (L i) <= width) -> ExInv k st ->
    match bfs_walk_iter G width (S k) st with
    | inl st' => ExInv (S k) st'
    | inr st' => st' = st /\ L (S k) = []
    end.
  Proof.
    intros Hw Hex. rewrite bfs_walk_iter_eq.
    destruct (bfs_cand st) as [ns nh] eqn:Ec.
    destruct (bfs_cand_layer k st ns nh Hex Ec) as (Hnd & -> & Hs & Hin & Hset & Hlen).
    destruct Hex as (Hok & Hinv & Hlay).
    destruct ns as [|a l].
    - split; [reflexivity|]. destruct (L (S k)) as [|b l']; [reflexivity | discriminate].
    - cbv iota. set (ns := a :: l) in *. clearbody ns.
      assert (Ew : width <? length ns = false).
      { apply Nat.ltb_ge. rewrite Hlen. apply Hw. }
      rewrite Ew. unfold ExInv. split; [|split].
      + cbn [bfs_commit w_ok]. rewrite Hok. reflexivity.
      + apply bfs_commit_inv; auto.
      + cbn [bfs_commit w_x]. intros j Hj. pose proof (winv_length k st Hinv) as Hl.
        destruct (Nat.eq_dec j (S k)) as [-> | Hne].
        * rewrite app_nth2 by lia. rewrite Hl, Nat.sub_diag. exact Hset.
        * rewrite app_nth1 by lia. apply Hlay. lia.
  Qed.

  Lemma bfs_loop_ex width steps : forall k st,
    (forall i, length (L i) <= width) -> ExInv k st ->
    exists k', ExInv k' (bfs_walk_loop G steps width (S k) st) /\
               (k' = k + steps \/ L (S k') = []).
  Proof.
    induction steps as [|steps IH]; intros k st Hw Hex; simpl.
    - exists k. split; auto.
    - pose proof (bfs_iter_ex width k st Hw Hex) as Hit.
      destruct (bfs_walk_iter G width (S k) st) as [st' | st'].
      + destruct (IH (S k) st' Hw Hit) as (k' & Hex' & Hk'). exists k'. split; auto.
        destruct Hk'; [left; lia | right; assumption].
      + destruct Hit as [-> He]. exists k. split; auto.
  Qed.

  Lemma wst0_ex perms : ExInv 0 (wst0 perms).
  Proof.
    split; [reflexivity|]. split; [apply wst0_inv|].
    intros j Hj. assert (j = 0) by lia. subst j. cbn [wst0 w_x nth].
    intros t. rewrite layer_0, nodup_In. reflexivity.
  Qed.

  Theorem walks_bfs_exhaustive width length_ perms x y D :
    1 <= width ->
    (forall i, length (layer state st_eq_dec (acts G) [start] i) <= width) ->
    layer state st_eq_dec (acts G) [start] (S D) = [] -> D < length_ ->
    walks_bfs G width length_ start perms = Ok (x, y) ->
    NoDup x /\
    (forall t d, (exists i, i < length x /\ nth i x [] = t /\ nth i y 0 = d) <->
                 In t (layer state st_eq_dec (acts G) [start] d)).
  Proof.
    intros _ Hw HD Hlen. unfold walks_bfs. fold (wst0 perms).
    destruct (bfs_loop_ex width (length_ - 1) 0 (wst0 perms) Hw (wst0_ex perms))
      as (k & (Hok & Hinv & Hlay) & Hk).
    set (st := bfs_walk_loop G (length_ - 1) width 1 (wst0 perms)) in *.
    rewrite Hok. intros Heq. inversion Heq; subst x y; clear Heq.
    assert (Hempty : forall d, k < d -> L d = []).
    { intros d Hd. destruct Hk as [Hk | Hk].
      - apply (empty_layer_stays state st_eq_dec (acts G) [start] (S D) HD). lia.
      - apply (empty_layer_stays state st_eq_dec (acts G) [start] (S k) Hk). lia. }
    pose proof (winv_length k st Hinv) as Hl.
    split; [apply (wi_nd k st Hinv)|].
    intros t d. rewrite (wi_y k st Hinv). split.
    - intros (i & Hi & <- & <-).
      destruct (yblocks_nth (w_x st) 0 i Hi) as (j & Hj & Hyj & Hxj).
      rewrite Hyj. simpl. apply (Hlay j); [lia | exact Hxj].
    - intros Ht. destruct (le_lt_dec d k) as [Hd | Hd].
      + apply (Hlay d Hd) in Ht.
        destruct (yblocks_nth_conv (w_x st) 0 d t Ht) as (i & Hi & Hx & Hy).
        exists i. repeat split; auto.
      + rewrite (Hempty d Hd) in Ht. destruct Ht.
  Qed.

End WalksCorrect.

(* the requested nbt statement is false without a generator when depth = 0 *)
Lemma walks_nbt_spec_needs_gens :
  exists (G : impl) start x y,
    walks_nbt G 1 2 0 start [[]] = Ok (x, y) /\ length x <> length y.
Proof.
  exists {| acts := []; hashf := fun _ => 0%Z; is_identity := false; unword := fun _ => [];
            inv_closed := true; central := [] |}, [], [[]], [0; 1].
  split; [reflexivity | simpl; lia].
Qed.

Print Assumptions walks_classic_spec.
Print Assumptions walks_nbt_spec.
Print Assumptions walks_bfs_spec.
Print Assumptions walks_bfs_exhaustive.
