(** Model of cayleypy/predictor.py: Hamming / zero heuristics and batched scoring. *)
From Coq Require Import ZArith List Bool Arith Lia.
From V Require Import Base Tensor.
Import ListNotations.
Open Scope Z_scope.

(* _hamming_distance(central, x.reshape(B, -1)): number of positions where the flat state differs *)
Fixpoint hamming (c s : list Z) : Z :=
  match c, s with
  | a :: c', b :: s' => (if a =? b then 0 else 1) + hamming c' s'
  | _, _ => 0
  end.

Definition predict_hamming (central : list Z) (states : list (list Z)) : list Z := map (hamming central) states.
Definition predict_zero (states : list (list Z)) : list Z := map (fun _ => 0) states.

(* Predictor.__call__: num_batches = ceil(len/batch_size); if > 1: tensor_split, predict each, hstack *)
Definition predictor_call (predict : list (list Z) -> list Z) (batch_size : Z) (states : list (list Z)) : list Z :=
  let nb := Z.to_nat ((Z.of_nat (length states) + batch_size - 1) / batch_size) in
  if (1 <? nb)%nat then concat (map predict (tensor_split nb states)) else predict states.
