(** C15: the executable acceptance check [family_ok] of the bounded theorems.

    For one constructor call, [pexpect] / [mexpect] give what the documentation (docstring, or - where the
    docstring is silent - the mathematics of the documented generator set) promises:
      None                        the call is outside the accepted parameter range: the constructor raises;
      Some (size, count, closed)  size of the permutations / matrices, number of generators, and whether the
                                  generator set is closed under inverses.
    [pcall_ok] / [mcall_ok] run the model of Families.v and check it against that promise: every generator
    is a permutation of the documented size (a square matrix of the documented size, reduced modulo m), the
    number of generators and of names is the documented one, the central state is the identity, and the
    definition's inverse-closed flag ([is_some (perm_inverse_map gens)], Def.v) equals the documented one.
    [pfamily_ok_upto f N] sweeps every parameter tuple of family [f] with n in -1..N (and every k, subset,
    add_inverses, perm_type, d in and just outside its range). *)
From Coq Require Import ZArith List Bool Arith Lia String Sorting.Mergesort.
From V Require Import Base W64 Perm Matrix Def Families FamiliesRun PermEnum.
Import ListNotations.
Open Scope Z_scope.

(* ---- documented counts ---- *)
Fixpoint subfact (n : nat) : Z :=          (* number of derangements *)
  match n with
  | O => 1
  | S m => match m with O => 0 | S l => Z.of_nat m * (subfact m + subfact l) end
  end.
Fixpoint dfact_odd (pairs : nat) : Z :=    (* (2*pairs - 1)!! : perfect matchings of 2*pairs points *)
  match pairs with O => 1 | S m => (2 * Z.of_nat pairs - 1) * dfact_odd m end.
Definition zbinom (n k : Z) : Z := zfact n / (zfact k * zfact (n - k)).
Definition n_all_cycles (n : Z) : Z :=     (* sum_{k=2..n} C(n,k) (k-1)! *)
  fold_left Z.add (map (fun k => zbinom n k * zfact (k - 1)) (zrange 2 (n + 1))) 0.

Definition some3 (cond : bool) (size count : Z) (closed : bool) : option (nat * nat * bool) :=
  if cond then Some (Z.to_nat size, Z.to_nat count, closed) else None.

Definition pexpect (c : pcall) : option (nat * nat * bool) :=
  match c with
  | CAllTranspositions n => some3 (2 <=? n) n (n * (n - 1) / 2) true
  | CTransposons n => some3 (2 <=? n) n (zbinom (n + 1) 3) true
  | CBlockInterchange n => some3 (2 <=? n) n (zbinom (n + 1) 4 + zbinom (n + 1) 3) true
  | CFullReversals n => some3 (2 <=? n) n (n * (n - 1) / 2) true
  | CSignedReversals n => some3 (1 <=? n) (2 * n) (n * (n + 1) / 2) true
  | CLrx n k => some3 ((3 <=? n) && (1 <=? k) && (k <? n)) n 3 true
  | CLx n => some3 (3 <=? n) n 2 false                                   (* documented: not inverse-closed *)
  | CTopSpin n k => some3 ((k <=? n) && (2 <=? k)) n 3 true
  | CCoxeter n => some3 (2 <=? n) n (n - 1) true
  | CCyclicCoxeter n => some3 (2 <=? n) n n true
  | CPancake n => some3 (2 <=? n) n (n - 1) true
  | CCubicPancake n s =>
      (* the three prefix lengths of the documented table must exist in S_n *)
      let third := if (s =? 1) || (s =? 5) then 2 else if (s =? 2) || (s =? 6) then 3
                   else if s =? 3 then n - 2 else n - 3 in
      let second := if s <=? 4 then n - 1 else n - 2 in
      some3 ((2 <=? n) && (1 <=? s) && (s <=? 7) && (0 <=? third) && (third <=? n) && (0 <=? second)) n 3 true
  | CBurntPancake n => some3 (1 <=? n) (2 * n) n true
  | CThreeCycles n => some3 (3 <=? n) n (n * (n - 1) * (n - 2) / 3) true
  | CThreeCycles0ij n => some3 (3 <=? n) n ((n - 1) * (n - 2)) true
  | CThreeCycles01i n b => some3 (3 <=? n) n ((if b then 2 else 1) * (n - 2)) b
  | CDerangements n => some3 (2 <=? n) n (subfact (Z.to_nat n)) true
  | CInvolutiveDerangements n => some3 ((2 <=? n) && (n mod 2 =? 0)) n (dfact_odd (Z.to_nat (n / 2))) true
  | CStars n => some3 (3 <=? n) n (n - 1) true
  | CGeneralizedStars n k => some3 ((3 <=? n) && (1 <=? k) && (k <? n)) n (k * (n - k)) true
  | CRapaportM1 n => some3 (2 <=? n) n (n - 1) true
  | CRapaportM2 n => some3 (2 <=? n) n 3 true
  | CAllCycles n => some3 (2 <=? n) n (n_all_cycles n) true
  | CLslCycles n b => some3 (3 <=? n) n (if b then 4 else 2) b
  | CWrappedKCycles n k => some3 ((2 <=? n) && (2 <=? k) && (k <=? n)) n n (k =? 2)
  | CLarx n => some3 (2 <=? n) n 2 (n <=? 3)
  | CIncreasingKCycles n k => some3 ((1 <=? n) && (1 <=? k) && (k <=? n)) n (zbinom n k) (k <=? 2)
  | CSheveleva2 n k => some3 ((1 <=? k) && (k <=? n - 3)) n 2 false
  | CKoltsov3 n t k d =>
      some3 ((k <? n) && (0 <=? k)
             && (((t =? 1) && (k + d <? n) && (0 <=? k + d)) || ((t =? 2) && (k + 3 <? n)))) n 3 true
  | CConsecutiveKCycles n k => some3 ((1 <=? n) && (1 <=? k) && (k <=? n)) n (n - k + 1) (k <=? 2)
  | CDownCycles n => some3 (2 <=? n) n (n * (n - 1) / 2) (n =? 2)
  | CPrefixCycles n => some3 (2 <=? n) n (n - 1) (n =? 2)
  | CConjugacyClasses _ _ _ | CRandGenerators _ _ _ => None            (* handled by [conj_ok]; random *)
  end.

Definition is_perm_of (size : nat) (p : list nat) : bool :=
  (List.length p =? size)%nat && is_perm p.

Definition pcall_ok (c : pcall) : bool :=
  match run_pcall c, pexpect c with
  | Err _, None => true
  | Ok d, Some (size, count, closed) =>
      forallb (is_perm_of size) (p_gens d)
      && (List.length (p_gens d) =? count)%nat && (List.length (p_names d) =? count)%nat
      && z_list_eqb (p_central d) (zrange 0 (Z.of_nat size))
      && Bool.eqb (p_closed d) closed
  | _, _ => false
  end.

Inductive pfamily :=
| FAllTranspositions | FTransposons | FBlockInterchange | FFullReversals | FSignedReversals | FLrx | FLx
| FTopSpin | FCoxeter | FCyclicCoxeter | FPancake | FCubicPancake | FBurntPancake | FThreeCycles
| FThreeCycles0ij | FThreeCycles01i | FDerangements | FInvolutiveDerangements | FStars | FGeneralizedStars
| FRapaportM1 | FRapaportM2 | FAllCycles | FLslCycles | FWrappedKCycles | FLarx | FIncreasingKCycles
| FSheveleva2 | FKoltsov3 | FConsecutiveKCycles | FDownCycles | FPrefixCycles.

(* every parameter tuple with n in -1..N; secondary parameters from one below to one above their range *)
Definition pfamily_calls (f : pfamily) (N : Z) : list pcall :=
  let ns := zrange (-1) (N + 1) in
  let nk (mk : Z -> Z -> pcall) := flat_map (fun n => map (mk n) (zrange (-1) (n + 2))) ns in
  let nb (mk : Z -> bool -> pcall) := flat_map (fun n => [mk n true; mk n false]) ns in
  match f with
  | FAllTranspositions => map CAllTranspositions ns | FTransposons => map CTransposons ns
  | FBlockInterchange => map CBlockInterchange ns | FFullReversals => map CFullReversals ns
  | FSignedReversals => map CSignedReversals ns | FLrx => nk CLrx | FLx => map CLx ns
  | FTopSpin => nk CTopSpin | FCoxeter => map CCoxeter ns | FCyclicCoxeter => map CCyclicCoxeter ns
  | FPancake => map CPancake ns
  | FCubicPancake => flat_map (fun n => map (CCubicPancake n) (zrange 0 9)) ns
  | FBurntPancake => map CBurntPancake ns | FThreeCycles => map CThreeCycles ns
  | FThreeCycles0ij => map CThreeCycles0ij ns | FThreeCycles01i => nb CThreeCycles01i
  | FDerangements => map CDerangements ns | FInvolutiveDerangements => map CInvolutiveDerangements ns
  | FStars => map CStars ns | FGeneralizedStars => nk CGeneralizedStars
  | FRapaportM1 => map CRapaportM1 ns | FRapaportM2 => map CRapaportM2 ns | FAllCycles => map CAllCycles ns
  | FLslCycles => nb CLslCycles | FWrappedKCycles => nk CWrappedKCycles | FLarx => map CLarx ns
  | FIncreasingKCycles => nk CIncreasingKCycles | FSheveleva2 => nk CSheveleva2
  | FKoltsov3 => flat_map (fun n => flat_map (fun t => flat_map (fun k =>
                    map (CKoltsov3 n t k) (zrange (-1) (n + 1))) (zrange (-1) (n + 1))) [0; 1; 2; 3]) ns
  | FConsecutiveKCycles => nk CConsecutiveKCycles | FDownCycles => map CDownCycles ns
  | FPrefixCycles => map CPrefixCycles ns
  end.

Definition pfamily_ok_upto (f : pfamily) (N : Z) : bool := forallb pcall_ok (pfamily_calls f N).
Definition pfamilies_ok (bounds : list (pfamily * Z)) : bool :=
  forallb (fun fb => pfamily_ok_upto (fst fb) (snd fb)) bounds.

(* ---- conjugacy_classes, deterministic part: one class {lens: None}, for every partition [lens] of every
   m <= n (the missing points are padded as fixed points); expected count = size of the conjugacy class
   n! / prod_k (k^{m_k} m_k!) *)
Definition class_size (n : nat) (lens : list nat) : Z :=
  let cnt := counter_of lens in
  zfact (Z.of_nat n) / fold_left Z.mul (map (fun '(k, m) => Z.of_nat k ^ Z.of_nat m * zfact (Z.of_nat m)) cnt) 1.

Definition conj_ok (n : nat) (lens : list nat) : bool :=
  let padded := lens ++ repeat 1%nat (n - fold_right Nat.add 0%nat lens) in
  match conjugacy_classes (Z.of_nat n) [(of_nats lens, None)] [] with
  | Ok d => forallb (is_perm_of n) (p_gens d)
            && (Z.of_nat (List.length (p_gens d)) =? class_size n padded)
            && (List.length (p_names d) =? List.length (p_gens d))%nat
            && forallb (fun p => nat_list_eqb (cycle_type p) (NatSort.sort padded)) (p_gens d)
            && z_list_eqb (p_central d) (zrange 0 (Z.of_nat n))
            && p_closed d
  | Err _ => false
  end.
Definition conj_ok_upto (N : nat) : bool :=
  forallb (fun n => forallb (fun m => forallb (conj_ok n) (partitions m)) (seq 1 n)) (seq 1 N).

(* ---- matrix families ---- *)
Definition valid_modulo (m : Z) : bool := (m =? 0) || ((2 <=? m) && (m <=? 2 ^ 31)).

Definition mexpect (c : mcall) : option (nat * nat * bool) :=
  match c with
  | CHeisenberg n m b =>
      (* modulo 2: every generator is its own inverse, nothing is added (docstring note in the harness) *)
      some3 ((3 <=? n) && valid_modulo m) n (if b && negb (m =? 2) then 4 * (n - 2) else 2 * (n - 2)) (b || (m =? 2))
  | CSlFundRoots n m => some3 ((2 <=? n) && valid_modulo m) n (4 * (n - 1)) true
  | CSlRootWeyl n m => some3 ((2 <=? n) && valid_modulo m) n 4 true
  end.

Definition mcall_ok (c : mcall) : bool :=
  match run_mcall c, mexpect c with
  | Err _, None => true
  | Ok d, Some (size, count, closed) =>
      let m := m_modulo d in
      forallb (fun M => (List.length M =? size)%nat
                        && forallb (fun r => (List.length r =? size)%nat
                                             && forallb (fun v => (m =? 0) || ((0 <=? v) && (v <? m))) r) M) (m_mats d)
      && (List.length (m_mats d) =? count)%nat && (List.length (m_names d) =? count)%nat
      && z_list_eqb (m_central d) (List.concat (eye size))
      && Bool.eqb (m_closed d) closed
  | _, _ => false
  end.

Definition test_moduli : list Z := [-1; 0; 1; 2; 3; 4; 5; 7; 2 ^ 31; 2 ^ 31 + 1].

Inductive mfamily := FHeisenberg | FSlFundRoots | FSlRootWeyl.
Definition mfamily_calls (f : mfamily) (N : Z) : list mcall :=
  let ns := zrange (-1) (N + 1) in
  match f with
  | FHeisenberg => flat_map (fun n => flat_map (fun m => [CHeisenberg n m true; CHeisenberg n m false]) test_moduli) ns
  | FSlFundRoots => flat_map (fun n => map (CSlFundRoots n) test_moduli) ns
  | FSlRootWeyl => flat_map (fun n => map (CSlRootWeyl n) test_moduli) ns
  end.
Definition mfamily_ok_upto (f : mfamily) (N : Z) : bool := forallb mcall_ok (mfamily_calls f N).
Definition mfamilies_ok (bounds : list (mfamily * Z)) : bool :=
  forallb (fun fb => mfamily_ok_upto (fst fb) (snd fb)) bounds.
