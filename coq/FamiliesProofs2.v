(** C15, second part: theorems about further family models that hold for EVERY n (no bound).

    Same style as FamiliesProofs.v.  For each family below: the constructor returns [Ok] exactly on the
    documented parameter range (and the stated error outside), the generators are given in closed form,
    each is a permutation of the documented length ([PermN]), the number of generators is the documented
    formula, the generator names and graph name are the documented strings, the action on an arbitrary
    sequence x ([apply_perm], library convention new[j] = old[p[j]]) is the documented rearrangement, and
    the inverse-closed flag [is_some (perm_inverse_map gens)] is the documented one. *)
From Coq Require Import String.
From Coq Require Import ZArith List Bool Arith Lia Sorting.Mergesort Sorting.Permutation.
From V Require Import Base Perm PermProofs PermCycles Def DefProofs Families FamiliesProofs.
Import ListNotations.
Open Scope nat_scope.

(* ---------------------------------------------------------------------------------------------- *)
(** * Infrastructure *)

(* the complete result of a successful constructor call *)
Definition returns_full (r : result pdef) (n : nat) (gens : list (list nat)) (names : list string)
  (name : string) : Prop :=
  r = Ok {| p_gens := gens; p_names := names; p_name := name; p_central := of_nats (seq 0 n) |}.

Lemma create_full gens names name n :
  gens <> [] -> 0 < n -> Forall (PermN n) gens -> length names = length gens ->
  returns_full (create (map of_nats gens) (Some names) (zrange 0 (Z.of_nat n)) name) n gens names name.
Proof.
  intros H1 H2 H3 H4. unfold returns_full.
  rewrite (create_ok gens (Some names) name n H1 H2 H3); [reflexivity|].
  intros l [= <-]. exact H4.
Qed.

Definition closed_flag (gens : list (list nat)) : bool := is_some (perm_inverse_map gens).

(* an involution is its own inverse *)
Lemma involution_inverse p : Perm p ->
  (forall t, t < length p -> nth (nth t p 0) p 0 = t) -> inverse_perm p = p.
Proof.
  intros HP Hinv. apply nth_ext' with (d := 0); [apply inverse_perm_length|].
  intros t Ht. rewrite inverse_perm_length in Ht.
  pose proof (inverse_spec p (nth t p 0) HP (Perm_lt p t HP Ht)) as S.
  rewrite (Hinv t Ht) in S. exact S.
Qed.

Lemma closed_of_involutions gens :
  (forall p, In p gens -> inverse_perm p = p) -> closed_flag gens = true.
Proof.
  intros H. apply closed_flag_iff. intros p Hp. rewrite (H p Hp). exact Hp.
Qed.

(* a generator whose inverse is not in the list *)
Lemma not_closed gens p : In p gens -> ~ In (inverse_perm p) gens -> closed_flag gens = false.
Proof.
  intros Hp Hn. unfold closed_flag. destruct (is_some (perm_inverse_map gens)) eqn:C; [|reflexivity].
  exfalso. apply Hn. apply (proj1 (closed_flag_iff gens) C p Hp).
Qed.

(* pointwise description of a list of indices gives permutation + involution at once *)
Lemma involution_PermN n p : length p = n ->
  (forall t, t < n -> nth t p 0 < n /\ nth (nth t p 0) p 0 = t) -> PermN n p /\ inverse_perm p = p.
Proof.
  intros L H.
  assert (Perm p) as HP by (apply involution_Perm; rewrite L; exact H).
  split; [split; assumption|]. apply involution_inverse; [exact HP|]. rewrite L. intros t Ht. apply H. exact Ht.
Qed.

Lemma nth_rev_seq a k t : t < k -> nth t (rev (seq a k)) 0 = a + k - 1 - t.
Proof.
  intros H. rewrite rev_nth by (rewrite seq_length; exact H). rewrite seq_length.
  rewrite seq_nth by lia. lia.
Qed.

Lemma Z_of_nat_2n n : (2 * Z.of_nat n)%Z = Z.of_nat (2 * n).
Proof. lia. Qed.

(* range(a, b) with a, b naturals written as Z expressions *)
Lemma zrange_nat' (a b : Z) (a' b' : nat) : a = Z.of_nat a' -> b = Z.of_nat b' ->
  zrange a b = of_nats (seq a' (b' - a')).
Proof. intros -> ->. apply zrange_nat. Qed.

Lemma zrange_down_nat' (hi lo : Z) (a b : nat) : a <= b -> hi = (Z.of_nat b - 1)%Z -> lo = (Z.of_nat a - 1)%Z ->
  zrange_down hi lo = of_nats (rev (seq a (b - a))).
Proof. intros H -> ->. apply zrange_down_nat. exact H. Qed.

Lemma zrange_empty a b : (b <= a)%Z -> zrange a b = [].
Proof. intros H. unfold zrange. replace (Z.to_nat (b - a)) with 0 by lia. reflexivity. Qed.

Lemma zrange_length a b : length (zrange a b) = Z.to_nat (b - a).
Proof. unfold zrange. now rewrite map_length, seq_length. Qed.

Lemma of_nats_map_length {I} (f : I -> list nat) l : length (map of_nats (map f l)) = length l.
Proof. now rewrite !map_length. Qed.

(* nth through a map over seq *)
Lemma nth_map_seq {B} (f : nat -> B) a m t d : t < m -> nth t (map f (seq a m)) d = f (a + t).
Proof. intros H. rewrite (nth_map_lt f (seq a m) t 0 d) by (rewrite seq_length; exact H). now rewrite seq_nth. Qed.

(* ---------------------------------------------------------------------------------------------- *)
(** * burnt_pancake(n), n >= 1: S_2n, n generators R1..Rn; Rk reverses and flips the first k pancakes *)

(* Rk, 1 <= k <= n, on 2n points: positions 0..k-1 receive n+k-1, ..., n and positions n..n+k-1 receive
   k-1, ..., 0 *)
Definition gen_burnt (n k : nat) : list nat :=
  rev (seq n k) ++ seq k (n - k) ++ rev (seq 0 k) ++ seq (n + k) (n - k).

(* the documented action: x = bottoms ++ tops; the first k pancakes are reversed and turned over *)
Definition burnt_flip {A} (n k : nat) (x : list A) : list A :=
  rev (firstn k (skipn n x)) ++ firstn (n - k) (skipn k x) ++ rev (firstn k x) ++ skipn (n + k) x.

Lemma gen_burnt_length n k : k <= n -> length (gen_burnt n k) = 2 * n.
Proof. intros H. unfold gen_burnt. rewrite !app_length, !rev_length, !seq_length. lia. Qed.

Lemma gen_burnt_nth n k t : k <= n -> t < 2 * n ->
  nth t (gen_burnt n k) 0 =
    if t <? k then n + k - 1 - t else if t <? n then t else if t <? n + k then n + k - 1 - t else t.
Proof.
  intros Hk Ht. unfold gen_burnt.
  destruct (Nat.ltb_spec t k).
  { rewrite app_nth1 by (rewrite rev_length, seq_length; lia). apply nth_rev_seq. lia. }
  rewrite app_nth2 by (rewrite rev_length, seq_length; lia). rewrite rev_length, seq_length.
  destruct (Nat.ltb_spec t n).
  { rewrite app_nth1 by (rewrite seq_length; lia). rewrite seq_nth by lia. lia. }
  rewrite app_nth2 by (rewrite seq_length; lia). rewrite seq_length.
  destruct (Nat.ltb_spec t (n + k)).
  { rewrite app_nth1 by (rewrite rev_length, seq_length; lia). rewrite nth_rev_seq by lia. lia. }
  rewrite app_nth2 by (rewrite rev_length, seq_length; lia). rewrite rev_length, seq_length.
  rewrite seq_nth by lia. lia.
Qed.

Lemma gen_burnt_inv n k : k <= n -> PermN (2 * n) (gen_burnt n k) /\ inverse_perm (gen_burnt n k) = gen_burnt n k.
Proof.
  intros Hk. apply involution_PermN; [apply gen_burnt_length; exact Hk|].
  intros t Ht. rewrite (gen_burnt_nth n k t Hk Ht).
  destruct (Nat.ltb_spec t k); [|destruct (Nat.ltb_spec t n); [|destruct (Nat.ltb_spec t (n + k))]].
  - split; [lia|]. rewrite gen_burnt_nth by lia.
    destruct (Nat.ltb_spec (n + k - 1 - t) k); [lia|]. destruct (Nat.ltb_spec (n + k - 1 - t) n); [lia|].
    destruct (Nat.ltb_spec (n + k - 1 - t) (n + k)); lia.
  - split; [lia|]. rewrite gen_burnt_nth by lia.
    destruct (Nat.ltb_spec t k); [lia|]. destruct (Nat.ltb_spec t n); lia.
  - split; [lia|]. rewrite gen_burnt_nth by lia.
    destruct (Nat.ltb_spec (n + k - 1 - t) k); lia.
  - split; [lia|]. rewrite gen_burnt_nth by lia.
    destruct (Nat.ltb_spec t k); [lia|]. destruct (Nat.ltb_spec t n); [lia|].
    destruct (Nat.ltb_spec t (n + k)); lia.
Qed.

Lemma apply_gen_burnt {A} (d : A) n k (x : list A) : k <= n -> length x = 2 * n ->
  apply_perm d (gen_burnt n k) x = burnt_flip n k x.
Proof.
  intros Hk L. unfold gen_burnt, burnt_flip.
  rewrite !apply_app, !apply_rev, !apply_seq by lia. cbn [skipn].
  do 3 f_equal. apply firstn_skipn_all. lia.
Qed.

Lemma burnt_eq n k : 1 <= k <= n ->
  zrange_down (Z.of_nat n + Z.of_nat (k - 1)) (Z.of_nat n - 1) ++ zrange (Z.of_nat (k - 1) + 1) (Z.of_nat n)
  ++ zrange_down (Z.of_nat (k - 1)) (-1) ++ zrange (Z.of_nat n + Z.of_nat (k - 1) + 1) (2 * Z.of_nat n)
  = of_nats (gen_burnt n k).
Proof.
  intros Hk. unfold gen_burnt. rewrite !of_nats_app.
  rewrite (zrange_down_nat' _ _ n (n + k)) by lia.
  rewrite (zrange_nat' _ _ k n) by lia.
  rewrite (zrange_down_nat' _ _ 0 k) by lia.
  rewrite (zrange_nat' _ _ (n + k) (2 * n)) by lia.
  replace (n + k - n) with k by lia. replace (k - 0) with k by lia.
  replace (2 * n - (n + k)) with (n - k) by lia. reflexivity.
Qed.

Definition burnt_names (n : nat) : list string := map (fun k => cat ["R"; zs (Z.of_nat k)]) (seq 1 n).

Theorem burnt_pancake_returns n : 1 <= n ->
  returns_full (burnt_pancake (Z.of_nat n)) (2 * n) (map (gen_burnt n) (seq 1 n)) (burnt_names n)
               (cat ["burnt_pancake-"; zs (Z.of_nat n)]).
Proof.
  intros Hn. unfold burnt_pancake. zguard. rewrite zrange0_nat.
  replace (map (fun pl => cat ["R"; zs (pl + 1)]) (of_nats (seq 0 n))) with (burnt_names n).
  2:{ unfold burnt_names, of_nats. rewrite <- seq_shift, !map_map. apply map_ext. intros a.
      replace (Z.of_nat (S a)) with (Z.of_nat a + 1)%Z by lia. reflexivity. }
  replace (map _ (of_nats (seq 0 n))) with (map of_nats (map (gen_burnt n) (seq 1 n))).
  2:{ change (of_nats (seq 0 n)) with (map Z.of_nat (seq 0 n)). rewrite <- seq_shift, !map_map. apply map_ext_in. intros a Ha. apply in_seq in Ha.
      rewrite <- (burnt_eq n (S a)) by lia. replace (S a - 1) with a by lia. reflexivity. }
  rewrite Z_of_nat_2n. apply create_full.
  - destruct n; [lia|]. discriminate.
  - lia.
  - apply Forall_forall. intros p Hp. apply in_map_iff in Hp as (k & <- & Hk). apply in_seq in Hk.
    apply gen_burnt_inv. lia.
  - unfold burnt_names. now rewrite !map_length.
Qed.
Lemma returns_full_fields r n gens names name : returns_full r n gens names name ->
  exists d, r = Ok d /\ p_gens d = gens /\ p_names d = names /\ p_name d = name /\
            p_central d = of_nats (seq 0 n).
Proof. intros H. eexists. split; [exact H|]. cbn. repeat split. Qed.

Theorem burnt_pancake_documented n : 1 <= n ->
  exists d, burnt_pancake (Z.of_nat n) = Ok d /\
    p_gens d = map (gen_burnt n) (seq 1 n) /\
    p_names d = map (fun k => cat ["R"; zs (Z.of_nat k)]) (seq 1 n) /\
    p_name d = cat ["burnt_pancake-"; zs (Z.of_nat n)] /\
    p_central d = of_nats (seq 0 (2 * n)) /\
    length (p_gens d) = n /\ Forall (PermN (2 * n)) (p_gens d) /\
    (forall (A : Type) (dflt : A) (x : list A) k, length x = 2 * n -> 1 <= k <= n ->
       apply_perm dflt (nth (k - 1) (p_gens d) []) x
       = rev (firstn k (skipn n x)) ++ firstn (n - k) (skipn k x) ++ rev (firstn k x) ++ skipn (n + k) x) /\
    closed_flag (p_gens d) = true.
Proof.
  intros Hn. destruct (returns_full_fields _ _ _ _ _ (burnt_pancake_returns n Hn)) as (d & E & G & N & M & C).
  exists d. rewrite G. repeat split; try assumption.
  - now rewrite map_length, seq_length.
  - apply Forall_forall. intros p Hp. apply in_map_iff in Hp as (k & <- & Hk). apply in_seq in Hk.
    apply gen_burnt_inv. lia.
  - intros A dflt x k L Hk. rewrite nth_map_seq by lia. replace (1 + (k - 1)) with k by lia.
    apply apply_gen_burnt; lia.
  - apply closed_of_involutions. intros p Hp. apply in_map_iff in Hp as (k & <- & Hk). apply in_seq in Hk.
    apply gen_burnt_inv. lia.
Qed.

Theorem burnt_pancake_range z :
  ((exists d, burnt_pancake z = Ok d) <-> (1 <= z)%Z) /\ ((z < 1)%Z -> burnt_pancake z = Err AssertionErr).
Proof.
  split; [split|].
  - intros [d E]. unfold burnt_pancake in E. destruct (Z.leb_spec 1 z); [assumption|discriminate].
  - intros H. destruct (burnt_pancake_documented (Z.to_nat z) ltac:(lia)) as (d & E & _).
    exists d. rewrite Z2Nat.id in E by lia. exact E.
  - intros H. unfold burnt_pancake. destruct (Z.leb_spec 1 z); [lia|reflexivity].
Qed.

Example burnt_pancake_3 :
  burnt_pancake 3 = Ok {| p_gens := [[3; 1; 2; 0; 4; 5]; [4; 3; 2; 1; 0; 5]; [5; 4; 3; 2; 1; 0]];
                         p_names := ["R1"; "R2"; "R3"]%string; p_name := "burnt_pancake-3"%string;
                         p_central := [0; 1; 2; 3; 4; 5]%Z |}
  /\ map (gen_burnt 3) (seq 1 3) = [[3; 1; 2; 0; 4; 5]; [4; 3; 2; 1; 0; 5]; [5; 4; 3; 2; 1; 0]]
  /\ burnt_flip 3 2 ["b0"; "b1"; "b2"; "t0"; "t1"; "t2"]%string = ["t1"; "t0"; "b2"; "b1"; "b0"; "t2"]%string.
Proof. vm_compute. repeat split. Qed.
(* ---------------------------------------------------------------------------------------------- *)
(** * cubic_pancake(n, subset): three prefix reversals *)
Lemma range_from_cases {T} (r : result T) (P : Prop) e :
  (P -> exists d, r = Ok d) -> (~ P -> r = Err e) -> P \/ ~ P ->
  ((exists d, r = Ok d) <-> P) /\ (~ P -> r = Err e).
Proof.
  intros H1 H2 D. split; [|exact H2]. split; [|exact H1].
  intros [d E]. destruct D as [HP|HN]; [exact HP|]. rewrite (H2 HN) in E. discriminate.
Qed.

Lemma gen_rev_prefix_length n k : k <= n -> length (gen_rev_prefix n k) = n.
Proof. intros H. unfold gen_rev_prefix. rewrite app_length, rev_length, !seq_length. lia. Qed.

Lemma gen_rev_prefix_nth n k t : k <= n -> t < n ->
  nth t (gen_rev_prefix n k) 0 = if t <? k then k - 1 - t else t.
Proof.
  intros Hk Ht. unfold gen_rev_prefix. destruct (Nat.ltb_spec t k).
  - rewrite app_nth1 by (rewrite rev_length, seq_length; lia). rewrite nth_rev_seq by lia. lia.
  - rewrite app_nth2 by (rewrite rev_length, seq_length; lia). rewrite rev_length, seq_length.
    rewrite seq_nth by lia. lia.
Qed.

Lemma gen_rev_prefix_inv n k : k <= n -> inverse_perm (gen_rev_prefix n k) = gen_rev_prefix n k.
Proof.
  intros Hk. apply involution_PermN with (n := n); [apply gen_rev_prefix_length; exact Hk|].
  intros t Ht. rewrite (gen_rev_prefix_nth n k t Hk Ht). destruct (Nat.ltb_spec t k).
  - split; [lia|]. rewrite gen_rev_prefix_nth by lia. destruct (Nat.ltb_spec (k - 1 - t) k); lia.
  - split; [lia|]. rewrite gen_rev_prefix_nth by lia. destruct (Nat.ltb_spec t k); lia.
Qed.

Lemma pancake_generator_nat z k n : z = Z.of_nat k -> k <= n ->
  pancake_generator z (Z.of_nat n) = of_nats (gen_rev_prefix n k).
Proof. intros -> H. unfold pancake_generator. apply revp_eq. exact H. Qed.

(* the prefix lengths of the documented table *)
Definition cubic_ks (n s : nat) : list nat :=
  match s with
  | 1 => [n; n - 1; 2] | 2 => [n; n - 1; 3] | 3 => [n; n - 1; n - 2] | 4 => [n; n - 1; n - 3]
  | 5 => [n; n - 2; 2] | 6 => [n; n - 2; 3] | _ => [n; n - 2; n - 3]
  end.

(* documented range: n >= 2, subset in 1..7, every named reversal R_k has 0 <= k <= n *)
Definition cubic_range (n s : Z) : Prop :=
  (2 <= n /\ 1 <= s <= 7 /\ (s = 2 \/ s = 4 \/ s = 6 \/ s = 7 -> 3 <= n))%Z.

Theorem cubic_pancake_returns n s : cubic_range (Z.of_nat n) (Z.of_nat s) ->
  returns_full (cubic_pancake (Z.of_nat n) (Z.of_nat s)) n (map (gen_rev_prefix n) (cubic_ks n s))
               (map (fun k => cat ["R"; zs (Z.of_nat k)]) (cubic_ks n s))
               (cat ["cubic_pancake-"; zs (Z.of_nat n); "-"; zs (Z.of_nat s)]).
Proof.
  intros (Hn & Hs & H3). unfold cubic_pancake. destruct (Z.leb_spec 2 (Z.of_nat n)); [|lia]. cbn [negb].
  assert (forall k, k <= n -> PermN n (gen_rev_prefix n k)) as HP by (intros k Hk; apply gen_rev_prefix_PermN; exact Hk).
  assert (s = 1 \/ s = 2 \/ s = 3 \/ s = 4 \/ s = 5 \/ s = 6 \/ s = 7) as Hc by lia.
  destruct Hc as [->|[->|[->|[->|[->|[->| ->]]]]]];
    cbn [cubic_ks]; cbn [Z.of_nat Pos.of_succ_nat Pos.succ existsb Z.eqb Pos.eqb orb negb];
    cbn [map];
    repeat match goal with
    | |- context [pancake_generator ?z (Z.of_nat ?m)] =>
        first [ rewrite (pancake_generator_nat z m m) by lia
              | rewrite (pancake_generator_nat z (m - 1) m) by lia
              | rewrite (pancake_generator_nat z (m - 2) m) by lia
              | rewrite (pancake_generator_nat z (m - 3) m) by lia
              | rewrite (pancake_generator_nat z 2 m) by lia
              | rewrite (pancake_generator_nat z 3 m) by lia ]
    end;
    repeat match goal with
    | |- context [zs (Z.of_nat ?m - ?c)] =>
        replace (Z.of_nat m - c)%Z with (Z.of_nat (m - Z.to_nat c)) by lia; cbn [Z.to_nat Pos.to_nat Pos.iter_op Nat.add]
    end;
    match goal with
    | |- returns_full (create [of_nats ?a; of_nats ?b; of_nats ?c] _ _ _) _ _ _ _ =>
        change [of_nats a; of_nats b; of_nats c] with (map of_nats [a; b; c])
    end;
    (apply create_full; [discriminate|lia| |reflexivity]);
    repeat (apply Forall_cons || apply Forall_nil); apply HP; lia.
Qed.

Theorem cubic_pancake_documented n s : cubic_range (Z.of_nat n) (Z.of_nat s) ->
  exists d, cubic_pancake (Z.of_nat n) (Z.of_nat s) = Ok d /\
    p_gens d = map (gen_rev_prefix n) (cubic_ks n s) /\
    p_names d = map (fun k => cat ["R"; zs (Z.of_nat k)]) (cubic_ks n s) /\
    p_name d = cat ["cubic_pancake-"; zs (Z.of_nat n); "-"; zs (Z.of_nat s)] /\
    p_central d = of_nats (seq 0 n) /\
    length (p_gens d) = 3 /\ Forall (PermN n) (p_gens d) /\
    (forall (A : Type) (dflt : A) (x : list A) i, length x = n -> i < 3 ->
       nth i (cubic_ks n s) 0 <= n /\
       apply_perm dflt (nth i (p_gens d) []) x
       = rev (firstn (nth i (cubic_ks n s) 0) x) ++ skipn (nth i (cubic_ks n s) 0) x) /\
    closed_flag (p_gens d) = true.
Proof.
  intros HR. destruct (returns_full_fields _ _ _ _ _ (cubic_pancake_returns n s HR)) as (d & E & G & N & M & C).
  assert (length (cubic_ks n s) = 3) as L3 by (do 8 (destruct s as [|s]; [reflexivity|]); reflexivity).
  assert (forall k, In k (cubic_ks n s) -> k <= n) as Hks.
  { destruct HR as (Hn & Hs & H3). intros k Hk.
    assert (s = 1 \/ s = 2 \/ s = 3 \/ s = 4 \/ s = 5 \/ s = 6 \/ s = 7) as Hc by lia.
    destruct Hc as [->|[->|[->|[->|[->|[->| ->]]]]]]; cbn [cubic_ks In] in Hk; lia. }
  exists d. rewrite G. repeat split; try assumption.
  - now rewrite map_length.
  - apply Forall_forall. intros p Hp. apply in_map_iff in Hp as (k & <- & Hk).
    apply gen_rev_prefix_PermN. apply Hks. exact Hk.
  - apply Hks. apply nth_In. lia.
  - rewrite (nth_map_lt _ _ i 0) by lia. apply (apply_gen_rev_prefix dflt n); [|assumption].
    apply Hks. apply nth_In. lia.
  - apply closed_of_involutions. intros p Hp. apply in_map_iff in Hp as (k & <- & Hk).
    apply gen_rev_prefix_inv. apply Hks. exact Hk.
Qed.

Theorem cubic_pancake_range n s :
  ((exists d, cubic_pancake n s = Ok d) <-> cubic_range n s) /\
  (~ cubic_range n s -> cubic_pancake n s = Err AssertionErr).
Proof.
  apply range_from_cases.
  - intros HR. pose proof HR as (Hn & Hs & _).
    destruct (cubic_pancake_documented (Z.to_nat n) (Z.to_nat s)) as (d & E & _).
    { rewrite !Z2Nat.id by lia. exact HR. }
    exists d. rewrite !Z2Nat.id in E by lia. exact E.
  - intros HN. unfold cubic_pancake. destruct (Z.leb_spec 2 n) as [Hn|Hn]; [|reflexivity]. cbn [negb].
    cbn [existsb].
    destruct (Z.eqb_spec s 1) as [->|N1].
    { exfalso. apply HN. unfold cubic_range. lia. }
    destruct (Z.eqb_spec s 2) as [->|N2].
    { assert (n = 2)%Z as -> by (unfold cubic_range in HN; lia). reflexivity. }
    destruct (Z.eqb_spec s 3) as [->|N3].
    { exfalso. apply HN. unfold cubic_range. lia. }
    destruct (Z.eqb_spec s 4) as [->|N4].
    { assert (n = 2)%Z as -> by (unfold cubic_range in HN; lia). reflexivity. }
    destruct (Z.eqb_spec s 5) as [->|N5].
    { exfalso. apply HN. unfold cubic_range. lia. }
    destruct (Z.eqb_spec s 6) as [->|N6].
    { assert (n = 2)%Z as -> by (unfold cubic_range in HN; lia). reflexivity. }
    destruct (Z.eqb_spec s 7) as [->|N7].
    { assert (n = 2)%Z as -> by (unfold cubic_range in HN; lia). reflexivity. }
    reflexivity.
  - unfold cubic_range. lia.
Qed.

Example cubic_pancake_5_4 :
  cubic_range 5 4 /\ ~ cubic_range 2 4 /\
  cubic_pancake 5 4 = Ok {| p_gens := [[4; 3; 2; 1; 0]; [3; 2; 1; 0; 4]; [1; 0; 2; 3; 4]];
                           p_names := ["R5"; "R4"; "R2"]%string; p_name := "cubic_pancake-5-4"%string;
                           p_central := [0; 1; 2; 3; 4]%Z |}
  /\ cubic_ks 5 4 = [5; 4; 2].
Proof. unfold cubic_range. repeat split; try lia. Qed.
(* ---------------------------------------------------------------------------------------------- *)
(** * generalized_stars(n, k): the k(n-k) transpositions (i j), i < k <= j < n *)
Lemma transp_inv n i j : i < n -> j < n -> inverse_perm (transp n i j) = transp n i j.
Proof.
  intros Hi Hj. destruct (transp_PermN n i j Hi Hj) as [HP L]. apply involution_inverse; [exact HP|].
  rewrite L. intros t Ht. rewrite (transp_nth n i j t Hi Hj Ht).
  destruct (Nat.eqb_spec t j) as [->|Hne].
  - rewrite (transp_nth n i j i Hi Hj Hi). destruct (Nat.eqb_spec i j) as [->|]; [reflexivity|].
    now rewrite Nat.eqb_refl.
  - destruct (Nat.eqb_spec t i) as [->|Hne'].
    + rewrite (transp_nth n i j j Hi Hj Hj). now rewrite Nat.eqb_refl.
    + rewrite (transp_nth n i j t Hi Hj Ht).
      destruct (Nat.eqb_spec t j); [congruence|]. destruct (Nat.eqb_spec t i); [congruence|]. reflexivity.
Qed.

(* a rectangular grid of indices, row by row *)
Definition grid (b k a m : nat) : list (nat * nat) :=
  flat_map (fun i => map (fun j => (i, j)) (seq a m)) (seq b k).

Lemma grid_length b k a m : length (grid b k a m) = k * m.
Proof.
  unfold grid. revert b. induction k as [|k IH]; intros b; [reflexivity|].
  cbn [seq flat_map]. rewrite app_length, map_length, seq_length, IH. lia.
Qed.

Lemma grid_nth b k a m i j d : i < k -> j < m -> nth (i * m + j) (grid b k a m) d = (b + i, a + j).
Proof.
  unfold grid. revert b i. induction k as [|k IH]; intros b i Hi Hj; [lia|].
  cbn [seq flat_map]. destruct i as [|i].
  - rewrite app_nth1 by (rewrite map_length, seq_length; lia). cbn [Nat.mul Nat.add].
    rewrite (nth_map_seq (fun j => (b, j))) by lia. f_equal. lia.
  - rewrite app_nth2 by (rewrite map_length, seq_length; lia). rewrite map_length, seq_length.
    replace (S i * m + j - m) with (i * m + j) by lia. rewrite IH by lia. f_equal. lia.
Qed.

Lemma in_grid b k a m i j : In (i, j) (grid b k a m) <-> b <= i < b + k /\ a <= j < a + m.
Proof.
  unfold grid. rewrite in_flat_map. split.
  - intros (i' & Hi' & H). apply in_map_iff in H as (j' & [= <- <-] & Hj'). apply in_seq in Hi', Hj'. lia.
  - intros [H1 H2]. exists i. split; [apply in_seq; lia|]. apply in_map. apply in_seq. lia.
Qed.

Lemma zgrid_nat (b k a m : nat) :
  flat_map (fun i => map (fun j => (i, j)) (zrange (Z.of_nat a) (Z.of_nat (a + m))))
           (zrange (Z.of_nat b) (Z.of_nat (b + k)))
  = map zpair (grid b k a m).
Proof.
  rewrite !zrange_nat. replace (a + m - a) with m by lia. replace (b + k - b) with k by lia.
  unfold grid, of_nats. rewrite !flat_map_concat_map, concat_map, !map_map.
  f_equal. apply map_ext. intros i. rewrite !map_map. reflexivity.
Qed.

Definition gs_pairs (n k : nat) : list (nat * nat) := grid 0 k k (n - k).

Theorem generalized_stars_returns n k : 3 <= n -> 1 <= k < n ->
  returns_full (generalized_stars (Z.of_nat n) (Z.of_nat k)) n
    (map (fun ij => transp n (fst ij) (snd ij)) (gs_pairs n k))
    (map (fun ij => cat ["S"; zs (Z.of_nat (fst ij)); "-"; zs (Z.of_nat (snd ij))]) (gs_pairs n k))
    (cat ["generalized-stars-"; zs (Z.of_nat n); "-"; zs (Z.of_nat k)]).
Proof.
  intros Hn Hk. unfold generalized_stars. zguard.
  pose proof (zgrid_nat 0 k k (n - k)) as E. cbn [Nat.add] in E.
  replace (k + (n - k)) with n in E by lia. cbn [Z.of_nat] in E. rewrite E. fold (gs_pairs n k).
  rewrite (mapM_map_ok zpair _ (fun ij => of_nats (transp n (fst ij) (snd ij)))).
  2:{ intros [i j] Hij. apply in_grid in Hij. cbn [zpair fst snd]. apply ztransposition_nat; lia. }
  cbn [bind]. rewrite <- (map_map (fun ij => transp n (fst ij) (snd ij)) of_nats).
  rewrite (map_map zpair). 
  rewrite (map_ext (fun x => let '(i, j) := zpair x in cat ["S"; zs i; "-"; zs j])
                   (fun ij => cat ["S"; zs (Z.of_nat (fst ij)); "-"; zs (Z.of_nat (snd ij))]))
    by (intros [i j]; reflexivity).
  apply create_full.
  - assert (In (0, k) (gs_pairs n k)) as Hij by (apply in_grid; lia).
    destruct (gs_pairs n k); [destruct Hij|discriminate].
  - lia.
  - apply Forall_forall. intros p Hp. apply in_map_iff in Hp as ([i j] & <- & Hij). apply in_grid in Hij.
    apply transp_PermN; cbn; lia.
  - now rewrite !map_length.
Qed.

Theorem generalized_stars_documented n k : 3 <= n -> 1 <= k < n ->
  exists d, generalized_stars (Z.of_nat n) (Z.of_nat k) = Ok d /\
    p_name d = cat ["generalized-stars-"; zs (Z.of_nat n); "-"; zs (Z.of_nat k)] /\
    p_central d = of_nats (seq 0 n) /\
    length (p_gens d) = k * (n - k) /\ length (p_names d) = k * (n - k) /\ Forall (PermN n) (p_gens d) /\
    (forall p, In p (p_gens d) <-> exists i j, i < k /\ k <= j < n /\ p = transp n i j) /\
    (forall i j, i < k -> k <= j < n ->
       nth (i * (n - k) + (j - k)) (p_gens d) [] = transp n i j /\
       nth (i * (n - k) + (j - k)) (p_names d) ""%string = cat ["S"; zs (Z.of_nat i); "-"; zs (Z.of_nat j)] /\
       forall (A : Type) (dflt : A) (x : list A), length x = n ->
         apply_perm dflt (transp n i j) x = swap_at dflt x i j) /\
    closed_flag (p_gens d) = true.
Proof.
  intros Hn Hk.
  destruct (returns_full_fields _ _ _ _ _ (generalized_stars_returns n k Hn Hk)) as (d & E & G & N & M & C).
  assert (length (gs_pairs n k) = k * (n - k)) as L by apply grid_length.
  exists d. rewrite G, N. repeat split; try assumption.
  - now rewrite map_length.
  - now rewrite map_length.
  - apply Forall_forall. intros p Hp. apply in_map_iff in Hp as ([i j] & <- & Hij). apply in_grid in Hij.
    apply transp_PermN; cbn; lia.
  - intros Hp. apply in_map_iff in Hp as ([i j] & <- & Hij). apply in_grid in Hij. exists i, j. cbn [fst snd]. repeat split; lia.
  - intros (i & j & Hi & Hj & ->). apply in_map_iff. exists (i, j). split; [reflexivity|]. apply in_grid. lia.
  - rewrite (nth_map_lt _ _ _ (0, 0)) by (rewrite L; nia).
    unfold gs_pairs. rewrite grid_nth by lia. cbn [fst snd]. f_equal; lia.
  - rewrite (nth_map_lt _ _ _ (0, 0)) by (rewrite L; nia).
    unfold gs_pairs. rewrite grid_nth by lia. cbn [fst snd Nat.add]. replace (k + (j - k)) with j by lia. reflexivity.
  - intros A dflt x Lx. apply apply_transp; lia.
  - apply closed_of_involutions. intros p Hp. apply in_map_iff in Hp as ([i j] & <- & Hij). apply in_grid in Hij.
    apply transp_inv; cbn; lia.
Qed.

Theorem generalized_stars_range n k :
  ((exists d, generalized_stars n k = Ok d) <-> (3 <= n /\ 1 <= k < n)%Z) /\
  (~ (3 <= n /\ 1 <= k < n)%Z -> generalized_stars n k = Err AssertionErr).
Proof.
  apply range_from_cases.
  - intros [Hn Hk]. destruct (generalized_stars_documented (Z.to_nat n) (Z.to_nat k)) as (d & E & _); try lia.
    exists d. rewrite !Z2Nat.id in E by lia. exact E.
  - intros HN. unfold generalized_stars. destruct (Z.leb_spec 3 n); [|reflexivity]. cbn [negb].
    destruct (Z.leb_spec 1 k); [|reflexivity]. destruct (Z.ltb_spec k n); [lia|reflexivity].
  - lia.
Qed.

Example generalized_stars_4_2 :
  generalized_stars 4 2 = Ok {| p_gens := [[2; 1; 0; 3]; [3; 1; 2; 0]; [0; 2; 1; 3]; [0; 3; 2; 1]];
                               p_names := ["S0-2"; "S0-3"; "S1-2"; "S1-3"]%string;
                               p_name := "generalized-stars-4-2"%string; p_central := [0; 1; 2; 3]%Z |}
  /\ map (fun ij => transp 4 (fst ij) (snd ij)) (gs_pairs 4 2) = [[2; 1; 0; 3]; [3; 1; 2; 0]; [0; 2; 1; 3]; [0; 3; 2; 1]].
Proof. vm_compute. split; reflexivity. Qed.
(* ---------------------------------------------------------------------------------------------- *)
(** * Tools: inverse by its specification; permutation_from_cycles by its pointwise specification *)
Lemma inverse_by_spec p q : Perm p -> length q = length p ->
  (forall t, t < length p -> nth (nth t p 0) q 0 = t) -> inverse_perm p = q.
Proof.
  intros HP L H. apply nth_ext' with (d := 0); [rewrite inverse_perm_length; congruence|].
  intros j Hj. rewrite inverse_perm_length in Hj.
  destruct (Perm_surj p j HP Hj) as (t & Ht & <-).
  rewrite inverse_spec by assumption. symmetry. apply H. exact Ht.
Qed.

Lemma map_sub0 (cs : list (list Z)) : map (map (fun x => (x - 0)%Z)) cs = cs.
Proof.
  rewrite <- (map_id cs) at 2. apply map_ext. intros c. rewrite <- (map_id c) at 2.
  apply map_ext. intros a. lia.
Qed.

Lemma zfrom_cycles_eq n cs p : cycles_ok n cs -> length p = n ->
  (forall c i, In c cs -> i < length c ->
     nth (Z.to_nat (nth i c 0%Z)) p 0 = Z.to_nat (nth ((i + 1) mod length c) c 0%Z)) ->
  (forall x, x < n -> ~ In (Z.of_nat x) (concat cs) -> nth x p 0 = x) ->
  zfrom_cycles (Z.of_nat n) cs = Ok (of_nats p).
Proof.
  intros Hok L S U. unfold zfrom_cycles. rewrite Nat2Z.id.
  pose proof (from_cycles_spec n cs 0) as Spec. cbv zeta in Spec. rewrite map_sub0 in Spec.
  destruct (Spec Hok) as (perm & E & L' & _ & S' & U'). rewrite E. cbn [bind]. do 2 f_equal.
  apply nth_ext' with (d := 0); [congruence|]. intros x Hx. rewrite L' in Hx.
  destruct (in_dec Z.eq_dec (Z.of_nat x) (concat cs)) as [Hin|Hnin].
  - apply in_concat in Hin as (c & Hc & Hxc). apply In_nth with (d := 0%Z) in Hxc as (i & Hi & Ei).
    pose proof (S c i Hc Hi) as S1. pose proof (S' c i Hc Hi) as S2. rewrite Ei, Nat2Z.id in S1, S2. congruence.
  - rewrite U, U' by assumption. reflexivity.
Qed.

Lemma zfrom_cycles_PermN n cs p : cycles_ok n cs -> zfrom_cycles (Z.of_nat n) cs = Ok (of_nats p) -> PermN n p.
Proof.
  intros Hok E. unfold zfrom_cycles in E. rewrite Nat2Z.id in E.
  pose proof (from_cycles_spec n cs 0) as Spec. cbv zeta in Spec. rewrite map_sub0 in Spec.
  destruct (Spec Hok) as (perm & E' & L' & P' & _). rewrite E' in E. cbn [bind] in E.
  injection E as E. apply (f_equal to_nats) in E. rewrite !to_of_nats in E. subst perm. split; assumption.
Qed.

(* cycles_ok for cycles given as lists of naturals *)
Lemma cycles_ok_nat n (cs : list (list nat)) :
  NoDup (concat cs) -> (forall x, In x (concat cs) -> x < n) -> cycles_ok n (map of_nats cs).
Proof.
  intros ND Hlt. unfold cycles_ok.
  assert (concat (map of_nats cs) = of_nats (concat cs)) as E by (unfold of_nats; now rewrite concat_map).
  rewrite E. split.
  - unfold of_nats. apply NoDup_map_inj; [exact ND|]. intros x y _ _ Exy. lia.
  - apply Forall_forall. intros z Hz. unfold of_nats in Hz. apply in_map_iff in Hz as (a & <- & Ha).
    specialize (Hlt a Ha). lia.
Qed.

(* the pointwise specification, for cycles given as lists of naturals *)
Lemma zfrom_cycles_nat n (cs : list (list nat)) p :
  NoDup (concat cs) -> (forall x, In x (concat cs) -> x < n) -> length p = n ->
  (forall c i, In c cs -> i < length c -> nth (nth i c 0) p 0 = nth ((i + 1) mod length c) c 0) ->
  (forall x, x < n -> ~ In x (concat cs) -> nth x p 0 = x) ->
  zfrom_cycles (Z.of_nat n) (map of_nats cs) = Ok (of_nats p) /\ PermN n p.
Proof.
  intros ND Hlt L S U.
  assert (zfrom_cycles (Z.of_nat n) (map of_nats cs) = Ok (of_nats p)) as E.
  { apply zfrom_cycles_eq; [apply cycles_ok_nat; assumption|exact L| |].
    - intros c i Hc Hi. apply in_map_iff in Hc as (c' & <- & Hc'). rewrite of_nats_length in Hi |- *.
      rewrite !nth_of_nats, !Nat2Z.id. apply S; assumption.
    - intros x Hx Hn. apply U; [exact Hx|]. intros Hin. apply Hn.
      replace (concat (map of_nats cs)) with (of_nats (concat cs)) by (unfold of_nats; now rewrite concat_map).
      unfold of_nats. apply in_map. exact Hin. }
  split; [exact E|]. apply (zfrom_cycles_PermN n (map of_nats cs)); [apply cycles_ok_nat; assumption|exact E].
Qed.

(* ---------------------------------------------------------------------------------------------- *)
(** * 3-cycles *)
(* the cycle (a b c): a -> b -> c -> a, in one-line notation *)
Definition cyc3 (n a b c : nat) : list nat := upd (upd (upd (seq 0 n) a b) b c) c a.
(* its action on a sequence: position a receives x[b], b receives x[c], c receives x[a] *)
Definition cycle3_at {A} (d : A) (x : list A) (a b c : nat) : list A :=
  upd (upd (upd x a (nth b x d)) b (nth c x d)) c (nth a x d).

Lemma cyc3_length n a b c : length (cyc3 n a b c) = n.
Proof. unfold cyc3. rewrite !upd_length. apply seq_length. Qed.

Lemma cyc3_nth n a b c t : a < n -> b < n -> c < n -> a <> b -> a <> c -> b <> c -> t < n ->
  nth t (cyc3 n a b c) 0 = if t =? a then b else if t =? b then c else if t =? c then a else t.
Proof.
  intros Ha Hb Hc Hab Hac Hbc Ht. unfold cyc3.
  destruct (Nat.eqb_spec t a) as [->|Na].
  { rewrite !nth_upd_other by congruence. apply nth_upd_same. now rewrite seq_length. }
  destruct (Nat.eqb_spec t b) as [->|Nb].
  { rewrite nth_upd_other by congruence. apply nth_upd_same. now rewrite upd_length, seq_length. }
  destruct (Nat.eqb_spec t c) as [->|Nc].
  { apply nth_upd_same. now rewrite !upd_length, seq_length. }
  rewrite !nth_upd_other by congruence. now apply seq_nth.
Qed.

Lemma zfrom_cycles_cyc3 n a b c : a < n -> b < n -> c < n -> a <> b -> a <> c -> b <> c ->
  zfrom_cycles (Z.of_nat n) [[Z.of_nat a; Z.of_nat b; Z.of_nat c]] = Ok (of_nats (cyc3 n a b c))
  /\ PermN n (cyc3 n a b c).
Proof.
  intros Ha Hb Hc Hab Hac Hbc.
  apply (zfrom_cycles_nat n [[a; b; c]]).
  - cbn. repeat constructor; cbn; intuition lia.
  - cbn. intros x Hx. intuition lia.
  - apply cyc3_length.
  - intros c0 i [<-|[]] Hi. cbn [length] in Hi |- *.
    rewrite cyc3_nth; try assumption.
    2:{ destruct i as [|[|[|i]]]; cbn; lia. }
    destruct i as [|[|[|i]]]; try lia; cbn [nth Nat.add Nat.modulo Nat.divmod fst snd Nat.sub].
    + now rewrite Nat.eqb_refl.
    + destruct (Nat.eqb_spec b a); [lia|]. now rewrite Nat.eqb_refl.
    + destruct (Nat.eqb_spec c a); [lia|]. destruct (Nat.eqb_spec c b); [lia|]. now rewrite Nat.eqb_refl.
  - intros x Hx Hn. cbn in Hn. rewrite cyc3_nth by assumption.
    destruct (Nat.eqb_spec x a); [lia|]. destruct (Nat.eqb_spec x b); [lia|]. destruct (Nat.eqb_spec x c); lia.
Qed.

Lemma cyc3_inverse n a b c : a < n -> b < n -> c < n -> a <> b -> a <> c -> b <> c ->
  inverse_perm (cyc3 n a b c) = cyc3 n c b a.
Proof.
  intros Ha Hb Hc Hab Hac Hbc.
  destruct (zfrom_cycles_cyc3 n a b c) as [_ [HP L]]; try assumption.
  apply inverse_by_spec; [exact HP|now rewrite !cyc3_length|].
  rewrite L. intros t Ht. rewrite (cyc3_nth n a b c t) by assumption.
  destruct (Nat.eqb_spec t a) as [->|Na]; [|destruct (Nat.eqb_spec t b) as [->|Nb]; [|destruct (Nat.eqb_spec t c) as [->|Nc]]];
    rewrite cyc3_nth by (assumption || congruence).
  - destruct (Nat.eqb_spec b c); [lia|]. now rewrite Nat.eqb_refl.
  - now rewrite Nat.eqb_refl.
  - destruct (Nat.eqb_spec a c); [lia|]. destruct (Nat.eqb_spec a b); [lia|]. now rewrite Nat.eqb_refl.
  - destruct (Nat.eqb_spec t c); [lia|]. destruct (Nat.eqb_spec t b); [lia|]. destruct (Nat.eqb_spec t a); lia.
Qed.

(* (a b c) = (b c a) as maps *)
Lemma cyc3_rotate n a b c : a < n -> b < n -> c < n -> a <> b -> a <> c -> b <> c ->
  cyc3 n a b c = cyc3 n b c a.
Proof.
  intros Ha Hb Hc Hab Hac Hbc. apply nth_ext' with (d := 0); [now rewrite !cyc3_length|].
  intros t Ht. rewrite cyc3_length in Ht. rewrite !cyc3_nth by (assumption || congruence).
  destruct (Nat.eqb_spec t a) as [Ea|Na]; destruct (Nat.eqb_spec t b) as [Eb|Nb];
    destruct (Nat.eqb_spec t c) as [Ec|Nc]; lia.
Qed.

Lemma apply_cyc3 {A} (d : A) n a b c (x : list A) :
  a < n -> b < n -> c < n -> a <> b -> a <> c -> b <> c -> length x = n ->
  apply_perm d (cyc3 n a b c) x = cycle3_at d x a b c.
Proof.
  intros Ha Hb Hc Hab Hac Hbc L. apply nth_ext' with (d := d).
  - rewrite apply_perm_length, cyc3_length. unfold cycle3_at. now rewrite !upd_length.
  - intros t Ht. rewrite apply_perm_length, cyc3_length in Ht.
    rewrite nth_apply_perm by (rewrite cyc3_length; exact Ht).
    rewrite cyc3_nth by assumption. unfold cycle3_at.
    destruct (Nat.eqb_spec t a) as [->|Na].
    { rewrite !nth_upd_other by congruence. rewrite nth_upd_same by lia. reflexivity. }
    destruct (Nat.eqb_spec t b) as [->|Nb].
    { rewrite nth_upd_other by congruence. rewrite nth_upd_same by (rewrite upd_length; lia). reflexivity. }
    destruct (Nat.eqb_spec t c) as [->|Nc].
    { rewrite nth_upd_same by (rewrite !upd_length; lia). reflexivity. }
    rewrite !nth_upd_other by congruence. reflexivity.
Qed.
(* ---------------------------------------------------------------------------------------------- *)
(** * three_cycles_01i(n, add_inverses), n >= 3: the cycles (0 1 i), 2 <= i < n, each followed by its
      inverse (1 0 i) when add_inverses *)
Definition tc01_gens (n : nat) (b : bool) : list (list nat) :=
  flat_map (fun i => if b then [cyc3 n 0 1 i; cyc3 n 1 0 i] else [cyc3 n 0 1 i]) (seq 2 (n - 2)).
Definition tc01_names (n : nat) (b : bool) : list string :=
  flat_map (fun i => if b then [cat ["(0 1 "; zs (Z.of_nat i); ")"]; cat ["(1 0 "; zs (Z.of_nat i); ")"]]
                     else [cat ["(0 1 "; zs (Z.of_nat i); ")"]]) (seq 2 (n - 2)).

Lemma flat_map_pair_nth {B} (f g : nat -> B) a m t d : t < m ->
  nth (2 * t) (flat_map (fun i => [f i; g i]) (seq a m)) d = f (a + t) /\
  nth (2 * t + 1) (flat_map (fun i => [f i; g i]) (seq a m)) d = g (a + t).
Proof.
  revert a t. induction m as [|m IH]; intros a t Ht; [lia|].
  cbn [seq flat_map app]. destruct t as [|t].
  - cbn [Nat.mul Nat.add nth]. rewrite Nat.add_0_r. split; reflexivity.
  - replace (2 * S t) with (S (S (2 * t))) by lia. replace (S (S (2 * t)) + 1) with (S (S (2 * t + 1))) by lia.
    cbn [nth]. destruct (IH (S a) t ltac:(lia)) as [E1 E2]. rewrite E1, E2.
    replace (S a + t) with (a + S t) by lia. split; reflexivity.
Qed.

Lemma flat_map_pair_length {B} (f g : nat -> B) (l : list nat) :
  length (flat_map (fun i => [f i; g i]) l) = 2 * length l.
Proof. induction l as [|a l IH]; [reflexivity|]. cbn [flat_map app length]. rewrite IH. lia. Qed.

Lemma flat_map_single {A B} (f : A -> B) (l : list A) : flat_map (fun i => [f i]) l = map f l.
Proof. induction l as [|a l IH]; [reflexivity|]. cbn [flat_map app map]. now rewrite IH. Qed.

Lemma map_flat_map {A B C} (h : B -> C) (f : A -> list B) l :
  map h (flat_map f l) = flat_map (fun i => map h (f i)) l.
Proof. induction l as [|a l IH]; [reflexivity|]. cbn [flat_map]. now rewrite map_app, IH. Qed.

Lemma cyc3_01i n i : 2 <= i < n ->
  zfrom_cycles (Z.of_nat n) [[0%Z; 1%Z; Z.of_nat i]] = Ok (of_nats (cyc3 n 0 1 i)) /\
  PermN n (cyc3 n 0 1 i) /\ PermN n (cyc3 n 1 0 i) /\
  inverse_perm (cyc3 n 0 1 i) = cyc3 n 1 0 i /\ inverse_perm (cyc3 n 1 0 i) = cyc3 n 0 1 i.
Proof.
  intros Hi. destruct (zfrom_cycles_cyc3 n 0 1 i) as [E P]; try lia.
  destruct (zfrom_cycles_cyc3 n 1 0 i) as [_ P']; try lia.
  assert (inverse_perm (cyc3 n 0 1 i) = cyc3 n 1 0 i) as I1.
  { rewrite cyc3_inverse by lia. rewrite (cyc3_rotate n 1 0 i), (cyc3_rotate n 0 i 1) by lia. reflexivity. }
  repeat split; try assumption; try apply P; try apply P'.
  rewrite <- I1. apply inverse_involutive. apply P.
Qed.

Theorem three_cycles_01i_returns n b : 3 <= n ->
  returns_full (three_cycles_01i (Z.of_nat n) b) n (tc01_gens n b) (tc01_names n b)
    (if b then cat [cat ["three_cycles_01i-"; zs (Z.of_nat n)]; "-ic"] else cat ["three_cycles_01i-"; zs (Z.of_nat n)]).
Proof.
  intros Hn. unfold three_cycles_01i. zguard.
  rewrite (zrange_nat' 2 (Z.of_nat n) 2 n) by lia. unfold of_nats at 1.
  set (g := fun i : nat =>
     if b then [(of_nats (cyc3 n 0 1 i), cat ["(0 1 "; zs (Z.of_nat i); ")"]);
                (of_nats (cyc3 n 1 0 i), cat ["(1 0 "; zs (Z.of_nat i); ")"])]
     else [(of_nats (cyc3 n 0 1 i), cat ["(0 1 "; zs (Z.of_nat i); ")"])]).
  rewrite (mapM_map_ok Z.of_nat _ g).
  2:{ intros i Hi. apply in_seq in Hi. destruct (cyc3_01i n i ltac:(lia)) as (E & _ & _ & I1 & _).
      rewrite E. cbn [bind]. unfold g, zinverse. rewrite to_of_nats, I1. reflexivity. }
  cbn [bind].
  assert (map fst (concat (map g (seq 2 (n - 2)))) = map of_nats (tc01_gens n b)) as E1.
  { rewrite <- flat_map_concat_map. unfold tc01_gens. rewrite !map_flat_map. apply flat_map_ext.
    intros i. unfold g. destruct b; reflexivity. }
  assert (map snd (concat (map g (seq 2 (n - 2)))) = tc01_names n b) as E2.
  { rewrite <- flat_map_concat_map. unfold tc01_names. rewrite !map_flat_map. apply flat_map_ext.
    intros i. unfold g. destruct b; reflexivity. }
  rewrite E1, E2.
  apply create_full.
  - unfold tc01_gens. replace (n - 2) with (S (n - 3)) by lia. cbn [seq flat_map]. destruct b; discriminate.
  - lia.
  - apply Forall_forall. intros p Hp. unfold tc01_gens in Hp. apply in_flat_map in Hp as (i & Hi & Hp).
    apply in_seq in Hi. destruct (cyc3_01i n i ltac:(lia)) as (_ & P1 & P2 & _).
    destruct b; cbn [In] in Hp; intuition (subst; assumption).
  - unfold tc01_gens, tc01_names. destruct b.
    + now rewrite !flat_map_pair_length.
    + now rewrite !flat_map_single, !map_length.
Qed.

Theorem three_cycles_01i_documented n b : 3 <= n ->
  exists d, three_cycles_01i (Z.of_nat n) b = Ok d /\
    p_gens d = tc01_gens n b /\ p_names d = tc01_names n b /\
    p_name d = (if b then cat [cat ["three_cycles_01i-"; zs (Z.of_nat n)]; "-ic"]
                else cat ["three_cycles_01i-"; zs (Z.of_nat n)]) /\
    p_central d = of_nats (seq 0 n) /\
    length (p_gens d) = (if b then 2 else 1) * (n - 2) /\ length (p_names d) = length (p_gens d) /\
    Forall (PermN n) (p_gens d) /\
    (forall i, 2 <= i < n ->
       (if b then nth (2 * (i - 2)) (p_gens d) [] = cyc3 n 0 1 i /\ nth (2 * (i - 2) + 1) (p_gens d) [] = cyc3 n 1 0 i /\
                  nth (2 * (i - 2)) (p_names d) ""%string = cat ["(0 1 "; zs (Z.of_nat i); ")"] /\
                  nth (2 * (i - 2) + 1) (p_names d) ""%string = cat ["(1 0 "; zs (Z.of_nat i); ")"]
        else nth (i - 2) (p_gens d) [] = cyc3 n 0 1 i /\
             nth (i - 2) (p_names d) ""%string = cat ["(0 1 "; zs (Z.of_nat i); ")"]) /\
       inverse_perm (cyc3 n 0 1 i) = cyc3 n 1 0 i /\
       forall (A : Type) (dflt : A) (x : list A), length x = n ->
         apply_perm dflt (cyc3 n 0 1 i) x = cycle3_at dflt x 0 1 i /\
         apply_perm dflt (cyc3 n 1 0 i) x = cycle3_at dflt x 1 0 i) /\
    closed_flag (p_gens d) = b.
Proof.
  intros Hn.
  destruct (returns_full_fields _ _ _ _ _ (three_cycles_01i_returns n b Hn)) as (d & E & G & N & M & C).
  exists d. rewrite G, N. split; [exact E|]. split; [reflexivity|]. split; [reflexivity|].
  split; [exact M|]. split; [exact C|].
  assert (length (tc01_gens n b) = (if b then 2 else 1) * (n - 2)) as LG.
  { unfold tc01_gens. destruct b; [rewrite flat_map_pair_length|rewrite flat_map_single, map_length];
      rewrite seq_length; lia. }
  assert (length (tc01_names n b) = length (tc01_gens n b)) as LN.
  { unfold tc01_gens, tc01_names. destruct b.
    + now rewrite !flat_map_pair_length.
    + now rewrite !flat_map_single, !map_length. }
  split; [exact LG|]. split; [exact LN|]. split; [|split].
  - apply Forall_forall. intros p Hp. unfold tc01_gens in Hp. apply in_flat_map in Hp as (i & Hi & Hp).
    apply in_seq in Hi. destruct (cyc3_01i n i ltac:(lia)) as (_ & P1 & P2 & _).
    destruct b; cbn [In] in Hp; intuition (subst; assumption).
  - intros i Hi. destruct (cyc3_01i n i Hi) as (_ & _ & _ & I1 & _). split; [|split; [exact I1|]].
    + unfold tc01_gens, tc01_names. destruct b.
      * destruct (flat_map_pair_nth (fun i => cyc3 n 0 1 i) (fun i => cyc3 n 1 0 i) 2 (n - 2) (i - 2) [] ltac:(lia)) as [E1 E2].
        destruct (flat_map_pair_nth (fun i => cat ["(0 1 "; zs (Z.of_nat i); ")"])
                    (fun i => cat ["(1 0 "; zs (Z.of_nat i); ")"]) 2 (n - 2) (i - 2) ""%string ltac:(lia)) as [E3 E4].
        replace (2 + (i - 2)) with i in * by lia. repeat split; assumption.
      * rewrite !flat_map_single, !nth_map_seq by lia. replace (2 + (i - 2)) with i by lia. split; reflexivity.
    + intros A dflt x Lx. split; apply apply_cyc3; lia.
  - destruct b.
    + apply closed_flag_iff. intros p Hp. unfold tc01_gens in Hp |- *. apply in_flat_map in Hp as (i & Hi & Hp).
      apply in_flat_map. exists i. split; [exact Hi|]. apply in_seq in Hi.
      destruct (cyc3_01i n i ltac:(lia)) as (_ & _ & _ & I1 & I2).
      cbn [In] in Hp |- *. destruct Hp as [<-|[<-|[]]]; [rewrite I1|rewrite I2]; auto.
    + apply (not_closed _ (cyc3 n 0 1 2)).
      * unfold tc01_gens. apply in_flat_map. exists 2. split; [apply in_seq; lia|left; reflexivity].
      * destruct (cyc3_01i n 2 ltac:(lia)) as (_ & _ & _ & I1 & _). rewrite I1. intros Hin.
        unfold tc01_gens in Hin. apply in_flat_map in Hin as (i & Hi & [Hp|[]]). apply in_seq in Hi.
        apply (f_equal (fun p => nth 0 p 0)) in Hp. rewrite !cyc3_nth in Hp by lia. cbn in Hp. lia.
Qed.

Theorem three_cycles_01i_range n b :
  ((exists d, three_cycles_01i n b = Ok d) <-> (3 <= n)%Z) /\
  (~ (3 <= n)%Z -> three_cycles_01i n b = Err AssertionErr).
Proof.
  apply range_from_cases.
  - intros Hn. destruct (three_cycles_01i_documented (Z.to_nat n) b) as (d & E & _); try lia.
    exists d. rewrite !Z2Nat.id in E by lia. exact E.
  - intros HN. unfold three_cycles_01i. destruct (Z.leb_spec 3 n); [lia|reflexivity].
  - lia.
Qed.

Example three_cycles_01i_4 :
  three_cycles_01i 4 true = Ok {| p_gens := [[1; 2; 0; 3]; [2; 0; 1; 3]; [1; 3; 2; 0]; [3; 0; 2; 1]];
       p_names := ["(0 1 2)"; "(1 0 2)"; "(0 1 3)"; "(1 0 3)"]%string;
       p_name := "three_cycles_01i-4-ic"%string; p_central := [0; 1; 2; 3]%Z |}
  /\ three_cycles_01i 4 false = Ok {| p_gens := [[1; 2; 0; 3]; [1; 3; 2; 0]];
       p_names := ["(0 1 2)"; "(0 1 3)"]%string;
       p_name := "three_cycles_01i-4"%string; p_central := [0; 1; 2; 3]%Z |}
  /\ tc01_gens 4 true = [[1; 2; 0; 3]; [2; 0; 1; 3]; [1; 3; 2; 0]; [3; 0; 2; 1]]
  /\ cycle3_at "" ["a"; "b"; "c"; "d"]%string 0 1 3 = ["b"; "d"; "c"; "a"]%string.
Proof. vm_compute. repeat split. Qed.
(* ---------------------------------------------------------------------------------------------- *)
(** * The inverse of the cycle (i, i+1, ..., j): rotation of the segment x[i..j] to the right *)
Definition gen_cycle_inv (n i j : nat) : list nat :=
  seq 0 i ++ [j] ++ seq i (j - i) ++ seq (j + 1) (n - (j + 1)).
(* x[i..j] rotated one step to the right: x[j], x[i], ..., x[j-1] *)
Definition rot_segment_right {A} (i j : nat) (x : list A) : list A :=
  firstn i x ++ firstn 1 (skipn j x) ++ firstn (j - i) (skipn i x) ++ skipn (j + 1) x.

Lemma gen_cycle_inv_length n i j : i <= j -> j < n -> length (gen_cycle_inv n i j) = n.
Proof. intros H1 H2. unfold gen_cycle_inv. rewrite !app_length, !seq_length. cbn [length]. lia. Qed.

Lemma gen_cycle_inv_nth n i j x : i <= j -> j < n -> x < n ->
  nth x (gen_cycle_inv n i j) 0 = if x <? i then x else if x =? i then j else if x <=? j then x - 1 else x.
Proof.
  intros H1 H2 Hx. unfold gen_cycle_inv.
  destruct (Nat.ltb_spec x i).
  { rewrite app_nth1 by (rewrite seq_length; lia). rewrite seq_nth by lia. reflexivity. }
  rewrite app_nth2 by (rewrite seq_length; lia). rewrite seq_length.
  destruct (Nat.eqb_spec x i) as [->|Hne].
  { rewrite Nat.sub_diag. reflexivity. }
  rewrite app_nth2 by (cbn [length]; lia). cbn [length].
  destruct (Nat.leb_spec x j).
  { rewrite app_nth1 by (rewrite seq_length; lia). rewrite seq_nth by lia. lia. }
  rewrite app_nth2 by (rewrite seq_length; lia). rewrite seq_length. rewrite seq_nth by lia. lia.
Qed.

Lemma gen_cycle_inverse n i j : i <= j -> j < n -> inverse_perm (gen_cycle n i j) = gen_cycle_inv n i j.
Proof.
  intros H1 H2. destruct (gen_cycle_PermN n i j H1 H2) as [HP L].
  apply inverse_by_spec; [exact HP|rewrite gen_cycle_inv_length by assumption; congruence|].
  rewrite L. intros t Ht. rewrite gen_cycle_nth by assumption.
  destruct (Nat.ltb_spec t i); [|destruct (Nat.ltb_spec t j); [|destruct (Nat.eqb_spec t j)]];
    rewrite gen_cycle_inv_nth by lia.
  - destruct (Nat.ltb_spec t i); lia.
  - destruct (Nat.ltb_spec (t + 1) i); [lia|]. destruct (Nat.eqb_spec (t + 1) i); [lia|].
    destruct (Nat.leb_spec (t + 1) j); lia.
  - destruct (Nat.ltb_spec i i); [lia|]. rewrite Nat.eqb_refl. lia.
  - destruct (Nat.ltb_spec t i); [lia|]. destruct (Nat.eqb_spec t i); [lia|]. destruct (Nat.leb_spec t j); lia.
Qed.

Lemma gen_cycle_inv_PermN n i j : i <= j -> j < n ->
  PermN n (gen_cycle_inv n i j) /\ inverse_perm (gen_cycle_inv n i j) = gen_cycle n i j.
Proof.
  intros H1 H2. destruct (gen_cycle_PermN n i j H1 H2) as [HP L]. rewrite <- gen_cycle_inverse by assumption.
  split; [split|].
  - apply inverse_is_perm. exact HP.
  - rewrite inverse_perm_length. exact L.
  - apply inverse_involutive. exact HP.
Qed.

Lemma apply_gen_cycle_inv {A} (d : A) n i j (x : list A) : i <= j -> j < n -> length x = n ->
  apply_perm d (gen_cycle_inv n i j) x = rot_segment_right i j x.
Proof.
  intros H1 H2 L. unfold gen_cycle_inv, rot_segment_right.
  rewrite !apply_app, !apply_seq by lia. cbn [skipn].
  f_equal. f_equal; [|f_equal; apply firstn_skipn_all; lia].
  cbn [apply_perm map].
  rewrite <- (firstn_skipn j x) at 1.
  rewrite app_nth2 by (rewrite firstn_length; lia).
  rewrite firstn_length, Nat.min_l by lia. rewrite Nat.sub_diag.
  assert (1 <= length (skipn j x)) as L1 by (rewrite skipn_length; lia).
  destruct (skipn j x) as [|h t]; cbn in L1; [lia|]. reflexivity.
Qed.

Lemma gen_cycle_full n : 1 <= n -> gen_cycle n 0 (n - 1) = gen_L n.
Proof.
  intros H. unfold gen_cycle, gen_L. replace (n - 1 + 1) with n by lia. rewrite Nat.sub_diag, Nat.sub_0_r.
  cbn [seq app Nat.add]. rewrite ?app_nil_r. reflexivity.
Qed.

Lemma gen_cycle_inv_full n : 1 <= n -> gen_cycle_inv n 0 (n - 1) = gen_R n.
Proof.
  intros H. unfold gen_cycle_inv, gen_R. replace (n - 1 + 1) with n by lia. rewrite Nat.sub_diag, Nat.sub_0_r.
  cbn [seq app Nat.add]. rewrite ?app_nil_r. reflexivity.
Qed.

(* ---------------------------------------------------------------------------------------------- *)
(** * larx(n), n >= 2: the transposition (0 1) and the cycle (1 2 ... n-1) *)
Lemma transp01_eq n : 2 <= n -> [1; 0] ++ seq 2 (n - 2) = transp n 0 1.
Proof. intros H. destruct n as [|[|m]]; try lia. unfold transp. cbn [seq upd Nat.sub app]. now rewrite Nat.sub_0_r. Qed.

Lemma larx_eq n : 2 <= n ->
  [1%Z; 0%Z] ++ zrange 2 (Z.of_nat n) = of_nats (transp n 0 1) /\
  [0%Z] ++ zrange 2 (Z.of_nat n) ++ [1%Z] = of_nats (gen_cycle n 1 (n - 1)).
Proof.
  intros H. rewrite (zrange_nat' 2 (Z.of_nat n) 2 n) by lia. split.
  - rewrite <- transp01_eq by lia. rewrite of_nats_app. reflexivity.
  - unfold gen_cycle. replace (n - 1 + 1) with n by lia. rewrite Nat.sub_diag. cbn [seq]. rewrite app_nil_r.
    rewrite !of_nats_app. replace (n - 1 - 1) with (n - 2) by lia. reflexivity.
Qed.

Definition larx_gens (n : nat) : list (list nat) := [transp n 0 1; gen_cycle n 1 (n - 1)].
Definition larx_names (n : nat) : list string :=
  map (fun p => cat ["("; join " " (of_nats p); ")"]) (larx_gens n).

Theorem larx_returns n : 2 <= n ->
  returns_full (larx (Z.of_nat n)) n (larx_gens n) (larx_names n) (cat ["larx-"; zs (Z.of_nat n)]).
Proof.
  intros Hn. unfold larx. zguard. destruct (larx_eq n Hn) as [E1 E2]. rewrite E1, E2.
  change [of_nats (transp n 0 1); of_nats (gen_cycle n 1 (n - 1))] with (map of_nats (larx_gens n)).
  apply create_full; [discriminate|lia| |reflexivity].
  repeat (apply Forall_cons || apply Forall_nil); [apply transp_PermN|apply gen_cycle_PermN]; lia.
Qed.

Theorem larx_documented n : 2 <= n ->
  exists d, larx (Z.of_nat n) = Ok d /\
    p_gens d = [transp n 0 1; gen_cycle n 1 (n - 1)] /\
    p_names d = map (fun p => cat ["("; join " " (of_nats p); ")"]) (p_gens d) /\
    p_name d = cat ["larx-"; zs (Z.of_nat n)] /\ p_central d = of_nats (seq 0 n) /\
    Forall (PermN n) (p_gens d) /\
    (forall (A : Type) (dflt : A) (x : list A), length x = n ->
       map (fun p => apply_perm dflt p x) (p_gens d) = [swap_at dflt x 0 1; rot_segment 1 (n - 1) x]) /\
    closed_flag (p_gens d) = (n <=? 3).
Proof.
  intros Hn. destruct (returns_full_fields _ _ _ _ _ (larx_returns n Hn)) as (d & E & G & N & M & C).
  exists d. rewrite G. repeat split; try assumption.
  - unfold larx_gens. repeat (apply Forall_cons || apply Forall_nil); [apply transp_PermN|apply gen_cycle_PermN]; lia.
  - intros A dflt x L. cbn [map larx_gens]. rewrite (apply_transp dflt n), (apply_gen_cycle dflt n) by lia. reflexivity.
  - unfold larx_gens. destruct (Nat.leb_spec n 3) as [H3|H3].
    + assert (n = 2 \/ n = 3) as [-> | ->] by lia; reflexivity.
    + apply (not_closed _ (gen_cycle n 1 (n - 1))); [right; left; reflexivity|].
      destruct (gen_cycle_PermN n 1 (n - 1) ltac:(lia) ltac:(lia)) as [HP L].
      assert (nth 0 (gen_cycle n 1 (n - 1)) 0 = 0) as V0 by (rewrite gen_cycle_nth by lia; reflexivity).
      assert (nth 1 (gen_cycle n 1 (n - 1)) 0 = 2) as V1.
      { rewrite gen_cycle_nth by lia. change (1 <? 1) with false. cbv iota.
        destruct (Nat.ltb_spec 1 (n - 1)); lia. }
      assert (nth 2 (gen_cycle n 1 (n - 1)) 0 = 3) as V2.
      { rewrite gen_cycle_nth by lia. change (2 <? 1) with false. cbv iota.
        destruct (Nat.ltb_spec 2 (n - 1)); lia. }
      pose proof (inverse_spec (gen_cycle n 1 (n - 1)) 0 HP ltac:(lia)) as S0.
      pose proof (inverse_spec (gen_cycle n 1 (n - 1)) 1 HP ltac:(lia)) as S1.
      rewrite V0 in S0. rewrite V1 in S1.
      intros [C0|[C0|[]]]; rewrite <- C0 in S0, S1.
      * rewrite transp_nth in S0 by lia. cbn in S0. lia.
      * lia.
Qed.

Theorem larx_range n :
  ((exists d, larx n = Ok d) <-> (2 <= n)%Z) /\ (~ (2 <= n)%Z -> larx n = Err AssertionErr).
Proof.
  apply range_from_cases.
  - intros Hn. destruct (larx_documented (Z.to_nat n)) as (d & E & _); try lia.
    exists d. rewrite !Z2Nat.id in E by lia. exact E.
  - intros HN. unfold larx. destruct (Z.leb_spec 2 n); [lia|reflexivity].
  - lia.
Qed.

Example larx_5 :
  larx 5 = Ok {| p_gens := [[1; 0; 2; 3; 4]; [0; 2; 3; 4; 1]];
                 p_names := ["(1 0 2 3 4)"; "(0 2 3 4 1)"]%string;
                 p_name := "larx-5"%string; p_central := [0; 1; 2; 3; 4]%Z |}
  /\ rot_segment 1 4 ["a"; "b"; "c"; "d"; "e"]%string = ["a"; "c"; "d"; "e"; "b"]%string.
Proof. vm_compute. repeat split. Qed.
(* ---------------------------------------------------------------------------------------------- *)
(** * lsl_cycles(n, add_inverses), n >= 3: L = (0 1 ... n-1), S = (1 2 ... n-1), and their inverses *)
Lemma lsl_long n : 1 <= n ->
  zfrom_cycles (Z.of_nat n) [zrange 0 (Z.of_nat n)] = Ok (of_nats (gen_cycle n 0 (n - 1))).
Proof.
  intros H. pose proof (zfrom_cycles_range n 0 (n - 1) ltac:(lia) ltac:(lia)) as E.
  replace (Z.of_nat (n - 1) + 1)%Z with (Z.of_nat n) in E by lia. exact E.
Qed.

Lemma lsl_sub n : 2 <= n ->
  zfrom_cycles (Z.of_nat n) [zrange 1 (Z.of_nat n); [0%Z]] = Ok (of_nats (gen_cycle n 1 (n - 1))).
Proof.
  intros H. rewrite (zrange_nat' 1 (Z.of_nat n) 1 n) by lia.
  change [of_nats (seq 1 (n - 1)); [0%Z]] with (map of_nats [seq 1 (n - 1); [0]]).
  assert (forall x, In x (concat [seq 1 (n - 1); [0]]) <-> x < n) as Hin.
  { intros x. cbn [concat]. rewrite app_nil_r, in_app_iff, in_seq. cbn [In]. lia. }
  apply zfrom_cycles_nat.
  - cbn [concat]. rewrite app_nil_r. apply (Permutation_NoDup (l := seq 0 n)); [|apply seq_NoDup].
    replace n with (S (n - 1)) at 1 by lia. cbn [seq]. apply (Permutation_app_comm [0] (seq 1 (n - 1))).
  - intros x Hx. apply Hin. exact Hx.
  - apply gen_cycle_length; lia.
  - intros c i [<-|[<-|[]]] Hi.
    + rewrite seq_length in Hi |- *. rewrite seq_nth by lia. rewrite gen_cycle_nth by lia.
      destruct (Nat.ltb_spec (1 + i) 1); [lia|].
      destruct (Nat.ltb_spec (1 + i) (n - 1)).
      * rewrite Nat.mod_small by lia. rewrite seq_nth by lia. lia.
      * destruct (Nat.eqb_spec (1 + i) (n - 1)); [|lia].
        replace (i + 1) with (n - 1) by lia. rewrite Nat.mod_same by lia. rewrite seq_nth by lia. lia.
    + cbn [length] in Hi. assert (i = 0) as -> by lia. change (nth 0 (gen_cycle n 1 (n - 1)) 0 = 0). rewrite gen_cycle_nth by lia. reflexivity.
  - intros x Hx Hn. exfalso. apply Hn. apply Hin. exact Hx.
Qed.

Definition lsl_gens (n : nat) (b : bool) : list (list nat) :=
  [gen_cycle n 0 (n - 1); gen_cycle n 1 (n - 1)]
  ++ (if b then [gen_cycle_inv n 0 (n - 1); gen_cycle_inv n 1 (n - 1)] else []).
Definition lsl_names (b : bool) : list string :=
  ["L"%string; "S"%string] ++ (if b then ["L_inv"%string; "S_inv"%string] else []).

Lemma lsl_gens_PermN n b : 3 <= n -> Forall (PermN n) (lsl_gens n b).
Proof.
  intros Hn. unfold lsl_gens. apply Forall_app. split.
  - repeat (apply Forall_cons || apply Forall_nil); apply gen_cycle_PermN; lia.
  - destruct b; repeat (apply Forall_cons || apply Forall_nil); apply gen_cycle_inv_PermN; lia.
Qed.

Theorem lsl_cycles_returns n b : 3 <= n ->
  returns_full (lsl_cycles (Z.of_nat n) b) n (lsl_gens n b) (lsl_names b) (cat ["lsl_cycles-"; zs (Z.of_nat n)]).
Proof.
  intros Hn. unfold lsl_cycles. zguard. rewrite lsl_long, lsl_sub by lia. cbn [bind].
  unfold zinverse. rewrite !to_of_nats, !gen_cycle_inverse by lia.
  destruct b.
  - change ([of_nats (gen_cycle n 0 (n - 1)); of_nats (gen_cycle n 1 (n - 1))] ++
            [of_nats (gen_cycle_inv n 0 (n - 1)); of_nats (gen_cycle_inv n 1 (n - 1))])
      with (map of_nats (lsl_gens n true)).
    apply create_full; [discriminate|lia|apply lsl_gens_PermN; lia|reflexivity].
  - change [of_nats (gen_cycle n 0 (n - 1)); of_nats (gen_cycle n 1 (n - 1))] with (map of_nats (lsl_gens n false)).
    apply create_full; [discriminate|lia|apply lsl_gens_PermN; lia|reflexivity].
Qed.

Lemma shift_left_rot {A} (x : list A) : 1 <= length x -> rot_segment 0 (length x - 1) x = shift_left x.
Proof.
  intros H. unfold rot_segment, shift_left. change (0 + 1) with 1. rewrite Nat.sub_0_r.
  replace (length x - 1 + 1) with (length x) by lia. rewrite skipn_all, app_nil_r.
  change (firstn 0 x) with (@nil A). change (skipn 0 x) with x. cbn [app].
  f_equal. apply firstn_all2. rewrite skipn_length. lia.
Qed.

Lemma shift_right_rot {A} (x : list A) : 1 <= length x -> rot_segment_right 0 (length x - 1) x = shift_right x.
Proof.
  intros H. unfold rot_segment_right, shift_right. rewrite Nat.sub_0_r.
  replace (length x - 1 + 1) with (length x) by lia. rewrite skipn_all, app_nil_r.
  change (firstn 0 x) with (@nil A). change (skipn 0 x) with x. cbn [app].
  f_equal. apply firstn_all2. rewrite skipn_length. lia.
Qed.

Theorem lsl_cycles_documented n b : 3 <= n ->
  exists d, lsl_cycles (Z.of_nat n) b = Ok d /\
    p_gens d = [gen_cycle n 0 (n - 1); gen_cycle n 1 (n - 1)]
               ++ (if b then [gen_cycle_inv n 0 (n - 1); gen_cycle_inv n 1 (n - 1)] else []) /\
    p_names d = ["L"%string; "S"%string] ++ (if b then ["L_inv"%string; "S_inv"%string] else []) /\
    p_name d = cat ["lsl_cycles-"; zs (Z.of_nat n)] /\ p_central d = of_nats (seq 0 n) /\
    length (p_gens d) = (if b then 4 else 2) /\ Forall (PermN n) (p_gens d) /\
    inverse_perm (gen_cycle n 0 (n - 1)) = gen_cycle_inv n 0 (n - 1) /\
    inverse_perm (gen_cycle n 1 (n - 1)) = gen_cycle_inv n 1 (n - 1) /\
    (forall (A : Type) (dflt : A) (x : list A), length x = n ->
       map (fun p => apply_perm dflt p x) (p_gens d)
       = [shift_left x; rot_segment 1 (n - 1) x]
         ++ (if b then [shift_right x; rot_segment_right 1 (n - 1) x] else [])) /\
    closed_flag (p_gens d) = b.
Proof.
  intros Hn. destruct (returns_full_fields _ _ _ _ _ (lsl_cycles_returns n b Hn)) as (d & E & G & N & M & C).
  exists d. rewrite G. split; [exact E|]. split; [reflexivity|]. split; [exact N|]. split; [exact M|].
  split; [exact C|]. split; [destruct b; reflexivity|]. split; [apply lsl_gens_PermN; exact Hn|].
  split; [apply gen_cycle_inverse; lia|]. split; [apply gen_cycle_inverse; lia|]. split.
  - intros A dflt x L. unfold lsl_gens. rewrite map_app. cbn [map].
    rewrite !(apply_gen_cycle dflt n) by lia.
    rewrite <- (shift_left_rot x) by lia. rewrite L. f_equal.
    destruct b; [|reflexivity]. cbn [map]. rewrite !(apply_gen_cycle_inv dflt n) by lia.
    rewrite <- (shift_right_rot x) by lia. rewrite L. reflexivity.
  - destruct b.
    + apply closed_flag_iff. intros p Hp. unfold lsl_gens in Hp |- *. cbn [app In] in Hp |- *.
      destruct (gen_cycle_inv_PermN n 0 (n - 1) ltac:(lia) ltac:(lia)) as [_ I0].
      destruct (gen_cycle_inv_PermN n 1 (n - 1) ltac:(lia) ltac:(lia)) as [_ I1].
      destruct Hp as [<-|[<-|[<-|[<-|[]]]]]; rewrite ?gen_cycle_inverse, ?I0, ?I1 by lia; auto.
    + apply (not_closed _ (gen_cycle n 0 (n - 1))); [left; reflexivity|].
      rewrite gen_cycle_inverse by lia. unfold lsl_gens. cbn [app In].
      intros [C0|[C0|[]]]; apply (f_equal (fun p => nth 0 p 0)) in C0;
        rewrite gen_cycle_nth, gen_cycle_inv_nth in C0 by lia.
      * change (0 <? 0) with false in C0. cbv iota in C0. change (0 =? 0) with true in C0. cbv iota in C0.
        destruct (Nat.ltb_spec 0 (n - 1)); lia.
      * change (0 <? 1) with true in C0. change (0 <? 0) with false in C0. change (0 =? 0) with true in C0.
        cbv iota in C0. lia.
Qed.

Theorem lsl_cycles_range n b :
  ((exists d, lsl_cycles n b = Ok d) <-> (3 <= n)%Z) /\ (~ (3 <= n)%Z -> lsl_cycles n b = Err AssertionErr).
Proof.
  apply range_from_cases.
  - intros Hn. destruct (lsl_cycles_documented (Z.to_nat n) b) as (d & E & _); try lia.
    exists d. rewrite !Z2Nat.id in E by lia. exact E.
  - intros HN. unfold lsl_cycles. destruct (Z.leb_spec 3 n); [lia|reflexivity].
  - lia.
Qed.

Example lsl_cycles_4 :
  lsl_cycles 4 true = Ok {| p_gens := [[1; 2; 3; 0]; [0; 2; 3; 1]; [3; 0; 1; 2]; [0; 3; 1; 2]];
                            p_names := ["L"; "S"; "L_inv"; "S_inv"]%string;
                            p_name := "lsl_cycles-4"%string; p_central := [0; 1; 2; 3]%Z |}
  /\ lsl_gens 4 true = [[1; 2; 3; 0]; [0; 2; 3; 1]; [3; 0; 1; 2]; [0; 3; 1; 2]]
  /\ rot_segment_right 1 3 ["a"; "b"; "c"; "d"]%string = ["a"; "d"; "b"; "c"]%string.
Proof. vm_compute. repeat split. Qed.
(* ---------------------------------------------------------------------------------------------- *)
(** * itertools.permutations(l, k) on a duplicate-free list, in closed form *)
(* l without the element a *)
Definition rm (a : nat) (l : list nat) : list nat := filter (fun y => negb (y =? a)) l.

Lemma rm_notin a l : ~ In a l -> rm a l = l.
Proof.
  intros H. unfold rm. induction l as [|x t IH]; [reflexivity|]. cbn [filter].
  destruct (Nat.eqb_spec x a) as [->|Hne]; [exfalso; apply H; left; reflexivity|].
  cbn [negb]. f_equal. apply IH. intros Hin. apply H. right. exact Hin.
Qed.

Lemma in_rm a l x : In x (rm a l) <-> In x l /\ x <> a.
Proof.
  unfold rm. rewrite filter_In. destruct (Nat.eqb_spec x a); cbn [negb]; intuition congruence.
Qed.

Lemma rm_NoDup a l : NoDup l -> NoDup (rm a l).
Proof. apply NoDup_filter. Qed.

Lemma rm_length a l : NoDup l -> In a l -> length (rm a l) = length l - 1.
Proof.
  intros ND Hin. induction l as [|x t IH]; [destruct Hin|]. inversion ND as [|x' t' Hx NDt]; subst.
  unfold rm. cbn [filter]. destruct (Nat.eqb_spec x a) as [->|Hne].
  - cbn [negb length]. fold (rm a t). rewrite rm_notin by exact Hx. lia.
  - cbn [negb length]. fold (rm a t). destruct Hin as [->|Hin]; [congruence|]. rewrite IH by assumption.
    destruct t; [destruct Hin|]. cbn [length]. lia.
Qed.

Lemma picks_map {A B} (f : A -> B) (l : list A) :
  picks (map f l) = map (fun yr => (f (fst yr), map f (snd yr))) (picks l).
Proof.
  induction l as [|x t IH]; [reflexivity|]. cbn [map picks fst snd]. f_equal.
  rewrite IH, !map_map. apply map_ext. intros [y r]. reflexivity.
Qed.

Lemma perms_aux_map {A B} (f : A -> B) k : forall l : list A,
  perms_aux k (map f l) = map (map f) (perms_aux k l).
Proof.
  induction k as [|k IH]; intros l; [reflexivity|]. cbn [perms_aux].
  rewrite picks_map, !flat_map_concat_map, concat_map, !map_map. f_equal. apply map_ext.
  intros [y r]. cbn [fst snd]. rewrite IH, !map_map. reflexivity.
Qed.

Lemma picks_NoDup l : NoDup l -> picks l = map (fun a => (a, rm a l)) l.
Proof.
  induction l as [|x t IH]; intros ND; [reflexivity|]. inversion ND as [|x' t' Hx NDt]; subst.
  cbn [picks map]. f_equal.
  - f_equal. unfold rm. cbn [filter]. rewrite Nat.eqb_refl. cbn [negb]. symmetry. apply rm_notin. exact Hx.
  - rewrite IH by exact NDt. rewrite map_map. apply map_ext_in. intros a Ha. f_equal.
    unfold rm. cbn [filter]. destruct (Nat.eqb_spec x a) as [->|Hne]; [contradiction|]. reflexivity.
Qed.

Lemma perms_aux_S k l : NoDup l ->
  perms_aux (S k) l = flat_map (fun a => map (cons a) (perms_aux k (rm a l))) l.
Proof.
  intros ND. cbn [perms_aux]. rewrite picks_NoDup by exact ND.
  rewrite !flat_map_concat_map, map_map. reflexivity.
Qed.

Lemma perms_aux_2 l : NoDup l ->
  perms_aux 2 l = flat_map (fun a => map (fun b => [a; b]) (rm a l)) l.
Proof.
  intros ND. rewrite perms_aux_S by exact ND. apply flat_map_ext. intros a.
  rewrite perms_aux_S by (apply rm_NoDup; exact ND). cbn [perms_aux].
  rewrite map_flat_map. cbn [map]. apply flat_map_single.
Qed.

Lemma perms_aux_3 l : NoDup l ->
  perms_aux 3 l = flat_map (fun a => flat_map (fun b => map (fun c => [a; b; c]) (rm b (rm a l))) (rm a l)) l.
Proof.
  intros ND. rewrite perms_aux_S by exact ND. apply flat_map_ext. intros a.
  rewrite perms_aux_2 by (apply rm_NoDup; exact ND). rewrite map_flat_map. apply flat_map_ext. intros b.
  rewrite map_map. reflexivity.
Qed.

(* filters through flat_map / map *)
Lemma filter_flat_map {A B} (p : B -> bool) (f : A -> list B) l :
  filter p (flat_map f l) = flat_map (fun a => filter p (f a)) l.
Proof. induction l as [|a l IH]; [reflexivity|]. cbn [flat_map]. now rewrite filter_app, IH. Qed.

Lemma filter_map_comm {A B} (p : B -> bool) (f : A -> B) l :
  filter p (map f l) = map f (filter (fun a => p (f a)) l).
Proof.
  induction l as [|a l IH]; [reflexivity|]. cbn [map filter]. destruct (p (f a)); cbn [map]; now rewrite IH.
Qed.

Lemma filter_filter {A} (p q : A -> bool) l : filter p (filter q l) = filter (fun x => q x && p x) l.
Proof.
  induction l as [|a l IH]; [reflexivity|]. cbn [filter]. destruct (q a); cbn [filter andb]; [destruct (p a)|]; now rewrite IH.
Qed.

Lemma filter_all_true {A} (p : A -> bool) l : (forall x, In x l -> p x = true) -> filter p l = l.
Proof.
  intros H. induction l as [|a l IH]; [reflexivity|]. cbn [filter]. rewrite (H a (or_introl eq_refl)).
  f_equal. apply IH. intros x Hx. apply H. right. exact Hx.
Qed.

Lemma filter_all_false {A} (p : A -> bool) l : (forall x, In x l -> p x = false) -> filter p l = [].
Proof.
  intros H. induction l as [|a l IH]; [reflexivity|]. cbn [filter]. rewrite (H a (or_introl eq_refl)).
  apply IH. intros x Hx. apply H. right. exact Hx.
Qed.

Lemma flat_map_filter_nil {A B} (p : A -> bool) (f : A -> list B) l :
  (forall a, p a = false -> f a = []) -> flat_map f l = flat_map f (filter p l).
Proof.
  intros H. induction l as [|a l IH]; [reflexivity|]. cbn [flat_map filter].
  destruct (p a) eqn:E; cbn [flat_map]; rewrite IH; [reflexivity|]. now rewrite (H a E).
Qed.

Lemma flat_map_ext_in {A B} (f g : A -> list B) l : (forall a, In a l -> f a = g a) -> flat_map f l = flat_map g l.
Proof.
  intros H. induction l as [|a l IH]; [reflexivity|]. cbn [flat_map]. rewrite (H a (or_introl eq_refl)).
  f_equal. apply IH. intros x Hx. apply H. right. exact Hx.
Qed.

Lemma filter_ext_in' {A} (p q : A -> bool) l : (forall a, In a l -> p a = q a) -> filter p l = filter q l.
Proof.
  intros H. induction l as [|a l IH]; [reflexivity|]. cbn [filter]. rewrite (H a (or_introl eq_refl)).
  rewrite IH; [reflexivity|]. intros x Hx. apply H. right. exact Hx.
Qed.

(* the elements of range(n) above a *)
Lemma filter_gt_seq a n : a < n -> filter (fun c => a <? c) (seq 0 n) = seq (a + 1) (n - a - 1).
Proof.
  intros H. rewrite (seq_split 0 (a + 1) n) by lia. rewrite filter_app.
  rewrite filter_all_false, filter_all_true; cbn [app Nat.add].
  - f_equal. lia.
  - intros x Hx. apply in_seq in Hx. apply Nat.ltb_lt. lia.
  - intros x Hx. apply in_seq in Hx. apply Nat.ltb_ge. lia.
Qed.

Lemma flat_map_length_const {A B} (f : A -> list B) l m :
  (forall a, In a l -> length (f a) = m) -> length (flat_map f l) = length l * m.
Proof.
  intros H. induction l as [|a l IH]; [reflexivity|]. cbn [flat_map length]. rewrite app_length.
  rewrite (H a (or_introl eq_refl)), IH; [lia|]. intros x Hx. apply H. right. exact Hx.
Qed.
(* ---------------------------------------------------------------------------------------------- *)
(** * three_cycles_0ij(n), n >= 3: the (n-1)(n-2) cycles (0 i j), i <> j in 1..n-1 *)
Definition tc0_pairs (n : nat) : list (nat * nat) :=
  flat_map (fun i => map (fun j => (i, j)) (rm i (seq 1 (n - 1)))) (seq 1 (n - 1)).

Lemma in_tc0_pairs n i j : In (i, j) (tc0_pairs n) <-> 1 <= i < n /\ 1 <= j < n /\ i <> j.
Proof.
  unfold tc0_pairs. rewrite in_flat_map. split.
  - intros (i' & Hi' & H). apply in_map_iff in H as (j' & [= <- <-] & Hj'). apply in_rm in Hj' as [Hj' Hne].
    apply in_seq in Hi', Hj'. lia.
  - intros (H1 & H2 & H3). exists i. split; [apply in_seq; lia|]. apply in_map. apply in_rm.
    split; [apply in_seq; lia|lia].
Qed.

Lemma tc0_pairs_length n : length (tc0_pairs n) = (n - 1) * (n - 2).
Proof.
  unfold tc0_pairs. rewrite (flat_map_length_const _ _ (n - 2)); [now rewrite seq_length|].
  intros a Ha. rewrite map_length, rm_length; [rewrite seq_length; lia|apply seq_NoDup|exact Ha].
Qed.

Lemma tc0_ij n : perms_aux 2 (zrange 1 (Z.of_nat n))
  = map (fun ij => [Z.of_nat (fst ij); Z.of_nat (snd ij)]) (tc0_pairs n).
Proof.
  destruct (Nat.le_gt_cases n 1) as [H|H].
  - rewrite zrange_empty by lia. unfold tc0_pairs. replace (n - 1) with 0 by lia. reflexivity.
  - rewrite (zrange_nat' 1 (Z.of_nat n) 1 n) by lia. unfold of_nats. rewrite perms_aux_map.
    rewrite perms_aux_2 by apply seq_NoDup. unfold tc0_pairs. rewrite !map_flat_map. apply flat_map_ext.
    intros i. rewrite !map_map. reflexivity.
Qed.

Definition tc0_gens (n : nat) : list (list nat) := map (fun ij => cyc3 n 0 (fst ij) (snd ij)) (tc0_pairs n).
Definition tc0_names (n : nat) : list string :=
  map (fun ij => cat ["("; join " " [0%Z; Z.of_nat (fst ij); Z.of_nat (snd ij)]; ")"]) (tc0_pairs n).

Theorem three_cycles_0ij_returns n : 3 <= n ->
  returns_full (three_cycles_0ij (Z.of_nat n)) n (tc0_gens n) (tc0_names n)
               (cat ["three_cycles_0ij-"; zs (Z.of_nat n)]).
Proof.
  intros Hn. unfold three_cycles_0ij. rewrite tc0_ij.
  rewrite (mapM_map_ok _ _ (fun ij => of_nats (cyc3 n 0 (fst ij) (snd ij)))).
  2:{ intros [i j] Hij. apply in_tc0_pairs in Hij. cbn [fst snd].
      apply (zfrom_cycles_cyc3 n 0 i j); lia. }
  cbn [bind]. rewrite map_map. rewrite <- (map_map (fun ij => cyc3 n 0 (fst ij) (snd ij)) of_nats).
  apply create_full.
  - assert (In (1, 2) (tc0_pairs n)) as Hij by (apply in_tc0_pairs; lia).
    unfold tc0_gens. destruct (tc0_pairs n); [destruct Hij|discriminate].
  - lia.
  - apply Forall_forall. intros p Hp. apply in_map_iff in Hp as ([i j] & <- & Hij). apply in_tc0_pairs in Hij.
    apply (zfrom_cycles_cyc3 n 0 i j); cbn; lia.
  - unfold tc0_gens, tc0_names. now rewrite !map_length.
Qed.

Theorem three_cycles_0ij_documented n : 3 <= n ->
  exists d, three_cycles_0ij (Z.of_nat n) = Ok d /\
    p_gens d = map (fun ij => cyc3 n 0 (fst ij) (snd ij)) (tc0_pairs n) /\
    p_names d = map (fun ij => cat ["("; join " " [0%Z; Z.of_nat (fst ij); Z.of_nat (snd ij)]; ")"]) (tc0_pairs n) /\
    p_name d = cat ["three_cycles_0ij-"; zs (Z.of_nat n)] /\ p_central d = of_nats (seq 0 n) /\
    (forall i j, In (i, j) (tc0_pairs n) <-> 1 <= i < n /\ 1 <= j < n /\ i <> j) /\
    length (p_gens d) = (n - 1) * (n - 2) /\ length (p_names d) = (n - 1) * (n - 2) /\
    Forall (PermN n) (p_gens d) /\
    (forall p, In p (p_gens d) <-> exists i j, 1 <= i < n /\ 1 <= j < n /\ i <> j /\ p = cyc3 n 0 i j) /\
    (forall i j, 1 <= i < n -> 1 <= j < n -> i <> j ->
       inverse_perm (cyc3 n 0 i j) = cyc3 n 0 j i /\
       forall (A : Type) (dflt : A) (x : list A), length x = n ->
         apply_perm dflt (cyc3 n 0 i j) x = cycle3_at dflt x 0 i j) /\
    closed_flag (p_gens d) = true.
Proof.
  intros Hn. destruct (returns_full_fields _ _ _ _ _ (three_cycles_0ij_returns n Hn)) as (d & E & G & N & M & C).
  assert (forall i j, 1 <= i < n -> 1 <= j < n -> i <> j -> inverse_perm (cyc3 n 0 i j) = cyc3 n 0 j i) as Hinv.
  { intros i j Hi Hj Hij. rewrite cyc3_inverse by lia. symmetry. apply cyc3_rotate; lia. }
  exists d. rewrite G, N. fold (tc0_gens n). fold (tc0_names n).
  split; [exact E|]. split; [reflexivity|]. split; [reflexivity|]. split; [exact M|]. split; [exact C|].
  split; [apply in_tc0_pairs|]. unfold tc0_gens, tc0_names. rewrite !map_length, tc0_pairs_length.
  split; [reflexivity|]. split; [reflexivity|]. split; [|split; [|split]].
  - apply Forall_forall. intros p Hp. apply in_map_iff in Hp as ([i j] & <- & Hij). apply in_tc0_pairs in Hij.
    apply (zfrom_cycles_cyc3 n 0 i j); cbn; lia.
  - intros p. rewrite in_map_iff. split.
    + intros ([i j] & <- & Hij). apply in_tc0_pairs in Hij. exists i, j. cbn [fst snd]. repeat split; lia.
    + intros (i & j & Hi & Hj & Hij & ->). exists (i, j). split; [reflexivity|]. apply in_tc0_pairs. lia.
  - intros i j Hi Hj Hij. split; [apply Hinv; assumption|]. intros A dflt x L. apply apply_cyc3; lia.
  - apply closed_flag_iff. intros p Hp. apply in_map_iff in Hp as ([i j] & <- & Hij). apply in_tc0_pairs in Hij.
    cbn [fst snd]. rewrite Hinv by lia. apply in_map_iff. exists (j, i). split; [reflexivity|].
    apply in_tc0_pairs. lia.
Qed.

Theorem three_cycles_0ij_range n :
  ((exists d, three_cycles_0ij n = Ok d) <-> (3 <= n)%Z) /\ (~ (3 <= n)%Z -> three_cycles_0ij n = Err IndexErr).
Proof.
  apply range_from_cases.
  - intros Hn. destruct (three_cycles_0ij_documented (Z.to_nat n)) as (d & E & _); try lia.
    exists d. rewrite !Z2Nat.id in E by lia. exact E.
  - intros HN. unfold three_cycles_0ij. destruct (Z.eq_dec n 2) as [->|Hne]; [reflexivity|].
    rewrite zrange_empty by lia. reflexivity.
  - lia.
Qed.

Example three_cycles_0ij_4 :
  three_cycles_0ij 4 = Ok {| p_gens := [[1; 2; 0; 3]; [1; 3; 2; 0]; [2; 0; 1; 3]; [2; 1; 3; 0]; [3; 0; 2; 1]; [3; 1; 0; 2]];
       p_names := ["(0 1 2)"; "(0 1 3)"; "(0 2 1)"; "(0 2 3)"; "(0 3 1)"; "(0 3 2)"]%string;
       p_name := "three_cycles_0ij-4"%string; p_central := [0; 1; 2; 3]%Z |}
  /\ tc0_pairs 4 = [(1, 2); (1, 3); (2, 1); (2, 3); (3, 1); (3, 2)].
Proof. vm_compute. repeat split. Qed.
(* ---------------------------------------------------------------------------------------------- *)
(** * three_cycles(n), n >= 3: the n(n-1)(n-2)/3 cycles (a b c) with a < b, a < c, b <> c *)
Definition tc_triples (n : nat) : list (nat * nat * nat) :=
  flat_map (fun a => flat_map (fun b => map (fun c => (a, b, c)) (rm b (seq (a + 1) (n - a - 1))))
                              (seq (a + 1) (n - a - 1))) (seq 0 n).

Lemma in_tc_triples n a b c : In (a, b, c) (tc_triples n) <-> a < b < n /\ a < c < n /\ b <> c.
Proof.
  unfold tc_triples. rewrite in_flat_map. split.
  - intros (a' & Ha' & H). apply in_flat_map in H as (b' & Hb' & H).
    apply in_map_iff in H as (c' & [= <- <- <-] & Hc'). apply in_rm in Hc' as [Hc' Hne].
    apply in_seq in Ha', Hb', Hc'. lia.
  - intros (H1 & H2 & H3). exists a. split; [apply in_seq; lia|]. apply in_flat_map. exists b.
    split; [apply in_seq; lia|]. apply in_map. apply in_rm. split; [apply in_seq; lia|lia].
Qed.

Lemma tc_triples_length n : 3 * length (tc_triples n) = n * (n - 1) * (n - 2).
Proof.
  unfold tc_triples.
  assert (forall m a, a + m = n ->
    3 * length (flat_map (fun a => flat_map (fun b => map (fun c => (a, b, c)) (rm b (seq (a + 1) (n - a - 1))))
                              (seq (a + 1) (n - a - 1))) (seq a m)) = m * (m - 1) * (m - 2)) as H.
  { induction m as [|m IH]; intros a E; [reflexivity|].
    cbn [seq flat_map]. rewrite app_length. specialize (IH (S a) ltac:(lia)).
    rewrite (flat_map_length_const _ _ (m - 1)).
    2:{ intros b Hb. rewrite map_length, rm_length; [rewrite seq_length; lia|apply seq_NoDup|exact Hb]. }
    rewrite seq_length. replace (n - a - 1) with m by lia.
    destruct m as [|[|m]]; cbn [Nat.sub] in *; nia. }
  apply (H n 0). lia.
Qed.

Lemma zltb_nat a b : (Z.of_nat a <? Z.of_nat b)%Z = (a <? b).
Proof. destruct (Z.ltb_spec (Z.of_nat a) (Z.of_nat b)); destruct (Nat.ltb_spec a b); lia || reflexivity. Qed.

Definition tc_filter (t : list Z) : bool :=
  match t with [a; b; c] => ((a <? b) && (a <? c))%Z | _ => false end.

Lemma tc_abc n : filter tc_filter (perms_aux 3 (zrange 0 (Z.of_nat n)))
  = map (fun t => let '(a, b, c) := t in [Z.of_nat a; Z.of_nat b; Z.of_nat c]) (tc_triples n).
Proof.
  rewrite zrange0_nat. unfold of_nats. rewrite perms_aux_map, filter_map_comm.
  rewrite perms_aux_3 by apply seq_NoDup. unfold tc_triples.
  rewrite filter_flat_map, !map_flat_map. apply flat_map_ext_in. intros a Ha. apply in_seq in Ha.
  rewrite filter_flat_map, !map_flat_map.
  rewrite (flat_map_filter_nil (fun b => a <? b)).
  2:{ intros b Hb. rewrite filter_map_comm. cbn [map tc_filter]. rewrite zltb_nat, Hb. cbn [andb].
      rewrite filter_all_false by reflexivity. reflexivity. }
  replace (filter (fun b => a <? b) (rm a (seq 0 n))) with (seq (a + 1) (n - a - 1)).
  2:{ rewrite <- filter_gt_seq by lia. unfold rm. rewrite filter_filter. apply filter_ext_in'. intros x _.
      destruct (Nat.eqb_spec x a); destruct (Nat.ltb_spec a x); cbn; lia || reflexivity. }
  apply flat_map_ext_in. intros b Hb. apply in_seq in Hb.
  rewrite filter_map_comm, !map_map. cbn [map tc_filter].
  replace (filter _ (rm b (rm a (seq 0 n)))) with (rm b (seq (a + 1) (n - a - 1))); [reflexivity|].
  rewrite <- filter_gt_seq by lia. unfold rm. rewrite !filter_filter. apply filter_ext_in'. intros x _.
  rewrite !zltb_nat.
  destruct (Nat.eqb_spec x a); destruct (Nat.eqb_spec x b); destruct (Nat.ltb_spec a x); destruct (Nat.ltb_spec a b);
    cbn; lia || reflexivity.
Qed.

Definition tc_gens (n : nat) : list (list nat) := map (fun t => let '(a, b, c) := t in cyc3 n a b c) (tc_triples n).
Definition tc_names (n : nat) : list string :=
  map (fun t => let '(a, b, c) := t in cat ["("; join " " [Z.of_nat a; Z.of_nat b; Z.of_nat c]; ")"]) (tc_triples n).

Lemma tc_cyc3 n a b c : In (a, b, c) (tc_triples n) ->
  zfrom_cycles (Z.of_nat n) [[Z.of_nat a; Z.of_nat b; Z.of_nat c]] = Ok (of_nats (cyc3 n a b c)) /\
  PermN n (cyc3 n a b c) /\ inverse_perm (cyc3 n a b c) = cyc3 n a c b.
Proof.
  intros H. apply in_tc_triples in H. destruct (zfrom_cycles_cyc3 n a b c) as [E P]; try lia.
  repeat split; try assumption; try apply P.
  rewrite cyc3_inverse by lia. symmetry. apply cyc3_rotate; lia.
Qed.

Theorem three_cycles_returns n : 3 <= n ->
  returns_full (three_cycles (Z.of_nat n)) n (tc_gens n) (tc_names n) (cat ["three_cycles-"; zs (Z.of_nat n)]).
Proof.
  intros Hn. unfold three_cycles. zguard. fold tc_filter. rewrite tc_abc.
  rewrite (mapM_map_ok _ _ (fun t => let '(a, b, c) := t in of_nats (cyc3 n a b c))).
  2:{ intros [[a b] c] Ht. apply tc_cyc3. exact Ht. }
  cbn [bind].
  replace (map (fun t => let '(a, b, c) := t in of_nats (cyc3 n a b c)) (tc_triples n)) with (map of_nats (tc_gens n)).
  2:{ unfold tc_gens. rewrite map_map. apply map_ext. intros [[a b] c]. reflexivity. }
  replace (map _ (map _ (tc_triples n))) with (tc_names n).
  2:{ unfold tc_names. rewrite map_map. apply map_ext. intros [[a b] c]. reflexivity. }
  apply create_full.
  - assert (In (0, 1, 2) (tc_triples n)) as Hin by (apply in_tc_triples; lia).
    unfold tc_gens. destruct (tc_triples n); [destruct Hin|discriminate].
  - lia.
  - apply Forall_forall. intros p Hp. apply in_map_iff in Hp as ([[a b] c] & <- & Ht). apply tc_cyc3. exact Ht.
  - unfold tc_gens, tc_names. now rewrite !map_length.
Qed.

Theorem three_cycles_documented n : 3 <= n ->
  exists d, three_cycles (Z.of_nat n) = Ok d /\
    p_gens d = map (fun t => let '(a, b, c) := t in cyc3 n a b c) (tc_triples n) /\
    p_names d = map (fun t => let '(a, b, c) := t in
                       cat ["("; join " " [Z.of_nat a; Z.of_nat b; Z.of_nat c]; ")"]) (tc_triples n) /\
    p_name d = cat ["three_cycles-"; zs (Z.of_nat n)] /\ p_central d = of_nats (seq 0 n) /\
    (forall a b c, In (a, b, c) (tc_triples n) <-> a < b < n /\ a < c < n /\ b <> c) /\
    3 * length (p_gens d) = n * (n - 1) * (n - 2) /\ length (p_names d) = length (p_gens d) /\
    Forall (PermN n) (p_gens d) /\
    (forall p, In p (p_gens d) <-> exists a b c, a < b < n /\ a < c < n /\ b <> c /\ p = cyc3 n a b c) /\
    (forall a b c, a < b < n -> a < c < n -> b <> c ->
       inverse_perm (cyc3 n a b c) = cyc3 n a c b /\
       forall (A : Type) (dflt : A) (x : list A), length x = n ->
         apply_perm dflt (cyc3 n a b c) x = cycle3_at dflt x a b c) /\
    closed_flag (p_gens d) = true.
Proof.
  intros Hn. destruct (returns_full_fields _ _ _ _ _ (three_cycles_returns n Hn)) as (d & E & G & N & M & C).
  exists d. rewrite G, N.
  split; [exact E|]. split; [reflexivity|]. split; [reflexivity|]. split; [exact M|]. split; [exact C|].
  split; [apply in_tc_triples|]. unfold tc_gens, tc_names. rewrite !map_length.
  split; [apply tc_triples_length|]. split; [reflexivity|]. split; [|split; [|split]].
  - apply Forall_forall. intros p Hp. apply in_map_iff in Hp as ([[a b] c] & <- & Ht). apply tc_cyc3. exact Ht.
  - intros p. rewrite in_map_iff. split.
    + intros ([[a b] c] & <- & Ht). apply in_tc_triples in Ht. exists a, b, c. repeat split; lia.
    + intros (a & b & c & Hb & Hc & Hbc & ->). exists (a, b, c). split; [reflexivity|]. apply in_tc_triples. lia.
  - intros a b c Hb Hc Hbc. split.
    + apply tc_cyc3. apply in_tc_triples. lia.
    + intros A dflt x L. apply apply_cyc3; lia.
  - apply closed_flag_iff. intros p Hp. apply in_map_iff in Hp as ([[a b] c] & <- & Ht).
    destruct (tc_cyc3 n a b c Ht) as (_ & _ & I). rewrite I. apply in_tc_triples in Ht.
    apply in_map_iff. exists (a, c, b). split; [reflexivity|]. apply in_tc_triples. lia.
Qed.

Theorem three_cycles_range n :
  ((exists d, three_cycles n = Ok d) <-> (3 <= n)%Z) /\ (~ (3 <= n)%Z -> three_cycles n = Err AssertionErr).
Proof.
  apply range_from_cases.
  - intros Hn. destruct (three_cycles_documented (Z.to_nat n)) as (d & E & _); try lia.
    exists d. rewrite !Z2Nat.id in E by lia. exact E.
  - intros HN. unfold three_cycles. destruct (Z.leb_spec 3 n); [lia|reflexivity].
  - lia.
Qed.

Example three_cycles_4 :
  three_cycles 4 = Ok {| p_gens := [[1; 2; 0; 3]; [1; 3; 2; 0]; [2; 0; 1; 3]; [2; 1; 3; 0]; [3; 0; 2; 1]; [3; 1; 0; 2];
                                    [0; 2; 3; 1]; [0; 3; 1; 2]];
       p_names := ["(0 1 2)"; "(0 1 3)"; "(0 2 1)"; "(0 2 3)"; "(0 3 1)"; "(0 3 2)"; "(1 2 3)"; "(1 3 2)"]%string;
       p_name := "three_cycles-4"%string; p_central := [0; 1; 2; 3]%Z |}
  /\ tc_triples 4 = [(0, 1, 2); (0, 1, 3); (0, 2, 1); (0, 2, 3); (0, 3, 1); (0, 3, 2); (1, 2, 3); (1, 3, 2)].
Proof. vm_compute. repeat split. Qed.
