From Coq Require Import ZArith List Bool Lia.
From V Require Import W64.
Open Scope Z_scope.

Lemma two63_eq : two63 = 2 ^ 63. Proof. reflexivity. Qed.
Lemma two64_eq : two64 = 2 ^ 64. Proof. reflexivity. Qed.

Lemma wrap_in64 z : in64 (wrap z).
Proof.
  unfold in64, wrap. pose proof (Z.mod_pos_bound (z + two63) two64 eq_refl).
  unfold two63, two64 in *. lia.
Qed.

Lemma wrap_id z : in64 z -> wrap z = z.
Proof.
  unfold in64, wrap; intros H. rewrite Z.mod_small; unfold two63, two64 in *; lia.
Qed.

Lemma wrap_congr z : exists k, wrap z = z + k * two64.
Proof.
  unfold wrap. exists (- ((z + two63) / two64)).
  pose proof (Z.div_mod (z + two63) two64 ltac:(unfold two64; lia)). lia.
Qed.

Lemma wrap_mod z : (wrap z) mod two64 = z mod two64.
Proof.
  destruct (wrap_congr z) as [k ->]. apply Z.mod_add. unfold two64; lia.
Qed.

Lemma wrap_eq_iff a b : wrap a = wrap b <-> a mod two64 = b mod two64.
Proof.
  split; intros H.
  - rewrite <- (wrap_mod a), <- (wrap_mod b). now rewrite H.
  - unfold wrap. rewrite <- (Zplus_mod_idemp_l a), <- (Zplus_mod_idemp_l b), H. reflexivity.
Qed.

Lemma wrap_wrap z : wrap (wrap z) = wrap z.
Proof. apply wrap_id, wrap_in64. Qed.

Lemma wrap_testbit z i : 0 <= i < 64 -> Z.testbit (wrap z) i = Z.testbit z i.
Proof.
  intros Hi. destruct (wrap_congr z) as [k ->].
  rewrite <- (Z.mod_pow2_bits_low (z + k * two64) 64 i) by lia.
  rewrite <- (Z.mod_pow2_bits_low z 64 i) by lia.
  f_equal. change (2 ^ 64) with two64. apply Z.mod_add. unfold two64; lia.
Qed.

Lemma wrap_add_l a b : wrap (wrap a + b) = wrap (a + b).
Proof.
  apply wrap_eq_iff. rewrite <- Zplus_mod_idemp_l, wrap_mod, Zplus_mod_idemp_l. reflexivity.
Qed.
Lemma wrap_add_r a b : wrap (a + wrap b) = wrap (a + b).
Proof. rewrite Z.add_comm, wrap_add_l, Z.add_comm. reflexivity. Qed.
Lemma wrap_mul_l a b : wrap (wrap a * b) = wrap (a * b).
Proof.
  apply wrap_eq_iff. rewrite <- Zmult_mod_idemp_l, wrap_mod, Zmult_mod_idemp_l. reflexivity.
Qed.
Lemma wrap_mul_r a b : wrap (a * wrap b) = wrap (a * b).
Proof. rewrite Z.mul_comm, wrap_mul_l, Z.mul_comm. reflexivity. Qed.

(* equality of in-range words is equality of their 64 low bits *)
Lemma in64_bits_eq a b :
  in64 a -> in64 b -> (forall i, 0 <= i < 64 -> Z.testbit a i = Z.testbit b i) -> a = b.
Proof.
  intros Ha Hb H.
  rewrite <- (wrap_id a Ha), <- (wrap_id b Hb). apply wrap_eq_iff.
  apply Z.bits_inj'. intros i Hi0.
  change two64 with (2 ^ 64).
  destruct (Z_lt_ge_dec i 64).
  - rewrite !Z.mod_pow2_bits_low by lia. apply H; lia.
  - rewrite !Z.mod_pow2_bits_high by lia. reflexivity.
Qed.

(* sign bit *)
Lemma in64_neg_testbit a : in64 a -> (a < 0 <-> Z.testbit a 63 = true).
Proof.
  intros [Hl Hh]. unfold two63 in *.
  rewrite Z.testbit_true by lia. change (2^63) with 9223372036854775808.
  split; intros H.
  - replace (a / 9223372036854775808) with (-1); [reflexivity|].
    apply Z.div_unique with (r := a + 9223372036854775808); lia.
  - destruct (Z_lt_ge_dec a 0); auto. rewrite Z.div_small in H by lia. discriminate.
Qed.

Lemma in64_high_bits a i : in64 a -> 63 <= i -> Z.testbit a i = Z.testbit a 63.
Proof.
  intros Ha Hi. destruct (Z_lt_ge_dec a 0) as [Hn|Hn].
  - rewrite (proj1 (in64_neg_testbit a Ha) Hn).
    destruct Ha as [Hl Hh]. unfold two63 in *.
    rewrite <- (Z.lnot_involutive a), Z.lnot_spec by lia.
    assert (0 <= Z.lnot a < 2^63) by (unfold Z.lnot; lia).
    destruct (Z.eq_dec (Z.lnot a) 0) as [->|]; [rewrite Z.bits_0; reflexivity|].
    rewrite Z.bits_above_log2; auto; try lia.
    apply Z.lt_le_trans with 63; try lia. apply Z.log2_lt_pow2; lia.
  - assert (Z.testbit a 63 = false) as ->.
    { destruct (Z.testbit a 63) eqn:E; auto. apply in64_neg_testbit in E; auto. lia. }
    destruct (Z.eq_dec a 0) as [->|]; [apply Z.bits_0|].
    apply Z.bits_above_log2; try lia. destruct Ha. unfold two63 in *.
    apply Z.lt_le_trans with 63; try lia. apply Z.log2_lt_pow2; lia.
Qed.
