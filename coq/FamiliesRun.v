(** Glue for evaluating the family models (C15) on harness cases: one constructor of [pcall] /
    [mcall] per library constructor, the observed definition as a literal, comparison inside Coq. *)
From Coq Require Import ZArith List Bool Arith Lia String.
From V Require Import Base W64 Perm Matrix Def Families.
Import ListNotations.
Open Scope Z_scope.

Inductive pcall :=
| CAllTranspositions (n : Z) | CTransposons (n : Z) | CBlockInterchange (n : Z) | CFullReversals (n : Z)
| CSignedReversals (n : Z) | CLrx (n k : Z) | CLx (n : Z) | CTopSpin (n k : Z) | CCoxeter (n : Z)
| CCyclicCoxeter (n : Z) | CPancake (n : Z) | CCubicPancake (n subset : Z) | CBurntPancake (n : Z)
| CThreeCycles (n : Z) | CThreeCycles0ij (n : Z) | CThreeCycles01i (n : Z) (add_inverses : bool)
| CDerangements (n : Z) | CInvolutiveDerangements (n : Z) | CStars (n : Z) | CGeneralizedStars (n k : Z)
| CRapaportM1 (n : Z) | CRapaportM2 (n : Z) | CAllCycles (n : Z) | CLslCycles (n : Z) (add_inverses : bool)
| CWrappedKCycles (n k : Z) | CLarx (n : Z) | CIncreasingKCycles (n k : Z) | CSheveleva2 (n k : Z)
| CKoltsov3 (n perm_type k d : Z) | CConsecutiveKCycles (n k : Z)
| CConjugacyClasses (n : Z) (classes : list (list Z * option Z)) (shuffles : list (list nat))
| CRandGenerators (n k : Z) (shuffles : list (list Z))
| CDownCycles (n : Z) | CPrefixCycles (n : Z).

Definition run_pcall (c : pcall) : result pdef :=
  match c with
  | CAllTranspositions n => all_transpositions n | CTransposons n => transposons n
  | CBlockInterchange n => block_interchange n | CFullReversals n => full_reversals n
  | CSignedReversals n => signed_reversals n | CLrx n k => lrx n k | CLx n => lx n
  | CTopSpin n k => top_spin n k | CCoxeter n => coxeter n | CCyclicCoxeter n => cyclic_coxeter n
  | CPancake n => pancake n | CCubicPancake n s => cubic_pancake n s | CBurntPancake n => burnt_pancake n
  | CThreeCycles n => three_cycles n | CThreeCycles0ij n => three_cycles_0ij n
  | CThreeCycles01i n b => three_cycles_01i n b | CDerangements n => derangements n
  | CInvolutiveDerangements n => involutive_derangements n | CStars n => stars n
  | CGeneralizedStars n k => generalized_stars n k | CRapaportM1 n => rapaport_m1 n
  | CRapaportM2 n => rapaport_m2 n | CAllCycles n => all_cycles n | CLslCycles n b => lsl_cycles n b
  | CWrappedKCycles n k => wrapped_k_cycles n k | CLarx n => larx n
  | CIncreasingKCycles n k => increasing_k_cycles n k | CSheveleva2 n k => sheveleva2 n k
  | CKoltsov3 n t k d => koltsov3 n t k d | CConsecutiveKCycles n k => consecutive_k_cycles n k
  | CConjugacyClasses n cl sh => conjugacy_classes n cl sh | CRandGenerators n k sh => rand_generators n k sh
  | CDownCycles n => down_cycles n | CPrefixCycles n => prefix_cycles n
  end.

Inductive mcall :=
| CHeisenberg (n modulo : Z) (add_inverses : bool)
| CSlFundRoots (n modulo : Z)
| CSlRootWeyl (n modulo : Z).

Definition run_mcall (c : mcall) : result mdef :=
  match c with
  | CHeisenberg n m b => heisenberg elem_inv n m b
  | CSlFundRoots n m => special_linear_fundamental_roots elem_inv n m
  | CSlRootWeyl n m => special_linear_root_weyl elem_inv n m
  end.

Definition str_list_eqb := list_eqb String.eqb.

Definition pdef_eqb (a b : pdef) : bool :=
  nat_list2_eqb (p_gens a) (p_gens b) && str_list_eqb (p_names a) (p_names b)
  && String.eqb (p_name a) (p_name b) && z_list_eqb (p_central a) (p_central b).

Definition mdef_eqb (a b : mdef) : bool :=
  list_eqb z_list2_eqb (m_mats a) (m_mats b) && (m_modulo a =? m_modulo b)
  && str_list_eqb (m_names a) (m_names b) && String.eqb (m_name a) (m_name b)
  && z_list_eqb (m_central a) (m_central b).

Definition p_closed (d : pdef) : bool := is_some (perm_inverse_map (p_gens d)).
Definition m_closed (d : mdef) : bool :=
  is_some (matrix_inverse_map (m_modulo d) (List.length (hd [] (m_mats d))) (m_mats d)).

(* a harness case: the call, what the implementation returned (definition or exception class), and
   the implementation's generators_inverse_closed (ignored when the call raised) *)
Definition check_pcase (c : pcall * result pdef * bool) : bool :=
  let '(call, obs, flag) := c in
  let r := run_pcall call in
  result_eqb pdef_eqb r obs && match r with Ok d => Bool.eqb (p_closed d) flag | Err _ => true end.

Definition check_mcase (c : mcall * result mdef * bool) : bool :=
  let '(call, obs, flag) := c in
  let r := run_mcall call in
  result_eqb mdef_eqb r obs && match r with Ok d => Bool.eqb (m_closed d) flag | Err _ => true end.

Definition mk_pdef (g : list (list nat)) (nm : list string) (name : string) (c : list Z) : pdef :=
  {| p_gens := g; p_names := nm; p_name := name; p_central := c |}.
Definition mk_mdef (g : list (list (list Z))) (m : Z) (nm : list string) (name : string) (c : list Z) : mdef :=
  {| m_mats := g; m_modulo := m; m_names := nm; m_name := name; m_central := c |}.
