(** PredictorFull.v - property C19 at full strength: the predictor model of Predictor.v, grown.

    REUSED (not modified): [hamming], [predict_hamming], [predict_zero], [predictor_call] (Predictor.v),
    [hamming_counts], [hamming_nonneg], [hamming_zero_iff], [batched_eq] (PredictorProofs.v),
    [tensor_split], [tensor_split_concat] (Tensor.v / TensorProofs.v), [apply_perm], [Perm] (Perm.v / PermProofs.v).

    NEW here:
      B1. [predictor_call_gen]: Predictor.__call__ for ANY state type and ANY score type (fractional scores,
          tuples, ...); [batched_eq_any] for every row-wise scorer, for ANY split into consecutive pieces
          ([split_eq_any]), for torch.tensor_split and for fixed-size chunks; a scorer that is not row-wise
          is batch dependent ([batch_mean_refuted]);
      B2. Hamming as a metric on flattened states: bounds, symmetry, triangle inequality, zero iff equal
          (vector and matrix shapes), invariance under relabelling of positions, and the Lipschitz bound
          |h(c, p.s) - h(c, s)| <= |support p| along a generator p;
      B3. non-vacuity examples. *)
From Coq Require Import ZArith List Bool Arith Lia Sorting.Permutation.
From Coq Require QArith.
From V Require Import Base Tensor TensorProofs Perm PermProofs Predictor PredictorProofs.
Import ListNotations.
Open Scope Z_scope.

(* ========================================================================= *)
(** * B1. Batched scoring, any codomain *)

(** Predictor.__call__ verbatim, polymorphic in the state type S and in the score type A:
    num_batches = ceil(len(states) / batch_size); if > 1: tensor_split, predict each, hstack. *)
Definition predictor_call_gen {S A : Type} (predict : list S -> list A) (batch_size : Z) (states : list S)
  : list A :=
  let nb := Z.to_nat ((Z.of_nat (length states) + batch_size - 1) / batch_size) in
  if (1 <? nb)%nat then concat (map predict (tensor_split nb states)) else predict states.

(** the model of Predictor.v is the instance S = list Z, A = Z *)
Lemma predictor_call_is_gen predict batch_size states :
  predictor_call predict batch_size states = predictor_call_gen predict batch_size states.
Proof. reflexivity. Qed.

(** a scorer is row-wise when scoring a concatenation is concatenating the scores *)
Definition row_wise {S A : Type} (f : list S -> list A) : Prop := forall a b, f (a ++ b) = f a ++ f b.

Lemma row_wise_map {S A} (g : S -> A) : row_wise (map g).
Proof. intros a b. apply map_app. Qed.

Lemma row_wise_flat_map {S A} (g : S -> list A) : row_wise (flat_map g).
Proof. intros a b. apply flat_map_app. Qed.

Lemma row_wise_nil {S A} (f : list S -> list A) : row_wise f -> f [] = [].
Proof.
  intro H. pose proof (H [] []) as E. cbn [app] in E.
  apply (f_equal (@length A)) in E. rewrite app_length in E.
  destruct (f []) as [|x t]; [reflexivity | cbn [length] in E; lia].
Qed.

Lemma row_wise_concat {S A} (f : list S -> list A) : row_wise f ->
  forall parts, f (concat parts) = concat (map f parts).
Proof.
  intros H parts. induction parts as [|p t IH]; cbn [concat map]; [apply row_wise_nil, H|].
  rewrite H, IH. reflexivity.
Qed.

(** row-wise scorers are exactly the per-row ones *)
Theorem row_wise_iff {S A} (f : list S -> list A) :
  row_wise f <-> (forall l, f l = flat_map (fun x => f [x]) l).
Proof.
  split.
  - intros H l. induction l as [|x t IH]; [apply row_wise_nil, H|].
    change (x :: t) with ([x] ++ t) at 1. rewrite H, IH. reflexivity.
  - intros H a b. rewrite (H (a ++ b)), (H a), (H b). apply flat_map_app.
Qed.

(** and with one score per state they are exactly the [map g] *)
Corollary row_wise_is_map {S A} (f : list S -> list A) (d : A) :
  row_wise f -> (forall x, length (f [x]) = 1%nat) -> forall l, f l = map (fun x => hd d (f [x])) l.
Proof.
  intros H H1 l. rewrite (proj1 (row_wise_iff f) H l).
  induction l as [|x t IH]; [reflexivity|]. cbn [flat_map map]. rewrite IH.
  specialize (H1 x). destruct (f [x]) as [|y [|z u]]; cbn [length] in H1; try lia. reflexivity.
Qed.

(** ANY split of the states into consecutive pieces gives the same scores in the same order *)
Theorem split_eq_any {S A} (f : list S -> list A) (parts : list (list S)) (states : list S) :
  row_wise f -> concat parts = states -> concat (map f parts) = f states.
Proof. intros H <-. symmetry. apply row_wise_concat, H. Qed.

(** B1: Predictor.__call__ with any batch size >= 1 *)
Theorem batched_eq_any {S A} (f : list S -> list A) (batch_size : Z) (states : list S) :
  row_wise f -> 1 <= batch_size -> predictor_call_gen f batch_size states = f states.
Proof.
  intros H Hb. unfold predictor_call_gen.
  set (nb := Z.to_nat ((Z.of_nat (length states) + batch_size - 1) / batch_size)).
  destruct (1 <? nb)%nat eqn:E; [|reflexivity].
  apply Nat.ltb_lt in E. apply split_eq_any; [exact H|]. apply tensor_split_concat. lia.
Qed.

(** hence two batch sizes always agree *)
Corollary batch_size_irrelevant {S A} (f : list S -> list A) b1 b2 states :
  row_wise f -> 1 <= b1 -> 1 <= b2 -> predictor_call_gen f b1 states = predictor_call_gen f b2 states.
Proof. intros H H1 H2. rewrite !batched_eq_any by assumption. reflexivity. Qed.

(** the number of batches really is ceil(n / b) and no batch exceeds b: the work IS split *)
Lemma num_batches_ceil (n b : Z) : 0 <= n -> 1 <= b ->
  let nb := (n + b - 1) / b in (nb - 1) * b < n <= nb * b \/ (n = 0 /\ nb = 0).
Proof.
  intros Hn Hb nb. subst nb.
  pose proof (Z.div_mod (n + b - 1) b ltac:(lia)) as E.
  pose proof (Z.mod_pos_bound (n + b - 1) b ltac:(lia)) as M.
  destruct (Z.eq_dec n 0) as [->|N].
  - right. split; [reflexivity|]. apply Z.div_small. lia.
  - left. nia.
Qed.

(** consecutive batches of size EXACTLY b (the last one shorter): the other natural way to split *)
Fixpoint chunks_fuel {S} (fuel b : nat) (l : list S) : list (list S) :=
  match fuel with
  | O => []
  | Datatypes.S fuel' => match l with
               | [] => []
               | _ => firstn b l :: chunks_fuel fuel' b (skipn b l)
               end
  end.
Definition chunks {S} (b : nat) (l : list S) : list (list S) := chunks_fuel (length l) b l.

Lemma chunks_fuel_concat {S} (b : nat) : (1 <= b)%nat -> forall fuel (l : list S),
  (length l <= fuel)%nat -> concat (chunks_fuel fuel b l) = l.
Proof.
  intros Hb fuel. induction fuel as [|f IH]; intros l Hl.
  - destruct l; [reflexivity | cbn [length] in Hl; lia].
  - cbn [chunks_fuel]. destruct l as [|x t]; [reflexivity|].
    cbn [concat]. rewrite IH; [apply firstn_skipn|].
    rewrite skipn_length. cbn [length] in *. lia.
Qed.

Lemma chunks_concat {S} (b : nat) (l : list S) : (1 <= b)%nat -> concat (chunks b l) = l.
Proof. intro Hb. apply chunks_fuel_concat; [exact Hb | lia]. Qed.

Lemma chunks_fuel_sizes {S} (b : nat) : forall fuel (l : list S),
  Forall (fun c => (length c <= b)%nat) (chunks_fuel fuel b l).
Proof.
  intro fuel. induction fuel as [|f IH]; intro l; [constructor|].
  cbn [chunks_fuel]. destruct l as [|x t]; [constructor|].
  constructor; [rewrite firstn_length; lia | apply IH].
Qed.

Theorem batched_chunks_eq_any {S A} (f : list S -> list A) (b : nat) (states : list S) :
  row_wise f -> (1 <= b)%nat ->
  concat (map f (chunks b states)) = f states /\ Forall (fun c => (length c <= b)%nat) (chunks b states).
Proof.
  intros H Hb. split; [apply split_eq_any; [exact H | apply chunks_concat, Hb] | apply chunks_fuel_sizes].
Qed.

(** instances: integer scores (the old theorem), the two built-in heuristics on vector OR matrix states *)
Corollary batched_eq_old (f : list Z -> Z) batch_size states : 1 <= batch_size ->
  predictor_call (map f) batch_size states = map f states.
Proof. intro H. rewrite predictor_call_is_gen. apply batched_eq_any; [apply row_wise_map | exact H]. Qed.

(** ** The converse: a scorer that is NOT row-wise is batch dependent *)
(** subtract the (integer) mean of the batch from each score: a "batch-normalising" model left in training mode *)
Definition batch_mean_scorer (l : list Z) : list Z :=
  let m := fold_right Z.add 0 l / Z.of_nat (length l) in map (fun x => x - m) l.

Example batch_mean_refuted :
  predictor_call_gen batch_mean_scorer 2 [1; 2; 3; 6] = [0; 1; -1; 2] /\
  predictor_call_gen batch_mean_scorer 4 [1; 2; 3; 6] = [-2; -1; 0; 3] /\
  predictor_call_gen batch_mean_scorer 2 [1; 2; 3; 6] <> predictor_call_gen batch_mean_scorer 4 [1; 2; 3; 6] /\
  ~ row_wise batch_mean_scorer.
Proof.
  split; [vm_compute; reflexivity|]. split; [vm_compute; reflexivity|]. split; [vm_compute; discriminate|].
  intro H. specialize (H [1; 2] [3; 6]). vm_compute in H. discriminate H.
Qed.

(** fractional scores and tuples: the codomain is arbitrary *)
Example batched_pairs (states : list (list Z)) (b : Z) : 1 <= b ->
  predictor_call_gen (map (fun s => (hamming [0; 1; 2] s, length s))) b states
  = map (fun s => (hamming [0; 1; 2] s, length s)) states.
Proof. intro H. apply batched_eq_any; [apply row_wise_map | exact H]. Qed.

Example batched_fractional :
  let Qmake := QArith_base.Qmake in
  let score (s : list Z) : QArith_base.Q := Qmake (hamming [0; 1; 2; 3] s) 4%positive in     (* fraction of misplaced positions *)
  let states := [[0; 1; 2; 3]; [1; 0; 2; 3]; [3; 2; 1; 0]; [0; 1; 3; 2]; [1; 2; 3; 0]] in
  predictor_call_gen (map score) 2 states = map score states /\
  predictor_call_gen (map score) 2 states = [Qmake 0 4%positive; Qmake 2 4%positive; Qmake 4 4%positive; Qmake 2 4%positive; Qmake 4 4%positive] /\
  tensor_split 3 states = [[[0; 1; 2; 3]; [1; 0; 2; 3]]; [[3; 2; 1; 0]; [0; 1; 3; 2]]; [[1; 2; 3; 0]]].
Proof. vm_compute. repeat split; reflexivity. Qed.

(* ========================================================================= *)
(** * B2. The Hamming heuristic is a metric on flattened states *)

(** matrix-shaped (n x m) states are flattened row-major: [x.reshape((B, -1))] *)
Definition flatten (M : list (list Z)) : list Z := concat M.
Definition hamming_matrix (C M : list (list Z)) : Z := hamming (flatten C) (flatten M).
Definition shape (n m : nat) (M : list (list Z)) : Prop := length M = n /\ Forall (fun r => length r = m) M.

Lemma hamming_cons a b c s : hamming (a :: c) (b :: s) = (if a =? b then 0 else 1) + hamming c s.
Proof. reflexivity. Qed.
Lemma hamming_nil_l s : hamming [] s = 0.
Proof. reflexivity. Qed.
Lemma hamming_nil_r c : hamming c [] = 0.
Proof. destruct c; reflexivity. Qed.

Theorem hamming_bounds c s : 0 <= hamming c s <= Z.of_nat (length c).
Proof.
  revert s. induction c as [|a c IH]; intro s; [cbn; lia|].
  destruct s as [|b s]; [rewrite hamming_nil_r; lia|].
  rewrite hamming_cons. specialize (IH s). cbn [length]. destruct (a =? b); lia.
Qed.

Theorem hamming_sym c s : hamming c s = hamming s c.
Proof.
  revert s. induction c as [|a c IH]; intro s; [rewrite hamming_nil_r; reflexivity|].
  destruct s as [|b s]; [reflexivity|]. rewrite !hamming_cons, IH, (Z.eqb_sym a b). reflexivity.
Qed.

Corollary hamming_bounds_min c s : 0 <= hamming c s <= Z.of_nat (Nat.min (length c) (length s)).
Proof.
  pose proof (hamming_bounds c s) as H1. pose proof (hamming_bounds s c) as H2.
  rewrite (hamming_sym s c) in H2. lia.
Qed.

Theorem hamming_refl c : hamming c c = 0.
Proof. induction c as [|a c IH]; [reflexivity|]. rewrite hamming_cons, Z.eqb_refl, IH. reflexivity. Qed.

(** triangle inequality; the middle state only has to be at least as long as the shorter end *)
Theorem hamming_triangle_gen a : forall b c,
  (Nat.min (length a) (length c) <= length b)%nat -> hamming a c <= hamming a b + hamming b c.
Proof.
  induction a as [|x a IH]; intros b c H; [pose proof (hamming_bounds b c); cbn; lia|].
  destruct c as [|z c]; [rewrite !hamming_nil_r; pose proof (hamming_bounds (x :: a) b); lia|].
  destruct b as [|y b]; [cbn [length] in H; lia|].
  rewrite !hamming_cons. cbn [length] in H. specialize (IH b c ltac:(lia)).
  destruct (Z.eqb_spec x z), (Z.eqb_spec x y), (Z.eqb_spec y z); try lia; congruence.
Qed.

Theorem hamming_triangle a b c : length a = length b -> length b = length c ->
  hamming a c <= hamming a b + hamming b c.
Proof. intros H1 H2. apply hamming_triangle_gen. lia. Qed.

(** together with [hamming_zero_iff] (PredictorProofs) this makes [hamming] a metric on states of length n *)
Theorem hamming_metric (n : nat) :
  (forall a b, length a = n -> length b = n -> 0 <= hamming a b <= Z.of_nat n) /\
  (forall a b, length a = n -> length b = n -> (hamming a b = 0 <-> a = b)) /\
  (forall a b, hamming a b = hamming b a) /\
  (forall a b c, length a = n -> length b = n -> length c = n -> hamming a c <= hamming a b + hamming b c).
Proof.
  split; [|split; [|split]].
  - intros a b Ha Hb. rewrite <- Ha. apply hamming_bounds.
  - intros a b Ha Hb. rewrite (hamming_zero_iff a b) by congruence. split; congruence.
  - apply hamming_sym.
  - intros a b c Ha Hb Hc. apply hamming_triangle; congruence.
Qed.

(** ** matrix shapes *)
Lemma flatten_length n m M : shape n m M -> length (flatten M) = (n * m)%nat.
Proof.
  intros [Hn Hm]. subst n. unfold flatten. induction M as [|r M IH]; [reflexivity|].
  inversion Hm as [|x l Hr Hm']. subst x l. cbn [concat length]. rewrite app_length, IH by exact Hm'. lia.
Qed.

Lemma app_inj_length {T} (a : list T) : forall a' b b',
  length a = length a' -> a ++ b = a' ++ b' -> a = a' /\ b = b'.
Proof.
  induction a as [|x a IH]; intros [|x' a'] b b' Hl E; cbn [length] in Hl; try lia.
  - split; [reflexivity | exact E].
  - cbn [app] in E. inversion E as [[Ex E']]. destruct (IH a' b b' ltac:(lia) E') as [-> ->].
    split; reflexivity.
Qed.

Lemma flatten_inj n m A B : shape n m A -> shape n m B -> flatten A = flatten B -> A = B.
Proof.
  intros [Ha Fa] [Hb Fb]. subst n. revert B Hb Fb. unfold flatten.
  induction A as [|r A IH]; intros B Hb Fb E.
  - destruct B; [reflexivity | discriminate Hb].
  - destruct B as [|r' B]; [discriminate Hb|].
    inversion Fa as [|x l Hr Fa']. subst x l. inversion Fb as [|x l Hr' Fb']. subst x l.
    cbn [concat] in E. cbn [length] in Hb.
    destruct (app_inj_length r r' (concat A) (concat B) ltac:(congruence) E) as [-> E'].
    f_equal. apply IH; [exact Fa' | lia | exact Fb' | exact E'].
Qed.

(** the score of a matrix-shaped state is the number of differing ENTRIES, between 0 and n*m,
    and 0 exactly for the central state *)
Theorem hamming_matrix_bounds n m C M : shape n m C ->
  0 <= hamming_matrix C M <= Z.of_nat (n * m).
Proof. intro H. unfold hamming_matrix. rewrite <- (flatten_length n m C H). apply hamming_bounds. Qed.

Theorem hamming_matrix_zero_iff n m C M : shape n m C -> shape n m M ->
  (hamming_matrix C M = 0 <-> M = C).
Proof.
  intros HC HM. unfold hamming_matrix.
  rewrite hamming_zero_iff by (rewrite (flatten_length n m C HC), (flatten_length n m M HM); reflexivity).
  split; [apply (flatten_inj n m); assumption | intros ->; reflexivity].
Qed.

Theorem hamming_matrix_counts C M :
  hamming_matrix C M = Z.of_nat (mismatches (flatten C) (flatten M)).
Proof. apply hamming_counts. Qed.

Theorem hamming_matrix_metric n m A B C : shape n m A -> shape n m B -> shape n m C ->
  hamming_matrix A B = hamming_matrix B A /\ hamming_matrix A C <= hamming_matrix A B + hamming_matrix B C.
Proof.
  intros HA HB HC. unfold hamming_matrix. split; [apply hamming_sym|].
  apply hamming_triangle; rewrite !(flatten_length n m) by assumption; reflexivity.
Qed.

(** ** relabelling the positions *)
Lemma combine_apply_perm (d : Z) p c s : length c = length s ->
  combine (apply_perm d p c) (apply_perm d p s) = apply_perm (d, d) p (combine c s).
Proof.
  intro Hl. unfold apply_perm. induction p as [|i p IH]; [reflexivity|].
  cbn [map combine]. rewrite IH. f_equal. symmetry. apply combine_nth, Hl.
Qed.

Lemma apply_perm_Permutation {T} (d : T) p x : Perm p -> length x = length p ->
  Permutation (apply_perm d p x) x.
Proof.
  intros Hp Hl. rewrite <- (apply_identity d x) at 2. unfold apply_perm, identity_perm.
  rewrite Hl. apply Permutation_map, Hp.
Qed.

Lemma filter_length_perm {T} (f : T -> bool) l l' :
  Permutation l l' -> length (filter f l) = length (filter f l').
Proof.
  intro P. induction P as [|x l l' P IH|x y l|l l' l'' P1 IH1 P2 IH2]; cbn [filter].
  - reflexivity.
  - destruct (f x); cbn [length]; lia.
  - destruct (f x), (f y); reflexivity.
  - lia.
Qed.

(** the heuristic does not depend on how the positions are numbered: permuting the positions of the
    central state and of the state in the same way leaves the score unchanged *)
Theorem hamming_perm_invariant (d : Z) p c s :
  Perm p -> length c = length p -> length s = length p ->
  hamming (apply_perm d p c) (apply_perm d p s) = hamming c s.
Proof.
  intros Hp Hc Hs. rewrite !hamming_counts. f_equal. unfold mismatches.
  rewrite combine_apply_perm by congruence.
  apply filter_length_perm, apply_perm_Permutation; [exact Hp|].
  rewrite combine_length. lia.
Qed.

(** ** along an edge: a generator that moves at most k positions changes the score by at most k *)
(** positions i with p[i] <> i, counted from offset a *)
Fixpoint moved_from (a : nat) (p : list nat) : nat :=
  match p with
  | [] => 0
  | j :: t => (if (j =? a)%nat then 0 else 1) + moved_from (S a) t
  end.
Definition support_size (p : list nat) : nat := moved_from 0 p.

(** meaning: the number of indices that p does not fix *)
Lemma moved_from_spec p : forall a,
  moved_from a p = length (filter (fun i => negb (nth (i - a) p 0 =? i)%nat) (seq a (length p))).
Proof.
  induction p as [|j t IH]; intro a; [reflexivity|].
  cbn [moved_from length]. rewrite IH.
  change (seq a (S (length t))) with (a :: seq (S a) (length t)).
  set (F := fun i => negb (nth (i - a) (j :: t) 0 =? i)%nat).
  set (G := fun i => negb (nth (i - S a) t 0 =? i)%nat).
  assert (E : filter F (seq (S a) (length t)) = filter G (seq (S a) (length t))).
  { apply filter_ext_in. intros i Hi. apply in_seq in Hi. unfold F, G.
    replace (i - a)%nat with (S (i - S a)) by lia. reflexivity. }
  assert (Fa : F a = negb (j =? a)%nat) by (unfold F; rewrite Nat.sub_diag; reflexivity).
  cbn [filter]. rewrite Fa, E. destruct (j =? a)%nat; cbn [negb length]; lia.
Qed.

Theorem support_size_spec p :
  support_size p = length (filter (fun i => negb (nth i p 0 =? i)%nat) (seq 0 (length p))).
Proof.
  unfold support_size. rewrite moved_from_spec. f_equal. apply filter_ext. intro i.
  rewrite Nat.sub_0_r. reflexivity.
Qed.

Lemma skipn_cons_nth {T} (d : T) (l : list T) a : (a < length l)%nat ->
  skipn a l = nth a l d :: skipn (S a) l.
Proof.
  revert a. induction l as [|x l IH]; intros a H; cbn [length] in H; [lia|].
  destruct a as [|a]; [reflexivity|]. cbn [skipn nth]. rewrite (IH a) by lia. reflexivity.
Qed.

Lemma hamming_moved (d : Z) s p : forall a,
  hamming (skipn a s) (map (fun j => nth j s d) p) <= Z.of_nat (moved_from a p).
Proof.
  induction p as [|j t IH]; intro a; [rewrite hamming_nil_r; cbn; lia|].
  destruct (Nat.lt_ge_cases a (length s)) as [L|L].
  - rewrite (skipn_cons_nth d s a L). cbn [map moved_from]. rewrite hamming_cons.
    specialize (IH (S a)). destruct (Nat.eqb_spec j a) as [->|N].
    + rewrite Z.eqb_refl. lia.
    + destruct (nth a s d =? nth j s d); lia.
  - rewrite skipn_all2 by lia. cbn. lia.
Qed.

(** a state and its image differ only where the generator moves something *)
Theorem hamming_step_bound (d : Z) p s :
  hamming s (apply_perm d p s) <= Z.of_nat (support_size p).
Proof. unfold apply_perm, support_size. apply (hamming_moved d s p 0%nat). Qed.

(** B2, Lipschitz: for ANY index list p (in particular a generator) of the state's length, moving from s to its
    neighbour p.s = [s[p[i]]] changes the Hamming score w.r.t. ANY reference c by at most |support p| *)
Theorem hamming_neighbor_lipschitz (d : Z) p c s :
  length c = length p -> length s = length p ->
  Z.abs (hamming c (apply_perm d p s) - hamming c s) <= Z.of_nat (support_size p).
Proof.
  intros Hc Hs.
  pose proof (hamming_step_bound d p s) as Hb.
  assert (Hl : length (apply_perm d p s) = length p) by apply apply_perm_length.
  pose proof (hamming_triangle c s (apply_perm d p s) ltac:(congruence) ltac:(congruence)) as T1.
  pose proof (hamming_triangle c (apply_perm d p s) s ltac:(congruence) ltac:(congruence)) as T2.
  rewrite (hamming_sym (apply_perm d p s) s) in T2. lia.
Qed.

(** e.g. a transposition changes the score by at most 2, a 3-cycle by at most 3 *)
Corollary hamming_neighbor_k (d : Z) p c s (k : nat) :
  length c = length p -> length s = length p -> (support_size p <= k)%nat ->
  hamming c s - Z.of_nat k <= hamming c (apply_perm d p s) <= hamming c s + Z.of_nat k.
Proof.
  intros Hc Hs Hk. pose proof (hamming_neighbor_lipschitz d p c s Hc Hs) as H. lia.
Qed.

(** the same for matrix-shaped states: the generator acts on the flattened positions *)
Corollary hamming_matrix_neighbor_lipschitz (d : Z) p n m C M :
  shape n m C -> shape n m M -> length p = (n * m)%nat ->
  Z.abs (hamming (flatten C) (apply_perm d p (flatten M)) - hamming_matrix C M) <= Z.of_nat (support_size p).
Proof.
  intros HC HM Hp. unfold hamming_matrix. apply hamming_neighbor_lipschitz;
    rewrite (flatten_length n m) by assumption; symmetry; exact Hp.
Qed.

(** the bound is attained: it cannot be improved *)
Example lipschitz_tight :
  let c := [0; 1; 2; 3] in let p := [1; 0; 2; 3]%nat in
  support_size p = 2%nat /\ hamming c (apply_perm 0 p c) - hamming c c = 2.
Proof. vm_compute. split; reflexivity. Qed.

(* ========================================================================= *)
(** * The predictors *)

(** "hamming" on any state shape: flatten each state, compare with the flat central state *)
Definition predict_hamming_matrix (central : list Z) (states : list (list (list Z))) : list Z :=
  map (fun M => hamming central (flatten M)) states.

Theorem predict_hamming_spec central states :
  predict_hamming central states = map (fun s => Z.of_nat (mismatches central s)) states.
Proof. unfold predict_hamming. apply map_ext. intro s. apply hamming_counts. Qed.

Theorem predict_hamming_matrix_spec central states :
  predict_hamming_matrix central states = map (fun M => Z.of_nat (mismatches central (flatten M))) states.
Proof. unfold predict_hamming_matrix. apply map_ext. intro s. apply hamming_counts. Qed.

(** scoring a set of (vector or matrix) states: same values, same order, for every batch size *)
Theorem hamming_batched_any central b states : 1 <= b ->
  predictor_call_gen (predict_hamming central) b states = map (hamming central) states.
Proof. intro H. unfold predict_hamming. apply batched_eq_any; [apply row_wise_map | exact H]. Qed.

Theorem hamming_matrix_batched_any central b states : 1 <= b ->
  predictor_call_gen (predict_hamming_matrix central) b states
  = map (fun M => hamming central (flatten M)) states.
Proof. intro H. unfold predict_hamming_matrix. apply batched_eq_any; [apply row_wise_map | exact H]. Qed.

(** "zero": one 0 per state, whatever the state type and the batch size *)
Definition predict_zero_gen {S} (states : list S) : list Z := map (fun _ => 0) states.

Theorem zero_batched_any {S} b (states : list S) : 1 <= b ->
  predictor_call_gen predict_zero_gen b states = repeat 0 (length states).
Proof.
  intro H. rewrite batched_eq_any; [|apply row_wise_map | exact H].
  unfold predict_zero_gen. induction states as [|x t IH]; [reflexivity|]. cbn [map length repeat]. rewrite IH. reflexivity.
Qed.

(** the score of the central state itself is 0, and only of it *)
Corollary hamming_central_only central s : length s = length central ->
  (hamming central s = 0 <-> s = central).
Proof. apply hamming_zero_iff. Qed.

(* ========================================================================= *)
(** * B3. Non-vacuity: concrete instances of every hypothesis *)

Example ex_perm : Perm [2; 0; 1]%nat.
Proof. apply is_perm_iff. reflexivity. Qed.

Example ex_perm_invariant :
  hamming (apply_perm 0 [2; 0; 1]%nat [10; 20; 30]) (apply_perm 0 [2; 0; 1]%nat [10; 21; 31]) = hamming [10; 20; 30] [10; 21; 31]
  /\ hamming [10; 20; 30] [10; 21; 31] = 2 /\ apply_perm 0 [2; 0; 1]%nat [10; 20; 30] = [30; 10; 20].
Proof.
  split; [apply hamming_perm_invariant; [exact ex_perm | reflexivity | reflexivity]|].
  split; reflexivity.
Qed.

(** relabelling only ONE side does change the score: the hypothesis "same p on both" matters *)
Example ex_perm_one_side_refuted :
  hamming (apply_perm 0 [2; 0; 1]%nat [10; 20; 30]) [10; 20; 30] <> hamming [10; 20; 30] [10; 20; 30].
Proof. vm_compute. discriminate. Qed.

Example ex_triangle :
  let a := [0; 1; 2; 3] in let b := [1; 0; 2; 3] in let c := [1; 0; 3; 2] in
  length a = length b /\ length b = length c /\
  hamming a c = 4 /\ hamming a b = 2 /\ hamming b c = 2 /\          (* equality case *)
  hamming a a = 0 /\ hamming a b + hamming b a = 4.                  (* strict case: 0 < 4 *)
Proof. vm_compute. repeat split; reflexivity. Qed.

(** different lengths: the unrestricted triangle inequality would FAIL, the length hypothesis is needed *)
Example ex_triangle_refuted :
  let a := [0; 1] in let b := @nil Z in let c := [1; 0] in
  ~ (hamming a c <= hamming a b + hamming b c).
Proof. vm_compute. intro H. apply H. reflexivity. Qed.

Example ex_matrix :
  let C := [[1; 0]; [0; 1]] in let M := [[1; 1]; [0; 1]] in
  shape 2 2 C /\ shape 2 2 M /\ hamming_matrix C M = 1 /\ hamming_matrix C C = 0 /\ flatten M = [1; 1; 0; 1].
Proof. repeat split; try reflexivity; repeat constructor. Qed.

(** without equal shapes a non-central state can get score 0 (flattening forgets the shape): hypothesis needed *)
Example ex_matrix_shape_refuted :
  hamming_matrix [[1; 0]; [0; 1]] [[1; 0; 0; 1]] = 0 /\ [[1; 0; 0; 1]] <> [[1; 0]; [0; 1]].
Proof. split; [reflexivity | discriminate]. Qed.

Example ex_lipschitz_3cycle :
  let c := [0; 1; 2; 3; 4] in let s := [1; 2; 0; 3; 4] in let p := [1; 2; 0; 3; 4]%nat in
  length c = length p /\ length s = length p /\ support_size p = 3%nat /\
  hamming c s = 3 /\ hamming c (apply_perm 0 p s) = 3 /\ apply_perm 0 p s = [2; 0; 1; 3; 4].
Proof. vm_compute. repeat split; reflexivity. Qed.

(** 7 states, batch size 3: Predictor.__call__ makes ceil(7/3) = 3 nearly equal batches (3,2,2), fixed-size
    chunking makes (3,3,1); every row-wise scorer gives the same 7 values in the same order either way *)
Example ex_splits :
  let states := [[0]; [1]; [2]; [3]; [4]; [5]; [6]] in
  map (@length _) (tensor_split 3 states) = [3; 2; 2]%nat /\
  map (@length _) (chunks 3 states) = [3; 3; 1]%nat /\
  predictor_call_gen (predict_hamming [3]) 3 states = [1; 1; 1; 0; 1; 1; 1] /\
  concat (map (predict_hamming [3]) (chunks 3 states)) = [1; 1; 1; 0; 1; 1; 1] /\
  predictor_call_gen (predict_hamming [3]) 1 states = predictor_call_gen (predict_hamming [3]) 100 states.
Proof. vm_compute. repeat split; reflexivity. Qed.

Example ex_num_batches : (7 + 3 - 1) / 3 = 3 /\ (3 - 1) * 3 < 7 <= 3 * 3.
Proof. vm_compute. repeat split; intro; discriminate. Qed.

Example ex_zero : predictor_call_gen predict_zero_gen 2 [[0; 1]; [1; 0]; [1; 1]] = [0; 0; 0].
Proof. reflexivity. Qed.

Example ex_hamming_matrix_states :
  predictor_call_gen (predict_hamming_matrix [1; 0; 0; 1]) 1 [[[1; 0]; [0; 1]]; [[0; 1]; [1; 0]]; [[1; 1]; [0; 1]]]
  = [0; 4; 1].
Proof. reflexivity. Qed.

(* ========================================================================= *)
Print Assumptions row_wise_iff.
Print Assumptions row_wise_is_map.
Print Assumptions split_eq_any.
Print Assumptions batched_eq_any.
Print Assumptions batch_size_irrelevant.
Print Assumptions num_batches_ceil.
Print Assumptions batched_chunks_eq_any.
Print Assumptions batch_mean_refuted.
Print Assumptions hamming_bounds.
Print Assumptions hamming_bounds_min.
Print Assumptions hamming_sym.
Print Assumptions hamming_refl.
Print Assumptions hamming_triangle_gen.
Print Assumptions hamming_triangle.
Print Assumptions hamming_metric.
Print Assumptions hamming_matrix_bounds.
Print Assumptions hamming_matrix_zero_iff.
Print Assumptions hamming_matrix_metric.
Print Assumptions hamming_perm_invariant.
Print Assumptions support_size_spec.
Print Assumptions hamming_step_bound.
Print Assumptions hamming_neighbor_lipschitz.
Print Assumptions hamming_neighbor_k.
Print Assumptions hamming_matrix_neighbor_lipschitz.
Print Assumptions hamming_batched_any.
Print Assumptions hamming_matrix_batched_any.
Print Assumptions zero_batched_any.
