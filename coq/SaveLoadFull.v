(** SaveLoadFull.v - property C18 at full strength: the save / load / __eq__ model of SaveLoad.v, grown.

    REUSED (not modified): SaveLoad.v already models the HDF5 file as an association list from STRING keys
    to values ([store], [store_get]) with exactly the key scheme of [BfsResult.save] / [BfsResult.load]
    ("bfs_completed", "layer_sizes", "layer__<k>", "edges_list_hashes__<i>", "edges_list_hashes" (an empty
    edge list is the scalar [HEmptyScalar]), "graph__generators", "graph__generator_names",
    "graph__central_state", "graph__name"); [load] looks hashes up BY INDEX until a key is missing
    ([load_hashes]) and finds the layers by scanning every key that starts with "layer__" and parsing
    [int(k.strip("layer__"))].  SaveLoadProofs.v has [strip_parse_key], [load_save], [result_eq_refl],
    [result_eq_sound].  Everything below builds on these definitions and lemmas.

    NEW here:
      1. decimal keys: an independent Horner parser [py_int] equal to [parse_nat] on every string, the
         rendering is digits-only / canonical, [layer_key_parse] for all naturals;
      2. the file as an unordered map: [store_get] / [load] are invariant under ANY permutation of a store
         with distinct keys, the keys [save] writes are distinct, [h5_sort] = the alphabetical iteration
         order of h5py ("layer__10" < "layer__2"), [load_key_order_independent];
      3. [load_save_full] (every field), [save_injective];
      4. [result_eq]: exact characterisation [result_eq_iff], equivalence relation on well-formed results,
         one-sided edge list / hashes / stored layer;
      5. generator names as byte strings in HDF5 variable-length (NUL-terminated) storage. *)
From Coq Require Import ZArith List Bool Arith Lia String Ascii Decimal DecimalString DecimalNat.
From Coq Require Import Sorting.Permutation Sorting.Sorted.
From V Require Import Base SaveLoad SaveLoadProofs.
Import ListNotations.
Open Scope string_scope.
Open Scope list_scope.

(* ========================================================================= *)
(** * 1. Decimal keys *)

(** An independent reading of Python's [int(s)] on the strings that occur (ASCII digits only):
    left-to-right Horner evaluation; the empty string and any non-digit are rejected. *)
Definition digit_val (c : ascii) : option nat :=
  let n := nat_of_ascii c in
  if (48 <=? n)%nat && (n <=? 57)%nat then Some (n - 48)%nat else None.

Fixpoint horner (s : string) (acc : nat) : option nat :=
  match s with
  | EmptyString => Some acc
  | String c t => match digit_val c with
                  | Some d => horner t (10 * acc + d)%nat
                  | None => None
                  end
  end.

Definition py_int (s : string) : option nat :=
  match s with EmptyString => None | _ => horner s 0 end.

Definition push_digit (k : nat) (d : uint) : uint :=
  match k with
  | 0 => D0 d | 1 => D1 d | 2 => D2 d | 3 => D3 d | 4 => D4 d
  | 5 => D5 d | 6 => D6 d | 7 => D7 d | 8 => D8 d | 9 => D9 d
  | _ => d
  end%nat.

Lemma uint_of_char_digit c d :
  uint_of_char c (Some d) = match digit_val c with Some k => Some (push_digit k d) | None => None end.
Proof. destruct c as [[] [] [] [] [] [] [] []]; reflexivity. Qed.

Lemma uint_of_char_none c : uint_of_char c None = None.
Proof. reflexivity. Qed.

Lemma digit_val_le c k : digit_val c = Some k -> (k <= 9)%nat.
Proof.
  unfold digit_val. intro H.
  destruct ((48 <=? nat_of_ascii c)%nat && (nat_of_ascii c <=? 57)%nat) eqn:E; [|discriminate].
  apply andb_true_iff in E. destruct E as [E1 E2].
  apply Nat.leb_le in E1. apply Nat.leb_le in E2. inversion H. lia.
Qed.

Lemma of_uint_acc_push k d acc : (k <= 9)%nat ->
  Nat.of_uint_acc (push_digit k d) acc = Nat.of_uint_acc d (10 * acc + k)%nat.
Proof.
  intro Hk.
  do 10 (destruct k as [|k]; [cbn [push_digit Nat.of_uint_acc]; rewrite Nat.tail_mul_spec; f_equal; lia|]).
  lia.
Qed.

Lemma horner_uint s : forall acc,
  horner s acc = match NilEmpty.uint_of_string s with
                 | Some d => Some (Nat.of_uint_acc d acc)
                 | None => None
                 end.
Proof.
  induction s as [|c t IH]; intro acc; [reflexivity|].
  cbn [horner NilEmpty.uint_of_string].
  destruct (NilEmpty.uint_of_string t) as [d|] eqn:Et.
  - rewrite uint_of_char_digit.
    destruct (digit_val c) as [k|] eqn:Ek; [|reflexivity].
    rewrite IH, of_uint_acc_push by (eapply digit_val_le; exact Ek). reflexivity.
  - rewrite uint_of_char_none. destruct (digit_val c); [apply IH | reflexivity].
Qed.

(** the library model's [parse_nat] IS this Horner parser, on every string *)
Theorem parse_nat_is_py_int s : parse_nat s = py_int s.
Proof.
  unfold parse_nat, py_int, NilZero.uint_of_string.
  destruct s as [|c t]; [reflexivity|].
  rewrite horner_uint. unfold Nat.of_uint.
  destruct (NilEmpty.uint_of_string (String c t)); reflexivity.
Qed.

(** every character of a rendered natural is an ASCII digit *)
Fixpoint all_digits (s : string) : Prop :=
  match s with
  | EmptyString => True
  | String c t => (exists k, digit_val c = Some k) /\ all_digits t
  end.

Lemma all_digits_empty_uint d : all_digits (NilEmpty.string_of_uint d).
Proof. induction d; simpl; auto; (split; [eexists; reflexivity | assumption]). Qed.

Lemma all_digits_nat_to_string k : all_digits (nat_to_string k).
Proof.
  unfold nat_to_string, NilZero.string_of_uint.
  destruct (Nat.to_uint k); try apply (all_digits_empty_uint _).
  simpl. split; [eexists; reflexivity | exact I].
Qed.

(** [str(k)] then [int(..)] is the identity for EVERY natural, for the independent Horner reading too *)
Theorem py_int_nat_to_string k : py_int (nat_to_string k) = Some k.
Proof. rewrite <- parse_nat_is_py_int. apply parse_nat_to_string. Qed.

(** A2(iii): the number parsed from "layer__<k>" is k, for every k (any number of digits). *)
Theorem layer_key_parse k :
  starts_with "layer__" ("layer__" ++ nat_to_string k) = true /\
  parse_nat (strip ("layer__" ++ nat_to_string k)) = Some k /\
  py_int (strip ("layer__" ++ nat_to_string k)) = Some k /\
  strip ("layer__" ++ nat_to_string k) = nat_to_string k.
Proof.
  split; [apply starts_with_layer|].
  rewrite strip_layer_prefix by apply all_ns_nat_to_string.
  split; [apply parse_nat_to_string|]. split; [apply py_int_nat_to_string | reflexivity].
Qed.

(** the rendering is canonical: the only digit string without a leading zero that parses to k *)
Definition no_leading_zero (s : string) : Prop :=
  s = "0" \/ match s with String c _ => c <> "0"%char | EmptyString => False end.

Lemma unorm_no_lead d :
  no_leading_zero (NilZero.string_of_uint d) -> d <> Nil -> unorm d = d.
Proof.
  intros H Hn. destruct d; try reflexivity; try congruence.
  destruct H as [H|H].
  - simpl in H. destruct d; simpl in H; try discriminate H. reflexivity.
  - simpl in H. congruence.
Qed.

Theorem nat_to_string_canonical s k :
  parse_nat s = Some k -> no_leading_zero s -> s = nat_to_string k.
Proof.
  unfold parse_nat. intros H Hz.
  destruct (NilZero.uint_of_string s) as [d|] eqn:E; [|discriminate].
  inversion H as [Hk]. pose proof (NilZero.sus s d E) as Hs. subst s.
  unfold nat_to_string. rewrite Unsigned.to_of.
  rewrite unorm_no_lead; [reflexivity | exact Hz |].
  intro Hd. subst d. simpl in E. discriminate E.
Qed.

Lemma nat_to_string_no_leading_zero k : no_leading_zero (nat_to_string k).
Proof.
  unfold nat_to_string.
  pose proof (Unsigned.to_of (Nat.to_uint k)) as H. rewrite Unsigned.of_to in H.
  pose proof (to_uint_nonnil k) as Hn.
  destruct (Nat.to_uint k) as [|d|d|d|d|d|d|d|d|d|d]; try congruence;
    try (right; simpl; intro Hc; discriminate Hc).
  left.
  assert (Hd : nzhead (D0 d) = Nil).
  { destruct (nzhead (D0 d)) eqn:E; try reflexivity; exfalso;
      (assert (Hne : nzhead (D0 d) <> Nil) by (rewrite E; discriminate));
      pose proof (DecimalFacts.unorm_nzhead (D0 d) Hne) as Hu; rewrite <- H in Hu;
      symmetry in Hu; exact (DecimalFacts.nzhead_nonzero _ _ Hu). }
  apply DecimalFacts.unorm_0 in Hd. rewrite <- H in Hd. inversion Hd. reflexivity.
Qed.

(** so: a string is the key suffix of layer k iff it is the canonical decimal numeral of k *)
Corollary nat_to_string_iff s k :
  s = nat_to_string k <-> (parse_nat s = Some k /\ no_leading_zero s).
Proof.
  split.
  - intros ->. split; [apply parse_nat_to_string | apply nat_to_string_no_leading_zero].
  - intros [H1 H2]. apply nat_to_string_canonical; assumption.
Qed.

Example layer_key_parse_10 : parse_nat (strip "layer__10") = Some 10%nat /\ nat_to_string 10 = "10".
Proof. split; reflexivity. Qed.
Example layer_key_parse_1234 : py_int (strip ("layer__" ++ nat_to_string 1234)) = Some 1234%nat.
Proof. apply layer_key_parse. Qed.
Example py_int_rejects : py_int "" = None /\ py_int "1a" = None /\ py_int "007" = Some 7%nat.
Proof. repeat split; reflexivity. Qed.

(* ========================================================================= *)
(** * 2. The file is an unordered map: key order does not matter *)

Definition keys (s : store) : list string := map fst s.

Lemma store_get_In k v s : store_get k s = Some v -> In (k, v) s.
Proof.
  induction s as [|[k' v'] s IH]; simpl; [discriminate|].
  destruct (String.eqb_spec k k') as [->|N]; intro H.
  - inversion H. left. reflexivity.
  - right. apply IH, H.
Qed.

Lemma store_get_None k s : store_get k s = None <-> ~ In k (keys s).
Proof.
  induction s as [|[k' v'] s IH]; simpl; [tauto|].
  destruct (String.eqb_spec k k') as [->|N].
  - split; [discriminate | intro H; exfalso; apply H; left; reflexivity].
  - rewrite IH. split; [intros H [E|E]; [congruence | tauto] | tauto].
Qed.

Lemma In_store_get k v s : NoDup (keys s) -> In (k, v) s -> store_get k s = Some v.
Proof.
  induction s as [|[k' v'] s IH]; simpl; intros ND Hin; [contradiction|].
  inversion ND as [|x l Hx ND']. subst x l.
  destruct Hin as [E|Hin].
  - inversion E. subst. rewrite String.eqb_refl. reflexivity.
  - destruct (String.eqb_spec k k') as [->|N]; [|apply IH; assumption].
    exfalso. apply Hx. change (In (fst (k', v)) (map fst s)). apply in_map, Hin.
Qed.

(** with distinct keys (an HDF5 group cannot hold two datasets of the same name) a lookup does not
    depend on the order in which the entries are listed *)
Theorem store_get_perm s s' k :
  NoDup (keys s) -> Permutation s s' -> store_get k s' = store_get k s.
Proof.
  intros ND P.
  assert (ND' : NoDup (keys s')).
  { eapply Permutation_NoDup; [apply Permutation_map, P | exact ND]. }
  destruct (store_get k s) as [v|] eqn:E.
  - apply In_store_get; [exact ND'|]. eapply Permutation_in; [exact P|]. apply store_get_In, E.
  - apply store_get_None. intro Hin. apply (proj1 (store_get_None k s) E).
    eapply Permutation_in; [apply Permutation_sym, Permutation_map, P | exact Hin].
Qed.

Lemma load_hashes_ext s s' : (forall k, store_get k s' = store_get k s) ->
  forall fuel i, load_hashes s' i fuel = load_hashes s i fuel.
Proof.
  intros H fuel. induction fuel as [|f IH]; intro i; [reflexivity|].
  cbn [load_hashes]. rewrite H.
  destruct (store_get ("edges_list_hashes__" ++ nat_to_string i) s) as [[]|]; try reflexivity.
  rewrite IH. reflexivity.
Qed.

Definition with_layers (r : bfs_result) (ls : list (nat * list (list Z))) : bfs_result :=
  {| r_completed := r_completed r; r_sizes := r_sizes r; r_layers := ls; r_hashes := r_hashes r;
     r_edges := r_edges r; r_gens := r_gens r; r_gen_names := r_gen_names r; r_central := r_central r;
     r_name := r_name r |}.

(** [load] = (everything found by key lookup) + (layers found by scanning the key list) *)
Lemma load_ext s s' : (forall k, store_get k s' = store_get k s) ->
  load s' = match load s with
            | Ok r => Ok (with_layers r (flat_map layer_pick s'))
            | Err e => Err e
            end.
Proof.
  intro H. unfold load. rewrite !H. fold layer_pick.
  destruct (store_get "layer_sizes" s) as [[]|]; try reflexivity.
  destruct (store_get "edges_list_hashes" s) as [ev|]; try reflexivity.
  destruct (store_get "bfs_completed" s) as [[]|]; try reflexivity.
  destruct (store_get "graph__generators" s) as [[]|]; try reflexivity.
  destruct (store_get "graph__generator_names" s) as [[]|]; try reflexivity.
  destruct (store_get "graph__central_state" s) as [[]|]; try reflexivity.
  destruct (store_get "graph__name" s) as [[]|]; try reflexivity.
  rewrite (load_hashes_ext s s' H). reflexivity.
Qed.

Lemma load_layers s r : load s = Ok r -> r_layers r = flat_map layer_pick s.
Proof.
  intro H. pose proof (load_ext s s (fun k => eq_refl)) as E. rewrite H in E.
  inversion E as [E']. reflexivity.
Qed.

(** two results that agree on everything, the stored layers being the same dict listed in another order *)
Definition same_upto_layer_order (a b : bfs_result) : Prop :=
  r_completed a = r_completed b /\ r_sizes a = r_sizes b /\ r_hashes a = r_hashes b /\
  r_edges a = r_edges b /\ r_gens a = r_gens b /\ r_gen_names a = r_gen_names b /\
  r_central a = r_central b /\ r_name a = r_name b /\
  Permutation (r_layers a) (r_layers b).

(** GENERAL order independence, for any file (not only one written by [save]): permuting the entries
    never changes success / the error, nor any field; the layer dict is the same set of (id, states). *)
Theorem load_perm s s' :
  NoDup (keys s) -> Permutation s s' ->
  match load s, load s' with
  | Ok r, Ok r' => same_upto_layer_order r r'
  | Err e, Err e' => e = e'
  | _, _ => False
  end.
Proof.
  intros ND P.
  rewrite (load_ext s s' (fun k => store_get_perm s s' k ND P)).
  destruct (load s) as [r|e] eqn:E; [|reflexivity].
  unfold same_upto_layer_order, with_layers; cbn.
  repeat (split; [reflexivity|]).
  rewrite (load_layers s r E). apply Permutation_flat_map, P.
Qed.

(* ------------------------------------------------------------------------- *)
(** ** The keys written by [save] are pairwise distinct *)

(** Well-formed result: [layers] is a Python dict (distinct layer ids) and hashes are stored for a prefix of
    the layers ([len(layers_hashes) <= len(layer_sizes)]: all of them, or none).  Both hold for every
    BfsResult the library builds. *)
Definition wf_result (r : bfs_result) : Prop :=
  NoDup (map fst (r_layers r)) /\ (List.length (r_hashes r) <= List.length (r_sizes r))%nat.

Definition lkey (k : nat) : string := "layer__" ++ nat_to_string k.
Definition hkeyn (i : nat) : string := "edges_list_hashes__" ++ nat_to_string i.
Definition head_keys : list string := ["bfs_completed"; "layer_sizes"].
Definition tail_keys : list string :=
  ["edges_list_hashes"; "graph__generators"; "graph__generator_names"; "graph__central_state"; "graph__name"].

Lemma map_fst_combine_seq {A} (l : list A) : forall a, map fst (combine (seq a (List.length l)) l) = seq a (List.length l).
Proof. induction l as [|x l IH]; intro a; [reflexivity|]. cbn [List.length seq combine map fst]. rewrite IH. reflexivity. Qed.

Lemma keys_save r :
  keys (save r) = head_keys ++ map lkey (map fst (r_layers r))
                  ++ map hkeyn (seq 0 (List.length (r_hashes r))) ++ tail_keys.
Proof.
  unfold keys. rewrite save_split, !map_app. f_equal. f_equal; [|f_equal].
  - unfold layer_entries. rewrite !map_map. apply map_ext. intros [k l]. reflexivity.
  - transitivity (map hkeyn (map fst (combine (seq 0 (List.length (r_hashes r))) (r_hashes r)))).
    + unfold hash_entries. rewrite !map_map. apply map_ext. intros [k l]. reflexivity.
    + rewrite map_fst_combine_seq. reflexivity.
Qed.

Lemma NoDup_app_intro {A} (a b : list A) :
  NoDup a -> NoDup b -> (forall x, In x a -> In x b -> False) -> NoDup (a ++ b).
Proof.
  induction a as [|x a IH]; intros Ha Hb Hd; [exact Hb|].
  inversion Ha as [|y l Hx Ha']. subst y l. cbn [app]. constructor.
  - intro Hin. apply in_app_or in Hin. destruct Hin as [Hin|Hin]; [exact (Hx Hin)|].
    apply (Hd x); [left; reflexivity | exact Hin].
  - apply IH; [exact Ha' | exact Hb |]. intros y Hy Hy'. apply (Hd y); [right; exact Hy | exact Hy'].
Qed.

Lemma lkey_inj : FinFun.Injective lkey.
Proof.
  intros a b H. unfold lkey in H. apply nat_to_string_inj.
  cbn in H. inversion H. reflexivity.
Qed.
Lemma hkeyn_inj : FinFun.Injective hkeyn.
Proof.
  intros a b H. unfold hkeyn in H. apply nat_to_string_inj.
  cbn in H. inversion H. reflexivity.
Qed.

Theorem save_keys_nodup r : NoDup (map fst (r_layers r)) -> NoDup (keys (save r)).
Proof.
  intro ND. rewrite keys_save.
  assert (HL : forall x, In x (map lkey (map fst (r_layers r))) -> exists s, x = ("layer__" ++ s)%string).
  { intros x Hx. apply in_map_iff in Hx. destruct Hx as [n [<- _]]. eexists. reflexivity. }
  assert (HH : forall x, In x (map hkeyn (seq 0 (List.length (r_hashes r)))) ->
                         exists s, x = ("edges_list_hashes__" ++ s)%string).
  { intros x Hx. apply in_map_iff in Hx. destruct Hx as [n [<- _]]. eexists. reflexivity. }
  apply NoDup_app_intro; [| apply NoDup_app_intro; [| apply NoDup_app_intro |] |].
  - unfold head_keys. repeat constructor; simpl; intuition discriminate.
  - apply FinFun.Injective_map_NoDup; [apply lkey_inj | exact ND].
  - apply FinFun.Injective_map_NoDup; [apply hkeyn_inj | apply seq_NoDup].
  - unfold tail_keys. repeat constructor; simpl; intuition discriminate.
  - intros x Hh Ht. apply HH in Hh. destruct Hh as [s ->].
    unfold tail_keys in Ht. simpl in Ht. intuition discriminate.
  - intros x Hl Hr. apply HL in Hl. destruct Hl as [s ->].
    apply in_app_or in Hr. destruct Hr as [Hr|Hr].
    + apply HH in Hr. destruct Hr as [s' Hr]. simpl in Hr. discriminate Hr.
    + unfold tail_keys in Hr. simpl in Hr. intuition discriminate.
  - intros x Hh Hr. unfold head_keys in Hh.
    apply in_app_or in Hr. destruct Hr as [Hr|Hr]; [|apply in_app_or in Hr; destruct Hr as [Hr|Hr]].
    + apply HL in Hr. destruct Hr as [s ->]. simpl in Hh. intuition discriminate.
    + apply HH in Hr. destruct Hr as [s ->]. simpl in Hh. intuition discriminate.
    + unfold tail_keys in Hr. simpl in Hh, Hr. intuition (subst; discriminate).
Qed.

(* ========================================================================= *)
(** * 3. [result_eq] (the model of [BfsResult.__eq__]) *)

(** the stored layers as a finite map *)
Fixpoint layer_get (k : nat) (ls : list (nat * list (list Z))) : option (list (list Z)) :=
  match ls with
  | [] => None
  | (k', l) :: t => if (k =? k')%nat then Some l else layer_get k t
  end.

Lemma layer_get_In k l ls : layer_get k ls = Some l -> In (k, l) ls.
Proof.
  induction ls as [|[k' l'] ls IH]; simpl; [discriminate|].
  destruct (Nat.eqb_spec k k') as [->|N]; intro H.
  - inversion H. left. reflexivity.
  - right. apply IH, H.
Qed.

Lemma layer_get_None k ls : layer_get k ls = None <-> ~ In k (map fst ls).
Proof.
  induction ls as [|[k' l'] ls IH]; simpl; [tauto|].
  destruct (Nat.eqb_spec k k') as [->|N].
  - split; [discriminate | intro H; exfalso; apply H; left; reflexivity].
  - rewrite IH. split; [intros H [E|E]; [congruence | tauto] | tauto].
Qed.

Lemma In_layer_get k l ls : NoDup (map fst ls) -> In (k, l) ls -> layer_get k ls = Some l.
Proof.
  induction ls as [|[k' l'] ls IH]; simpl; intros ND Hin; [contradiction|].
  inversion ND as [|x t Hx ND']. subst x t.
  destruct Hin as [E|Hin].
  - inversion E. subst. rewrite Nat.eqb_refl. reflexivity.
  - destruct (Nat.eqb_spec k k') as [->|N]; [|apply IH; assumption].
    exfalso. apply Hx. change (In (fst (k', l)) (map fst ls)). apply in_map, Hin.
Qed.

Lemma NoDup_keys_NoDup {A B} (ls : list (A * B)) : NoDup (map fst ls) -> NoDup ls.
Proof. apply NoDup_map_inv. Qed.

(** exact meaning of the dict comparison *)
Lemma layers_eqb_iff_In a b :
  layers_eqb a b = true <->
  ((forall k l, In (k, l) a -> In (k, l) b) /\ (forall k l, In (k, l) b -> exists l', In (k, l') a)).
Proof.
  unfold layers_eqb. rewrite andb_true_iff, !forallb_forall. split.
  - intros [La Lb]. split; intros k l Hin.
    + specialize (La _ Hin). cbv beta iota in La. apply existsb_exists in La.
      destruct La as [[k' l'] [Hin' Hk]]. apply andb_true_iff in Hk. destruct Hk as [Hk Hl].
      apply Nat.eqb_eq in Hk. apply z_list2_eqb_true in Hl. subst. exact Hin'.
    + specialize (Lb _ Hin). cbv beta iota in Lb. apply existsb_exists in Lb.
      destruct Lb as [[k' l'] [Hin' Hk]]. apply Nat.eqb_eq in Hk. subst. exists l'. exact Hin'.
  - intros [La Lb]. split; intros [k l] Hin.
    + apply existsb_exists. exists (k, l). split; [apply La, Hin|].
      rewrite Nat.eqb_refl, z_list2_eqb_refl. reflexivity.
    + destruct (Lb k l Hin) as [l' Hin']. apply existsb_exists. exists (k, l'). split; [exact Hin'|].
      apply Nat.eqb_refl.
Qed.

Lemma layers_In_iff_get a b : NoDup (map fst a) -> NoDup (map fst b) ->
  (((forall k l, In (k, l) a -> In (k, l) b) /\ (forall k l, In (k, l) b -> exists l', In (k, l') a))
   <-> (forall k, layer_get k a = layer_get k b)).
Proof.
  intros Na Nb. split.
  - intros [Hab Hba] k. destruct (layer_get k a) as [l|] eqn:E.
    + symmetry. apply In_layer_get; [exact Nb|]. apply Hab, layer_get_In, E.
    + symmetry. apply layer_get_None. intro Hin. apply in_map_iff in Hin.
      destruct Hin as [[k' l] [Hk Hin]]. simpl in Hk. subst k'.
      destruct (Hba k l Hin) as [l' Hin']. apply (proj1 (layer_get_None k a) E).
      change (In (fst (k, l')) (map fst a)). apply in_map, Hin'.
  - intro H. split; intros k l Hin.
    + apply layer_get_In. rewrite <- H. apply In_layer_get; assumption.
    + exists l. apply layer_get_In. rewrite H. apply In_layer_get; assumption.
Qed.

Lemma layers_get_iff_perm a b : NoDup (map fst a) -> NoDup (map fst b) ->
  ((forall k, layer_get k a = layer_get k b) <-> Permutation a b).
Proof.
  intros Na Nb. split.
  - intro H. apply NoDup_Permutation; try (apply NoDup_keys_NoDup; assumption).
    intros [k l]. split; intro Hin; apply layer_get_In.
    + rewrite <- H. apply In_layer_get; assumption.
    + rewrite H. apply In_layer_get; assumption.
  - intros P k. destruct (layer_get k a) as [l|] eqn:E.
    + symmetry. apply In_layer_get; [exact Nb|]. eapply Permutation_in; [exact P|]. apply layer_get_In, E.
    + symmetry. apply layer_get_None. intro Hin. apply (proj1 (layer_get_None k a) E).
      eapply Permutation_in; [apply Permutation_sym, Permutation_map, P | exact Hin].
Qed.

Lemma list_string_eqb_iff a b : list_eqb String.eqb a b = true <-> a = b.
Proof.
  split.
  - apply (list_eqb_true' String.eqb). intros x y. apply String.eqb_eq.
  - intros ->. apply (list_eqb_refl' String.eqb String.eqb_refl).
Qed.
Lemma z_list_eqb_iff a b : z_list_eqb a b = true <-> a = b.
Proof. split; [apply z_list_eqb_true | intros ->; apply z_list_eqb_refl]. Qed.
Lemma z_list2_eqb_iff a b : z_list2_eqb a b = true <-> a = b.
Proof. split; [apply z_list2_eqb_true | intros ->; apply z_list2_eqb_refl]. Qed.
Lemma option_z_list2_eqb_iff a b : option_eqb z_list2_eqb a b = true <-> a = b.
Proof.
  destruct a as [x|], b as [y|]; simpl; try (split; [discriminate | discriminate]); try tauto.
  rewrite z_list2_eqb_iff. split; [intros ->; reflexivity | intro H; inversion H; reflexivity].
Qed.

(** the eight non-dict fields *)
Definition scalar_fields_equal (a b : bfs_result) : Prop :=
  r_completed a = r_completed b /\ r_sizes a = r_sizes b /\ r_hashes a = r_hashes b /\
  r_edges a = r_edges b /\ r_gens a = r_gens b /\ r_gen_names a = r_gen_names b /\
  r_central a = r_central b /\ r_name a = r_name b.

(** EXACT characterisation of [result_eq], for arbitrary (even ill-formed) results *)
Theorem result_eq_true_iff a b :
  result_eq a b = true <->
  (scalar_fields_equal a b /\
   (forall k l, In (k, l) (r_layers a) -> In (k, l) (r_layers b)) /\
   (forall k l, In (k, l) (r_layers b) -> exists l', In (k, l') (r_layers a))).
Proof.
  unfold result_eq, scalar_fields_equal.
  rewrite !andb_true_iff, Bool.eqb_true_iff, !z_list_eqb_iff, !z_list2_eqb_iff, option_z_list2_eqb_iff,
    list_string_eqb_iff, String.eqb_eq, layers_eqb_iff_In.
  tauto.
Qed.

(** all fields equal: the scalar / list fields are equal and the layer dicts are the same finite map *)
Definition fields_equal (a b : bfs_result) : Prop :=
  scalar_fields_equal a b /\ (forall k, layer_get k (r_layers a) = layer_get k (r_layers b)).

Definition wf_layers (r : bfs_result) : Prop := NoDup (map fst (r_layers r)).

(** A3: [result_eq r1 r2 = true <-> all fields equal] on well-formed results *)
Theorem result_eq_iff a b : wf_layers a -> wf_layers b ->
  (result_eq a b = true <-> fields_equal a b).
Proof.
  intros Wa Wb. rewrite result_eq_true_iff. unfold fields_equal.
  rewrite <- (layers_In_iff_get _ _ Wa Wb). tauto.
Qed.

(** the same, the dicts compared as lists up to order *)
Corollary result_eq_iff_perm a b : wf_layers a -> wf_layers b ->
  (result_eq a b = true <-> same_upto_layer_order a b).
Proof.
  intros Wa Wb. rewrite (result_eq_iff a b Wa Wb). unfold fields_equal, same_upto_layer_order, scalar_fields_equal.
  rewrite (layers_get_iff_perm _ _ Wa Wb). tauto.
Qed.

(** in particular equal results have literally equal fields, and when the dicts are listed in the same order
    (e.g. both sorted) the results are equal as records *)
Lemma fields_equal_refl a : fields_equal a a.
Proof. unfold fields_equal, scalar_fields_equal. repeat split; reflexivity. Qed.
Lemma fields_equal_sym a b : fields_equal a b -> fields_equal b a.
Proof. unfold fields_equal, scalar_fields_equal. intros [H L]. split; [intuition congruence | intro k; symmetry; apply L]. Qed.
Lemma fields_equal_trans a b c : fields_equal a b -> fields_equal b c -> fields_equal a c.
Proof.
  unfold fields_equal, scalar_fields_equal. intros [H L] [H' L'].
  split; [intuition congruence | intro k; rewrite L; apply L'].
Qed.

(** Equivalence relation.  Reflexivity is [result_eq_refl] (SaveLoadProofs). *)
Theorem result_eq_sym a b : wf_layers a -> wf_layers b -> result_eq a b = result_eq b a.
Proof.
  intros Wa Wb. apply Bool.eq_true_iff_eq.
  rewrite (result_eq_iff a b Wa Wb), (result_eq_iff b a Wb Wa).
  split; apply fields_equal_sym.
Qed.

(** transitivity needs no well-formedness at all *)
Theorem result_eq_trans a b c : result_eq a b = true -> result_eq b c = true -> result_eq a c = true.
Proof.
  rewrite !result_eq_true_iff. unfold scalar_fields_equal.
  intros [H [L1 L2]] [H' [L1' L2']]. split; [intuition congruence|]. split.
  - intros k l Hin. apply L1', L1, Hin.
  - intros k l Hin. destruct (L2' k l Hin) as [l' Hin']. apply (L2 k l' Hin').
Qed.

Theorem result_eq_equivalence :
  (forall r, result_eq r r = true) /\
  (forall a b, wf_layers a -> wf_layers b -> result_eq a b = true -> result_eq b a = true) /\
  (forall a b c, result_eq a b = true -> result_eq b c = true -> result_eq a c = true).
Proof.
  split; [exact result_eq_refl|]. split; [|exact result_eq_trans].
  intros a b Wa Wb H. rewrite <- (result_eq_sym a b Wa Wb). exact H.
Qed.

(** differing in ANY field (a stored layer included) is detected *)
Corollary result_eq_false_iff a b : wf_layers a -> wf_layers b ->
  (result_eq a b = false <-> ~ fields_equal a b).
Proof.
  intros Wa Wb. rewrite <- (result_eq_iff a b Wa Wb).
  destruct (result_eq a b); split; try congruence; intro H; exfalso; apply H; reflexivity.
Qed.

(** ** exactly one side has an edge list / hashes / a stored layer *)
Theorem result_eq_edges_one_sided a b e :
  r_edges a = Some e -> r_edges b = None -> result_eq a b = false /\ result_eq b a = false.
Proof.
  intros Ha Hb. split.
  - destruct (result_eq a b) eqn:E; [|reflexivity]. apply result_eq_true_iff in E.
    unfold scalar_fields_equal in E. exfalso. intuition congruence.
  - destruct (result_eq b a) eqn:E; [|reflexivity]. apply result_eq_true_iff in E.
    unfold scalar_fields_equal in E. exfalso. intuition congruence.
Qed.

Theorem result_eq_hashes_one_sided a b :
  r_hashes a = [] -> r_hashes b <> [] -> result_eq a b = false /\ result_eq b a = false.
Proof.
  intros Ha Hb. split.
  - destruct (result_eq a b) eqn:E; [|reflexivity]. apply result_eq_true_iff in E.
    unfold scalar_fields_equal in E. exfalso. intuition congruence.
  - destruct (result_eq b a) eqn:E; [|reflexivity]. apply result_eq_true_iff in E.
    unfold scalar_fields_equal in E. exfalso. intuition congruence.
Qed.

Theorem result_eq_layer_one_sided a b k l :
  layer_get k (r_layers a) = Some l -> layer_get k (r_layers b) = None ->
  result_eq a b = false /\ result_eq b a = false.
Proof.
  intros Ha Hb. apply layer_get_In in Ha.
  assert (Hn : forall l', ~ In (k, l') (r_layers b)).
  { intros l' Hin. apply (proj1 (layer_get_None k _) Hb).
    change (In (fst (k, l')) (map fst (r_layers b))). apply in_map, Hin. }
  split.
  - destruct (result_eq a b) eqn:E; [|reflexivity]. apply result_eq_true_iff in E.
    destruct E as [_ [L _]]. exfalso. apply (Hn l), L, Ha.
  - destruct (result_eq b a) eqn:E; [|reflexivity]. apply result_eq_true_iff in E.
    destruct E as [_ [_ L]]. exfalso. destruct (L k l Ha) as [l' Hin]. apply (Hn l' Hin).
Qed.

(** an EMPTY edge list (shape (0,2)) is not the same as NO edge list, in the comparison and in the file *)
Example empty_edges_vs_none r :
  r_edges r = None ->
  let r' := {| r_completed := r_completed r; r_sizes := r_sizes r; r_layers := r_layers r;
               r_hashes := r_hashes r; r_edges := Some []; r_gens := r_gens r;
               r_gen_names := r_gen_names r; r_central := r_central r; r_name := r_name r |} in
  result_eq r r' = false /\ result_eq r' r = false /\
  store_get "edges_list_hashes" (save r) = Some HEmptyScalar /\
  store_get "edges_list_hashes" (save r') = Some (HInts2 []).
Proof.
  intros Hn r'. 
  destruct (result_eq_edges_one_sided r' r [] eq_refl Hn) as [H1 H2].
  repeat split; try assumption; rewrite get_edges; [rewrite Hn|]; reflexivity.
Qed.

(** without distinct layer ids (impossible for a Python dict) symmetry would fail: the hypothesis is needed *)
Example result_eq_sym_refuted :
  let mk ls := {| r_completed := true; r_sizes := [1%Z]; r_layers := ls; r_hashes := []; r_edges := None;
                  r_gens := [[0%Z]]; r_gen_names := ["e"]; r_central := [0%Z]; r_name := "" |} in
  result_eq (mk [(0%nat, [[0%Z]])]) (mk [(0%nat, [[0%Z]]); (0%nat, [[1%Z]])]) = true /\
  result_eq (mk [(0%nat, [[0%Z]]); (0%nat, [[1%Z]])]) (mk [(0%nat, [[0%Z]])]) = false.
Proof. vm_compute. split; reflexivity. Qed.

(* ========================================================================= *)
(** * 4. Round trip, in every field and in every key order *)

(** ** h5py iterates the keys of a group in alphabetical (byte-wise lexicographic) order *)
Fixpoint h5_insert (e : string * h5val) (s : store) : store :=
  match s with
  | [] => [e]
  | e' :: t => if String.leb (fst e) (fst e') then e :: s else e' :: h5_insert e t
  end.
Definition h5_sort (s : store) : store := fold_right h5_insert [] s.

Lemma h5_insert_perm e s : Permutation (h5_insert e s) (e :: s).
Proof.
  induction s as [|e' t IH]; [apply Permutation_refl|].
  cbn [h5_insert]. destruct (String.leb (fst e) (fst e')); [apply Permutation_refl|].
  eapply Permutation_trans; [apply perm_skip, IH | apply perm_swap].
Qed.

Lemma h5_sort_perm s : Permutation (h5_sort s) s.
Proof.
  induction s as [|e t IH]; [apply Permutation_refl|].
  cbn [h5_sort fold_right]. eapply Permutation_trans; [apply h5_insert_perm | apply perm_skip, IH].
Qed.

Definition key_le (a b : string * h5val) : Prop := String.leb (fst a) (fst b) = true.

Lemma h5_insert_sorted e s : Sorted key_le s -> Sorted key_le (h5_insert e s).
Proof.
  induction s as [|e' t IH]; intro S; [repeat constructor|].
  cbn [h5_insert]. destruct (String.leb (fst e) (fst e')) eqn:E.
  - constructor; [exact S | constructor; exact E].
  - inversion S as [|x l St Hh]. subst x l. constructor; [apply IH, St|].
    assert (E' : key_le e' e).
    { unfold key_le. destruct (String.leb_total (fst e) (fst e')) as [H|H]; [congruence | exact H]. }
    destruct t as [|e'' t']; cbn [h5_insert]; [constructor; exact E'|].
    destruct (String.leb (fst e) (fst e'')); constructor; [exact E'|].
    inversion Hh. assumption.
Qed.

Lemma h5_sort_sorted s : Sorted key_le (h5_sort s).
Proof. induction s as [|e t IH]; [constructor|]. cbn [h5_sort fold_right]. apply h5_insert_sorted, IH. Qed.

(** ** a canonical listing of the layer dict: sorted by layer id *)
Definition layer := (nat * list (list Z))%type.
Fixpoint lins (e : layer) (ls : list layer) : list layer :=
  match ls with
  | [] => [e]
  | e' :: t => if (fst e <=? fst e')%nat then e :: ls else e' :: lins e t
  end.
Definition sort_layers (ls : list layer) : list layer := fold_right lins [] ls.
Definition canon (r : bfs_result) : bfs_result := with_layers r (sort_layers (r_layers r)).

Lemma lins_perm e ls : Permutation (lins e ls) (e :: ls).
Proof.
  induction ls as [|e' t IH]; [apply Permutation_refl|].
  cbn [lins]. destruct (fst e <=? fst e')%nat; [apply Permutation_refl|].
  eapply Permutation_trans; [apply perm_skip, IH | apply perm_swap].
Qed.
Lemma sort_layers_perm ls : Permutation (sort_layers ls) ls.
Proof.
  induction ls as [|e t IH]; [apply Permutation_refl|].
  cbn [sort_layers fold_right]. eapply Permutation_trans; [apply lins_perm | apply perm_skip, IH].
Qed.

Definition lkey_le (a b : layer) : Prop := (fst a <= fst b)%nat.

Lemma lins_sorted e ls : StronglySorted lkey_le ls -> StronglySorted lkey_le (lins e ls).
Proof.
  induction ls as [|e' t IH]; intro S; [repeat constructor|].
  inversion S as [|x l St Hf]. subst x l.
  cbn [lins]. destruct (Nat.leb_spec (fst e) (fst e')) as [L|L].
  - constructor; [exact S|]. constructor; [exact L|].
    eapply Forall_impl; [|exact Hf]. intros b Hb. unfold lkey_le in *. lia.
  - constructor; [apply IH, St|].
    apply (Permutation_Forall (Permutation_sym (lins_perm e t))).
    constructor; [unfold lkey_le; lia | exact Hf].
Qed.
Lemma sort_layers_sorted ls : StronglySorted lkey_le (sort_layers ls).
Proof. induction ls as [|e t IH]; [constructor|]. cbn [sort_layers fold_right]. apply lins_sorted, IH. Qed.

Lemma sorted_layers_unique (l1 : list layer) : forall l2,
  StronglySorted lkey_le l1 -> StronglySorted lkey_le l2 -> NoDup (map fst l1) ->
  Permutation l1 l2 -> l1 = l2.
Proof.
  induction l1 as [|x t1 IH]; intros l2 S1 S2 ND P.
  - apply Permutation_nil in P. symmetry. exact P.
  - destruct l2 as [|y t2]; [apply Permutation_sym, Permutation_nil in P; discriminate P|].
    inversion S1 as [|x' l' St1 F1]. subst x' l'. inversion S2 as [|y' l'' St2 F2]. subst y' l''.
    inversion ND as [|k ks Hk ND']. subst k ks.
    assert (E : x = y).
    { assert (Hx : In x (y :: t2)) by (eapply Permutation_in; [exact P | left; reflexivity]).
      assert (Hy : In y (x :: t1)) by (eapply Permutation_in; [apply Permutation_sym, P | left; reflexivity]).
      destruct Hx as [Hx|Hx]; [symmetry; exact Hx|]. destruct Hy as [Hy|Hy]; [exact Hy|].
      exfalso. rewrite Forall_forall in F1, F2. specialize (F1 y Hy). specialize (F2 x Hx).
      unfold lkey_le in F1, F2. apply Hk. replace (fst x) with (fst y) by lia. apply in_map, Hy. }
    subst y. f_equal. apply IH; try assumption. eapply Permutation_cons_inv, P.
Qed.

(** two listings of the same dict have the same canonical form *)
Lemma sort_layers_perm_eq a b : NoDup (map fst a) -> Permutation a b -> sort_layers a = sort_layers b.
Proof.
  intros ND P. apply sorted_layers_unique; try apply sort_layers_sorted.
  - eapply Permutation_NoDup; [apply Permutation_map, Permutation_sym, sort_layers_perm | exact ND].
  - eapply Permutation_trans; [apply sort_layers_perm|].
    eapply Permutation_trans; [exact P | apply Permutation_sym, sort_layers_perm].
Qed.

Lemma canon_eq_of_same a b : wf_layers a -> same_upto_layer_order a b -> canon a = canon b.
Proof.
  intros Wa (H1 & H2 & H3 & H4 & H5 & H6 & H7 & H8 & P).
  unfold canon, with_layers. rewrite H1, H2, H3, H4, H5, H6, H7, H8, (sort_layers_perm_eq _ _ Wa P).
  reflexivity.
Qed.

(** [result_eq] is exactly "same canonical form" on well-formed results *)
Theorem result_eq_iff_canon a b : wf_layers a -> wf_layers b ->
  (result_eq a b = true <-> canon a = canon b).
Proof.
  intros Wa Wb. rewrite (result_eq_iff_perm a b Wa Wb). split; [apply canon_eq_of_same, Wa|].
  intro E. unfold canon, with_layers in E. inversion E as [[E1 E2 E3 E4 E5 E6 E7 E8 E9]].
  unfold same_upto_layer_order. repeat (split; [assumption|]).
  eapply Permutation_trans; [apply Permutation_sym, sort_layers_perm|]. rewrite E3. apply sort_layers_perm.
Qed.

(** ** A2(i): load (save r) = r, every field *)
Theorem load_save_full r : wf_result r -> load (save r) = Ok r.
Proof. intros [_ H]. apply load_save, H. Qed.

Corollary load_save_fields r : wf_result r ->
  exists r', load (save r) = Ok r' /\
    r_completed r' = r_completed r /\ r_sizes r' = r_sizes r /\ r_layers r' = r_layers r /\
    r_hashes r' = r_hashes r /\ r_edges r' = r_edges r /\ r_gens r' = r_gens r /\
    r_gen_names r' = r_gen_names r /\ r_central r' = r_central r /\ r_name r' = r_name r /\
    result_eq r' r = true /\ result_eq r r' = true.
Proof.
  intro W. exists r. split; [apply load_save_full, W|].
  repeat (split; [reflexivity|]). split; apply result_eq_refl.
Qed.

(** the file determines the result: two well-formed results with the same file are the same *)
Corollary save_injective r1 r2 : wf_result r1 -> wf_result r2 -> save r1 = save r2 -> r1 = r2.
Proof.
  intros W1 W2 E. pose proof (load_save_full r1 W1) as H1. rewrite E, (load_save_full r2 W2) in H1.
  inversion H1. reflexivity.
Qed.

(** ** A2(ii): ANY order of the file's entries loads the same result *)
Theorem load_key_order_independent r s' :
  wf_result r -> Permutation (save r) s' ->
  exists r', load s' = Ok r' /\
    same_upto_layer_order r' r /\ wf_layers r' /\
    (forall k, layer_get k (r_layers r') = layer_get k (r_layers r)) /\
    result_eq r' r = true /\ result_eq r r' = true /\
    canon r' = canon r.
Proof.
  intros W P. pose proof W as [ND HL].
  pose proof (load_perm (save r) s' (save_keys_nodup r ND) P) as H.
  rewrite (load_save_full r W) in H.
  destruct (load s') as [r'|e]; [|contradiction].
  exists r'. split; [reflexivity|].
  assert (S : same_upto_layer_order r' r).
  { unfold same_upto_layer_order in *. destruct H as (H1 & H2 & H3 & H4 & H5 & H6 & H7 & H8 & H9).
    repeat (split; [symmetry; assumption|]). apply Permutation_sym, H9. }
  assert (W' : wf_layers r').
  { destruct S as (_ & _ & _ & _ & _ & _ & _ & _ & P').
    eapply Permutation_NoDup; [apply Permutation_map, Permutation_sym, P' | exact ND]. }
  pose proof (proj2 (result_eq_iff_perm r' r W' ND) S) as E.
  split; [exact S|]. split; [exact W'|]. split; [|split; [exact E|split]].
  - apply (result_eq_iff r' r W' ND), E.
  - rewrite (result_eq_sym r r' ND W'). exact E.
  - apply canon_eq_of_same; assumption.
Qed.

(** in particular the order in which h5py really lists the keys *)
Corollary load_h5_order r : wf_result r ->
  exists r', load (h5_sort (save r)) = Ok r' /\ same_upto_layer_order r' r /\
             result_eq r' r = true /\ result_eq r r' = true /\ canon r' = canon r.
Proof.
  intro W. destruct (load_key_order_independent r (h5_sort (save r)) W
                       (Permutation_sym (h5_sort_perm (save r)))) as (r' & H1 & H2 & _ & _ & H3 & H4 & H5).
  exists r'. split; [exact H1|]. split; [exact H2|]. split; [exact H3|]. split; [exact H4 | exact H5].
Qed.

(** a loader that canonicalises is literally order-independent *)
Definition load_canon (s : store) : result bfs_result :=
  match load s with Ok r => Ok (canon r) | Err e => Err e end.

Corollary load_canon_order_independent r s1 s2 : wf_result r ->
  Permutation (save r) s1 -> Permutation (save r) s2 -> load_canon s1 = load_canon s2.
Proof.
  intros W P1 P2. unfold load_canon.
  destruct (load_key_order_independent r s1 W P1) as (r1 & -> & _ & _ & _ & _ & _ & C1).
  destruct (load_key_order_independent r s2 W P2) as (r2 & -> & _ & _ & _ & _ & _ & C2).
  rewrite C1, C2. reflexivity.
Qed.

(** *** Non-vacuity: a result with 12 stored layers (two-digit layer ids), hashes and an edge list *)
Definition ex_layers12 : list layer := map (fun k => (k, [[Z.of_nat k; 0%Z]])) (seq 0 12).
Definition ex_r12 : bfs_result :=
  {| r_completed := true; r_sizes := repeat 1%Z 12; r_layers := ex_layers12;
     r_hashes := map (fun k => [Z.of_nat (100 + k)]) (seq 0 12);
     r_edges := Some [[100%Z; 101%Z]; [101%Z; 100%Z]];
     r_gens := [[1%Z; 0%Z]]; r_gen_names := ["(0,1)"]; r_central := [0%Z; 1%Z]; r_name := "demo" |}.

Example ex_r12_wf : wf_result ex_r12.
Proof.
  split.
  - unfold ex_r12, ex_layers12; cbn [r_layers]. rewrite map_map. cbn [fst]. rewrite map_id. apply seq_NoDup.
  - vm_compute. repeat constructor.
Qed.

(** h5py lists "layer__10" and "layer__11" BEFORE "layer__2" ... *)
Example ex_r12_h5_order :
  filter (starts_with "layer__") (keys (h5_sort (save ex_r12))) =
  ["layer__0"; "layer__1"; "layer__10"; "layer__11"; "layer__2"; "layer__3"; "layer__4"; "layer__5";
   "layer__6"; "layer__7"; "layer__8"; "layer__9"].
Proof. vm_compute. reflexivity. Qed.

(** the complete listing, identical to what [list(h5py.File(..).keys())] prints for this result *)
Example ex_r12_h5_keys :
  keys (h5_sort (save ex_r12)) =
  ["bfs_completed"; "edges_list_hashes"; "edges_list_hashes__0"; "edges_list_hashes__1";
   "edges_list_hashes__10"; "edges_list_hashes__11"; "edges_list_hashes__2"; "edges_list_hashes__3";
   "edges_list_hashes__4"; "edges_list_hashes__5"; "edges_list_hashes__6"; "edges_list_hashes__7";
   "edges_list_hashes__8"; "edges_list_hashes__9"; "graph__central_state"; "graph__generator_names";
   "graph__generators"; "graph__name"; "layer__0"; "layer__1"; "layer__10"; "layer__11"; "layer__2";
   "layer__3"; "layer__4"; "layer__5"; "layer__6"; "layer__7"; "layer__8"; "layer__9"; "layer_sizes"].
Proof. vm_compute. reflexivity. Qed.

(** ... so the loaded dict is listed in another order, yet it is the same result *)
Example ex_r12_loaded :
  match load (h5_sort (save ex_r12)) with
  | Ok r' => map fst (r_layers r') = [0; 1; 10; 11; 2; 3; 4; 5; 6; 7; 8; 9]%nat /\
             result_eq r' ex_r12 = true /\ result_eq ex_r12 r' = true /\ canon r' = ex_r12
  | Err _ => False
  end.
Proof. vm_compute. repeat split; reflexivity. Qed.

Example ex_r12_roundtrip : load (save ex_r12) = Ok ex_r12.
Proof. apply load_save_full, ex_r12_wf. Qed.

Definition ex_sparse : bfs_result :=   (* no hashes, no edge list, only layers 0 and 11 stored, not completed *)
  {| r_completed := false; r_sizes := repeat 1%Z 12; r_layers := [(0%nat, [[0%Z; 1%Z]]); (11%nat, [[1%Z; 0%Z]])];
     r_hashes := []; r_edges := None;
     r_gens := [[1%Z; 0%Z]]; r_gen_names := ["(0,1)"]; r_central := [0%Z; 1%Z]; r_name := "" |}.
Example ex_sparse_wf : wf_result ex_sparse.
Proof. split; [repeat constructor; simpl; intuition discriminate | vm_compute; repeat constructor]. Qed.
Example ex_sparse_roundtrip :
  load (save ex_sparse) = Ok ex_sparse /\
  match load (h5_sort (save ex_sparse)) with Ok r' => r' = ex_sparse | Err _ => False end /\
  result_eq ex_sparse ex_r12 = false.
Proof. vm_compute. repeat split; reflexivity. Qed.

(* ========================================================================= *)
(** * 5. Generator names: byte strings in variable-length HDF5 string storage *)

(** Coq's [string] is a list of 8-bit characters, i.e. exactly a byte string; [r_gen_names] / [r_name] and
    the payload of [HStrs] / [HStr] are the UTF-8 bytes (what [f[key][()]] returns before [.decode]). *)

Definition nul : ascii := Ascii.zero.
Fixpoint has_nul (b : string) : bool :=
  match b with
  | EmptyString => false
  | String c t => Ascii.eqb c nul || has_nul t
  end.

Fixpoint mapM {A B} (f : A -> result B) (l : list A) : result (list B) :=
  match l with
  | [] => Ok []
  | a :: t => match f a with
              | Ok b => match mapM f t with Ok bs => Ok (b :: bs) | Err e => Err e end
              | Err e => Err e
              end
  end.

Fixpoint mapO {A B} (f : A -> option B) (l : list A) : option (list B) :=
  match l with
  | [] => Some []
  | a :: t => match f a, mapO f t with Some b, Some bs => Some (b :: bs) | _, _ => None end
  end.

Section VlenStrings.
  (** ASSUMPTIONS, as section variables (discharged for a concrete model below, so they are consistent).
      Python side: [str.encode("utf-8")] / [bytes.decode("utf-8")] round trip on every encodable str (a str
      with a lone surrogate makes [encode] raise); SaveLoadUtf8.v discharges this for a concrete UTF-8 codec.
      h5py side (observed: h5py 3.x, [f[key] = list_of_str] creates a dataset of dtype
      [string_dtype('utf-8', length=None)]): a variable-length string element is written from a byte
      string, rejected with ValueError("VLEN strings do not support embedded NULLs") if it contains a NUL,
      and otherwise read back as the same bytes - whatever its length (no fixed width). *)
  Variable pystr : Type.
  Variable py_valid : pystr -> Prop.              (* encodable: no lone surrogate code point *)
  Variable utf8_encode : pystr -> string.
  Variable utf8_decode : string -> option pystr.
  Hypothesis utf8_decode_encode : forall s, py_valid s -> utf8_decode (utf8_encode s) = Some s.

  Variable vcell : Type.                          (* a stored variable-length element *)
  Variable vlen_write : string -> result vcell.
  Variable vlen_read : vcell -> string.
  Hypothesis vlen_write_ok :
    forall b, has_nul b = false -> exists c, vlen_write b = Ok c /\ vlen_read c = b.
  Hypothesis vlen_write_nul : forall b, has_nul b = true -> vlen_write b = Err ValueErr.

  (** bytes level: what [f["graph__generator_names"] = names] stores and [f[...][()]] returns *)
  Definition store_names (names : list string) : result (list vcell) := mapM vlen_write names.
  Definition fetch_names (cells : list vcell) : list string := map vlen_read cells.

  Theorem names_bytes_roundtrip names :
    Forall (fun b => has_nul b = false) names ->
    exists cells, store_names names = Ok cells /\ fetch_names cells = names /\
                  map String.length (fetch_names cells) = map String.length names.
  Proof.
    induction names as [|b t IH]; intro F.
    - exists []. repeat split; reflexivity.
    - inversion F as [|x l Hb Ft]. subst x l.
      destruct (vlen_write_ok b Hb) as [c [Hc Hr]]. destruct (IH Ft) as [cs [Hcs [Hrs _]]].
      exists (c :: cs). unfold store_names, fetch_names in *. cbn [mapM map].
      rewrite Hc, Hcs, Hr, Hrs. repeat split; reflexivity.
  Qed.

  Theorem names_nul_rejected names :
    Exists (fun b => has_nul b = true) names -> store_names names = Err ValueErr.
  Proof.
    induction names as [|b t IH]; intro E; [inversion E|].
    unfold store_names in *. cbn [mapM].
    destruct (has_nul b) eqn:Hb.
    - rewrite (vlen_write_nul b Hb). reflexivity.
    - destruct (vlen_write_ok b Hb) as [c [Hc _]]. rewrite Hc.
      inversion E as [x l Hx|x l Ht]; subst; [congruence|]. rewrite (IH Ht). reflexivity.
  Qed.

  (** A2(iv), total form: for ANY list of byte strings, either the write is refused (exactly when some name
      contains a NUL byte) or every name is read back byte for byte - there is no silent truncation *)
  Theorem names_no_truncation names :
    match store_names names with
    | Ok cells => fetch_names cells = names /\ Forall (fun b => has_nul b = false) names
    | Err e => e = ValueErr /\ Exists (fun b => has_nul b = true) names
    end.
  Proof.
    destruct (existsb has_nul names) eqn:E.
    - assert (Ex : Exists (fun b => has_nul b = true) names).
      { apply existsb_exists in E. apply Exists_exists. exact E. }
      rewrite (names_nul_rejected names Ex). split; [reflexivity | exact Ex].
    - assert (F : Forall (fun b => has_nul b = false) names).
      { apply Forall_forall. intros b Hb. destruct (has_nul b) eqn:Hn; [|reflexivity].
        assert (existsb has_nul names = true) by (apply existsb_exists; exists b; split; assumption).
        congruence. }
      destruct (names_bytes_roundtrip names F) as [cells [Hc [Hr _]]]. rewrite Hc. split; assumption.
  Qed.

  (** str level: [generator_names=[x.decode("utf-8") for x in f["graph__generator_names"][()]]] *)
  Definition py_store_names (names : list pystr) : result (list vcell) :=
    store_names (map utf8_encode names).
  Definition py_fetch_names (cells : list vcell) : option (list pystr) :=
    mapO utf8_decode (fetch_names cells).

  Lemma mapO_decode_encode names : Forall py_valid names ->
    mapO utf8_decode (map utf8_encode names) = Some names.
  Proof.
    induction names as [|s t IH]; intro V; [reflexivity|]. cbn [map mapO].
    inversion V as [|x l Vs Vt]. subst x l.
    rewrite (utf8_decode_encode s Vs), (IH Vt). reflexivity.
  Qed.

  Theorem names_str_roundtrip names :
    Forall py_valid names -> Forall (fun s => has_nul (utf8_encode s) = false) names ->
    exists cells, py_store_names names = Ok cells /\ py_fetch_names cells = Some names.
  Proof.
    intros V F. unfold py_store_names, py_fetch_names.
    destruct (names_bytes_roundtrip (map utf8_encode names)) as [cells [Hc [Hr _]]].
    - apply Forall_forall. intros b Hb. apply in_map_iff in Hb. destruct Hb as [s [<- Hs]].
      rewrite Forall_forall in F. apply F, Hs.
    - exists cells. split; [exact Hc|]. rewrite Hr. apply mapO_decode_encode, V.
  Qed.

  (** the whole file with checked string storage: [save] either raises ValueError (a NUL in a generator name
      or in the graph name) or writes a file from which everything, names included, loads back *)
  Definition strings_ok (r : bfs_result) : bool :=
    negb (existsb has_nul (r_gen_names r)) && negb (has_nul (r_name r)).

  Definition save_checked (r : bfs_result) : result store :=
    match store_names (r_gen_names r), vlen_write (r_name r) with
    | Ok cells, Ok c =>
        Ok (map (fun kv => match kv with
                           | (k, HStrs _) => (k, HStrs (fetch_names cells))
                           | (k, HStr _) => (k, HStr (vlen_read c))
                           | _ => kv
                           end) (save r))
    | Err e, _ => Err e
    | _, Err e => Err e
    end.

  Lemma save_no_strs_elsewhere r : forall kv, In kv (save r) ->
    match kv with
    | (k, HStrs l) => l = r_gen_names r
    | (k, HStr s) => s = r_name r
    | _ => True
    end.
  Proof.
    intros kv Hin. rewrite save_split in Hin.
    apply in_app_or in Hin. destruct Hin as [Hin|Hin].
    { simpl in Hin. destruct Hin as [<-|[<-|[]]]; exact I. }
    apply in_app_or in Hin. destruct Hin as [Hin|Hin].
    { unfold layer_entries in Hin. apply in_map_iff in Hin. destruct Hin as [[k l] [<- _]]. exact I. }
    apply in_app_or in Hin. destruct Hin as [Hin|Hin].
    { unfold hash_entries in Hin. apply in_map_iff in Hin. destruct Hin as [[k l] [<- _]]. exact I. }
    simpl in Hin. destruct Hin as [<-|[<-|[<-|[<-|[<-|[]]]]]]; try exact I; try reflexivity.
    destruct (r_edges r); exact I.
  Qed.

  Theorem save_checked_spec r :
    match save_checked r with
    | Ok s => s = save r /\ strings_ok r = true
    | Err e => e = ValueErr /\ strings_ok r = false
    end.
  Proof.
    unfold save_checked, strings_ok.
    pose proof (names_no_truncation (r_gen_names r)) as Hn.
    destruct (store_names (r_gen_names r)) as [cells|e].
    - destruct Hn as [Hf HF].
      assert (En : existsb has_nul (r_gen_names r) = false).
      { destruct (existsb has_nul (r_gen_names r)) eqn:E; [|reflexivity].
        apply existsb_exists in E. destruct E as [b [Hb Hb']]. rewrite Forall_forall in HF.
        rewrite (HF b Hb) in Hb'. discriminate Hb'. }
      rewrite En. destruct (has_nul (r_name r)) eqn:Hnm.
      + rewrite (vlen_write_nul _ Hnm). split; reflexivity.
      + destruct (vlen_write_ok _ Hnm) as [c [Hc Hr]]. rewrite Hc. split; [|reflexivity].
        rewrite Hf, Hr. rewrite <- (map_id (save r)) at 2. apply map_ext_in.
        intros [k v] Hin. pose proof (save_no_strs_elsewhere r _ Hin) as Hs.
        destruct v; try reflexivity; cbn in Hs; rewrite Hs; reflexivity.
    - destruct Hn as [-> Ex]. 
      assert (En : existsb has_nul (r_gen_names r) = true).
      { apply Exists_exists in Ex. apply existsb_exists. exact Ex. }
      rewrite En. split; reflexivity.
  Qed.

  Corollary load_save_checked r : wf_result r -> strings_ok r = true ->
    exists s, save_checked r = Ok s /\ load s = Ok r.
  Proof.
    intros W Hs. pose proof (save_checked_spec r) as H.
    destruct (save_checked r) as [s|e].
    - destruct H as [-> _]. exists (save r). split; [reflexivity | apply load_save_full, W].
    - destruct H as [_ H]. congruence.
  Qed.
End VlenStrings.

(** ** A concrete model satisfying the assumptions: NUL-terminated C strings on the HDF5 heap *)
Definition cstr_write (b : string) : result string :=
  if has_nul b then Err ValueErr else Ok (b ++ String nul "")%string.
Fixpoint cstr_read (m : string) : string :=
  match m with
  | EmptyString => EmptyString
  | String c t => if Ascii.eqb c nul then EmptyString else String c (cstr_read t)
  end.

(** reading stops at the terminator whatever follows it on the heap, and returns ALL the bytes before it *)
Lemma cstr_read_app b rest : has_nul b = false -> cstr_read (b ++ String nul rest) = b.
Proof.
  induction b as [|c t IH]; intro H; [reflexivity|].
  cbn [has_nul] in H. apply orb_false_iff in H. destruct H as [Hc Ht].
  cbn [append cstr_read]. rewrite Hc, (IH Ht). reflexivity.
Qed.

Lemma cstr_write_ok b : has_nul b = false -> exists c, cstr_write b = Ok c /\ cstr_read c = b.
Proof.
  intro H. unfold cstr_write. rewrite H. eexists. split; [reflexivity|]. apply cstr_read_app, H.
Qed.
Lemma cstr_write_nul b : has_nul b = true -> cstr_write b = Err ValueErr.
Proof. intro H. unfold cstr_write. rewrite H. reflexivity. Qed.

(** the section's theorems, closed, for the C-string model and byte-string names *)
Definition names_no_truncation_cstr names :=
  names_no_truncation string cstr_write cstr_read cstr_write_ok cstr_write_nul names.
Definition load_save_checked_cstr r :=
  load_save_checked string cstr_write cstr_read cstr_write_ok cstr_write_nul r.

(** why VARIABLE length matters: with a fixed-width element type (numpy 'S<w>': pad / cut to w bytes, strip
    trailing NULs on reading) a long name would be cut.  [fixed_*] is NOT what the library does. *)
Fixpoint string_firstn (n : nat) (s : string) : string :=
  match n, s with
  | S n', String c t => String c (string_firstn n' t)
  | _, _ => EmptyString
  end.
Definition fixed_write (w : nat) (b : string) : string := string_firstn w b.   (* 'S<w>': cut to w bytes *)
Example fixed_width_truncates_refuted :
  fixed_write 4 "(0,1)(2,3)" = "(0,1" /\ fixed_write 4 "(0,1)(2,3)" <> "(0,1)(2,3)" /\
  (exists c, cstr_write "(0,1)(2,3)" = Ok c /\ cstr_read c = "(0,1)(2,3)").
Proof. split; [reflexivity|]. split; [discriminate|]. apply cstr_write_ok. reflexivity. Qed.

Example names_roundtrip_utf8_bytes :
  (* "é" = C3 A9, "日" = E6 97 A5: multi-byte names, an empty name, a 40-byte name *)
  let names := [String (ascii_of_nat 195) (String (ascii_of_nat 169) "");
                String (ascii_of_nat 230) (String (ascii_of_nat 151) (String (ascii_of_nat 165) ""));
                ""; "0123456789012345678901234567890123456789"] in
  match store_names string cstr_write names with
  | Ok cells => fetch_names string cstr_read cells = names
  | Err _ => False
  end.
Proof. vm_compute. reflexivity. Qed.

Example names_nul_refused :
  store_names string cstr_write ["ab"; String "a" (String nul "b")] = Err ValueErr.
Proof. reflexivity. Qed.

Example ex_r12_checked : exists s, save_checked string cstr_write cstr_read ex_r12 = Ok s /\ load s = Ok ex_r12.
Proof. apply load_save_checked_cstr; [apply ex_r12_wf | reflexivity]. Qed.

(* ========================================================================= *)
(** * 6. The hash lookup "by index until a key is missing", for ANY file *)

(** [load] reads edges_list_hashes__0, __1, ... and stops at the first index whose key is absent (or at
    len(layer_sizes)); later keys are never looked at *)
Theorem load_hashes_spec s : forall fuel i,
  let hs := load_hashes s i fuel in
  (List.length hs <= fuel)%nat /\
  (forall j, (j < List.length hs)%nat -> store_get (hkeyn (i + j)) s = Some (HInts (nth j hs []))) /\
  ((List.length hs < fuel)%nat -> forall h, store_get (hkeyn (i + List.length hs)) s <> Some (HInts h)).
Proof.
  induction fuel as [|f IH]; intro i; cbn zeta.
  - cbn [load_hashes List.length]. split; [lia|]. split; [intros j Hj; lia | intro H; lia].
  - cbn [load_hashes]. fold (hkeyn i).
    destruct (store_get (hkeyn i) s) as [v|] eqn:E.
    2:{ cbn [List.length]. split; [lia|]. split; [intros j Hj; lia|]. intros _ h. rewrite Nat.add_0_r, E. discriminate. }
    destruct v as [b|h0|l|l|st|]; try (cbn [List.length]; split; [lia|]; split; [intros j Hj; lia|];
      intros _ h; rewrite Nat.add_0_r, E; discriminate).
    specialize (IH (S i)). cbn zeta in IH. destruct IH as [I1 [I2 I3]].
    cbn [List.length]. split; [lia|]. split.
    + intros [|j] Hj; [rewrite Nat.add_0_r; exact E|].
      cbn [nth]. replace (i + S j)%nat with (S i + j)%nat by lia. apply I2. lia.
    + intros Hlt h. replace (i + S (List.length (load_hashes s (S i) f)))%nat
        with (S i + List.length (load_hashes s (S i) f))%nat by lia. apply I3. lia.
Qed.

(** a gap stops the scan: hashes stored for layers 0,1 and 3 load as the hashes of layers 0,1 only *)
Example load_hashes_gap :
  load_hashes [(hkeyn 0, HInts [7%Z]); (hkeyn 1, HInts [8%Z]); (hkeyn 3, HInts [9%Z])] 0 5 = [[7%Z]; [8%Z]].
Proof. reflexivity. Qed.

(* ========================================================================= *)
(** * 7. Non-vacuity of the hypotheses used above, and why they are needed *)

Example canonical_needs_no_leading_zero :
  parse_nat "10" = Some 10%nat /\ no_leading_zero "10" /\ "10" = nat_to_string 10 /\
  parse_nat "010" = Some 10%nat /\ "010" <> nat_to_string 10.       (* [int] accepts it, [str] never prints it *)
Proof.
  repeat split; try reflexivity; [right; discriminate | discriminate].
Qed.

Example store_get_perm_instance :
  let s := [("a", HBool true); ("b", HBool false)] in
  NoDup (keys s) /\ Permutation s (List.rev s) /\ store_get "b" (List.rev s) = store_get "b" s.
Proof.
  split; [repeat constructor; simpl; intuition discriminate|].
  split; [apply Permutation_rev | reflexivity].
Qed.

(** with a repeated key (impossible in HDF5) the order WOULD matter: [NoDup] is needed *)
Example store_get_perm_refuted :
  let s := [("a", HBool true); ("a", HBool false)] in
  Permutation s (List.rev s) /\ store_get "a" (List.rev s) <> store_get "a" s.
Proof. split; [apply Permutation_rev | discriminate]. Qed.

Example save_keys_nodup_instance : NoDup (keys (save ex_r12)) /\ List.length (keys (save ex_r12)) = 31%nat.
Proof. split; [apply save_keys_nodup, ex_r12_wf | reflexivity]. Qed.

Example load_order_instance :
  Permutation (save ex_r12) (List.rev (save ex_r12)) /\
  match load (List.rev (save ex_r12)) with
  | Ok r' => canon r' = canon ex_r12 /\ result_eq r' ex_r12 = true /\ r_layers r' = List.rev (r_layers ex_r12)
  | Err _ => False
  end.
Proof. split; [apply Permutation_rev|]. vm_compute. repeat split; reflexivity. Qed.

Example result_eq_iff_instance :
  wf_layers ex_r12 /\ wf_layers ex_sparse /\ result_eq ex_r12 ex_sparse = false /\ ~ fields_equal ex_r12 ex_sparse.
Proof.
  pose proof (proj1 ex_r12_wf) as W1. pose proof (proj1 ex_sparse_wf) as W2.
  assert (E : result_eq ex_r12 ex_sparse = false) by (vm_compute; reflexivity).
  repeat split; try assumption. apply (result_eq_false_iff _ _ W1 W2), E.
Qed.

(** dropping exactly one optional output makes the results unequal, in both directions *)
Definition drop_edges (r : bfs_result) : bfs_result :=
  {| r_completed := r_completed r; r_sizes := r_sizes r; r_layers := r_layers r; r_hashes := r_hashes r;
     r_edges := None; r_gens := r_gens r; r_gen_names := r_gen_names r; r_central := r_central r; r_name := r_name r |}.
Definition drop_hashes (r : bfs_result) : bfs_result :=
  {| r_completed := r_completed r; r_sizes := r_sizes r; r_layers := r_layers r; r_hashes := [];
     r_edges := r_edges r; r_gens := r_gens r; r_gen_names := r_gen_names r; r_central := r_central r; r_name := r_name r |}.
Definition drop_layer (k : nat) (r : bfs_result) : bfs_result :=
  with_layers r (filter (fun kl => negb (fst kl =? k)%nat) (r_layers r)).

Example one_sided_instances :
  (result_eq ex_r12 (drop_edges ex_r12) = false /\ result_eq (drop_edges ex_r12) ex_r12 = false) /\
  (result_eq (drop_hashes ex_r12) ex_r12 = false /\ result_eq ex_r12 (drop_hashes ex_r12) = false) /\
  (result_eq ex_r12 (drop_layer 10 ex_r12) = false /\ result_eq (drop_layer 10 ex_r12) ex_r12 = false).
Proof.
  split; [|split].
  - apply (result_eq_edges_one_sided ex_r12 (drop_edges ex_r12) _ eq_refl eq_refl).
  - apply (result_eq_hashes_one_sided (drop_hashes ex_r12) ex_r12 eq_refl). discriminate.
  - apply (result_eq_layer_one_sided ex_r12 (drop_layer 10 ex_r12) 10 [[10%Z; 0%Z]]); reflexivity.
Qed.

(** each of these variants still round-trips, through the alphabetical key order too *)
Example variants_roundtrip :
  load (save (drop_edges ex_r12)) = Ok (drop_edges ex_r12) /\
  load (save (drop_hashes ex_r12)) = Ok (drop_hashes ex_r12) /\
  load (save (drop_layer 10 ex_r12)) = Ok (drop_layer 10 ex_r12) /\
  load_canon (h5_sort (save (drop_layer 10 (drop_hashes (drop_edges ex_r12)))))
    = Ok (drop_layer 10 (drop_hashes (drop_edges ex_r12))).
Proof. vm_compute. repeat split; reflexivity. Qed.

(* ========================================================================= *)
Print Assumptions parse_nat_is_py_int.
Print Assumptions layer_key_parse.
Print Assumptions nat_to_string_iff.
Print Assumptions store_get_perm.
Print Assumptions load_perm.
Print Assumptions save_keys_nodup.
Print Assumptions h5_sort_perm.
Print Assumptions h5_sort_sorted.
Print Assumptions load_save_full.
Print Assumptions load_save_fields.
Print Assumptions save_injective.
Print Assumptions load_key_order_independent.
Print Assumptions load_h5_order.
Print Assumptions load_canon_order_independent.
Print Assumptions result_eq_true_iff.
Print Assumptions result_eq_iff.
Print Assumptions result_eq_iff_perm.
Print Assumptions result_eq_iff_canon.
Print Assumptions result_eq_sym.
Print Assumptions result_eq_trans.
Print Assumptions result_eq_equivalence.
Print Assumptions result_eq_false_iff.
Print Assumptions result_eq_edges_one_sided.
Print Assumptions result_eq_hashes_one_sided.
Print Assumptions result_eq_layer_one_sided.
Print Assumptions names_bytes_roundtrip.
Print Assumptions names_nul_rejected.
Print Assumptions names_no_truncation.
Print Assumptions names_str_roundtrip.
Print Assumptions save_checked_spec.
Print Assumptions load_save_checked.
Print Assumptions names_no_truncation_cstr.
Print Assumptions load_save_checked_cstr.
Print Assumptions ex_r12_loaded.
Print Assumptions load_hashes_spec.
