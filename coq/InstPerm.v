(** E1 - the concrete permutation-graph implementation model satisfies the structural hypotheses of the
    abstract graph theorems (C01, C04, C05, C09, C12).

    For a well-formed permutation description [d] (wf_perm_desc) and G := mk_impl steps mult d (in particular
    impl_of d), on the universe [Ustates d] of states of the right length with encodable entries:
      (a) Ustates d is closed under the generators and contains the central state;
      (b) the generators are [apply_perm 0 p];
      (c) identity hasher + one-word code: the hash is injective on Ustates d and [unword] inverts it,
          with NO hypothesis about hashing;
      (d) inverse-closed generator sets act symmetrically on Ustates d. *)
From Coq Require Import ZArith List Bool Arith Lia.
From V Require Import Base W64 W64Proofs Tensor Perm PermProofs Codec CodecBits CodecProofs Hash Matrix
                      Graph GraphImpl Def DefProofs Paths BfsStep PathsProofs Bfs BfsRun PathRun.
From V.gen Require Import Consts.
Import ListNotations.
Local Open Scope Z_scope.

(* ------------------------------------------------------------------ *)
(** * Well-formed permutation descriptions *)

(* the generator permutations of a description ([] for matrix descriptions) *)
Definition desc_perms (d : gdesc) : list (list nat) :=
  match g_kind d with GPerm ps => ps | GMatrix _ _ _ _ => [] end.

Definition desc_n (d : gdesc) : nat := length (g_central d).

(* side conditions of CodecProofs.decode_encode, per entry / for the width; un-encoded states: any Z *)
Definition entry_ok (ow : option nat) (v : Z) : Prop :=
  match ow with Some w => 0 <= v < 2 ^ Z.of_nat w /\ v < two63 | None => True end.
Definition width_ok (ow : option nat) : Prop :=
  match ow with Some w => (1 <= w <= 64)%nat | None => True end.

(* CayleyGraphDef.__post_init__: permutation generators, at least one, all permutations of the same
   length n >= 1 (the code computes len(central_state) % n); the central state has n entries.
   CayleyGraph.__init__ / StringEncoder: width 1..64, entries encodable. *)
Definition wf_perm_desc (d : gdesc) : Prop :=
  g_kind d = GPerm (desc_perms d) /\
  desc_perms d <> [] /\
  Forall (fun p => is_perm p = true /\ length p = desc_n d) (desc_perms d) /\
  width_ok (g_width d) /\
  Forall (entry_ok (g_width d)) (g_central d) /\
  (1 <= desc_n d)%nat.

(* the states a run can touch: right length, encodable entries *)
Definition Ustates (d : gdesc) (s : state) : Prop :=
  length s = desc_n d /\ Forall (entry_ok (g_width d)) s.

(* no hash collision on a universe (the exception the properties grant) *)
Definition NoCollOn (G : impl) (U : state -> Prop) : Prop :=
  forall a b, U a -> U b -> hashf G a = hashf G b -> a = b.

(* the inverse-closed flag the harness passes is honest: it is only set when every generator has its inverse in the
   set (CayleyGraphDef.generators_inverse_closed computes exactly is_some (generators_inverse_map)) *)
Definition flag_sound (d : gdesc) : Prop :=
  g_inv_closed d = true -> is_some (perm_inverse_map (desc_perms d)) = true.

(* the encoded state is one int64 word (hasher.state_size == 1) *)
Definition single_word (d : gdesc) : Prop :=
  match g_width d with Some w => (desc_n d * w <= 64)%nat | None => desc_n d = 1%nat end.

(* ---- boolean versions ---- *)
Definition is_perm_kind (d : gdesc) : bool :=
  match g_kind d with GPerm _ => true | GMatrix _ _ _ _ => false end.
Definition entry_okb (ow : option nat) (v : Z) : bool :=
  match ow with Some w => (0 <=? v) && (v <? 2 ^ Z.of_nat w) && (v <? two63) | None => true end.
Definition width_okb (ow : option nat) : bool :=
  match ow with Some w => (1 <=? w)%nat && (w <=? 64)%nat | None => true end.
Definition wf_perm_descb (d : gdesc) : bool :=
  is_perm_kind d
  && negb (length (desc_perms d) =? 0)%nat
  && forallb (fun p => is_perm p && (length p =? desc_n d)%nat) (desc_perms d)
  && width_okb (g_width d)
  && forallb (entry_okb (g_width d)) (g_central d)
  && (1 <=? desc_n d)%nat.
Definition single_wordb (d : gdesc) : bool :=
  match g_width d with Some w => (desc_n d * w <=? 64)%nat | None => (desc_n d =? 1)%nat end.
Definition Ustatesb (d : gdesc) (s : state) : bool :=
  (length s =? desc_n d)%nat && forallb (entry_okb (g_width d)) s.

Lemma entry_okb_spec ow v : entry_okb ow v = true <-> entry_ok ow v.
Proof.
  destruct ow as [w|]; cbn [entry_okb entry_ok]; [|tauto].
  rewrite !andb_true_iff, Z.leb_le, !Z.ltb_lt. tauto.
Qed.

Lemma forallb_entry_ok ow l : forallb (entry_okb ow) l = true <-> Forall (entry_ok ow) l.
Proof.
  rewrite forallb_forall, Forall_forall. split; intros H x Hx; apply entry_okb_spec; auto.
Qed.

Lemma width_okb_spec ow : width_okb ow = true <-> width_ok ow.
Proof.
  destruct ow as [w|]; cbn [width_okb width_ok]; [|tauto].
  rewrite andb_true_iff, !Nat.leb_le. tauto.
Qed.

Lemma wf_perm_descb_spec d : wf_perm_descb d = true <-> wf_perm_desc d.
Proof.
  assert (Hk : is_perm_kind d = true <-> g_kind d = GPerm (desc_perms d)).
  { unfold is_perm_kind, desc_perms. destruct (g_kind d) as [ps|mo n m ms]; split; intros H; auto; discriminate. }
  assert (Hn : negb (length (desc_perms d) =? 0)%nat = true <-> desc_perms d <> []).
  { destruct (desc_perms d) as [|p t]; cbn; split; intros H; try congruence; auto. }
  assert (Hp : forallb (fun p => is_perm p && (length p =? desc_n d)%nat) (desc_perms d) = true <->
               Forall (fun p => is_perm p = true /\ length p = desc_n d) (desc_perms d)).
  { rewrite forallb_forall, Forall_forall. split; intros H p Hin; specialize (H p Hin).
    - apply andb_true_iff in H as [H1 H2]. apply Nat.eqb_eq in H2. auto.
    - destruct H as [H1 H2]. apply andb_true_iff. split; [exact H1 | apply Nat.eqb_eq; exact H2]. }
  pose proof (width_okb_spec (g_width d)) as Hw.
  pose proof (forallb_entry_ok (g_width d) (g_central d)) as Hc.
  pose proof (Nat.leb_le 1 (desc_n d)) as Hn1.
  unfold wf_perm_descb, wf_perm_desc. rewrite !andb_true_iff. tauto.
Qed.

Lemma single_wordb_spec d : single_wordb d = true <-> single_word d.
Proof.
  unfold single_wordb, single_word. destruct (g_width d) as [w|].
  - apply Nat.leb_le.
  - apply Nat.eqb_eq.
Qed.

Lemma Ustatesb_spec d s : Ustatesb d s = true <-> Ustates d s.
Proof.
  unfold Ustatesb, Ustates. rewrite andb_true_iff, Nat.eqb_eq, forallb_entry_ok. tauto.
Qed.

(* ------------------------------------------------------------------ *)
(** * Projections of a well-formed description *)

Lemma wf_kind d : wf_perm_desc d -> g_kind d = GPerm (desc_perms d).
Proof. intros H. apply H. Qed.

Lemma wf_perm_in d p : wf_perm_desc d -> In p (desc_perms d) -> Perm p /\ length p = desc_n d.
Proof.
  intros (_ & _ & Hp & _) Hin. rewrite Forall_forall in Hp. destruct (Hp p Hin) as [H1 H2].
  split; [apply is_perm_iff; exact H1 | exact H2].
Qed.

Lemma wf_Forall_Perm d : wf_perm_desc d -> Forall Perm (desc_perms d).
Proof. intros H. apply Forall_forall. intros p Hp. apply (wf_perm_in d p H Hp). Qed.

Lemma wf_width d : wf_perm_desc d -> width_ok (g_width d).
Proof. intros H. apply H. Qed.

Lemma wf_n_pos d : wf_perm_desc d -> (1 <= desc_n d)%nat.
Proof. intros H. apply H. Qed.

Lemma entry_ok_0 ow : width_ok ow -> entry_ok ow 0.
Proof.
  destruct ow as [w|]; cbn [width_ok entry_ok]; [|auto]. intros Hw.
  assert (0 < 2 ^ Z.of_nat w) by (apply Z.pow_pos_nonneg; lia).
  unfold two63. lia.
Qed.

(* ------------------------------------------------------------------ *)
(** * (b) the generators of the implementation *)

Section Inst.
  Variable steps : list mix_step.
  Variable mult : Z.
  Local Notation mk := (mk_impl steps mult).

  Theorem perm_acts d : g_kind d = GPerm (desc_perms d) ->
    acts (mk d) = map (fun p => apply_perm 0 p) (desc_perms d).
  Proof. intros H. unfold mk_impl. cbn [acts]. rewrite H. reflexivity. Qed.

  Lemma perm_acts_wf d : wf_perm_desc d -> acts (mk d) = map (fun p => apply_perm 0 p) (desc_perms d).
  Proof. intros H. apply perm_acts, wf_kind, H. Qed.

  Lemma perm_acts_in d g : wf_perm_desc d -> In g (acts (mk d)) ->
    exists p, In p (desc_perms d) /\ g = apply_perm 0 p.
  Proof.
    intros Hwf Hg. rewrite (perm_acts_wf d Hwf) in Hg. apply in_map_iff in Hg as (p & <- & Hp).
    exists p. split; [exact Hp | reflexivity].
  Qed.

  Lemma perm_acts_nth_error d i g : wf_perm_desc d -> nth_error (acts (mk d)) i = Some g ->
    (i < length (desc_perms d))%nat /\ g = apply_perm 0 (nth i (desc_perms d) []).
  Proof.
    intros Hwf Hg. rewrite (perm_acts_wf d Hwf) in Hg.
    destruct (nth_error (desc_perms d) i) as [p|] eqn:E.
    - pose proof (nth_error_some_lt _ _ _ E) as Hi. split; [exact Hi|].
      pose proof (map_nth_error (fun p : list nat => @apply_perm Z 0 p) i (desc_perms d) E) as Hm.
      assert (Some g = Some (apply_perm 0 p)) as Hs by (rewrite <- Hg; exact Hm).
      inversion Hs as [Hg']. rewrite (nth_error_nth (desc_perms d) i [] E). reflexivity.
    - exfalso. apply nth_error_None in E.
      assert (Some g = None) as Hn.
      { rewrite <- Hg. apply nth_error_None. rewrite map_length. exact E. }
      discriminate.
  Qed.

  Lemma perm_n_gens d : wf_perm_desc d -> length (acts (mk d)) = length (desc_perms d).
  Proof. intros H. rewrite (perm_acts_wf d H). apply map_length. Qed.

  (* ---------------------------------------------------------------- *)
  (** * (a) the universe is closed and contains the central state *)

  (* entries of a state are permuted: the range predicate is preserved *)
  Lemma apply_perm_Ustates d p s : width_ok (g_width d) -> length p = desc_n d ->
    Ustates d s -> Ustates d (apply_perm 0 p s).
  Proof.
    intros Hw Hl [Hs1 Hs2]. split.
    - rewrite apply_perm_length. exact Hl.
    - unfold apply_perm. apply Forall_forall. intros v Hv. apply in_map_iff in Hv as (i & <- & _).
      destruct (nth_in_or_default i s 0) as [Hin | ->].
      + rewrite Forall_forall in Hs2. apply Hs2. exact Hin.
      + apply entry_ok_0. exact Hw.
  Qed.

  Theorem perm_closed d : wf_perm_desc d -> closed state (acts (mk d)) (Ustates d).
  Proof.
    intros Hwf g x Hg Hx. destruct (perm_acts_in d g Hwf Hg) as (p & Hp & ->).
    apply apply_perm_Ustates; [apply wf_width; exact Hwf | apply (wf_perm_in d p Hwf Hp) | exact Hx].
  Qed.

  Theorem perm_central_U d : wf_perm_desc d -> Ustates d (central (mk d)).
  Proof. intros (_ & _ & _ & _ & Hc & _). split; [reflexivity | exact Hc]. Qed.

  Lemma perm_central d : central (mk d) = g_central d.
  Proof. reflexivity. Qed.

  (* ---------------------------------------------------------------- *)
  (** * (c) identity hasher on one-word codes: injective, inverted by [unword] *)

  Lemma list_len1 (l : list Z) : length l = 1%nat -> l = [nth 0 l 0].
  Proof. destruct l as [|a [|b t]]; cbn; intros H; try discriminate; reflexivity. Qed.

  Lemma encoded_length_one w n : (1 <= n * w <= 64)%nat -> encoded_length w n = 1%nat.
  Proof.
    intros H. unfold encoded_length.
    assert (64 * 1 <= n * w + 63 < 64 * 2)%nat as Hb by lia.
    symmetry. apply Nat.div_unique with (r := (n * w + 63 - 64)%nat); lia.
  Qed.

  Theorem identity_unword d a : wf_perm_desc d -> g_hasher d = HIdentity -> single_word d ->
    Ustates d a -> unword (mk d) (hashf (mk d) a) = a.
  Proof.
    intros Hwf Hh Hsw [Ha1 Ha2]. pose proof (wf_kind d Hwf) as Hk. pose proof (wf_width d Hwf) as Hw.
    unfold mk_impl. cbn [unword hashf]. unfold encoded_row. rewrite Hh, Hk. cbn [make_hash].
    unfold single_word in Hsw. fold (desc_n d). destruct (g_width d) as [w|] eqn:Ew.
    - cbn [width_ok] in Hw.
      destruct (Nat.eq_dec (desc_n d * w) 0) as [Hz | Hnz].
      + (* no symbols at all: the only state is [] *)
        assert (desc_n d = 0%nat) as Hn0 by nia.
        assert (length (decode w (desc_n d) [nth 0 (encode w (desc_n d) a) 0]) = 0%nat) as Hl
          by (rewrite decode_length; exact Hn0).
        rewrite Hn0 in Ha1. destruct a; [|discriminate].
        destruct (decode w (desc_n d) _); [reflexivity | discriminate].
      + rewrite <- list_len1.
        * apply decode_encode; [exact Hw | exact Ha1 | exact Ha2].
        * rewrite encode_length. apply encoded_length_one. lia.
    - rewrite Hsw in Ha1. symmetry. apply list_len1. exact Ha1.
  Qed.

  Theorem identity_nocoll d : wf_perm_desc d -> g_hasher d = HIdentity -> single_word d ->
    NoCollOn (mk d) (Ustates d).
  Proof.
    intros Hwf Hh Hsw a b Ha Hb E.
    rewrite <- (identity_unword d a Hwf Hh Hsw Ha), <- (identity_unword d b Hwf Hh Hsw Hb), E. reflexivity.
  Qed.

  Lemma perm_is_identity d : is_identity (mk d) = hasher_is_identity (g_hasher d).
  Proof. reflexivity. Qed.

  (* the IdOK hypothesis of the abstract theorems, for identity hashers that are only used on one-word codes *)
  Theorem perm_IdOK d : wf_perm_desc d -> (g_hasher d = HIdentity -> single_word d) ->
    is_identity (mk d) = true -> forall a, Ustates d a -> unword (mk d) (hashf (mk d) a) = a.
  Proof.
    intros Hwf Hsw Hid a Ha. rewrite perm_is_identity in Hid.
    destruct (g_hasher d) eqn:Eh; cbn in Hid; try discriminate.
    apply identity_unword; auto.
  Qed.


  (* ---------------------------------------------------------------- *)
  (** * (c') conversely: the identity hasher is collision-free ONLY on one-word codes.
        So "NoColl on Ustates d" alone already forces hasher.py's rule (is_identity iff one code word),
        and the end-to-end theorems need no separate hypothesis about the hasher. *)

  Lemma encoded_length_pos w n : (1 <= n * w)%nat -> (1 <= encoded_length w n)%nat.
  Proof. intros H. unfold encoded_length. apply Nat.div_str_pos. lia. Qed.

  (* the first code word only sees the bits below position 64 *)
  Lemma encode_word0_blind w n a b : (1 <= w)%nat -> (1 <= n * w)%nat ->
    (forall k t, (k * w + t < 64)%nat -> (t < w)%nat ->
       Z.testbit (nth k a 0) (Z.of_nat t) = Z.testbit (nth k b 0) (Z.of_nat t)) ->
    nth 0 (encode w n a) 0 = nth 0 (encode w n b) 0.
  Proof.
    intros Hw Hnw H. apply in64_bits_eq.
    - apply CodecBits.Forall_in64_nth, encode_in64.
    - apply CodecBits.Forall_in64_nth, encode_in64.
    - intros i Hi. pose proof (encoded_length_pos w n Hnw) as Hl.
      rewrite !encode_testbit_gen by lia. cbv zeta.
      set (e := (0 * 64 + Z.to_nat i)%nat). assert (e < 64)%nat as He by (unfold e; lia).
      destruct (e <? n * w)%nat; [|reflexivity].
      apply H.
      + rewrite CodecBits.div_mod_recompose by lia. exact He.
      + apply Nat.mod_upper_bound. lia.
  Qed.

  Lemma nth_zeros_one (m : nat) (v : Z) k :
    nth k (repeat 0 m ++ [v]) 0 = if (k =? m)%nat then v else 0.
  Proof.
    destruct (Nat.eqb_spec k m) as [-> | Hne].
    - rewrite app_nth2 by (rewrite repeat_length; lia). rewrite repeat_length, Nat.sub_diag. reflexivity.
    - destruct (lt_dec k m) as [Hlt | Hge].
      + rewrite app_nth1 by (rewrite repeat_length; exact Hlt). apply CodecBits.nth_repeat0.
      + rewrite app_nth2 by (rewrite repeat_length; lia). rewrite repeat_length.
        destruct (k - m)%nat as [|r] eqn:E; [lia|]. cbn. destruct r; reflexivity.
  Qed.

  Lemma zeros_one_neq (m : nat) (v : Z) : v <> 0 -> repeat 0 (S m) <> repeat 0 m ++ [v].
  Proof.
    intros Hv E. apply (f_equal (fun l => nth m l 0)) in E.
    rewrite nth_zeros_one, Nat.eqb_refl, CodecBits.nth_repeat0 in E. congruence.
  Qed.

  Lemma Forall_zeros_one (P : Z -> Prop) m v : P 0 -> P v -> Forall P (repeat 0 m ++ [v]).
  Proof.
    intros H0 Hv. apply Forall_app. split; [apply CodecBits.Forall_repeat; exact H0 | constructor; [exact Hv | constructor]].
  Qed.

  (* a bit of the last symbol that lies outside the first word, with an encodable witness *)
  Lemma high_bit_exists w n : (1 <= w <= 64)%nat -> (64 < n * w)%nat ->
    exists j, (j < w)%nat /\ (64 <= (n - 1) * w + j)%nat /\ (j <= 62)%nat.
  Proof.
    intros Hw Hn. destruct (le_lt_dec w 63) as [Hs | Hb].
    - exists (w - 1)%nat. nia.
    - exists 0%nat. nia.
  Qed.

  Theorem identity_nocoll_single_word d : wf_perm_desc d -> g_hasher d = HIdentity ->
    NoCollOn (mk d) (Ustates d) -> single_word d.
  Proof.
    intros Hwf Hh Hnc. pose proof (wf_kind d Hwf) as Hk. pose proof (wf_width d Hwf) as Hw.
    pose proof (wf_n_pos d Hwf) as Hn1.
    unfold single_word. destruct (g_width d) as [w|] eqn:Ew.
    - cbn [width_ok] in Hw.
      destruct (le_lt_dec (desc_n d * w) 64) as [Hle | Hgt]; [exact Hle | exfalso].
      destruct (high_bit_exists w (desc_n d) Hw Hgt) as (j & Hjw & Hj64 & Hj62).
      set (m := (desc_n d - 1)%nat). assert (desc_n d = S m) as Hn by (unfold m; lia).
      assert (Hpow : 0 < 2 ^ Z.of_nat j) by (apply Z.pow_pos_nonneg; lia).
      assert (Hok : entry_ok (Some w) (2 ^ Z.of_nat j)).
      { cbn [entry_ok]. split; [split; [lia|]|].
        - apply Z.pow_lt_mono_r; lia.
        - apply Z.le_lt_trans with (2 ^ 62); [apply Z.pow_le_mono_r; lia | unfold two63; lia]. }
      assert (H0 : entry_ok (Some w) 0) by (apply entry_ok_0; exact Hw).
      assert (Ha : Ustates d (repeat 0 (S m))).
      { split; [rewrite repeat_length; lia | rewrite Ew; apply CodecBits.Forall_repeat; exact H0]. }
      assert (Hb : Ustates d (repeat 0 m ++ [2 ^ Z.of_nat j])).
      { split; [rewrite app_length, repeat_length; cbn; lia | rewrite Ew; apply Forall_zeros_one; assumption]. }
      apply (zeros_one_neq m (2 ^ Z.of_nat j)); [lia|].
      apply (Hnc _ _ Ha Hb).
      unfold mk_impl. cbn [hashf]. unfold encoded_row. rewrite Hh, Hk, Ew. cbn [make_hash].
      fold (desc_n d). apply encode_word0_blind; [lia | lia |].
      intros k t Hkt Htw. rewrite CodecBits.nth_repeat0, nth_zeros_one, Z.bits_0.
      destruct (Nat.eqb_spec k m) as [-> | Hne]; [|rewrite Z.bits_0; reflexivity].
      symmetry. apply Z.pow2_bits_false. fold m in Hj64. lia.
    - destruct (Nat.eq_dec (desc_n d) 1) as [E1 | Hne]; [exact E1 | exfalso].
      set (m := (desc_n d - 1)%nat). assert (desc_n d = S m) as Hn by (unfold m; lia).
      assert (Ha : Ustates d (repeat 0 (S m))).
      { split; [rewrite repeat_length; lia | rewrite Ew; apply CodecBits.Forall_repeat; exact I]. }
      assert (Hb : Ustates d (repeat 0 m ++ [1])).
      { split; [rewrite app_length, repeat_length; cbn; lia | rewrite Ew; apply Forall_zeros_one; exact I]. }
      apply (zeros_one_neq m 1); [lia|].
      apply (Hnc _ _ Ha Hb).
      unfold mk_impl. cbn [hashf]. unfold encoded_row. rewrite Hh, Hk, Ew. cbn [make_hash].
      rewrite CodecBits.nth_repeat0, nth_zeros_one.
      destruct (Nat.eqb_spec 0 m) as [E0 | _]; [lia | reflexivity].
  Qed.

  Corollary identity_nocoll_iff d : wf_perm_desc d -> g_hasher d = HIdentity ->
    (NoCollOn (mk d) (Ustates d) <-> single_word d).
  Proof.
    intros Hwf Hh. split; [apply identity_nocoll_single_word | apply identity_nocoll]; assumption.
  Qed.

  (* the IdOK hypothesis from NoColl alone *)
  Theorem perm_IdOK_nocoll d : wf_perm_desc d -> NoCollOn (mk d) (Ustates d) ->
    is_identity (mk d) = true -> forall a, Ustates d a -> unword (mk d) (hashf (mk d) a) = a.
  Proof.
    intros Hwf Hnc. apply perm_IdOK; [exact Hwf|]. intros Hh. apply identity_nocoll_single_word; assumption.
  Qed.

  (* ---------------------------------------------------------------- *)
  (** * (d) inverse-closed generator sets are symmetric on the universe *)

  Theorem perm_symmetric d : wf_perm_desc d -> is_some (perm_inverse_map (desc_perms d)) = true ->
    symmetric_on state (acts (mk d)) (Ustates d).
  Proof.
    intros Hwf Hic g x Hg [Hx _]. destruct (perm_acts_in d g Hwf Hg) as (p & Hp & ->).
    destruct (wf_perm_in d p Hwf Hp) as [HP Hl].
    exists (apply_perm 0 (inverse_perm p)). split.
    - rewrite (perm_acts_wf d Hwf).
      apply (in_map (fun q : list nat => @apply_perm Z 0 q)).
      apply (proj1 (closed_flag_iff (desc_perms d)) Hic). exact Hp.
    - apply (inverse_undoes 0 p x HP). lia.
  Qed.

  (* the form the abstract theorems ask for; the flag is what the harness passes *)
  Theorem perm_Sym d : wf_perm_desc d -> flag_sound d ->
    inv_closed (mk d) = true -> symmetric_on state (acts (mk d)) (Ustates d).
  Proof. intros Hwf Hflag Hic. apply perm_symmetric; [exact Hwf | apply Hflag; exact Hic]. Qed.

  (* conversely an honest flag is necessary: without an inverse inside the set, some generator cannot be undone
     (stated for the record on the level of permutations: DefProofs.perm_inverse_map_none) *)

  (* ---------------------------------------------------------------- *)
  (** * with_flag: the flag computed by the model (PathRun.v) *)

  Lemma with_flag_perms d ps : desc_perms (with_flag d (GPerm ps)) = ps.
  Proof. reflexivity. Qed.

  Lemma with_flag_Ustates d k s : Ustates (with_flag d k) s <-> Ustates d s.
  Proof. unfold Ustates, desc_n, with_flag. cbn. tauto. Qed.

  Lemma with_flag_self_wf d : wf_perm_desc d -> wf_perm_desc (with_flag d (g_kind d)).
  Proof.
    intros (Hk & Hne & Hp & Hw & Hc & Hn1). unfold wf_perm_desc, desc_perms, desc_n, with_flag in *. cbn in *.
    repeat split; auto.
  Qed.

  Lemma with_flag_self_perms d : desc_perms (with_flag d (g_kind d)) = desc_perms d.
  Proof. reflexivity. Qed.

  Lemma with_flag_wf d ps : width_ok (g_width d) -> Forall (entry_ok (g_width d)) (g_central d) ->
    (1 <= desc_n d)%nat ->
    ps <> [] -> Forall (fun p => is_perm p = true /\ length p = desc_n d) ps ->
    wf_perm_desc (with_flag d (GPerm ps)).
  Proof.
    intros Hw Hc Hn1 Hne Hp. unfold wf_perm_desc, desc_perms, desc_n, with_flag in *. cbn in *.
    repeat split; auto.
  Qed.

  Lemma with_flag_inverted_wf d : wf_perm_desc d -> wf_perm_desc (with_flag d (GPerm (inverted_perms (desc_perms d)))).
  Proof.
    intros Hwf. pose proof Hwf as (Hk & Hne & Hp & Hw & Hc & Hn1). apply with_flag_wf; auto.
    - unfold inverted_perms. destruct (desc_perms d); [congruence | discriminate].
    - apply Forall_forall. intros q Hq. unfold inverted_perms in Hq. apply in_map_iff in Hq as (p & <- & Hin).
      destruct (wf_perm_in d p Hwf Hin) as [HP Hl]. split.
      + apply is_perm_iff. apply inverse_is_perm. exact HP.
      + rewrite inverse_perm_length. exact Hl.
  Qed.

  (* with the computed flag the symmetry hypothesis holds outright *)
  Theorem with_flag_Sym d k : wf_perm_desc (with_flag d k) ->
    inv_closed (mk (with_flag d k)) = true ->
    symmetric_on state (acts (mk (with_flag d k))) (Ustates (with_flag d k)).
  Proof.
    intros Hwf Hic. apply perm_symmetric; [exact Hwf|].
    cbn [mk_impl inv_closed with_flag g_inv_closed] in Hic.
    pose proof (wf_kind _ Hwf) as Hk. cbn [with_flag g_kind] in Hk. rewrite Hk in Hic. exact Hic.
  Qed.
End Inst.

(* ------------------------------------------------------------------ *)
(** * The bundle for impl_of d, in exactly the shape of the abstract theorems' hypotheses *)

Theorem impl_of_structural d :
  wf_perm_desc d ->
  (g_hasher d = HIdentity -> single_word d) ->
  flag_sound d ->
  let G := impl_of d in
  acts G = map (fun p => apply_perm 0 p) (desc_perms d) /\
  closed state (acts G) (Ustates d) /\
  Ustates d (central G) /\
  (is_identity G = true -> forall a, Ustates d a -> unword G (hashf G a) = a) /\
  (inv_closed G = true -> symmetric_on state (acts G) (Ustates d)).
Proof.
  intros Hwf Hsw Hflag G. unfold G, impl_of. split; [|split; [|split; [|split]]].
  - apply perm_acts_wf. exact Hwf.
  - apply perm_closed. exact Hwf.
  - apply (perm_central_U splitmix_steps hash_mult d Hwf).
  - apply perm_IdOK; assumption.
  - apply perm_Sym; assumption.
Qed.

(* the three non-hash hypotheses of the abstract BFS theorems from NoColl alone *)
Theorem impl_of_hyps d :
  wf_perm_desc d -> flag_sound d -> NoCollOn (impl_of d) (Ustates d) ->
  let G := impl_of d in
  closed state (acts G) (Ustates d) /\
  (is_identity G = true -> forall a, Ustates d a -> unword G (hashf G a) = a) /\
  (inv_closed G = true -> symmetric_on state (acts G) (Ustates d)).
Proof.
  intros Hwf Hflag Hnc G. unfold G, impl_of. split; [|split].
  - apply perm_closed. exact Hwf.
  - apply perm_IdOK_nocoll; assumption.
  - apply perm_Sym; assumption.
Qed.

(* descriptions as env_of builds them carry the computed flag, which is sound by construction *)
Lemma with_flag_flag_sound d ps : flag_sound (with_flag d (GPerm ps)).
Proof. unfold flag_sound. cbn. auto. Qed.

Lemma with_flag_self_flag_sound d : wf_perm_desc d -> flag_sound (with_flag d (g_kind d)).
Proof. intros Hwf. rewrite (wf_kind d Hwf). apply with_flag_flag_sound. Qed.

Theorem impl_of_identity_nocoll d :
  wf_perm_desc d -> g_hasher d = HIdentity -> single_word d ->
  NoCollOn (impl_of d) (Ustates d) /\
  forall a, Ustates d a -> unword (impl_of d) (hashf (impl_of d) a) = a.
Proof.
  intros Hwf Hh Hsw. split.
  - apply identity_nocoll; assumption.
  - intros a Ha. apply identity_unword; assumption.
Qed.

(* ------------------------------------------------------------------ *)
(** * Non-vacuity *)

(* LRX on 5 symbols (left shift, right shift, swap of the first two), width 3, one code word, identity hasher *)
Definition lrx5 : gdesc :=
  {| g_kind := GPerm [[1;2;3;4;0]; [4;0;1;2;3]; [1;0;2;3;4]]%nat;
     g_central := [0;1;2;3;4]; g_width := Some 3%nat; g_hasher := HIdentity; g_inv_closed := true |}.

(* 24 symbols of width 5: two code words, splitmix hasher with seed 7; generators: a 24-cycle and a swap *)
Definition big24 : gdesc :=
  {| g_kind := GPerm [ (seq 1 23 ++ [0]); ([1;0] ++ seq 2 22) ]%nat;
     g_central := map Z.of_nat (seq 0 24); g_width := Some 5%nat; g_hasher := HSplitmix 7; g_inv_closed := false |}.

(* un-encoded, dot-product hasher *)
Definition raw3 : gdesc :=
  {| g_kind := GPerm [[1;2;0]; [2;0;1]]%nat;
     g_central := [10; -3; 7]; g_width := None; g_hasher := HDot [3; 5; 11]; g_inv_closed := true |}.

Example lrx5_wf : wf_perm_desc lrx5.
Proof. apply wf_perm_descb_spec. vm_compute. reflexivity. Qed.
Example lrx5_single : single_word lrx5.
Proof. apply single_wordb_spec. vm_compute. reflexivity. Qed.
Example lrx5_flag : flag_sound lrx5.
Proof. intros _. vm_compute. reflexivity. Qed.
Example lrx5_state : Ustates lrx5 [3;1;4;0;2].
Proof. apply Ustatesb_spec. vm_compute. reflexivity. Qed.

Example big24_wf : wf_perm_desc big24.
Proof. apply wf_perm_descb_spec. vm_compute. reflexivity. Qed.
Example big24_two_words : encoded_length 5 (desc_n big24) = 2%nat /\ ~ single_word big24.
Proof. split; [vm_compute; reflexivity|]. intros H. apply single_wordb_spec in H. vm_compute in H. discriminate. Qed.
Example big24_flag : flag_sound big24.
Proof. intros H. vm_compute in H. discriminate. Qed.

Example raw3_wf : wf_perm_desc raw3.
Proof. apply wf_perm_descb_spec. vm_compute. reflexivity. Qed.

(* the unconditional facts on the one-word example *)
Example lrx5_nocoll : NoCollOn (impl_of lrx5) (Ustates lrx5).
Proof. apply (impl_of_identity_nocoll lrx5 lrx5_wf eq_refl lrx5_single). Qed.
Example lrx5_structural :
  closed state (acts (impl_of lrx5)) (Ustates lrx5) /\ Ustates lrx5 (central (impl_of lrx5)) /\
  symmetric_on state (acts (impl_of lrx5)) (Ustates lrx5).
Proof.
  destruct (impl_of_structural lrx5 lrx5_wf (fun _ => lrx5_single) lrx5_flag) as (_ & H1 & H2 & _ & H4).
  split; [exact H1 | split; [exact H2 | apply H4; reflexivity]].
Qed.
Example big24_structural :
  closed state (acts (impl_of big24)) (Ustates big24) /\ Ustates big24 (central (impl_of big24)).
Proof.
  assert (Hh : g_hasher big24 = HIdentity -> single_word big24) by (intros H; discriminate).
  destruct (impl_of_structural big24 big24_wf Hh big24_flag) as (_ & H1 & H2 & _). split; auto.
Qed.

Print Assumptions impl_of_structural.
Print Assumptions impl_of_hyps.
Print Assumptions identity_nocoll_iff.
Print Assumptions impl_of_identity_nocoll.
Print Assumptions perm_closed.
Print Assumptions perm_symmetric.
Print Assumptions with_flag_Sym.
Print Assumptions lrx5_nocoll.
