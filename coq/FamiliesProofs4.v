(** C15, fourth part: theorems that hold for EVERY n (no bound) about the three permutation families whose
    generators are written directly as concatenations of ranges: [signed_reversals], [transposons],
    [block_interchange].

    Same style as FamiliesProofs2.v.  For each family: the constructor returns [Ok] exactly on the
    documented parameter range (and [AssertionErr] outside), the generators are given in closed form as
    a [map] of a closed-form generator over an explicit index list (generator names are a [map] of the
    documented f-string over the SAME index list, so names and generators correspond index by index),
    each generator is a permutation of the documented length ([PermN]), the number of generators is the
    documented formula (stated without division), the action on an arbitrary sequence x ([apply_perm],
    library convention new[t] = old[p[t]]) is the documented rearrangement, and the set is inverse-closed
    ([closed_flag] = the flag computed by the library), the inverse of every generator being named. *)
From Coq Require Import String.
From Coq Require Import ZArith List Bool Arith Lia Sorting.Mergesort Sorting.Permutation.
From V Require Import Base Perm PermProofs PermCycles Def DefProofs Families FamiliesProofs FamiliesProofs2.
Import ListNotations.
Open Scope nat_scope.

(* ---------------------------------------------------------------------------------------------- *)
(** * Infrastructure *)

(* pointwise reading of a concatenation of ranges *)
Lemma nth_app_seq a m r t : nth t (seq a m ++ r) 0 = if t <? m then a + t else nth (t - m) r 0.
Proof.
  destruct (Nat.ltb_spec t m).
  - rewrite app_nth1 by (rewrite seq_length; lia). apply seq_nth. lia.
  - rewrite app_nth2 by (rewrite seq_length; lia). now rewrite seq_length.
Qed.

Lemma nth_app_rev_seq a m r t :
  nth t (rev (seq a m) ++ r) 0 = if t <? m then a + m - 1 - t else nth (t - m) r 0.
Proof.
  destruct (Nat.ltb_spec t m).
  - rewrite app_nth1 by (rewrite rev_length, seq_length; lia). apply nth_rev_seq. lia.
  - rewrite app_nth2 by (rewrite rev_length, seq_length; lia). now rewrite rev_length, seq_length.
Qed.

Lemma nth_seq_if a m t : nth t (seq a m) 0 = if t <? m then a + t else 0.
Proof.
  destruct (Nat.ltb_spec t m); [apply seq_nth; lia|]. apply nth_overflow. rewrite seq_length. lia.
Qed.

(* two lists of indices, the second undoing the first pointwise: the first is a permutation and the
   second is its inverse (generalises [involution_PermN]) *)
Lemma inverse_pair_PermN n p q : length p = n -> length q = n ->
  (forall t, t < n -> nth t p 0 < n /\ nth (nth t p 0) q 0 = t) -> PermN n p /\ inverse_perm p = q.
Proof.
  intros Lp Lq H.
  assert (Perm p) as HP.
  { apply NoDup_lt_Perm.
    - apply (proj2 (NoDup_nth p 0)). intros a b Ha Hb E. rewrite Lp in Ha, Hb.
      destruct (H a Ha) as [_ Ea]. destruct (H b Hb) as [_ Eb]. rewrite <- Ea, <- Eb, E. reflexivity.
    - intros x Hx. apply In_nth with (d := 0) in Hx as (t & Ht & E). rewrite <- E, Lp. apply H. lia. }
  split; [split; assumption|]. apply inverse_by_spec; [exact HP|congruence|].
  rewrite Lp. intros t Ht. apply H. exact Ht.
Qed.

Lemma flat_map_of_nats {B} (F : Z -> list B) l : flat_map F (of_nats l) = flat_map (fun i => F (Z.of_nat i)) l.
Proof. induction l as [|a l IH]; [reflexivity|]. cbn [of_nats map flat_map]. f_equal. exact IH. Qed.

Lemma map_of_nats {B} (F : Z -> B) l : map F (of_nats l) = map (fun i => F (Z.of_nat i)) l.
Proof. unfold of_nats. apply map_map. Qed.

(* triangular sums: sum_{j = a}^{a+m-1} (c + a + m - j) = m (m + 1) / 2 + c m; used with the inner loops
   [for j in range(i, n)] (c = 0, rows of length n - j) *)
Lemma tri_length {B} (f : nat -> list B) n : (forall j, j < n -> length (f j) = n - j) ->
  forall m a, a + m = n -> 2 * length (flat_map f (seq a m)) = m * (m + 1).
Proof.
  intros Hf. induction m as [|m IH]; intros a E; [reflexivity|].
  cbn [seq flat_map]. rewrite app_length, Hf by lia. specialize (IH (S a) ltac:(lia)). nia.
Qed.

(* ---------------------------------------------------------------------------------------------- *)
(** * signed_reversals(n), n >= 1: S_2n, the n(n+1)/2 signed reversals R[i..j], 0 <= i <= j < n.
      Index t < n is the bottom side of element t, index n + t its top side. *)

(* R[i..j] in closed form *)
Definition gen_srev (n i j : nat) : list nat :=
  seq 0 i ++ rev (seq (n + i) (j + 1 - i)) ++ seq (j + 1) (n - (j + 1))
  ++ seq n i ++ rev (seq i (j + 1 - i)) ++ seq (n + j + 1) (n - (j + 1)).

(* the documented action on x (length 2n): the block i..j of the first half is replaced by the reversed
   block i..j of the second half and vice versa *)
Definition signed_rev {A} (n i j : nat) (x : list A) : list A :=
  firstn i x ++ rev (firstn (j + 1 - i) (skipn (n + i) x)) ++ firstn (n - (j + 1)) (skipn (j + 1) x)
  ++ firstn i (skipn n x) ++ rev (firstn (j + 1 - i) (skipn i x)) ++ skipn (n + j + 1) x.

(* the index list, in generation order: for i in range(n): for j in range(i, n) *)
Definition sr_pairs (n : nat) : list (nat * nat) :=
  flat_map (fun i => map (fun j => (i, j)) (seq i (n - i))) (seq 0 n).

Lemma in_sr_pairs n i j : In (i, j) (sr_pairs n) <-> i <= j < n.
Proof.
  unfold sr_pairs. rewrite in_flat_map. split.
  - intros (i' & Hi' & H). apply in_map_iff in H as (j' & [= <- <-] & Hj'). apply in_seq in Hi', Hj'. lia.
  - intros H. exists i. split; [apply in_seq; lia|]. apply in_map. apply in_seq. lia.
Qed.

(* n + (n-1) + ... + 1 = n(n+1)/2 *)
Lemma sr_pairs_length n : 2 * length (sr_pairs n) = n * (n + 1).
Proof.
  unfold sr_pairs. apply (tri_length _ n); [|lia]. intros j Hj. now rewrite map_length, seq_length.
Qed.

Lemma zsr_pairs_nat n :
  flat_map (fun i => map (fun j => (i, j)) (zrange i (Z.of_nat n))) (zrange 0 (Z.of_nat n))
  = map zpair (sr_pairs n).
Proof.
  rewrite zrange0_nat, flat_map_of_nats. unfold sr_pairs. rewrite map_flat_map.
  apply flat_map_ext. intros i. rewrite zrange_nat, map_of_nats, map_map. reflexivity.
Qed.

Lemma gen_srev_length n i j : i <= j -> j < n -> length (gen_srev n i j) = 2 * n.
Proof. intros H1 H2. unfold gen_srev. rewrite !app_length, !rev_length, !seq_length. lia. Qed.

(* R[i..j] as a map: t in i..j and n+i..n+j go to the mirror position of the other half *)
Lemma gen_srev_nth n i j t : i <= j -> j < n -> t < 2 * n ->
  nth t (gen_srev n i j) 0 =
    if t <? i then t else if t <? j + 1 then n + i + j - t else if t <? n + i then t
    else if t <? n + j + 1 then n + i + j - t else t.
Proof.
  intros H1 H2 Ht. unfold gen_srev.
  rewrite nth_app_seq, nth_app_rev_seq, nth_app_seq, nth_app_seq, nth_app_rev_seq, nth_seq_if.
  repeat match goal with |- context [Nat.ltb ?a ?b] => destruct (Nat.ltb_spec a b) end; lia.
Qed.

Lemma gen_srev_inv n i j : i <= j -> j < n ->
  PermN (2 * n) (gen_srev n i j) /\ inverse_perm (gen_srev n i j) = gen_srev n i j.
Proof.
  intros H1 H2. apply involution_PermN; [apply gen_srev_length; assumption|].
  intros t Ht. rewrite (gen_srev_nth n i j t H1 H2 Ht).
  assert (forall u, u < 2 * n -> nth u (gen_srev n i j) 0 =
    if u <? i then u else if u <? j + 1 then n + i + j - u else if u <? n + i then u
    else if u <? n + j + 1 then n + i + j - u else u) as F by (intros u Hu; apply gen_srev_nth; assumption).
  destruct (Nat.ltb_spec t i); [|destruct (Nat.ltb_spec t (j + 1)); [|destruct (Nat.ltb_spec t (n + i));
    [|destruct (Nat.ltb_spec t (n + j + 1))]]];
  (split; [lia|]); rewrite F by lia;
  repeat match goal with |- context [Nat.ltb ?a ?b] => destruct (Nat.ltb_spec a b) end; lia.
Qed.

Lemma apply_gen_srev {A} (d : A) n i j (x : list A) : i <= j -> j < n -> length x = 2 * n ->
  apply_perm d (gen_srev n i j) x = signed_rev n i j x.
Proof.
  intros H1 H2 L. unfold gen_srev, signed_rev.
  rewrite !apply_app, !apply_rev, !apply_seq by lia. cbn [skipn].
  do 5 f_equal. apply firstn_skipn_all. lia.
Qed.

Lemma firstn_app_l {A} k (b t : list A) : k <= length b -> firstn k (b ++ t) = firstn k b.
Proof. intros H. rewrite firstn_app. replace (k - length b) with 0 by lia. cbn [firstn]. apply app_nil_r. Qed.

Lemma skipn_app_l {A} k (b t : list A) : k <= length b -> skipn k (b ++ t) = skipn k b ++ t.
Proof. intros H. rewrite skipn_app. replace (k - length b) with 0 by lia. reflexivity. Qed.

Lemma skipn_app_r {A} k (b t : list A) : skipn (length b + k) (b ++ t) = skipn k t.
Proof.
  rewrite skipn_app. rewrite skipn_all2 by lia. replace (length b + k - length b) with k by lia. reflexivity.
Qed.

(* the same action read on the two halves x = bottoms ++ tops *)
Lemma signed_rev_halves {A} n i j (b t : list A) : i <= j -> j < n -> length b = n -> length t = n ->
  signed_rev n i j (b ++ t)
  = (firstn i b ++ rev (firstn (j + 1 - i) (skipn i t)) ++ skipn (j + 1) b)
    ++ (firstn i t ++ rev (firstn (j + 1 - i) (skipn i b)) ++ skipn (j + 1) t).
Proof.
  intros H1 H2 Lb Lt. unfold signed_rev.
  rewrite (firstn_app_l i) by lia.
  replace (n + i) with (length b + i) by lia. rewrite skipn_app_r.
  rewrite (skipn_app_l (j + 1)) by lia.
  rewrite (firstn_app_l (n - (j + 1))) by (rewrite skipn_length; lia).
  rewrite (firstn_all2 (skipn (j + 1) b)) by (rewrite skipn_length; lia).
  replace n with (length b + 0) at 1 by lia. rewrite skipn_app_r. cbn [skipn].
  rewrite (skipn_app_l i) by lia.
  rewrite (firstn_app_l (j + 1 - i)) by (rewrite skipn_length; lia).
  replace (n + j + 1) with (length b + (j + 1)) by lia. rewrite skipn_app_r.
  rewrite <- !app_assoc. reflexivity.
Qed.

Lemma srev_eq n i j : i <= j -> j < n ->
  zrange 0 (Z.of_nat i) ++ zrange_down (Z.of_nat n + Z.of_nat j) (Z.of_nat n + Z.of_nat i - 1)
  ++ zrange (Z.of_nat j + 1) (Z.of_nat n) ++ zrange (Z.of_nat n) (Z.of_nat n + Z.of_nat i)
  ++ zrange_down (Z.of_nat j) (Z.of_nat i - 1) ++ zrange (Z.of_nat n + Z.of_nat j + 1) (Z.of_nat n + Z.of_nat n)
  = of_nats (gen_srev n i j).
Proof.
  intros H1 H2. unfold gen_srev. rewrite !of_nats_app.
  rewrite (zrange_nat' _ _ 0 i) by lia.
  rewrite (zrange_down_nat' _ _ (n + i) (n + j + 1)) by lia.
  rewrite (zrange_nat' _ _ (j + 1) n) by lia.
  rewrite (zrange_nat' _ _ n (n + i)) by lia.
  rewrite (zrange_down_nat' _ _ i (j + 1)) by lia.
  rewrite (zrange_nat' _ _ (n + j + 1) (n + n)) by lia.
  replace (i - 0) with i by lia. replace (n + j + 1 - (n + i)) with (j + 1 - i) by lia.
  replace (n + i - n) with i by lia. replace (n + n - (n + j + 1)) with (n - (j + 1)) by lia. reflexivity.
Qed.

Definition sr_gens (n : nat) : list (list nat) := map (fun ij => gen_srev n (fst ij) (snd ij)) (sr_pairs n).
Definition sr_names (n : nat) : list string :=
  map (fun ij => cat ["R["; zs (Z.of_nat (fst ij)); ".."; zs (Z.of_nat (snd ij)); "]"]) (sr_pairs n).

Theorem signed_reversals_returns n : 1 <= n ->
  returns_full (signed_reversals (Z.of_nat n)) (2 * n) (sr_gens n) (sr_names n) "".
Proof.
  intros Hn. unfold signed_reversals. zguard. rewrite zsr_pairs_nat, !map_map.
  rewrite (map_ext_in _ (fun ij => of_nats (gen_srev n (fst ij) (snd ij)))).
  2:{ intros [i j] Hij. apply in_sr_pairs in Hij. cbn [zpair fst snd]. apply srev_eq; lia. }
  rewrite <- (map_map (fun ij => gen_srev n (fst ij) (snd ij)) of_nats).
  rewrite (map_ext (fun x => let '(i, j) := zpair x in cat ["R["; zs i; ".."; zs j; "]"])
                   (fun ij => cat ["R["; zs (Z.of_nat (fst ij)); ".."; zs (Z.of_nat (snd ij)); "]"]))
    by (intros [i j]; reflexivity).
  rewrite Z_of_nat_2n. apply create_full.
  - assert (In (0, 0) (sr_pairs n)) as Hij by (apply in_sr_pairs; lia).
    unfold sr_gens. destruct (sr_pairs n); [destruct Hij|discriminate].
  - lia.
  - apply Forall_forall. intros p Hp. apply in_map_iff in Hp as ([i j] & <- & Hij). apply in_sr_pairs in Hij.
    apply gen_srev_inv; cbn; lia.
  - unfold sr_gens, sr_names. now rewrite !map_length.
Qed.

(* signed_reversals: full statement.  The generator list and the name list are maps over the same index
   list [sr_pairs n] = [(i, j) | 0 <= i <= j < n] (generation order), hence correspond index by index. *)
Theorem signed_reversals_documented n : 1 <= n ->
  exists d, signed_reversals (Z.of_nat n) = Ok d /\
    p_gens d = map (fun ij => gen_srev n (fst ij) (snd ij)) (sr_pairs n) /\
    p_names d = map (fun ij => cat ["R["; zs (Z.of_nat (fst ij)); ".."; zs (Z.of_nat (snd ij)); "]"]) (sr_pairs n) /\
    p_name d = ""%string /\ p_central d = of_nats (seq 0 (2 * n)) /\
    (forall i j, In (i, j) (sr_pairs n) <-> i <= j < n) /\
    2 * length (p_gens d) = n * (n + 1) /\ length (p_names d) = length (p_gens d) /\
    Forall (PermN (2 * n)) (p_gens d) /\
    (forall p, In p (p_gens d) <-> exists i j, i <= j < n /\ p = gen_srev n i j) /\
    (forall i j, i <= j < n ->
       inverse_perm (gen_srev n i j) = gen_srev n i j /\
       (forall t, t < 2 * n -> nth t (gen_srev n i j) 0 =
          if t <? i then t else if t <? j + 1 then n + i + j - t else if t <? n + i then t
          else if t <? n + j + 1 then n + i + j - t else t) /\
       (forall (A : Type) (dflt : A) (x : list A), length x = 2 * n ->
          apply_perm dflt (gen_srev n i j) x
          = firstn i x ++ rev (firstn (j + 1 - i) (skipn (n + i) x)) ++ firstn (n - (j + 1)) (skipn (j + 1) x)
            ++ firstn i (skipn n x) ++ rev (firstn (j + 1 - i) (skipn i x)) ++ skipn (n + j + 1) x) /\
       (forall (A : Type) (dflt : A) (b t : list A), length b = n -> length t = n ->
          apply_perm dflt (gen_srev n i j) (b ++ t)
          = (firstn i b ++ rev (firstn (j + 1 - i) (skipn i t)) ++ skipn (j + 1) b)
            ++ (firstn i t ++ rev (firstn (j + 1 - i) (skipn i b)) ++ skipn (j + 1) t))) /\
    closed_flag (p_gens d) = true.
Proof.
  intros Hn. destruct (returns_full_fields _ _ _ _ _ (signed_reversals_returns n Hn)) as (d & E & G & N & M & C).
  exists d. rewrite G, N.
  split; [exact E|]. split; [reflexivity|]. split; [reflexivity|]. split; [exact M|]. split; [exact C|].
  split; [apply in_sr_pairs|]. unfold sr_gens, sr_names. rewrite !map_length.
  split; [apply sr_pairs_length|]. split; [reflexivity|]. split; [|split; [|split]].
  - apply Forall_forall. intros p Hp. apply in_map_iff in Hp as ([i j] & <- & Hij). apply in_sr_pairs in Hij.
    apply gen_srev_inv; cbn; lia.
  - intros p. rewrite in_map_iff. split.
    + intros ([i j] & <- & Hij). apply in_sr_pairs in Hij. exists i, j. split; [lia|reflexivity].
    + intros (i & j & Hij & ->). exists (i, j). split; [reflexivity|]. apply in_sr_pairs. lia.
  - intros i j Hij. split; [apply gen_srev_inv; lia|]. split; [|split].
    + intros t Ht. apply gen_srev_nth; lia.
    + intros A dflt x L. apply (apply_gen_srev dflt n i j x); lia.
    + intros A dflt b t Lb Lt. rewrite (apply_gen_srev dflt n i j) by (try rewrite app_length; lia).
      apply signed_rev_halves; lia.
  - apply closed_of_involutions. intros p Hp. apply in_map_iff in Hp as ([i j] & <- & Hij).
    apply in_sr_pairs in Hij. apply gen_srev_inv; cbn; lia.
Qed.

Theorem signed_reversals_range z :
  ((exists d, signed_reversals z = Ok d) <-> (1 <= z)%Z) /\
  (~ (1 <= z)%Z -> signed_reversals z = Err AssertionErr).
Proof.
  apply range_from_cases.
  - intros Hz. destruct (signed_reversals_documented (Z.to_nat z)) as (d & E & _); try lia.
    exists d. rewrite !Z2Nat.id in E by lia. exact E.
  - intros HN. unfold signed_reversals. destruct (Z.leb_spec 1 z); [lia|reflexivity].
  - lia.
Qed.

Example signed_reversals_3 :
  signed_reversals 3 = Ok {| p_gens := [[3; 1; 2; 0; 4; 5]; [4; 3; 2; 1; 0; 5]; [5; 4; 3; 2; 1; 0];
                                         [0; 4; 2; 3; 1; 5]; [0; 5; 4; 3; 2; 1]; [0; 1; 5; 3; 4; 2]];
       p_names := ["R[0..0]"; "R[0..1]"; "R[0..2]"; "R[1..1]"; "R[1..2]"; "R[2..2]"]%string;
       p_name := ""%string; p_central := [0; 1; 2; 3; 4; 5]%Z |}
  /\ sr_pairs 3 = [(0, 0); (0, 1); (0, 2); (1, 1); (1, 2); (2, 2)]
  /\ sr_gens 3 = [[3; 1; 2; 0; 4; 5]; [4; 3; 2; 1; 0; 5]; [5; 4; 3; 2; 1; 0];
                  [0; 4; 2; 3; 1; 5]; [0; 5; 4; 3; 2; 1]; [0; 1; 5; 3; 4; 2]]
  /\ apply_perm "?"%string (gen_srev 3 1 2) ["b0"; "b1"; "b2"; "t0"; "t1"; "t2"]%string
     = ["b0"; "t2"; "t1"; "t0"; "b2"; "b1"]%string
  /\ signed_rev 3 1 2 ["b0"; "b1"; "b2"; "t0"; "t1"; "t2"]%string = ["b0"; "t2"; "t1"; "t0"; "b2"; "b1"]%string
  /\ signed_reversals 0 = Err AssertionErr /\ signed_reversals (-2) = Err AssertionErr.
Proof. vm_compute. repeat split. Qed.

(* ---------------------------------------------------------------------------------------------- *)
(** * transposons(n), n >= 2: S_n, the C(n+1,3) transposons T[i..j-1,k], 0 <= i < j <= k < n: the substring
      x[i..j-1] is cut out and re-inserted behind x[j..k]. *)

(* T[i..j-1,k] in closed form *)
Definition gen_tpos (n i j k : nat) : list nat :=
  seq 0 i ++ seq j (k + 1 - j) ++ seq i (j - i) ++ seq (k + 1) (n - (k + 1)).

(* the documented action: x[0..i-1], x[j..k], x[i..j-1], x[k+1..] *)
Definition move_block {A} (i j k : nat) (x : list A) : list A :=
  firstn i x ++ firstn (k + 1 - j) (skipn j x) ++ firstn (j - i) (skipn i x) ++ skipn (k + 1) x.

(* the index list, in generation order: for i in range(n): for j in range(i+1, n): for k in range(j, n) *)
Definition tp_triples (n : nat) : list (nat * nat * nat) :=
  flat_map (fun i => flat_map (fun j => map (fun k => (i, j, k)) (seq j (n - j)))
                              (seq (i + 1) (n - (i + 1)))) (seq 0 n).
Definition ztriple (t : nat * nat * nat) : Z * Z * Z :=
  let '(i, j, k) := t in (Z.of_nat i, Z.of_nat j, Z.of_nat k).

Lemma in_tp_triples n i j k : In (i, j, k) (tp_triples n) <-> i < j /\ j <= k /\ k < n.
Proof.
  unfold tp_triples. rewrite in_flat_map. split.
  - intros (i' & Hi' & H). apply in_flat_map in H as (j' & Hj' & H).
    apply in_map_iff in H as (k' & [= <- <- <-] & Hk'). apply in_seq in Hi', Hj', Hk'. lia.
  - intros (H1 & H2 & H3). exists i. split; [apply in_seq; lia|]. apply in_flat_map. exists j.
    split; [apply in_seq; lia|]. apply in_map. apply in_seq. lia.
Qed.

(* tetrahedral sums: if row i has (n-i-1)(n-i)/2 entries then rows a..n-1 have (m+1)m(m-1)/6, m = n-a *)
Lemma tetra_length {B} (f : nat -> list B) n :
  (forall i, i < n -> 2 * length (f i) = (n - (i + 1)) * (n - i)) ->
  forall m a, a + m = n -> 6 * length (flat_map f (seq a m)) = (m + 1) * m * (m - 1).
Proof.
  intros Hf. induction m as [|m IH]; intros a E; [reflexivity|].
  cbn [seq flat_map]. rewrite app_length. specialize (IH (S a) ltac:(lia)).
  pose proof (Hf a ltac:(lia)) as Ha. replace (n - (a + 1)) with m in Ha by lia.
  replace (n - a) with (m + 1) in Ha by lia.
  destruct m as [|m]; [cbn in *; lia|]. replace (S m - 1) with m in IH by lia.
  replace (S (S m) - 1) with (S m) by lia. nia.
Qed.

(* for fixed i the pairs j <= k in i+1..n-1: (n-i-1)(n-i)/2; summed over i: C(n+1,3) = (n+1)n(n-1)/6 *)
Lemma tp_triples_length n : 6 * length (tp_triples n) = (n + 1) * n * (n - 1).
Proof.
  unfold tp_triples. apply (tetra_length _ n); [|lia]. intros i Hi.
  rewrite (tri_length _ n); [lia| |lia]. intros j Hj. now rewrite map_length, seq_length.
Qed.

Lemma ztp_triples_nat n :
  flat_map (fun i => flat_map (fun j => map (fun k => (i, j, k)) (zrange j (Z.of_nat n)))
                              (zrange (i + 1) (Z.of_nat n))) (zrange 0 (Z.of_nat n))
  = map ztriple (tp_triples n).
Proof.
  rewrite zrange0_nat, flat_map_of_nats. unfold tp_triples. rewrite map_flat_map.
  apply flat_map_ext. intros i. rewrite (zrange_nat' _ _ (i + 1) n) by lia.
  rewrite flat_map_of_nats, map_flat_map. apply flat_map_ext. intros j.
  rewrite zrange_nat, map_of_nats, map_map. reflexivity.
Qed.

Lemma gen_tpos_length n i j k : i < j -> j <= k -> k < n -> length (gen_tpos n i j k) = n.
Proof. intros H1 H2 H3. unfold gen_tpos. rewrite !app_length, !seq_length. lia. Qed.

(* T[i..j-1,k] as a map: positions i.. receive the k+1-j points j..k, then the j-i points i..j-1 *)
Lemma gen_tpos_nth n i j k t : i < j -> j <= k -> k < n -> t < n ->
  nth t (gen_tpos n i j k) 0 =
    if t <? i then t else if t <? i + (k + 1 - j) then t + (j - i) else if t <? k + 1 then t - (k + 1 - j) else t.
Proof.
  intros H1 H2 H3 Ht. unfold gen_tpos.
  rewrite !nth_app_seq, nth_seq_if.
  repeat match goal with |- context [Nat.ltb ?a ?b] => destruct (Nat.ltb_spec a b) end; lia.
Qed.

(* the inverse of T[i..j-1,k] is T[i..i+k-j,k]: it moves the k+1-j points back behind the j-i points *)
Lemma gen_tpos_inv n i j k : i < j -> j <= k -> k < n ->
  PermN n (gen_tpos n i j k) /\ inverse_perm (gen_tpos n i j k) = gen_tpos n i (i + k + 1 - j) k.
Proof.
  intros H1 H2 H3. apply inverse_pair_PermN; [apply gen_tpos_length; lia|apply gen_tpos_length; lia|].
  intros t Ht. rewrite (gen_tpos_nth n i j k t H1 H2 H3 Ht).
  assert (forall u, u < n -> nth u (gen_tpos n i (i + k + 1 - j) k) 0 =
    if u <? i then u else if u <? i + (k + 1 - (i + k + 1 - j)) then u + (i + k + 1 - j - i)
    else if u <? k + 1 then u - (k + 1 - (i + k + 1 - j)) else u) as F
    by (intros u Hu; apply gen_tpos_nth; lia).
  destruct (Nat.ltb_spec t i); [|destruct (Nat.ltb_spec t (i + (k + 1 - j))); [|destruct (Nat.ltb_spec t (k + 1))]];
  (split; [lia|]); rewrite F by lia;
  repeat match goal with |- context [Nat.ltb ?a ?b] => destruct (Nat.ltb_spec a b) end; lia.
Qed.

Lemma apply_gen_tpos {A} (d : A) n i j k (x : list A) : i < j -> j <= k -> k < n -> length x = n ->
  apply_perm d (gen_tpos n i j k) x = move_block i j k x.
Proof.
  intros H1 H2 H3 L. unfold gen_tpos, move_block.
  rewrite !apply_app, !apply_seq by lia. cbn [skipn].
  do 3 f_equal. apply firstn_skipn_all. lia.
Qed.

Lemma tpos_eq n i j k : i < j -> j <= k -> k < n ->
  zrange 0 (Z.of_nat i) ++ zrange (Z.of_nat j) (Z.of_nat k + 1) ++ zrange (Z.of_nat i) (Z.of_nat j)
  ++ zrange (Z.of_nat k + 1) (Z.of_nat n) = of_nats (gen_tpos n i j k).
Proof.
  intros H1 H2 H3. unfold gen_tpos. rewrite !of_nats_app.
  rewrite (zrange_nat' _ _ 0 i) by lia.
  rewrite (zrange_nat' _ _ j (k + 1)) by lia.
  rewrite (zrange_nat' _ _ i j) by lia.
  rewrite (zrange_nat' _ _ (k + 1) n) by lia.
  replace (i - 0) with i by lia. reflexivity.
Qed.

Definition tp_gens (n : nat) : list (list nat) :=
  map (fun t => let '(i, j, k) := t in gen_tpos n i j k) (tp_triples n).
Definition tp_names (n : nat) : list string :=
  map (fun t => let '(i, j, k) := t in
         cat ["T["; zs (Z.of_nat i); ".."; zs (Z.of_nat j - 1); ","; zs (Z.of_nat k); "]"]) (tp_triples n).

Theorem transposons_returns n : 2 <= n ->
  returns_full (transposons (Z.of_nat n)) n (tp_gens n) (tp_names n) "".
Proof.
  intros Hn. unfold transposons. zguard. rewrite ztp_triples_nat, !map_map.
  rewrite (map_ext_in _ (fun t => of_nats (let '(i, j, k) := t in gen_tpos n i j k))).
  2:{ intros [[i j] k] Ht. apply in_tp_triples in Ht. cbn [ztriple]. apply tpos_eq; lia. }
  rewrite <- (map_map (fun t => let '(i, j, k) := t in gen_tpos n i j k) of_nats). fold (tp_gens n).
  rewrite (map_ext _ (fun t => let '(i, j, k) := t in
             cat ["T["; zs (Z.of_nat i); ".."; zs (Z.of_nat j - 1); ","; zs (Z.of_nat k); "]"]))
    by (intros [[i j] k]; reflexivity).
  fold (tp_names n). apply create_full.
  - assert (In (0, 1, 1) (tp_triples n)) as Hin by (apply in_tp_triples; lia).
    unfold tp_gens. destruct (tp_triples n); [destruct Hin|discriminate].
  - lia.
  - apply Forall_forall. intros p Hp. apply in_map_iff in Hp as ([[i j] k] & <- & Ht). apply in_tp_triples in Ht.
    apply gen_tpos_inv; lia.
  - unfold tp_gens, tp_names. now rewrite !map_length.
Qed.

(* transposons: full statement.  Generators and names are maps over the same index list
   [tp_triples n] = [(i, j, k) | 0 <= i < j <= k < n] in generation order. *)
Theorem transposons_documented n : 2 <= n ->
  exists d, transposons (Z.of_nat n) = Ok d /\
    p_gens d = map (fun t => let '(i, j, k) := t in gen_tpos n i j k) (tp_triples n) /\
    p_names d = map (fun t => let '(i, j, k) := t in
                  cat ["T["; zs (Z.of_nat i); ".."; zs (Z.of_nat j - 1); ","; zs (Z.of_nat k); "]"]) (tp_triples n) /\
    p_name d = ""%string /\ p_central d = of_nats (seq 0 n) /\
    (forall i j k, In (i, j, k) (tp_triples n) <-> i < j /\ j <= k /\ k < n) /\
    6 * length (p_gens d) = (n + 1) * n * (n - 1) /\ length (p_names d) = length (p_gens d) /\
    Forall (PermN n) (p_gens d) /\
    (forall p, In p (p_gens d) <-> exists i j k, i < j /\ j <= k /\ k < n /\ p = gen_tpos n i j k) /\
    (forall i j k, i < j -> j <= k -> k < n ->
       inverse_perm (gen_tpos n i j k) = gen_tpos n i (i + k + 1 - j) k /\
       (forall t, t < n -> nth t (gen_tpos n i j k) 0 =
          if t <? i then t else if t <? i + (k + 1 - j) then t + (j - i)
          else if t <? k + 1 then t - (k + 1 - j) else t) /\
       (forall (A : Type) (dflt : A) (x : list A), length x = n ->
          apply_perm dflt (gen_tpos n i j k) x
          = firstn i x ++ firstn (k + 1 - j) (skipn j x) ++ firstn (j - i) (skipn i x) ++ skipn (k + 1) x)) /\
    closed_flag (p_gens d) = true.
Proof.
  intros Hn. destruct (returns_full_fields _ _ _ _ _ (transposons_returns n Hn)) as (d & E & G & N & M & C).
  exists d. rewrite G, N.
  split; [exact E|]. split; [reflexivity|]. split; [reflexivity|]. split; [exact M|]. split; [exact C|].
  split; [apply in_tp_triples|]. unfold tp_gens, tp_names. rewrite !map_length.
  split; [apply tp_triples_length|]. split; [reflexivity|]. split; [|split; [|split]].
  - apply Forall_forall. intros p Hp. apply in_map_iff in Hp as ([[i j] k] & <- & Ht). apply in_tp_triples in Ht.
    apply gen_tpos_inv; lia.
  - intros p. rewrite in_map_iff. split.
    + intros ([[i j] k] & <- & Ht). apply in_tp_triples in Ht. exists i, j, k. repeat split; lia.
    + intros (i & j & k & H1 & H2 & H3 & ->). exists (i, j, k). split; [reflexivity|]. apply in_tp_triples. lia.
  - intros i j k H1 H2 H3. split; [apply gen_tpos_inv; lia|]. split.
    + intros t Ht. apply gen_tpos_nth; lia.
    + intros A dflt x L. apply (apply_gen_tpos dflt n i j k x); lia.
  - apply closed_flag_iff. intros p Hp. apply in_map_iff in Hp as ([[i j] k] & <- & Ht).
    apply in_tp_triples in Ht. destruct (gen_tpos_inv n i j k) as [_ I]; try lia. rewrite I.
    apply in_map_iff. exists (i, i + k + 1 - j, k). split; [reflexivity|]. apply in_tp_triples. lia.
Qed.

Theorem transposons_range z :
  ((exists d, transposons z = Ok d) <-> (2 <= z)%Z) /\ (~ (2 <= z)%Z -> transposons z = Err AssertionErr).
Proof.
  apply range_from_cases.
  - intros Hz. destruct (transposons_documented (Z.to_nat z)) as (d & E & _); try lia.
    exists d. rewrite !Z2Nat.id in E by lia. exact E.
  - intros HN. unfold transposons. destruct (Z.leb_spec 2 z); [lia|reflexivity].
  - lia.
Qed.

Example transposons_3 :
  transposons 3 = Ok {| p_gens := [[1; 0; 2]; [1; 2; 0]; [2; 0; 1]; [0; 2; 1]];
       p_names := ["T[0..0,1]"; "T[0..0,2]"; "T[0..1,2]"; "T[1..1,2]"]%string;
       p_name := ""%string; p_central := [0; 1; 2]%Z |}
  /\ tp_triples 3 = [(0, 1, 1); (0, 1, 2); (0, 2, 2); (1, 2, 2)]
  /\ tp_gens 3 = [[1; 0; 2]; [1; 2; 0]; [2; 0; 1]; [0; 2; 1]]
  /\ 6 * length (tp_triples 7) = 8 * 7 * 6
  /\ apply_perm "?"%string (gen_tpos 6 1 3 4) ["a"; "b"; "c"; "d"; "e"; "f"]%string
     = ["a"; "d"; "e"; "b"; "c"; "f"]%string
  /\ move_block 1 3 4 ["a"; "b"; "c"; "d"; "e"; "f"]%string = ["a"; "d"; "e"; "b"; "c"; "f"]%string
  /\ inverse_perm (gen_tpos 6 1 3 4) = gen_tpos 6 1 3 4 /\ inverse_perm (gen_tpos 6 1 2 4) = gen_tpos 6 1 4 4
  /\ transposons 1 = Err AssertionErr /\ transposons (-1) = Err AssertionErr.
Proof. vm_compute. repeat split. Qed.

(* ---------------------------------------------------------------------------------------------- *)
(** * block_interchange(n), n >= 2: S_n, the C(n+1,4) + C(n+1,3) block interchanges I[i..j-1,k..l-1],
      0 <= i < j <= k < l <= n: the substrings x[i..j-1] and x[k..l-1] change places (x[j..k-1] stays between). *)

(* I[i..j-1,k..l-1] in closed form *)
Definition gen_bi (n i j k l : nat) : list nat :=
  seq 0 i ++ seq k (l - k) ++ seq j (k - j) ++ seq i (j - i) ++ seq l (n - l).

(* the documented action: x[0..i-1], x[k..l-1], x[j..k-1], x[i..j-1], x[l..] *)
Definition swap_blocks {A} (i j k l : nat) (x : list A) : list A :=
  firstn i x ++ firstn (l - k) (skipn k x) ++ firstn (k - j) (skipn j x) ++ firstn (j - i) (skipn i x)
  ++ skipn l x.

(* the index list, in generation order:
   for i in range(n): for j in range(i+1, n): for k in range(j, n): for l in range(k+1, n+1) *)
Definition bi_quads (n : nat) : list (nat * nat * nat * nat) :=
  flat_map (fun i => flat_map (fun j => flat_map (fun k => map (fun l => (i, j, k, l)) (seq (k + 1) (n - k)))
                                                 (seq j (n - j)))
                              (seq (i + 1) (n - (i + 1)))) (seq 0 n).
Definition zquad (t : nat * nat * nat * nat) : Z * Z * Z * Z :=
  let '(i, j, k, l) := t in (Z.of_nat i, Z.of_nat j, Z.of_nat k, Z.of_nat l).

Lemma in_bi_quads n i j k l : In (i, j, k, l) (bi_quads n) <-> i < j /\ j <= k /\ k < l /\ l <= n.
Proof.
  unfold bi_quads. rewrite in_flat_map. split.
  - intros (i' & Hi' & H). apply in_flat_map in H as (j' & Hj' & H). apply in_flat_map in H as (k' & Hk' & H).
    apply in_map_iff in H as (l' & [= <- <- <- <-] & Hl'). apply in_seq in Hi', Hj', Hk', Hl'. lia.
  - intros (H1 & H2 & H3 & H4). exists i. split; [apply in_seq; lia|]. apply in_flat_map. exists j.
    split; [apply in_seq; lia|]. apply in_flat_map. exists k.
    split; [apply in_seq; lia|]. apply in_map. apply in_seq. lia.
Qed.

(* if row j has (n-j)(n-j+1)/2 entries then rows a..n-1 have m(m+1)(m+2)/6 entries, m = n-a *)
Lemma tetra_length' {B} (f : nat -> list B) n :
  (forall j, j < n -> 2 * length (f j) = (n - j) * (n - j + 1)) ->
  forall m a, a + m = n -> 6 * length (flat_map f (seq a m)) = m * (m + 1) * (m + 2).
Proof.
  intros Hf. induction m as [|m IH]; intros a E; [reflexivity|].
  cbn [seq flat_map]. rewrite app_length. specialize (IH (S a) ltac:(lia)).
  pose proof (Hf a ltac:(lia)) as Ha. replace (n - a) with (S m) in Ha by lia. nia.
Qed.

(* if row i has m'(m'+1)(m'+2)/6 entries, m' = n-i-1, then rows a..n-1 have (m-1)m(m+1)(m+2)/24, m = n-a *)
Lemma penta_length {B} (f : nat -> list B) n :
  (forall i, i < n -> 6 * length (f i) = (n - (i + 1)) * (n - i) * (n - i + 1)) ->
  forall m a, a + m = n -> 24 * length (flat_map f (seq a m)) = (m - 1) * m * (m + 1) * (m + 2).
Proof.
  intros Hf. induction m as [|m IH]; intros a E; [reflexivity|].
  cbn [seq flat_map]. rewrite app_length. specialize (IH (S a) ltac:(lia)).
  pose proof (Hf a ltac:(lia)) as Ha. replace (n - (a + 1)) with m in Ha by lia.
  replace (n - a) with (m + 1) in Ha by lia.
  replace (S m - 1) with m by lia.
  rewrite Nat.mul_add_distr_l, IH.
  replace (24 * length (f a)) with (4 * (6 * length (f a))) by lia. rewrite Ha.
  destruct m as [|m]; [reflexivity|]. replace (S m - 1) with m by lia. ring.
Qed.

(* the quadruples i < j <= k < l of 0..n: with j < k there are C(n+1,4), with j = k there are C(n+1,3);
   C(n+1,4) + C(n+1,3) = C(n+2,4) = (n+2)(n+1)n(n-1)/24.
   By rows: for fixed i, j the pairs k < l in j..n: (n-j)(n-j+1)/2; summed over j = i+1..n-1:
   (n-i-1)(n-i)(n-i+1)/6; summed over i = 0..n-1: (n-1)n(n+1)(n+2)/24. *)
Lemma bi_quads_length n : 24 * length (bi_quads n) = (n + 2) * (n + 1) * n * (n - 1).
Proof.
  unfold bi_quads.
  replace ((n + 2) * (n + 1) * n * (n - 1)) with ((n - 1) * n * (n + 1) * (n + 2)) by ring.
  apply (penta_length _ n); [|lia]. intros i Hi.
  replace ((n - (i + 1)) * (n - i) * (n - i + 1))
    with ((n - (i + 1)) * (n - (i + 1) + 1) * (n - (i + 1) + 2))
    by (replace (n - i) with (n - (i + 1) + 1) by lia; f_equal; lia).
  apply (tetra_length' _ n); [|lia]. intros j Hj.
  apply (tri_length _ n); [|lia]. intros k Hk. rewrite map_length, seq_length. lia.
Qed.

Lemma zbi_quads_nat n :
  flat_map (fun i => flat_map (fun j => flat_map (fun k =>
     map (fun l => (i, j, k, l)) (zrange (k + 1) (Z.of_nat n + 1))) (zrange j (Z.of_nat n)))
     (zrange (i + 1) (Z.of_nat n))) (zrange 0 (Z.of_nat n))
  = map zquad (bi_quads n).
Proof.
  rewrite zrange0_nat, flat_map_of_nats. unfold bi_quads. rewrite map_flat_map.
  apply flat_map_ext. intros i. rewrite (zrange_nat' _ _ (i + 1) n) by lia.
  rewrite flat_map_of_nats, map_flat_map. apply flat_map_ext. intros j.
  rewrite zrange_nat, flat_map_of_nats, map_flat_map. apply flat_map_ext. intros k.
  rewrite (zrange_nat' _ _ (k + 1) (n + 1)) by lia. replace (n + 1 - (k + 1)) with (n - k) by lia.
  rewrite map_of_nats, map_map. reflexivity.
Qed.

Lemma gen_bi_length n i j k l : i < j -> j <= k -> k < l -> l <= n -> length (gen_bi n i j k l) = n.
Proof. intros H1 H2 H3 H4. unfold gen_bi. rewrite !app_length, !seq_length. lia. Qed.

(* I[i..j-1,k..l-1] as a map: positions i.. receive the l-k points k..l-1, then the k-j points j..k-1,
   then the j-i points i..j-1 *)
Lemma gen_bi_nth n i j k l t : i < j -> j <= k -> k < l -> l <= n -> t < n ->
  nth t (gen_bi n i j k l) 0 =
    if t <? i then t else if t <? i + (l - k) then t + (k - i)
    else if t <? i + (l - j) then t - (i + (l - k)) + j else if t <? l then t - (l - j) else t.
Proof.
  intros H1 H2 H3 H4 Ht. unfold gen_bi.
  rewrite !nth_app_seq, nth_seq_if.
  repeat match goal with |- context [Nat.ltb ?a ?b] => destruct (Nat.ltb_spec a b) end; lia.
Qed.

(* the inverse of I[i..j-1,k..l-1] exchanges the two blocks back: the first now has l-k points and the
   last j-i points: I[i..i+l-k-1, l-(j-i)..l-1] *)
Lemma gen_bi_inv n i j k l : i < j -> j <= k -> k < l -> l <= n ->
  PermN n (gen_bi n i j k l) /\ inverse_perm (gen_bi n i j k l) = gen_bi n i (i + l - k) (l - (j - i)) l.
Proof.
  intros H1 H2 H3 H4. apply inverse_pair_PermN; [apply gen_bi_length; lia|apply gen_bi_length; lia|].
  intros t Ht. rewrite (gen_bi_nth n i j k l t H1 H2 H3 H4 Ht).
  assert (forall u, u < n -> nth u (gen_bi n i (i + l - k) (l - (j - i)) l) 0 =
    if u <? i then u else if u <? i + (l - (l - (j - i))) then u + (l - (j - i) - i)
    else if u <? i + (l - (i + l - k)) then u - (i + (l - (l - (j - i)))) + (i + l - k)
    else if u <? l then u - (l - (i + l - k)) else u) as F
    by (intros u Hu; apply gen_bi_nth; lia).
  destruct (Nat.ltb_spec t i); [|destruct (Nat.ltb_spec t (i + (l - k))); [|destruct (Nat.ltb_spec t (i + (l - j)));
    [|destruct (Nat.ltb_spec t l)]]];
  (split; [lia|]); rewrite F by lia;
  repeat match goal with |- context [Nat.ltb ?a ?b] => destruct (Nat.ltb_spec a b) end; lia.
Qed.

Lemma apply_gen_bi {A} (d : A) n i j k l (x : list A) : i < j -> j <= k -> k < l -> l <= n -> length x = n ->
  apply_perm d (gen_bi n i j k l) x = swap_blocks i j k l x.
Proof.
  intros H1 H2 H3 H4 L. unfold gen_bi, swap_blocks.
  rewrite !apply_app, !apply_seq by lia. cbn [skipn].
  do 4 f_equal. apply firstn_skipn_all. lia.
Qed.

Lemma bi_eq n i j k l : i < j -> j <= k -> k < l -> l <= n ->
  zrange 0 (Z.of_nat i) ++ zrange (Z.of_nat k) (Z.of_nat l) ++ zrange (Z.of_nat j) (Z.of_nat k)
  ++ zrange (Z.of_nat i) (Z.of_nat j) ++ zrange (Z.of_nat l) (Z.of_nat n) = of_nats (gen_bi n i j k l).
Proof.
  intros H1 H2 H3 H4. unfold gen_bi. rewrite !of_nats_app, zrange0_nat, !zrange_nat. reflexivity.
Qed.

Definition bi_gens (n : nat) : list (list nat) :=
  map (fun t => let '(i, j, k, l) := t in gen_bi n i j k l) (bi_quads n).
Definition bi_names (n : nat) : list string :=
  map (fun t => let '(i, j, k, l) := t in
         cat ["I["; zs (Z.of_nat i); ".."; zs (Z.of_nat j - 1); ","; zs (Z.of_nat k); "..";
              zs (Z.of_nat l - 1); "]"]) (bi_quads n).

Theorem block_interchange_returns n : 2 <= n ->
  returns_full (block_interchange (Z.of_nat n)) n (bi_gens n) (bi_names n) "".
Proof.
  intros Hn. unfold block_interchange. zguard. rewrite zbi_quads_nat, !map_map.
  rewrite (map_ext_in _ (fun t => of_nats (let '(i, j, k, l) := t in gen_bi n i j k l))).
  2:{ intros [[[i j] k] l] Ht. apply in_bi_quads in Ht. cbn [zquad]. apply bi_eq; lia. }
  rewrite <- (map_map (fun t => let '(i, j, k, l) := t in gen_bi n i j k l) of_nats). fold (bi_gens n).
  rewrite (map_ext _ (fun t => let '(i, j, k, l) := t in
             cat ["I["; zs (Z.of_nat i); ".."; zs (Z.of_nat j - 1); ","; zs (Z.of_nat k); "..";
                  zs (Z.of_nat l - 1); "]"]))
    by (intros [[[i j] k] l]; reflexivity).
  fold (bi_names n). apply create_full.
  - assert (In (0, 1, 1, 2) (bi_quads n)) as Hin by (apply in_bi_quads; lia).
    unfold bi_gens. destruct (bi_quads n); [destruct Hin|discriminate].
  - lia.
  - apply Forall_forall. intros p Hp. apply in_map_iff in Hp as ([[[i j] k] l] & <- & Ht).
    apply in_bi_quads in Ht. apply gen_bi_inv; lia.
  - unfold bi_gens, bi_names. now rewrite !map_length.
Qed.

(* block_interchange: full statement.  Generators and names are maps over the same index list
   [bi_quads n] = [(i, j, k, l) | 0 <= i < j <= k < l <= n] in generation order. *)
Theorem block_interchange_documented n : 2 <= n ->
  exists d, block_interchange (Z.of_nat n) = Ok d /\
    p_gens d = map (fun t => let '(i, j, k, l) := t in gen_bi n i j k l) (bi_quads n) /\
    p_names d = map (fun t => let '(i, j, k, l) := t in
                  cat ["I["; zs (Z.of_nat i); ".."; zs (Z.of_nat j - 1); ","; zs (Z.of_nat k); "..";
                       zs (Z.of_nat l - 1); "]"]) (bi_quads n) /\
    p_name d = ""%string /\ p_central d = of_nats (seq 0 n) /\
    (forall i j k l, In (i, j, k, l) (bi_quads n) <-> i < j /\ j <= k /\ k < l /\ l <= n) /\
    24 * length (p_gens d) = (n + 2) * (n + 1) * n * (n - 1) /\ length (p_names d) = length (p_gens d) /\
    Forall (PermN n) (p_gens d) /\
    (forall p, In p (p_gens d) <->
               exists i j k l, i < j /\ j <= k /\ k < l /\ l <= n /\ p = gen_bi n i j k l) /\
    (forall i j k l, i < j -> j <= k -> k < l -> l <= n ->
       inverse_perm (gen_bi n i j k l) = gen_bi n i (i + l - k) (l - (j - i)) l /\
       (forall t, t < n -> nth t (gen_bi n i j k l) 0 =
          if t <? i then t else if t <? i + (l - k) then t + (k - i)
          else if t <? i + (l - j) then t - (i + (l - k)) + j else if t <? l then t - (l - j) else t) /\
       (forall (A : Type) (dflt : A) (x : list A), length x = n ->
          apply_perm dflt (gen_bi n i j k l) x
          = firstn i x ++ firstn (l - k) (skipn k x) ++ firstn (k - j) (skipn j x)
            ++ firstn (j - i) (skipn i x) ++ skipn l x)) /\
    closed_flag (p_gens d) = true.
Proof.
  intros Hn. destruct (returns_full_fields _ _ _ _ _ (block_interchange_returns n Hn)) as (d & E & G & N & M & C).
  exists d. rewrite G, N.
  split; [exact E|]. split; [reflexivity|]. split; [reflexivity|]. split; [exact M|]. split; [exact C|].
  split; [apply in_bi_quads|]. unfold bi_gens, bi_names. rewrite !map_length.
  split; [apply bi_quads_length|]. split; [reflexivity|]. split; [|split; [|split]].
  - apply Forall_forall. intros p Hp. apply in_map_iff in Hp as ([[[i j] k] l] & <- & Ht).
    apply in_bi_quads in Ht. apply gen_bi_inv; lia.
  - intros p. rewrite in_map_iff. split.
    + intros ([[[i j] k] l] & <- & Ht). apply in_bi_quads in Ht. exists i, j, k, l. repeat split; lia.
    + intros (i & j & k & l & H1 & H2 & H3 & H4 & ->). exists (i, j, k, l). split; [reflexivity|].
      apply in_bi_quads. lia.
  - intros i j k l H1 H2 H3 H4. split; [apply gen_bi_inv; lia|]. split.
    + intros t Ht. apply gen_bi_nth; lia.
    + intros A dflt x L. apply (apply_gen_bi dflt n i j k l x); lia.
  - apply closed_flag_iff. intros p Hp. apply in_map_iff in Hp as ([[[i j] k] l] & <- & Ht).
    apply in_bi_quads in Ht. destruct (gen_bi_inv n i j k l) as [_ I]; try lia. rewrite I.
    apply in_map_iff. exists (i, i + l - k, l - (j - i), l). split; [reflexivity|]. apply in_bi_quads. lia.
Qed.

Theorem block_interchange_range z :
  ((exists d, block_interchange z = Ok d) <-> (2 <= z)%Z) /\
  (~ (2 <= z)%Z -> block_interchange z = Err AssertionErr).
Proof.
  apply range_from_cases.
  - intros Hz. destruct (block_interchange_documented (Z.to_nat z)) as (d & E & _); try lia.
    exists d. rewrite !Z2Nat.id in E by lia. exact E.
  - intros HN. unfold block_interchange. destruct (Z.leb_spec 2 z); [lia|reflexivity].
  - lia.
Qed.

Example block_interchange_3 :
  block_interchange 3 = Ok {| p_gens := [[1; 0; 2]; [1; 2; 0]; [2; 1; 0]; [2; 0; 1]; [0; 2; 1]];
       p_names := ["I[0..0,1..1]"; "I[0..0,1..2]"; "I[0..0,2..2]"; "I[0..1,2..2]"; "I[1..1,2..2]"]%string;
       p_name := ""%string; p_central := [0; 1; 2]%Z |}
  /\ bi_quads 3 = [(0, 1, 1, 2); (0, 1, 1, 3); (0, 1, 2, 3); (0, 2, 2, 3); (1, 2, 2, 3)]
  /\ bi_gens 3 = [[1; 0; 2]; [1; 2; 0]; [2; 1; 0]; [2; 0; 1]; [0; 2; 1]]
  /\ 24 * length (bi_quads 6) = 8 * 7 * 6 * 5
  /\ apply_perm "?"%string (gen_bi 7 1 2 4 6) ["a"; "b"; "c"; "d"; "e"; "f"; "g"]%string
     = ["a"; "e"; "f"; "c"; "d"; "b"; "g"]%string
  /\ swap_blocks 1 2 4 6 ["a"; "b"; "c"; "d"; "e"; "f"; "g"]%string = ["a"; "e"; "f"; "c"; "d"; "b"; "g"]%string
  /\ inverse_perm (gen_bi 7 1 2 4 6) = gen_bi 7 1 3 5 6
  /\ block_interchange 1 = Err AssertionErr /\ block_interchange (-3) = Err AssertionErr.
Proof. vm_compute. repeat split. Qed.

(* ---------------------------------------------------------------------------------------------- *)
(** * Names and generators correspond index by index (both are maps over the same index list) *)
Lemma maps_nth {I} (g : I -> list nat) (f : I -> string) (L : list I) t dI : t < length L ->
  nth t (map g L) [] = g (nth t L dI) /\ nth t (map f L) ""%string = f (nth t L dI).
Proof. intros H. split; apply nth_map_lt; exact H. Qed.

Theorem ranges_families_index_by_index :
  (forall n d t, 1 <= n -> signed_reversals (Z.of_nat n) = Ok d -> t < length (sr_pairs n) ->
     let '(i, j) := nth t (sr_pairs n) (0, 0) in
     i <= j < n /\ nth t (p_gens d) [] = gen_srev n i j /\
     nth t (p_names d) ""%string = cat ["R["; zs (Z.of_nat i); ".."; zs (Z.of_nat j); "]"]) /\
  (forall n d t, 2 <= n -> transposons (Z.of_nat n) = Ok d -> t < length (tp_triples n) ->
     let '(i, j, k) := nth t (tp_triples n) (0, 0, 0) in
     (i < j /\ j <= k /\ k < n) /\ nth t (p_gens d) [] = gen_tpos n i j k /\
     nth t (p_names d) ""%string
     = cat ["T["; zs (Z.of_nat i); ".."; zs (Z.of_nat j - 1); ","; zs (Z.of_nat k); "]"]) /\
  (forall n d t, 2 <= n -> block_interchange (Z.of_nat n) = Ok d -> t < length (bi_quads n) ->
     let '(i, j, k, l) := nth t (bi_quads n) (0, 0, 0, 0) in
     (i < j /\ j <= k /\ k < l /\ l <= n) /\ nth t (p_gens d) [] = gen_bi n i j k l /\
     nth t (p_names d) ""%string
     = cat ["I["; zs (Z.of_nat i); ".."; zs (Z.of_nat j - 1); ","; zs (Z.of_nat k); "..";
            zs (Z.of_nat l - 1); "]"]).
Proof.
  split; [|split].
  - intros n d t Hn E Ht. pose proof (signed_reversals_returns n Hn) as R. unfold returns_full in R.
    rewrite R in E. injection E as <-. cbn [p_gens p_names]. unfold sr_gens, sr_names.
    pose proof (nth_In (sr_pairs n) (0, 0) Ht) as Hin.
    destruct (maps_nth (fun ij => gen_srev n (fst ij) (snd ij))
                (fun ij => cat ["R["; zs (Z.of_nat (fst ij)); ".."; zs (Z.of_nat (snd ij)); "]"])
                (sr_pairs n) t (0, 0) Ht) as [G N]. rewrite G, N.
    destruct (nth t (sr_pairs n) (0, 0)) as [i j]. apply in_sr_pairs in Hin. cbn [fst snd]. repeat split; lia.
  - intros n d t Hn E Ht. pose proof (transposons_returns n Hn) as R. unfold returns_full in R.
    rewrite R in E. injection E as <-. cbn [p_gens p_names]. unfold tp_gens, tp_names.
    pose proof (nth_In (tp_triples n) (0, 0, 0) Ht) as Hin.
    destruct (maps_nth (fun t => let '(i, j, k) := t in gen_tpos n i j k)
                (fun t => let '(i, j, k) := t in
                   cat ["T["; zs (Z.of_nat i); ".."; zs (Z.of_nat j - 1); ","; zs (Z.of_nat k); "]"])
                (tp_triples n) t (0, 0, 0) Ht) as [G N]. rewrite G, N.
    destruct (nth t (tp_triples n) (0, 0, 0)) as [[i j] k]. apply in_tp_triples in Hin. repeat split; lia.
  - intros n d t Hn E Ht. pose proof (block_interchange_returns n Hn) as R. unfold returns_full in R.
    rewrite R in E. injection E as <-. cbn [p_gens p_names]. unfold bi_gens, bi_names.
    pose proof (nth_In (bi_quads n) (0, 0, 0, 0) Ht) as Hin.
    destruct (maps_nth (fun t => let '(i, j, k, l) := t in gen_bi n i j k l)
                (fun t => let '(i, j, k, l) := t in
                   cat ["I["; zs (Z.of_nat i); ".."; zs (Z.of_nat j - 1); ","; zs (Z.of_nat k); "..";
                        zs (Z.of_nat l - 1); "]"])
                (bi_quads n) t (0, 0, 0, 0) Ht) as [G N]. rewrite G, N.
    destruct (nth t (bi_quads n) (0, 0, 0, 0)) as [[[i j] k] l]. apply in_bi_quads in Hin. repeat split; lia.
Qed.

Example index_by_index_4 :
  nth 5 (sr_pairs 4) (0, 0) = (1, 2) /\ nth 7 (tp_triples 4) (0, 0, 0) = (1, 2, 3)
  /\ nth 9 (bi_quads 4) (0, 0, 0, 0) = (0, 3, 3, 4).
Proof. vm_compute. repeat split. Qed.

(* ---------------------------------------------------------------------------------------------- *)
Print Assumptions signed_reversals_returns.
Print Assumptions signed_reversals_documented.
Print Assumptions signed_reversals_range.
Print Assumptions signed_reversals_3.
Print Assumptions transposons_returns.
Print Assumptions transposons_documented.
Print Assumptions transposons_range.
Print Assumptions transposons_3.
Print Assumptions block_interchange_returns.
Print Assumptions block_interchange_documented.
Print Assumptions block_interchange_range.
Print Assumptions block_interchange_3.
Print Assumptions ranges_families_index_by_index.
Print Assumptions index_by_index_4.
