(** E6 - closing the loop between the codec theorems (property C02) and the graph-level implementation
    model [impl_of d] that every search theorem (InstBfs.v, InstPaths.v, InstBeam.v, InstWalks.v) talks about.

    The search models keep states DECODED and act on them with [acts (impl_of d)] (= [apply_perm 0 p]);
    the library keeps states ENCODED (StringEncoder.encode), applies the generated mask/shift/or routine
    (StringEncoder.implement_permutation) to the 64-bit code words and hashes the code rows.  This file
    proves that the two computations are the same one, for every well-formed permutation description:

      (a) encoded_action_is_abstract   decode (routine_p (encode s)) = nth i (acts (impl_of d)) s
      (b) encoded_image_is_code        routine_p (encode s) = encode (p . s)      (codes are canonical)
          encoded_hash_is_hashf        hash (routine_p (encode s)) = hashf (impl_of d) (p . s)
      (c) encoded_neighbors(_rows/_hashes), encoded_apply_path(_decoded/_run)
      (d) raw_action_is_abstract ...   the un-encoded case (torch.gather), identity coding
      (e) oneword_routine_*            the 1-D routine of the NumPy / bit-mask engines

    Every side condition of the codec lemmas (CodecProofs.emit_action, decode_encode, eval_prog1d_eq)
    is DERIVED from [wf_perm_desc d] and [Ustates d s]: see [codec_side_conditions].  No gap was found. *)
From Coq Require Import ZArith List Bool Arith Lia.
From V Require Import Base W64 W64Proofs Tensor Perm PermProofs Codec CodecBits CodecProofs CodecExtra
                      Hash Matrix Graph GraphImpl Bfs BfsRun InstPerm.
From V.gen Require Import Consts.
Import ListNotations.
Local Open Scope Z_scope.

(* ------------------------------------------------------------------ *)
(** * The encoded pipeline (cayley_graph.py on the internal representation) *)

(* StringEncoder.implement_permutation(p) applied to one row x, writing into a zero row y *)
Definition enc_routine (w n : nat) (p : list nat) (row : list Z) : list Z :=
  eval_prog (encoded_length w n) (emit w n p) row.

(* torch.gather(src, 1, move) on one row: dst[j] = src[move[j]] *)
Definition gather_row (p : list nat) (row : list Z) : list Z := map (fun j => nth j row 0) p.

(* CayleyGraph.apply_generator_batched(i, src, dst) on one row of the INTERNAL representation *)
Definition enc_acts (d : gdesc) : list (list Z -> list Z) :=
  match g_kind d with
  | GPerm perms =>
      match g_width d with
      | Some w => map (enc_routine w (desc_n d)) perms       (* self.encoded_generators[i](src, dst) *)
      | None => map gather_row perms                         (* torch.gather *)
      end
  | GMatrix modulo n m mats => map (fun M => mat_apply modulo n m M) mats
  end.

(* CayleyGraph.decode_states on one row (encode_states on one row is GraphImpl.encoded_row) *)
Definition dec_row (d : gdesc) (row : list Z) : state :=
  match g_kind d, g_width d with
  | GPerm _, Some w => decode w (desc_n d) row
  | _, _ => row
  end.

(* CayleyGraph.get_neighbors on internal rows: generator-major *)
Definition get_neighbors_encoded (d : gdesc) (rows : list (list Z)) : list (list Z) :=
  flat_map (fun f => map f rows) (enc_acts d).

(* hasher.make_hashes on internal rows *)
Definition hash_rows (steps : list mix_step) (mult : Z) (d : gdesc) (rows : list (list Z)) : list Z :=
  map (make_hash steps mult (g_hasher d)) rows.

(* CayleyGraph.apply_path on ONE internal row: encode; for gen_id: assert in range; apply; decode *)
Definition apply_path_encoded (d : gdesc) (s : state) (path : list nat) : result state :=
  match apply_path (enc_acts d) (encoded_row d s) path with
  | Ok r => Ok (dec_row d r)
  | Err e => Err e
  end.

(* ------------------------------------------------------------------ *)
(** * The side conditions of the codec lemmas follow from well-formedness *)

Definition codec_pre (w n : nat) (p : list nat) (s : list Z) : Prop :=
  (1 <= w <= 64)%nat /\ length p = n /\ Forall (fun v => (v < n)%nat) p /\ length s = n /\
  Forall (fun x => 0 <= x < 2 ^ Z.of_nat w /\ x < two63) s.

Lemma Perm_Forall_lt p n : Perm p -> length p = n -> Forall (fun v => (v < n)%nat) p.
Proof. intros Hp Hl. apply Forall_forall. intros v Hv. apply (Perm_In p v Hp) in Hv. lia. Qed.

(* exactly the hypotheses of CodecProofs.emit_action / decode_emit_encode (C02_emit_action) *)
Theorem codec_side_conditions d w p s :
  wf_perm_desc d -> g_width d = Some w -> In p (desc_perms d) -> Ustates d s ->
  codec_pre w (desc_n d) p s.
Proof.
  intros Hwf Hw Hp [Hl Hs]. destruct (wf_perm_in d p Hwf Hp) as [HP HL].
  pose proof (wf_width d Hwf) as Hwd. rewrite Hw in Hwd, Hs. cbn [width_ok] in Hwd.
  unfold codec_pre. split; [exact Hwd|]. split; [exact HL|]. split; [apply Perm_Forall_lt; assumption|].
  split; [exact Hl|]. exact Hs.
Qed.

Lemma nth_perm_in d i : (i < length (desc_perms d))%nat -> In (nth i (desc_perms d) []) (desc_perms d).
Proof. intros Hi. apply nth_In. exact Hi. Qed.

Lemma nth_map_fn {A B} (F : A -> B) (l : list A) i dA dB : (i < length l)%nat -> nth i (map F l) dB = F (nth i l dA).
Proof. intros Hi. rewrite (nth_indep _ dB (F dA)) by (rewrite map_length; exact Hi). apply map_nth. Qed.

(* generator i of the search model *)
Lemma acts_nth steps mult d i : wf_perm_desc d -> (i < length (desc_perms d))%nat ->
  nth i (acts (mk_impl steps mult d)) (fun x => x) = apply_perm 0 (nth i (desc_perms d) []).
Proof.
  intros Hwf Hi. rewrite (perm_acts_wf steps mult d Hwf).
  apply (nth_map_fn (fun p : list nat => @apply_perm Z 0 p) (desc_perms d) i [] (fun x => x) Hi).
Qed.

(* generator i of the encoded pipeline *)
Lemma enc_acts_perm d : g_kind d = GPerm (desc_perms d) ->
  enc_acts d = match g_width d with
               | Some w => map (enc_routine w (desc_n d)) (desc_perms d)
               | None => map gather_row (desc_perms d)
               end.
Proof. intros Hk. unfold enc_acts. rewrite Hk. reflexivity. Qed.

Lemma enc_acts_length d : wf_perm_desc d -> length (enc_acts d) = length (desc_perms d).
Proof.
  intros Hwf. rewrite (enc_acts_perm d (wf_kind d Hwf)). destruct (g_width d); apply map_length.
Qed.

Lemma enc_acts_nth_some d w i : wf_perm_desc d -> g_width d = Some w -> (i < length (desc_perms d))%nat ->
  nth i (enc_acts d) (fun x => x) = enc_routine w (desc_n d) (nth i (desc_perms d) []).
Proof.
  intros Hwf Hw Hi. rewrite (enc_acts_perm d (wf_kind d Hwf)), Hw.
  apply (nth_map_fn (enc_routine w (desc_n d)) (desc_perms d) i [] (fun x => x) Hi).
Qed.

Lemma enc_acts_nth_none d i : wf_perm_desc d -> g_width d = None -> (i < length (desc_perms d))%nat ->
  nth i (enc_acts d) (fun x => x) = gather_row (nth i (desc_perms d) []).
Proof.
  intros Hwf Hw Hi. rewrite (enc_acts_perm d (wf_kind d Hwf)), Hw.
  apply (nth_map_fn gather_row (desc_perms d) i [] (fun x => x) Hi).
Qed.

Lemma encoded_row_some d w s : g_kind d = GPerm (desc_perms d) -> g_width d = Some w ->
  encoded_row d s = encode w (desc_n d) s.
Proof. intros Hk Hw. unfold encoded_row. rewrite Hk, Hw. reflexivity. Qed.

Lemma encoded_row_none d s : g_width d = None -> encoded_row d s = s.
Proof. intros Hw. unfold encoded_row. rewrite Hw. destruct (g_kind d); reflexivity. Qed.

Lemma dec_row_some d w r : g_kind d = GPerm (desc_perms d) -> g_width d = Some w ->
  dec_row d r = decode w (desc_n d) r.
Proof. intros Hk Hw. unfold dec_row. rewrite Hk, Hw. reflexivity. Qed.

Lemma dec_row_none d r : g_width d = None -> dec_row d r = r.
Proof. intros Hw. unfold dec_row. rewrite Hw. destruct (g_kind d); reflexivity. Qed.

(* ------------------------------------------------------------------ *)
(** * (b) the encoded image of a code is the code of the image *)

Theorem encoded_image_is_code d w p s :
  wf_perm_desc d -> g_width d = Some w -> In p (desc_perms d) -> Ustates d s ->
  let n := desc_n d in
  eval_prog (encoded_length w n) (emit w n p) (encode w n s) = encode w n (apply_perm 0 p s).
Proof.
  intros Hwf Hw Hp Hs n. destruct (codec_side_conditions d w p s Hwf Hw Hp Hs) as (H1 & H2 & H3 & H4 & H5).
  apply emit_action; assumption.
Qed.

(* codes are canonical: int64 words, the right number of them, every bit beyond n*w is zero *)
Definition canonical_code (w n : nat) (x : list Z) : Prop :=
  length x = encoded_length w n /\ Forall in64 x /\
  forall c b, (c < encoded_length w n)%nat -> 0 <= b < 64 -> (n * w <= c * 64 + Z.to_nat b)%nat ->
    Z.testbit (nth c x 0) b = false.

Lemma encode_canonical w n s : canonical_code w n (encode w n s).
Proof.
  split; [apply encode_length|]. split; [apply encode_in64|].
  intros c b Hc Hb He. rewrite encode_testbit_gen by assumption. cbv zeta.
  destruct (Nat.ltb_spec (c * 64 + Z.to_nat b) (n * w)); [lia | reflexivity].
Qed.

Corollary encoded_image_canonical d w p s :
  wf_perm_desc d -> g_width d = Some w -> In p (desc_perms d) -> Ustates d s ->
  let n := desc_n d in canonical_code w n (eval_prog (encoded_length w n) (emit w n p) (encode w n s)).
Proof.
  intros Hwf Hw Hp Hs n. unfold n. rewrite (encoded_image_is_code d w p s Hwf Hw Hp Hs). apply encode_canonical.
Qed.

(* conversely every canonical row is the code of its decoding: [encode] is onto the canonical rows *)
Theorem encode_decode_canonical w n x : (1 <= w <= 64)%nat -> canonical_code w n x -> encode w n (decode w n x) = x.
Proof.
  intros Hw (Hl & Hin & Hz). apply nth_ext' with (d := 0).
  - rewrite encode_length. symmetry. exact Hl.
  - intros c Hc. rewrite encode_length in Hc. apply in64_bits_eq.
    + apply Forall_in64_nth, encode_in64.
    + apply Forall_in64_nth. exact Hin.
    + intros b Hb. rewrite encode_testbit_gen by assumption. cbv zeta.
      set (e := (c * 64 + Z.to_nat b)%nat).
      destruct (Nat.ltb_spec e (n * w)) as [He | He].
      * assert (e / w < n)%nat as Hk by (apply div_lt_of_lt_mul; exact He).
        assert (e mod w < w)%nat as Hj by (apply Nat.mod_upper_bound; lia).
        rewrite decode_testbit by lia.
        destruct (Z.ltb_spec (Z.of_nat (e mod w)) (Z.of_nat w)) as [_ | Hge]; [|lia].
        cbv zeta. rewrite Nat2Z.id, div_mod_recompose by lia.
        assert (e / 64 = c)%nat as -> by (unfold e; symmetry; apply Nat.div_unique with (r := Z.to_nat b); lia).
        assert (Z.of_nat (e mod 64) = b) as ->; [|reflexivity].
        assert (e mod 64 = Z.to_nat b)%nat as -> by (unfold e; symmetry; apply Nat.mod_unique with (q := c); lia).
        lia.
      * symmetry. apply Hz; [exact Hc | exact Hb | exact He].
Qed.

(* hashing the encoded neighbour = the model's hash of the abstract neighbour *)
Theorem encoded_hash_is_hashf steps mult d w p s :
  wf_perm_desc d -> g_width d = Some w -> In p (desc_perms d) -> Ustates d s ->
  let n := desc_n d in
  make_hash steps mult (g_hasher d) (eval_prog (encoded_length w n) (emit w n p) (encode w n s))
  = hashf (mk_impl steps mult d) (apply_perm 0 p s).
Proof.
  intros Hwf Hw Hp Hs n. unfold n. rewrite (encoded_image_is_code d w p s Hwf Hw Hp Hs).
  unfold mk_impl. cbn [hashf]. rewrite (encoded_row_some d w _ (wf_kind d Hwf) Hw). reflexivity.
Qed.

(* the model's hash IS the hash of the code row (by definition of mk_impl; recorded for reference) *)
Lemma hashf_is_row_hash steps mult d s :
  hashf (mk_impl steps mult d) s = make_hash steps mult (g_hasher d) (encoded_row d s).
Proof. reflexivity. Qed.

(* ------------------------------------------------------------------ *)
(** * (a) the encoded action, decoded, is the abstract action of the search models *)

Theorem decode_encode_U d w s : wf_perm_desc d -> g_width d = Some w -> Ustates d s ->
  decode w (desc_n d) (encode w (desc_n d) s) = s.
Proof.
  intros Hwf Hw [Hl Hs]. pose proof (wf_width d Hwf) as Hwd. rewrite Hw in Hwd, Hs.
  apply decode_encode; assumption.
Qed.

Theorem encoded_action_is_abstract d w i s :
  wf_perm_desc d -> g_width d = Some w -> (i < length (desc_perms d))%nat -> Ustates d s ->
  let n := desc_n d in let p := nth i (desc_perms d) [] in
  decode w n (eval_prog (encoded_length w n) (emit w n p) (encode w n s))
  = nth i (acts (impl_of d)) (fun x => x) s.
Proof.
  intros Hwf Hw Hi Hs n p. unfold impl_of. rewrite (acts_nth _ _ d i Hwf Hi). fold p.
  pose proof (nth_perm_in d i Hi) as Hp. fold p in Hp.
  destruct (codec_side_conditions d w p s Hwf Hw Hp Hs) as (H1 & H2 & H3 & H4 & H5).
  apply decode_emit_encode; assumption.
Qed.

(* the same for every member of the generator list, and for any hash constants *)
Theorem encoded_action_is_abstract_in d w p s :
  wf_perm_desc d -> g_width d = Some w -> In p (desc_perms d) -> Ustates d s ->
  let n := desc_n d in
  decode w n (eval_prog (encoded_length w n) (emit w n p) (encode w n s)) = apply_perm 0 p s.
Proof.
  intros Hwf Hw Hp Hs n. destruct (codec_side_conditions d w p s Hwf Hw Hp Hs) as (H1 & H2 & H3 & H4 & H5).
  apply decode_emit_encode; assumption.
Qed.

(* ------------------------------------------------------------------ *)
(** * (d) the un-encoded case: torch.gather, identity coding *)

(* torch.gather with the generator as index IS the model's action (both are [x[p[j]] for j]) *)
Lemma gather_row_apply_perm p s : gather_row p s = apply_perm 0 p s.
Proof. reflexivity. Qed.

(* entry-wise: C02_gather_action *)
Theorem gather_row_nth p s j : (j < length p)%nat -> nth j (gather_row p s) 0 = nth (nth j p 0%nat) s 0.
Proof. intros Hj. rewrite gather_row_apply_perm. apply (nth_apply_perm 0 p s j Hj). Qed.

Theorem raw_action_is_abstract d i s :
  wf_perm_desc d -> g_width d = None -> (i < length (desc_perms d))%nat ->
  encoded_row d s = s /\ (forall r, dec_row d r = r) /\
  nth i (enc_acts d) (fun x => x) s = nth i (acts (impl_of d)) (fun x => x) s /\
  (forall j, (j < desc_n d)%nat ->
     nth j (nth i (enc_acts d) (fun x => x) s) 0 = nth (nth j (nth i (desc_perms d) []) 0%nat) s 0).
Proof.
  intros Hwf Hw Hi. split; [apply encoded_row_none; exact Hw|]. split; [intros r; apply dec_row_none; exact Hw|].
  rewrite (enc_acts_nth_none d i Hwf Hw Hi). unfold impl_of. rewrite (acts_nth _ _ d i Hwf Hi).
  split; [reflexivity|]. intros j Hj. apply gather_row_nth.
  destruct (wf_perm_in d _ Hwf (nth_perm_in d i Hi)) as [_ HL]. rewrite HL. exact Hj.
Qed.

Theorem raw_hash_is_hashf steps mult d p s :
  wf_perm_desc d -> g_width d = None ->
  make_hash steps mult (g_hasher d) (gather_row p s) = hashf (mk_impl steps mult d) (apply_perm 0 p s).
Proof. intros Hwf Hw. unfold mk_impl. cbn [hashf]. rewrite (encoded_row_none d _ Hw). reflexivity. Qed.

(* ------------------------------------------------------------------ *)
(** * The coding commutes with every generator: both cases at once *)

Lemma Forall2_map_both {A B C} (R : B -> C -> Prop) (F : A -> B) (H : A -> C) l :
  (forall a, In a l -> R (F a) (H a)) -> Forall2 R (map F l) (map H l).
Proof.
  induction l as [|a l IH]; intros Hl; cbn [map]; constructor.
  - apply Hl. left. reflexivity.
  - apply IH. intros b Hb. apply Hl. right. exact Hb.
Qed.

(* decode after encode is the identity on the universe, for both codings *)
Theorem dec_enc_row d s : wf_perm_desc d -> Ustates d s -> dec_row d (encoded_row d s) = s.
Proof.
  intros Hwf Hs. destruct (g_width d) as [w|] eqn:Hw.
  - rewrite (encoded_row_some d w s (wf_kind d Hwf) Hw), (dec_row_some d w _ (wf_kind d Hwf) Hw).
    apply decode_encode_U; assumption.
  - rewrite (encoded_row_none d s Hw). apply dec_row_none. exact Hw.
Qed.

(* the coding is injective on the universe *)
Corollary encoded_row_inj d a b : wf_perm_desc d -> Ustates d a -> Ustates d b ->
  encoded_row d a = encoded_row d b -> a = b.
Proof.
  intros Hwf Ha Hb E. rewrite <- (dec_enc_row d a Hwf Ha), <- (dec_enc_row d b Hwf Hb), E. reflexivity.
Qed.

Definition commutes_on (d : gdesc) (f g : list Z -> list Z) : Prop :=
  forall s, Ustates d s -> f (encoded_row d s) = encoded_row d (g s) /\ Ustates d (g s).

Theorem enc_acts_commute steps mult d : wf_perm_desc d ->
  Forall2 (commutes_on d) (enc_acts d) (acts (mk_impl steps mult d)).
Proof.
  intros Hwf. pose proof (wf_kind d Hwf) as Hk.
  rewrite (perm_acts_wf steps mult d Hwf), (enc_acts_perm d Hk).
  destruct (g_width d) as [w|] eqn:Hw; apply Forall2_map_both; intros p Hp s Hs.
  - split.
    + rewrite !(encoded_row_some d w _ Hk Hw). apply encoded_image_is_code; assumption.
    + apply apply_perm_Ustates; [apply wf_width; exact Hwf | apply (wf_perm_in d p Hwf Hp) | exact Hs].
  - split.
    + rewrite !(encoded_row_none d _ Hw). reflexivity.
    + apply apply_perm_Ustates; [apply wf_width; exact Hwf | apply (wf_perm_in d p Hwf Hp) | exact Hs].
Qed.

Lemma Forall2_nth_rel {A B} (R : A -> B -> Prop) l1 l2 i dA dB :
  Forall2 R l1 l2 -> (i < length l2)%nat -> R (nth i l1 dA) (nth i l2 dB).
Proof.
  intros H. revert i. induction H as [|a b l1 l2 Hab _ IH]; intros [|i] Hi; cbn [length] in Hi; cbn [nth]; try lia.
  - exact Hab.
  - apply IH. lia.
Qed.

Corollary enc_acts_commute_nth d i s : wf_perm_desc d -> (i < length (desc_perms d))%nat -> Ustates d s ->
  nth i (enc_acts d) (fun x => x) (encoded_row d s) = encoded_row d (nth i (acts (impl_of d)) (fun x => x) s).
Proof.
  intros Hwf Hi Hs. unfold impl_of.
  assert (i < length (acts (mk_impl splitmix_steps hash_mult d)))%nat as Hi' by (rewrite perm_n_gens; assumption).
  apply (Forall2_nth_rel _ _ _ i (fun x => x) (fun x => x) (enc_acts_commute splitmix_steps hash_mult d Hwf) Hi' s Hs).
Qed.

Corollary enc_acts_decoded_nth d i s : wf_perm_desc d -> (i < length (desc_perms d))%nat -> Ustates d s ->
  dec_row d (nth i (enc_acts d) (fun x => x) (encoded_row d s)) = nth i (acts (impl_of d)) (fun x => x) s.
Proof.
  intros Hwf Hi Hs. rewrite (enc_acts_commute_nth d i s Hwf Hi Hs). apply dec_enc_row; [exact Hwf|].
  unfold impl_of. rewrite (acts_nth _ _ d i Hwf Hi).
  apply apply_perm_Ustates; [apply wf_width; exact Hwf | apply (wf_perm_in d _ Hwf (nth_perm_in d i Hi)) | exact Hs].
Qed.

(* ------------------------------------------------------------------ *)
(** * (c) neighbours and paths on encoded rows *)

Lemma flat_map_commute {A B} (phi : A -> B) (U : A -> Prop) (fs : list (B -> B)) (gs : list (A -> A)) sts :
  Forall2 (fun f g => forall s, U s -> f (phi s) = phi (g s)) fs gs -> (forall s, In s sts -> U s) ->
  flat_map (fun f => map f (map phi sts)) fs = map phi (flat_map (fun g => map g sts) gs).
Proof.
  intros H HU. induction H as [|f g fs gs Hfg _ IH]; cbn [flat_map map]; [reflexivity|].
  rewrite map_app, IH. f_equal. rewrite !map_map. apply map_ext_in. intros s Hs. apply Hfg, HU, Hs.
Qed.

Lemma Forall2_weaken {A B} (R R' : A -> B -> Prop) l1 l2 :
  (forall a b, R a b -> R' a b) -> Forall2 R l1 l2 -> Forall2 R' l1 l2.
Proof. intros HR H. induction H; constructor; auto. Qed.

(* the encoded neighbour rows are the codes of the abstract neighbours, in the same (generator-major) order *)
Theorem encoded_neighbors_rows steps mult d sts : wf_perm_desc d -> (forall s, In s sts -> Ustates d s) ->
  get_neighbors_encoded d (map (encoded_row d) sts)
  = map (encoded_row d) (get_neighbors (mk_impl steps mult d) sts).
Proof.
  intros Hwf HU. unfold get_neighbors_encoded, get_neighbors.
  apply (flat_map_commute (encoded_row d) (Ustates d)); [|exact HU].
  apply (Forall2_weaken (commutes_on d)); [|apply enc_acts_commute; exact Hwf].
  intros f g H s Hs. apply (H s Hs).
Qed.

Lemma neighbors_Ustates steps mult d sts : wf_perm_desc d -> (forall s, In s sts -> Ustates d s) ->
  forall t, In t (get_neighbors (mk_impl steps mult d) sts) -> Ustates d t.
Proof.
  intros Hwf HU t Ht. unfold get_neighbors in Ht. apply in_flat_map in Ht as (g & Hg & Ht).
  apply in_map_iff in Ht as (x & <- & Hx). apply (perm_closed steps mult d Hwf g x Hg). apply HU, Hx.
Qed.

Lemma map_dec_enc d l : wf_perm_desc d -> (forall s, In s l -> Ustates d s) ->
  map (dec_row d) (map (encoded_row d) l) = l.
Proof.
  intros Hwf HU. rewrite map_map. rewrite <- (map_id l) at 2. apply map_ext_in.
  intros s Hs. apply dec_enc_row; [exact Hwf | apply HU, Hs].
Qed.

(* get_neighbors_decoded = decode . get_neighbors . encode  is the model's get_neighbors *)
Theorem encoded_neighbors d sts : wf_perm_desc d -> (forall s, In s sts -> Ustates d s) ->
  map (dec_row d) (get_neighbors_encoded d (map (encoded_row d) sts)) = get_neighbors (impl_of d) sts.
Proof.
  intros Hwf HU. unfold impl_of. rewrite (encoded_neighbors_rows splitmix_steps hash_mult d sts Hwf HU).
  apply map_dec_enc; [exact Hwf|]. apply neighbors_Ustates; assumption.
Qed.

(* in the statement's own terms, for an encoded description *)
Corollary encoded_neighbors_some d w sts : wf_perm_desc d -> g_width d = Some w ->
  (forall s, In s sts -> Ustates d s) ->
  let n := desc_n d in
  map (decode w n) (get_neighbors_encoded d (map (encode w n) sts)) = get_neighbors (impl_of d) sts.
Proof.
  intros Hwf Hw HU n. pose proof (encoded_neighbors d sts Hwf HU) as H.
  rewrite (map_ext (encoded_row d) (encode w n)) in H by (intros s; apply encoded_row_some; [apply wf_kind; exact Hwf | exact Hw]).
  rewrite (map_ext (dec_row d) (decode w n)) in H by (intros s; apply dec_row_some; [apply wf_kind; exact Hwf | exact Hw]).
  exact H.
Qed.

(* and the hashes of the encoded neighbour rows are the model's hashes of the abstract neighbours *)
Theorem encoded_neighbors_hashes steps mult d sts : wf_perm_desc d -> (forall s, In s sts -> Ustates d s) ->
  hash_rows steps mult d (get_neighbors_encoded d (map (encoded_row d) sts))
  = hashes (mk_impl steps mult d) (get_neighbors (mk_impl steps mult d) sts).
Proof.
  intros Hwf HU. rewrite (encoded_neighbors_rows steps mult d sts Hwf HU).
  unfold hash_rows, hashes. rewrite map_map. reflexivity.
Qed.

(* hashing code rows is the model's hashing, for any list of states (no hypothesis) *)
Theorem hash_rows_encoded steps mult d sts :
  hash_rows steps mult d (map (encoded_row d) sts) = hashes (mk_impl steps mult d) sts.
Proof. unfold hash_rows, hashes. rewrite map_map. reflexivity. Qed.

(* ---- paths ---- *)
Definition path_step {A} (acts : list (A -> A)) (r : result A) (i : nat) : result A :=
  do x <- r; match nth_error acts i with Some g => Ok (g x) | None => Err AssertionErr end.

Lemma apply_path_fold {A} (acts : list (A -> A)) s path :
  apply_path acts s path = fold_left (path_step acts) path (Ok s).
Proof. reflexivity. Qed.

Lemma path_fold_err {A} (acts : list (A -> A)) path e : fold_left (path_step acts) path (Err e) = Err e.
Proof. induction path as [|i path IH]; cbn [fold_left]; [reflexivity | exact IH]. Qed.

Lemma apply_path_nil {A} (acts : list (A -> A)) s : apply_path acts s [] = Ok s.
Proof. reflexivity. Qed.

Lemma apply_path_cons_none {A} (acts : list (A -> A)) s i p :
  nth_error acts i = None -> apply_path acts s (i :: p) = Err AssertionErr.
Proof.
  intros H. rewrite apply_path_fold. cbn [fold_left]. unfold path_step at 2. cbn [bind]. rewrite H.
  apply path_fold_err.
Qed.

(* the assertion of the loop fails exactly when an index is out of range: [apply_path] is [Graph.run] *)
Lemma apply_path_run {A} (acts : list (A -> A)) path : forall s,
  apply_path acts s path = match run A acts s path with Some t => Ok t | None => Err AssertionErr end.
Proof.
  induction path as [|i path IH]; intros s; [reflexivity|].
  cbn [run]. destruct (nth_error acts i) as [g|] eqn:E.
  - rewrite (apply_path_cons acts s i path g E). apply IH.
  - apply apply_path_cons_none. exact E.
Qed.

Lemma Forall2_nth_error {A B} (R : A -> B -> Prop) l1 l2 i :
  Forall2 R l1 l2 ->
  match nth_error l1 i, nth_error l2 i with
  | Some a, Some b => R a b
  | None, None => True
  | _, _ => False
  end.
Proof.
  intros H. revert i. induction H as [|a b l1 l2 Hab _ IH]; intros [|i]; cbn [nth_error]; auto. apply IH.
Qed.

Lemma apply_path_morph {A B} (phi : A -> B) (U : A -> Prop) (fs : list (B -> B)) (gs : list (A -> A)) :
  Forall2 (fun f g => forall s, U s -> f (phi s) = phi (g s) /\ U (g s)) fs gs ->
  forall path s, U s ->
  apply_path fs (phi s) path = match apply_path gs s path with Ok t => Ok (phi t) | Err e => Err e end.
Proof.
  intros H. induction path as [|i path IH]; intros s Hs; [reflexivity|].
  pose proof (Forall2_nth_error _ fs gs i H) as Hi.
  destruct (nth_error fs i) as [f|] eqn:Ef, (nth_error gs i) as [g|] eqn:Eg; try contradiction.
  - rewrite (apply_path_cons fs _ i path f Ef), (apply_path_cons gs _ i path g Eg).
    destruct (Hi s Hs) as [E HU]. rewrite E. apply IH. exact HU.
  - rewrite (apply_path_cons_none fs _ i path Ef), (apply_path_cons_none gs _ i path Eg). reflexivity.
Qed.

(* composing the routines along a path, on the code of s = the code of the abstract path result;
   an out-of-range index is the same AssertionError on both sides *)
Theorem encoded_apply_path steps mult d s path : wf_perm_desc d -> Ustates d s ->
  apply_path (enc_acts d) (encoded_row d s) path
  = match apply_path (acts (mk_impl steps mult d)) s path with Ok t => Ok (encoded_row d t) | Err e => Err e end.
Proof.
  intros Hwf Hs. apply (apply_path_morph (encoded_row d) (Ustates d)); [|exact Hs].
  apply enc_acts_commute. exact Hwf.
Qed.

Lemma apply_path_closed {A} (U : A -> Prop) (gs : list (A -> A)) :
  (forall g x, In g gs -> U x -> U (g x)) ->
  forall path s t, U s -> apply_path gs s path = Ok t -> U t.
Proof.
  intros Hcl. induction path as [|i path IH]; intros s t Hs H.
  - inversion H. subst. exact Hs.
  - destruct (nth_error gs i) as [g|] eqn:E.
    + rewrite (apply_path_cons gs s i path g E) in H. apply (IH (g s) t); [|exact H].
      apply Hcl; [eapply nth_error_In; exact E | exact Hs].
    + rewrite (apply_path_cons_none gs s i path E) in H. discriminate.
Qed.

(* CayleyGraph.apply_path (encode, routines in order, decode) = apply_path of the abstract actions *)
Theorem encoded_apply_path_decoded d s path : wf_perm_desc d -> Ustates d s ->
  apply_path_encoded d s path = apply_path (acts (impl_of d)) s path.
Proof.
  intros Hwf Hs. unfold apply_path_encoded, impl_of.
  rewrite (encoded_apply_path splitmix_steps hash_mult d s path Hwf Hs).
  destruct (apply_path (acts (mk_impl splitmix_steps hash_mult d)) s path) as [t|e] eqn:E; [|reflexivity].
  f_equal. apply dec_enc_row; [exact Hwf|].
  apply (apply_path_closed (Ustates d) _ (perm_closed splitmix_steps hash_mult d Hwf) path s t Hs E).
Qed.

(* in the vocabulary of the search theorems (Graph.run / walk) *)
Corollary encoded_apply_path_run d s path t : wf_perm_desc d -> Ustates d s ->
  (run state (acts (impl_of d)) s path = Some t <-> apply_path_encoded d s path = Ok t).
Proof.
  intros Hwf Hs. rewrite (encoded_apply_path_decoded d s path Hwf Hs), apply_path_run.
  destruct (run state (acts (impl_of d)) s path) as [t'|]; split; intros H; inversion H; reflexivity.
Qed.

(* the batch form (graph.apply_path on several states = ConvertEntry.apply_path_states) *)
Lemma Forall2_map_lr {A B C D} (R : C -> D -> Prop) (F : A -> C) (H : B -> D) l1 l2 :
  Forall2 (fun a b => R (F a) (H b)) l1 l2 -> Forall2 R (map F l1) (map H l2).
Proof. intros H0. induction H0; cbn [map]; constructor; auto. Qed.

Theorem encoded_apply_path_batch steps mult d sts path : wf_perm_desc d -> (forall s, In s sts -> Ustates d s) ->
  apply_path (map (fun f : list Z -> list Z => map f) (enc_acts d)) (map (encoded_row d) sts) path
  = match apply_path (map (fun g : state -> state => map g) (acts (mk_impl steps mult d))) sts path with
    | Ok ts => Ok (map (encoded_row d) ts) | Err e => Err e end.
Proof.
  intros Hwf HU.
  apply (apply_path_morph (map (encoded_row d)) (fun l => forall s, In s l -> Ustates d s)); [|exact HU].
  apply Forall2_map_lr. apply (Forall2_weaken (commutes_on d)); [|apply enc_acts_commute; exact Hwf].
  intros f g H l Hl. split.
  - rewrite !map_map. apply map_ext_in. intros s Hs. apply (H s (Hl s Hs)).
  - intros t Ht. apply in_map_iff in Ht as (s & <- & Hs). apply (H s (Hl s Hs)).
Qed.

(* ------------------------------------------------------------------ *)
(** * (e) one-word codes: the 1-D routine of the NumPy and bit-mask engines *)

(* the single code word (what the identity hasher returns, what bfs_numpy / bfs_bitmask iterate on) *)
Definition code_word (w n : nat) (s : list Z) : Z := nth 0 (encode w n s) 0.

Lemma single_word_length d w : wf_perm_desc d -> g_width d = Some w -> single_word d ->
  encoded_length w (desc_n d) = 1%nat.
Proof.
  intros Hwf Hw Hsw. unfold single_word in Hsw. rewrite Hw in Hsw.
  pose proof (wf_width d Hwf) as Hwd. rewrite Hw in Hwd. cbn [width_ok] in Hwd.
  pose proof (wf_n_pos d Hwf) as Hn. apply encoded_length_one. nia.
Qed.

Lemma encode_one_word d w s : wf_perm_desc d -> g_width d = Some w -> single_word d ->
  encode w (desc_n d) s = [code_word w (desc_n d) s].
Proof.
  intros Hwf Hw Hsw. apply list_len1. rewrite encode_length. apply single_word_length; assumption.
Qed.

(* the 1-D routine agrees with word 0 of the 2-D routine on EVERY int64 word (C02_emit_1d) *)
Theorem oneword_routine_is_word0 d w p x :
  wf_perm_desc d -> g_width d = Some w -> single_word d -> In p (desc_perms d) -> in64 x ->
  let n := desc_n d in
  eval_prog1d (emit w n p) x = nth 0 (eval_prog (encoded_length w n) (emit w n p) [x]) 0.
Proof.
  intros Hwf Hw Hsw Hp Hx n. unfold n. rewrite (single_word_length d w Hwf Hw Hsw).
  destruct (wf_perm_in d p Hwf Hp) as [HP HL].
  apply eval_prog1d_eq; [apply single_word_length; assumption | apply Perm_Forall_lt; assumption | exact Hx].
Qed.

(* on codes it maps the code word of s to the code word of p.s *)
Theorem oneword_routine_code d w p s :
  wf_perm_desc d -> g_width d = Some w -> single_word d -> In p (desc_perms d) -> Ustates d s ->
  let n := desc_n d in
  eval_prog1d (emit w n p) (code_word w n s) = code_word w n (apply_perm 0 p s).
Proof.
  intros Hwf Hw Hsw Hp Hs n. unfold n.
  rewrite (oneword_routine_is_word0 d w p _ Hwf Hw Hsw Hp)
    by (unfold code_word; apply Forall_in64_nth, encode_in64).
  rewrite <- (encode_one_word d w s Hwf Hw Hsw).
  rewrite (encoded_image_is_code d w p s Hwf Hw Hp Hs). reflexivity.
Qed.

(* decoded, it is the abstract action of the search models *)
Theorem oneword_routine_is_abstract d w i s :
  wf_perm_desc d -> g_width d = Some w -> single_word d -> (i < length (desc_perms d))%nat -> Ustates d s ->
  let n := desc_n d in let p := nth i (desc_perms d) [] in
  decode w n [eval_prog1d (emit w n p) (code_word w n s)] = nth i (acts (impl_of d)) (fun x => x) s.
Proof.
  intros Hwf Hw Hsw Hi Hs n p. pose proof (nth_perm_in d i Hi) as Hp. fold p in Hp.
  unfold n. rewrite (oneword_routine_code d w p s Hwf Hw Hsw Hp Hs).
  rewrite <- (encode_one_word d w _ Hwf Hw Hsw).
  unfold impl_of. rewrite (acts_nth _ _ d i Hwf Hi). fold p.
  apply decode_encode_U; [exact Hwf | exact Hw |].
  apply apply_perm_Ustates; [apply wf_width; exact Hwf | apply (wf_perm_in d p Hwf Hp) | exact Hs].
Qed.

(* with the identity hasher the code word IS the model's hash, so the 1-D routines act on hashes *)
Theorem identity_hash_is_code_word steps mult d w s :
  wf_perm_desc d -> g_width d = Some w -> g_hasher d = HIdentity ->
  hashf (mk_impl steps mult d) s = code_word w (desc_n d) s.
Proof.
  intros Hwf Hw Hh. unfold mk_impl. cbn [hashf]. rewrite Hh, (encoded_row_some d w s (wf_kind d Hwf) Hw).
  reflexivity.
Qed.

Theorem oneword_routine_on_hashes steps mult d w p s :
  wf_perm_desc d -> g_width d = Some w -> g_hasher d = HIdentity -> single_word d ->
  In p (desc_perms d) -> Ustates d s ->
  eval_prog1d (emit w (desc_n d) p) (hashf (mk_impl steps mult d) s)
  = hashf (mk_impl steps mult d) (apply_perm 0 p s).
Proof.
  intros Hwf Hw Hh Hsw Hp Hs. rewrite !(identity_hash_is_code_word steps mult d w _ Hwf Hw Hh).
  apply oneword_routine_code; assumption.
Qed.

(* ------------------------------------------------------------------ *)
(** * Non-vacuity: lrx5 (width 3, one code word) and big24 (width 5, two code words) *)

Example lrx5_width : g_width lrx5 = Some 3%nat. Proof. reflexivity. Qed.
Example big24_width : g_width big24 = Some 5%nat. Proof. reflexivity. Qed.

Definition big24_state : state := map Z.of_nat (rev (seq 0 24)) .

Example big24_state_U : Ustates big24 big24_state.
Proof. apply Ustatesb_spec. vm_compute. reflexivity. Qed.

(* the routine really runs: code of [3;1;4;0;2], the three routines on it, and their decodings *)
Example lrx5_run :
  encode 3 5 [3;1;4;0;2] = [8459] /\
  map (fun p => eval_prog 1 (emit 3 5 p) [8459]) (desc_perms lrx5) = [[13345]; [2138]; [8473]] /\
  map (fun p => decode 3 5 (eval_prog 1 (emit 3 5 p) [8459])) (desc_perms lrx5)
    = [[1;4;0;2;3]; [2;3;1;4;0]; [1;3;4;0;2]] /\
  map (fun g : state -> state => g [3;1;4;0;2]) (acts (impl_of lrx5)) = [[1;4;0;2;3]; [2;3;1;4;0]; [1;3;4;0;2]] /\
  map (fun p => eval_prog1d (emit 3 5 p) 8459) (desc_perms lrx5) = [13345; 2138; 8473].
Proof. vm_compute. repeat split; reflexivity. Qed.

(* (a) instantiated *)
Example lrx5_action i : (i < 3)%nat ->
  decode 3 5 (eval_prog (encoded_length 3 5) (emit 3 5 (nth i (desc_perms lrx5) [])) (encode 3 5 [3;1;4;0;2]))
  = nth i (acts (impl_of lrx5)) (fun x => x) [3;1;4;0;2].
Proof. intros Hi. apply (encoded_action_is_abstract lrx5 3 i [3;1;4;0;2] lrx5_wf lrx5_width Hi lrx5_state). Qed.

(* (b) instantiated: the image is a code, and hashing it is the model's hash of the neighbour *)
Example lrx5_image p : In p (desc_perms lrx5) ->
  eval_prog (encoded_length 3 5) (emit 3 5 p) (encode 3 5 [3;1;4;0;2]) = encode 3 5 (apply_perm 0 p [3;1;4;0;2]) /\
  make_hash splitmix_steps hash_mult HIdentity (eval_prog (encoded_length 3 5) (emit 3 5 p) (encode 3 5 [3;1;4;0;2]))
  = hashf (impl_of lrx5) (apply_perm 0 p [3;1;4;0;2]).
Proof.
  intros Hp. split.
  - apply (encoded_image_is_code lrx5 3 p _ lrx5_wf lrx5_width Hp lrx5_state).
  - apply (encoded_hash_is_hashf splitmix_steps hash_mult lrx5 3 p _ lrx5_wf lrx5_width Hp lrx5_state).
Qed.

(* (c) instantiated *)
Example lrx5_neighbors :
  map (decode 3 5) (get_neighbors_encoded lrx5 (map (encode 3 5) [[3;1;4;0;2]; [0;1;2;3;4]]))
  = get_neighbors (impl_of lrx5) [[3;1;4;0;2]; [0;1;2;3;4]] /\
  hash_rows splitmix_steps hash_mult lrx5 (get_neighbors_encoded lrx5 (map (encoded_row lrx5) [[3;1;4;0;2]; [0;1;2;3;4]]))
  = hashes (impl_of lrx5) (get_neighbors (impl_of lrx5) [[3;1;4;0;2]; [0;1;2;3;4]]).
Proof.
  assert (HU : forall s, In s [[3;1;4;0;2]; [0;1;2;3;4]] -> Ustates lrx5 s).
  { intros s [<- | [<- | []]]; [exact lrx5_state | apply (perm_central_U splitmix_steps hash_mult lrx5 lrx5_wf)]. }
  split.
  - apply (encoded_neighbors_some lrx5 3 _ lrx5_wf lrx5_width HU).
  - apply (encoded_neighbors_hashes splitmix_steps hash_mult lrx5 _ lrx5_wf HU).
Qed.

Example lrx5_neighbors_run :
  get_neighbors_encoded lrx5 (map (encode 3 5) [[3;1;4;0;2]; [0;1;2;3;4]])
  = [[13345]; [2257]; [2138]; [13380]; [8473]; [18049]].   (* the values the real library returns *)
Proof. vm_compute. reflexivity. Qed.

Example lrx5_path :
  apply_path_encoded lrx5 [3;1;4;0;2] [0;2;1;1]%nat = apply_path (acts (impl_of lrx5)) [3;1;4;0;2] [0;2;1;1]%nat /\
  apply_path_encoded lrx5 [3;1;4;0;2] [0;2;1;1]%nat = Ok [2;3;4;1;0] /\
  apply_path_encoded lrx5 [3;1;4;0;2] [0;3]%nat = Err AssertionErr.
Proof.
  split; [apply (encoded_apply_path_decoded lrx5 _ _ lrx5_wf lrx5_state)|]. vm_compute. split; reflexivity.
Qed.

(* (e) instantiated *)
Example lrx5_oneword i : (i < 3)%nat ->
  decode 3 5 [eval_prog1d (emit 3 5 (nth i (desc_perms lrx5) [])) (code_word 3 5 [3;1;4;0;2])]
  = nth i (acts (impl_of lrx5)) (fun x => x) [3;1;4;0;2].
Proof. intros Hi. apply (oneword_routine_is_abstract lrx5 3 i _ lrx5_wf lrx5_width lrx5_single Hi lrx5_state). Qed.

Example lrx5_oneword_hash p : In p (desc_perms lrx5) ->
  eval_prog1d (emit 3 5 p) (hashf (impl_of lrx5) [3;1;4;0;2]) = hashf (impl_of lrx5) (apply_perm 0 p [3;1;4;0;2]).
Proof.
  intros Hp. apply (oneword_routine_on_hashes splitmix_steps hash_mult lrx5 3 p _ lrx5_wf lrx5_width eq_refl lrx5_single Hp lrx5_state).
Qed.

(* two code words: the routines move bits ACROSS the word boundary *)
Example big24_run :
  encoded_length 5 24 = 2%nat /\
  encode 5 24 big24_state = [-5317115617500047657; 74981887656532] /\
  map (fun p => eval_prog 2 (emit 5 24 p) (encode 5 24 big24_state)) (desc_perms big24)
  = [[-6507228138384534858; 51793738898749970]; [-5317115617500047626; 74981887656532]] /\   (* as the real library *)
  map (fun p => decode 5 24 (eval_prog 2 (emit 5 24 p) (encode 5 24 big24_state))) (desc_perms big24)
  = map (fun g : state -> state => g big24_state) (acts (impl_of big24)).
Proof. vm_compute. repeat split; reflexivity. Qed.

Example big24_action i : (i < 2)%nat ->
  decode 5 24 (eval_prog (encoded_length 5 24) (emit 5 24 (nth i (desc_perms big24) [])) (encode 5 24 big24_state))
  = nth i (acts (impl_of big24)) (fun x => x) big24_state.
Proof. intros Hi. apply (encoded_action_is_abstract big24 5 i _ big24_wf big24_width Hi big24_state_U). Qed.

Example big24_image p : In p (desc_perms big24) ->
  eval_prog (encoded_length 5 24) (emit 5 24 p) (encode 5 24 big24_state) = encode 5 24 (apply_perm 0 p big24_state) /\
  make_hash splitmix_steps hash_mult (HSplitmix 7) (eval_prog (encoded_length 5 24) (emit 5 24 p) (encode 5 24 big24_state))
  = hashf (impl_of big24) (apply_perm 0 p big24_state).
Proof.
  intros Hp. split.
  - apply (encoded_image_is_code big24 5 p _ big24_wf big24_width Hp big24_state_U).
  - apply (encoded_hash_is_hashf splitmix_steps hash_mult big24 5 p _ big24_wf big24_width Hp big24_state_U).
Qed.

Example big24_neighbors :
  map (decode 5 24) (get_neighbors_encoded big24 (map (encode 5 24) [big24_state; g_central big24]))
  = get_neighbors (impl_of big24) [big24_state; g_central big24].
Proof.
  apply (encoded_neighbors_some big24 5 _ big24_wf big24_width).
  intros s [<- | [<- | []]]; [exact big24_state_U | apply (perm_central_U splitmix_steps hash_mult big24 big24_wf)].
Qed.

Example big24_path :
  apply_path_encoded big24 big24_state [0;1;0;0;1]%nat = apply_path (acts (impl_of big24)) big24_state [0;1;0;0;1]%nat.
Proof. apply (encoded_apply_path_decoded big24 _ _ big24_wf big24_state_U). Qed.

(* (d) instantiated on raw3 (un-encoded, negative entries allowed) *)
Example raw3_action i : (i < 2)%nat ->
  nth i (enc_acts raw3) (fun x => x) [10; -3; 7] = nth i (acts (impl_of raw3)) (fun x => x) [10; -3; 7].
Proof. intros Hi. apply (raw_action_is_abstract raw3 i [10; -3; 7] raw3_wf eq_refl Hi). Qed.

Print Assumptions codec_side_conditions.
Print Assumptions encoded_action_is_abstract.
Print Assumptions encoded_image_is_code.
Print Assumptions encode_decode_canonical.
Print Assumptions encoded_hash_is_hashf.
Print Assumptions enc_acts_commute.
Print Assumptions encoded_neighbors.
Print Assumptions encoded_neighbors_some.
Print Assumptions encoded_neighbors_hashes.
Print Assumptions encoded_apply_path.
Print Assumptions encoded_apply_path_decoded.
Print Assumptions encoded_apply_path_run.
Print Assumptions encoded_apply_path_batch.
Print Assumptions raw_action_is_abstract.
Print Assumptions oneword_routine_is_word0.
Print Assumptions oneword_routine_is_abstract.
Print Assumptions oneword_routine_on_hashes.
Print Assumptions lrx5_run.
Print Assumptions big24_run.

(* further instances (non-vacuity of the remaining statements) *)
Example lrx5_side_conditions : codec_pre 3 5 [1;2;3;4;0]%nat [3;1;4;0;2].
Proof. apply (codec_side_conditions lrx5 3 _ _ lrx5_wf lrx5_width (or_introl eq_refl) lrx5_state). Qed.

Example lrx5_canonical : canonical_code 3 5 [8459] /\ encode 3 5 (decode 3 5 [8459]) = [8459].
Proof.
  assert (H : canonical_code 3 5 [8459]) by apply (encode_canonical 3 5 [3;1;4;0;2]).
  split; [exact H | apply encode_decode_canonical; [lia | exact H]].
Qed.

Example lrx5_path_run :
  run state (acts (impl_of lrx5)) [3;1;4;0;2] [0;2;1;1]%nat = Some [2;3;4;1;0] <->
  apply_path_encoded lrx5 [3;1;4;0;2] [0;2;1;1]%nat = Ok [2;3;4;1;0].
Proof. apply (encoded_apply_path_run lrx5 _ _ _ lrx5_wf lrx5_state). Qed.

Example lrx5_path_batch :
  apply_path (map (fun f : list Z -> list Z => map f) (enc_acts lrx5)) (map (encoded_row lrx5) [[3;1;4;0;2]; [0;1;2;3;4]]) [0;2]%nat
  = match apply_path (map (fun g : state -> state => map g) (acts (impl_of lrx5))) [[3;1;4;0;2]; [0;1;2;3;4]] [0;2]%nat with
    | Ok ts => Ok (map (encoded_row lrx5) ts) | Err e => Err e end.
Proof.
  apply (encoded_apply_path_batch splitmix_steps hash_mult lrx5 _ _ lrx5_wf).
  intros s [<- | [<- | []]]; [exact lrx5_state | apply (perm_central_U splitmix_steps hash_mult lrx5 lrx5_wf)].
Qed.

Example raw3_hash :
  make_hash splitmix_steps hash_mult (g_hasher raw3) (gather_row [1;2;0]%nat [10; -3; 7])
  = hashf (impl_of raw3) (apply_perm 0 [1;2;0]%nat [10; -3; 7]).
Proof. apply (raw_hash_is_hashf splitmix_steps hash_mult raw3 _ _ raw3_wf eq_refl). Qed.
