(** Proofs about the rank/unrank machinery of the bit-mask BFS engine (Bitmask.v, model of
    cayleypy/algo/bfs_bitmask.py): the 8!-entry prefix table is a duplicate-free enumeration of
    the permutations of [0..7], the chunk maps are mutually inverse relabellings, and
    rank -> prefix -> rank / prefix -> rank -> prefix are identities.  Everything is proved from
    general lemmas about [Perm.perms]; no large computation is performed. *)
From Coq Require Import ZArith List Bool Arith Lia Sorting.Permutation Sorting.Sorted.
From V Require Import Base Perm PermProofs PermCycles Bitmask.
Import ListNotations.

(* ================= generic list helpers ================= *)

Lemma NoDup_app_intro {A} (l l' : list A) :
  NoDup l -> NoDup l' -> (forall x, In x l -> In x l' -> False) -> NoDup (l ++ l').
Proof.
  intros Hl Hl' Hd. induction l as [|a t IH]; simpl; auto.
  inversion Hl as [|a' t' Hna Ht]; subst. constructor.
  - intros Hin. apply in_app_or in Hin as [Hin|Hin]; [auto|]. apply (Hd a); simpl; auto.
  - apply IH; auto. intros x Hx Hx'. apply (Hd x); simpl; auto.
Qed.

Lemma flat_map_length_const {A B} (f : A -> list B) (L : list A) k :
  (forall a, In a L -> length (f a) = k) -> length (flat_map f L) = length L * k.
Proof.
  induction L as [|a t IH]; intros H; simpl; auto.
  rewrite app_length, H by (simpl; auto). rewrite IH; auto.
  intros b Hb. apply H. simpl; auto.
Qed.

Lemma filter_length_split {A} (f : A -> bool) (l : list A) :
  length (filter f l) + length (filter (fun x => negb (f x)) l) = length l.
Proof.
  induction l as [|a t IH]; simpl; auto. destruct (f a); simpl; lia.
Qed.

Lemma StronglySorted_filter {A} (R : A -> A -> Prop) (f : A -> bool) (l : list A) :
  StronglySorted R l -> StronglySorted R (filter f l).
Proof.
  induction 1 as [|a t Hs IH Hall]; simpl; [constructor|].
  destruct (f a); auto. constructor; auto.
  rewrite Forall_forall in *. intros x Hx. apply filter_In in Hx as [Hx _]. auto.
Qed.

Lemma seq_strongly_sorted_lt s n : StronglySorted lt (seq s n).
Proof.
  revert s; induction n as [|n IH]; intros s; simpl; constructor; auto.
  rewrite Forall_forall. intros x Hx. apply in_seq in Hx. lia.
Qed.

(* ================= picks ================= *)

Lemma picks_Permutation {A} (l : list A) x r : In (x, r) (picks l) -> Permutation l (x :: r).
Proof.
  revert x r; induction l as [|a t IH]; intros x r H; simpl in H.
  - contradiction.
  - destruct H as [H|H].
    + inversion H; subst. reflexivity.
    + apply in_map_iff in H as [[y r'] [E Hin]]. inversion E; subst.
      apply IH in Hin. rewrite Hin. apply perm_swap.
Qed.

Lemma picks_length {A} (l : list A) : length (picks l) = length l.
Proof. induction l as [|a t IH]; simpl; auto. rewrite map_length. auto. Qed.

Lemma picks_rest_length {A} (l : list A) x r : In (x, r) (picks l) -> length l = S (length r).
Proof. intros H. apply picks_Permutation in H. apply Permutation_length in H. exact H. Qed.

Lemma picks_fst {A} (l : list A) : map fst (picks l) = l.
Proof.
  induction l as [|a t IH]; simpl; auto. f_equal. rewrite map_map.
  rewrite <- IH at 2. apply map_ext. intros [y r]. reflexivity.
Qed.

Lemma picks_In_ex {A} (l : list A) x : In x l -> exists r, In (x, r) (picks l).
Proof.
  induction l as [|a t IH]; intros H; simpl in *; [contradiction|].
  destruct H as [->|H].
  - exists t. auto.
  - destruct (IH H) as [r Hr]. exists (a :: r). right.
    apply in_map_iff. exists (x, r). auto.
Qed.

(* ================= perms: all permutations of a list ================= *)

Lemma perms_aux_sound {A} n : forall (l p : list A),
  length l = n -> In p (perms_aux n l) -> Permutation l p.
Proof.
  induction n as [|n IH]; intros l p Hl H; simpl in H.
  - destruct H as [<-|[]]. destruct l; [constructor|discriminate].
  - apply in_flat_map in H as [[x r] [Hxr Hp]].
    apply in_map_iff in Hp as [q [<- Hq]].
    pose proof (picks_Permutation _ _ _ Hxr) as HP.
    pose proof (picks_rest_length _ _ _ Hxr) as HL.
    rewrite HP. constructor. apply IH; auto. lia.
Qed.

Lemma perms_aux_complete {A} : forall (p l : list A),
  Permutation l p -> In p (perms_aux (length p) l).
Proof.
  induction p as [|x q IH]; intros l HP.
  - simpl. auto.
  - cbn [length perms_aux]. apply in_flat_map.
    assert (In x l) as Hx by (apply (Permutation_in x (Permutation_sym HP)); simpl; auto).
    destruct (picks_In_ex l x Hx) as [r Hr]. exists (x, r). split; auto.
    apply in_map. apply IH.
    apply picks_Permutation in Hr. apply Permutation_cons_inv with (a := x).
    rewrite <- Hr. exact HP.
Qed.

Theorem perms_In_iff {A} (l p : list A) : In p (perms l) <-> Permutation l p.
Proof.
  unfold perms. split.
  - apply perms_aux_sound. reflexivity.
  - intros HP. rewrite (Permutation_length HP). apply perms_aux_complete. exact HP.
Qed.

Lemma perms_aux_length {A} n : forall (l : list A), length l = n -> length (perms_aux n l) = fact n.
Proof.
  induction n as [|n IH]; intros l Hl.
  - reflexivity.
  - cbn [perms_aux]. rewrite flat_map_length_const with (k := fact n).
    + rewrite picks_length, Hl. reflexivity.
    + intros [x r] Hxr. rewrite map_length. apply IH.
      apply picks_rest_length in Hxr. lia.
Qed.

Theorem perms_length {A} (l : list A) : length (perms l) = fact (length l).
Proof. apply perms_aux_length. reflexivity. Qed.

Lemma NoDup_flat_map_heads {A} (g : list A -> list (list A)) (L : list (A * list A)) :
  NoDup (map fst L) -> (forall x r, In (x, r) L -> NoDup (g r)) ->
  NoDup (flat_map (fun '(x, r) => map (cons x) (g r)) L).
Proof.
  induction L as [|[x r] L IH]; intros Hnd Hg; simpl; [constructor|].
  cbn [map fst] in Hnd. inversion Hnd as [|x' t' Hnx HndL]; subst.
  apply NoDup_app_intro.
  - apply NoDup_map_inj; [apply (Hg x r); simpl; auto|].
    intros a b _ _ E. inversion E. reflexivity.
  - apply IH; auto. intros y s Hys. apply (Hg y s). simpl; auto.
  - intros p Hp1 Hp2. apply in_map_iff in Hp1 as [q [<- _]].
    apply in_flat_map in Hp2 as [[y s] [Hys Hp2]].
    apply in_map_iff in Hp2 as [q' [E _]]. inversion E; subst.
    apply Hnx. apply in_map_iff. exists (x, s). auto.
Qed.

Lemma perms_aux_NoDup {A} n : forall (l : list A), length l = n -> NoDup l -> NoDup (perms_aux n l).
Proof.
  induction n as [|n IH]; intros l Hl Hnd.
  - simpl. constructor; [simpl; tauto|constructor].
  - cbn [perms_aux]. apply NoDup_flat_map_heads.
    + rewrite picks_fst. exact Hnd.
    + intros x r Hxr. pose proof (picks_Permutation _ _ _ Hxr) as HP.
      pose proof (picks_rest_length _ _ _ Hxr) as HL. apply IH; [lia|].
      assert (NoDup (x :: r)) as Hxr' by (apply (Permutation_NoDup HP); exact Hnd).
      inversion Hxr'; auto.
Qed.

Theorem perms_NoDup {A} (l : list A) : NoDup l -> NoDup (perms l).
Proof. apply perms_aux_NoDup. reflexivity. Qed.

(* ================= index_of ================= *)

Lemma nat_list_eqb_refl l : nat_list_eqb l l = true.
Proof. apply list_eqb_nat_true. reflexivity. Qed.

Lemma index_of_Some l : forall x i k, index_of x l i = Some k ->
  i <= k /\ k - i < length l /\ nth (k - i) l [] = x.
Proof.
  induction l as [|y t IH]; intros x i k H; simpl in H; [discriminate|].
  destruct (nat_list_eqb x y) eqn:E.
  - inversion H; subst. apply list_eqb_nat_true in E. subst.
    rewrite Nat.sub_diag. simpl. repeat split; lia.
  - apply IH in H as [H1 [H2 H3]]. replace (k - i) with (S (k - S i)) by lia.
    simpl. repeat split; auto; lia.
Qed.

Lemma index_of_nth l d : NoDup l -> forall r i, r < length l ->
  index_of (nth r l d) l i = Some (i + r).
Proof.
  induction 1 as [|y t Hny Hnd IH]; intros r i Hr; simpl in Hr; [lia|].
  destruct r as [|r]; cbn [nth index_of].
  - rewrite nat_list_eqb_refl. f_equal. lia.
  - destruct (nat_list_eqb (nth r t d) y) eqn:E.
    + apply list_eqb_nat_true in E. exfalso. apply Hny. rewrite <- E. apply nth_In. lia.
    + rewrite IH by lia. f_equal. lia.
Qed.

Lemma index_of_In l x : NoDup l -> In x l ->
  exists k, index_of x l 0 = Some k /\ k < length l /\ nth k l [] = x.
Proof.
  intros Hnd Hin. destruct (In_nth l x [] Hin) as [k [Hk <-]].
  exists k. rewrite index_of_nth by auto. auto.
Qed.

(* ================= the prefix table ================= *)

Lemma prefix_table_length : length prefix_table = fact 8.
Proof. unfold prefix_table. rewrite perms_length, seq_length. reflexivity. Qed.

Lemma prefix_table_NoDup : NoDup prefix_table.
Proof. unfold prefix_table. apply perms_NoDup, seq_NoDup. Qed.

Lemma prefix_table_In p : In p prefix_table <-> is_perm p = true /\ length p = 8.
Proof.
  unfold prefix_table. rewrite perms_In_iff, is_perm_iff. unfold Perm, RR. split.
  - intros HP. pose proof (Permutation_length HP) as HL. rewrite seq_length in HL.
    rewrite <- HL. split; [apply Permutation_sym; exact HP|reflexivity].
  - intros [HP HL]. rewrite HL in HP. apply Permutation_sym. exact HP.
Qed.

Theorem prefix_table_complete :
  length prefix_table = fact 8 /\
  NoDup prefix_table /\
  (forall p, In p prefix_table -> is_perm p = true /\ length p = 8) /\
  (forall r, r < fact 8 -> index_of (nth r prefix_table []) prefix_table 0 = Some r).
Proof.
  split; [exact prefix_table_length|]. split; [exact prefix_table_NoDup|]. split.
  - intros p Hp. apply prefix_table_In. exact Hp.
  - intros r Hr. rewrite <- prefix_table_length in Hr.
    apply (index_of_nth prefix_table [] prefix_table_NoDup r 0 Hr).
Qed.

Theorem prefix_table_all p : is_perm p = true -> length p = 8 -> In p prefix_table.
Proof. intros H1 H2. apply prefix_table_In. auto. Qed.

Lemma prefix_table_nth r : r < fact 8 ->
  Perm (nth r prefix_table []) /\ length (nth r prefix_table []) = 8.
Proof.
  intros Hr. rewrite <- prefix_table_length in Hr.
  pose proof (nth_In prefix_table [] Hr) as Hin.
  apply prefix_table_In in Hin as [H1 H2]. split; [apply is_perm_iff; exact H1|exact H2].
Qed.

(* ================= chunk maps ================= *)

Lemma chunk_map1_In n suffix i : In i (chunk_map1 n suffix) <-> i < n /\ ~ In i suffix.
Proof.
  unfold chunk_map1. rewrite filter_In, in_seq, negb_true_iff. split.
  - intros [Hi Hf]. split; [lia|]. intros Hin.
    assert (existsb (Nat.eqb i) suffix = true) as Ht.
    { apply existsb_exists. exists i. split; auto. apply Nat.eqb_refl. }
    congruence.
  - intros [Hi Hn]. split; [lia|].
    destruct (existsb (Nat.eqb i) suffix) eqn:E; auto.
    apply existsb_exists in E as [y [Hy Hey]]. apply Nat.eqb_eq in Hey. subst. contradiction.
Qed.

Lemma chunk_map1_sorted n suffix : StronglySorted lt (chunk_map1 n suffix).
Proof. unfold chunk_map1. apply StronglySorted_filter, seq_strongly_sorted_lt. Qed.

Lemma chunk_map1_NoDup n suffix : NoDup (chunk_map1 n suffix).
Proof. unfold chunk_map1. apply NoDup_filter, seq_NoDup. Qed.

Lemma chunk_map1_length_gen n suffix :
  NoDup suffix -> (forall x, In x suffix -> x < n) ->
  length (chunk_map1 n suffix) + length suffix = n.
Proof.
  intros Hnd Hlt. unfold chunk_map1.
  pose proof (filter_length_split (fun i => negb (existsb (Nat.eqb i) suffix)) (seq 0 n)) as HS.
  rewrite seq_length in HS.
  set (out := filter (fun x => negb (negb (existsb (Nat.eqb x) suffix))) (seq 0 n)) in HS.
  assert (Permutation out suffix) as HP.
  { apply NoDup_Permutation; auto.
    - apply NoDup_filter, seq_NoDup.
    - intros x. unfold out. rewrite filter_In, in_seq, negb_involutive, existsb_exists. split.
      + intros [_ [y [Hy Hxy]]]. apply Nat.eqb_eq in Hxy. subst. exact Hy.
      + intros Hx. split; [specialize (Hlt x Hx); lia|]. exists x. split; auto. apply Nat.eqb_refl. }
  rewrite <- (Permutation_length HP). exact HS.
Qed.

Theorem chunk_map1_spec n suffix :
  NoDup suffix -> (forall x, In x suffix -> x < n) -> length suffix = n - 8 -> 8 <= n ->
  length (chunk_map1 n suffix) = 8 /\
  StronglySorted lt (chunk_map1 n suffix) /\
  (forall i, In i (chunk_map1 n suffix) <-> i < n /\ ~ In i suffix).
Proof.
  intros Hnd Hlt Hlen Hn. split; [|split].
  - pose proof (chunk_map1_length_gen n suffix Hnd Hlt) as H. lia.
  - apply chunk_map1_sorted.
  - apply chunk_map1_In.
Qed.

(* the inverse-table loop  [for i in range(len(m)): map2[m[i]] = i]  started at index [a] *)
Lemma fold_upd_combine m : forall a ans,
  NoDup m -> (forall v, In v m -> v < length ans) ->
  let r := fold_left (fun acc '(i, v) => upd acc v i) (combine (seq a (length m)) m) ans in
  length r = length ans /\
  (forall i, i < length m -> nth (nth i m 0) r 0 = a + i) /\
  (forall j, ~ In j m -> nth j r 0 = nth j ans 0).
Proof.
  induction m as [|v t IH]; intros a ans Hnd Hlt; cbv zeta.
  - simpl. split; [reflexivity|]. split; [intros i Hi; lia|reflexivity].
  - inversion Hnd as [|v' t' Hnv Hndt]; subst.
    cbn [length seq combine fold_left].
    destruct (IH (S a) (upd ans v a) Hndt) as [I1 [I2 I3]].
    { intros w Hw. rewrite upd_length. apply Hlt. simpl; auto. }
    cbv zeta in I1, I2, I3. rewrite upd_length in I1.
    split; [exact I1|]. split.
    + intros [|i] Hi; cbn [nth].
      * rewrite I3 by exact Hnv. rewrite nth_upd_same; [lia|]. apply Hlt. simpl; auto.
      * simpl in Hi. rewrite I2 by lia. lia.
    + intros j Hj. rewrite I3 by (intros Hin; apply Hj; simpl; auto).
      apply nth_upd_other. intros E. apply Hj. simpl; auto.
Qed.

Lemma chunk_map2_gen n map1 :
  NoDup map1 -> (forall v, In v map1 -> v < n) ->
  length (chunk_map2 n map1) = n /\
  (forall i, i < length map1 -> nth (nth i map1 0) (chunk_map2 n map1) 0 = i) /\
  (forall v, In v map1 -> nth v (chunk_map2 n map1) 0 < length map1 /\
                          nth (nth v (chunk_map2 n map1) 0) map1 0 = v).
Proof.
  intros Hnd Hlt. unfold chunk_map2.
  destruct (fold_upd_combine map1 0 (repeat 0 n) Hnd) as [I1 [I2 _]].
  { intros v Hv. rewrite repeat_length. auto. }
  cbv zeta in I1, I2. rewrite repeat_length in I1.
  split; [exact I1|]. split.
  - intros i Hi. rewrite I2 by exact Hi. reflexivity.
  - intros v Hv. destruct (In_nth map1 v 0 Hv) as [i [Hi <-]].
    rewrite I2 by exact Hi. simpl. auto.
Qed.

Theorem chunk_map2_inverse n suffix :
  NoDup suffix -> (forall x, In x suffix -> x < n) -> length suffix = n - 8 -> 8 <= n ->
  let map1 := chunk_map1 n suffix in
  let map2 := chunk_map2 n map1 in
  length map2 = n /\
  (forall i, i < 8 -> nth (nth i map1 0) map2 0 = i) /\
  (forall v, In v map1 -> nth v map2 0 < 8 /\ nth (nth v map2 0) map1 0 = v).
Proof.
  intros Hnd Hlt Hlen Hn map1 map2.
  destruct (chunk_map1_spec n suffix Hnd Hlt Hlen Hn) as [HL [_ HI]].
  destruct (chunk_map2_gen n map1 (chunk_map1_NoDup n suffix)) as [G1 [G2 G3]].
  { intros v Hv. apply HI in Hv. tauto. }
  fold map1 in HL. rewrite HL in G2, G3. auto.
Qed.

(* ================= rank / unrank ================= *)

(* a permutation of [0..n-1] splits into an 8-prefix and a suffix satisfying the chunk hypotheses *)
Lemma perm_split_facts n perm :
  Perm perm -> length perm = n -> 8 <= n ->
  let pre := firstn 8 perm in
  let sfx := skipn 8 perm in
  NoDup sfx /\ (forall x, In x sfx -> x < n) /\ length sfx = n - 8 /\
  length pre = 8 /\ NoDup pre /\ (forall v, In v pre -> In v (chunk_map1 n sfx)).
Proof.
  intros HP Hlen Hn pre sfx.
  pose proof (Perm_NoDup perm HP) as Hnd.
  pose proof (firstn_skipn 8 perm) as Hsplit. fold pre sfx in Hsplit.
  rewrite <- Hsplit in Hnd.
  assert (forall x, In x perm -> x < n) as Hlt.
  { intros x Hx. apply (Perm_In perm x HP) in Hx. lia. }
  split; [apply (NoDup_app_r _ _ Hnd)|]. split.
  { intros x Hx. apply Hlt. rewrite <- Hsplit. apply in_or_app. auto. }
  split; [unfold sfx; rewrite skipn_length; lia|].
  split; [unfold pre; rewrite firstn_length; lia|].
  split; [apply (NoDup_app_l _ _ Hnd)|].
  intros v Hv. apply chunk_map1_In. split.
  - apply Hlt. rewrite <- Hsplit. apply in_or_app. auto.
  - intros Hs. exact (NoDup_app_disj _ _ v Hnd Hv Hs).
Qed.

Theorem prefix_to_rank_lt prefix map2 : prefix_to_rank prefix map2 < fact 8.
Proof.
  unfold prefix_to_rank.
  destruct (index_of _ prefix_table 0) as [k|] eqn:E.
  - apply index_of_Some in E as [_ [E _]]. rewrite prefix_table_length in E.
    rewrite Nat.sub_0_r in E. exact E.
  - apply lt_O_fact.
Qed.

(* rank -> prefix -> rank, for any suffix satisfying the chunk hypotheses *)
Theorem unrank_rank_sfx n sfx :
  NoDup sfx -> (forall x, In x sfx -> x < n) -> length sfx = n - 8 -> 8 <= n ->
  let map1 := chunk_map1 n sfx in
  let map2 := chunk_map2 n map1 in
  forall r, r < fact 8 -> prefix_to_rank (rank_to_prefix r map1 ++ sfx) map2 = r.
Proof.
  intros Hnd Hlt Hlen Hn map1 map2 r Hr.
  destruct (chunk_map2_inverse n sfx Hnd Hlt Hlen Hn) as [_ [G2 _]].
  fold map1 in G2. fold map2 in G2.
  destruct (prefix_table_nth r Hr) as [HP HL].
  destruct prefix_table_complete as [_ [_ [_ Hidx]]].
  unfold prefix_to_rank, rank_to_prefix, RR.
  remember (nth r prefix_table []) as p8 eqn:Ep8.
  rewrite firstn_app, map_length, HL, Nat.sub_diag, firstn_O, app_nil_r.
  rewrite firstn_all2 by (rewrite map_length; lia).
  rewrite map_map.
  assert (map (fun x => nth (nth x map1 0) map2 0) p8 = p8) as Hid.
  { rewrite <- (map_id p8) at 2. apply map_ext_in. intros d Hd. apply G2.
    apply (Perm_In p8 d HP) in Hd. lia. }
  rewrite Hid, Ep8, (Hidx r Hr). reflexivity.
Qed.

(* prefix -> rank -> prefix *)
Theorem rank_unrank n perm :
  is_perm perm = true -> length perm = n -> 8 <= n ->
  let sfx := skipn 8 perm in
  let map1 := chunk_map1 n sfx in
  let map2 := chunk_map2 n map1 in
  rank_to_prefix (prefix_to_rank perm map2) map1 = firstn 8 perm.
Proof.
  intros Hp Hlen Hn sfx map1 map2. apply is_perm_iff in Hp.
  destruct (perm_split_facts n perm Hp Hlen Hn) as [F1 [F2 [F3 [F4 [F5 F6]]]]].
  fold sfx in F1, F2, F3, F6. fold map1 in F6.
  destruct (chunk_map2_inverse n sfx F1 F2 F3 Hn) as [_ [_ G3]].
  fold map1 in G3. fold map2 in G3.
  remember (firstn 8 perm) as pre eqn:Epre.
  remember (map (fun v => nth v map2 0) pre) as q eqn:Eq.
  assert (In q prefix_table) as Hin.
  { apply prefix_table_In.
    assert (length q = 8) as Hq by (rewrite Eq, map_length; exact F4).
    split; [|exact Hq]. apply is_perm_iff. apply NoDup_lt_Perm.
    - rewrite Eq. apply NoDup_map_inj; [exact F5|].
      intros x y Hx Hy E.
      destruct (G3 x (F6 x Hx)) as [_ Ex]. destruct (G3 y (F6 y Hy)) as [_ Ey].
      rewrite <- Ex, <- Ey, E. reflexivity.
    - intros x Hx. rewrite Hq. rewrite Eq in Hx. apply in_map_iff in Hx as [v [<- Hv]].
      apply (G3 v (F6 v Hv)). }
  destruct (index_of_In prefix_table q prefix_table_NoDup Hin) as [k [Hk [_ Hk3]]].
  unfold prefix_to_rank, rank_to_prefix, RR.
  rewrite <- Epre, <- Eq, Hk, Hk3, Eq, map_map.
  rewrite <- (map_id pre) at 2. apply map_ext_in. intros v Hv.
  apply (G3 v (F6 v Hv)).
Qed.

Theorem unrank_rank n perm :
  is_perm perm = true -> length perm = n -> 8 <= n ->
  let sfx := skipn 8 perm in
  let map1 := chunk_map1 n sfx in
  let map2 := chunk_map2 n map1 in
  forall r, r < fact 8 -> prefix_to_rank (rank_to_prefix r map1 ++ sfx) map2 = r.
Proof.
  intros Hp Hlen Hn sfx map1 map2. apply is_perm_iff in Hp.
  destruct (perm_split_facts n perm Hp Hlen Hn) as [F1 [F2 [F3 _]]].
  exact (unrank_rank_sfx n sfx F1 F2 F3 Hn).
Qed.

(* the unranked prefix glued to the suffix is again a permutation of [0..n-1] *)
Theorem rank_to_prefix_is_perm n sfx :
  NoDup sfx -> (forall x, In x sfx -> x < n) -> length sfx = n - 8 -> 8 <= n ->
  forall r, r < fact 8 ->
  is_perm (rank_to_prefix r (chunk_map1 n sfx) ++ sfx) = true /\
  length (rank_to_prefix r (chunk_map1 n sfx) ++ sfx) = n.
Proof.
  intros Hnd Hlt Hlen Hn r Hr.
  destruct (chunk_map1_spec n sfx Hnd Hlt Hlen Hn) as [HL [_ HI]].
  destruct (prefix_table_nth r Hr) as [HP HL8].
  unfold rank_to_prefix.
  remember (nth r prefix_table []) as p8 eqn:Ep8.
  remember (chunk_map1 n sfx) as map1 eqn:Em1.
  assert (length (map (fun d => nth d map1 0) p8 ++ sfx) = n) as Hlen'.
  { rewrite app_length, map_length. lia. }
  split; [|exact Hlen']. apply is_perm_iff. apply NoDup_lt_Perm.
  - apply NoDup_app_intro; [|exact Hnd|].
    + apply NoDup_map_inj; [apply Perm_NoDup; exact HP|].
      intros x y Hx Hy E. apply (Perm_In p8 x HP) in Hx. apply (Perm_In p8 y HP) in Hy.
      assert (NoDup map1) as Hnd1 by (rewrite Em1; apply chunk_map1_NoDup).
      apply (proj1 (NoDup_nth map1 0) Hnd1); lia.
    + intros x Hx Hs. apply in_map_iff in Hx as [d [<- Hd]].
      apply (Perm_In p8 d HP) in Hd.
      assert (In (nth d map1 0) map1) as Hin by (apply nth_In; lia).
      apply HI in Hin. tauto.
  - intros x Hx. rewrite Hlen'. apply in_app_or in Hx as [Hx|Hx]; [|auto].
    apply in_map_iff in Hx as [d [<- Hd]]. apply (Perm_In p8 d HP) in Hd.
    assert (In (nth d map1 0) map1) as Hin by (apply nth_In; lia).
    apply HI in Hin. tauto.
Qed.

Lemma rank_to_prefix_length r map1 : r < fact 8 -> length (rank_to_prefix r map1) = 8.
Proof.
  intros Hr. unfold rank_to_prefix. rewrite map_length. apply (prefix_table_nth r Hr).
Qed.

(* the glued permutation lies in the same chunk: its suffix is [sfx] *)
Theorem rank_to_prefix_suffix r map1 sfx : r < fact 8 ->
  firstn 8 (rank_to_prefix r map1 ++ sfx) = rank_to_prefix r map1 /\
  skipn 8 (rank_to_prefix r map1 ++ sfx) = sfx.
Proof.
  intros Hr. pose proof (rank_to_prefix_length r map1 Hr) as HL. split.
  - rewrite firstn_app, HL, Nat.sub_diag, firstn_O, app_nil_r.
    apply firstn_all2. lia.
  - rewrite skipn_app, HL, Nat.sub_diag, skipn_O.
    rewrite skipn_all2 by lia. reflexivity.
Qed.

(* ================= popcount ================= *)

(* NOTE: [popcount64] is always unfolded by rewriting with this equation, never by conversion
   inside a hypothesis: comparing the two half-evaluated 64-step filters makes the kernel
   explore both branches of every [if] (2^64 paths). *)
Lemma popcount64_eq x :
  popcount64 x = length (filter (fun i => Z.testbit x (Z.of_nat i)) (seq 0 64)).
Proof. reflexivity. Qed.

Theorem popcount64_spec x :
  popcount64 x = length (filter (fun i => Z.testbit x (Z.of_nat i)) (seq 0 64)) /\
  popcount64 x <= 64.
Proof.
  split; [apply popcount64_eq|]. rewrite popcount64_eq.
  pose proof (filter_length_split (fun i => Z.testbit x (Z.of_nat i)) (seq 0 64)) as H.
  rewrite seq_length in H. lia.
Qed.

Lemma filter_nil_forall {A} (f : A -> bool) l : length (filter f l) = 0 -> forall a, In a l -> f a = false.
Proof.
  induction l as [|b t IH]; intros H a Ha; simpl in *; [contradiction|].
  destruct (f b) eqn:E; simpl in H; [discriminate|].
  destruct Ha as [->|Ha]; auto.
Qed.

Lemma popcount64_zero_bits x : popcount64 x = 0 ->
  forall a, a < 64 -> Z.testbit x (Z.of_nat a) = false.
Proof.
  intros H0 a Ha. rewrite popcount64_eq in H0.
  apply (filter_nil_forall (fun i => Z.testbit x (Z.of_nat i)) (seq 0 64) H0 a).
  apply in_seq. lia.
Qed.

Lemma popcount64_0 : popcount64 0 = 0.
Proof.
  rewrite popcount64_eq.
  assert (forall l, filter (fun i => Z.testbit 0 (Z.of_nat i)) l = []) as Hnil.
  { induction l as [|a t IH]; simpl; auto. rewrite Z.bits_0. exact IH. }
  rewrite Hnil. reflexivity.
Qed.

Theorem popcount64_zero_iff x : (0 <= x < 2 ^ 64)%Z -> (popcount64 x = 0 <-> x = 0%Z).
Proof.
  intros Hx. split.
  - intros H0. pose proof (popcount64_zero_bits x H0) as Hb.
    apply Z.bits_inj'. intros m Hm. rewrite Z.bits_0.
    destruct (Z_lt_le_dec m 64) as [Hlt|Hge].
    + rewrite <- (Z2Nat.id m Hm). apply Hb.
      change 64 with (Z.to_nat 64). apply Z2Nat.inj_lt; lia.
    + destruct (Z.eq_dec x 0) as [Hz|Hne]; [rewrite Hz; apply Z.bits_0|].
      apply Z.bits_above_log2; [lia|]. apply Z.lt_le_trans with (m := 64%Z); [|exact Hge].
      apply Z.log2_lt_pow2; lia.
  - intros Hz. rewrite Hz. apply popcount64_0.
Qed.

Lemma filter_count_flip {A} (f g : A -> bool) (k : A) l :
  NoDup l -> In k l -> f k = true -> g k = false -> (forall i, i <> k -> f i = g i) ->
  length (filter f l) = S (length (filter g l)).
Proof.
  intros Hnd Hin Hf Hg Hext. induction Hnd as [|a t Hna Hnd IH]; [contradiction|].
  simpl. destruct Hin as [->|Hin].
  - rewrite Hf, Hg. simpl. f_equal. f_equal. apply filter_ext_in.
    intros i Hi. apply Hext. intros ->. contradiction.
  - assert (a <> k) as Hak by (intros ->; contradiction).
    rewrite (Hext a Hak). destruct (g a); simpl; rewrite (IH Hin); reflexivity.
Qed.

(* _paint_gray:  gray[w] |= 1 << k  on a clear bit adds exactly one to the bit count *)
Theorem popcount64_set_bit x k : k < 64 -> Z.testbit x (Z.of_nat k) = false ->
  popcount64 (Z.lor x (Z.shiftl 1 (Z.of_nat k))) = S (popcount64 x).
Proof.
  intros Hk Hclear. rewrite !popcount64_eq, Z.shiftl_1_l.
  apply (filter_count_flip _ _ k).
  - apply seq_NoDup.
  - apply in_seq. lia.
  - rewrite Z.lor_spec, Z.pow2_bits_eqb by lia. rewrite Z.eqb_refl. apply orb_true_r.
  - exact Hclear.
  - intros i Hi. rewrite Z.lor_spec, Z.pow2_bits_eqb by lia.
    destruct (Z.eqb_spec (Z.of_nat k) (Z.of_nat i)) as [E|E]; [lia|]. apply orb_false_r.
Qed.

(* ================= non-vacuity: concrete instances ================= *)

Definition ex_perm9 : list nat := [3; 0; 8; 1; 2; 5; 4; 7; 6].
Definition ex_perm12 : list nat := [11; 3; 0; 8; 1; 10; 2; 5; 4; 9; 7; 6].

Example ex_chunk_hyps9 :
  NoDup [6] /\ (forall x, In x [6] -> x < 9) /\ length [6] = 9 - 8 /\ 8 <= 9.
Proof.
  split; [constructor; [simpl; tauto|constructor]|].
  split; [intros x [<-|[]]; lia|]. split; [reflexivity|lia].
Qed.

Example ex_chunk_map1_9 : chunk_map1 9 [6] = [0; 1; 2; 3; 4; 5; 7; 8].
Proof. vm_compute. reflexivity. Qed.

Example ex_chunk_map2_9 : chunk_map2 9 (chunk_map1 9 [6]) = [0; 1; 2; 3; 4; 5; 0; 6; 7].
Proof. vm_compute. reflexivity. Qed.

Example ex_chunk_map1_12 : chunk_map1 12 (skipn 8 ex_perm12) = [0; 1; 2; 3; 5; 8; 10; 11].
Proof. vm_compute. reflexivity. Qed.

Example ex_perm_hyps9 : is_perm ex_perm9 = true /\ length ex_perm9 = 9 /\ 8 <= 9.
Proof. split; [vm_compute; reflexivity|]. split; [reflexivity|lia]. Qed.

Example ex_perm_hyps12 : is_perm ex_perm12 = true /\ length ex_perm12 = 12 /\ 8 <= 12.
Proof. split; [vm_compute; reflexivity|]. split; [reflexivity|lia]. Qed.

(* the conclusion of rank_unrank, checked independently by running the model *)
Example ex_rank_unrank9 :
  let sfx := skipn 8 ex_perm9 in
  let map1 := chunk_map1 9 sfx in
  let map2 := chunk_map2 9 map1 in
  rank_to_prefix (prefix_to_rank ex_perm9 map2) map1 = firstn 8 ex_perm9.
Proof. vm_compute. reflexivity. Qed.

Example ex_rank_unrank12 :
  let sfx := skipn 8 ex_perm12 in
  let map1 := chunk_map1 12 sfx in
  let map2 := chunk_map2 12 map1 in
  rank_to_prefix (prefix_to_rank ex_perm12 map2) map1 = firstn 8 ex_perm12.
Proof. vm_compute. reflexivity. Qed.

(* the rank of the example is not the default 0 of a failed lookup *)
Example ex_rank_nonzero9 :
  prefix_to_rank ex_perm9 (chunk_map2 9 (chunk_map1 9 (skipn 8 ex_perm9))) <> 0.
Proof. vm_compute. discriminate. Qed.

Example ex_rank_hyp : 1000 < fact 8.
Proof. apply Nat.ltb_lt. vm_compute. reflexivity. Qed.

Example ex_unrank_rank9 :
  let sfx := skipn 8 ex_perm9 in
  let map1 := chunk_map1 9 sfx in
  let map2 := chunk_map2 9 map1 in
  prefix_to_rank (rank_to_prefix 1000 map1 ++ sfx) map2 = 1000.
Proof. vm_compute. reflexivity. Qed.

Example ex_rank_to_prefix9 : rank_to_prefix 1000 (chunk_map1 9 [6]) = [0; 2; 4; 3; 7; 8; 1; 5].
Proof. vm_compute. reflexivity. Qed.

Example ex_prefix_table_first : nth 0 prefix_table [] = [0; 1; 2; 3; 4; 5; 6; 7] /\
                                nth 1 prefix_table [] = [0; 1; 2; 3; 4; 5; 7; 6].
Proof. vm_compute. split; reflexivity. Qed.

Example ex_popcount : popcount64 0 = 0 /\ popcount64 5 = 2 /\ popcount64 (2 ^ 64 - 1) = 64 /\
                      popcount64 (Z.lor 5 (Z.shiftl 1 (Z.of_nat 1))) = 3.
Proof. vm_compute. repeat split; reflexivity. Qed.

Example ex_popcount_hyps : (0 <= 5 < 2 ^ 64)%Z /\ 1 < 64 /\ Z.testbit 5 (Z.of_nat 1) = false.
Proof. split; [lia|]. split; [lia|reflexivity]. Qed.

(* the theorems instantiate on the examples (hypotheses discharged by the Examples above) *)
Example ex_chunk_map1_spec9 :
  length (chunk_map1 9 [6]) = 8 /\ StronglySorted lt (chunk_map1 9 [6]) /\
  (forall i, In i (chunk_map1 9 [6]) <-> i < 9 /\ ~ In i [6]).
Proof.
  destruct ex_chunk_hyps9 as [H1 [H2 [H3 H4]]]. exact (chunk_map1_spec 9 [6] H1 H2 H3 H4).
Qed.

Example ex_rank_unrank12_thm :
  rank_to_prefix (prefix_to_rank ex_perm12
     (chunk_map2 12 (chunk_map1 12 (skipn 8 ex_perm12)))) (chunk_map1 12 (skipn 8 ex_perm12))
  = firstn 8 ex_perm12.
Proof.
  destruct ex_perm_hyps12 as [H1 [H2 H3]]. exact (rank_unrank 12 ex_perm12 H1 H2 H3).
Qed.

Example ex_unrank_rank9_thm :
  prefix_to_rank (rank_to_prefix 1000 (chunk_map1 9 (skipn 8 ex_perm9)) ++ skipn 8 ex_perm9)
     (chunk_map2 9 (chunk_map1 9 (skipn 8 ex_perm9))) = 1000.
Proof.
  destruct ex_perm_hyps9 as [H1 [H2 H3]]. exact (unrank_rank 9 ex_perm9 H1 H2 H3 1000 ex_rank_hyp).
Qed.

(* ================= assumptions audit ================= *)
Print Assumptions perms_In_iff.
Print Assumptions perms_length.
Print Assumptions perms_NoDup.
Print Assumptions prefix_table_complete.
Print Assumptions prefix_table_all.
Print Assumptions chunk_map1_spec.
Print Assumptions chunk_map2_inverse.
Print Assumptions prefix_to_rank_lt.
Print Assumptions rank_unrank.
Print Assumptions unrank_rank_sfx.
Print Assumptions unrank_rank.
Print Assumptions rank_to_prefix_is_perm.
Print Assumptions rank_to_prefix_suffix.
Print Assumptions popcount64_spec.
Print Assumptions popcount64_zero_iff.
Print Assumptions popcount64_set_bit.
